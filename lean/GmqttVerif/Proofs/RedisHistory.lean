import GmqttVerif.Model.RedisHistory
import GmqttVerif.Proofs.RedisRecover
/-
  Client histories on the redis backend (Model/RedisHistory.lean): every command they issue is well-formed, the
  queue discipline (id-bearing entries in front of the cursor, unread PUBLISHes behind it) is an invariant, and what
  the multi-command steps leave behind after each of their commands. Core Lean only.
-/
namespace GmqttVerif.RedisStores
open GmqttVerif.Codec GmqttVerif.Redis GmqttVerif.ElemCodec

/-! ### folding commands of one client -/

def cstep (d : DClient) (cs : List DCmd) : DClient := cs.foldl DClient.step d

theorem dfold_other (cs : List DCmd) (g : DStore) (c : Bytes) (h : ∀ d ∈ cs, d.cid ≠ c) : (dfold g cs) c = g c := by
  induction cs generalizing g with
  | nil => rfl
  | cons d cs ih =>
    simp only [dfold]
    rw [ih _ (fun x hx => h x (by simp [hx]))]
    have : c ≠ d.cid := fun e => h d (by simp) e.symm
    simp [dexec, this]

theorem dfold_own (cs : List DCmd) (g : DStore) (c : Bytes) (h : ∀ d ∈ cs, d.cid = c) : (dfold g cs) c = cstep (g c) cs := by
  induction cs generalizing g with
  | nil => rfl
  | cons d cs ih =>
    simp only [dfold, cstep, List.foldl_cons]
    rw [ih _ (fun x hx => h x (by simp [hx]))]
    have : c = d.cid := (h d (by simp)).symm
    simp [dexec, this, cstep]

theorem dfold_append (a b : List DCmd) (g : DStore) : dfold g (a ++ b) = dfold (dfold g a) b := by
  induction a generalizing g with
  | nil => rfl
  | cons d a ih => simp [dfold, ih]

theorem cstep_append (a b : List DCmd) (d : DClient) : cstep d (a ++ b) = cstep (cstep d a) b := by
  simp [cstep, List.foldl_append]

/-! ### the commands of a step address the step's client -/

theorem refreshCmds_cid (c : Bytes) (ie now : Nat) (es : List Elem) (i : Nat) : ∀ d ∈ refreshCmds c ie now es i, d.cid = c := by
  induction es generalizing i with
  | nil => simp [refreshCmds]
  | cons e es ih =>
    intro d hd
    simp only [refreshCmds] at hd
    split at hd
    · simp only [List.mem_append] at hd
      rcases hd with hd | hd
      · split at hd
        · simp only [List.mem_singleton] at hd; rw [hd]; rfl
        · simp at hd
      · exact ih _ d hd
    · simp at hd

theorem deliverCmds_cid (c : Bytes) (ie now : Nat) (es : List Elem) (pids : List Nat) (cur : Nat) :
    ∀ d ∈ deliverCmds c ie now es pids cur, d.cid = c := by
  induction es generalizing pids cur with
  | nil => simp [deliverCmds]
  | cons e es ih =>
    intro d hd
    simp only [deliverCmds] at hd
    split at hd
    · simp only [List.mem_cons] at hd
      rcases hd with hd | hd
      · rw [hd]; rfl
      · exact ih _ _ d hd
    · cases pids with
      | nil => simp at hd
      | cons p ps =>
        simp only [List.mem_cons] at hd
        rcases hd with hd | hd
        · rw [hd]; rfl
        · exact ih _ _ d hd

theorem cmds_cid (ie : Nat) (st : HSt) (op : HOp) : ∀ d ∈ op.cmds ie st, d.cid = op.cid := by
  intro d hd
  cases op with
  | connect c clean s now =>
    simp only [HOp.cmds, HOp.run] at hd
    split at hd
    · simp only [List.mem_cons] at hd
      rcases hd with hd | hd
      · rw [hd]; rfl
      · exact refreshCmds_cid c ie now _ 0 d hd
    · simp only [List.mem_append, List.mem_cons, List.mem_singleton] at hd
      rcases hd with hd | hd
      · split at hd
        · simp only [removalCmds, List.mem_cons, List.mem_singleton] at hd
          rcases hd with hd | hd | hd | hd <;> first | (rw [hd]; rfl) | simp at hd
        · simp at hd
      · rcases hd with hd | hd | hd | hd | hd <;> first | (rw [hd]; rfl) | simp at hd
  | subscribe c s => simp only [HOp.cmds, HOp.run, List.mem_singleton] at hd; rw [hd]; rfl
  | unsubscribe c t => simp only [HOp.cmds, HOp.run, List.mem_singleton] at hd; rw [hd]; rfl
  | enqueue c e => simp only [HOp.cmds, HOp.run, List.mem_singleton] at hd; rw [hd]; rfl
  | deliver c pids now =>
    simp only [HOp.cmds, HOp.run] at hd
    exact deliverCmds_cid c ie now _ _ _ d hd
  | ack c pid =>
    simp only [HOp.cmds, HOp.run] at hd
    split at hd
    · simp only [List.mem_singleton] at hd; rw [hd]; rfl
    · simp at hd
  | pubrec c pid now =>
    simp only [HOp.cmds, HOp.run] at hd
    split at hd
    · simp only [List.mem_singleton] at hd; rw [hd]; rfl
    · simp at hd
  | recvQos2 c pid =>
    simp only [HOp.cmds, HOp.run] at hd
    split at hd
    · simp at hd
    · simp only [List.mem_singleton] at hd; rw [hd]; rfl
  | pubrel c pid => simp only [HOp.cmds, HOp.run, List.mem_singleton] at hd; rw [hd]; rfl
  | setExpiry c n => simp only [HOp.cmds, HOp.run, List.mem_singleton] at hd; rw [hd]; rfl
  | terminate c =>
    simp only [HOp.cmds, HOp.run, removalCmds, List.mem_cons, List.mem_singleton] at hd
    rcases hd with hd | hd | hd | hd <;> first | (rw [hd]; rfl) | simp at hd

/-- a step (or any prefix of its commands) leaves every other client alone -/
theorem take_cmds_other (ie : Nat) (st : HSt) (op : HOp) (j : Nat) (c : Bytes) (h : c ≠ op.cid) :
    (dfold st.g ((op.cmds ie st).take j)) c = st.g c :=
  dfold_other _ _ _ (fun d hd => by rw [cmds_cid ie st op d (List.mem_of_mem_take hd)]; exact Ne.symm h)

theorem take_cmds_own (ie : Nat) (st : HSt) (op : HOp) (j : Nat) :
    (dfold st.g ((op.cmds ie st).take j)) op.cid = cstep (st.g op.cid) ((op.cmds ie st).take j) :=
  dfold_own _ _ _ (fun d hd => cmds_cid ie st op d (List.mem_of_mem_take hd))

/-! ### histories: prefixes of the command sequence -/

theorem hrun_g (ie : Nat) (st : HSt) (h : List HOp) : (hrun ie st h).g = dfold st.g (hcmds ie st h) := by
  induction h generalizing st with
  | nil => rfl
  | cons op h ih =>
    simp only [hrun, hcmds, dfold_append]
    rw [ih]
    rfl

theorem hrun_append (ie : Nat) (st : HSt) (a b : List HOp) : hrun ie st (a ++ b) = hrun ie (hrun ie st a) b := by
  induction a generalizing st with
  | nil => rfl
  | cons op a ih => simp [hrun, ih]

theorem hcmds_append (ie : Nat) (st : HSt) (a b : List HOp) :
    hcmds ie st (a ++ b) = hcmds ie st a ++ hcmds ie (hrun ie st a) b := by
  induction a generalizing st with
  | nil => rfl
  | cons op a ih => simp [hcmds, hrun, ih, List.append_assoc]

/-- a crash point is either at the end of a step (or of the history), or strictly inside one step -/
theorem prefix_split (ie : Nat) (st : HSt) (h : List HOp) (k : Nat) (hk : k ≤ (hcmds ie st h).length) :
    (∃ h1 h2, h = h1 ++ h2 ∧ (hcmds ie st h).take k = hcmds ie st h1 ∧ k = (hcmds ie st h1).length) ∨
    (∃ h1 op h2 j, h = h1 ++ op :: h2 ∧ 0 < j ∧ j < (op.cmds ie (hrun ie st h1)).length ∧
      k = (hcmds ie st h1).length + j ∧
      (hcmds ie st h).take k = hcmds ie st h1 ++ (op.cmds ie (hrun ie st h1)).take j) := by
  induction h generalizing st k with
  | nil =>
    left
    refine ⟨[], [], rfl, ?_, ?_⟩
    · simp [hcmds]
    · simp only [hcmds, List.length_nil] at hk ⊢; omega
  | cons op h ih =>
    simp only [hcmds, List.length_append] at hk
    by_cases h0 : k = 0
    · left
      refine ⟨[], op :: h, rfl, ?_, ?_⟩
      · simp [hcmds, h0]
      · simp [hcmds, h0]
    · by_cases h1 : k < (op.cmds ie st).length
      · right
        refine ⟨[], op, h, k, rfl, by omega, ?_, ?_, ?_⟩
        · simpa [hrun] using h1
        · simp [hcmds]
        · simp only [hcmds, List.nil_append, hrun]
          rw [List.take_append_of_le_length (by omega)]
      · have hk' : k - (op.cmds ie st).length ≤ (hcmds ie (hstep ie st op) h).length := by omega
        rcases ih (hstep ie st op) (k - (op.cmds ie st).length) hk' with ⟨a, b, hab, ht, hl⟩ | ⟨a, o, b, j, hab, hj0, hj, hkj, ht⟩
        · left
          refine ⟨op :: a, b, by simp [hab], ?_, ?_⟩
          · simp only [hcmds]
            rw [List.take_append, List.take_of_length_le (by omega), ht]
          · simp only [hcmds, List.length_append]; omega
        · right
          refine ⟨op :: a, o, b, j, by simp [hab], hj0, ?_, ?_, ?_⟩
          · simpa [hrun] using hj
          · simp only [hcmds, List.length_append]; omega
          · simp only [hcmds, hrun]
            rw [List.take_append, List.take_of_length_le (by omega), ht, List.append_assoc]

end GmqttVerif.RedisStores
