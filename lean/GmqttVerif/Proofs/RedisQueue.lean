import GmqttVerif.Model.RedisQueue
import GmqttVerif.Proofs.Queue
import GmqttVerif.Proofs.RedisStore
/-
  `persistence/queue/redis` (Model/RedisQueue.lean: redis list + cursor + readCache, LRANGE/decode/decide,
  RPUSH / LSET index / LREM 1 bytes) refines `persistence/queue/mem` (Model/Queue.lean): the same outputs for the
  same operation, and the simulation relation is kept. Core Lean only.

  Element encoding: ANY codec with `dec (enc e) = some e` (then `enc` is injective: no two different elements are
  byte-identical). "No two list entries are byte-identical" is the invariant that the ghost tags of the entries are
  pairwise distinct.
-/
namespace GmqttVerif.RedisQueue
open GmqttVerif.Codec (Bytes)
open GmqttVerif.Redis
open GmqttVerif.Queue (Elem Q Reason extractFirst)

structure Codec where
  enc : Elem → Bytes
  dec : Bytes → Option Elem
  rt : ∀ e, dec (enc e) = some e

theorem Codec.inj (C : Codec) {a b : Elem} (h : C.enc a = C.enc b) : a = b := by
  have h1 := C.rt a
  rw [h, C.rt b] at h1
  exact (Option.some.inj h1).symm

/-- the memory queue's element operations, over the codec -/
def ops (C : Codec) : ElemOps Elem where
  enc := C.enc
  dec := C.dec
  id := (·.id)
  isPub := (·.pub)
  qos := (·.qos)
  expired := Queue.expired
  assign := fun e p now ie => { e with id := p, exp := if ie != 0 then some (now + ie) else e.exp }
  refresh := fun e now ie => { e with exp := if ie != 0 then some (now + ie) else e.exp }
  size := (·.size)

def evOf : Ev Elem → Queue.Ev
  | .dropped e r => .dropped e r
  | .inflight d => .inflight d
  | .queued d => .queued d

/-! ### the list under the queue key -/

/-- effect of a command of the queue code on the list it addresses -/
def lstep (xs : List Bytes) : Cmd → List Bytes
  | .rpush _ v => xs ++ [v]
  | .lset _ i v => xs.set i.toNat v
  | .lrem _ _ v => xs.erase v
  | .del _ => []
  | _ => xs

/-- the forms the queue code issues -/
def QCmd (k : Bytes) : Cmd → Prop
  | .rpush k' _ => k' = k
  | .lset k' i _ => k' = k ∧ 0 ≤ i
  | .lrem k' n _ => k' = k ∧ n = 1
  | .del k' => k' = k
  | .llen k' => k' = k
  | .lrange k' _ _ => k' = k
  | _ => False

theorem lremHead_one_eq_erase (xs : List Bytes) (v : Bytes) : (lremHead xs v false 1).1 = xs.erase v := by
  induction xs with
  | nil => simp [lremHead]
  | cons x xs ih =>
    by_cases h : x = v
    · subst h
      have h0 : ∀ (l : List Bytes), (lremHead l x false 0).1 = l := by
        intro l
        induction l with
        | nil => simp [lremHead]
        | cons y l ihl => simp [lremHead, ihl]
      simp [lremHead, h0]
    · have hb : (x == v) = false := by simp [h]
      simp [lremHead, h, ih, List.erase_cons, hb]

theorem listAt_apply_q (ds : Dataset) (k : Bytes) (xs : List Bytes) (c : Cmd) (hq : QCmd k c) (hn : NoDupKeys ds)
    (h : listAt ds k = some xs) :
    listAt (apply ds c) k = some (lstep xs c) ∧ NoDupKeys (apply ds c) := by
  refine ⟨?_, noDup_exec ds c hn⟩
  cases c with
  | rpush k' v =>
    simp only [QCmd] at hq; subst hq
    exact RedisStores.listAt_apply_rpush ds _ v xs h
  | lset k' i v =>
    simp only [QCmd] at hq
    obtain ⟨hk, hi⟩ := hq
    subst hk
    obtain ⟨n, rfl⟩ := Int.eq_ofNat_of_zero_le hi
    simpa [lstep] using RedisStores.listAt_apply_lset ds _ v n xs h
  | lrem k' n v =>
    simp only [QCmd] at hq
    obtain ⟨hk, hn1⟩ := hq
    subst hk; subst hn1
    rw [RedisStores.listAt_apply_lrem1 ds _ v xs hn h, lremHead_one_eq_erase]
    rfl
  | del k' =>
    simp only [QCmd] at hq; subst hq
    exact RedisStores.listAt_apply_del ds _ hn
  | llen k' =>
    simp only [apply, exec]
    split <;> simpa [lstep] using h
  | lrange k' a b =>
    simp only [apply, exec]
    split <;> simpa [lstep] using h
  | hset _ _ => exact absurd hq (by simp [QCmd])
  | hdel _ _ => exact absurd hq (by simp [QCmd])
  | hgetall _ => exact absurd hq (by simp [QCmd])
  | hmget _ _ => exact absurd hq (by simp [QCmd])

theorem listAt_applyAll_q (cs : List Cmd) (ds : Dataset) (k : Bytes) (xs : List Bytes) (hq : ∀ c ∈ cs, QCmd k c)
    (hn : NoDupKeys ds) (h : listAt ds k = some xs) :
    listAt (applyAll ds cs) k = some (cs.foldl lstep xs) ∧ NoDupKeys (applyAll ds cs) := by
  induction cs generalizing ds xs with
  | nil => exact ⟨h, hn⟩
  | cons c cs ih =>
    obtain ⟨h1, h2⟩ := listAt_apply_q ds k xs c (hq c (by simp)) hn h
    exact ih _ _ (fun x hx => hq x (by simp [hx])) h2 h1

/-! ### LRANGE as take / drop -/

theorem rangeBounds_nat (n s e : Nat) :
    rangeBounds n (s : Int) (e : Int) = if s > e ∨ s ≥ n then (0, 0) else (s, min e (n - 1) + 1) := by
  simp only [rangeBounds]
  have h1 : ¬ ((s : Int) < 0) := by omega
  have h2 : ¬ ((e : Int) < 0) := by omega
  simp only [h1, h2, if_false]
  by_cases hc : s > e ∨ s ≥ n
  · have : ((s : Int) > (e : Int) ∨ (s : Int) ≥ (n : Int)) := by omega
    simp only [this, hc, if_true]
  · have : ¬ ((s : Int) > (e : Int) ∨ (s : Int) ≥ (n : Int)) := by omega
    simp only [this, hc, if_false]
    by_cases he : (e : Int) ≥ (n : Int)
    · simp only [he, if_true]
      refine Prod.ext (by simp) ?_
      simp only
      omega
    · simp only [he, if_false]
      refine Prod.ext (by simp) ?_
      simp only [Int.toNat_natCast]
      omega

theorem lrange_all (xs : List Bytes) : lrange xs 0 (-1) = xs := by
  cases xs with
  | nil => simp [lrange, rangeBounds]
  | cons x xs =>
    have hb : rangeBounds (x :: xs).length 0 (-1) = (0, xs.length + 1) := by
      simp only [rangeBounds, List.length_cons]
      have h1 : ¬ ((0 : Int) < 0) := by omega
      have h2 : ((-1 : Int) < 0) := by omega
      simp only [h1, h2, if_false, if_true]
      have h3 : ¬ ((0 : Int) > -1 + ((xs.length + 1 : Nat) : Int) ∨ (0 : Int) ≥ ((xs.length + 1 : Nat) : Int)) := by omega
      simp only [h3, if_false]
      have h4 : ¬ (-1 + ((xs.length + 1 : Nat) : Int) ≥ ((xs.length + 1 : Nat) : Int)) := by omega
      simp only [h4, if_false]
      refine Prod.ext (by simp) ?_
      simp only
      omega
    simp only [lrange, hb]
    simp

theorem lrange_window (xs : List Bytes) (c n : Nat) (hn : 0 < n) :
    lrange xs (c : Int) (((c + n : Nat) : Int) - 1) = (xs.drop c).take n := by
  have he : ((c + n : Nat) : Int) - 1 = ((c + n - 1 : Nat) : Int) := by omega
  rw [he]
  simp only [lrange, rangeBounds_nat]
  by_cases hc : c > c + n - 1 ∨ c ≥ xs.length
  · simp only [hc, if_true]
    have : xs.length ≤ c := by omega
    rw [List.drop_of_length_le this]
    simp
  · simp only [hc, if_false]
    by_cases hm : c + n - 1 ≤ xs.length - 1
    · rw [Nat.min_eq_left hm]
      have : c + n - 1 + 1 - c = n := by omega
      rw [this]
    · rw [Nat.min_eq_right (by omega)]
      rw [List.take_of_length_le (by simp; omega), List.take_of_length_le (by simp; omega)]

theorem lrange_prefix (xs : List Bytes) (c : Nat) (hc : 0 < c) : lrange xs 0 ((c : Int) - 1) = xs.take c := by
  have := lrange_window xs 0 c hc
  simpa using this

/-! ### decoding what was encoded -/

theorem decodeAll_map (C : Codec) (l : List Elem) : decodeAll (ops C) (l.map C.enc) = some l := by
  induction l with
  | nil => rfl
  | cons e l ih =>
    have hd : (ops C).dec (C.enc e) = some e := C.rt e
    simp only [List.map_cons, decodeAll, hd, ih]

theorem erase_map_enc (C : Codec) (l : List Elem) (v : Elem) : (l.map C.enc).erase (C.enc v) = (l.erase v).map C.enc := by
  induction l with
  | nil => simp
  | cons x l ih =>
    by_cases h : x = v
    · subst h; simp
    · have hne : C.enc x ≠ C.enc v := fun he => h (C.inj he)
      have hb1 : (C.enc x == C.enc v) = false := by simp [hne]
      have hb2 : (x == v) = false := by simp [h]
      simp [List.erase_cons, hb1, hb2, ih]

theorem set_map_enc (C : Codec) (l : List Elem) (i : Nat) (v : Elem) : (l.map C.enc).set i (C.enc v) = (l.set i v).map C.enc := by
  simp [List.map_set]

/-! ### the simulation relation -/

def nzIds (l : List Elem) : List Nat := (l.filter (fun x => x.id != 0)).map (·.id)

structure Sim (C : Codec) (rq : RQ) (ds : Dataset) (q : Q) : Prop where
  nodup : NoDupKeys ds
  list : listAt ds rq.key = some (q.items.map C.enc)
  len : rq.len = q.items.length
  cur : rq.cur = q.done.length
  cache : ∀ id, cacheGet rq.cache id = (q.done.find? (fun x => x.id == id)).map C.enc
  drained : rq.drained = q.drained
  closed : rq.closed = q.closed
  max : rq.max = q.max
  ie : rq.ie = q.ie
  limit : rq.limit = q.limit
  /-- no two list entries are byte-identical: the ghost tags are pairwise distinct -/
  tags : (Queue.tags q.items).Nodup
  /-- packet ids in use are pairwise distinct -/
  ids : (nzIds q.items).Nodup
  inv : Queue.Inv q

theorem cacheGet_del (c : List (Nat × Bytes)) (id id' : Nat) :
    cacheGet (cacheDel c id) id' = if id' = id then none else cacheGet c id' := by
  induction c with
  | nil => simp [cacheDel, cacheGet]
  | cons p c ih =>
    obtain ⟨i, b⟩ := p
    simp only [cacheDel] at ih
    by_cases h1 : i = id
    · subst h1
      by_cases h2 : id' = i
      · subst h2
        simpa [cacheDel, List.filter_cons, cacheGet] using ih
      · have : ¬ i = id' := fun h => h2 h.symm
        simp only [cacheDel, List.filter_cons, bne_self_eq_false, Bool.false_eq_true, if_false, cacheGet, this, h2]
        simpa [h2] using ih
    · have hb : (i != id) = true := by simp [h1]
      simp only [cacheDel, List.filter_cons, hb, if_true, cacheGet]
      by_cases h2 : i = id'
      · subst h2
        simp [h1]
      · simp only [h2, if_false]
        exact ih

theorem cacheGet_append_single (c : List (Nat × Bytes)) (id id' : Nat) (b : Bytes) :
    cacheGet (c ++ [(id, b)]) id' = match cacheGet c id' with
      | some x => some x
      | none => if id = id' then some b else none := by
  induction c with
  | nil => simp [cacheGet]
  | cons p c ih =>
    obtain ⟨i, x⟩ := p
    by_cases h : i = id'
    · simp [cacheGet, h]
    · simp [cacheGet, h, ih]

theorem cacheGet_put (c : List (Nat × Bytes)) (id id' : Nat) (b : Bytes) :
    cacheGet (cachePut c id b) id' = if id' = id then some b else cacheGet c id' := by
  simp only [cachePut, cacheGet_append_single, cacheGet_del]
  by_cases h : id' = id
  · subst h; simp
  · have : ¬ id = id' := fun e => h e.symm
    simp only [h, this, if_false]
    cases cacheGet c id' <;> rfl

theorem erase_eq_eraseP_of_find {p : Elem → Bool} {l : List Elem} {v : Elem} (h : l.find? p = some v) :
    l.erase v = l.eraseP p := by
  induction l with
  | nil => simp at h
  | cons x l ih =>
    simp only [List.find?_cons] at h
    cases hp : p x
    · simp only [hp] at h
      have hne : x ≠ v := by
        intro e
        have := List.find?_some h
        rw [← e, hp] at this
        exact absurd this (by decide)
      have hb : (x == v) = false := by simp [hne]
      simp [List.erase_cons, hb, List.eraseP_cons, hp, ih h]
    · simp only [hp, Option.some.injEq] at h
      subst h
      simp [List.eraseP_cons, hp]

theorem nzIds_append (a b : List Elem) : nzIds (a ++ b) = nzIds a ++ nzIds b := by
  simp [nzIds, List.filter_append]

theorem mem_nzIds_of_mem {l : List Elem} {x : Elem} (h : x ∈ l) (hx : x.id ≠ 0) : x.id ∈ nzIds l := by
  simp only [nzIds, List.mem_map, List.mem_filter]
  exact ⟨x, ⟨h, by simp [hx]⟩, rfl⟩

/-- with distinct ids, after removing the first entry carrying `pid` none is left -/
theorem find_eraseP_none (l : List Elem) (pid : Nat) (hpid : pid ≠ 0) (hn : (nzIds l).Nodup) :
    (l.eraseP (fun x => x.id == pid)).find? (fun x => x.id == pid) = none := by
  induction l with
  | nil => simp
  | cons x l ih =>
    by_cases hx : x.id = pid
    · have hb : (x.id == pid) = true := by simp [hx]
      simp only [List.eraseP_cons, hb, cond_true]
      rw [List.find?_eq_none]
      intro y hy hyid
      simp only [beq_iff_eq] at hyid
      have hx0 : (x.id != 0) = true := by simp [hx, hpid]
      simp only [nzIds, List.filter_cons, hx0, if_true, List.map_cons, List.nodup_cons] at hn
      apply hn.1
      rw [hx, ← hyid]
      exact mem_nzIds_of_mem hy (by rw [hyid]; exact hpid)
    · have hb : (x.id == pid) = false := by simp [hx]
      simp only [List.eraseP_cons, hb, cond_false, List.find?_cons]
      apply ih
      simp only [nzIds, List.filter_cons] at hn
      split at hn
      · exact (List.nodup_cons.mp hn).2
      · exact hn

theorem find_eraseP_ne (l : List Elem) (pid id : Nat) (h : id ≠ pid) :
    (l.eraseP (fun x => x.id == pid)).find? (fun x => x.id == id) = l.find? (fun x => x.id == id) := by
  induction l with
  | nil => simp
  | cons x l ih =>
    by_cases hx : x.id = pid
    · have hb : (x.id == pid) = true := by simp [hx]
      have hb2 : (x.id == id) = false := by simp [hx, Ne.symm h]
      simp [List.eraseP_cons, hb, List.find?_cons, hb2]
    · have hb : (x.id == pid) = false := by simp [hx]
      simp only [List.eraseP_cons, hb, cond_false, List.find?_cons, ih]

/-! ### operations that touch at most one entry -/

theorem sim_close (C : Codec) (rq : RQ) (ds : Dataset) (q : Q) (h : Sim C rq ds q) :
    Sim C (close (ε := Elem) rq).q (applyAll ds (close (ε := Elem) rq).cmds) q.close := by
  obtain ⟨a1, a2, a3, a4, a5, a6, a7, a8, a9, a10, a11, a12, a13⟩ := h
  exact ⟨a1, a2, a3, a4, a5, a6, rfl, a8, a9, a10, a11, a12, a13⟩

theorem qremove_eq (q : Q) (pid : Nat) :
    q.remove pid = match q.done.find? (fun x => x.id == pid) with
      | some v => ({ q with done := q.done.eraseP (fun x => x.id == pid) }, [.queued (-1), .inflight (-1)], some v)
      | none => (q, [], none) := by
  simp only [Q.remove, Queue.extractFirst_eq]
  cases q.done.find? (fun x => x.id == pid) <;> rfl

/-- `Remove(pid)`: the same notifier calls, and the relation is kept -/
theorem sim_remove (C : Codec) (rq : RQ) (ds : Dataset) (q : Q) (pid : Nat) (h : Sim C rq ds q) (hpid : pid ≠ 0) :
    ((remove rq pid : Res Elem).evs.map evOf = (q.remove pid).2.1) ∧ (remove rq pid : Res Elem).status = .ok ∧
      Sim C (remove rq pid : Res Elem).q (applyAll ds (remove rq pid : Res Elem).cmds) (q.remove pid).1 := by
  have hc := h.cache pid
  rw [qremove_eq]
  cases hf : q.done.find? (fun x => x.id == pid) with
  | none =>
    rw [hf] at hc
    simp only [Option.map_none] at hc
    simp only [remove, hc]
    exact ⟨rfl, trivial, h⟩
  | some v =>
    rw [hf] at hc
    simp only [Option.map_some] at hc
    simp only [remove, hc]
    refine ⟨rfl, trivial, ?_⟩
    have hvd : v ∈ q.done := List.mem_of_find?_eq_some hf
    have hitems : q.items.erase v = q.done.eraseP (fun x => x.id == pid) ++ q.rest := by
      simp only [Q.items]
      rw [List.erase_append_left _ hvd, erase_eq_eraseP_of_find hf]
    obtain ⟨l1, l2⟩ := listAt_applyAll_q [Cmd.lrem rq.key 1 (C.enc v)] ds rq.key _ (by simp [QCmd]) h.nodup h.list
    simp only [List.foldl_cons, List.foldl_nil, lstep, erase_map_enc, hitems] at l1
    have hpv := List.find?_some hf
    have hlen : (q.done.eraseP (fun x => x.id == pid)).length = q.done.length - 1 := List.length_eraseP_of_mem hvd hpv
    have hpos : 0 < q.done.length := List.length_pos_of_mem hvd
    have hsub : (q.done.eraseP (fun x => x.id == pid) ++ q.rest).Sublist q.items :=
      List.Sublist.append_right List.eraseP_sublist _
    have hl := h.len
    have hcu := h.cur
    simp only [Q.items, List.length_append] at hl
    refine ⟨l2, l1, ?_, ?_, ?_, h.drained, h.closed, h.max, h.ie, h.limit, ?_, ?_, ?_⟩
    · simp only [Q.items, List.length_append, hlen]; omega
    · simp only [hlen]; omega
    · intro id
      rw [cacheGet_del, h.cache id]
      by_cases hid : id = pid
      · subst hid
        have hnd : (nzIds q.done).Nodup := by
          have := h.ids
          simp only [Q.items, nzIds_append] at this
          exact (List.nodup_append.mp this).1
        simp [find_eraseP_none q.done id hpid hnd]
      · simp [hid, find_eraseP_ne q.done pid id hid]
    · exact (List.Sublist.map _ hsub).nodup h.tags
    · exact (List.Sublist.map _ (List.Sublist.filter _ hsub)).nodup h.ids
    · have := Queue.step_inv q (.remove pid) trivial h.inv
      simpa [Queue.step, qremove_eq, hf] using this

/-- `Add` on a queue that is not full: one RPUSH, the same notifier call -/
theorem sim_add_notfull (C : Codec) (rq : RQ) (ds : Dataset) (q : Q) (now : Nat) (e : Elem) (h : Sim C rq ds q)
    (hfull : q.items.length < q.max) (hpub : e.pub = true) (hid : e.id = 0) (htag : e.tag ∉ Queue.tags q.items) :
    (add (ops C) rq ds now e).evs.map evOf = (q.add now e).2 ∧ (add (ops C) rq ds now e).status = .ok ∧
      Sim C (add (ops C) rq ds now e).q (applyAll ds (add (ops C) rq ds now e).cmds) (q.add now e).1 := by
  have hnf : ¬ (rq.len ≥ rq.max) := by rw [h.len, h.max]; omega
  have hnf' : ¬ (q.items.length ≥ q.max) := by omega
  simp only [add, hnf, if_false, Q.add, hnf']
  refine ⟨rfl, trivial, ?_⟩
  obtain ⟨l1, l2⟩ := listAt_applyAll_q [Cmd.rpush rq.key ((ops C).enc e)] ds rq.key _ (by simp [QCmd]) h.nodup h.list
  simp only [List.foldl_cons, List.foldl_nil, lstep] at l1
  have hitems : ({ q with rest := q.rest ++ [e] } : Q).items = q.items ++ [e] := by simp [Q.items]
  refine ⟨l2, ?_, ?_, h.cur, h.cache, h.drained, h.closed, h.max, h.ie, h.limit, ?_, ?_, ?_⟩
  · rw [hitems]; simpa [ops] using l1
  · rw [hitems]; simp [h.len]
  · rw [hitems]
    simp only [Queue.tags_append, Queue.tags_cons, Queue.tags_nil]
    exact List.nodup_append.mpr ⟨h.tags, by simp, by
      intro a ha b hb
      simp only [List.mem_singleton] at hb
      subst hb
      exact fun hab => htag (hab ▸ ha)⟩
  · rw [hitems, nzIds_append]
    have : nzIds [e] = [] := by simp [nzIds, hid]
    rw [this, List.append_nil]
    exact h.ids
  · have := Queue.step_inv q (.add now e) ⟨hpub, hid⟩ h.inv
    simpa [Queue.step, Q.add, hnf'] using this

/-- `Init`: with Clean Start the list is deleted; the cursor, the cache and the flags are reset -/
theorem sim_init (C : Codec) (rq : RQ) (ds : Dataset) (q : Q) (clean : Bool) (limit : Nat) (h : Sim C rq ds q) :
    (init rq ds clean limit : Res Elem).status = .ok ∧
      Sim C (init rq ds clean limit : Res Elem).q (applyAll ds (init rq ds clean limit : Res Elem).cmds) (q.init clean limit) := by
  cases clean with
  | true =>
    obtain ⟨l1, l2⟩ := listAt_applyAll_q [Cmd.del rq.key] ds rq.key _ (by simp [QCmd]) h.nodup h.list
    simp only [List.foldl_cons, List.foldl_nil, lstep] at l1
    simp only [init, if_true, l1, Q.init]
    refine ⟨trivial, ?_⟩
    obtain ⟨m1, m2⟩ := listAt_applyAll_q [Cmd.del rq.key, Cmd.llen rq.key] ds rq.key _ (by simp [QCmd]) h.nodup h.list
    simp only [List.foldl_cons, List.foldl_nil, lstep] at m1
    exact ⟨m2, by simpa [Q.items] using m1, by simp [Q.items], rfl, by simp [cacheGet], rfl, rfl, h.max, h.ie, rfl,
      by simp [Q.items, Queue.tags], by simp [Q.items, nzIds],
      by simpa [Queue.step, Q.init] using Queue.step_inv q (.init true limit) trivial h.inv⟩
  | false =>
    simp only [init, Bool.false_eq_true, if_false, applyAll, h.list, List.nil_append, Q.init]
    refine ⟨trivial, ?_⟩
    obtain ⟨m1, m2⟩ := listAt_applyAll_q [Cmd.llen rq.key] ds rq.key _ (by simp [QCmd]) h.nodup h.list
    simp only [List.foldl_cons, List.foldl_nil, lstep, applyAll] at m1 m2
    refine ⟨m2, by simpa [Q.items] using m1, by simp [Q.items], rfl, by simp [cacheGet], rfl, rfl, h.max, h.ie, rfl, ?_, ?_, ?_⟩
    · simpa [Q.items] using h.tags
    · simpa [Q.items] using h.ids
    · simpa [Queue.step, Q.init] using Queue.step_inv q (.init false limit) trivial h.inv

/-! ### `Replace` -/

theorem replaceFirst_split {p : Elem → Bool} {e : Elem} (l : List Elem) :
    (∃ pre x post, l = pre ++ x :: post ∧ Queue.replaceFirst p e l = some (pre ++ { e with tag := x.tag } :: post) ∧
        p x = true ∧ ∀ y ∈ pre, p y = false) ∨
    (Queue.replaceFirst p e l = none ∧ ∀ y ∈ l, p y = false) := by
  induction l with
  | nil => right; simp [Queue.replaceFirst]
  | cons y l ih =>
    by_cases hy : p y = true
    · left
      exact ⟨[], y, l, rfl, by simp [Queue.replaceFirst, hy], hy, by simp⟩
    · have hy' : p y = false := by simpa using hy
      rcases ih with ⟨pre, x, post, h1, h2, h3, h4⟩ | ⟨h1, h2⟩
      · left
        refine ⟨y :: pre, x, post, by simp [h1], by simp [Queue.replaceFirst, hy', h2], h3, ?_⟩
        intro z hz
        simp only [List.mem_cons] at hz
        rcases hz with hz | hz
        · rw [hz]; exact hy'
        · exact h4 z hz
      · right
        refine ⟨by simp [Queue.replaceFirst, hy', h1], ?_⟩
        intro z hz
        simp only [List.mem_cons] at hz
        rcases hz with hz | hz
        · rw [hz]; exact hy'
        · exact h2 z hz

theorem findId_none (C : Codec) (id : Nat) (l : List Elem) (k : Nat) (h : ∀ y ∈ l, (y.id == id) = false) :
    findId (ops C) id (l.map C.enc) k = some none := by
  induction l generalizing k with
  | nil => rfl
  | cons y l ih =>
    have hd : (ops C).dec (C.enc y) = some y := C.rt y
    have hy : ¬ ((ops C).id y = id) := by
      have := h y (by simp)
      simpa [ops] using this
    simp only [List.map_cons, findId, hd, hy, if_false]
    exact ih _ (fun z hz => h z (by simp [hz]))

theorem findId_split (C : Codec) (id : Nat) (pre : List Elem) (x : Elem) (post : List Elem) (k : Nat)
    (hx : (x.id == id) = true) (hpre : ∀ y ∈ pre, (y.id == id) = false) :
    findId (ops C) id ((pre ++ x :: post).map C.enc) k = some (some (k + pre.length)) := by
  induction pre generalizing k with
  | nil =>
    have hd : (ops C).dec (C.enc x) = some x := C.rt x
    have hxi : (ops C).id x = id := by simpa [ops] using hx
    simp [findId, hd, hxi]
  | cons y pre ih =>
    have hd : (ops C).dec (C.enc y) = some y := C.rt y
    have hy : ¬ ((ops C).id y = id) := by
      have := hpre y (by simp)
      simpa [ops] using this
    simp only [List.cons_append, List.map_cons, findId, hd, hy, if_false, List.length_cons]
    rw [ih (k + 1) (fun z hz => hpre z (by simp [hz]))]
    congr 2
    omega

theorem find_split (id : Nat) (pre : List Elem) (x : Elem) (post : List Elem)
    (hpre : ∀ y ∈ pre, (y.id == id) = false) :
    (pre ++ x :: post).find? (fun y => y.id == id) = if (x.id == id) = true then some x else post.find? (fun y => y.id == id) := by
  induction pre with
  | nil =>
    by_cases hx : x.id = id
    · simp [List.find?_cons, hx]
    · simp [List.find?_cons, hx]
  | cons y pre ih =>
    have := hpre y (by simp)
    simp only [List.cons_append, List.find?_cons, this]
    exact ih (fun z hz => hpre z (by simp [hz]))

theorem set_len_append {α : Type} (pre : List α) (x y : α) (post : List α) : (pre ++ x :: post).set pre.length y = pre ++ y :: post := by
  induction pre with
  | nil => rfl
  | cons z pre ih => simp [ih]

theorem find_swap (p : Elem → Bool) (pre post : List Elem) (a b : Elem) (ha : p a = false) (hb : p b = false) :
    (pre ++ a :: post).find? p = (pre ++ b :: post).find? p := by
  simp [List.find?_append, List.find?_cons, ha, hb]

theorem tags_swap (pre post : List Elem) (a b : Elem) (h : b.tag = a.tag) :
    Queue.tags (pre ++ b :: post) = Queue.tags (pre ++ a :: post) := by
  simp [Queue.tags, h]

theorem nzIds_swap (pre post : List Elem) (a b : Elem) (h : b.id = a.id) : nzIds (pre ++ b :: post) = nzIds (pre ++ a :: post) := by
  simp only [nzIds, List.filter_append, List.filter_cons, h, List.map_append]
  split <;> simp [h]

/-- `Replace(elem)`: the PUBREL overwrites the slot of the first entry in front of the cursor carrying its packet id
    (the ghost tag of the slot stays with it, as in the memory model) -/
theorem sim_replace (C : Codec) (rq : RQ) (ds : Dataset) (q : Q) (e : Elem) (h : Sim C rq ds q) :
    let slotTag := ((q.done.find? (fun x => x.id == e.id)).map (·.tag)).getD e.tag
    let e' : Elem := { e with tag := slotTag }
    ((replace (ops C) rq ds e').status = (if (q.replace e).2 then Status.replaced else Status.notfound)) ∧
      Sim C (replace (ops C) rq ds e').q (applyAll ds (replace (ops C) rq ds e').cmds) (q.replace e).1 := by
  intro slotTag e'
  have hide' : e'.id = e.id := rfl
  rcases replaceFirst_split (p := fun x => x.id == e.id) (e := e) q.done with ⟨pre, x, post, h1, h2, h3, h4⟩ | ⟨h1, h2⟩
  · -- found
    have hxid : x.id = e.id := by simpa using h3
    have hfind : q.done.find? (fun y => y.id == e.id) = some x := by
      rw [h1, find_split e.id pre x post h4]
      simp [h3]
    have he' : e' = { e with tag := x.tag } := by simp [e', slotTag, hfind]
    have hcur : rq.cur ≠ 0 := by
      rw [h.cur, h1]; simp
    have hpos : 0 < rq.cur := Nat.pos_of_ne_zero hcur
    have hl := h.list
    have htake : lrange (q.items.map C.enc) 0 ((rq.cur : Int) - 1) = q.done.map C.enc := by
      rw [lrange_prefix _ _ hpos, h.cur, ← List.map_take]
      simp [Q.items]
    have hfi : findId (ops C) ((ops C).id e') (q.done.map C.enc) 0 = some (some pre.length) := by
      have := findId_split C e.id pre x post 0 h3 h4
      rw [← h1] at this
      simpa [ops, hide'] using this
    simp only [replace, hcur, if_false, hl, htake, hfi, Q.replace, h2]
    refine ⟨rfl, ?_⟩
    obtain ⟨l1, l2⟩ := listAt_applyAll_q [Cmd.lrange rq.key 0 ((rq.cur : Int) - 1), Cmd.lset rq.key (pre.length : Int) ((ops C).enc e')]
      ds rq.key _ (by simp [QCmd]) h.nodup h.list
    simp only [List.foldl_cons, List.foldl_nil, lstep, Int.toNat_natCast] at l1
    have hitems : q.items = pre ++ x :: (post ++ q.rest) := by simp [Q.items, h1]
    have hset : (q.items.map C.enc).set pre.length (C.enc e') = (pre ++ e' :: (post ++ q.rest)).map C.enc := by
      rw [set_map_enc, hitems, set_len_append]
    have hnew : ({ q with done := pre ++ { e with tag := x.tag } :: post } : Q).items = pre ++ e' :: (post ++ q.rest) := by
      simp [Q.items, he']
    have hetag : e'.tag = x.tag := by rw [he']
    have heid : e'.id = x.id := by rw [hide', hxid]
    refine ⟨l2, ?_, ?_, ?_, ?_, h.drained, h.closed, h.max, h.ie, h.limit, ?_, ?_, ?_⟩
    · rw [hnew]; simpa [ops, hset] using l1
    · rw [hnew, h.len, hitems]; simp
    · rw [h.cur, h1]; simp
    · intro id
      rw [cacheGet_put, h.cache id]
      show _ = (List.find? (fun x => x.id == id) (pre ++ { e with tag := x.tag } :: post)).map C.enc
      rw [← he']
      by_cases hid : id = (ops C).id e'
      · have hid' : id = e.id := hid
        subst hid'
        rw [find_split e.id pre e' post h4]
        simp [ops, hide']
      · have hid' : id ≠ e.id := hid
        simp only [hid, if_false]
        rw [h1]
        have hxa : (x.id == id) = false := by simp [hxid, Ne.symm hid']
        have hea : (e'.id == id) = false := by simp [hide', Ne.symm hid']
        rw [find_swap (fun y => y.id == id) pre post x e' hxa hea]
    · rw [hnew, tags_swap pre (post ++ q.rest) x e' hetag, ← hitems]; exact h.tags
    · rw [hnew, nzIds_swap pre (post ++ q.rest) x e' heid, ← hitems]; exact h.ids
    · have := Queue.step_inv q (.replace e) trivial h.inv
      simpa [Queue.step, Q.replace, h2] using this
  · -- no entry in front of the cursor carries the id
    simp only [Q.replace, h1]
    by_cases hcur : rq.cur = 0
    · simp only [replace, hcur, if_true]
      exact ⟨rfl, h⟩
    · have hpos : 0 < rq.cur := Nat.pos_of_ne_zero hcur
      have htake : lrange (q.items.map C.enc) 0 ((rq.cur : Int) - 1) = q.done.map C.enc := by
        rw [lrange_prefix _ _ hpos, h.cur, ← List.map_take]
        simp [Q.items]
      have hfi : findId (ops C) ((ops C).id e') (q.done.map C.enc) 0 = some none :=
        findId_none C _ q.done 0 (by simpa [ops, hide'] using h2)
      simp only [replace, hcur, if_false, h.list, htake, hfi]
      refine ⟨rfl, ?_⟩
      obtain ⟨l1, l2⟩ := listAt_applyAll_q [Cmd.lrange rq.key 0 ((rq.cur : Int) - 1)] ds rq.key _ (by simp [QCmd]) h.nodup h.list
      simp only [List.foldl_cons, List.foldl_nil, lstep] at l1
      exact ⟨l2, l1, h.len, h.cur, h.cache, h.drained, h.closed, h.max, h.ie, h.limit, h.tags, h.ids, h.inv⟩

end GmqttVerif.RedisQueue
