import GmqttVerif.Proofs.RedisQueue
/-
  The loops of `persistence/queue/redis` (`ReadInflight`, `Read`, the drop ladder of `Add` on a full queue) refine the
  loops of `persistence/queue/mem`. Helper lemmas for `Properties/C10Redis.lean`. Core Lean only.

  Shape of every loop lemma: run the redis loop over the encodings of the window the memory loop walks; then the
  accumulator grows by exactly what the memory loop reports, the object state changes in `len` / `cur` / `readCache`
  (/ `drained`) only, and the commands issued — folded over the list `D ++ rest` under the key (`D` = the entries in
  front of the cursor) — produce the list the memory queue holds afterwards.
-/
namespace GmqttVerif.RedisQueue
open GmqttVerif.Codec (Bytes)
open GmqttVerif.Redis
open GmqttVerif.Queue (Elem Q Reason extractFirst)

/-! ### small general facts -/

/-- `readCache` after the entries of `l` were put into it, in order -/
def cacheAdd (C : Codec) (c : List (Nat × Bytes)) (l : List Elem) : List (Nat × Bytes) :=
  l.foldl (fun c e => cachePut c e.id (C.enc e)) c

@[simp] theorem cacheAdd_nil (C : Codec) (c : List (Nat × Bytes)) : cacheAdd C c [] = c := rfl
@[simp] theorem cacheAdd_cons (C : Codec) (c : List (Nat × Bytes)) (x : Elem) (l : List Elem) :
    cacheAdd C c (x :: l) = cacheAdd C (cachePut c x.id (C.enc x)) l := rfl

theorem find_append_single (D : List Elem) (x : Elem) (id : Nat) :
    (D ++ [x]).find? (fun y => y.id == id) =
      match D.find? (fun y => y.id == id) with
      | some v => some v
      | none => if (x.id == id) = true then some x else none := by
  rw [List.find?_append]
  cases D.find? (fun y => y.id == id) with
  | some v => rfl
  | none =>
    by_cases h : x.id = id
    · simp [List.find?_cons, h]
    · simp [List.find?_cons, h]

/-- the cache keeps describing the entries in front of the cursor when entries with new, pairwise different ids are
    appended there -/
theorem cacheGet_cacheAdd (C : Codec) (l : List Elem) (c : List (Nat × Bytes)) (D : List Elem)
    (hc : ∀ id, cacheGet c id = (D.find? (fun x => x.id == id)).map C.enc)
    (hfresh : ∀ x ∈ l, D.find? (fun y => y.id == x.id) = none)
    (hnd : (l.map (·.id)).Nodup) :
    ∀ id, cacheGet (cacheAdd C c l) id = ((D ++ l).find? (fun x => x.id == id)).map C.enc := by
  induction l generalizing c D with
  | nil => simpa using hc
  | cons x l ih =>
    simp only [List.map_cons, List.nodup_cons] at hnd
    have hx := hfresh x (by simp)
    intro id
    have := ih (cachePut c x.id (C.enc x)) (D ++ [x]) ?_ ?_ hnd.2 id
    · simpa using this
    · intro id'
      rw [cacheGet_put, find_append_single, hc id']
      by_cases h : id' = x.id
      · subst h
        simp [hx]
      · have h' : ¬ x.id = id' := fun e => h e.symm
        simp only [h, if_false, beq_iff_eq, h']
        cases D.find? (fun y => y.id == id') <;> rfl
    · intro y hy
      rw [find_append_single, hfresh y (by simp [hy])]
      have : ¬ x.id = y.id := fun e => hnd.1 (by rw [e]; exact List.mem_map.2 ⟨y, hy, rfl⟩)
      simp [this]

theorem take_min_of_le {α : Type} (l : List α) (a b : Nat) (h : l.length ≤ b) : l.take (min a b) = l.take a := by
  rw [List.take_eq_take_iff]
  omega

theorem find_none_of_not_mem_ids (D : List Elem) (id : Nat) (h : id ∉ D.map (·.id)) :
    D.find? (fun y => y.id == id) = none := by
  rw [List.find?_eq_none]
  intro y hy hyid
  simp only [beq_iff_eq] at hyid
  exact h (List.mem_map.2 ⟨y, hy, hyid⟩)

/-- every command of `cs` is one of the forms the queue code issues, and folded over `xs` they give `ys` -/
def Issues (k : Bytes) (cs : List Cmd) (xs ys : List Bytes) : Prop :=
  (∀ c ∈ cs, QCmd k c) ∧ cs.foldl lstep xs = ys

theorem Issues.nil (k : Bytes) (xs : List Bytes) : Issues k [] xs xs := ⟨by simp, rfl⟩

theorem Issues.cons {k : Bytes} {c : Cmd} {cs : List Cmd} {xs ys : List Bytes} (hc : QCmd k c)
    (h : Issues k cs (lstep xs c) ys) : Issues k (c :: cs) xs ys :=
  ⟨by
    intro x hx
    rcases List.mem_cons.1 hx with rfl | hx
    · exact hc
    · exact h.1 x hx, h.2⟩

theorem Issues.append {k : Bytes} {cs cs' : List Cmd} {xs ys zs : List Bytes}
    (h : Issues k cs xs ys) (h' : Issues k cs' ys zs) : Issues k (cs ++ cs') xs zs :=
  ⟨by
    intro x hx
    rcases List.mem_append.1 hx with hx | hx
    · exact h.1 x hx
    · exact h'.1 x hx,
   by rw [List.foldl_append, h.2, h'.2]⟩

/-- what a command sequence of the queue code does to the dataset -/
theorem Issues.listAt {k : Bytes} {cs : List Cmd} {xs ys : List Bytes} (h : Issues k cs xs ys) (ds : Dataset)
    (hn : NoDupKeys ds) (hl : listAt ds k = some xs) :
    listAt (applyAll ds cs) k = some ys ∧ NoDupKeys (applyAll ds cs) := by
  have := listAt_applyAll_q cs ds k xs h.1 hn hl
  rw [h.2] at this
  exact this

theorem set_len_append' {α : Type} (pre : List α) (x y : α) (post : List α) (n : Nat) (hn : pre.length = n) :
    (pre ++ x :: post).set n y = pre ++ y :: post := by
  subst hn
  exact set_len_append pre x y post

/-! ### `ReadInflight` -/

/-- accumulator of the `ReadInflight` loop after an entry `v` that carries a packet id -/
def inflAcc (C : Codec) (now idx : Nat) (v : Elem) (a : ReadAcc Elem) : ReadAcc Elem :=
  { a with q := { a.q with cur := a.q.cur + 1,
                           cache := cachePut a.q.cache v.id (C.enc ((ops C).refresh v now a.q.ie)) },
           cmds := a.cmds ++ (if a.q.ie != 0 then [Cmd.lset a.q.key idx (C.enc ((ops C).refresh v now a.q.ie))] else []),
           ret := a.ret ++ [(ops C).refresh v now a.q.ie] }

theorem inflightLoop_cons (C : Codec) (now idx : Nat) (v : Elem) (bs : List Bytes) (a : ReadAcc Elem) :
    inflightLoop (ops C) now (C.enc v :: bs) idx a =
      if (v.id != 0) = true then inflightLoop (ops C) now bs (idx + 1) (inflAcc C now idx v a)
      else { a with q := { a.q with drained := true } } := by
  have hd : (ops C).dec (C.enc v) = some v := C.rt v
  have hid : (ops C).id v = v.id := rfl
  by_cases hz : a.q.ie = 0
  · have hvv : (ops C).refresh v now a.q.ie = v := by rw [hz]; rfl
    simp only [inflightLoop, hd, hid, inflAcc, hvv, hz]
    rfl
  · have hz1 : (a.q.ie != 0) = true := by simp [hz]
    simp only [inflightLoop, hd, hid, inflAcc, hz1, if_true]
    rfl

/-- the loop of `ReadInflight` -/
theorem inflightLoop_sim (C : Codec) (now ie : Nat) (rest : List Elem) (n idx : Nat) (a : ReadAcc Elem)
    (hie : a.q.ie = ie) :
    (inflightLoop (ops C) now ((rest.take n).map C.enc) idx a).failed = a.failed ∧
    (inflightLoop (ops C) now ((rest.take n).map C.enc) idx a).evs = a.evs ∧
    (inflightLoop (ops C) now ((rest.take n).map C.enc) idx a).ret = a.ret ++ (Queue.inflightLoop now ie n rest).1 ∧
    (inflightLoop (ops C) now ((rest.take n).map C.enc) idx a).q =
      { a.q with cur := a.q.cur + (Queue.inflightLoop now ie n rest).1.length,
                 cache := cacheAdd C a.q.cache (Queue.inflightLoop now ie n rest).1,
                 drained := a.q.drained || (Queue.inflightLoop now ie n rest).2.2 } ∧
    ∃ cs, (inflightLoop (ops C) now ((rest.take n).map C.enc) idx a).cmds = a.cmds ++ cs ∧
      ∀ D : List Elem, D.length = idx →
        Issues a.q.key cs ((D ++ rest).map C.enc)
          ((D ++ (Queue.inflightLoop now ie n rest).1 ++ (Queue.inflightLoop now ie n rest).2.1).map C.enc) := by
  induction rest generalizing n idx a with
  | nil =>
    cases n <;>
      simp only [List.take_nil, List.map_nil, inflightLoop, Queue.inflightLoop, List.append_nil, List.length_nil,
        Nat.add_zero, cacheAdd_nil, Bool.or_false, true_and] <;>
      exact ⟨[], by simp, fun D _ => Issues.nil _ _⟩
  | cons v rest ih =>
    cases n with
    | zero =>
      simp only [List.take_zero, List.map_nil, inflightLoop, Queue.inflightLoop, List.append_nil, List.length_nil,
        Nat.add_zero, cacheAdd_nil, Bool.or_false, true_and]
      exact ⟨[], by simp, fun D _ => Issues.nil _ _⟩
    | succ n =>
      rw [List.take_succ_cons, List.map_cons, inflightLoop_cons]
      by_cases hv : v.id = 0
      · -- the first entry without a packet id: everything in flight has been replayed
        have hv2 : (v.id != 0) = false := by simp [hv]
        simp only [hv2, Bool.false_eq_true, if_false, Queue.inflightLoop, List.append_nil, List.length_nil,
          Nat.add_zero, cacheAdd_nil, Bool.or_true, true_and]
        exact ⟨[], by simp, fun D _ => Issues.nil _ _⟩
      · have hv2 : (v.id != 0) = true := by simp [hv]
        have hr : (ops C).refresh v now a.q.ie = { v with exp := if ie != 0 then some (now + ie) else v.exp } := by
          rw [hie]; rfl
        obtain ⟨i1, i2, i3, i4, cs, i5, i6⟩ := ih n (idx + 1) (inflAcc C now idx v a) hie
        simp only [hv2, if_true, Queue.inflightLoop]
        refine ⟨i1, i2, ?_, ?_, (if a.q.ie != 0 then [Cmd.lset a.q.key idx (C.enc ((ops C).refresh v now a.q.ie))] else []) ++ cs, ?_, ?_⟩
        · rw [i3]; simp [inflAcc, hr]
        · rw [i4]
          simp only [inflAcc, hr, List.length_cons, cacheAdd_cons, RQ.mk.injEq, true_and, and_true]
          trace_state
          omega
        · rw [i5]; simp [inflAcc]
        · intro D hD
          have h6 := i6 (D ++ [{ v with exp := if ie != 0 then some (now + ie) else v.exp }]) (by simp [hD])
          have hkey : (inflAcc C now idx v a).q.key = a.q.key := rfl
          rw [hkey] at h6
          refine Issues.append (ys := ((D ++ [{ v with exp := if ie != 0 then some (now + ie) else v.exp }]) ++ rest).map C.enc) ?_ ?_
          · by_cases hz : ie = 0
            · have hz1 : (a.q.ie != 0) = false := by simp [hie, hz]
              simp only [hz1, Bool.false_eq_true, if_false, hz, bne_self_eq_false]
              simpa using Issues.nil a.q.key ((D ++ v :: rest).map C.enc)
            · have hz1 : (a.q.ie != 0) = true := by simp [hie, hz]
              simp only [hz1, if_true, hr]
              refine Issues.cons (by simp [QCmd]) ?_
              simp only [lstep, Int.toNat_natCast]
              rw [set_map_enc, set_len_append' D v _ rest idx hD]
              simpa using Issues.nil _ _
          · simpa using h6

end GmqttVerif.RedisQueue
