import GmqttVerif.Proofs.RedisQueue
/-
  The loops of `persistence/queue/redis` (`ReadInflight`, `Read`, the drop ladder of `Add` on a full queue) refine the
  loops of `persistence/queue/mem`. Helper lemmas for `Properties/C10Redis.lean`. Core Lean only.

  Shape of every loop lemma: run the redis loop over the encodings of the window the memory loop walks; then the
  accumulator grows by exactly what the memory loop reports, the object state changes in `len` / `cur` / `readCache`
  (/ `drained`) only, and the commands issued — folded over the list `D ++ rest` under the key (`D` = the entries in
  front of the cursor) — produce the list the memory queue holds afterwards.
-/
namespace GmqttVerif.RedisQueue
open GmqttVerif.Codec (Bytes)
open GmqttVerif.Redis
open GmqttVerif.Queue (Elem Q Reason extractFirst)

/-! ### small general facts -/

/-- `readCache` after the entries of `l` were put into it, in order -/
def cacheAdd (C : Codec) (c : List (Nat × Bytes)) (l : List Elem) : List (Nat × Bytes) :=
  l.foldl (fun c e => cachePut c e.id (C.enc e)) c

@[simp] theorem cacheAdd_nil (C : Codec) (c : List (Nat × Bytes)) : cacheAdd C c [] = c := rfl
@[simp] theorem cacheAdd_cons (C : Codec) (c : List (Nat × Bytes)) (x : Elem) (l : List Elem) :
    cacheAdd C c (x :: l) = cacheAdd C (cachePut c x.id (C.enc x)) l := rfl

theorem find_append_single (D : List Elem) (x : Elem) (id : Nat) :
    (D ++ [x]).find? (fun y => y.id == id) =
      match D.find? (fun y => y.id == id) with
      | some v => some v
      | none => if (x.id == id) = true then some x else none := by
  rw [List.find?_append]
  cases D.find? (fun y => y.id == id) with
  | some v => rfl
  | none =>
    by_cases h : x.id = id
    · simp [h]
    · simp [h]

/-- the cache keeps describing the entries in front of the cursor when entries with new, pairwise different ids are
    appended there -/
theorem cacheGet_cacheAdd (C : Codec) (l : List Elem) (c : List (Nat × Bytes)) (D : List Elem)
    (hc : ∀ id, cacheGet c id = (D.find? (fun x => x.id == id)).map C.enc)
    (hfresh : ∀ x ∈ l, D.find? (fun y => y.id == x.id) = none)
    (hnd : (l.map (·.id)).Nodup) :
    ∀ id, cacheGet (cacheAdd C c l) id = ((D ++ l).find? (fun x => x.id == id)).map C.enc := by
  induction l generalizing c D with
  | nil => simpa using hc
  | cons x l ih =>
    simp only [List.map_cons, List.nodup_cons] at hnd
    have hx := hfresh x (by simp)
    intro id
    have := ih (cachePut c x.id (C.enc x)) (D ++ [x]) ?_ ?_ hnd.2 id
    · simpa using this
    · intro id'
      rw [cacheGet_put, find_append_single, hc id']
      by_cases h : id' = x.id
      · subst h
        simp [hx]
      · have h' : ¬ x.id = id' := fun e => h e.symm
        simp only [h, if_false, beq_iff_eq, h']
        cases D.find? (fun y => y.id == id') <;> rfl
    · intro y hy
      rw [find_append_single, hfresh y (by simp [hy])]
      have : ¬ x.id = y.id := fun e => hnd.1 (by rw [e]; exact List.mem_map.2 ⟨y, hy, rfl⟩)
      simp [this]

theorem take_min_of_le {α : Type} (l : List α) (a b : Nat) (h : l.length ≤ b) : l.take (min a b) = l.take a := by
  rw [List.take_eq_take_iff]
  omega

theorem find_none_of_not_mem_ids (D : List Elem) (id : Nat) (h : id ∉ D.map (·.id)) :
    D.find? (fun y => y.id == id) = none := by
  rw [List.find?_eq_none]
  intro y hy hyid
  simp only [beq_iff_eq] at hyid
  exact h (List.mem_map.2 ⟨y, hy, hyid⟩)

/-- every command of `cs` is one of the forms the queue code issues, and folded over `xs` they give `ys` -/
def Issues (k : Bytes) (cs : List Cmd) (xs ys : List Bytes) : Prop :=
  (∀ c ∈ cs, QCmd k c) ∧ cs.foldl lstep xs = ys

theorem Issues.nil (k : Bytes) (xs : List Bytes) : Issues k [] xs xs := ⟨by simp, rfl⟩

theorem Issues.cons {k : Bytes} {c : Cmd} {cs : List Cmd} {xs ys : List Bytes} (hc : QCmd k c)
    (h : Issues k cs (lstep xs c) ys) : Issues k (c :: cs) xs ys :=
  ⟨by
    intro x hx
    rcases List.mem_cons.1 hx with rfl | hx
    · exact hc
    · exact h.1 x hx, h.2⟩

theorem Issues.append {k : Bytes} {cs cs' : List Cmd} {xs ys zs : List Bytes}
    (h : Issues k cs xs ys) (h' : Issues k cs' ys zs) : Issues k (cs ++ cs') xs zs :=
  ⟨by
    intro x hx
    rcases List.mem_append.1 hx with hx | hx
    · exact h.1 x hx
    · exact h'.1 x hx,
   by rw [List.foldl_append, h.2, h'.2]⟩

/-- what a command sequence of the queue code does to the dataset -/
theorem Issues.listAt {k : Bytes} {cs : List Cmd} {xs ys : List Bytes} (h : Issues k cs xs ys) (ds : Dataset)
    (hn : NoDupKeys ds) (hl : listAt ds k = some xs) :
    listAt (applyAll ds cs) k = some ys ∧ NoDupKeys (applyAll ds cs) := by
  have := listAt_applyAll_q cs ds k xs h.1 hn hl
  rw [h.2] at this
  exact this

theorem set_len_append' {α : Type} (pre : List α) (x y : α) (post : List α) (n : Nat) (hn : pre.length = n) :
    (pre ++ x :: post).set n y = pre ++ y :: post := by
  subst hn
  exact set_len_append pre x y post

/-! ### `ReadInflight` -/

/-- accumulator of the `ReadInflight` loop after an entry `v` that carries a packet id -/
def inflAcc (C : Codec) (now idx : Nat) (v : Elem) (a : ReadAcc Elem) : ReadAcc Elem :=
  { a with q := { a.q with cur := a.q.cur + 1,
                           cache := cachePut a.q.cache v.id (C.enc ((ops C).refresh v now a.q.ie)) },
           cmds := a.cmds ++ (if a.q.ie != 0 then [Cmd.lset a.q.key idx (C.enc ((ops C).refresh v now a.q.ie))] else []),
           ret := a.ret ++ [(ops C).refresh v now a.q.ie] }

theorem inflightLoop_cons (C : Codec) (now idx : Nat) (v : Elem) (bs : List Bytes) (a : ReadAcc Elem) :
    inflightLoop (ops C) now (C.enc v :: bs) idx a =
      if (v.id != 0) = true then inflightLoop (ops C) now bs (idx + 1) (inflAcc C now idx v a)
      else { a with q := { a.q with drained := true } } := by
  have hd : (ops C).dec (C.enc v) = some v := C.rt v
  have hid : (ops C).id v = v.id := rfl
  by_cases hz : a.q.ie = 0
  · have hvv : (ops C).refresh v now a.q.ie = v := by rw [hz]; rfl
    simp only [inflightLoop, hd, hid, inflAcc, hz]
    rfl
  · have hz1 : (a.q.ie != 0) = true := by simp [hz]
    simp only [inflightLoop, hd, hid, inflAcc, hz1, if_true]
    rfl

/-- the loop of `ReadInflight` -/
theorem inflightLoop_sim (C : Codec) (now ie : Nat) (rest : List Elem) (n idx : Nat) (a : ReadAcc Elem)
    (hie : a.q.ie = ie) :
    (inflightLoop (ops C) now ((rest.take n).map C.enc) idx a).failed = a.failed ∧
    (inflightLoop (ops C) now ((rest.take n).map C.enc) idx a).evs = a.evs ∧
    (inflightLoop (ops C) now ((rest.take n).map C.enc) idx a).ret = a.ret ++ (Queue.inflightLoop now ie n rest).1 ∧
    (inflightLoop (ops C) now ((rest.take n).map C.enc) idx a).q =
      { a.q with cur := a.q.cur + (Queue.inflightLoop now ie n rest).1.length,
                 cache := cacheAdd C a.q.cache (Queue.inflightLoop now ie n rest).1,
                 drained := a.q.drained || (Queue.inflightLoop now ie n rest).2.2 } ∧
    ∃ cs, (inflightLoop (ops C) now ((rest.take n).map C.enc) idx a).cmds = a.cmds ++ cs ∧
      ∀ D : List Elem, D.length = idx →
        Issues a.q.key cs ((D ++ rest).map C.enc)
          ((D ++ (Queue.inflightLoop now ie n rest).1 ++ (Queue.inflightLoop now ie n rest).2.1).map C.enc) := by
  induction rest generalizing n idx a with
  | nil =>
    cases n <;>
      simp only [List.take_nil, List.map_nil, inflightLoop, Queue.inflightLoop, List.append_nil, List.length_nil,
        Nat.add_zero, cacheAdd_nil, Bool.or_false, true_and] <;>
      exact ⟨[], by simp, fun D _ => Issues.nil _ _⟩
  | cons v rest ih =>
    cases n with
    | zero =>
      simp only [List.take_zero, List.map_nil, inflightLoop, Queue.inflightLoop, List.append_nil, List.length_nil,
        Nat.add_zero, cacheAdd_nil, Bool.or_false, true_and]
      exact ⟨[], by simp, fun D _ => Issues.nil _ _⟩
    | succ n =>
      rw [List.take_succ_cons, List.map_cons, inflightLoop_cons]
      by_cases hv : v.id = 0
      · -- the first entry without a packet id: everything in flight has been replayed
        have hv2 : (v.id != 0) = false := by simp [hv]
        simp only [hv2, Bool.false_eq_true, if_false, Queue.inflightLoop, List.append_nil, List.length_nil,
          Nat.add_zero, cacheAdd_nil, Bool.or_true, true_and]
        exact ⟨[], by simp, fun D _ => Issues.nil _ _⟩
      · have hv2 : (v.id != 0) = true := by simp [hv]
        have hr : (ops C).refresh v now a.q.ie = { v with exp := if ie != 0 then some (now + ie) else v.exp } := by
          rw [hie]; rfl
        obtain ⟨i1, i2, i3, i4, cs, i5, i6⟩ := ih n (idx + 1) (inflAcc C now idx v a) hie
        simp only [hv2, if_true, Queue.inflightLoop]
        refine ⟨i1, i2, ?_, ?_, (if a.q.ie != 0 then [Cmd.lset a.q.key idx (C.enc ((ops C).refresh v now a.q.ie))] else []) ++ cs, ?_, ?_⟩
        · rw [i3]; simp [inflAcc, hr]
        · rw [i4]
          simp only [inflAcc, hr, List.length_cons, cacheAdd_cons, RQ.mk.injEq, true_and, and_true]
          omega
        · rw [i5]; simp [inflAcc]
        · intro D hD
          have h6 := i6 (D ++ [{ v with exp := if ie != 0 then some (now + ie) else v.exp }]) (by simp [hD])
          have hkey : (inflAcc C now idx v a).q.key = a.q.key := rfl
          rw [hkey] at h6
          refine Issues.append (ys := ((D ++ [{ v with exp := if ie != 0 then some (now + ie) else v.exp }]) ++ rest).map C.enc) ?_ ?_
          · by_cases hz : ie = 0
            · have hz1 : (a.q.ie != 0) = false := by simp [hie, hz]
              simp only [hz1, Bool.false_eq_true, if_false, hz, bne_self_eq_false]
              simpa using Issues.nil a.q.key ((D ++ v :: rest).map C.enc)
            · have hz1 : (a.q.ie != 0) = true := by simp [hie, hz]
              simp only [hz1, if_true, hr]
              refine Issues.cons (by simp [QCmd]) ?_
              simp only [lstep, Int.toNat_natCast]
              rw [set_map_enc, set_len_append' D v _ rest idx hD]
              simpa using Issues.nil _ _
          · simpa using h6

theorem qreadInflight_eq (q : Q) (now m : Nat) (hr : q.rest ≠ []) :
    q.readInflight now m =
      ({ q with done := q.done ++ (Queue.inflightLoop now q.ie (min m q.items.length) q.rest).1,
                rest := (Queue.inflightLoop now q.ie (min m q.items.length) q.rest).2.1,
                drained := q.drained || (Queue.inflightLoop now q.ie (min m q.items.length) q.rest).2.2 },
       (Queue.inflightLoop now q.ie (min m q.items.length) q.rest).1) := by
  have he : (q.items.isEmpty || q.rest.isEmpty) = false := by
    cases hq : q.rest with
    | nil => exact absurd hq hr
    | cons x xs => simp [Q.items, hq]
  simp only [Q.readInflight, he, Bool.false_eq_true, if_false]

theorem nzIds_map_refresh (now ie : Nat) (l : List Elem) : nzIds (l.map (Queue.refresh now ie)) = nzIds l := by
  induction l with
  | nil => rfl
  | cons x l ih =>
    simp only [nzIds, List.map_cons, List.filter_cons] at ih ⊢
    by_cases hx : x.id = 0
    · simp [Queue.refresh, hx, ih]
    · simp [Queue.refresh, hx, ih]

theorem nzIds_of_all_nz {l : List Elem} (h : ∀ e ∈ l, e.id ≠ 0) : nzIds l = l.map (·.id) := by
  simp only [nzIds]
  rw [List.filter_eq_self.2]
  intro e he
  simp [h e he]

/-- an id in use behind the cursor is not in use in front of it -/
theorem find_done_none_of_mem_rest {done rest : List Elem} (hn : (nzIds (done ++ rest)).Nodup) {y : Elem} (hy : y ∈ rest)
    (hy0 : y.id ≠ 0) : done.find? (fun z => z.id == y.id) = none := by
  rw [List.find?_eq_none]
  intro z hz hzid
  simp only [beq_iff_eq] at hzid
  rw [nzIds_append] at hn
  have := (List.nodup_append.1 hn).2.2 z.id (mem_nzIds_of_mem hz (by rw [hzid]; exact hy0)) y.id (mem_nzIds_of_mem hy hy0)
  exact this hzid

theorem window_eq (C : Codec) (rq : RQ) (ds : Dataset) (q : Q) (h : Sim C rq ds q) (n : Nat) (hn : 0 < n) :
    lrange (q.items.map C.enc) (rq.cur : Int) (((rq.cur + n : Nat) : Int) - 1) = (q.rest.take n).map C.enc := by
  rw [lrange_window _ _ _ hn, h.cur, ← List.map_drop, ← List.map_take]
  simp [Q.items]

/-- `ReadInflight(maxSize)`: the same returned elements, no notifier calls, and the relation is kept -/
theorem sim_readInflight (C : Codec) (rq : RQ) (ds : Dataset) (q : Q) (now m : Nat) (h : Sim C rq ds q) :
    (readInflight (ops C) rq ds now m).evs.map evOf = [] ∧
    (readInflight (ops C) rq ds now m).ret = (q.readInflight now m).2 ∧
    (readInflight (ops C) rq ds now m).status = .ok ∧
      Sim C (readInflight (ops C) rq ds now m).q (applyAll ds (readInflight (ops C) rq ds now m).cmds)
        (q.readInflight now m).1 := by
  have hinv := Queue.step_inv q (.readInflight now m) trivial h.inv
  simp only [Queue.step] at hinv
  have hl := h.len
  have hcu := h.cur
  simp only [Q.items, List.length_append] at hl
  by_cases hr : q.rest = []
  · -- nothing behind the cursor: the drain is complete
    have hc : rq.len = 0 ∨ rq.cur ≥ rq.len := by right; rw [hl, hcu, hr]; simp
    have he : (q.items.isEmpty || q.rest.isEmpty) = true := by simp [hr]
    simp only [Q.readInflight, he, if_true] at hinv ⊢
    simp only [readInflight, hc, if_true]
    refine ⟨by first | rfl | trivial, by first | rfl | trivial, trivial, ?_⟩
    exact ⟨h.nodup, h.list, h.len, h.cur, h.cache, rfl, h.closed, h.max, h.ie, h.limit, h.tags, h.ids, hinv⟩
  · have hrl : 0 < q.rest.length := List.length_pos_iff.2 hr
    have hc : ¬ (rq.len = 0 ∨ rq.cur ≥ rq.len) := by omega
    rw [qreadInflight_eq q now m hr] at hinv ⊢
    by_cases hm : m = 0
    · subst hm
      simp only [readInflight, hc, if_false, if_true, Nat.zero_min, Queue.inflightLoop, List.append_nil, Bool.or_false]
      exact ⟨by first | rfl | trivial, by first | rfl | trivial, trivial, h⟩
    · have hmpos : 0 < m := Nat.pos_of_ne_zero hm
      have hwin : lrange (q.items.map C.enc) (rq.cur : Int) (((rq.cur + m : Nat) : Int) - 1)
          = (q.rest.take (min m q.items.length)).map C.enc := by
        rw [window_eq C rq ds q h m hmpos, take_min_of_le]
        simp [Q.items]
      obtain ⟨i1, -, i3, i4, cs, i5, i6⟩ := inflightLoop_sim C now q.ie q.rest (min m q.items.length) rq.cur { q := rq } h.ie
      obtain ⟨pre, s1, s2, s3, -⟩ := Queue.inflightLoop_spec now q.ie (min m q.items.length) q.rest
      simp only [readInflight, hc, if_false, hm, h.list, hwin, i1, Bool.false_eq_true]
      refine ⟨by first | rfl | trivial, i3.trans (by simp), by first | rfl | trivial, ?_⟩
      generalize Queue.inflightLoop now q.ie (min m q.items.length) q.rest = L at *
      obtain ⟨out, rest', d⟩ := L
      simp only at s1 s2 i3 i4 i5 i6 hinv ⊢
      have hiss : Issues rq.key (Cmd.lrange rq.key (rq.cur : Int) (((rq.cur + m : Nat) : Int) - 1) :: cs)
          (q.items.map C.enc) ((q.done ++ out ++ rest').map C.enc) :=
        Issues.cons (by simp [QCmd]) (by simpa [lstep, Q.items] using i6 q.done hcu.symm)
      obtain ⟨l1, l2⟩ := hiss.listAt ds h.nodup h.list
      have hids := h.ids
      have htags := h.tags
      simp only [Q.items] at hids htags
      rw [s1] at hids htags hl
      have hout_ids : out.map (·.id) = pre.map (·.id) := by
        rw [s2]; simp [Queue.refresh, Function.comp_def]
      rw [i5, i4]
      refine ⟨by simpa using l2, by simpa [Q.items] using l1, ?_, ?_, ?_, ?_, h.closed, h.max, h.ie, h.limit, ?_, ?_, hinv⟩
      · simp only [Q.items, List.length_append, s2, List.length_map] at hl ⊢
        omega
      · simp [hcu]
      · refine cacheGet_cacheAdd C out rq.cache q.done h.cache ?_ ?_
        · intro x hx
          rw [s2] at hx
          obtain ⟨y, hy, rfl⟩ := List.mem_map.1 hx
          have hy' : y ∈ q.rest := by rw [s1]; exact List.mem_append_left _ hy
          have := find_done_none_of_mem_rest h.ids hy' (s3 y hy)
          simpa [Queue.refresh] using this
        · rw [hout_ids, ← nzIds_of_all_nz s3]
          simp only [nzIds_append] at hids
          exact (List.nodup_append.1 (List.nodup_append.1 hids).2.1).1
      · simp [h.drained]
      · simpa [Q.items, s2] using htags
      · simpa [Q.items, s2, nzIds_append, nzIds_map_refresh] using hids

/-! ### `Read` -/

/-- accumulator of the `Read` loop after an entry that is dropped (expired / exceeds the packet size limit) -/
def rdDrop (C : Codec) (a : ReadAcc Elem) (v : Elem) (r : Reason) : ReadAcc Elem :=
  { a with q := { a.q with len := a.q.len - 1 }, cmds := a.cmds ++ [.lrem a.q.key 1 (C.enc v)],
           evs := a.evs ++ [.dropped v r], qd := a.qd - 1 }

/-- … after a QoS 0 entry (handed out and removed) -/
def rdPass (C : Codec) (a : ReadAcc Elem) (v : Elem) : ReadAcc Elem :=
  { a with q := { a.q with len := a.q.len - 1 }, cmds := a.cmds ++ [.lrem a.q.key 1 (C.enc v)],
           ret := a.ret ++ [v], qd := a.qd - 1 }

/-- … after a QoS 1/2 entry (gets the packet id `p`, stays in the list in front of the cursor) -/
def rdKeep (C : Codec) (now : Nat) (a : ReadAcc Elem) (v : Elem) (p : Nat) : ReadAcc Elem :=
  { a with q := { a.q with cur := a.q.cur + 1,
                           cache := cachePut a.q.cache ((ops C).assign v p now a.q.ie).id (C.enc ((ops C).assign v p now a.q.ie)) },
           cmds := a.cmds ++ [.lset a.q.key a.q.cur (C.enc ((ops C).assign v p now a.q.ie))],
           ret := a.ret ++ [(ops C).assign v p now a.q.ie], ind := a.ind + 1 }

theorem readLoop_cons (C : Codec) (now : Nat) (v : Elem) (bs : List Bytes) (pids : List Nat) (a : ReadAcc Elem) :
    readLoop (ops C) now (C.enc v :: bs) pids a =
      if Queue.expired now v = true then readLoop (ops C) now bs pids (rdDrop C a v .expired)
      else if v.size > a.q.limit then readLoop (ops C) now bs pids (rdDrop C a v .oversize)
      else if (v.qos == 0) = true then readLoop (ops C) now bs pids (rdPass C a v)
      else match pids with
        | [] => { a with failed := true }
        | p :: pids' => readLoop (ops C) now bs pids' (rdKeep C now a v p) := by
  have hd : (ops C).dec (C.enc v) = some v := C.rt v
  simp only [readLoop, hd]
  rfl

/-- with enough packet ids the loop of the memory queue consumes exactly its window -/
theorem qreadLoop_rest (now ie limit n : Nat) (rest : List Elem) (pids : List Nat) (hn : n ≤ pids.length) :
    (Queue.readLoop now ie limit n rest pids).rest = rest.drop n ∧
    (Queue.readLoop now ie limit n rest pids).kept.length ≤ min n rest.length := by
  fun_induction Queue.readLoop now ie limit n rest pids with
  | case1 => simp
  | case2 => simp
  | case3 n v rest pids h r ih =>
    obtain ⟨e1, e2⟩ := ih (by omega)
    refine ⟨by simpa [r] using e1, ?_⟩
    simp only [List.length_cons, r] at e2 ⊢
    omega
  | case4 n v rest pids h1 h2 r ih =>
    obtain ⟨e1, e2⟩ := ih (by omega)
    refine ⟨by simpa [r] using e1, ?_⟩
    simp only [List.length_cons, r] at e2 ⊢
    omega
  | case5 n v rest pids h1 h2 h3 r ih =>
    obtain ⟨e1, e2⟩ := ih (by omega)
    refine ⟨by simpa [r] using e1, ?_⟩
    simp only [List.length_cons, r] at e2 ⊢
    omega
  | case6 => simp at hn
  | case7 n v rest h1 h2 h3 p pids' v' r ih =>
    obtain ⟨e1, e2⟩ := ih (by simp at hn; omega)
    refine ⟨by simpa [r] using e1, ?_⟩
    simp only [List.length_cons, r] at e2 ⊢
    omega

/-- the entries that became in-flight carry supplied packet ids, in order -/
theorem qreadLoop_kept_ids_sublist (now ie limit n : Nat) (rest : List Elem) (pids : List Nat) :
    ((Queue.readLoop now ie limit n rest pids).kept.map (·.id)).Sublist pids := by
  fun_induction Queue.readLoop now ie limit n rest pids with
  | case1 => simp
  | case2 => simp
  | case3 n v rest pids h r ih => exact ih
  | case4 n v rest pids h1 h2 r ih => exact ih
  | case5 n v rest pids h1 h2 h3 r ih => exact ih
  | case6 => simp
  | case7 n v rest h1 h2 h3 p pids' v' r ih => simpa [v'] using ih.cons_cons p

/-- what stays in the list after the loop: a subsequence (by message identity) of what was there -/
theorem qreadLoop_kept_rest_sublist (now ie limit n : Nat) (rest : List Elem) (pids : List Nat) :
    (Queue.tags (Queue.readLoop now ie limit n rest pids).kept ++ Queue.tags (Queue.readLoop now ie limit n rest pids).rest).Sublist
      (Queue.tags rest) := by
  fun_induction Queue.readLoop now ie limit n rest pids with
  | case1 => simp
  | case2 => simp
  | case3 n v rest pids h r ih => exact ih.cons _
  | case4 n v rest pids h1 h2 r ih => exact ih.cons _
  | case5 n v rest pids h1 h2 h3 r ih => exact ih.cons _
  | case6 => simp
  | case7 n v rest h1 h2 h3 p pids' v' r ih => exact ih.cons_cons _

theorem not_mem_of_tags_nodup {D rest : List Elem} {v : Elem} (h : (Queue.tags (D ++ v :: rest)).Nodup) : v ∉ D := by
  intro hv
  simp only [Queue.tags_append, Queue.tags_cons] at h
  have := (List.nodup_append.1 h).2.2 v.tag (List.mem_map.2 ⟨v, hv, rfl⟩) v.tag (by simp)
  exact this rfl

theorem erase_mid {D rest : List Elem} {v : Elem} (h : v ∉ D) : (D ++ v :: rest).erase v = D ++ rest := by
  rw [List.erase_append_right _ h, List.erase_cons_head]

theorem tags_nodup_drop_mid {D rest : List Elem} {v : Elem} (h : (Queue.tags (D ++ v :: rest)).Nodup) :
    (Queue.tags (D ++ rest)).Nodup := by
  refine List.Sublist.nodup ?_ h
  exact Queue.tags_sublist (List.Sublist.append_left (List.sublist_cons_self v rest) D)

/-- the loop of `Read` -/
theorem readLoop_sim (C : Codec) (now ie limit : Nat) (rest : List Elem) (n : Nat) (pids : List Nat) (a : ReadAcc Elem)
    (hie : a.q.ie = ie) (hlim : a.q.limit = limit) (hn : n ≤ pids.length) :
    (readLoop (ops C) now ((rest.take n).map C.enc) pids a).failed = a.failed ∧
    (readLoop (ops C) now ((rest.take n).map C.enc) pids a).evs.map evOf =
      a.evs.map evOf ++ (Queue.readLoop now ie limit n rest pids).evs ∧
    (readLoop (ops C) now ((rest.take n).map C.enc) pids a).ret = a.ret ++ (Queue.readLoop now ie limit n rest pids).out ∧
    (readLoop (ops C) now ((rest.take n).map C.enc) pids a).qd = a.qd + (Queue.readLoop now ie limit n rest pids).qd ∧
    (readLoop (ops C) now ((rest.take n).map C.enc) pids a).ind = a.ind + (Queue.readLoop now ie limit n rest pids).ind ∧
    (readLoop (ops C) now ((rest.take n).map C.enc) pids a).q =
      { a.q with len := a.q.len - (min n rest.length - (Queue.readLoop now ie limit n rest pids).kept.length),
                 cur := a.q.cur + (Queue.readLoop now ie limit n rest pids).kept.length,
                 cache := cacheAdd C a.q.cache (Queue.readLoop now ie limit n rest pids).kept } ∧
    ∃ cs, (readLoop (ops C) now ((rest.take n).map C.enc) pids a).cmds = a.cmds ++ cs ∧
      ∀ D : List Elem, D.length = a.q.cur → (Queue.tags (D ++ rest)).Nodup →
        Issues a.q.key cs ((D ++ rest).map C.enc)
          ((D ++ (Queue.readLoop now ie limit n rest pids).kept ++ (Queue.readLoop now ie limit n rest pids).rest).map C.enc) := by
  induction rest generalizing n pids a with
  | nil =>
    cases n <;>
      simp only [List.take_nil, List.map_nil, readLoop, Queue.readLoop, List.append_nil, List.length_nil,
        Nat.add_zero, Int.add_zero, cacheAdd_nil, Nat.min_zero, Nat.sub_zero, true_and] <;>
      exact ⟨[], by simp, fun D _ _ => Issues.nil _ _⟩
  | cons v rest ih =>
    cases n with
    | zero =>
      simp only [List.take_zero, List.map_nil, readLoop, Queue.readLoop, List.append_nil, List.length_nil,
        Nat.add_zero, Int.add_zero, cacheAdd_nil, Nat.zero_min, Nat.sub_zero, true_and]
      exact ⟨[], by simp, fun D _ _ => Issues.nil _ _⟩
    | succ n =>
      rw [List.take_succ_cons, List.map_cons, readLoop_cons]
      have hmin : min (n + 1) (v :: rest).length = min n rest.length + 1 := by simp [Nat.succ_min_succ]
      by_cases h1 : Queue.expired now v = true
      · -- expired: dropped
        obtain ⟨i1, i2, i3, i4, i5, i6, cs, i7, i8⟩ := ih n pids (rdDrop C a v .expired) hie hlim (by omega)
        have hk := (qreadLoop_rest now ie limit n rest pids (by omega)).2
        simp only [h1, if_true, Queue.readLoop]
        refine ⟨i1, ?_, i3, ?_, i5, ?_, Cmd.lrem a.q.key 1 (C.enc v) :: cs, ?_, ?_⟩
        · rw [i2]; simp [rdDrop, evOf]
        · rw [i4]; simp only [rdDrop]; omega
        · rw [i6, hmin]
          simp only [rdDrop, RQ.mk.injEq, true_and, and_true]
          omega
        · rw [i7]; simp [rdDrop]
        · intro D hD ht
          refine Issues.cons (by simp [QCmd]) ?_
          simp only [lstep]
          rw [erase_map_enc, erase_mid (not_mem_of_tags_nodup ht)]
          exact i8 D hD (tags_nodup_drop_mid ht)
      · by_cases h2 : v.size > a.q.limit
        · -- exceeds the packet size limit: dropped
          obtain ⟨i1, i2, i3, i4, i5, i6, cs, i7, i8⟩ := ih n pids (rdDrop C a v .oversize) hie hlim (by omega)
          have hk := (qreadLoop_rest now ie limit n rest pids (by omega)).2
          have h2' : v.size > limit := hlim ▸ h2
          simp only [h1, h2, h2', if_true, Queue.readLoop, Bool.false_eq_true, if_false]
          refine ⟨i1, ?_, i3, ?_, i5, ?_, Cmd.lrem a.q.key 1 (C.enc v) :: cs, ?_, ?_⟩
          · rw [i2]; simp [rdDrop, evOf]
          · rw [i4]; simp only [rdDrop]; omega
          · rw [i6, hmin]
            simp only [rdDrop, RQ.mk.injEq, true_and, and_true]
            omega
          · rw [i7]; simp [rdDrop]
          · intro D hD ht
            refine Issues.cons (by simp [QCmd]) ?_
            simp only [lstep]
            rw [erase_map_enc, erase_mid (not_mem_of_tags_nodup ht)]
            exact i8 D hD (tags_nodup_drop_mid ht)
        · have h2' : ¬ v.size > limit := hlim ▸ h2
          by_cases h3 : (v.qos == 0) = true
          · -- QoS 0: handed out and removed
            obtain ⟨i1, i2, i3, i4, i5, i6, cs, i7, i8⟩ := ih n pids (rdPass C a v) hie hlim (by omega)
            have hk := (qreadLoop_rest now ie limit n rest pids (by omega)).2
            simp only [h1, h2, h2', h3, if_true, Queue.readLoop, Bool.false_eq_true, if_false]
            refine ⟨i1, ?_, ?_, ?_, i5, ?_, Cmd.lrem a.q.key 1 (C.enc v) :: cs, ?_, ?_⟩
            · rw [i2]; simp [rdPass]
            · rw [i3]; simp [rdPass]
            · rw [i4]; simp only [rdPass]; omega
            · rw [i6, hmin]
              simp only [rdPass, RQ.mk.injEq, true_and, and_true]
              omega
            · rw [i7]; simp [rdPass]
            · intro D hD ht
              refine Issues.cons (by simp [QCmd]) ?_
              simp only [lstep]
              rw [erase_map_enc, erase_mid (not_mem_of_tags_nodup ht)]
              exact i8 D hD (tags_nodup_drop_mid ht)
          · -- QoS 1/2: gets the next packet id and stays, in front of the cursor
            cases pids with
            | nil => simp at hn
            | cons p pids' =>
              have hr : (ops C).assign v p now a.q.ie = { v with id := p, exp := if ie != 0 then some (now + ie) else v.exp } := by
                rw [hie]; rfl
              obtain ⟨i1, i2, i3, i4, i5, i6, cs, i7, i8⟩ := ih n pids' (rdKeep C now a v p) hie hlim (by simp at hn; omega)
              have hk := (qreadLoop_rest now ie limit n rest pids' (by simp at hn; omega)).2
              simp only [h1, h2, h2', h3, Queue.readLoop, Bool.false_eq_true, if_false]
              refine ⟨i1, ?_, ?_, i4, ?_, ?_, Cmd.lset a.q.key a.q.cur (C.enc ((ops C).assign v p now a.q.ie)) :: cs, ?_, ?_⟩
              · rw [i2]; simp [rdKeep]
              · rw [i3]; simp [rdKeep, hr]
              · rw [i5]; simp only [rdKeep]; omega
              · rw [i6, hmin]
                simp only [rdKeep, hr, List.length_cons, cacheAdd_cons, RQ.mk.injEq, true_and, and_true]
                omega
              · rw [i7]; simp [rdKeep]
              · intro D hD ht
                refine Issues.cons (by simp [QCmd]) ?_
                simp only [lstep, Int.toNat_natCast, hr]
                rw [set_map_enc, set_len_append' D v _ rest a.q.cur hD]
                have h8 := i8 (D ++ [{ v with id := p, exp := if ie != 0 then some (now + ie) else v.exp }])
                  (by simp [rdKeep, hD]) (by simpa [Queue.tags] using ht)
                have hkey : (rdKeep C now a v p).q.key = a.q.key := rfl
                rw [hkey] at h8
                simpa using h8

/-- the status strings of `Queue.Out` -/
def statusStr : Status → String
  | .ok => "ok"
  | .err => "err"
  | .panic => "panic"
  | .blocked => "blocked"
  | .closed => "closed"
  | .replaced => "replaced"
  | .notfound => "notfound"

theorem rest_nil_iff (C : Codec) (rq : RQ) (ds : Dataset) (q : Q) (h : Sim C rq ds q) : rq.cur ≥ rq.len ↔ q.rest = [] := by
  have hl := h.len
  have hcu := h.cur
  simp only [Q.items, List.length_append] at hl
  rw [hl, hcu]
  constructor
  · intro hge
    exact List.length_eq_zero_iff.1 (by omega)
  · intro hr
    simp [hr]

theorem nzIds_sublist {l l' : List Elem} (h : l'.Sublist l) : (nzIds l').Sublist (nzIds l) :=
  (h.filter _).map _

theorem qread_ok_eq (q : Q) (now : Nat) (pids : List Nat) (hd : q.drained = true) (hc : q.closed = false) (hr : q.rest ≠ []) :
    q.read now pids =
      ({ q with done := q.done ++ (Queue.readLoop now q.ie q.limit (min pids.length q.items.length) q.rest pids).kept,
                rest := (Queue.readLoop now q.ie q.limit (min pids.length q.items.length) q.rest pids).rest },
       .ok (Queue.readLoop now q.ie q.limit (min pids.length q.items.length) q.rest pids).out
         ((Queue.readLoop now q.ie q.limit (min pids.length q.items.length) q.rest pids).evs ++
           [.queued (Queue.readLoop now q.ie q.limit (min pids.length q.items.length) q.rest pids).qd,
            .inflight (Queue.readLoop now q.ie q.limit (min pids.length q.items.length) q.rest pids).ind])) := by
    have hre : q.rest.isEmpty = false := by
      cases hq : q.rest with
      | nil => exact absurd hq hr
      | cons x xs => rfl
    have hie : q.items.isEmpty = false := by
      cases hq : q.rest with
      | nil => exact absurd hq hr
      | cons x xs => simp [Q.items, hq]
    simp only [Q.read, hd, hc, hre, hie, Bool.not_true, Bool.false_eq_true, if_false, Bool.or_false, Bool.not_false,
      Bool.and_true]

/-- `Read(pids)`, the branch that reads: `inflightDrained`, not closed, something behind the cursor -/
theorem sim_read_ok (C : Codec) (rq : RQ) (ds : Dataset) (q : Q) (now : Nat) (pids : List Nat) (h : Sim C rq ds q)
    (h0 : ∀ p ∈ pids, p ≠ 0) (hnd : pids.Nodup) (hfresh : ∀ p ∈ pids, p ∉ nzIds q.items)
    (hd : q.drained = true) (hc : q.closed = false) (hr : q.rest ≠ []) :
    (read (ops C) rq ds now pids).evs.map evOf =
      (Queue.readLoop now q.ie q.limit (min pids.length q.items.length) q.rest pids).evs ++
        [.queued (Queue.readLoop now q.ie q.limit (min pids.length q.items.length) q.rest pids).qd,
         .inflight (Queue.readLoop now q.ie q.limit (min pids.length q.items.length) q.rest pids).ind] ∧
    (read (ops C) rq ds now pids).ret = (Queue.readLoop now q.ie q.limit (min pids.length q.items.length) q.rest pids).out ∧
    (read (ops C) rq ds now pids).status = .ok ∧
    Sim C (read (ops C) rq ds now pids).q (applyAll ds (read (ops C) rq ds now pids).cmds)
      { q with done := q.done ++ (Queue.readLoop now q.ie q.limit (min pids.length q.items.length) q.rest pids).kept,
               rest := (Queue.readLoop now q.ie q.limit (min pids.length q.items.length) q.rest pids).rest } := by
  have hinv := Queue.step_inv q (.read now pids) h0 h.inv
  have hread := qread_ok_eq q now pids hd hc hr
  simp only [Queue.step, hread] at hinv
  have hge : ¬ (rq.cur ≥ rq.len) := fun hge => hr ((rest_nil_iff C rq ds q h).1 hge)
  have hl := h.len
  have hcu := h.cur
  simp only [Q.items, List.length_append] at hl
  have hrd : rq.drained = true := h.drained.trans hd
  have hrc : rq.closed = false := h.closed.trans hc
  by_cases hp : pids = []
  · subst hp
    simp only [read, hrd, hrc, hge, decide_false, Bool.not_true, Bool.false_eq_true, if_false, Bool.false_and,
      List.isEmpty_nil, if_true, List.length_nil, Nat.zero_min, Queue.readLoop, List.append_nil, List.nil_append,
      List.map_cons, List.map_nil, evOf, true_and]
    exact h
  · have hpe : pids.isEmpty = false := by
      cases pids with
      | nil => exact absurd rfl hp
      | cons x xs => rfl
    have hppos : 0 < pids.length := List.length_pos_iff.2 hp
    have hwin : lrange (q.items.map C.enc) (rq.cur : Int) (((rq.cur + pids.length : Nat) : Int) - 1)
        = (q.rest.take (min pids.length q.items.length)).map C.enc := by
      rw [window_eq C rq ds q h pids.length hppos, take_min_of_le]
      simp [Q.items]
    obtain ⟨i1, i2, i3, i4, i5, i6, cs, i7, i8⟩ := readLoop_sim C now q.ie q.limit q.rest (min pids.length q.items.length) pids
      { q := rq } h.ie h.limit (Nat.min_le_left _ _)
    obtain ⟨m1, m2⟩ := qreadLoop_rest now q.ie q.limit (min pids.length q.items.length) q.rest pids (Nat.min_le_left _ _)
    have m3 := qreadLoop_kept_ids_sublist now q.ie q.limit (min pids.length q.items.length) q.rest pids
    have m4 := qreadLoop_kept_rest_sublist now q.ie q.limit (min pids.length q.items.length) q.rest pids
    have m5 := Queue.readLoop_suffix now q.ie q.limit (min pids.length q.items.length) q.rest pids
    simp only [read, hrd, hrc, hge, decide_false, Bool.not_true, Bool.false_eq_true, if_false, Bool.false_and, hpe,
      h.list, hwin, i1]
    refine ⟨?_, i3.trans (by simp), by first | rfl | trivial, ?_⟩
    · rw [List.map_append, i2]
      simp only [List.map_cons, List.map_nil, evOf, i4, i5]
      simp
    generalize Queue.readLoop now q.ie q.limit (min pids.length q.items.length) q.rest pids = r at *
    have hkz : ∀ e ∈ r.kept, e.id ≠ 0 := fun e he => h0 _ (m3.subset (List.mem_map.2 ⟨e, he, rfl⟩))
    have hiss : Issues rq.key (Cmd.lrange rq.key (rq.cur : Int) (((rq.cur + pids.length : Nat) : Int) - 1) :: cs)
        (q.items.map C.enc) ((q.done ++ r.kept ++ r.rest).map C.enc) :=
      Issues.cons (by simp [QCmd]) (by simpa [lstep, Q.items] using i8 q.done hcu.symm (by simpa [Q.items] using h.tags))
    obtain ⟨l1, l2⟩ := hiss.listAt ds h.nodup h.list
    have hids := h.ids
    have htags := h.tags
    simp only [Q.items, nzIds_append] at hids
    simp only [Q.items, Queue.tags_append] at htags
    rw [i7, i6]
    refine ⟨by simpa using l2, by simpa [Q.items] using l1, ?_, ?_, ?_, h.drained, h.closed, h.max, h.ie, h.limit, ?_, ?_, hinv⟩
    · have : r.rest.length = q.rest.length - min pids.length q.items.length := by rw [m1]; simp
      simp only [Q.items, List.length_append] at this ⊢
      omega
    · simp [hcu]
    · refine cacheGet_cacheAdd C r.kept rq.cache q.done h.cache ?_ (m3.nodup hnd)
      intro x hx
      apply find_none_of_not_mem_ids
      intro hmem
      obtain ⟨y, hy, hyx⟩ := List.mem_map.1 hmem
      have hxp : x.id ∈ pids := m3.subset (List.mem_map.2 ⟨x, hx, rfl⟩)
      refine hfresh x.id hxp ?_
      rw [← hyx]
      exact mem_nzIds_of_mem (by simp [Q.items, hy]) (by rw [hyx]; exact h0 _ hxp)
    · simp only [Q.items, Queue.tags_append, List.append_assoc]
      exact List.Sublist.nodup (List.Sublist.append_left m4 _) htags
    · simp only [Q.items, nzIds_append, List.append_assoc]
      rw [nzIds_of_all_nz hkz]
      have hrest : (nzIds r.rest).Sublist (nzIds q.rest) := nzIds_sublist m5.sublist
      have hfr : ∀ a ∈ r.kept.map (·.id), a ∉ nzIds q.items := fun a ha => hfresh a (m3.subset ha)
      simp only [Q.items, nzIds_append, List.mem_append, not_or] at hfr
      obtain ⟨n1, n2, n3⟩ := List.nodup_append.1 hids
      refine List.nodup_append.2 ⟨n1, List.nodup_append.2 ⟨m3.nodup hnd, hrest.nodup n2, ?_⟩, ?_⟩
      · intro a ha b hb hab
        exact (hfr a ha).2 (hab ▸ hrest.subset hb)
      · intro a ha b hb hab
        rcases List.mem_append.1 hb with hb | hb
        · exact (hfr b hb).1 (hab ▸ ha)
        · exact n3 a ha b (hrest.subset hb) hab

/-- `Read(pids)`, all branches (panic before the drain, would block, closed, reads): the same notifier calls, returned
    elements and status as the memory queue, and the relation is kept -/
theorem sim_read (C : Codec) (rq : RQ) (ds : Dataset) (q : Q) (now : Nat) (pids : List Nat) (h : Sim C rq ds q)
    (h0 : ∀ p ∈ pids, p ≠ 0) (hnd : pids.Nodup) (hfresh : ∀ p ∈ pids, p ∉ nzIds q.items) :
    (read (ops C) rq ds now pids).evs.map evOf = (Queue.step q (.read now pids)).2.evs ∧
    (read (ops C) rq ds now pids).ret = (Queue.step q (.read now pids)).2.returned ∧
    statusStr (read (ops C) rq ds now pids).status = (Queue.step q (.read now pids)).2.status ∧
    Sim C (read (ops C) rq ds now pids).q (applyAll ds (read (ops C) rq ds now pids).cmds)
      (Queue.step q (.read now pids)).1 := by
  cases hd : q.drained with
  | false =>
    have hrd : rq.drained = false := h.drained.trans hd
    have hread : q.read now pids = (q, .panic) := by simp [Q.read, hd]
    have hred : read (ops C) rq ds now pids = { q := rq, status := .panic } := by simp [read, hrd]
    rw [hred]
    simp only [Queue.step, hread]
    exact ⟨by first | rfl | trivial, by first | rfl | trivial, by first | rfl | trivial, h⟩
  | true =>
    have hrd : rq.drained = true := h.drained.trans hd
    cases hc : q.closed with
    | true =>
      have hrc : rq.closed = true := h.closed.trans hc
      have hread : q.read now pids = (q, .closed) := by simp [Q.read, hd, hc]
      have hred : read (ops C) rq ds now pids = { q := rq, status := .closed } := by simp [read, hrd, hrc]
      rw [hred]
      simp only [Queue.step, hread]
      exact ⟨by first | rfl | trivial, by first | rfl | trivial, by first | rfl | trivial, h⟩
    | false =>
      have hrc : rq.closed = false := h.closed.trans hc
      by_cases hr : q.rest = []
      · have hge : rq.cur ≥ rq.len := (rest_nil_iff C rq ds q h).2 hr
        have hread : q.read now pids = (q, .blocked) := by simp [Q.read, hd, hc, hr]
        have hred : read (ops C) rq ds now pids = { q := rq, status := .blocked } := by simp [read, hrd, hrc, hge]
        rw [hred]
        simp only [Queue.step, hread]
        exact ⟨by first | rfl | trivial, by first | rfl | trivial, by first | rfl | trivial, h⟩
      · obtain ⟨r1, r2, r3, r4⟩ := sim_read_ok C rq ds q now pids h h0 hnd hfresh hd hc hr
        have hread := qread_ok_eq q now pids hd hc hr
        simp only [Queue.step, hread]
        rw [r3]
        exact ⟨r1, r2, rfl, r4⟩

/-! ### `Add` on a full queue: the drop ladder -/

theorem zip_map_enc (C : Codec) (l : List Elem) : (l.map C.enc).zip l = l.map (fun v => (C.enc v, v)) := by
  induction l with
  | nil => rfl
  | cons x l ih => simp [List.zip_cons_cons, ih]

theorem findFirst_pairs (C : Codec) (p : Elem → Bool) (l : List Elem) :
    findFirst p (l.map (fun v => (C.enc v, v))) = (l.find? p).map (fun v => (C.enc v, v)) := by
  induction l with
  | nil => rfl
  | cons x l ih =>
    cases hp : p x
    · simp [findFirst, hp, ih]
    · simp [findFirst, hp]

/-- the redis queue walks the same ladder and picks the same victim as the memory queue -/
theorem chooseVictim_eq (C : Codec) (rq : RQ) (ds : Dataset) (q : Q) (now : Nat) (e : Elem) (h : Sim C rq ds q) :
    chooseVictim (ops C) rq now e ((q.items.map C.enc).zip q.items) =
      match Queue.chooseVictim q now e with
      | .inflight v _ => .inflight (C.enc v) v
      | .queued v r _ => .queued (C.enc v) v r
      | .newcomer => .newcomer := by
  have htake : (q.items.map (fun v => (C.enc v, v))).take rq.cur = q.done.map (fun v => (C.enc v, v)) := by
    rw [h.cur, ← List.map_take]; simp [Q.items]
  have hdrop : (q.items.map (fun v => (C.enc v, v))).drop rq.cur = q.rest.map (fun v => (C.enc v, v)) := by
    rw [h.cur, ← List.map_drop]; simp [Q.items]
  have e1 : (ops C).expired now = Queue.expired now := rfl
  have e4 : isQueued (ops C) = Queue.isQueued := rfl
  have e5 : ∀ x, (ops C).qos x = x.qos := fun _ => rfl
  rw [Queue.chooseVictim_spec, zip_map_enc]
  simp only [chooseVictim, htake, hdrop, findFirst_pairs, e1, e4, e5]
  cases h1 : q.done.find? (Queue.expired now) with
  | some v => rfl
  | none =>
    simp only [Option.map_none]
    by_cases hd : (rq.drained && decide (rq.cur ≥ rq.len)) = true
    · simp only [hd, if_true]
      simp only [Bool.and_eq_true, decide_eq_true_eq] at hd
      have hr : q.rest = [] := (rest_nil_iff C rq ds q h).1 hd.2
      simp [hr]
    · simp only [hd, Bool.false_eq_true, if_false]
      cases h2 : q.rest.find? (fun x => Queue.isQueued x && Queue.expired now x) with
      | some v => rfl
      | none =>
        cases h3 : q.rest.find? (fun x => Queue.isQueued x && x.qos == 0) with
        | some v => rfl
        | none =>
          simp only [Option.map_none]
          by_cases hq : (e.qos == 0) = true
          · simp only [hq, if_true]
          · simp only [hq, Bool.false_eq_true, if_false]
            cases h4 : q.rest.find? Queue.isQueued <;> rfl

/-- with distinct packet ids, an entry is the first one carrying its id -/
theorem find_id_of_mem {l : List Elem} {v : Elem} (hv : v ∈ l) (h0 : v.id ≠ 0) (hn : (nzIds l).Nodup) :
    l.find? (fun x => x.id == v.id) = some v := by
  induction l with
  | nil => simp at hv
  | cons x l ih =>
    by_cases hx : x = v
    · subst hx; simp
    · have hvl : v ∈ l := by
        rcases List.mem_cons.1 hv with e | e
        · exact absurd e.symm hx
        · exact e
      have hxid : ¬ x.id = v.id := by
        intro e
        have hx0 : (x.id != 0) = true := by simp [e, h0]
        simp only [nzIds, List.filter_cons, hx0, if_true, List.map_cons, List.nodup_cons] at hn
        exact hn.1 (e ▸ mem_nzIds_of_mem hvl h0)
      have hb : (x.id == v.id) = false := by simp [hxid]
      simp only [List.find?_cons, hb]
      apply ih hvl
      simp only [nzIds, List.filter_cons] at hn
      split at hn
      · exact (List.nodup_cons.mp hn).2
      · exact hn

theorem extractFirst_some_iff {p : Elem → Bool} {l l' : List Elem} {v : Elem} (h : extractFirst p l = some (v, l')) :
    l.find? p = some v ∧ l' = l.eraseP p := by
  rw [Queue.extractFirst_eq] at h
  cases hf : l.find? p with
  | none => simp [hf] at h
  | some w =>
    simp only [hf, Option.map_some, Option.some.injEq, Prod.mk.injEq] at h
    exact ⟨by rw [h.1], h.2.symm⟩

theorem tags_nodup_snoc {l : List Elem} {e : Elem} (h : (Queue.tags l).Nodup) (he : e.tag ∉ Queue.tags l) :
    (Queue.tags (l ++ [e])).Nodup := by
  simp only [Queue.tags_append, Queue.tags_cons, Queue.tags_nil]
  refine List.nodup_append.mpr ⟨h, by simp, ?_⟩
  intro a ha b hb
  simp only [List.mem_singleton] at hb
  subst hb
  exact fun hab => he (hab ▸ ha)

theorem nzIds_snoc_zero (l : List Elem) {e : Elem} (he : e.id = 0) : nzIds (l ++ [e]) = nzIds l := by
  rw [nzIds_append]
  simp [nzIds, he]

/-- `Add` on a full queue: the drop ladder picks the same victim, removes it with `LREM 1 <bytes>` and appends the newcomer
    with RPUSH; the same notifier calls -/
theorem sim_add_full (C : Codec) (rq : RQ) (ds : Dataset) (q : Q) (now : Nat) (e : Elem) (h : Sim C rq ds q)
    (hfull : q.max ≤ q.items.length) (hpub : e.pub = true) (hid : e.id = 0) (htag : e.tag ∉ Queue.tags q.items) :
    (add (ops C) rq ds now e).evs.map evOf = (q.add now e).2 ∧ (add (ops C) rq ds now e).status = .ok ∧
      Sim C (add (ops C) rq ds now e).q (applyAll ds (add (ops C) rq ds now e).cmds) (q.add now e).1 := by
  have hinv := Queue.step_inv q (.add now e) ⟨hpub, hid⟩ h.inv
  have hf : rq.len ≥ rq.max := by rw [h.len, h.max]; exact hfull
  have hf' : q.items.length ≥ q.max := hfull
  have hcv := chooseVictim_eq C rq ds q now e h
  have hl := h.len
  have hcu := h.cur
  have hids := h.ids
  have htags := h.tags
  simp only [Q.items, List.length_append] at hl
  simp only [Queue.step, Q.add, hf', if_true] at hinv
  simp only [add, hf, if_true, h.list, decodeAll_map, hcv, Q.add, hf']
  rcases Queue.chooseVictim_cases q now e with ⟨v, d, hx, hc⟩ | ⟨v, r, rest', p, hx, hp, hc⟩ | hc
  · -- an expired in-flight entry, in front of the cursor
    obtain ⟨hfind, rfl⟩ := extractFirst_some_iff hx
    simp only [hc] at hinv ⊢
    refine ⟨rfl, trivial, ?_⟩
    have hvd : v ∈ q.done := List.mem_of_find?_eq_some hfind
    have hv0 : v.id ≠ 0 := h.inv.1 v hvd
    have hnd : (nzIds q.done).Nodup := by
      simp only [Q.items, nzIds_append] at hids
      exact (List.nodup_append.mp hids).1
    have hers : q.done.eraseP (Queue.expired now) = q.done.eraseP (fun x => x.id == v.id) := by
      rw [← erase_eq_eraseP_of_find hfind, erase_eq_eraseP_of_find (find_id_of_mem hvd hv0 hnd)]
    have hitems : q.items.erase v = q.done.eraseP (Queue.expired now) ++ q.rest := by
      simp only [Q.items]
      rw [List.erase_append_left _ hvd, erase_eq_eraseP_of_find hfind]
    have hlen : (q.done.eraseP (Queue.expired now)).length = q.done.length - 1 :=
      List.length_eraseP_of_mem hvd (List.find?_some hfind)
    have hpos : 0 < q.done.length := List.length_pos_of_mem hvd
    have hsub : (q.done.eraseP (Queue.expired now) ++ q.rest).Sublist q.items :=
      List.Sublist.append_right List.eraseP_sublist _
    have hiss : Issues rq.key [Cmd.lrange rq.key 0 (-1), Cmd.lrem rq.key 1 (C.enc v), Cmd.rpush rq.key (C.enc e)]
        (q.items.map C.enc) ((q.done.eraseP (Queue.expired now) ++ (q.rest ++ [e])).map C.enc) := by
      refine ⟨by simp [QCmd], ?_⟩
      simp only [List.foldl_cons, List.foldl_nil, lstep, erase_map_enc, hitems]
      simp
    obtain ⟨l1, l2⟩ := hiss.listAt ds h.nodup h.list
    refine ⟨l2, l1, ?_, ?_, ?_, h.drained, h.closed, h.max, h.ie, h.limit, ?_, ?_, hinv⟩
    · simp only [Q.items, List.length_append, hlen, List.length_cons, List.length_nil]; omega
    · simp only [hlen]; omega
    · intro id
      show cacheGet (cacheDel rq.cache v.id) id = _
      rw [cacheGet_del, h.cache id, hers]
      by_cases hidv : id = v.id
      · subst hidv
        simp [find_eraseP_none q.done v.id hv0 hnd]
      · simp [hidv, find_eraseP_ne q.done v.id id hidv]
    · have : ({ q with done := q.done.eraseP (Queue.expired now), rest := q.rest ++ [e] } : Q).items =
          (q.done.eraseP (Queue.expired now) ++ q.rest) ++ [e] := by simp [Q.items]
      rw [this]
      exact tags_nodup_snoc ((Queue.tags_sublist hsub).nodup htags)
        (fun hm => htag ((Queue.tags_sublist hsub).subset hm))
    · have : ({ q with done := q.done.eraseP (Queue.expired now), rest := q.rest ++ [e] } : Q).items =
          (q.done.eraseP (Queue.expired now) ++ q.rest) ++ [e] := by simp [Q.items]
      rw [this, nzIds_snoc_zero _ hid]
      exact (nzIds_sublist hsub).nodup hids
  · -- a queued message behind the cursor (expired / QoS 0 / the oldest)
    obtain ⟨hfind, rfl⟩ := extractFirst_some_iff hx
    simp only [hc] at hinv ⊢
    refine ⟨rfl, trivial, ?_⟩
    have hvr : v ∈ q.rest := List.mem_of_find?_eq_some hfind
    have hvd : v ∉ q.done := by
      obtain ⟨s1, s2, hs⟩ := List.append_of_mem hvr
      simp only [Q.items, hs] at htags
      rw [← List.append_assoc] at htags
      intro hm
      exact not_mem_of_tags_nodup htags (List.mem_append_left _ hm)
    have hitems : q.items.erase v = q.done ++ q.rest.eraseP p := by
      simp only [Q.items]
      rw [List.erase_append_right _ hvd, erase_eq_eraseP_of_find hfind]
    have hlen : (q.rest.eraseP p).length = q.rest.length - 1 :=
      List.length_eraseP_of_mem hvr (List.find?_some hfind)
    have hpos : 0 < q.rest.length := List.length_pos_of_mem hvr
    have hsub : (q.done ++ q.rest.eraseP p).Sublist q.items :=
      List.Sublist.append_left List.eraseP_sublist _
    have hiss : Issues rq.key [Cmd.lrange rq.key 0 (-1), Cmd.lrem rq.key 1 (C.enc v), Cmd.rpush rq.key (C.enc e)]
        (q.items.map C.enc) ((q.done ++ (q.rest.eraseP p ++ [e])).map C.enc) := by
      refine ⟨by simp [QCmd], ?_⟩
      simp only [List.foldl_cons, List.foldl_nil, lstep, erase_map_enc, hitems]
      simp
    obtain ⟨l1, l2⟩ := hiss.listAt ds h.nodup h.list
    have hit : ({ q with rest := q.rest.eraseP p ++ [e] } : Q).items = (q.done ++ q.rest.eraseP p) ++ [e] := by
      simp [Q.items]
    refine ⟨l2, l1, ?_, hcu, h.cache, h.drained, h.closed, h.max, h.ie, h.limit, ?_, ?_, hinv⟩
    · simp only [Q.items, List.length_append, hlen, List.length_cons, List.length_nil]; omega
    · rw [hit]
      exact tags_nodup_snoc ((Queue.tags_sublist hsub).nodup htags)
        (fun hm => htag ((Queue.tags_sublist hsub).subset hm))
    · rw [hit, nzIds_snoc_zero _ hid]
      exact (nzIds_sublist hsub).nodup hids
  · -- the newcomer itself
    simp only [hc] at hinv ⊢
    refine ⟨rfl, trivial, ?_⟩
    have hiss : Issues rq.key [Cmd.lrange rq.key 0 (-1)] (q.items.map C.enc) (q.items.map C.enc) :=
      ⟨by simp [QCmd], rfl⟩
    obtain ⟨l1, l2⟩ := hiss.listAt ds h.nodup h.list
    exact ⟨l2, l1, h.len, h.cur, h.cache, h.drained, h.closed, h.max, h.ie, h.limit, h.tags, h.ids, h.inv⟩

/-! ### the operations that touch at most one entry, in the shape the dispatcher needs -/

/-- `Remove(pid)` without the side condition `pid ≠ 0`: no entry in front of the cursor has packet id 0, so `Remove(0)` finds
    nothing on either side -/
theorem sim_remove_any (C : Codec) (rq : RQ) (ds : Dataset) (q : Q) (pid : Nat) (h : Sim C rq ds q) :
    ((remove rq pid : Res Elem).evs.map evOf = (q.remove pid).2.1) ∧ (remove rq pid : Res Elem).status = .ok ∧
      Sim C (remove rq pid : Res Elem).q (applyAll ds (remove rq pid : Res Elem).cmds) (q.remove pid).1 := by
  by_cases hpid : pid = 0
  · subst hpid
    have hnone : q.done.find? (fun x => x.id == 0) = none := by
      rw [List.find?_eq_none]
      intro x hx hx0
      exact h.inv.1 x hx (by simpa using hx0)
    have hc := h.cache 0
    rw [hnone] at hc
    simp only [Option.map_none] at hc
    rw [qremove_eq, hnone]
    simp only [remove, hc]
    exact ⟨rfl, trivial, h⟩
  · exact sim_remove C rq ds q pid h hpid

theorem add_ret (C : Codec) (rq : RQ) (ds : Dataset) (now : Nat) (e : Elem) : (add (ops C) rq ds now e).ret = [] := by
  unfold add
  split
  · split
    · rfl
    · split
      · rfl
      · split <;> rfl
  · rfl

theorem remove_ret (rq : RQ) (pid : Nat) : (remove rq pid : Res Elem).ret = [] := by
  unfold remove
  split <;> rfl

theorem replace_ret_evs (C : Codec) (rq : RQ) (ds : Dataset) (e : Elem) :
    (replace (ops C) rq ds e).ret = [] ∧ (replace (ops C) rq ds e).evs = [] := by
  unfold replace
  split
  · exact ⟨rfl, rfl⟩
  · split
    · exact ⟨rfl, rfl⟩
    · split <;> exact ⟨rfl, rfl⟩

theorem init_ret_evs (rq : RQ) (ds : Dataset) (clean : Bool) (limit : Nat) :
    (init rq ds clean limit : Res Elem).ret = [] ∧ (init rq ds clean limit : Res Elem).evs = [] := by
  simp only [init]
  split <;> exact ⟨rfl, rfl⟩

theorem step_remove_eq (q : Q) (pid : Nat) :
    (Queue.step q (.remove pid)).1 = (q.remove pid).1 ∧ (Queue.step q (.remove pid)).2.evs = (q.remove pid).2.1 ∧
      (Queue.step q (.remove pid)).2.returned = [] ∧ (Queue.step q (.remove pid)).2.status = "ok" := by
  rcases hr : q.remove pid with ⟨q', evs, _ | v⟩ <;> simp [Queue.step, hr]

theorem step_replace_eq (q : Q) (e : Elem) :
    (Queue.step q (.replace e)).1 = (q.replace e).1 ∧ (Queue.step q (.replace e)).2.evs = [] ∧
      (Queue.step q (.replace e)).2.returned = [] ∧
      (Queue.step q (.replace e)).2.status = (if (q.replace e).2 then "replaced" else "notfound") := by
  rcases hr : q.replace e with ⟨q', _ | _⟩ <;> simp [Queue.step, hr]

end GmqttVerif.RedisQueue
