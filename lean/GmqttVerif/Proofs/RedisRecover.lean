import GmqttVerif.Proofs.RedisStore
/-
  What a restarted broker loads (`recover`) from a dataset that holds the encodings of a decoded store:
  start-up succeeds, and the recovered sessions are exactly the clients whose session hash holds a session,
  each with exactly its decoded subscriptions, queue and unack ids. Core Lean only.
-/
namespace GmqttVerif.RedisStores
open GmqttVerif.Codec GmqttVerif.Redis GmqttVerif.ElemCodec

/-- the session a stored hash parses to -/
def parsedSess (fs : List (Bytes × Bytes)) : Except Unit (Option Session) :=
  parseSession (sessFields.map (hfind fs))

/-- what a restart recovers for client `c` from the decoded store: nothing when `session:<c>` holds no session -/
def clientView (g : DStore) (c : Bytes) : Option Recovered :=
  match parsedSess (g c).sess with
  | .ok (some s) => some { sess := s, subs := (g c).subs, queue := (g c).queue, unack := (g c).unack.map natToDec }
  | _ => none

theorem scanU32_good (o : Option Bytes) (h : ∀ v, o = some v → ∃ n, decToU32 v = some n) : ∃ n, scanU32 o = some n := by
  cases o with
  | none => exact ⟨0, rfl⟩
  | some v => exact h v rfl

/-- a session hash written by well-formed commands always loads, and under the client id of its key -/
theorem parsedSess_ok (c : Bytes) (fs : List (Bytes × Bytes)) (h : ∀ f v, hfind fs f = some v → GoodSessField c f v) :
    ∃ r, parsedSess fs = .ok r ∧ ∀ s, r = some s → s.id = c := by
  simp only [parsedSess, sessFields, List.map_cons, List.map_nil, parseSession]
  cases hid : hfind fs fClientId with
  | none => exact ⟨none, rfl, by simp⟩
  | some id =>
    have hidc : id = c := (h _ _ hid).1 rfl
    obtain ⟨wd, hwd⟩ := scanU32_good (hfind fs fWillDelay) (fun v hv => (h _ _ hv).2.2.1 rfl)
    obtain ⟨ca, hca⟩ := scanU32_good (hfind fs fConnectedAt) (fun v hv => (h _ _ hv).2.2.2.1 rfl)
    obtain ⟨ex, hex⟩ := scanU32_good (hfind fs fExpiry) (fun v hv => (h _ _ hv).2.2.2.2 rfl)
    have hw : ∃ w, decodeMessageOpt ((hfind fs fWill).getD []) = .ok w := by
      cases hwl : hfind fs fWill with
      | none => exact ⟨none, by simp [decodeMessageOpt]⟩
      | some v => exact (h _ _ hwl).2.1 rfl
    obtain ⟨w, hw⟩ := hw
    simp only [hwd, hca, hex, hw]
    exact ⟨_, rfl, fun s hs => by cases hs; exact hidc⟩

theorem decodeSubs_encSubs (l : List (Bytes × Subscription)) (h : ∀ p ∈ l, p.2.InLimits) :
    decodeSubs (encSubs l) = .ok l := by
  induction l with
  | nil => rfl
  | cons p l ih =>
    obtain ⟨f, s⟩ := p
    have h1 := decodeSubscription_encodeSubscription s (h (f, s) (by simp))
    have h2 := ih (fun q hq => h q (by simp [hq]))
    simp only [encSubs, List.map_cons] at h2 ⊢
    simp only [decodeSubs, h1, h2]

theorem decodeElems_encQueue (l : List Elem) (h : ∀ e ∈ l, e.InLimits) : decodeElems (encQueue l) = .ok l := by
  induction l with
  | nil => rfl
  | cons e l ih =>
    have h1 := decodeElem_encodeElem e (h e (by simp))
    have h2 := ih (fun q hq => h q (by simp [hq]))
    simp only [encQueue, List.map_cons] at h2 ⊢
    simp only [decodeElems, h1, h2]

theorem sessGet_of_rel (ds : Dataset) (g : DStore) (hr : Rel ds g) (c : Bytes) :
    sessGet ds (sessKey c) = parsedSess (g c).sess := by
  have h := hr.2 .sess c
  simp only [keyOf, expect, holds] at h
  simp [sessGet, h, parsedSess]

theorem recoverOne_of_rel (ds : Dataset) (g : DStore) (hr : Rel ds g) (hg : GoodStore g) (s : Session) :
    recoverOne ds s = .ok { sess := s, subs := (g s.id).subs, queue := (g s.id).queue, unack := (g s.id).unack.map natToDec } := by
  have h1 := hr.2 .sub s.id
  have h2 := hr.2 .queue s.id
  have h3 := hr.2 .unack s.id
  simp only [keyOf, expect, holds] at h1 h2 h3
  simp only [recoverOne, subLoad, h1, decodeSubs_encSubs _ (hg s.id).subs, h2, decodeElems_encQueue _ (hg s.id).queue, h3]
  simp [encUnack]

theorem go_ok (ds : Dataset) (p : Bytes → Option Session) (ks : List Bytes) (h : ∀ k ∈ ks, sessGet ds k = .ok (p k)) :
    sessIterate.go ds ks = .ok (ks.filterMap p) := by
  induction ks with
  | nil => rfl
  | cons k ks ih =>
    have h1 := h k (by simp)
    have h2 := ih (fun x hx => h x (by simp [hx]))
    simp only [sessIterate.go, h1, h2]
    cases hp : p k <;> simp [List.filterMap_cons, hp]

theorem recoverAll_ok (ds : Dataset) (f : Session → Recovered) (ss : List Session) (h : ∀ s ∈ ss, recoverOne ds s = .ok (f s)) :
    recoverAll ds ss = .ok (ss.map f) := by
  induction ss with
  | nil => rfl
  | cons s ss ih =>
    have h1 := h s (by simp)
    have h2 := ih (fun x hx => h x (by simp [hx]))
    simp only [recoverAll, h1, h2, List.map_cons]

theorem sessKey_of_prefix (k : Bytes) (h : sessPrefix.isPrefixOf k = true) : k = sessKey (k.drop 8) := by
  rw [List.isPrefixOf_iff_prefix] at h
  obtain ⟨t, ht⟩ := h
  subst ht
  simp [sessKey, sessPrefix]

/-- **start-up succeeds** on any dataset that holds the encodings of a well-formed decoded store, and what it recovers
    is exactly the client views -/
theorem recover_of_rel (ds : Dataset) (g : DStore) (hr : Rel ds g) (hg : GoodStore g) :
    ∃ d, recover ds = .ok d ∧
      (∀ r, r ∈ d → ∃ c, clientView g c = some r ∧ r.sess.id = c) ∧
      (∀ c r, clientView g c = some r → r ∈ d) := by
  -- the session each `session:*` key parses to
  let p : Bytes → Option Session := fun k =>
    match parsedSess (g (k.drop 8)).sess with
    | .ok r => r
    | .error _ => none
  have hkeys : ∀ k ∈ keysWithPrefix ds sessPrefix, sessGet ds k = .ok (p k) := by
    intro k hk
    simp only [keysWithPrefix, List.mem_filter] at hk
    have hk2 := sessKey_of_prefix k hk.2
    obtain ⟨r, hr1, _⟩ := parsedSess_ok (k.drop 8) _ (hg (k.drop 8)).sess
    have := sessGet_of_rel ds g hr (k.drop 8)
    rw [← hk2] at this
    simp only [p, this, hr1]
  have hgo := go_ok ds p _ hkeys
  let f : Session → Recovered := fun s =>
    { sess := s, subs := (g s.id).subs, queue := (g s.id).queue, unack := (g s.id).unack.map natToDec }
  have hall := recoverAll_ok ds f ((keysWithPrefix ds sessPrefix).filterMap p) (fun s _ => recoverOne_of_rel ds g hr hg s)
  refine ⟨((keysWithPrefix ds sessPrefix).filterMap p).map f, by simp only [recover, sessIterate, hgo, hall], ?_, ?_⟩
  · intro r hrm
    simp only [List.mem_map, List.mem_filterMap] at hrm
    obtain ⟨s, ⟨k, hk, hpk⟩, hfs⟩ := hrm
    simp only [keysWithPrefix, List.mem_filter] at hk
    have hk2 := sessKey_of_prefix k hk.2
    obtain ⟨r0, hr1, hr2⟩ := parsedSess_ok (k.drop 8) _ (hg (k.drop 8)).sess
    simp only [p, hr1] at hpk
    have hid : s.id = k.drop 8 := hr2 s hpk
    refine ⟨k.drop 8, ?_, ?_⟩
    · simp only [clientView, hr1, hpk]
      rw [← hfs]
      simp only [f, hid]
    · rw [← hfs]; exact hid
  · intro c r hcv
    simp only [clientView] at hcv
    obtain ⟨r0, hr1, hr2⟩ := parsedSess_ok c _ (hg c).sess
    rw [hr1] at hcv
    cases r0 with
    | none => simp at hcv
    | some s =>
      simp only [Option.some.injEq] at hcv
      have hid : s.id = c := hr2 s rfl
      -- the key is present: the hash is not empty
      have hne : (g c).sess ≠ [] := by
        intro he
        rw [he] at hr1
        simp [parsedSess, sessFields, parseSession, hfind] at hr1
      have hh := hr.2 .sess c
      simp only [keyOf, expect, holds] at hh
      have hget : (get ds (sessKey c)).isSome = true := by
        rcases hashAt_cases hh with h1 | ⟨_, h2⟩
        · simp [h1]
        · exact absurd h2 hne
      have hmem : sessKey c ∈ keysWithPrefix ds sessPrefix := by
        simp only [keysWithPrefix, List.mem_filter]
        refine ⟨(mem_keys_iff ds _).mpr hget, ?_⟩
        rw [List.isPrefixOf_iff_prefix]
        exact ⟨c, rfl⟩
      have hdrop : (sessKey c).drop 8 = c := by simp [sessKey, sessPrefix]
      simp only [List.mem_map, List.mem_filterMap]
      refine ⟨s, ⟨sessKey c, hmem, ?_⟩, ?_⟩
      · simp only [p, hdrop, hr1]
      · rw [← hcv]
        simp only [f, hid]

end GmqttVerif.RedisStores
