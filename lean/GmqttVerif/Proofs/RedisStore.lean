import GmqttVerif.Model.RedisDecoded
import GmqttVerif.Proofs.Redis
import GmqttVerif.Proofs.ElemCodec
/-
  The decoded store: what the four redis keys of every client id MEAN (session hash, subscriptions, queue elements,
  unack ids), the decoded commands the persistence layer issues, and the refinement

      raw redis dataset  +  codecs      refines      decoded store

  command by command (`rel_step`): after ANY sequence of well-formed commands the raw dataset holds exactly the
  encodings of the decoded store. Vocabulary for Properties/C09.lean. Core Lean only.
-/
namespace GmqttVerif.RedisStores
open GmqttVerif.Codec GmqttVerif.Redis GmqttVerif.ElemCodec

theorem keyOf_inj {f f' : Fam} {c c' : Bytes} (h : keyOf f c = keyOf f' c') : f = f' ∧ c = c' := by
  cases f <;> cases f' <;>
    simp [keyOf, sessKey, subKey, queueKey, unackKey, sessPrefix, subPrefix, queuePrefix, unackPrefix] at h ⊢ <;>
    first | exact h | omega

theorem DCmd.enc_key (d : DCmd) : d.enc.key = keyOf d.fam d.cid := by
  cases d <;> rfl

/-- the value redis must hold under `keyOf f c` (an empty hash / list = no key) -/
def expect (g : DStore) : Fam → Bytes → Val
  | .sess, c => .hash (g c).sess
  | .sub, c => .hash (encSubs (g c).subs)
  | .queue, c => .list (encQueue (g c).queue)
  | .unack, c => .hash (encUnack (g c).unack)

def holds (ds : Dataset) (k : Bytes) : Val → Prop
  | .hash fs => hashAt ds k = some fs
  | .list xs => listAt ds k = some xs

/-- the raw dataset holds exactly the encodings of the decoded store -/
def Rel (ds : Dataset) (g : DStore) : Prop :=
  NoDupKeys ds ∧ ∀ f c, holds ds (keyOf f c) (expect g f c)

/-- a field of the session hash of client `c` holds something the loader accepts -/
def GoodSessField (c : Bytes) (f v : Bytes) : Prop :=
  (f = fClientId → v = c) ∧
  (f = fWill → ∃ w, decodeMessageOpt v = .ok w) ∧
  (f = fWillDelay → ∃ n, decToU32 v = some n) ∧
  (f = fConnectedAt → ∃ n, decToU32 v = some n) ∧
  (f = fExpiry → ∃ n, decToU32 v = some n)

/-- limits on everything stored -/
structure GoodClient (c : Bytes) (d : DClient) : Prop where
  queue : ∀ e ∈ d.queue, e.InLimits
  unack : ∀ id ∈ d.unack, id < 4294967296
  subs : ∀ p ∈ d.subs, p.2.InLimits
  sess : ∀ f v, hfind d.sess f = some v → GoodSessField c f v

def GoodStore (g : DStore) : Prop := ∀ c, GoodClient c (g c)

def DCmd.Good : DCmd → Prop
  | .push _ e | .lset _ _ e | .lrem1 _ e => e.InLimits
  | .setUnack _ id | .delUnack _ id => id < 4294967296
  | .setSub _ s => s.InLimits
  | .setSess c fvs => ∀ p ∈ fvs, GoodSessField c p.1 p.2
  | _ => True

/-! ### per-key effect of the raw commands -/

theorem hashAt_cases {ds : Dataset} {k : Bytes} {fs : List (Bytes × Bytes)} (h : hashAt ds k = some fs) :
    get ds k = some (.hash fs) ∨ (get ds k = none ∧ fs = []) := by
  unfold hashAt at h
  split at h <;> simp_all

theorem listAt_cases {ds : Dataset} {k : Bytes} {xs : List Bytes} (h : listAt ds k = some xs) :
    get ds k = some (.list xs) ∨ (get ds k = none ∧ xs = []) := by
  unfold listAt at h
  split at h <;> simp_all

theorem hashAt_apply_del (ds : Dataset) (k : Bytes) (hn : NoDupKeys ds) : hashAt (apply ds (.del k)) k = some [] := by
  simp only [apply, exec]
  split
  · simp [hashAt, get_del_same ds k hn]
  · rename_i h; simp [hashAt, h]

theorem listAt_apply_del (ds : Dataset) (k : Bytes) (hn : NoDupKeys ds) : listAt (apply ds (.del k)) k = some [] := by
  simp only [apply, exec]
  split
  · simp [listAt, get_del_same ds k hn]
  · rename_i h; simp [listAt, h]

theorem hashAt_apply_hset (ds : Dataset) (k : Bytes) (fs fvs : List (Bytes × Bytes)) (hn : NoDupKeys ds)
    (h : hashAt ds k = some fs) : hashAt (apply ds (.hset k fvs)) k = some (hsetMany fs fvs).1 := by
  rcases hashAt_cases h with h1 | ⟨h1, h2⟩
  · simp only [apply, exec, h1]
    exact hashAt_putOrDel_hash ds k _ hn
  · subst h2
    simp only [apply, exec, h1]
    exact hashAt_putOrDel_hash ds k _ hn

theorem hdelMany_nil (fs : List Bytes) : hdelMany [] fs = ([], 0) := by
  induction fs with
  | nil => rfl
  | cons f fs ih => simp [hdelMany, hdel1, ih]

theorem hashAt_apply_hdel (ds : Dataset) (k : Bytes) (fs : List (Bytes × Bytes)) (fs' : List Bytes) (hn : NoDupKeys ds)
    (h : hashAt ds k = some fs) : hashAt (apply ds (.hdel k fs')) k = some (hdelMany fs fs').1 := by
  rcases hashAt_cases h with h1 | ⟨h1, h2⟩
  · simp only [apply, exec, h1]
    exact hashAt_putOrDel_hash ds k _ hn
  · subst h2
    simp only [apply, exec, h1, hdelMany_nil]
    simp [hashAt, h1]

theorem listAt_apply_rpush (ds : Dataset) (k v : Bytes) (xs : List Bytes)
    (h : listAt ds k = some xs) : listAt (apply ds (.rpush k v)) k = some (xs ++ [v]) := by
  rcases listAt_cases h with h1 | ⟨h1, h2⟩
  · simp [apply, exec, h1, listAt, get_put_same]
  · subst h2
    simp [apply, exec, h1, listAt, get_put_same]

theorem lsetAt_eq_set (xs : List Bytes) (i : Nat) (v : Bytes) : lsetAt xs i v = xs.set i v := by
  induction xs generalizing i with
  | nil => simp [lsetAt]
  | cons x xs ih =>
    cases i with
    | zero => simp [lsetAt]
    | succ i => simp [lsetAt, ih]

theorem listAt_apply_lset (ds : Dataset) (k v : Bytes) (i : Nat) (xs : List Bytes)
    (h : listAt ds k = some xs) : listAt (apply ds (.lset k (i : Int) v)) k = some (xs.set i v) := by
  rcases listAt_cases h with h1 | ⟨h1, h2⟩
  · simp only [apply, exec, h1]
    have hneg : ¬ ((i : Int) < 0) := by omega
    simp only [hneg, if_false]
    split
    next hc =>
      have hc' : (i : Int) ≥ (xs.length : Int) := by
        rcases hc with hc | hc
        · exact hc.elim
        · exact hc
      have hi : xs.length ≤ i := by omega
      rw [List.set_eq_of_length_le hi]
      exact h
    next hc =>
      simp [listAt, get_put_same, lsetAt_eq_set]
  · subst h2
    simp [apply, exec, h1, listAt]

theorem listAt_apply_lrem1 (ds : Dataset) (k v : Bytes) (xs : List Bytes) (hn : NoDupKeys ds)
    (h : listAt ds k = some xs) : listAt (apply ds (.lrem k 1 v)) k = some (lremHead xs v false 1).1 := by
  rcases listAt_cases h with h1 | ⟨h1, h2⟩
  · simp only [apply, exec, h1, lrem]
    simp only [show ((1 : Int) ≥ 0) from by omega, if_true]
    have e : ((1 : Int) == 0) = false := by decide
    simp only [e]
    exact listAt_putOrDel_list ds k _ hn
  · subst h2
    simp [apply, exec, h1, listAt, lremHead]

/-! ### encodings commute with the hash / list operations -/

theorem hset1_map {α : Type} (enc : α → Bytes) (l : List (Bytes × α)) (f : Bytes) (v : α) :
    (hset1 (l.map (fun p => (p.1, enc p.2))) f (enc v)).1 = (upsert l f v).map (fun p => (p.1, enc p.2)) := by
  induction l with
  | nil => simp [hset1, upsert]
  | cons p l ih =>
    obtain ⟨f', v'⟩ := p
    by_cases h : f' = f
    · simp [hset1, upsert, h]
    · simp [hset1, upsert, h, ih]

theorem hsetMany_single (fs : List (Bytes × Bytes)) (f v : Bytes) : (hsetMany fs [(f, v)]).1 = (hset1 fs f v).1 := by
  simp [hsetMany]

theorem hset1_raw (l : List (Bytes × Bytes)) (f v : Bytes) : (hset1 l f v).1 = upsert l f v := by
  induction l with
  | nil => simp [hset1, upsert]
  | cons p l ih =>
    obtain ⟨f', v'⟩ := p
    by_cases h : f' = f
    · simp [hset1, upsert, h]
    · simp [hset1, upsert, h, ih]

theorem hsetMany_raw (l fvs : List (Bytes × Bytes)) : (hsetMany l fvs).1 = upsertMany l fvs := by
  induction fvs generalizing l with
  | nil => rfl
  | cons p fvs ih =>
    obtain ⟨f, v⟩ := p
    simp only [hsetMany, upsertMany]
    rw [← ih, hset1_raw]

theorem hdel1_map {α : Type} (enc : α → Bytes) (l : List (Bytes × α)) (f : Bytes) :
    (hdel1 (l.map (fun p => (p.1, enc p.2))) f).1 = (eraseField l f).map (fun p => (p.1, enc p.2)) := by
  induction l with
  | nil => simp [hdel1, eraseField]
  | cons p l ih =>
    obtain ⟨f', v'⟩ := p
    by_cases h : f' = f
    · simp [hdel1, eraseField, h]
    · simp [hdel1, eraseField, h, ih]

theorem hdelMany_map {α : Type} (enc : α → Bytes) (l : List (Bytes × α)) (fs : List Bytes) :
    (hdelMany (l.map (fun p => (p.1, enc p.2))) fs).1 = (eraseFields l fs).map (fun p => (p.1, enc p.2)) := by
  induction fs generalizing l with
  | nil => rfl
  | cons f fs ih =>
    simp only [hdelMany, eraseFields]
    rw [← ih, hdel1_map]

theorem encodeElem_inj {a b : Elem} (ha : a.InLimits) (hb : b.InLimits) (h : encodeElem a = encodeElem b) : a = b := by
  have h1 := decodeElem_encodeElem a ha
  have h2 := decodeElem_encodeElem b hb
  rw [h] at h1
  rw [h1] at h2
  exact Except.ok.inj h2

theorem natToDec_inj {a b : Nat} (ha : a < 4294967296) (hb : b < 4294967296) (h : natToDec a = natToDec b) : a = b := by
  have h1 := decToU32_natToDec a ha
  have h2 := decToU32_natToDec b hb
  rw [h] at h1
  rw [h1] at h2
  exact Option.some.inj h2

theorem lremHead_zero (l : List Bytes) (v : Bytes) : (lremHead l v false 0).1 = l := by
  induction l with
  | nil => simp [lremHead]
  | cons y l ihl => simp [lremHead, ihl]

theorem lremHead_map_erase (q : List Elem) (e : Elem) (hq : ∀ x ∈ q, x.InLimits) (he : e.InLimits) :
    (lremHead (q.map encodeElem) (encodeElem e) false 1).1 = (q.erase e).map encodeElem := by
  induction q with
  | nil => simp [lremHead]
  | cons x q ih =>
    by_cases hx : x = e
    · subst hx
      have h1 : (lremHead (encodeElem x :: q.map encodeElem) (encodeElem x) false 1).1 =
          (lremHead (q.map encodeElem) (encodeElem x) false 0).1 := by
        simp [lremHead]
      simp only [List.map_cons, h1, lremHead_zero, List.erase_cons_head]
    · have hne : encodeElem x ≠ encodeElem e := fun h => hx (encodeElem_inj (hq x (by simp)) he h)
      have h1 : (lremHead (encodeElem x :: q.map encodeElem) (encodeElem e) false 1).1 =
          encodeElem x :: (lremHead (q.map encodeElem) (encodeElem e) false 1).1 := by
        simp [lremHead, hne]
      have hbeq : (x == e) = false := by simp [hx]
      simp only [List.map_cons, h1, ih (fun y hy => hq y (by simp [hy])), List.erase_cons, hbeq]
      simp

theorem hset1_encUnack (u : List Nat) (id : Nat) (hu : ∀ x ∈ u, x < 4294967296) (hid : id < 4294967296) :
    (hset1 (encUnack u) (natToDec id) [49]).1 = encUnack (if id ∈ u then u else u ++ [id]) := by
  induction u with
  | nil => simp [hset1, encUnack]
  | cons x u ih =>
    by_cases hx : x = id
    · subst hx
      simp [hset1, encUnack]
    · have hne : natToDec x ≠ natToDec id := fun h => hx (natToDec_inj (hu x (by simp)) hid h)
      have ih' := ih (fun y hy => hu y (by simp [hy]))
      have hmem : (id ∈ x :: u) ↔ id ∈ u := by simp [Ne.symm hx]
      simp only [encUnack, List.map_cons, hset1, hne, if_false] at ih' ⊢
      rw [ih']
      by_cases hm : id ∈ u
      · simp [hm, hmem]
      · simp [hm, hmem]

theorem hdel1_encUnack (u : List Nat) (id : Nat) (hu : ∀ x ∈ u, x < 4294967296) (hid : id < 4294967296) :
    (hdel1 (encUnack u) (natToDec id)).1 = encUnack (u.erase id) := by
  induction u with
  | nil => simp [hdel1, encUnack]
  | cons x u ih =>
    by_cases hx : x = id
    · subst hx
      simp [hdel1, encUnack]
    · have hne : natToDec x ≠ natToDec id := fun h => hx (natToDec_inj (hu x (by simp)) hid h)
      have ih' := ih (fun y hy => hu y (by simp [hy]))
      simp only [encUnack, List.map_cons, hdel1, hne, if_false] at ih' ⊢
      rw [ih']
      simp [List.erase_cons, hx]

/-! ### the refinement step -/

theorem expect_dexec_other (g : DStore) (d : DCmd) (f : Fam) (c : Bytes) (h : ¬ (f = d.fam ∧ c = d.cid)) :
    expect (dexec g d) f c = expect g f c := by
  by_cases hc : c = d.cid
  · have hf : f ≠ d.fam := fun hf => h ⟨hf, hc⟩
    subst hc
    cases d <;> cases f <;> simp_all [expect, dexec, DClient.step, DCmd.fam, DCmd.cid]
    all_goals (rename_i f0 _; cases f0 <;> simp_all [DClient.step])
  · cases f <;> simp [expect, dexec, hc]

/-- one command: the raw dataset keeps holding the encodings of the decoded store -/
theorem rel_step (ds : Dataset) (g : DStore) (d : DCmd) (hr : Rel ds g) (hg : GoodStore g) (hd : d.Good) :
    Rel (apply ds d.enc) (dexec g d) := by
  obtain ⟨hn, hv⟩ := hr
  refine ⟨noDup_exec ds d.enc hn, ?_⟩
  intro f c
  by_cases hfc : f = d.fam ∧ c = d.cid
  · obtain ⟨hf, hc⟩ := hfc
    subst hf; subst hc
    have hcur := hv d.fam d.cid
    cases d with
    | delKey f0 c0 =>
      cases f0 <;> simp only [DCmd.fam, DCmd.cid, DCmd.enc, expect, dexec, if_true, DClient.step, holds, encSubs, encQueue, encUnack, List.map_nil]
      · exact hashAt_apply_del ds _ hn
      · exact hashAt_apply_del ds _ hn
      · exact listAt_apply_del ds _ hn
      · exact hashAt_apply_del ds _ hn
    | setSess c0 fvs =>
      simp only [DCmd.fam, DCmd.cid, DCmd.enc, expect, dexec, if_true, DClient.step, holds, keyOf] at hcur ⊢
      rw [hashAt_apply_hset ds _ _ fvs hn hcur, hsetMany_raw]
    | setSub c0 s =>
      simp only [DCmd.fam, DCmd.cid, DCmd.enc, expect, dexec, if_true, DClient.step, holds, keyOf] at hcur ⊢
      rw [hashAt_apply_hset ds _ _ _ hn hcur, hsetMany_single]
      simp only [encSubs]
      rw [hset1_map]
    | delSubs c0 fs =>
      simp only [DCmd.fam, DCmd.cid, DCmd.enc, expect, dexec, if_true, DClient.step, holds, keyOf] at hcur ⊢
      rw [hashAt_apply_hdel ds _ _ fs hn hcur]
      simp only [encSubs]
      rw [hdelMany_map]
    | push c0 e =>
      simp only [DCmd.fam, DCmd.cid, DCmd.enc, expect, dexec, if_true, DClient.step, holds, keyOf] at hcur ⊢
      rw [listAt_apply_rpush ds _ _ _ hcur]
      simp [encQueue]
    | lset c0 i e =>
      simp only [DCmd.fam, DCmd.cid, DCmd.enc, expect, dexec, if_true, DClient.step, holds, keyOf] at hcur ⊢
      rw [listAt_apply_lset ds _ _ i _ hcur]
      simp [encQueue, List.map_set]
    | lrem1 c0 e =>
      simp only [DCmd.fam, DCmd.cid, DCmd.enc, expect, dexec, if_true, DClient.step, holds, keyOf] at hcur ⊢
      rw [listAt_apply_lrem1 ds _ _ _ hn hcur]
      simp only [encQueue]
      rw [lremHead_map_erase _ _ (hg c0).queue hd]
    | setUnack c0 id =>
      simp only [DCmd.fam, DCmd.cid, DCmd.enc, expect, dexec, if_true, DClient.step, holds, keyOf] at hcur ⊢
      rw [hashAt_apply_hset ds _ _ _ hn hcur, hsetMany_single]
      rw [hset1_encUnack _ _ (hg c0).unack hd]
    | delUnack c0 id =>
      simp only [DCmd.fam, DCmd.cid, DCmd.enc, expect, dexec, if_true, DClient.step, holds, keyOf] at hcur ⊢
      rw [hashAt_apply_hdel ds _ _ _ hn hcur]
      simp only [hdelMany]
      rw [hdel1_encUnack _ _ (hg c0).unack hd]
  · rw [expect_dexec_other g d f c hfc]
    have hk : keyOf f c ≠ d.enc.key := by
      rw [DCmd.enc_key]
      intro h
      exact hfc (keyOf_inj h)
    have hget := get_exec_ne ds d.enc (keyOf f c) hk
    have := hv f c
    cases he : expect g f c with
    | hash fs =>
      rw [he] at this
      simp only [holds] at this ⊢
      rw [show hashAt (apply ds d.enc) (keyOf f c) = hashAt ds (keyOf f c) from hashAt_of_get_eq _ _ _ hget]
      exact this
    | list xs =>
      rw [he] at this
      simp only [holds] at this ⊢
      rw [show listAt (apply ds d.enc) (keyOf f c) = listAt ds (keyOf f c) from listAt_of_get_eq _ _ _ hget]
      exact this

theorem hfind_upsert (l : List (Bytes × Bytes)) (f v f' : Bytes) :
    hfind (upsert l f v) f' = if f' = f then some v else hfind l f' := by
  induction l with
  | nil =>
    by_cases h : f' = f
    · simp [upsert, hfind, h]
    · simp [upsert, hfind, h, Ne.symm h]
  | cons p l ih =>
    obtain ⟨f0, v0⟩ := p
    by_cases h0 : f0 = f
    · subst h0
      by_cases h : f' = f0
      · simp [upsert, hfind, h]
      · simp [upsert, hfind, h, Ne.symm h]
    · by_cases h1 : f0 = f'
      · subst h1
        simp [upsert, hfind, h0]
      · simp [upsert, hfind, h0, h1, ih]

theorem good_upsertMany (c : Bytes) (l fvs : List (Bytes × Bytes))
    (hl : ∀ f v, hfind l f = some v → GoodSessField c f v) (hf : ∀ p ∈ fvs, GoodSessField c p.1 p.2) :
    ∀ f v, hfind (upsertMany l fvs) f = some v → GoodSessField c f v := by
  induction fvs generalizing l with
  | nil => exact hl
  | cons p fvs ih =>
    obtain ⟨f0, v0⟩ := p
    simp only [upsertMany]
    apply ih
    · intro f v h
      rw [hfind_upsert] at h
      by_cases hff : f = f0
      · rw [if_pos hff] at h
        have hv : v0 = v := Option.some.inj h
        rw [hff, ← hv]
        exact hf (f0, v0) (by simp)
      · rw [if_neg hff] at h
        exact hl f v h
    · intro q hq
      exact hf q (by simp [hq])

theorem mem_upsert {α : Type} (l : List (Bytes × α)) (f : Bytes) (v : α) (p : Bytes × α) (h : p ∈ upsert l f v) :
    p = (f, v) ∨ p ∈ l := by
  induction l with
  | nil => simp [upsert] at h; exact Or.inl h
  | cons q l ih =>
    obtain ⟨f0, v0⟩ := q
    by_cases h0 : f0 = f
    · simp only [upsert, h0, if_true, List.mem_cons] at h ⊢
      rcases h with h | h
      · exact Or.inl h
      · exact Or.inr (Or.inr h)
    · simp only [upsert, h0, if_false, List.mem_cons] at h ⊢
      rcases h with h | h
      · exact Or.inr (Or.inl h)
      · rcases ih h with h | h
        · exact Or.inl h
        · exact Or.inr (Or.inr h)

theorem mem_eraseField {α : Type} (l : List (Bytes × α)) (f : Bytes) (p : Bytes × α) (h : p ∈ eraseField l f) : p ∈ l := by
  induction l with
  | nil => simp [eraseField] at h
  | cons q l ih =>
    obtain ⟨f0, v0⟩ := q
    by_cases h0 : f0 = f
    · simp only [eraseField, h0, if_true] at h
      exact List.mem_cons_of_mem _ h
    · simp only [eraseField, h0, if_false, List.mem_cons] at h ⊢
      rcases h with h | h
      · exact Or.inl h
      · exact Or.inr (ih h)

theorem mem_eraseFields {α : Type} (l : List (Bytes × α)) (fs : List Bytes) (p : Bytes × α) (h : p ∈ eraseFields l fs) : p ∈ l := by
  induction fs generalizing l with
  | nil => exact h
  | cons f fs ih => exact mem_eraseField l f p (ih _ h)

theorem good_step (g : DStore) (d : DCmd) (hg : GoodStore g) (hd : d.Good) : GoodStore (dexec g d) := by
  intro c
  by_cases hc : c = d.cid
  · have hgc := hg c
    simp only [dexec, hc, if_true]
    rw [hc] at hgc
    cases d with
    | delKey f0 c0 =>
      cases f0
      · exact ⟨hgc.queue, hgc.unack, hgc.subs, by simp [DClient.step, hfind]⟩
      · exact ⟨hgc.queue, hgc.unack, by simp [DClient.step], hgc.sess⟩
      · exact ⟨by simp [DClient.step], hgc.unack, hgc.subs, hgc.sess⟩
      · exact ⟨hgc.queue, by simp [DClient.step], hgc.subs, hgc.sess⟩
    | setSess c0 fvs =>
      exact ⟨hgc.queue, hgc.unack, hgc.subs, good_upsertMany c0 _ fvs hgc.sess hd⟩
    | setSub c0 s =>
      refine ⟨hgc.queue, hgc.unack, ?_, hgc.sess⟩
      intro p hp
      rcases mem_upsert _ _ _ p hp with h | h
      · rw [h]; exact hd
      · exact hgc.subs p h
    | delSubs c0 fs =>
      exact ⟨hgc.queue, hgc.unack, fun p hp => hgc.subs p (mem_eraseFields _ fs p hp), hgc.sess⟩
    | push c0 e =>
      refine ⟨?_, hgc.unack, hgc.subs, hgc.sess⟩
      intro x hx
      simp only [DClient.step, List.mem_append, List.mem_singleton] at hx
      rcases hx with hx | hx
      · exact hgc.queue x hx
      · rw [hx]; exact hd
    | lset c0 i e =>
      refine ⟨?_, hgc.unack, hgc.subs, hgc.sess⟩
      intro x hx
      simp only [DClient.step] at hx
      rcases List.mem_or_eq_of_mem_set hx with h | h
      · exact hgc.queue x h
      · rw [h]; exact hd
    | lrem1 c0 e =>
      refine ⟨?_, hgc.unack, hgc.subs, hgc.sess⟩
      intro x hx
      exact hgc.queue x (List.mem_of_mem_erase hx)
    | setUnack c0 id =>
      refine ⟨hgc.queue, ?_, hgc.subs, hgc.sess⟩
      intro x hx
      simp only [DClient.step] at hx
      split at hx
      · exact hgc.unack x hx
      · simp only [List.mem_append, List.mem_singleton] at hx
        rcases hx with hx | hx
        · exact hgc.unack x hx
        · rw [hx]; exact hd
    | delUnack c0 id =>
      refine ⟨hgc.queue, ?_, hgc.subs, hgc.sess⟩
      intro x hx
      exact hgc.unack x (List.mem_of_mem_erase hx)
  · simp only [dexec, hc, if_false]
    exact hg c

theorem rel_empty : Rel [] DStore.empty := by
  refine ⟨by simp [NoDupKeys], ?_⟩
  intro f c
  cases f <;> simp [expect, holds, DStore.empty, hashAt, listAt, Redis.get, encSubs, encQueue, encUnack]

theorem good_empty : GoodStore DStore.empty := by
  intro c
  exact ⟨by simp [DStore.empty], by simp [DStore.empty], by simp [DStore.empty], by simp [DStore.empty, hfind]⟩

/-- any sequence of well-formed commands: the raw dataset holds the encodings of the decoded store -/
theorem rel_fold (cs : List DCmd) (ds : Dataset) (g : DStore) (hr : Rel ds g) (hg : GoodStore g) (hc : ∀ d ∈ cs, d.Good) :
    Rel (applyAll ds (cs.map DCmd.enc)) (dfold g cs) ∧ GoodStore (dfold g cs) := by
  induction cs generalizing ds g with
  | nil => exact ⟨hr, hg⟩
  | cons d cs ih =>
    simp only [List.map_cons, applyAll, dfold]
    exact ih _ _ (rel_step ds g d hr hg (hc d (by simp))) (good_step g d hg (hc d (by simp)))
      (fun x hx => hc x (by simp [hx]))

end GmqttVerif.RedisStores
