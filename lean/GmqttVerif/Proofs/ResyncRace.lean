import GmqttVerif.Model.ResyncRace
namespace GmqttVerif.ResyncRace

@[simp] theorem remoteOf_append_singleton (q : List Bool) (b : Bool) : remoteOf (q ++ [b]) = b := by
  simp [remoteOf]

theorem remoteOf_nil : remoteOf [] = false := rfl

/-- invariant of every run of the as-is program -/
structure Inv (s : S) : Prop where
  pendLoc : ∀ b, s.pend = some b → s.loc = b
  prog : s.prog = asIs ∨ s.prog = [.snapQueue] ∨ s.prog = []
  saved : s.saved = none
  cleared : s.prog = [.snapQueue] → s.pend = none → s.q ≠ [] → remoteOf s.q = s.loc
  synced : s.prog = [] → remoteOf (s.q ++ s.pend.toList) = s.loc

theorem inv_step {s t : S} {a : Act} (h : Inv s) (hs : step s a = some t) : Inv t := by
  obtain ⟨loc, pend, q, prog, saved⟩ := s
  have hp := h.prog; have hsv := h.saved; have hpl := h.pendLoc; have hc := h.cleared; have hy := h.synced
  simp only at hp hsv hpl hc hy
  cases a with
  | upd b =>
    simp only [step] at hs
    split at hs
    · cases hs
    · rename_i hpn
      have hpn' : pend = none := by cases pend <;> simp_all
      subst hpn'
      cases hs
      refine ⟨?_, hp, hsv, ?_, ?_⟩
      · intro b' hb'
        simp only at hb' ⊢
        split at hb' <;> simp_all
      · intro h1 h2 h3
        simp only at h1 h2 h3 ⊢
        have : ¬ (loc != b) = true := by intro hh; simp [hh] at h2
        have hlb : loc = b := by simpa using this
        rw [← hlb]; exact hc h1 rfl h3
      · intro h1
        simp only at h1 ⊢
        by_cases hlb : (loc != b) = true
        · simp [hlb]
        · simp only [hlb]
          have hlb' : loc = b := by simpa using hlb
          have := hy h1
          simpa [hlb'] using this
  | emit =>
    simp only [step] at hs
    cases pend with
    | none => cases hs
    | some b =>
      cases hs
      have hlb := hpl b rfl
      refine ⟨(by intro b' hb'; cases hb'), hp, hsv, ?_, ?_⟩
      · intro _ _ _; simp [hlb]
      · intro h1; simpa using hy h1
  | resync =>
    simp only [step] at hs
    rcases hp with hp | hp | hp
    · -- clear
      subst hp
      simp only [asIs] at hs
      cases hs
      refine ⟨hpl, Or.inr (Or.inl rfl), hsv, ?_, ?_⟩
      · intro _ _ h3; exact absurd rfl h3
      · intro h1; cases h1
    · -- snapQueue
      subst hp
      cases hs
      refine ⟨hpl, Or.inr (Or.inr rfl), hsv, ?_, ?_⟩
      · intro h1; cases h1
      · intro _
        simp only
        cases pend with
        | some b => rw [show (some b).toList = [b] from rfl, remoteOf_append_singleton]; exact (hpl b rfl).symm
        | none =>
          cases loc with
          | true => simp
          | false =>
            simp only [Option.toList, List.append_nil]
            by_cases hq : q = []
            · subst hq; rfl
            · simpa using hc rfl rfl hq
    · subst hp; cases hs

theorem inv_run {s t : S} (acts : List Act) (h : Inv s) (hr : run s acts = some t) : Inv t := by
  induction acts generalizing s with
  | nil => simp [run] at hr; subst hr; exact h
  | cons a as ih =>
    simp only [run] at hr
    split at hr
    · rename_i u hu; exact ih (inv_step h hu) hr
    · cases hr

theorem inv_init (loc : Bool) (q0 : List Bool) : Inv { loc := loc, q := q0, prog := asIs } :=
  ⟨(by intro b hb; cases hb), Or.inl rfl, rfl, (by intro h; cases h), (by intro h; cases h)⟩

end GmqttVerif.ResyncRace
