import GmqttVerif.Model.Retained
import GmqttVerif.Proofs.RetainedTopic
/-
  Helper lemmas about the trie of the retained store (one `topicTrie`).

  vocabulary
  * `Node.get n p`     : the message stored at path `p` below `n` (what `find` + `.msg` returns)
  * `Node.entries n`   : every (path, message) pair below `n`, in `preOrderTraverse` order
  * `Node.WF n`        : no node has two children with the same key (a Go map cannot)
  * `foldUntil fn l s` : call `fn` on the elements of `l` in order until it returns false
-/
namespace GmqttVerif.Retained

/-! ### vocabulary -/

def Node.get (n : Node) (p : List Level) : Option Msg := (n.walk p).bind Node.msg

mutual
def Node.entries : Node → List (List Level × Msg)
  | .mk msg cs => msg.toList.map (fun m => ([], m)) ++ entriesChildren cs
def entriesChildren : List (Level × Node) → List (List Level × Msg)
  | [] => []
  | (lv, c) :: rest => c.entries.map (fun e => (lv :: e.1, e.2)) ++ entriesChildren rest
end

def keysNodup (cs : List (Level × Node)) : Prop := (cs.map (·.1)).Nodup

mutual
def Node.WF : Node → Prop
  | .mk _ cs => keysNodup cs ∧ WFChildren cs
def WFChildren : List (Level × Node) → Prop
  | [] => True
  | (_, c) :: rest => c.WF ∧ WFChildren rest
end

def foldUntil {σ : Type} (fn : σ → Msg → σ × Bool) : List Msg → σ → σ × Bool
  | [], s => (s, true)
  | m :: ms, s =>
    match fn s m with
    | (s', true) => foldUntil fn ms s'
    | (s', false) => (s', false)

/-! ### the children map -/

theorem childGet_childSet (cs : List (Level × Node)) (lv k : Level) (n : Node) :
    childGet (childSet cs lv n) k = if k = lv then some n else childGet cs k := by
  induction cs with
  | nil => simp [childSet, childGet, eq_comm]
  | cons h t ih =>
    obtain ⟨a, c⟩ := h
    by_cases hal : a = lv
    · subst hal
      by_cases hk : k = a
      · subst hk; simp [childSet, childGet]
      · have : ¬ a = k := fun h => hk h.symm
        simp [childSet, childGet, hk, this]
    · by_cases hk : k = lv
      · subst hk; simp [childSet, childGet, hal, ih]
      · simp [childSet, childGet, hal, ih, hk]

theorem childDel_cons (a : Level) (c : Node) (t : List (Level × Node)) (lv : Level) :
    childDel ((a, c) :: t) lv = if a = lv then childDel t lv else (a, c) :: childDel t lv := by
  by_cases h : a = lv <;> simp [childDel, h]

theorem childGet_childDel (cs : List (Level × Node)) (lv k : Level) :
    childGet (childDel cs lv) k = if k = lv then none else childGet cs k := by
  induction cs with
  | nil => simp [childDel, childGet]
  | cons h t ih =>
    obtain ⟨a, c⟩ := h
    rw [childDel_cons]
    by_cases hal : a = lv
    · subst hal
      by_cases hk : k = a
      · subst hk; simpa [childGet] using ih
      · have : ¬ a = k := fun h => hk h.symm
        simpa [childGet, hk, this] using ih
    · by_cases hk : k = lv
      · subst hk; simpa [childGet, hal] using ih
      · simp [childGet, hal, ih, hk]

theorem mem_childSet {cs : List (Level × Node)} {lv : Level} {n : Node} {x : Level × Node}
    (h : x ∈ childSet cs lv n) : x = (lv, n) ∨ x ∈ cs := by
  induction cs with
  | nil => simp [childSet] at h; exact Or.inl h
  | cons hd t ih =>
    obtain ⟨a, c⟩ := hd
    by_cases hal : a = lv
    · subst hal
      simp [childSet] at h
      rcases h with h | h
      · exact Or.inl h
      · exact Or.inr (List.mem_cons_of_mem _ h)
    · simp [childSet, hal] at h
      rcases h with h | h
      · exact Or.inr (by simp [h])
      · rcases ih h with h | h
        · exact Or.inl h
        · exact Or.inr (List.mem_cons_of_mem _ h)

theorem keys_childSet (cs : List (Level × Node)) (lv k : Level) (n : Node) :
    k ∈ (childSet cs lv n).map (·.1) ↔ k = lv ∨ k ∈ cs.map (·.1) := by
  induction cs with
  | nil => simp [childSet]
  | cons hd t ih =>
    obtain ⟨a, c⟩ := hd
    by_cases hal : a = lv
    · subst hal; simp [childSet]
    · simp only [childSet, hal, if_false, List.map_cons, List.mem_cons, ih]
      constructor
      · rintro (h | h | h) <;> simp [h]
      · rintro (h | h | h) <;> simp [h]

theorem keysNodup_childSet {cs : List (Level × Node)} (lv : Level) (n : Node) (h : keysNodup cs) :
    keysNodup (childSet cs lv n) := by
  unfold keysNodup at *
  induction cs with
  | nil => simp [childSet]
  | cons hd t ih =>
    obtain ⟨a, c⟩ := hd
    simp only [List.map_cons, List.nodup_cons] at h
    by_cases hal : a = lv
    · subst hal; simpa [childSet] using h
    · simp only [childSet, hal, if_false, List.map_cons, List.nodup_cons]
      refine ⟨?_, ih h.2⟩
      intro hm
      rcases (keys_childSet t lv a n).1 hm with h1 | h1
      · exact hal h1
      · exact h.1 h1

theorem keysNodup_childDel {cs : List (Level × Node)} (lv : Level) (h : keysNodup cs) :
    keysNodup (childDel cs lv) := by
  unfold keysNodup childDel at *
  exact List.Nodup.sublist (List.Sublist.map _ List.filter_sublist) h

theorem childGet_eq_some_of_mem {cs : List (Level × Node)} (h : keysNodup cs) {lv : Level} {c : Node}
    (hm : (lv, c) ∈ cs) : childGet cs lv = some c := by
  unfold keysNodup at h
  induction cs with
  | nil => cases hm
  | cons hd t ih =>
    obtain ⟨a, d⟩ := hd
    simp only [List.map_cons, List.nodup_cons] at h
    rcases List.mem_cons.1 hm with hm | hm
    · cases hm; simp [childGet]
    · have : a ≠ lv := by
        intro e; subst e
        exact h.1 (List.mem_map.2 ⟨_, hm, rfl⟩)
      simp [childGet, this, ih h.2 hm]

theorem mem_of_childGet {cs : List (Level × Node)} {lv : Level} {c : Node}
    (h : childGet cs lv = some c) : (lv, c) ∈ cs := by
  induction cs with
  | nil => simp [childGet] at h
  | cons hd t ih =>
    obtain ⟨a, d⟩ := hd
    by_cases e : a = lv
    · subst e; simp [childGet] at h; subst h; simp
    · simp [childGet, e] at h; exact List.mem_cons_of_mem _ (ih h)

theorem childGet_none_of_not_mem {cs : List (Level × Node)} {lv : Level}
    (h : lv ∉ cs.map (·.1)) : childGet cs lv = none := by
  cases hc : childGet cs lv with
  | none => rfl
  | some c => exact absurd (List.mem_map.2 ⟨_, mem_of_childGet hc, rfl⟩) h

/-! ### `get` after `add` / `remove` (no invariant needed) -/

@[simp] theorem Node.get_nil (msg : Option Msg) (cs : List (Level × Node)) : (Node.mk msg cs).get [] = msg := by
  simp [Node.get, Node.walk, Node.msg]

theorem Node.get_cons (msg : Option Msg) (cs : List (Level × Node)) (k : Level) (qs : List Level) :
    (Node.mk msg cs).get (k :: qs) = match childGet cs k with | none => none | some c => c.get qs := by
  simp only [Node.get, Node.walk]
  cases childGet cs k <;> simp

theorem newNode_get (q : List Level) : newNode.get q = none := by
  cases q with
  | nil => simp [newNode]
  | cons k qs => simp [newNode, Node.get_cons, childGet]

theorem Node.get_of_children_nil {n : Node} (h : n.children = []) (k : Level) (qs : List Level) :
    n.get (k :: qs) = none := by
  obtain ⟨msg, cs⟩ := n
  simp [Node.children] at h
  subst h
  simp [Node.get_cons, childGet]

theorem Node.get_add (n : Node) (p : List Level) (m : Msg) (q : List Level) :
    (n.add p m).get q = if q = p then some m else n.get q := by
  induction p generalizing n q with
  | nil =>
    obtain ⟨msg, cs⟩ := n
    cases q with
    | nil => simp [Node.add]
    | cons k qs => simp [Node.add, Node.get_cons]
  | cons lv rest ih =>
    obtain ⟨msg, cs⟩ := n
    cases q with
    | nil => simp [Node.add]
    | cons k qs =>
      simp only [Node.add, Node.get_cons, childGet_childSet]
      by_cases hk : k = lv
      · subst hk
        simp only [if_true, ih]
        cases hc : childGet cs k with
        | none => simp [newNode_get]
        | some c => simp
      · simp [hk]

theorem Node.get_remove (n : Node) (p : List Level) (hp : p ≠ []) (q : List Level) :
    (n.remove p).get q = if q = p then none else n.get q := by
  induction p generalizing n q with
  | nil => exact absurd rfl hp
  | cons lv rest ih =>
    obtain ⟨msg, cs⟩ := n
    unfold Node.remove
    cases hc : childGet cs lv with
    | none =>
      simp only
      by_cases hq : q = lv :: rest
      · subst hq; simp [Node.get_cons, hc]
      · simp [hq]
    | some c =>
      simp only
      cases rest with
      | nil =>
        simp only
        by_cases he : c.children.isEmpty = true
        · rw [if_pos he]
          cases q with
          | nil => simp
          | cons k qs =>
            simp only [Node.get_cons, childGet_childDel]
            by_cases hk : k = lv
            · subst hk
              simp only [if_true, hc]
              cases qs with
              | nil => simp
              | cons x xs =>
                have : c.children = [] := by simpa using he
                simp [Node.get_of_children_nil this]
            · simp [hk]
        · rw [if_neg he]
          cases q with
          | nil => simp
          | cons k qs =>
            simp only [Node.get_cons, childGet_childSet]
            by_cases hk : k = lv
            · subst hk
              obtain ⟨cm, ccs⟩ := c
              cases qs with
              | nil => simp
              | cons x xs => simp [hc, Node.get_cons, Node.children]
            · simp [hk]
      | cons r rs =>
        simp only
        cases q with
        | nil => simp
        | cons k qs =>
          simp only [Node.get_cons, childGet_childSet]
          by_cases hk : k = lv
          · subst hk
            simp [hc, ih c (by simp)]
          · simp [hk]

/-! ### well-formedness is preserved -/

theorem WFChildren_iff (cs : List (Level × Node)) : WFChildren cs ↔ ∀ kc ∈ cs, kc.2.WF := by
  induction cs with
  | nil => simp [WFChildren]
  | cons hd t ih => obtain ⟨a, c⟩ := hd; simp [WFChildren, ih]

theorem Node.WF_mk (msg : Option Msg) (cs : List (Level × Node)) :
    (Node.mk msg cs).WF ↔ keysNodup cs ∧ ∀ kc ∈ cs, kc.2.WF := by
  simp [Node.WF, WFChildren_iff]

theorem newNode_WF : newNode.WF := by
  simp [newNode, Node.WF_mk, keysNodup]

theorem Node.WF_add {n : Node} (h : n.WF) (p : List Level) (m : Msg) : (n.add p m).WF := by
  induction p generalizing n with
  | nil =>
    obtain ⟨msg, cs⟩ := n
    rw [Node.WF_mk] at h
    simp only [Node.add, Node.WF_mk]
    exact h
  | cons lv rest ih =>
    obtain ⟨msg, cs⟩ := n
    rw [Node.WF_mk] at h
    simp only [Node.add, Node.WF_mk]
    refine ⟨keysNodup_childSet _ _ h.1, ?_⟩
    intro kc hkc
    rcases mem_childSet hkc with e | e
    · subst e
      apply ih
      cases hc : childGet cs lv with
      | none => exact newNode_WF
      | some c => exact h.2 _ (mem_of_childGet hc)
    · exact h.2 _ e

theorem Node.WF_remove {n : Node} (h : n.WF) (p : List Level) : (n.remove p).WF := by
  induction p generalizing n with
  | nil => simpa [Node.remove] using h
  | cons lv rest ih =>
    obtain ⟨msg, cs⟩ := n
    have h' := (Node.WF_mk msg cs).1 h
    unfold Node.remove
    cases hc : childGet cs lv with
    | none => exact h
    | some c =>
      have hcw : c.WF := h'.2 _ (mem_of_childGet hc)
      simp only
      cases rest with
      | nil =>
        simp only
        split
        · rw [Node.WF_mk]
          refine ⟨keysNodup_childDel _ h'.1, ?_⟩
          intro kc hkc
          exact h'.2 _ (List.mem_filter.1 hkc).1
        · rw [Node.WF_mk]
          refine ⟨keysNodup_childSet _ _ h'.1, ?_⟩
          intro kc hkc
          rcases mem_childSet hkc with e | e
          · subst e
            obtain ⟨cm, ccs⟩ := c
            rw [Node.WF_mk] at hcw ⊢
            exact hcw
          · exact h'.2 _ e
      | cons r rs =>
        simp only
        rw [Node.WF_mk]
        refine ⟨keysNodup_childSet _ _ h'.1, ?_⟩
        intro kc hkc
        rcases mem_childSet hkc with e | e
        · subst e; exact ih hcw
        · exact h'.2 _ e

/-! ### entries -/

theorem entriesChildren_eq (cs : List (Level × Node)) :
    entriesChildren cs = cs.flatMap (fun kc => kc.2.entries.map (fun e => (kc.1 :: e.1, e.2))) := by
  induction cs with
  | nil => simp [entriesChildren]
  | cons hd t ih => obtain ⟨a, c⟩ := hd; simp [entriesChildren, ih]

theorem Node.entries_mk (msg : Option Msg) (cs : List (Level × Node)) :
    (Node.mk msg cs).entries = msg.toList.map (fun m => ([], m)) ++
      cs.flatMap (fun kc => kc.2.entries.map (fun e => (kc.1 :: e.1, e.2))) := by
  simp [Node.entries, entriesChildren_eq]

mutual
/-- structural induction over the trie -/
theorem Node.induct (P : Node → Prop)
    (h : ∀ msg cs, (∀ kc ∈ cs, P kc.2) → P (.mk msg cs)) : ∀ n, P n
  | .mk msg cs => h msg cs (Node.inductChildren P h cs)
theorem Node.inductChildren (P : Node → Prop)
    (h : ∀ msg cs, (∀ kc ∈ cs, P kc.2) → P (.mk msg cs)) : ∀ cs : List (Level × Node), ∀ kc ∈ cs, P kc.2
  | [], _, hm => by cases hm
  | (_, c) :: rest, kc, hm => by
    cases hm with
    | head => exact Node.induct P h c
    | tail _ hm' => exact Node.inductChildren P h rest kc hm'
end

/-- under `WF`, the entries are exactly the graph of `get` -/
theorem Node.mem_entries {n : Node} (h : n.WF) (q : List Level) (m : Msg) :
    (q, m) ∈ n.entries ↔ n.get q = some m := by
  induction q generalizing n with
  | nil =>
    obtain ⟨msg, cs⟩ := n
    simp [Node.entries_mk]
  | cons k qs ih =>
    obtain ⟨msg, cs⟩ := n
    rw [Node.WF_mk] at h
    simp only [Node.entries_mk, Node.get_cons, List.mem_append, List.mem_map, List.mem_flatMap]
    constructor
    · rintro (⟨_, _, h1⟩ | ⟨⟨a, c⟩, hm, ⟨p, m'⟩, he, h2⟩)
      · cases h1
      · simp only [Prod.mk.injEq, List.cons.injEq] at h2
        obtain ⟨⟨rfl, rfl⟩, rfl⟩ := h2
        rw [childGet_eq_some_of_mem h.1 hm]
        exact (ih (h.2 _ hm)).1 he
    · intro hg
      cases hc : childGet cs k with
      | none => simp [hc] at hg
      | some c =>
        simp only [hc] at hg
        have hm := mem_of_childGet hc
        exact Or.inr ⟨(k, c), hm, (qs, m), (ih (h.2 _ hm)).2 hg, rfl⟩

/-- under `WF`, no path occurs twice among the entries -/
theorem Node.entries_paths_nodup : ∀ n : Node, n.WF → (n.entries.map (·.1)).Nodup := by
  intro n
  induction n using Node.induct with
  | h msg cs ih =>
    intro hw
    rw [Node.WF_mk] at hw
    rw [Node.entries_mk]
    simp only [List.map_append, List.map_map, List.map_flatMap]
    unfold List.Nodup
    rw [List.pairwise_append]
    refine ⟨?_, ?_, ?_⟩
    · cases msg <;> simp
    · rw [List.pairwise_flatMap]
      constructor
      · intro kc hkc
        rw [List.pairwise_map]
        have := ih kc hkc (hw.2 kc hkc)
        unfold List.Nodup at this
        rw [List.pairwise_map] at this
        exact this.imp (fun hne => by simpa using hne)
      · have hk := hw.1
        unfold keysNodup List.Nodup at hk
        rw [List.pairwise_map] at hk
        refine hk.imp ?_
        intro a b hab x hx y hy
        simp only [List.mem_map, Function.comp] at hx hy
        obtain ⟨_, _, rfl⟩ := hx
        obtain ⟨_, _, rfl⟩ := hy
        simp [hab]
    · intro a ha b hb
      simp only [List.mem_map, List.mem_flatMap, Function.comp] at ha hb
      obtain ⟨_, _, rfl⟩ := ha
      obtain ⟨_, _, _, _, rfl⟩ := hb
      simp

theorem Node.entries_nodup {n : Node} (h : n.WF) : n.entries.Nodup :=
  (List.pairwise_map.1 (Node.entries_paths_nodup n h)).imp (fun hne heq => hne (congrArg _ heq))

/-! ### traversal = fold over the entries -/

theorem foldUntil_append {σ : Type} (fn : σ → Msg → σ × Bool) (a b : List Msg) (s : σ) :
    foldUntil fn (a ++ b) s =
      match foldUntil fn a s with
      | (s', true) => foldUntil fn b s'
      | (s', false) => (s', false) := by
  induction a generalizing s with
  | nil => simp [foldUntil]
  | cons m ms ih =>
    simp only [List.cons_append, foldUntil]
    rcases hfn : fn s m with ⟨s', b'⟩
    cases b' <;> simp [ih]

theorem foldUntil_collect (l acc : List Msg) : foldUntil collect l acc = (acc ++ l, true) := by
  induction l generalizing acc with
  | nil => simp [foldUntil]
  | cons m ms ih => simp [foldUntil, collect, ih]

mutual
theorem Node.traverse_eq {σ : Type} (fn : σ → Msg → σ × Bool) :
    ∀ (n : Node) (s : σ), n.traverse fn s = foldUntil fn (n.entries.map (·.2)) s
  | .mk msg cs, s => by
    cases msg with
    | none => simp [Node.traverse, Node.entries, traverseChildren_eq fn cs]
    | some m =>
      simp only [Node.traverse, Node.entries, Option.toList, List.map_cons, List.map_nil, List.cons_append,
        List.nil_append, foldUntil]
      rcases hfn : fn s m with ⟨s', b'⟩
      cases b' <;> simp [traverseChildren_eq fn cs]
theorem traverseChildren_eq {σ : Type} (fn : σ → Msg → σ × Bool) :
    ∀ (cs : List (Level × Node)) (s : σ),
      traverseChildren fn cs s = foldUntil fn ((entriesChildren cs).map (·.2)) s
  | [], s => by simp [traverseChildren, entriesChildren, foldUntil]
  | (lv, c) :: rest, s => by
    simp only [traverseChildren, entriesChildren, List.map_append, List.map_map, foldUntil_append]
    rw [Node.traverse_eq fn c s]
    have : (c.entries.map ((fun e => e.2) ∘ fun e => (lv :: e.1, e.2))) = c.entries.map (·.2) := by
      apply List.map_congr_left; intro e _; rfl
    rw [this]
    generalize foldUntil fn (c.entries.map (·.2)) s = r
    obtain ⟨s', b'⟩ := r
    cases b'
    · rfl
    · exact traverseChildren_eq fn rest s'
end

theorem Node.preOrder_eq (n : Node) : n.preOrder = n.entries.map (·.2) := by
  simp [Node.preOrder, Node.traverse_eq, foldUntil_collect]

end GmqttVerif.Retained
