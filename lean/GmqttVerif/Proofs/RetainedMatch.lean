import GmqttVerif.Proofs.Retained
/-
  `matchTopic` on a well-formed trie returns, in traversal order, exactly the entries whose
  path is matched (`levelMatchB`) by the filter levels — provided `#` occurs only as last level.
-/
namespace GmqttVerif.Retained

/-- the entries with empty path: the node's own message -/
theorem Node.entries_filter_nil (n : Node) :
    (n.entries.filter (fun e => levelMatchB [] e.1)).map (·.2) = n.msg.toList := by
  obtain ⟨msg, cs⟩ := n
  rw [Node.entries_mk, List.filter_append, List.map_append]
  have h2 : (cs.flatMap (fun kc => kc.2.entries.map (fun e => (kc.1 :: e.1, e.2)))).filter
      (fun e => levelMatchB [] e.1) = [] := by
    rw [List.filter_eq_nil_iff]
    intro e he
    simp only [List.mem_flatMap, List.mem_map] at he
    obtain ⟨_, _, _, _, rfl⟩ := he
    simp [levelMatchB]
  rw [h2]
  cases msg <;> simp [Node.msg, levelMatchB]

/-- one step of the filter below a node, for a first level that is not `#` -/
theorem Node.entries_filter_cons (msg : Option Msg) (cs : List (Level × Node)) (g : Level) (rest : List Level)
    (hg : g ≠ hash) :
    ((Node.mk msg cs).entries.filter (fun e => levelMatchB (g :: rest) e.1)).map (·.2) =
      cs.flatMap (fun kc => if (g == plus || g == kc.1) = true
        then (kc.2.entries.filter (fun e => levelMatchB rest e.1)).map (·.2) else []) := by
  rw [Node.entries_mk, List.filter_append, List.map_append]
  have h1 : (msg.toList.map (fun m => (([] : List Level), m))).filter (fun e => levelMatchB (g :: rest) e.1) = [] := by
    cases msg <;> simp [levelMatchB, hg]
  rw [h1]
  simp only [List.map_nil, List.nil_append]
  induction cs with
  | nil => simp
  | cons hd t ih =>
    obtain ⟨a, c⟩ := hd
    simp only [List.flatMap_cons, List.filter_append, List.map_append, ih]
    congr 1
    simp only [List.filter_map, List.map_map]
    by_cases hc : (g == plus || g == a) = true
    · rw [if_pos hc]
      have : ((fun e : List Level × Msg => levelMatchB (g :: rest) e.1) ∘ fun e : List Level × Msg => (a :: e.1, e.2)) =
          fun e => levelMatchB rest e.1 := by
        funext e
        simp only [Function.comp, levelMatchB, hg, if_false, hc, Bool.true_and]
      rw [this]
      apply List.map_congr_left
      intro e _; rfl
    · rw [if_neg hc]
      have : ((fun e : List Level × Msg => levelMatchB (g :: rest) e.1) ∘ fun e : List Level × Msg => (a :: e.1, e.2)) =
          fun _ => false := by
        funext e
        have hc' : (g == plus || g == a) = false := by simpa using hc
        simp only [Function.comp, levelMatchB, hg, if_false, hc', Bool.false_and]
      rw [this]
      simp

/-- a map lookup as a `flatMap` over the association list -/
theorem flatMap_key {β : Type} (cs : List (Level × Node)) (hk : keysNodup cs) (g : Level) (X : Node → List β) :
    cs.flatMap (fun kc => if (g == kc.1) = true then X kc.2 else []) =
      match childGet cs g with
      | none => []
      | some c => X c := by
  induction cs with
  | nil => simp [childGet]
  | cons hd t ih =>
    obtain ⟨a, c⟩ := hd
    unfold keysNodup at hk ih
    simp only [List.map_cons, List.nodup_cons] at hk
    simp only [List.flatMap_cons, childGet]
    by_cases e : a = g
    · subst e
      simp only [beq_self_eq_true, if_true]
      have : t.flatMap (fun kc => if (a == kc.1) = true then X kc.2 else []) = [] := by
        rw [ih hk.2, childGet_none_of_not_mem hk.1]
      rw [this]; simp
    · have e' : (g == a) = false := beq_eq_false_iff_ne.2 (fun h => e h.symm)
      rw [e', if_neg e]
      simp only [Bool.false_eq_true, if_false, List.nil_append]
      exact ih hk.2

theorem hashLast_cons {g : Level} {rest : List Level} (h : hashLast (g :: rest) = true) :
    (g = hash → rest = []) ∧ hashLast rest = true := by
  simp only [hashLast, Bool.and_eq_true, Bool.or_eq_true, bne_iff_ne] at h
  refine ⟨?_, h.2⟩
  intro hg
  rcases h.1 with h1 | h1
  · simpa using h1
  · exact absurd hg h1

/-- `matchTopic` = the entries the filter matches, in traversal order. -/
theorem Node.matchTopic_eq {n : Node} (hw : n.WF) (f : List Level) (hf : f ≠ []) (hh : hashLast f = true) :
    n.matchTopic f = (n.entries.filter (fun e => levelMatchB f e.1)).map (·.2) := by
  induction f generalizing n with
  | nil => exact absurd rfl hf
  | cons g rest ih =>
    obtain ⟨msg, cs⟩ := n
    have hw' := (Node.WF_mk msg cs).1 hw
    obtain ⟨hlast, hrest⟩ := hashLast_cons hh
    unfold Node.matchTopic
    simp only
    by_cases hg : g = hash
    · rw [if_pos hg]
      have hr := hlast hg
      subst hg hr
      rw [Node.preOrder_eq]
      have : (fun e : List Level × Msg => levelMatchB [hash] e.1) = fun _ => true := by
        funext e; simp [levelMatchB]
      rw [this, List.filter_eq_self.2 (by simp)]
    · rw [if_neg hg, Node.entries_filter_cons msg cs g rest hg]
      -- what the code does with one child = the matching entries below that child
      have child : ∀ kc ∈ cs, (if rest.isEmpty = true then kc.2.msg.toList else kc.2.matchTopic rest) =
          (kc.2.entries.filter (fun e => levelMatchB rest e.1)).map (·.2) := by
        intro kc hkc
        cases rest with
        | nil => simp only [List.isEmpty_nil, if_true]; exact (Node.entries_filter_nil kc.2).symm
        | cons r rs =>
          simp only [List.isEmpty_cons, if_false, Bool.false_eq_true]
          exact ih (hw'.2 kc hkc) (by simp) hrest
      by_cases hp : g = plus
      · rw [if_pos hp]
        subst hp
        simp only [beq_self_eq_true, Bool.true_or, if_true]
        simp only [List.flatMap_def]
        congr 1
        apply List.map_congr_left
        intro kc hkc
        exact child kc hkc
      · rw [if_neg hp]
        have hp' : (g == plus) = false := by simpa using hp
        simp only [hp', Bool.false_or]
        rw [flatMap_key cs hw'.1 g (fun c => (c.entries.filter (fun e => levelMatchB rest e.1)).map (·.2))]
        cases hc : childGet cs g with
        | none => rfl
        | some c => exact child (g, c) (mem_of_childGet hc)

end GmqttVerif.Retained
