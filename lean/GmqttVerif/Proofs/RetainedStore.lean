import GmqttVerif.Proofs.RetainedMatch
/-
  The two-trie store (`trieDB`) against the declarative spec `Spec` (topic ↦ last retained message):
  the refinement invariant `Inv`, its preservation by every public mutating method, and what
  `GetRetainedMessage` / `GetMatchedMessages` / `Iterate` return in a state satisfying it.
-/
namespace GmqttVerif.Retained

/-! ### spec map -/

theorem Spec.filter_cons (a : Topic) (m : Msg) (rest : Spec) (t : Topic) :
    List.filter (fun km => km.1 ≠ t) ((a, m) :: rest) =
      if a = t then List.filter (fun km => km.1 ≠ t) rest else (a, m) :: List.filter (fun km => km.1 ≠ t) rest := by
  by_cases h : a = t <;> simp [h]

theorem Spec.get_filter (S : Spec) (t k : Topic) :
    Spec.get (S.filter (fun km => km.1 ≠ t)) k = if k = t then none else Spec.get S k := by
  induction S with
  | nil => simp [Spec.get]
  | cons hd rest ih =>
    obtain ⟨a, m⟩ := hd
    rw [Spec.filter_cons]
    by_cases hat : a = t
    · subst hat
      rw [if_pos rfl, ih]
      by_cases hk : k = a
      · subst hk; simp
      · have : ¬ a = k := fun h => hk h.symm
        simp [Spec.get, hk, this]
    · rw [if_neg hat]
      simp only [Spec.get, ih]
      by_cases hk : k = t
      · subst hk; simp [hat]
      · simp [hk]

theorem Spec.get_add (S : Spec) (m : Msg) (k : Topic) :
    Spec.get (Spec.step S (.add m)) k = if k = m.topic then some m else Spec.get S k := by
  simp only [Spec.step, Spec.get, Spec.get_filter]
  by_cases h : k = m.topic
  · subst h; simp
  · have : ¬ m.topic = k := fun e => h e.symm
    simp [h, this]

theorem Spec.get_remove (S : Spec) (t k : Topic) :
    Spec.get (Spec.step S (.remove t)) k = if k = t then none else Spec.get S k := by
  simp only [Spec.step, Spec.get_filter]

/-! ### the two tries -/

/-- the trie holding `$` topics (`true`) / all other topics (`false`) -/
def Store.trie (s : Store) (b : Bool) : Node := if b then s.sys else s.user

theorem Store.getTrie_eq (s : Store) (t : Topic) : s.getTrie t = s.trie (isSystemTopic t) := by
  unfold Store.getTrie Store.trie; cases isSystemTopic t <;> simp

theorem Store.trie_setTrie (s : Store) (t : Topic) (n : Node) (b : Bool) :
    (s.setTrie t n).trie b = if b = isSystemTopic t then n else s.trie b := by
  unfold Store.setTrie Store.trie
  cases isSystemTopic t <;> cases b <;> simp

/-- refinement invariant: each trie holds exactly the kept messages of its kind, each at the path
    `splitLevels topic`; no node has duplicate child keys; the spec is keyed by the message's topic. -/
structure Inv (s : Store) (S : Spec) : Prop where
  wf : ∀ b, (s.trie b).WF
  trie : ∀ b p m, (s.trie b).get p = some m ↔
    (isSystemTopic m.topic = b ∧ p = splitLevels m.topic ∧ Spec.get S m.topic = some m)
  keyed : ∀ t m, Spec.get S t = some m → m.topic = t

theorem inv_new : Inv Store.new [] := by
  refine ⟨?_, ?_, ?_⟩
  · intro b; cases b <;> exact newNode_WF
  · intro b p m
    have : (Store.new.trie b).get p = none := by cases b <;> exact newNode_get p
    simp [this, Spec.get]
  · intro t m h; simp [Spec.get] at h

theorem inv_add {s : Store} {S : Spec} (h : Inv s S) (m0 : Msg) :
    Inv (s.addOrReplace m0) (Spec.step S (.add m0)) := by
  unfold Store.addOrReplace
  refine ⟨?_, ?_, ?_⟩
  · intro b
    rw [Store.trie_setTrie]
    split
    · rw [Store.getTrie_eq]; exact Node.WF_add (h.wf _) _ _
    · exact h.wf b
  · intro b p m
    rw [Store.trie_setTrie, Spec.get_add]
    by_cases hb : b = isSystemTopic m0.topic
    · rw [if_pos hb, Store.getTrie_eq, Node.get_add, ← hb]
      by_cases hp : p = splitLevels m0.topic
      · rw [if_pos hp]
        constructor
        · intro e
          cases e
          exact ⟨hb.symm, hp, by simp⟩
        · rintro ⟨_, h2, h3⟩
          have ht : m.topic = m0.topic := splitLevels_inj (h2.symm.trans hp)
          rw [if_pos ht] at h3
          exact h3
      · rw [if_neg hp, h.trie]
        have hne : ∀ (_ : p = splitLevels m.topic), ¬ m.topic = m0.topic := by
          intro h2 ht; rw [ht] at h2; exact hp h2
        constructor
        · rintro ⟨h1, h2, h3⟩
          exact ⟨h1, h2, by rw [if_neg (hne h2)]; exact h3⟩
        · rintro ⟨h1, h2, h3⟩
          rw [if_neg (hne h2)] at h3
          exact ⟨h1, h2, h3⟩
    · rw [if_neg hb, h.trie]
      have hne : ∀ (_ : isSystemTopic m.topic = b), ¬ m.topic = m0.topic := by
        intro h1 ht; rw [ht] at h1; exact hb h1.symm
      constructor
      · rintro ⟨h1, h2, h3⟩
        exact ⟨h1, h2, by rw [if_neg (hne h1)]; exact h3⟩
      · rintro ⟨h1, h2, h3⟩
        rw [if_neg (hne h1)] at h3
        exact ⟨h1, h2, h3⟩
  · intro t m hg
    rw [Spec.get_add] at hg
    by_cases ht : t = m0.topic
    · rw [if_pos ht] at hg; cases hg; exact ht.symm
    · rw [if_neg ht] at hg; exact h.keyed t m hg

theorem inv_remove {s : Store} {S : Spec} (h : Inv s S) (t0 : Topic) :
    Inv (s.remove t0) (Spec.step S (.remove t0)) := by
  unfold Store.remove
  refine ⟨?_, ?_, ?_⟩
  · intro b
    rw [Store.trie_setTrie]
    split
    · rw [Store.getTrie_eq]; exact Node.WF_remove (h.wf _) _
    · exact h.wf b
  · intro b p m
    rw [Store.trie_setTrie, Spec.get_remove]
    by_cases hb : b = isSystemTopic t0
    · rw [if_pos hb, Store.getTrie_eq, Node.get_remove _ _ (splitLevels_ne_nil t0), ← hb]
      by_cases hp : p = splitLevels t0
      · rw [if_pos hp]
        constructor
        · intro e; cases e
        · rintro ⟨_, h2, h3⟩
          have ht : m.topic = t0 := splitLevels_inj (h2.symm.trans hp)
          rw [if_pos ht] at h3
          cases h3
      · rw [if_neg hp, h.trie]
        have hne : ∀ (_ : p = splitLevels m.topic), ¬ m.topic = t0 := by
          intro h2 ht; rw [ht] at h2; exact hp h2
        constructor
        · rintro ⟨h1, h2, h3⟩
          exact ⟨h1, h2, by rw [if_neg (hne h2)]; exact h3⟩
        · rintro ⟨h1, h2, h3⟩
          rw [if_neg (hne h2)] at h3
          exact ⟨h1, h2, h3⟩
    · rw [if_neg hb, h.trie]
      have hne : ∀ (_ : isSystemTopic m.topic = b), ¬ m.topic = t0 := by
        intro h1 ht; rw [ht] at h1; exact hb h1.symm
      constructor
      · rintro ⟨h1, h2, h3⟩
        exact ⟨h1, h2, by rw [if_neg (hne h1)]; exact h3⟩
      · rintro ⟨h1, h2, h3⟩
        rw [if_neg (hne h1)] at h3
        exact ⟨h1, h2, h3⟩
  · intro t m hg
    rw [Spec.get_remove] at hg
    by_cases ht : t = t0
    · rw [if_pos ht] at hg; cases hg
    · rw [if_neg ht] at hg; exact h.keyed t m hg

theorem inv_step {s : Store} {S : Spec} (h : Inv s S) (op : Op) : Inv (s.step op) (Spec.step S op) := by
  cases op with
  | add m => exact inv_add h m
  | remove t => exact inv_remove h t
  | clear => exact inv_new

theorem inv_foldl {s : Store} {S : Spec} (h : Inv s S) (ops : List Op) :
    Inv (ops.foldl Store.step s) (ops.foldl Spec.step S) := by
  induction ops generalizing s S with
  | nil => exact h
  | cons op rest ih => exact ih (inv_step h op)

/-- every history from `NewStore()` ends in a state that refines the spec map -/
theorem inv_run (ops : List Op) : Inv (run ops) (specRun ops) := inv_foldl inv_new ops

/-! ### what the read-only methods return under `Inv` -/

theorem Store.getRetainedMessage_eq (s : Store) (t : Topic) :
    s.getRetainedMessage t = (s.getTrie t).get (splitLevels t) := by
  unfold Store.getRetainedMessage Node.find Node.get
  cases (s.getTrie t).walk (splitLevels t) with
  | none => rfl
  | some p =>
    simp only [Option.bind_some]
    cases hm : p.msg <;> simp [hm]

theorem get_of_inv {s : Store} {S : Spec} (h : Inv s S) (t : Topic) :
    s.getRetainedMessage t = Spec.get S t := by
  rw [Store.getRetainedMessage_eq, Store.getTrie_eq]
  apply Option.ext
  intro m
  rw [h.trie]
  constructor
  · rintro ⟨_, h2, h3⟩
    rw [splitLevels_inj h2]; exact h3
  · intro hg
    have ht := h.keyed t m hg
    subst ht
    exact ⟨rfl, rfl, hg⟩

/-- the entries of one trie, seen from the spec -/
theorem mem_trie_entries {s : Store} {S : Spec} (h : Inv s S) (b : Bool) (p : List Level) (m : Msg) :
    (p, m) ∈ (s.trie b).entries ↔
      (isSystemTopic m.topic = b ∧ p = splitLevels m.topic ∧ Spec.get S m.topic = some m) := by
  rw [Node.mem_entries (h.wf b), h.trie]

/-- no two entries of one trie carry the same topic -/
theorem trie_topics_nodup {s : Store} {S : Spec} (h : Inv s S) (b : Bool) :
    ((s.trie b).entries.map (fun e => e.2.topic)).Nodup := by
  have hn := Node.entries_nodup (h.wf b)
  unfold List.Nodup at hn ⊢
  rw [List.pairwise_map]
  refine hn.imp_of_mem ?_
  intro e1 e2 h1 h2 hne heq
  obtain ⟨p1, m1⟩ := e1
  obtain ⟨p2, m2⟩ := e2
  obtain ⟨_, hp1, hg1⟩ := (mem_trie_entries h b p1 m1).1 h1
  obtain ⟨_, hp2, hg2⟩ := (mem_trie_entries h b p2 m2).1 h2
  simp only at heq
  rw [heq] at hp1 hg1
  rw [hg2] at hg1
  cases hg1
  exact hne (by rw [hp1, hp2])

theorem matched_of_inv {s : Store} {S : Spec} (h : Inv s S) (f : Topic) (hf : hashLast (splitLevels f) = true) :
    (∀ m, m ∈ s.getMatchedMessages f ↔
      (Spec.get S m.topic = some m ∧ Matches (splitLevels f) (splitLevels m.topic))) ∧
    ((s.getMatchedMessages f).map (·.topic)).Nodup := by
  unfold Store.getMatchedMessages
  rw [Store.getTrie_eq, Node.matchTopic_eq (h.wf _) _ (splitLevels_ne_nil f) hf]
  constructor
  · intro m
    simp only [List.mem_map, List.mem_filter]
    rw [← levelMatch_sameTrie_iff, sysLevels_split, sysLevels_split]
    constructor
    · rintro ⟨⟨p, m'⟩, ⟨he, hm⟩, rfl⟩
      obtain ⟨h1, h2, h3⟩ := (mem_trie_entries h _ p m').1 he
      simp only at hm
      rw [h2] at hm
      exact ⟨h3, (levelMatchB_iff _ _).1 hm, h1⟩
    · rintro ⟨h3, hm, h1⟩
      refine ⟨(splitLevels m.topic, m), ⟨(mem_trie_entries h _ _ m).2 ⟨h1, rfl, h3⟩, ?_⟩, rfl⟩
      exact (levelMatchB_iff _ _).2 hm
  · rw [List.map_map]
    exact List.Nodup.sublist (List.Sublist.map _ List.filter_sublist) (trie_topics_nodup h _)

theorem iterate_eq (s : Store) {σ : Type} (fn : σ → Msg → σ × Bool) (init : σ) :
    s.iterate fn init =
      (foldUntil fn (s.user.entries.map (·.2) ++ s.sys.entries.map (·.2)) init).1 := by
  unfold Store.iterate
  rw [foldUntil_append, Node.traverse_eq fn s.user]
  generalize foldUntil fn (s.user.entries.map (·.2)) init = r
  obtain ⟨st, b⟩ := r
  cases b
  · rfl
  · exact congrArg Prod.fst (Node.traverse_eq fn s.sys st)

theorem iterateAll_eq (s : Store) :
    s.iterateAll = s.user.entries.map (·.2) ++ s.sys.entries.map (·.2) := by
  unfold Store.iterateAll
  rw [iterate_eq, foldUntil_collect]; simp

theorem iterate_of_inv {s : Store} {S : Spec} (h : Inv s S) :
    (∀ m, m ∈ s.iterateAll ↔ Spec.get S m.topic = some m) ∧ (s.iterateAll.map (·.topic)).Nodup := by
  rw [iterateAll_eq]
  have hu := mem_trie_entries h false
  have hs := mem_trie_entries h true
  simp only [Store.trie, if_true, if_false, Bool.false_eq_true] at hu hs
  constructor
  · intro m
    simp only [List.mem_append, List.mem_map]
    constructor
    · rintro (⟨⟨p, m'⟩, he, rfl⟩ | ⟨⟨p, m'⟩, he, rfl⟩)
      · exact ((hu p m').1 he).2.2
      · exact ((hs p m').1 he).2.2
    · intro hg
      cases hb : isSystemTopic m.topic with
      | false => exact Or.inl ⟨(splitLevels m.topic, m), (hu _ m).2 ⟨hb, rfl, hg⟩, rfl⟩
      | true => exact Or.inr ⟨(splitLevels m.topic, m), (hs _ m).2 ⟨hb, rfl, hg⟩, rfl⟩
  · have nu := trie_topics_nodup h false
    have ns := trie_topics_nodup h true
    simp only [Store.trie, if_true, if_false, Bool.false_eq_true] at nu ns
    simp only [List.map_append, List.map_map]
    unfold List.Nodup at nu ns ⊢
    rw [List.pairwise_append]
    refine ⟨nu, ns, ?_⟩
    intro a ha b hb heq
    simp only [List.mem_map, Function.comp] at ha hb
    obtain ⟨⟨p1, m1⟩, he1, rfl⟩ := ha
    obtain ⟨⟨p2, m2⟩, he2, rfl⟩ := hb
    have h1 := ((hu p1 m1).1 he1).1
    have h2 := ((hs p2 m2).1 he2).1
    simp only at heq
    rw [heq, h2] at h1
    cases h1

end GmqttVerif.Retained
