import GmqttVerif.Model.RetainedTopic
/-
  Lemmas about the topic vocabulary of the retained store: `splitLevels` is injective and never
  empty, `isSystemTopic` is a property of the first level, `levelMatchB` decides `LevelMatch`,
  and the §4.7.2 `$` rule expressed through "which trie is searched".
-/
namespace GmqttVerif.Retained

theorem splitLevels_ne_nil (t : Topic) : splitLevels t ≠ [] := by
  induction t with
  | nil => simp [splitLevels]
  | cons c cs ih =>
    unfold splitLevels
    split
    · simp
    · split <;> simp

theorem join_split (t : Topic) : joinLevels (splitLevels t) = t := by
  induction t with
  | nil => simp [splitLevels, joinLevels]
  | cons c cs ih =>
    unfold splitLevels
    split
    · next h =>
      cases hs : splitLevels cs with
      | nil => exact absurd hs (splitLevels_ne_nil cs)
      | cons l ls => rw [hs] at ih; simp [joinLevels, h]; exact ih
    · cases hs : splitLevels cs with
      | nil => exact absurd hs (splitLevels_ne_nil cs)
      | cons l ls =>
        rw [hs] at ih
        cases ls with
        | nil => simp [joinLevels] at ih ⊢; exact ih
        | cons l2 ls2 => simp [joinLevels] at ih ⊢; exact ih

theorem splitLevels_inj {a b : Topic} (h : splitLevels a = splitLevels b) : a = b := by
  rw [← join_split a, ← join_split b, h]

theorem sysLevels_split (t : Topic) : sysLevels (splitLevels t) = isSystemTopic t := by
  cases t with
  | nil => simp [splitLevels, sysLevels, isSystemTopic]
  | cons c cs =>
    unfold splitLevels
    split
    · next h => subst h; simp [sysLevels, isSystemTopic]
    · cases hs : splitLevels cs with
      | nil => exact absurd hs (splitLevels_ne_nil cs)
      | cons l ls => simp [sysLevels, isSystemTopic]

theorem hash_ne_plus : hash ≠ plus := by decide

/-- `levelMatchB` decides `LevelMatch`. -/
theorem levelMatchB_iff (f t : List Level) : levelMatchB f t = true ↔ LevelMatch f t := by
  induction f generalizing t with
  | nil =>
    cases t with
    | nil => simp [levelMatchB]; exact .nil
    | cons a as => simp [levelMatchB]; intro h; cases h
  | cons f fs ih =>
    unfold levelMatchB
    split
    · next hf =>
      subst hf
      cases fs with
      | nil => simp; exact .hash t
      | cons g gs =>
        simp
        intro h
        cases h with
        | lit h1 _ _ => exact h1 rfl
    · next hf =>
      cases t with
      | nil =>
        simp
        intro h
        cases h with
        | hash _ => exact hf rfl
      | cons a as =>
        simp only [Bool.and_eq_true, Bool.or_eq_true, beq_iff_eq, ih]
        constructor
        · rintro ⟨h1 | h1, h2⟩
          · subst h1; exact .plus h2
          · subst h1
            by_cases hp : f = plus
            · subst hp; exact .plus h2
            · exact .lit hf hp h2
        · intro h
          cases h with
          | hash _ => exact absurd rfl hf
          | plus h2 => exact ⟨Or.inl rfl, h2⟩
          | lit _ _ h2 => exact ⟨Or.inr rfl, h2⟩

instance (f t : List Level) : Decidable (LevelMatch f t) :=
  decidable_of_iff _ (levelMatchB_iff f t)

theorem matchesB_iff (f t : List Level) : matchesB f t = true ↔ Matches f t := by
  simp [matchesB, Matches, levelMatchB_iff]
  intro _
  cases wildcardFirst f <;> cases sysLevels t <;> simp

instance (f t : List Level) : Decidable (Matches f t) :=
  decidable_of_iff _ (matchesB_iff f t)

/-- A match forces the first levels to agree unless the filter starts with a wildcard. -/
theorem levelMatch_first {f : Level} {fs : List Level} {t : List Level}
    (h : LevelMatch (f :: fs) t) (hw : wildcardFirst (f :: fs) = false) : ∃ ts, t = f :: ts := by
  cases h with
  | hash _ => simp [wildcardFirst] at hw
  | plus _ => simp [wildcardFirst] at hw
  | lit _ _ _ => exact ⟨_, rfl⟩

theorem sysLevels_not_wildcard {l : Level} {ls : List Level} (h : sysLevels (l :: ls) = true) :
    wildcardFirst (l :: ls) = false := by
  cases l with
  | nil => simp [sysLevels] at h
  | cons c cs =>
    simp [sysLevels] at h
    subst h
    simp [wildcardFirst, hash, plus]

/-- §4.7.2 through the two tries: searching only the trie selected by the FILTER's first byte
    (`getTrie(topicFilter)`) for level-matches is the same as `Matches`, for every topic. -/
theorem levelMatch_sameTrie_iff (f t : List Level) :
    (LevelMatch f t ∧ sysLevels t = sysLevels f) ↔ Matches f t := by
  unfold Matches
  constructor
  · rintro ⟨hm, hs⟩
    refine ⟨hm, ?_⟩
    rintro ⟨hw, hst⟩
    cases f with
    | nil => simp [wildcardFirst] at hw
    | cons l ls =>
      rw [hst] at hs
      have := sysLevels_not_wildcard hs.symm
      rw [this] at hw; cases hw
  · rintro ⟨hm, hn⟩
    refine ⟨hm, ?_⟩
    cases f with
    | nil => cases hm; simp [sysLevels]
    | cons l ls =>
      cases hw : wildcardFirst (l :: ls) with
      | true =>
        have h1 : sysLevels t = false := by
          cases hs : sysLevels t with
          | false => rfl
          | true => exact absurd ⟨hw, hs⟩ hn
        have h2 : sysLevels (l :: ls) = false := by
          cases hs : sysLevels (l :: ls) with
          | false => rfl
          | true => rw [sysLevels_not_wildcard hs] at hw; cases hw
        rw [h1, h2]
      | false =>
        obtain ⟨ts, rfl⟩ := levelMatch_first hm hw
        cases l <;> simp [sysLevels]

instance (f : Topic) : Decidable (ValidFilter f) := by
  unfold ValidFilter; exact inferInstance

theorem validFilter_hashLast {f : Topic} (h : ValidFilter f) : hashLast (splitLevels f) = true := h.2.2

end GmqttVerif.Retained
