import GmqttVerif.Proofs.SessionSteps
import GmqttVerif.Proofs.SessionTakeover
/-
  Vocabulary and helper lemmas for C05 (`Properties/C05.lean` holds the property theorems only).
  Sequential part: the lemmas about `connect` / `unregister` and the step invariant of the wire-level broker model.
  (Interleaving part: `Proofs/SessionTakeover.lean`; frames and invariants: `Proofs/SessionBasic/Poll/Steps.lean`.)
-/
namespace GmqttVerif.Broker
open GmqttVerif.Deliver

/-- the state in which `connect r` takes its decision: an online connection with the same client id has been
    displaced (closed and unregistered) first -/
def afterDisplace (b : B) (cid : String) : B :=
  match b.cliOf? cid with
  | some old => b.kick old.conn (some 0x8E)
  | none => b

/-- the stored session's expiry deadline (end of last connection + interval) has passed -/
def deadlinePassed (b : B) (cid : String) : Bool :=
  match b.offline.find? (fun (cd : String × Nat) => cd.1 == cid) with
  | some cd => decide (b.now > cd.2)
  | none => false

/-- the CONNACK that `connect r` writes to its own connection (among the packets this `connect` appends) -/
def connackOf (b : B) (r : ConnectReq) : Option Pkt :=
  (((b.connect r).out.drop b.out.length).filter (fun o => o.conn == r.conn && !o.poll)).map (·.pkt) |>.find? (fun p => match p with | .connack .. => true | _ => false)

/-- wire steps of the sequential broker model -/
inductive Step
  | connect (r : ConnectReq)
  | subscribe (conn : String) (pid : Nat) (topics : List SubTopic) (id : Nat)
  | unsubscribe (conn : String) (pid : Nat) (topics : List String)
  | publish (r : PubReq)
  | pubrel (conn : String) (pid : Nat)
  | ack (conn : String) (id : Nat)
  | pubrec (conn : String) (id code : Nat)
  | disconnect (conn : String) (se : Option Nat)
  | close (conn : String)
  | apiPublish (m : Msg)
  | apiTerminate (cid : String)
  | apiExpire
  | apiBackdate (cid : String) (secs : Nat)
  | sleep (ms : Nat)
  | pump

def stepB (b : B) : Step → B
  | .connect r => if (b.cli? r.conn).isSome then b else b.connect r     -- a connection name is used once
  | .subscribe c p t i => b.subscribe c p t i
  | .unsubscribe c p t => b.unsubscribe c p t
  | .publish r => b.publish r
  | .pubrel c p => b.pubrelIn c p
  | .ack c i => b.ackOut c i
  | .pubrec c i k => b.pubrecOut c i k
  | .disconnect c se => b.disconnectIn c se
  | .close c => b.closeIn c
  | .apiPublish m => (b.deliverMsg "" m []).1
  | .apiTerminate cid => b.apiTerminate cid
  | .apiExpire => b.apiExpire
  | .apiBackdate cid s => b.apiBackdate cid s
  | .sleep ms => b.sleep ms
  | .pump => b.pumpAll

def runB (b : B) : List Step → B
  | [] => b
  | s :: ss => runB (stepB b s) ss

/-! ### `connect`, decomposed -/

/-- the decision `connect` takes in the state `b1` after displacement -/
def resumeOf (b1 : B) (r : ConnectReq) : Bool :=
  match b1.sess? r.cid with
  | some _ => !(deadlinePassed b1 r.cid) && !r.clean
  | none => false

/-- end of the old session: terminate it and fire its delayed will, or (resume) cancel the delayed will -/
def endOld (b1 : B) (r : ConnectReq) : B :=
  match b1.sess? r.cid with
  | some _ =>
    if !resumeOf b1 r then
      let b := b1.terminate r.cid
      match b.willOf? r.cid with
      | some (_, w, _) => (b.dropWill r.cid).sendWill r.cid w
      | none => b
    else b1.dropWill r.cid
  | none => b1

def cliMaxPktOf (r : ConnectReq) : Nat := if r.v == 5 then (match r.mp with | some x => x | none => 4294967295) else 4294967295

def newQueue (cfg : Cfg) (b1 : B) (r : ConnectReq) : Queue.Q :=
  let queue : Queue.Q := match b1.sess? r.cid with
    | some s => if resumeOf b1 r then s.queue.init false (cliMaxPktOf r) else (Queue.new cfg.maxQueued (cfg.inflightExpiry * 1000)).init true (cliMaxPktOf r)
    | none => (Queue.new cfg.maxQueued (cfg.inflightExpiry * 1000)).init true (cliMaxPktOf r)
  if resumeOf b1 r then
    { queue with rest := queue.rest.map (fun e => if e.pub then { e with size := totalBytes r.v ((endOld b1 r).msgOf e.tag) } else e) }
  else queue

def seOf (cfg : Cfg) (r : ConnectReq) : Nat :=
  if r.v == 5 then (match r.se with | none => 0 | some i => min i cfg.sessExpiry) else cfg.sessExpiry

def newSess (cfg : Cfg) (b1 : B) (r : ConnectReq) : Sess :=
  { cid := r.cid, expiry := if r.v != 5 then (if !r.clean then cfg.sessExpiry else 0) else seOf cfg r,
    connectedAt := (endOld b1 r).now,
    will := r.will.map (fun (w : Msg × Nat) => w.1),
    willDelay := if r.v == 5 then (match r.will with | some w => w.2 | none => 0) else 0,
    queue := newQueue cfg b1 r,
    unack := match b1.sess? r.cid with | some s => if resumeOf b1 r then s.unack else [] | none => [] }

def newCli (cfg : Cfg) (r : ConnectReq) : Cli :=
  { conn := r.conn, cid := r.cid, v := r.v,
    maxInflight := if r.v == 5 then (match r.rm with | some x => min x cfg.maxInflight | none => cfg.maxInflight) else cfg.maxInflight,
    cliMaxPkt := cliMaxPktOf r,
    cliAliasMax := if r.v == 5 then (match r.ta with | some x => x | none => 0) else 0, quota := cfg.recvMax }

def connackPkt (cfg : Cfg) (b1 : B) (r : ConnectReq) : Pkt :=
  .connack (resumeOf b1 r) 0 (if r.v == 5 then some (seOf cfg r, cfg.recvMax, cfg.aliasMax, cfg.maxPacket, min r.ka cfg.maxKeepAlive) else none)

/-- `connect` after the displacement, before the replay loop -/
def connectCore (cfg : Cfg) (b1 : B) (r : ConnectReq) : B :=
  let b2 := endOld b1 r
  ({ (b2.setSess (newSess cfg b1 r)).setCli (newCli cfg r) with offline := b2.offline.filter (·.1 != r.cid) }).emit
    r.conn false (connackPkt cfg b1 r)

theorem connect_eq (b : B) (r : ConnectReq) :
    b.connect r = (connectCore b.cfg (afterDisplace b r.cid) r).replay r.conn 100000 := rfl


theorem resumeOf_iff (b1 : B) (r : ConnectReq) :
    resumeOf b1 r = true ↔
      (r.clean = false ∧ (b1.sess? r.cid).isSome = true ∧ deadlinePassed b1 r.cid = false) := by
  unfold resumeOf
  cases b1.sess? r.cid with
  | none => simp
  | some s => simp [and_comm]

/-- what `endOld` does, by cases -/
theorem endOld_spec (b1 : B) (r : ConnectReq) :
    (Grow b1 (endOld b1 r) ∧ (resumeOf b1 r = true ∨ b1.sess? r.cid = none)) ∨
    (Grow (b1.terminate r.cid) (endOld b1 r) ∧ resumeOf b1 r = false ∧ (b1.sess? r.cid).isSome = true) := by
  unfold endOld
  cases hs : b1.sess? r.cid with
  | none => exact .inl ⟨Grow.refl _, .inr rfl⟩
  | some s =>
    simp only
    cases hr : resumeOf b1 r with
    | true => exact .inl ⟨by simpa using grow_dropWill b1 r.cid, .inl rfl⟩
    | false =>
      refine .inr ⟨?_, rfl, rfl⟩
      simp only [Bool.not_false, if_true]
      split
      · exact (grow_dropWill _ _).trans (grow_sendWill _ _ _)
      · exact Grow.refl _

theorem endOld_out (b1 : B) (r : ConnectReq) : (endOld b1 r).out = b1.out := by
  rcases endOld_spec b1 r with ⟨g, _⟩ | ⟨g, _⟩
  · exact g.out
  · exact g.out

theorem endOld_clis (b1 : B) (r : ConnectReq) : (endOld b1 r).clis = b1.clis := by
  rcases endOld_spec b1 r with ⟨g, _⟩ | ⟨g, _⟩
  · exact g.clis
  · exact g.clis

theorem endOld_wf {b1 : B} (r : ConnectReq) (h : WF b1) (hno : ∀ x ∈ b1.clis, x.cid ≠ r.cid) : WF (endOld b1 r) := by
  rcases endOld_spec b1 r with ⟨g, _⟩ | ⟨g, _⟩
  · exact h.grow g
  · exact (h.terminate _ hno).grow g

theorem core_out (cfg : Cfg) (b1 : B) (r : ConnectReq) :
    (connectCore cfg b1 r).out = b1.out ++ [{ conn := r.conn, poll := false, pkt := connackPkt cfg b1 r }] := by
  show (endOld b1 r).out ++ _ = _
  rw [endOld_out]

theorem core_sess (cfg : Cfg) (b1 : B) (r : ConnectReq) :
    (connectCore cfg b1 r).sess? r.cid = some (newSess cfg b1 r) :=
  sess?_setSess_same (endOld b1 r) (newSess cfg b1 r)

theorem core_cli (cfg : Cfg) (b1 : B) (r : ConnectReq) :
    (connectCore cfg b1 r).cli? r.conn = some (newCli cfg r) := by
  show (((endOld b1 r).setSess (newSess cfg b1 r)).setCli (newCli cfg r)).cli? r.conn = _
  rw [cli?_setCli]
  simp [newCli]

theorem core_subs (cfg : Cfg) (b1 : B) (r : ConnectReq) : (connectCore cfg b1 r).subs = (endOld b1 r).subs := rfl

theorem afterDisplace_outs (b : B) (cid : String) :
    Outs (fun o => (b.cli? o.conn).isSome = true ∧ o.poll = false ∧ isConnack o.pkt = false) b (afterDisplace b cid) := by
  unfold afterDisplace
  cases hc : b.cliOf? cid with
  | none => exact Outs.refl _ _
  | some old =>
    have hm := (cliOf?_some hc).1
    exact (kick_outs b old.conn (some 0x8E)).mono (fun o ho => ⟨by rw [ho.1]; exact cli?_isSome_of_mem hm, ho.2⟩)

theorem afterDisplace_cfg (b : B) (cid : String) : (afterDisplace b cid).cfg = b.cfg := by
  unfold afterDisplace
  cases b.cliOf? cid with
  | none => rfl
  | some old => exact (kick_frame b old.conn _).1

theorem find_connack (f : Pkt → Bool) (hf : ∀ p, f p = isConnack p) (conn : String) (l1 l2 : List Out) (x : Out)
    (h1 : ∀ o ∈ l1, isConnack o.pkt = false) (hx : x.conn = conn ∧ x.poll = false ∧ isConnack x.pkt = true) :
    (((l1 ++ x :: l2).filter (fun o => o.conn == conn && !o.poll)).map (·.pkt)).find? f = some x.pkt := by
  induction l1 with
  | nil =>
    have : (x.conn == conn && !x.poll) = true := by simp [hx.1, hx.2.1]
    simp [this, hf, hx.2.2]
  | cons y ys ih =>
    have hy : isConnack y.pkt = false := h1 y List.mem_cons_self
    have ih' := ih (fun o ho => h1 o (List.mem_cons_of_mem _ ho))
    rw [List.cons_append, List.filter_cons]
    split
    · rw [List.map_cons, List.find?_cons, hf, hy]; exact ih'
    · exact ih'

theorem connack_sp_iff (b : B) (r : ConnectReq) (_hfresh : b.cli? r.conn = none) :
    ∃ code props sp, connackOf b r = some (.connack sp code props) ∧ code = 0 ∧
      (sp = true ↔ (r.clean = false ∧ ((afterDisplace b r.cid).sess? r.cid).isSome = true ∧
                    deadlinePassed (afterDisplace b r.cid) r.cid = false)) := by
  refine ⟨0, (if r.v == 5 then some (seOf b.cfg r, b.cfg.recvMax, b.cfg.aliasMax, b.cfg.maxPacket, min r.ka b.cfg.maxKeepAlive) else none),
    resumeOf (afterDisplace b r.cid) r, ?_, rfl, resumeOf_iff _ _⟩
  obtain ⟨l1, e1, p1⟩ := afterDisplace_outs b r.cid
  obtain ⟨l2, e2, p2⟩ := (replay_run 100000 (connectCore b.cfg (afterDisplace b r.cid) r) r.conn).outs
  unfold connackOf
  rw [connect_eq, e2, core_out, e1]
  simp only [List.append_assoc, List.drop_left, List.singleton_append]
  exact find_connack _ (by intro p; cases p <;> rfl) r.conn l1 l2 _ (fun o ho => (p1 o ho).2.2) ⟨rfl, rfl, rfl⟩

theorem keysEq_refl (q : Queue.Q) : KeysEq q q := rfl
theorem keysEq_trans (q1 q2 q3 : Queue.Q) (h1 : KeysEq q1 q2) (h2 : KeysEq q2 q3) : KeysEq q1 q3 := by
  unfold KeysEq at *; rw [h2, h1]

/-- the session of the connecting client after `connect`: the new session record up to replay's queue cursor -/
theorem connect_sess (b : B) (r : ConnectReq) :
    ∃ s', (b.connect r).sess? r.cid = some s' ∧ SessRel KeysEq (newSess b.cfg (afterDisplace b r.cid) r) s' := by
  rw [connect_eq]
  exact (replay_run 100000 _ r.conn).sess keysEq_refl keysEq_trans r.cid _ (core_sess b.cfg _ r)

theorem connect_expiry (b : B) (r : ConnectReq) (s : Sess) (h : (b.connect r).sess? r.cid = some s) :
    s.expiry = (if r.v = 5 then (match r.se with | none => 0 | some i => min i b.cfg.sessExpiry)
                else if r.clean then 0 else b.cfg.sessExpiry) := by
  obtain ⟨s', hs', rel⟩ := connect_sess b r
  rw [hs'] at h
  cases h
  rw [rel.2.2.1]
  simp only [newSess, seOf]
  by_cases hv : r.v = 5
  · cases hse : r.se <;> simp [hv]
  · cases hcl : r.clean <;> simp [hv]

end GmqttVerif.Broker
