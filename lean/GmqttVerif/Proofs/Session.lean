import GmqttVerif.Proofs.SessionSteps
import GmqttVerif.Proofs.SessionTakeover
/-
  Vocabulary and helper lemmas for C05 (`Properties/C05.lean` holds the property theorems only).
  Sequential part: the lemmas about `connect` / `unregister` and the step invariant of the wire-level broker model.
  (Interleaving part: `Proofs/SessionTakeover.lean`; frames and invariants: `Proofs/SessionBasic/Poll/Steps.lean`.)
-/
namespace GmqttVerif.Broker
open GmqttVerif.Deliver

/-- the state in which `connect r` takes its decision: an online connection with the same client id has been
    displaced (closed and unregistered) first -/
def afterDisplace (b : B) (cid : String) : B :=
  match b.cliOf? cid with
  | some old => b.kick old.conn (some 0x8E)
  | none => b

/-- the stored session's expiry deadline (end of last connection + interval) has passed -/
def deadlinePassed (b : B) (cid : String) : Bool :=
  match b.offline.find? (fun (cd : String × Nat) => cd.1 == cid) with
  | some cd => decide (b.now > cd.2)
  | none => false

/-- the CONNACK that `connect r` writes to its own connection (among the packets this `connect` appends) -/
def connackOf (b : B) (r : ConnectReq) : Option Pkt :=
  (((b.connect r).out.drop b.out.length).filter (fun o => o.conn == r.conn && !o.poll)).map (·.pkt) |>.find? (fun p => match p with | .connack .. => true | _ => false)

/-- wire steps of the sequential broker model -/
inductive Step
  | connect (r : ConnectReq)
  | subscribe (conn : String) (pid : Nat) (topics : List SubTopic) (id : Nat)
  | unsubscribe (conn : String) (pid : Nat) (topics : List String)
  | publish (r : PubReq)
  | pubrel (conn : String) (pid : Nat)
  | ack (conn : String) (id : Nat)
  | pubrec (conn : String) (id code : Nat)
  | disconnect (conn : String) (se : Option Nat) (code : Nat := 0)
  | close (conn : String)
  | apiPublish (m : Msg)
  | apiTerminate (cid : String)
  | apiExpire
  | apiBackdate (cid : String) (secs : Nat)
  | sleep (ms : Nat)
  | pump

def stepB (b : B) : Step → B
  | .connect r => if (b.cli? r.conn).isSome then b else b.connect r     -- a connection name is used once
  | .subscribe c p t i => b.subscribe c p t i
  | .unsubscribe c p t => b.unsubscribe c p t
  | .publish r => b.publish r
  | .pubrel c p => b.pubrelIn c p
  | .ack c i => b.ackOut c i
  | .pubrec c i k => b.pubrecOut c i k
  | .disconnect c se code => b.disconnectIn c se code
  | .close c => b.closeIn c
  | .apiPublish m => (b.deliverMsg "" m []).1
  | .apiTerminate cid => b.apiTerminate cid
  | .apiExpire => b.apiExpire
  | .apiBackdate cid s => b.apiBackdate cid s
  | .sleep ms => b.sleep ms
  | .pump => b.pumpAll

def runB (b : B) : List Step → B
  | [] => b
  | s :: ss => runB (stepB b s) ss

/-! ### `connect`, decomposed -/

/-- the decision `connect` takes in the state `b1` after displacement -/
def resumeOf (b1 : B) (r : ConnectReq) : Bool :=
  match b1.sess? r.cid with
  | some _ => !(deadlinePassed b1 r.cid) && !r.clean
  | none => false

/-- end of the old session: terminate it and fire its delayed will, or (resume) cancel the delayed will -/
def endOld (b1 : B) (r : ConnectReq) : B :=
  match b1.sess? r.cid with
  | some _ =>
    if !resumeOf b1 r then b1.terminateS r.cid
    else b1.dropWill r.cid
  | none => b1

def cliMaxPktOf (r : ConnectReq) : Nat := if r.v == 5 then (match r.mp with | some x => x | none => 4294967295) else 4294967295

def newQueue (cfg : Cfg) (b1 : B) (r : ConnectReq) : Queue.Q :=
  let queue : Queue.Q := match b1.sess? r.cid with
    | some s => if resumeOf b1 r then s.queue.init false (cliMaxPktOf r) else (Queue.new cfg.maxQueued (cfg.inflightExpiry * 1000)).init true (cliMaxPktOf r)
    | none => (Queue.new cfg.maxQueued (cfg.inflightExpiry * 1000)).init true (cliMaxPktOf r)
  if resumeOf b1 r then
    { queue with rest := queue.rest.map (fun e => if e.pub then { e with size := totalBytes r.v ((endOld b1 r).msgOf e.tag) } else e) }
  else queue

def seOf (cfg : Cfg) (r : ConnectReq) : Nat :=
  if r.v == 5 then (match r.se with | none => 0 | some i => min i cfg.sessExpiry) else cfg.sessExpiry

def newSess (cfg : Cfg) (b1 : B) (r : ConnectReq) : Sess :=
  { cid := r.cid, expiry := if r.v != 5 then (if !r.clean then cfg.sessExpiry else 0) else seOf cfg r,
    connectedAt := (endOld b1 r).now,
    will := r.will.map (fun (w : Msg × Nat) => w.1),
    willDelay := if r.v == 5 then (match r.will with | some w => w.2 | none => 0) else 0,
    queue := newQueue cfg b1 r,
    unack := match b1.sess? r.cid with | some s => if resumeOf b1 r then s.unack else [] | none => [] }

def newCli (cfg : Cfg) (r : ConnectReq) : Cli :=
  { conn := r.conn, cid := r.cid, v := r.v,
    maxInflight := if r.v == 5 then (match r.rm with | some x => min x cfg.maxInflight | none => cfg.maxInflight) else cfg.maxInflight,
    cliMaxPkt := cliMaxPktOf r,
    cliAliasMax := if r.v == 5 then (match r.ta with | some x => x | none => 0) else 0, quota := cfg.recvMax,
    aliasOut := Alias.Fifo.new (if r.v == 5 then (match r.ta with | some x => x | none => 0) else 0) }

def connackPkt (cfg : Cfg) (b1 : B) (r : ConnectReq) : Pkt :=
  .connack (resumeOf b1 r) 0 (if r.v == 5 then some (seOf cfg r, cfg.recvMax, cfg.aliasMax, cfg.maxPacket, min r.ka cfg.maxKeepAlive) else none)

/-- `connect` after the displacement, before the replay loop -/
def connectCore (cfg : Cfg) (b1 : B) (r : ConnectReq) : B :=
  let b2 := endOld b1 r
  ({ (b2.setSess (newSess cfg b1 r)).setCli (newCli cfg r) with offline := b2.offline.filter (·.1 != r.cid) }).emit
    r.conn false (connackPkt cfg b1 r)

theorem connect_eq (b : B) (r : ConnectReq) :
    b.connect r = (connectCore b.cfg (afterDisplace b r.cid) r).replay r.conn 100000 := rfl


theorem resumeOf_iff (b1 : B) (r : ConnectReq) :
    resumeOf b1 r = true ↔
      (r.clean = false ∧ (b1.sess? r.cid).isSome = true ∧ deadlinePassed b1 r.cid = false) := by
  unfold resumeOf
  cases b1.sess? r.cid with
  | none => simp
  | some s => simp [and_comm]

/-- what `endOld` does, by cases -/
theorem endOld_spec (b1 : B) (r : ConnectReq) :
    (Grow b1 (endOld b1 r) ∧ (resumeOf b1 r = true ∨ b1.sess? r.cid = none)) ∨
    (Grow (b1.terminate r.cid) (endOld b1 r) ∧ resumeOf b1 r = false ∧ (b1.sess? r.cid).isSome = true) := by
  unfold endOld
  cases hs : b1.sess? r.cid with
  | none => exact .inl ⟨Grow.refl _, .inr rfl⟩
  | some s =>
    simp only
    cases hr : resumeOf b1 r with
    | true => exact .inl ⟨by simpa using grow_dropWill b1 r.cid, .inl rfl⟩
    | false =>
      refine .inr ⟨?_, rfl, rfl⟩
      simp only [Bool.not_false, if_true]
      exact grow_terminateS b1 r.cid

theorem endOld_out (b1 : B) (r : ConnectReq) : (endOld b1 r).out = b1.out := by
  rcases endOld_spec b1 r with ⟨g, _⟩ | ⟨g, _⟩
  · exact g.out
  · exact g.out

theorem endOld_clis (b1 : B) (r : ConnectReq) : (endOld b1 r).clis = b1.clis := by
  rcases endOld_spec b1 r with ⟨g, _⟩ | ⟨g, _⟩
  · exact g.clis
  · exact g.clis

theorem endOld_wf {b1 : B} (r : ConnectReq) (h : WF b1) (hno : ∀ x ∈ b1.clis, x.cid ≠ r.cid) : WF (endOld b1 r) := by
  rcases endOld_spec b1 r with ⟨g, _⟩ | ⟨g, _⟩
  · exact h.grow g
  · exact (h.terminate _ hno).grow g

theorem core_out (cfg : Cfg) (b1 : B) (r : ConnectReq) :
    (connectCore cfg b1 r).out = b1.out ++ [{ conn := r.conn, poll := false, pkt := connackPkt cfg b1 r }] := by
  show (endOld b1 r).out ++ _ = _
  rw [endOld_out]

theorem core_sess (cfg : Cfg) (b1 : B) (r : ConnectReq) :
    (connectCore cfg b1 r).sess? r.cid = some (newSess cfg b1 r) :=
  sess?_setSess_same (endOld b1 r) (newSess cfg b1 r)

theorem core_cli (cfg : Cfg) (b1 : B) (r : ConnectReq) :
    (connectCore cfg b1 r).cli? r.conn = some (newCli cfg r) := by
  show (((endOld b1 r).setSess (newSess cfg b1 r)).setCli (newCli cfg r)).cli? r.conn = _
  rw [cli?_setCli]
  simp [newCli]

theorem core_subs (cfg : Cfg) (b1 : B) (r : ConnectReq) : (connectCore cfg b1 r).subs = (endOld b1 r).subs := rfl

theorem afterDisplace_outs (b : B) (cid : String) :
    Outs (fun o => (b.cli? o.conn).isSome = true ∧ o.poll = false ∧ isConnack o.pkt = false) b (afterDisplace b cid) := by
  unfold afterDisplace
  cases hc : b.cliOf? cid with
  | none => exact Outs.refl _ _
  | some old =>
    have hm := (cliOf?_some hc).1
    exact (kick_outs b old.conn (some 0x8E)).mono (fun o ho => ⟨by rw [ho.1]; exact cli?_isSome_of_mem hm, ho.2⟩)

theorem afterDisplace_cfg (b : B) (cid : String) : (afterDisplace b cid).cfg = b.cfg := by
  unfold afterDisplace
  cases b.cliOf? cid with
  | none => rfl
  | some old => exact (kick_frame b old.conn _).1

theorem find_connack (f : Pkt → Bool) (hf : ∀ p, f p = isConnack p) (conn : String) (l1 l2 : List Out) (x : Out)
    (h1 : ∀ o ∈ l1, isConnack o.pkt = false) (hx : x.conn = conn ∧ x.poll = false ∧ isConnack x.pkt = true) :
    (((l1 ++ x :: l2).filter (fun o => o.conn == conn && !o.poll)).map (·.pkt)).find? f = some x.pkt := by
  induction l1 with
  | nil =>
    have : (x.conn == conn && !x.poll) = true := by simp [hx.1, hx.2.1]
    simp [this, hf, hx.2.2]
  | cons y ys ih =>
    have hy : isConnack y.pkt = false := h1 y List.mem_cons_self
    have ih' := ih (fun o ho => h1 o (List.mem_cons_of_mem _ ho))
    rw [List.cons_append, List.filter_cons]
    split
    · rw [List.map_cons, List.find?_cons, hf, hy]; exact ih'
    · exact ih'

theorem connack_sp_iff (b : B) (r : ConnectReq) (_hfresh : b.cli? r.conn = none) :
    ∃ code props sp, connackOf b r = some (.connack sp code props) ∧ code = 0 ∧
      (sp = true ↔ (r.clean = false ∧ ((afterDisplace b r.cid).sess? r.cid).isSome = true ∧
                    deadlinePassed (afterDisplace b r.cid) r.cid = false)) := by
  refine ⟨0, (if r.v == 5 then some (seOf b.cfg r, b.cfg.recvMax, b.cfg.aliasMax, b.cfg.maxPacket, min r.ka b.cfg.maxKeepAlive) else none),
    resumeOf (afterDisplace b r.cid) r, ?_, rfl, resumeOf_iff _ _⟩
  obtain ⟨l1, e1, p1⟩ := afterDisplace_outs b r.cid
  obtain ⟨l2, e2, p2⟩ := (replay_run 100000 (connectCore b.cfg (afterDisplace b r.cid) r) r.conn).outs
  unfold connackOf
  rw [connect_eq, e2, core_out, e1]
  simp only [List.append_assoc, List.drop_left, List.singleton_append]
  exact find_connack _ (by intro p; cases p <;> rfl) r.conn l1 l2 _ (fun o ho => (p1 o ho).2.2) ⟨rfl, rfl, rfl⟩

theorem keysEq_refl (q : Queue.Q) : KeysEq q q := rfl
theorem keysEq_trans (q1 q2 q3 : Queue.Q) (h1 : KeysEq q1 q2) (h2 : KeysEq q2 q3) : KeysEq q1 q3 := by
  unfold KeysEq at *; rw [h2, h1]

/-- the session of the connecting client after `connect`: the new session record up to replay's queue cursor -/
theorem connect_sess (b : B) (r : ConnectReq) :
    ∃ s', (b.connect r).sess? r.cid = some s' ∧ SessRel KeysEq (newSess b.cfg (afterDisplace b r.cid) r) s' := by
  rw [connect_eq]
  exact (replay_run 100000 _ r.conn).sess keysEq_refl keysEq_trans r.cid _ (core_sess b.cfg _ r)

theorem connect_expiry (b : B) (r : ConnectReq) (s : Sess) (h : (b.connect r).sess? r.cid = some s) :
    s.expiry = (if r.v = 5 then (match r.se with | none => 0 | some i => min i b.cfg.sessExpiry)
                else if r.clean then 0 else b.cfg.sessExpiry) := by
  obtain ⟨s', hs', rel⟩ := connect_sess b r
  rw [hs'] at h
  cases h
  rw [rel.2.2.1]
  simp only [newSess, seOf]
  by_cases hv : r.v = 5
  · cases hse : r.se <;> simp [hv]
  · cases hcl : r.clean <;> simp [hv]

theorem unregSess_expiry (c : Cli) (s : Sess) :
    (unregSess c s false).expiry =
      (if c.v = 5 then (match c.discExpiry with | some (some x) => x | _ => s.expiry) else s.expiry) := by
  unfold unregSess
  by_cases hv : c.v = 5
  · simp only [hv, Bool.not_false, beq_self_eq_true, Bool.and_self, if_true]
    rcases c.discExpiry with _ | _ | x <;> rfl
  · simp [hv]

theorem unregSess_cid (c : Cli) (s : Sess) (f : Bool) : (unregSess c s f).cid = s.cid := by
  unfold unregSess
  split
  · split <;> rfl
  · rfl

theorem unregister_deadline (b : B) (conn : String) (c : Cli) (s : Sess)
    (hc : b.cli? conn = some c) (hs : b.sess? c.cid = some s) :
    let e := if c.v = 5 then (match c.discExpiry with | some (some x) => x | _ => s.expiry) else s.expiry
    let b' := b.unregister conn false
    (e ≠ 0 → (b'.offline.find? (fun (cd : String × Nat) => cd.1 == c.cid)) = some (c.cid, b.now + e * 1000) ∧ (b'.sess? c.cid).isSome = true) ∧
    (e = 0 → (b'.sess? c.cid) = none ∧ b'.offline.find? (fun (cd : String × Nat) => cd.1 == c.cid) = none
              ∧ ∀ cs ∈ b'.subs, cs.1 ≠ c.cid) := by
  intro e b'
  have he : (unregSess c s false).expiry = e := unregSess_expiry c s
  have hcid : s.cid = c.cid := (sess?_some hs).2
  have hb' : b' = b.unregister conn false := rfl
  rw [unregister_eq b conn false c hc, hs] at hb'
  simp only at hb'
  generalize hs2 : ({ unregSess c s false with queue := (unregSess c s false).queue.close } : Sess) = s2 at hb'
  have hs2e : s2.expiry = e := by rw [← hs2]; exact he
  have hs2c : s2.cid = c.cid := by rw [← hs2]; show (unregSess c s false).cid = _; rw [unregSess_cid, hcid]
  have g := grow_willStep ((b.dropCli conn).setSess s2) c s2 (!false && (unregSess c s false).expiry != 0)
  generalize willStep ((b.dropCli conn).setSess s2) c s2 (!false && (unregSess c s false).expiry != 0) = X at hb' g
  rw [he] at hb'
  refine ⟨fun hne => ?_, fun h0 => ?_⟩
  · have : (!false && e != 0) = true := by simpa using hne
    rw [if_pos this] at hb'
    rw [hb']
    refine ⟨?_, ?_⟩
    · simp only [List.find?_cons_of_pos, beq_self_eq_true, g.now]
      rfl
    · show (X.sess? c.cid).isSome = true
      apply g.sess
      rw [← hs2c, sess?_setSess_same]
      rfl
  · have : ¬ (!false && e != 0) = true := by simp [h0]
    rw [if_neg this] at hb'
    rw [hb']
    refine ⟨sess?_terminateS_self X c.cid, ?_, ?_⟩
    · rw [terminateS_offline]
      exact find?_filter_self (fun (cd : String × Nat) => cd.1) c.cid X.offline
    · intro cs hcs
      rw [terminateS_subs] at hcs
      have := (List.mem_filter.1 hcs).2
      simpa using this

theorem afterDisplace_def (b : B) (cid : String) :
    afterDisplace b cid = b ∨ ∃ old, b.cliOf? cid = some old ∧ afterDisplace b cid = b.kick old.conn (some 0x8E) := by
  unfold afterDisplace
  cases b.cliOf? cid with
  | none => exact .inl rfl
  | some old => exact .inr ⟨old, rfl, rfl⟩

theorem qkeys_restamp (q : Queue.Q) (f : Queue.Elem → Nat) :
    qkeys { q with rest := q.rest.map (fun e => if e.pub then { e with size := f e } else e) } = qkeys q := by
  simp only [qkeys, Queue.Q.items, List.map_append, List.map_map]
  congr 1
  apply List.map_congr_left
  intro e _
  simp only [Function.comp]
  split <;> rfl

theorem newSess_resume (cfg : Cfg) (b1 : B) (r : ConnectReq) (s0 : Sess) (hs : b1.sess? r.cid = some s0)
    (hres : resumeOf b1 r = true) :
    (newSess cfg b1 r).unack = s0.unack ∧ qkeys (newSess cfg b1 r).queue = qkeys s0.queue := by
  refine ⟨by simp [newSess, hs, hres], ?_⟩
  show qkeys (newQueue cfg b1 r) = _
  unfold newQueue
  simp only [hs, hres, if_true]
  rw [qkeys_restamp _ (fun e => totalBytes r.v ((endOld b1 r).msgOf e.tag)), init_keys]

theorem connect_resume_keeps (b : B) (r : ConnectReq) (_hfresh : b.cli? r.conn = none) (s0 : Sess)
    (hs : (afterDisplace b r.cid).sess? r.cid = some s0)
    (hres : r.clean = false ∧ deadlinePassed (afterDisplace b r.cid) r.cid = false) :
    let b0 := afterDisplace b r.cid
    let b' := { (b.connect r) with out := [] }
    b'.subs = b0.subs ∧
    ∃ s', b'.sess? r.cid = some s' ∧ s'.unack = s0.unack ∧
      s'.queue.items.map (fun e => (e.tag, e.pub, e.id, e.qos)) = s0.queue.items.map (fun e => (e.tag, e.pub, e.id, e.qos)) := by
  intro b0 b'
  have hr : resumeOf b0 r = true := (resumeOf_iff b0 r).2 ⟨hres.1, by rw [hs]; rfl, hres.2⟩
  obtain ⟨hu, hk⟩ := newSess_resume b.cfg b0 r s0 hs hr
  obtain ⟨s', hs', rel⟩ := connect_sess b r
  refine ⟨?_, s', hs', rel.2.1.trans hu, ?_⟩
  · show (b.connect r).subs = b0.subs
    rw [connect_eq, (replay_run 100000 _ r.conn).frame.subs, core_subs]
    rcases endOld_spec b0 r with ⟨g, _⟩ | ⟨_, h, _⟩
    · exact g.subs
    · rw [hr] at h; cases h
  · exact rel.2.2.2.trans hk

/-- subscriptions belong to stored sessions (part of the invariant `WF`) -/
def SubsOK (b : B) : Prop := ∀ cs ∈ b.subs, (b.sess? cs.1).isSome = true

theorem SubsOK.grow {b b' : B} (h : SubsOK b) (g : Grow b b') : SubsOK b' := by
  intro cs hcs; rw [g.subs] at hcs; exact g.sess _ (h cs hcs)

theorem SubsOK.terminate {b : B} (h : SubsOK b) (cid : String) : SubsOK (b.terminate cid) := by
  intro cs hcs
  have hcs' := List.mem_filter.1 hcs
  have hne : cid ≠ cs.1 := by
    intro e; have := hcs'.2; simp [e] at this
  rw [sess?_terminate_ne b cid cs.1 hne]
  exact h cs hcs'.1

theorem SubsOK.terminateS {b : B} (h : SubsOK b) (cid : String) : SubsOK (b.terminateS cid) :=
  (h.terminate cid).grow (grow_terminateS b cid)

theorem SubsOK.unregister {b : B} (h : SubsOK b) (conn : String) (force : Bool) : SubsOK (b.unregister conn force) := by
  cases hc : b.cli? conn with
  | none => rw [unregister_none b conn force hc]; exact h
  | some c =>
    have h1 : SubsOK (b.dropCli conn) := h
    rw [unregister_eq b conn force c hc]
    split
    · exact h1.terminateS _
    · simp only
      have g := grow_willStep ((b.dropCli conn).setSess
        { unregSess c ‹Sess› force with queue := (unregSess c ‹Sess› force).queue.close }) c
        { unregSess c ‹Sess› force with queue := (unregSess c ‹Sess› force).queue.close }
        (!force && (unregSess c ‹Sess› force).expiry != 0)
      have h2 := (h1.grow (grow_setSess _ _)).grow g
      split
      · exact h2
      · exact h2.terminateS _

theorem SubsOK.afterDisplace {b : B} (h : SubsOK b) (cid : String) : SubsOK (afterDisplace b cid) := by
  rcases afterDisplace_def b cid with e | ⟨old, _, e⟩
  · rw [e]; exact h
  · rw [e]
    obtain ⟨o, ho⟩ := kick_eq b old.conn (some 0x8E)
    rw [ho]
    exact SubsOK.unregister (b := { b with out := o }) h _ _

theorem newSess_fresh (cfg : Cfg) (b1 : B) (r : ConnectReq) (hres : resumeOf b1 r = false) :
    (newSess cfg b1 r).unack = [] ∧ qkeys (newSess cfg b1 r).queue = [] := by
  refine ⟨?_, ?_⟩
  · simp only [newSess, hres]
    cases b1.sess? r.cid <;> simp
  · show qkeys (newQueue cfg b1 r) = _
    unfold newQueue
    simp only [hres]
    cases b1.sess? r.cid <;> simp [qkeys, Queue.Q.init, Queue.Q.items]

theorem connect_fresh_empty (b : B) (r : ConnectReq) (_hfresh : b.cli? r.conn = none)
    (hsubs : ∀ cs ∈ b.subs, (b.sess? cs.1).isSome = true)
    (hnot : ¬ (r.clean = false ∧ ((afterDisplace b r.cid).sess? r.cid).isSome = true ∧
               deadlinePassed (afterDisplace b r.cid) r.cid = false)) :
    let b' := b.connect r
    (∀ cs ∈ b'.subs, cs.1 ≠ r.cid) ∧
    ∃ s', b'.sess? r.cid = some s' ∧ s'.unack = [] ∧ s'.queue.items = [] := by
  intro b'
  have hr : resumeOf (afterDisplace b r.cid) r = false := by
    rw [← Bool.not_eq_true, resumeOf_iff]; exact hnot
  obtain ⟨hu, hk⟩ := newSess_fresh b.cfg (afterDisplace b r.cid) r hr
  obtain ⟨s', hs', rel⟩ := connect_sess b r
  refine ⟨?_, s', hs', rel.2.1.trans hu, ?_⟩
  · have h0 : SubsOK (afterDisplace b r.cid) := SubsOK.afterDisplace hsubs r.cid
    show ∀ cs ∈ (b.connect r).subs, cs.1 ≠ r.cid
    rw [connect_eq, (replay_run 100000 _ r.conn).frame.subs, core_subs]
    intro cs hcs hc
    rcases endOld_spec (afterDisplace b r.cid) r with ⟨g, h | h⟩ | ⟨g, _, _⟩
    · rw [hr] at h; cases h
    · rw [g.subs] at hcs
      have := h0 cs hcs
      rw [hc, h] at this
      cases this
    · rw [g.subs] at hcs
      have := (List.mem_filter.1 hcs).2
      simp [hc] at this
  · have : qkeys s'.queue = [] := rel.2.2.2.trans hk
    simpa [qkeys] using this

theorem WF.afterDisplace {b : B} (h : WF b) (cid : String) : WF (afterDisplace b cid) := by
  rcases afterDisplace_def b cid with e | ⟨old, _, e⟩
  · rw [e]; exact h
  · rw [e]; exact h.kick _ _

theorem afterDisplace_clis (b : B) (cid : String) : ∀ x ∈ (afterDisplace b cid).clis, x ∈ b.clis := by
  rcases afterDisplace_def b cid with e | ⟨old, _, e⟩
  · rw [e]; exact fun _ h => h
  · rw [e, (kick_frame b old.conn _).2.2]
    exact fun x hx => (List.mem_filter.1 hx).1

/-- after the displacement nobody with this client id is online -/
theorem afterDisplace_nocid {b : B} (h : WF b) (cid : String) : ∀ x ∈ (afterDisplace b cid).clis, x.cid ≠ cid := by
  unfold afterDisplace
  cases hc : b.cliOf? cid with
  | none =>
    intro x hx hxc
    unfold B.cliOf? at hc
    rw [List.find?_eq_none] at hc
    exact hc x hx (by simpa using hxc)
  | some old =>
    obtain ⟨hm, hcid⟩ := cliOf?_some hc
    simp only
    rw [(kick_frame b old.conn _).2.2]
    intro x hx hxc
    have hx' := List.mem_filter.1 hx
    have : x = old := h.cid_inj hx'.1 hm (by rw [hxc, hcid])
    rw [this] at hx'
    simp at hx'

/-- registering a new connection whose name and client id are not online -/
theorem WF.addCli {b : B} (h : WF b) (c : Cli) (hcid : ∀ x ∈ b.clis, x.cid ≠ c.cid) (hconn : ∀ x ∈ b.clis, x.conn ≠ c.conn)
    (hs : (b.sess? c.cid).isSome = true) :
    WF { (b.setCli c) with offline := b.offline.filter (·.1 != c.cid) } := by
  have hsub : (b.clis.filter (·.conn != c.conn)).Sublist b.clis := List.filter_sublist
  refine ⟨?_, ?_, ?_, ?_, h.subsess⟩
  · show ((c :: b.clis.filter (·.conn != c.conn)).map (·.cid)).Nodup
    rw [List.map_cons, List.nodup_cons]
    refine ⟨?_, h.cids.sublist (hsub.map _)⟩
    intro hmem
    obtain ⟨x, hx, hxc⟩ := List.mem_map.1 hmem
    exact hcid x (hsub.subset hx) hxc
  · show ((c :: b.clis.filter (·.conn != c.conn)).map (·.conn)).Nodup
    rw [List.map_cons, List.nodup_cons]
    refine ⟨?_, h.conns.sublist (hsub.map _)⟩
    intro hmem
    obtain ⟨x, hx, hxc⟩ := List.mem_map.1 hmem
    exact hconn x (hsub.subset hx) hxc
  · intro x hx
    rcases List.mem_cons.1 hx with rfl | hx
    · exact hs
    · exact h.online x (hsub.subset hx)
  · intro cd hcd x hx
    have hcd' := List.mem_filter.1 hcd
    rcases List.mem_cons.1 hx with rfl | hx
    · intro e; have := hcd'.2; simp [e] at this
    · exact h.offl cd hcd'.1 x (hsub.subset hx)

theorem core_wf {b1 : B} (cfg : Cfg) (r : ConnectReq) (h : WF b1) (hcid : ∀ x ∈ b1.clis, x.cid ≠ r.cid)
    (hconn : ∀ x ∈ b1.clis, x.conn ≠ r.conn) : WF (connectCore cfg b1 r) := by
  have h2 : WF ((endOld b1 r).setSess (newSess cfg b1 r)) := (endOld_wf r h hcid).setSess _
  have hcl : ((endOld b1 r).setSess (newSess cfg b1 r)).clis = b1.clis := endOld_clis b1 r
  have := h2.addCli (newCli cfg r) (by rw [hcl]; exact hcid) (by rw [hcl]; exact hconn)
    (by show (((endOld b1 r).setSess (newSess cfg b1 r)).sess? r.cid).isSome = true
        rw [show r.cid = (newSess cfg b1 r).cid from rfl, sess?_setSess_same]; rfl)
  exact this.emit _ _ _

theorem wf_connect {b : B} (h : WF b) (r : ConnectReq) (hfresh : b.cli? r.conn = none) : WF (b.connect r) := by
  rw [connect_eq]
  refine (replay_run 100000 _ r.conn).wf (core_wf b.cfg r (h.afterDisplace r.cid) (afterDisplace_nocid h r.cid) ?_)
  intro x hx hxc
  have hm := afterDisplace_clis b r.cid x hx
  unfold B.cli? at hfresh
  rw [List.find?_eq_none] at hfresh
  exact hfresh x hm (by simpa using hxc)

theorem outs_connect (b : B) (r : ConnectReq) :
    Outs (fun o => (b.cli? o.conn).isSome = true ∨ o.conn = r.conn) b (b.connect r) := by
  rw [connect_eq]
  refine ((afterDisplace_outs b r.cid).mono (fun o ho => .inl ho.1)).trans (Outs.trans (b := connectCore b.cfg (afterDisplace b r.cid) r) ?_ ?_)
  · exact ⟨[_], core_out _ _ _, by intro o ho; rw [List.mem_singleton] at ho; rw [ho]; exact .inr rfl⟩
  · exact (replay_run 100000 _ r.conn).outs.mono (fun o ho => .inr ho.1)

/-- every wire step preserves the invariant and writes only to online connections (or the one it creates) -/
theorem ok_step (b : B) (st : Step) :
    Ok (fun o => (b.cli? o.conn).isSome = true ∨ (∃ r, st = .connect r ∧ o.conn = r.conn)) b (stepB b st) := by
  cases st with
  | connect r =>
    simp only [stepB]
    cases hc : b.cli? r.conn with
    | some c => exact Ok.refl _ _
    | none =>
      simp only [Option.isSome_none, Bool.false_eq_true, if_false]
      exact ⟨(outs_connect b r).mono (fun o ho => ho.elim .inl (fun h => .inr ⟨r, rfl, h⟩)), fun hw => wf_connect hw r hc⟩
  | subscribe c p t i => exact (ok_subscribe b c p t i).mono (fun _ h => .inl h)
  | unsubscribe c p t => exact (ok_unsubscribe b c p t).mono (fun _ h => .inl h)
  | publish r => exact (ok_publish b r).mono (fun _ h => .inl h)
  | pubrel c p => exact (ok_pubrelIn b c p).mono (fun _ h => .inl h)
  | ack c i => exact ok_ackOut b c i
  | pubrec c i k => exact (ok_pubrecOut b c i k).mono (fun _ h => .inl h)
  | disconnect c se code => exact ok_disconnectIn b c se code
  | close c => exact (ok_closeIn b c).mono (fun _ h => .inl h)
  | apiPublish m => exact ok_apiPublish b m
  | apiTerminate cid => exact (ok_apiTerminate b cid).mono (fun _ h => .inl h)
  | apiExpire => exact ok_apiExpire b
  | apiBackdate cid s => exact ok_apiBackdate b cid s
  | sleep ms => exact ok_sleep b ms
  | pump => exact (ok_pumpAll b).mono (fun _ h => .inl h)

theorem wf_step {b : B} (h : WF b) (st : Step) : WF (stepB b st) := (ok_step b st).wf h

theorem wf_run {b : B} (h : WF b) (steps : List Step) : WF (runB b steps) := by
  induction steps generalizing b with
  | nil => exact h
  | cons s ss ih => exact ih (wf_step h s)

/-- every state reachable from the empty broker is well-formed -/
theorem reachable_wf (cfg : Cfg) (steps : List Step) : WF (runB { cfg := cfg } steps) := wf_run (wf_empty cfg) steps

theorem run_clis_nodup (cfg : Cfg) (steps : List Step) :
    ((runB { cfg := cfg } steps).clis.map (·.cid)).Nodup ∧ ((runB { cfg := cfg } steps).clis.map (·.conn)).Nodup :=
  ⟨(reachable_wf cfg steps).cids, (reachable_wf cfg steps).conns⟩

theorem step_writes_online (b : B) (st : Step) (o : Out) (ho : o ∈ (stepB b st).out.drop b.out.length) :
    (b.cli? o.conn).isSome = true ∨ (∃ r, st = .connect r ∧ o.conn = r.conn) :=
  (ok_step b st).outs.mem_drop ho

end GmqttVerif.Broker
