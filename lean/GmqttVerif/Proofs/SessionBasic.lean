import GmqttVerif.Model.Broker
import GmqttVerif.Proofs.Queue
import GmqttVerif.Proofs.Deliver
/-
  Helper lemmas for C05, sequential part: lookups in the association lists of the broker model, the frame relation
  `Grow`, the output relation `Outs`, the well-formedness invariant `WF`, and the poll loops (`replay`, `pump`).
-/
namespace GmqttVerif.Broker
open GmqttVerif.Deliver

/-! ### association lists -/

theorem find?_filter_ne {α : Type} (k : α → String) (a c : String) (h : a ≠ c) (l : List α) :
    (l.filter (fun x => k x != a)).find? (fun x => k x == c) = l.find? (fun x => k x == c) := by
  induction l with
  | nil => rfl
  | cons x xs ih =>
    by_cases hx : k x = a
    · have h1 : (k x != a) = false := by simp [hx]
      have h2 : (k x == c) = false := by simp [hx, h]
      rw [List.filter_cons, List.find?_cons]
      simp only [h1, h2, Bool.false_eq_true, if_false]
      exact ih
    · have h1 : (k x != a) = true := by simp [hx]
      rw [List.filter_cons]
      simp only [h1, if_true, List.find?_cons, ih]

theorem find?_filter_self {α : Type} (k : α → String) (a : String) (l : List α) :
    (l.filter (fun x => k x != a)).find? (fun x => k x == a) = none := by
  simp only [List.find?_eq_none, List.mem_filter]
  intro x hx
  simpa using hx.2

theorem sess?_setSess (b : B) (s : Sess) (cid : String) :
    (b.setSess s).sess? cid = if s.cid = cid then some s else b.sess? cid := by
  unfold B.sess? B.setSess
  by_cases h : s.cid = cid
  · simp [h]
  · have h' : (s.cid == cid) = false := by simpa using h
    simp only [List.find?_cons, h', h, if_false]
    exact find?_filter_ne (fun (s : Sess) => s.cid) s.cid cid h b.sessions

theorem sess?_setSess_same (b : B) (s : Sess) : (b.setSess s).sess? s.cid = some s := by
  simp [sess?_setSess]

theorem cli?_setCli (b : B) (c : Cli) (conn : String) :
    (b.setCli c).cli? conn = if c.conn = conn then some c else b.cli? conn := by
  unfold B.cli? B.setCli
  by_cases h : c.conn = conn
  · simp [h]
  · have h' : (c.conn == conn) = false := by simpa using h
    simp only [List.find?_cons, h', h, if_false]
    exact find?_filter_ne (fun (s : Cli) => s.conn) c.conn conn h b.clis

theorem cli?_some {b : B} {conn : String} {c : Cli} (h : b.cli? conn = some c) : c ∈ b.clis ∧ c.conn = conn := by
  unfold B.cli? at h
  exact ⟨List.mem_of_find?_eq_some h, by simpa using List.find?_some h⟩

theorem cliOf?_some {b : B} {cid : String} {c : Cli} (h : b.cliOf? cid = some c) : c ∈ b.clis ∧ c.cid = cid := by
  unfold B.cliOf? at h
  exact ⟨List.mem_of_find?_eq_some h, by simpa using List.find?_some h⟩

theorem cli?_isSome_of_mem {b : B} {c : Cli} (h : c ∈ b.clis) : (b.cli? c.conn).isSome = true := by
  unfold B.cli?
  rw [List.find?_isSome]
  exact ⟨c, h, by simp⟩

theorem sess?_isSome_iff (b : B) (cid : String) : (b.sess? cid).isSome = true ↔ ∃ s ∈ b.sessions, s.cid = cid := by
  unfold B.sess?
  rw [List.find?_isSome]
  simp

theorem sess?_eq_none_iff (b : B) (cid : String) : b.sess? cid = none ↔ ∀ s ∈ b.sessions, s.cid ≠ cid := by
  unfold B.sess?
  simp

/-! ### `Grow`: internal bookkeeping that leaves connections, deadlines, subscriptions and output alone -/

structure Grow (b b' : B) : Prop where
  cfg : b'.cfg = b.cfg
  now : b'.now = b.now
  clis : b'.clis = b.clis
  offline : b'.offline = b.offline
  subs : b'.subs = b.subs
  out : b'.out = b.out
  sess : ∀ cid, (b.sess? cid).isSome = true → (b'.sess? cid).isSome = true

theorem Grow.refl (b : B) : Grow b b := ⟨rfl, rfl, rfl, rfl, rfl, rfl, fun _ h => h⟩

theorem Grow.trans {a b c : B} (h1 : Grow a b) (h2 : Grow b c) : Grow a c :=
  ⟨h2.cfg.trans h1.cfg, h2.now.trans h1.now, h2.clis.trans h1.clis, h2.offline.trans h1.offline,
   h2.subs.trans h1.subs, h2.out.trans h1.out, fun cid h => h2.sess cid (h1.sess cid h)⟩

theorem grow_setSess (b : B) (s : Sess) : Grow b (b.setSess s) := by
  refine ⟨rfl, rfl, rfl, rfl, rfl, rfl, fun cid h => ?_⟩
  rw [sess?_setSess]
  split
  · rfl
  · exact h

theorem grow_msgs (b : B) (m : List Msg) : Grow b { b with msgs := m } := ⟨rfl, rfl, rfl, rfl, rfl, rfl, fun _ h => h⟩
theorem grow_msgs_ats (b : B) (m : List Msg) (a : List Nat) : Grow b { b with msgs := m, ats := a } :=
  ⟨rfl, rfl, rfl, rfl, rfl, rfl, fun _ h => h⟩
theorem grow_retained (b : B) (m : List (String × Msg)) : Grow b { b with retained := m } :=
  ⟨rfl, rfl, rfl, rfl, rfl, rfl, fun _ h => h⟩
theorem grow_pendingWills (b : B) (m : List (String × Msg × Nat)) : Grow b { b with pendingWills := m } :=
  ⟨rfl, rfl, rfl, rfl, rfl, rfl, fun _ h => h⟩
theorem grow_dropWill (b : B) (cid : String) : Grow b (b.dropWill cid) := grow_pendingWills b _

theorem grow_enqueue (b : B) (cid : String) (q : Nat) (m : Msg) : Grow b (b.enqueue cid q m) := by
  unfold B.enqueue
  split
  · exact Grow.refl b
  · split
    · exact Grow.refl b
    · exact (grow_setSess b _).trans (grow_msgs_ats _ _ _)

theorem grow_foldl {α : Type} (f : B → α → B) (hf : ∀ b a, Grow b (f b a)) (l : List α) (b : B) :
    Grow b (l.foldl f b) := by
  induction l generalizing b with
  | nil => exact Grow.refl b
  | cons x xs ih => exact (hf b x).trans (ih _)

theorem grow_deliverMsg (b : B) (src : String) (m : Msg) (hints : List Nat) (rap : List String) :
    Grow b (b.deliverMsg src m hints rap).1 := by
  simp only [B.deliverMsg]
  exact grow_foldl _ (fun b a => grow_enqueue b _ _ _) _ _

theorem grow_sendWill (b : B) (cid : String) (m : Msg) : Grow b (b.sendWill cid m) := by
  unfold B.sendWill
  split
  · split
    · exact (grow_retained b _).trans (grow_deliverMsg _ cid m [] [])
    · exact (grow_retained b _).trans (grow_deliverMsg _ cid m [] [])
  · exact grow_deliverMsg b cid m [] []

/-! ### `Outs`: what a step appends to the output -/

def Outs (P : Out → Prop) (b b' : B) : Prop := ∃ l, b'.out = b.out ++ l ∧ ∀ o ∈ l, P o

theorem Outs.refl (P : Out → Prop) (b : B) : Outs P b b := ⟨[], by simp, by simp⟩

theorem Outs.of_eq {P : Out → Prop} {b b' : B} (h : b'.out = b.out) : Outs P b b' := ⟨[], by simp [h], by simp⟩

theorem Outs.trans {P : Out → Prop} {a b c : B} (h1 : Outs P a b) (h2 : Outs P b c) : Outs P a c := by
  obtain ⟨l1, e1, p1⟩ := h1
  obtain ⟨l2, e2, p2⟩ := h2
  refine ⟨l1 ++ l2, by rw [e2, e1, List.append_assoc], ?_⟩
  intro o ho
  rcases List.mem_append.1 ho with h | h
  · exact p1 o h
  · exact p2 o h

theorem Outs.mono {P Q : Out → Prop} {b b' : B} (hPQ : ∀ o, P o → Q o) (h : Outs P b b') : Outs Q b b' := by
  obtain ⟨l, e, p⟩ := h
  exact ⟨l, e, fun o ho => hPQ o (p o ho)⟩

theorem outs_emit {P : Out → Prop} (b : B) (conn : String) (poll : Bool) (p : Pkt)
    (h : P { conn := conn, poll := poll, pkt := p }) : Outs P b (b.emit conn poll p) :=
  ⟨[{ conn := conn, poll := poll, pkt := p }], rfl, by simpa using h⟩

theorem Outs.of_grow {P : Out → Prop} {b b' : B} (h : Grow b b') : Outs P b b' := Outs.of_eq h.out

theorem outs_foldl {α : Type} {P : Out → Prop} (f : B → α → B) (hf : ∀ b a, Outs P b (f b a)) (l : List α) (b : B) :
    Outs P b (l.foldl f b) := by
  induction l generalizing b with
  | nil => exact Outs.refl P b
  | cons x xs ih => exact (hf b x).trans (ih _)

theorem Outs.mem_drop {P : Out → Prop} {b b' : B} (h : Outs P b b') {o : Out} (ho : o ∈ b'.out.drop b.out.length) :
    P o := by
  obtain ⟨l, e, p⟩ := h
  rw [e, List.drop_left] at ho
  exact p o ho

/-! ### the well-formedness invariant of reachable broker states -/

structure WF (b : B) : Prop where
  /-- at most one connection per client id -/
  cids : (b.clis.map (·.cid)).Nodup
  /-- connection names are unique -/
  conns : (b.clis.map (·.conn)).Nodup
  /-- an online client has a session -/
  online : ∀ c ∈ b.clis, (b.sess? c.cid).isSome = true
  /-- an expiry deadline is kept only for ids that are not online -/
  offl : ∀ cd ∈ b.offline, ∀ c ∈ b.clis, c.cid ≠ cd.1
  /-- subscriptions belong to stored sessions -/
  subsess : ∀ cs ∈ b.subs, (b.sess? cs.1).isSome = true

theorem wf_empty (cfg : Cfg) : WF { cfg := cfg } :=
  ⟨by simp, by simp, by simp, by simp, by simp⟩

theorem WF.grow {b b' : B} (h : WF b) (g : Grow b b') : WF b' := by
  refine ⟨by rw [g.clis]; exact h.cids, by rw [g.clis]; exact h.conns, ?_, ?_, ?_⟩
  · intro c hc; rw [g.clis] at hc; exact g.sess _ (h.online c hc)
  · intro cd hcd c hc; rw [g.clis] at hc; rw [g.offline] at hcd; exact h.offl cd hcd c hc
  · intro cs hcs; rw [g.subs] at hcs; exact g.sess _ (h.subsess cs hcs)

theorem WF.emit {b : B} (h : WF b) (conn : String) (poll : Bool) (p : Pkt) : WF (b.emit conn poll p) :=
  ⟨h.cids, h.conns, h.online, h.offl, h.subsess⟩

theorem WF.setOut {b : B} (h : WF b) (o : List Out) : WF { b with out := o } :=
  ⟨h.cids, h.conns, h.online, h.offl, h.subsess⟩

theorem WF.setSess {b : B} (h : WF b) (s : Sess) : WF (b.setSess s) := h.grow (grow_setSess b s)

/-- two online clients with the same id are the same -/
theorem WF.cid_inj {b : B} (h : WF b) {x y : Cli} (hx : x ∈ b.clis) (hy : y ∈ b.clis) (hxy : x.cid = y.cid) : x = y := by
  have := h.cids
  generalize b.clis = l at hx hy this
  induction l with
  | nil => cases hx
  | cons a l ih =>
    simp only [List.map_cons, List.nodup_cons, List.mem_map, not_exists, not_and] at this
    rcases List.mem_cons.1 hx with rfl | hx' <;> rcases List.mem_cons.1 hy with rfl | hy'
    · rfl
    · exact absurd hxy.symm (this.1 y hy')
    · exact absurd hxy (this.1 x hx')
    · exact ih hx' hy' this.2

theorem WF.conn_inj {b : B} (h : WF b) {x y : Cli} (hx : x ∈ b.clis) (hy : y ∈ b.clis) (hxy : x.conn = y.conn) : x = y := by
  have := h.conns
  generalize b.clis = l at hx hy this
  induction l with
  | nil => cases hx
  | cons a l ih =>
    simp only [List.map_cons, List.nodup_cons, List.mem_map, not_exists, not_and] at this
    rcases List.mem_cons.1 hx with rfl | hx' <;> rcases List.mem_cons.1 hy with rfl | hy'
    · rfl
    · exact absurd hxy.symm (this.1 y hy')
    · exact absurd hxy (this.1 x hx')
    · exact ih hx' hy' this.2

/-- replacing the record of an online connection (same name, same client id) -/
theorem WF.setCli {b : B} (h : WF b) {c c0 : Cli} (h0 : b.cli? c.conn = some c0) (hcid : c0.cid = c.cid) :
    WF (b.setCli c) := by
  obtain ⟨hm0, hconn0⟩ := cli?_some h0
  have hsub : (b.clis.filter (·.conn != c.conn)).Sublist b.clis := List.filter_sublist
  refine ⟨?_, ?_, ?_, ?_, h.subsess⟩
  · show ((c :: b.clis.filter (·.conn != c.conn)).map (·.cid)).Nodup
    rw [List.map_cons, List.nodup_cons]
    refine ⟨?_, h.cids.sublist (hsub.map _)⟩
    intro hmem
    obtain ⟨x, hx, hxc⟩ := List.mem_map.1 hmem
    rw [List.mem_filter] at hx
    have : x = c0 := h.cid_inj hx.1 hm0 (by rw [hxc, hcid])
    rw [this, hconn0] at hx
    simp at hx
  · show ((c :: b.clis.filter (·.conn != c.conn)).map (·.conn)).Nodup
    rw [List.map_cons, List.nodup_cons]
    refine ⟨?_, h.conns.sublist (hsub.map _)⟩
    intro hmem
    obtain ⟨x, hx, hxc⟩ := List.mem_map.1 hmem
    rw [List.mem_filter] at hx
    simp [hxc] at hx
  · intro x hx
    rcases List.mem_cons.1 hx with rfl | hx
    · rw [← hcid]; exact h.online c0 hm0
    · exact h.online x (List.mem_filter.1 hx).1
  · intro cd hcd x hx
    rcases List.mem_cons.1 hx with rfl | hx
    · rw [← hcid]; exact h.offl cd hcd c0 hm0
    · exact h.offl cd hcd x (List.mem_filter.1 hx).1

theorem WF.dropCli {b : B} (h : WF b) (conn : String) : WF (b.dropCli conn) := by
  have hsub : (b.clis.filter (·.conn != conn)).Sublist b.clis := List.filter_sublist
  exact ⟨h.cids.sublist (hsub.map _), h.conns.sublist (hsub.map _),
    fun x hx => h.online x (hsub.subset hx), fun cd hcd x hx => h.offl cd hcd x (hsub.subset hx), h.subsess⟩

/-- after dropping the connection of `c`, nobody with its client id is online -/
theorem WF.dropCli_nocid {b : B} (h : WF b) {conn : String} {c : Cli} (hc : b.cli? conn = some c) :
    ∀ x ∈ (b.dropCli conn).clis, x.cid ≠ c.cid := by
  obtain ⟨hm, hconn⟩ := cli?_some hc
  intro x hx hxc
  have hx' := List.mem_filter.1 hx
  have : x = c := h.cid_inj hx'.1 hm hxc
  rw [this, hconn] at hx'
  simp at hx'

theorem sess?_terminate_ne (b : B) (cid c : String) (h : cid ≠ c) : (b.terminate cid).sess? c = b.sess? c :=
  find?_filter_ne (fun (s : Sess) => s.cid) cid c h b.sessions

theorem sess?_terminate_self (b : B) (cid : String) : (b.terminate cid).sess? cid = none :=
  find?_filter_self (fun (s : Sess) => s.cid) cid b.sessions

/-- ending the session of an id that is not online -/
theorem WF.terminate {b : B} (h : WF b) (cid : String) (hno : ∀ x ∈ b.clis, x.cid ≠ cid) : WF (b.terminate cid) := by
  refine ⟨h.cids, h.conns, ?_, ?_, ?_⟩
  · intro x hx
    rw [sess?_terminate_ne b cid x.cid (fun e => hno x hx e.symm)]
    exact h.online x hx
  · intro cd hcd x hx
    exact h.offl cd (List.mem_filter.1 hcd).1 x hx
  · intro cs hcs
    have hcs' := List.mem_filter.1 hcs
    have hne : cid ≠ cs.1 := by
      intro e; have := hcs'.2; simp [e] at this
    rw [sess?_terminate_ne b cid cs.1 hne]
    exact h.subsess cs hcs'.1

/-- `terminateS` is `terminate` followed by internal bookkeeping (the pending will is dropped and published) -/
theorem grow_terminateS (b : B) (cid : String) : Grow (b.terminate cid) (b.terminateS cid) := by
  unfold B.terminateS
  split
  · exact (grow_dropWill _ cid).trans (grow_sendWill _ cid _)
  · exact Grow.refl _

/-! publishing (a will) creates no session -/

theorem enqueue_sess_none (b : B) (cid' : String) (q : Nat) (m : Msg) (cid : String) (h : b.sess? cid = none) :
    (b.enqueue cid' q m).sess? cid = none := by
  unfold B.enqueue
  split
  · exact h
  · next s hs =>
    split
    · exact h
    · have hcid := (sess?_some hs).2
      show (b.setSess _).sess? cid = none
      rw [sess?_setSess]
      have : ¬ cid' = cid := by
        intro e; rw [e, h] at hs; cases hs
      simp only [hcid, this, if_false, h]

theorem deliverMsg_sess_none (b : B) (src : String) (m : Msg) (hints : List Nat) (rap : List String) (cid : String)
    (h : b.sess? cid = none) : (b.deliverMsg src m hints rap).1.sess? cid = none := by
  simp only [B.deliverMsg]
  generalize (deliver b.cfg.onlyOnce src (orderTable rap b.subs) m (pickBy hints)).2 = enqs
  induction enqs generalizing b with
  | nil => exact h
  | cons x xs ih => exact ih _ (enqueue_sess_none b _ _ _ cid h)

theorem sendWill_sess_none (b : B) (c : String) (m : Msg) (cid : String) (h : b.sess? cid = none) :
    (b.sendWill c m).sess? cid = none := by
  unfold B.sendWill
  split
  · split <;> exact deliverMsg_sess_none _ _ _ _ _ cid h
  · exact deliverMsg_sess_none _ _ _ _ _ cid h

theorem sess?_terminateS_self (b : B) (cid : String) : (b.terminateS cid).sess? cid = none := by
  unfold B.terminateS
  split
  · exact sendWill_sess_none _ _ _ _ (sess?_terminate_self b cid)
  · exact sess?_terminate_self b cid

theorem terminateS_offline (b : B) (cid : String) : (b.terminateS cid).offline = b.offline.filter (·.1 != cid) :=
  (grow_terminateS b cid).offline
theorem terminateS_subs (b : B) (cid : String) : (b.terminateS cid).subs = b.subs.filter (·.1 != cid) :=
  (grow_terminateS b cid).subs

theorem WF.terminateS {b : B} (h : WF b) (cid : String) (hno : ∀ x ∈ b.clis, x.cid ≠ cid) : WF (b.terminateS cid) :=
  (h.terminate cid hno).grow (grow_terminateS b cid)

theorem terminateS_out (b : B) (cid : String) : (b.terminateS cid).out = b.out := (grow_terminateS b cid).out
theorem terminateS_cfg (b : B) (cid : String) : (b.terminateS cid).cfg = b.cfg := (grow_terminateS b cid).cfg
theorem terminateS_now (b : B) (cid : String) : (b.terminateS cid).now = b.now := (grow_terminateS b cid).now
theorem terminateS_clis (b : B) (cid : String) : (b.terminateS cid).clis = b.clis := (grow_terminateS b cid).clis

theorem WF.setOffline {b : B} (h : WF b) (cid : String) (d : Nat) (hno : ∀ x ∈ b.clis, x.cid ≠ cid) :
    WF { b with offline := (cid, d) :: b.offline.filter (·.1 != cid) } := by
  refine ⟨h.cids, h.conns, h.online, ?_, h.subsess⟩
  intro cd hcd x hx
  rcases List.mem_cons.1 hcd with rfl | hcd
  · exact hno x hx
  · exact h.offl cd (List.mem_filter.1 hcd).1 x hx

end GmqttVerif.Broker
