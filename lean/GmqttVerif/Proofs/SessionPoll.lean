import GmqttVerif.Proofs.SessionBasic
/-
  Helper lemmas for C05: the poll loops (`replay`, `pump`, `pumpAll`) as runs of three primitive steps, and
  `unregister` / `kick`.
-/
namespace GmqttVerif.Broker
open GmqttVerif.Deliver

/-! ### poll loops -/

/-- the record of a connection is updated in place: name, client id, protocol version and window size stay -/
structure CliSame (c c' : Cli) : Prop where
  conn : c'.conn = c.conn
  cid : c'.cid = c.cid
  v : c'.v = c.v
  maxInflight : c'.maxInflight = c.maxInflight
  cliAliasMax : c'.cliAliasMax = c.cliAliasMax

theorem CliSame.refl (c : Cli) : CliSame c c := ⟨rfl, rfl, rfl, rfl, rfl⟩
theorem CliSame.trans {a b c : Cli} (h1 : CliSame a b) (h2 : CliSame b c) : CliSame a c :=
  ⟨h2.conn.trans h1.conn, h2.cid.trans h1.cid, h2.v.trans h1.v, h2.maxInflight.trans h1.maxInflight,
   h2.cliAliasMax.trans h1.cliAliasMax⟩

/-- the primitive steps of a connection's poll goroutine; `Qrel` relates the session queue before and after a read -/
inductive PollStep (Qrel : Queue.Q → Queue.Q → Prop) (conn : String) : B → B → Prop
  | emit (b : B) (p : Pkt) : PollStep Qrel conn b (b.emit conn true p)
  | setQueue (b : B) (c : Cli) (s : Sess) (q' : Queue.Q) :
      b.cli? conn = some c → b.sess? c.cid = some s → Qrel s.queue q' →
      PollStep Qrel conn b (b.setSess { s with queue := q' })
  | setCli (b : B) (c c' : Cli) :
      b.cli? conn = some c → CliSame c c' → PollStep Qrel conn b (b.setCli c')
  | setMsgs (b : B) (ms : List Msg) : PollStep Qrel conn b { b with msgs := ms }

inductive PollRun (Qrel : Queue.Q → Queue.Q → Prop) (conn : String) : B → B → Prop
  | refl (b : B) : PollRun Qrel conn b b
  | step {a b c : B} : PollStep Qrel conn a b → PollRun Qrel conn b c → PollRun Qrel conn a c

theorem PollRun.single {Qrel : Queue.Q → Queue.Q → Prop} {conn : String} {a b : B} (h : PollStep Qrel conn a b) :
    PollRun Qrel conn a b := .step h (.refl b)

theorem PollRun.trans {Qrel : Queue.Q → Queue.Q → Prop} {conn : String} {a b c : B}
    (h1 : PollRun Qrel conn a b) (h2 : PollRun Qrel conn b c) : PollRun Qrel conn a c := by
  induction h1 with
  | refl => exact h2
  | step hs _ ih => exact .step hs (ih h2)

theorem PollStep.outs {Qrel : Queue.Q → Queue.Q → Prop} {conn : String} {a b : B} (h : PollStep Qrel conn a b) :
    Outs (fun o => o.conn = conn ∧ o.poll = true) a b := by
  cases h with
  | emit p => exact outs_emit _ _ _ _ ⟨rfl, rfl⟩
  | setQueue => exact Outs.of_eq rfl
  | setCli => exact Outs.of_eq rfl
  | setMsgs => exact Outs.of_eq rfl

theorem PollRun.outs {Qrel : Queue.Q → Queue.Q → Prop} {conn : String} {a b : B} (h : PollRun Qrel conn a b) :
    Outs (fun o => o.conn = conn ∧ o.poll = true) a b := by
  induction h with
  | refl => exact Outs.refl _ _
  | step hs _ ih => exact hs.outs.trans ih

theorem PollStep.wf {Qrel : Queue.Q → Queue.Q → Prop} {conn : String} {a b : B} (h : PollStep Qrel conn a b)
    (hw : WF a) : WF b := by
  cases h with
  | emit p => exact hw.emit _ _ _
  | setQueue => exact hw.setSess _
  | setCli c c' hc hsame =>
    have hconn := (cli?_some hc).2
    exact hw.setCli (c := c') (c0 := c) (by rw [hsame.conn, hconn]; exact hc) hsame.cid.symm
  | setMsgs ms => exact ⟨hw.cids, hw.conns, hw.online, hw.offl, hw.subsess⟩

theorem PollRun.wf {Qrel : Queue.Q → Queue.Q → Prop} {conn : String} {a b : B} (h : PollRun Qrel conn a b)
    (hw : WF a) : WF b := by
  induction h with
  | refl => exact hw
  | step hs _ ih => exact ih (hs.wf hw)

/-- what a poll run leaves alone -/
structure PollFrame (a b : B) : Prop where
  cfg : b.cfg = a.cfg
  now : b.now = a.now
  subs : b.subs = a.subs
  offline : b.offline = a.offline

theorem PollStep.frame {Qrel : Queue.Q → Queue.Q → Prop} {conn : String} {a b : B} (h : PollStep Qrel conn a b) :
    PollFrame a b := by
  cases h <;> exact ⟨rfl, rfl, rfl, rfl⟩

theorem PollRun.frame {Qrel : Queue.Q → Queue.Q → Prop} {conn : String} {a b : B} (h : PollRun Qrel conn a b) :
    PollFrame a b := by
  induction h with
  | refl => exact ⟨rfl, rfl, rfl, rfl⟩
  | step hs _ ih =>
    have := hs.frame
    exact ⟨ih.cfg.trans this.cfg, ih.now.trans this.now, ih.subs.trans this.subs, ih.offline.trans this.offline⟩

/-- a session before and after a poll run: everything but the queue is the same -/
def SessRel (Qrel : Queue.Q → Queue.Q → Prop) (s s' : Sess) : Prop :=
  s'.cid = s.cid ∧ s'.unack = s.unack ∧ s'.expiry = s.expiry ∧ Qrel s.queue s'.queue

theorem PollStep.sess {Qrel : Queue.Q → Queue.Q → Prop} (hrefl : ∀ q, Qrel q q) {conn : String} {a b : B}
    (h : PollStep Qrel conn a b) (cid : String) (s : Sess) (hs : a.sess? cid = some s) :
    ∃ s', b.sess? cid = some s' ∧ SessRel Qrel s s' := by
  cases h with
  | emit p => exact ⟨s, hs, rfl, rfl, rfl, hrefl _⟩
  | setQueue c s1 q' hc hs1 hq =>
    rw [sess?_setSess]
    have hcid1 : s1.cid = c.cid := (sess?_some hs1).2
    by_cases hcid : s1.cid = cid
    · have hss : s1 = s := by
        rw [← hcid, hcid1] at hs
        rw [hs1] at hs
        exact Option.some.inj hs
      refine ⟨{ s1 with queue := q' }, by rw [if_pos hcid], ?_⟩
      rw [← hss]
      exact ⟨rfl, rfl, rfl, hq⟩
    · exact ⟨s, by simp [hcid, hs], rfl, rfl, rfl, hrefl _⟩
  | setCli c c' hc _ => exact ⟨s, hs, rfl, rfl, rfl, hrefl _⟩
  | setMsgs ms => exact ⟨s, hs, rfl, rfl, rfl, hrefl _⟩

/-- the connection's own record stays the same connection -/
theorem PollStep.cli {Qrel : Queue.Q → Queue.Q → Prop} {conn : String} {a b : B}
    (h : PollStep Qrel conn a b) (c : Cli) (hc : a.cli? conn = some c) :
    ∃ c', b.cli? conn = some c' ∧ CliSame c c' := by
  cases h with
  | emit p => exact ⟨c, hc, .refl c⟩
  | setQueue => exact ⟨c, hc, .refl c⟩
  | setCli c0 c' hc0 hsame =>
    rw [hc] at hc0
    cases hc0
    refine ⟨c', ?_, hsame⟩
    rw [cli?_setCli, if_pos (by rw [hsame.conn]; exact (cli?_some hc).2)]
  | setMsgs ms => exact ⟨c, hc, .refl c⟩

theorem PollRun.cli {Qrel : Queue.Q → Queue.Q → Prop} {conn : String} {a b : B}
    (h : PollRun Qrel conn a b) (c : Cli) (hc : a.cli? conn = some c) :
    ∃ c', b.cli? conn = some c' ∧ CliSame c c' := by
  induction h generalizing c with
  | refl => exact ⟨c, hc, .refl c⟩
  | step hst _ ih =>
    obtain ⟨c1, hc1, r1⟩ := hst.cli c hc
    obtain ⟨c2, hc2, r2⟩ := ih c1 hc1
    exact ⟨c2, hc2, r1.trans r2⟩

theorem PollRun.sess {Qrel : Queue.Q → Queue.Q → Prop} (hrefl : ∀ q, Qrel q q)
    (htrans : ∀ q1 q2 q3, Qrel q1 q2 → Qrel q2 q3 → Qrel q1 q3) {conn : String} {a b : B}
    (h : PollRun Qrel conn a b) (cid : String) (s : Sess) (hs : a.sess? cid = some s) :
    ∃ s', b.sess? cid = some s' ∧ SessRel Qrel s s' := by
  induction h generalizing s with
  | refl => exact ⟨s, hs, rfl, rfl, rfl, hrefl _⟩
  | step hst _ ih =>
    obtain ⟨s1, hs1, r1⟩ := hst.sess hrefl cid s hs
    obtain ⟨s2, hs2, r2⟩ := ih s1 hs1
    exact ⟨s2, hs2, r2.1.trans r1.1, r2.2.1.trans r1.2.1, r2.2.2.1.trans r1.2.2.1, htrans _ _ _ r1.2.2.2 r2.2.2.2⟩

theorem PollRun.mono {Q1 Q2 : Queue.Q → Queue.Q → Prop} (hq : ∀ q q', Q1 q q' → Q2 q q') {conn : String} {a b : B}
    (h : PollRun Q1 conn a b) : PollRun Q2 conn a b := by
  induction h with
  | refl => exact .refl _
  | step hs _ ih =>
    refine .step ?_ ih
    cases hs with
    | emit p => exact .emit _ p
    | setQueue c s q' hc hs hr => exact .setQueue _ c s q' hc hs (hq _ _ hr)
    | setCli c c' hc hsame => exact .setCli _ c c' hc hsame
    | setMsgs ms => exact .setMsgs _ ms

/-- the identity of the queue's elements: message, kind, packet id, QoS — in order -/
def qkeys (q : Queue.Q) : List (Nat × Bool × Nat × Nat) := q.items.map (fun e => (e.tag, e.pub, e.id, e.qos))

def KeysEq (q q' : Queue.Q) : Prop := qkeys q' = qkeys q

theorem readInflight_keys (q : Queue.Q) (now n : Nat) : KeysEq q (q.readInflight now n).1 := by
  simp only [Queue.Q.readInflight]
  split
  · rfl
  · obtain ⟨pre, h1, h2, _, _⟩ := Queue.inflightLoop_spec now q.ie (min n q.items.length) q.rest
    generalize Queue.inflightLoop now q.ie (min n q.items.length) q.rest = r at h1 h2 ⊢
    obtain ⟨out, rest', d⟩ := r
    simp only at h1 h2 ⊢
    simp only [KeysEq, qkeys, Queue.Q.items]
    rw [h2]
    conv => rhs; rw [h1]
    simp [Queue.refresh, Function.comp_def]

theorem init_keys (q : Queue.Q) (l : Nat) : qkeys (q.init false l) = qkeys q := by
  simp [qkeys, Queue.Q.init, Queue.Q.items]

/-- what `emitPub` changes in a PUBLISH: topic name / alias / size; everything else is `p` -/
def Pkt.core : Pkt → Pkt
  | .publish _ qos retain dup id tag plen sids exp _ _ => .publish "" qos retain dup id tag plen sids exp none 0
  | p => p

/-- `emitPub`: possibly an update of the connection's outbound alias table, then one packet on the P stream that
    is `p` up to topic name / alias / size -/
theorem emitPub_spec (b : B) (conn : String) (p : Pkt) :
    ∃ b' p', b.emitPub conn p = b'.emit conn true p' ∧ p'.core = p.core ∧
      (b' = b ∨ ∃ c q, b.cli? conn = some c ∧ b' = b.setCli { c with aliasOut := q }) := by
  unfold B.emitPub
  split
  · next topic qos retain dup id tag plen sids exp al size c hc =>
    have hc' : b.cli? conn = some c := hc
    obtain ⟨_, rfl⟩ := cli?_some hc'
    split
    · split
      · next q a exist _ =>
        simp only
        split
        · exact ⟨b.setCli { c with aliasOut := q }, _, rfl, rfl, .inr ⟨c, q, hc', rfl⟩⟩
        · split
          · exact ⟨b.setCli { c with aliasOut := q }, _, rfl, rfl, .inr ⟨c, q, hc', rfl⟩⟩
          · exact ⟨b.setCli { c with aliasOut := q }, _, rfl, rfl, .inr ⟨c, q, hc', rfl⟩⟩
      · exact ⟨b, _, rfl, rfl, .inl rfl⟩
    · exact ⟨b, _, rfl, rfl, .inl rfl⟩
  · exact ⟨b, _, rfl, rfl, .inl rfl⟩

theorem emitPub_run (Qrel : Queue.Q → Queue.Q → Prop) (b : B) (conn : String) (p : Pkt) :
    PollRun Qrel conn b (b.emitPub conn p) := by
  obtain ⟨b', p', he, _, hb'⟩ := emitPub_spec b conn p
  rw [he]
  rcases hb' with rfl | ⟨c, q, hc, rfl⟩
  · exact .single (.emit _ _)
  · exact .step (.setCli b c { c with aliasOut := q } hc ⟨rfl, rfl, rfl, rfl, rfl⟩) (.single (.emit _ _))

theorem emitPub_sessions (b : B) (conn : String) (p : Pkt) : (b.emitPub conn p).sessions = b.sessions := by
  obtain ⟨b', p', he, _, hb'⟩ := emitPub_spec b conn p
  rw [he]
  rcases hb' with rfl | ⟨c, q, hc, rfl⟩ <;> rfl

theorem foldl_emitPub_sessions (conn : String) (f : Queue.Elem → Pkt) (out : List Queue.Elem) (b : B) :
    (out.foldl (fun bb (e : Queue.Elem) => bb.emitPub conn (f e)) b).sessions = b.sessions := by
  induction out generalizing b with
  | nil => rfl
  | cons e es ih => simp only [List.foldl_cons]; rw [ih, emitPub_sessions]

/-- the emits of one `ReadInflight` batch -/
theorem replay_fold (Qrel : Queue.Q → Queue.Q → Prop) (conn : String) (f g : Queue.Elem → Pkt) (els : List Queue.Elem)
    (acc : B × List Nat) :
    let r := els.foldl (fun (acc : B × List Nat) (e : Queue.Elem) =>
      if e.pub then (acc.1.emitPub conn (f e), acc.2 ++ [e.id]) else (acc.1.emit conn true (g e), acc.2 ++ [e.id])) acc
    PollRun Qrel conn acc.1 r.1 := by
  induction els generalizing acc with
  | nil => exact .refl _
  | cons e es ih =>
    simp only [List.foldl_cons]
    cases hp : e.pub
    case true =>
      simp only [if_true]
      exact (emitPub_run Qrel acc.1 conn (f e)).trans (ih (acc.1.emitPub conn (f e), acc.2 ++ [e.id]))
    case false =>
      simp only [Bool.false_eq_true, if_false]
      exact .step (.emit _ _) (ih (acc.1.emit conn true (g e), acc.2 ++ [e.id]))

theorem replay_run (fuel : Nat) (b : B) (conn : String) : PollRun KeysEq conn b (b.replay conn fuel) := by
  induction fuel generalizing b with
  | zero => exact .refl _
  | succ fuel ih =>
    unfold B.replay
    split
    · exact .refl _
    · next c hc =>
      split
      · exact .refl _
      · next s hs =>
        have hk := readInflight_keys s.queue b.now c.maxInflight
        generalize s.queue.readInflight b.now c.maxInflight = qe at hk
        obtain ⟨q', els⟩ := qe
        simp only at hk ⊢
        have h0 : PollRun KeysEq conn b (b.setSess { s with queue := q' }) := .single (.setQueue b c s q' hc hs hk)
        split
        · exact h0
        · have hf := replay_fold KeysEq conn
            (fun e => .publish (b.msgOf e.tag).topic (b.msgOf e.tag).qos (b.msgOf e.tag).retained true e.id
              (b.msgOf e.tag).tag (b.msgOf e.tag).plen []
              (if c.v == 5 && (b.msgOf e.tag).expiry != 0 then some (b.msgOf e.tag).expiry else none) none
              (totalBytes c.v { b.msgOf e.tag with sids := [] }))
            (fun e => .pubrel e.id) els (b.setSess { s with queue := q' }, c.used)
          simp only at hf
          generalize List.foldl _ _ els = r at hf ⊢
          obtain ⟨b1, used⟩ := r
          simp only at hf ⊢
          obtain ⟨c1, hc1, hsame⟩ := hf.cli c hc
          rw [hc1]
          simp only
          exact h0.trans (hf.trans (.step (.setCli b1 c1 { c1 with used := used } hc1 ⟨rfl, rfl, rfl, rfl, rfl⟩) (ih _)))

theorem pump_fold (Qrel : Queue.Q → Queue.Q → Prop) (conn : String) (f : Queue.Elem → Pkt) (out : List Queue.Elem) (b : B) :
    PollRun Qrel conn b (out.foldl (fun bb (e : Queue.Elem) => bb.emitPub conn (f e)) b) := by
  induction out generalizing b with
  | nil => exact .refl _
  | cons e es ih =>
    simp only [List.foldl_cons]
    exact (emitPub_run Qrel b conn (f e)).trans (ih _)

theorem pump_run (fuel : Nat) (b : B) (conn : String) : PollRun (fun _ _ => True) conn b (b.pump conn fuel) := by
  induction fuel generalizing b with
  | zero => exact .refl _
  | succ fuel ih =>
    unfold B.pump
    split
    · exact .refl _
    · next c hc =>
      split
      · exact .refl _
      · next s hs =>
        split
        · exact .refl _
        · extract_lets n ids
          split
          · next q' out evs heq =>
            have hr := pump_fold (fun _ _ => True) conn (fun e => b.pubPkt c e (b.ats.getD e.tag b.now)) out b
            generalize hb1 : List.foldl (fun bb (e : Queue.Elem) => bb.emitPub conn (b.pubPkt c e (b.ats.getD e.tag b.now))) b out = b1 at hr
            have hss : b1.sessions = b.sessions := by rw [← hb1]; exact foldl_emitPub_sessions _ _ _ _
            extract_lets b1a b1' usedIds c1 b2
            obtain ⟨c1', hc1, hsame⟩ := hr.cli c hc
            have hr' : PollRun (fun _ _ => True) conn b b1' := hr.trans (.single (.setMsgs b1 _))
            have hc1' : b1'.cli? conn = some c1' := hc1
            have hcc : c1 = c1' := by simp only [c1, hc1']
            have hs1' : b1'.sess? c1'.cid = some s := by
              rw [hsame.cid, ← hs]; unfold B.sess?
              show List.find? _ b1.sessions = _
              rw [hss]
            refine hr'.trans (.step (.setQueue b1' c1' s q' hc1' hs1' trivial) (.step (.setCli _ c1' _ hc1' ?_) (ih _)))
            rw [hcc]
            exact ⟨rfl, rfl, rfl, rfl, rfl⟩
          · exact .refl _

/-- `pumpAll` as a fold over connection names taken from `b.clis` -/
theorem pumpAll_wf {b : B} (h : WF b) : WF b.pumpAll := by
  unfold B.pumpAll
  generalize (b.clis.map (·.conn)).mergeSort (· ≤ ·) = l
  induction l generalizing b with
  | nil => exact h
  | cons x xs ih => exact ih ((pump_run 10000 b x).wf h)

theorem pumpAll_outs (b : B) : Outs (fun o => (b.cli? o.conn).isSome = true) b b.pumpAll := by
  unfold B.pumpAll
  have hmem : ∀ cn ∈ (b.clis.map (·.conn)).mergeSort (· ≤ ·), (b.cli? cn).isSome = true := by
    intro cn hcn
    rw [List.mem_mergeSort] at hcn
    obtain ⟨c, hc, rfl⟩ := List.mem_map.1 hcn
    exact cli?_isSome_of_mem hc
  generalize (b.clis.map (·.conn)).mergeSort (· ≤ ·) = l at hmem
  suffices ∀ (l : List String) (bb : B), (∀ cn ∈ l, (b.cli? cn).isSome = true) →
      Outs (fun o => (b.cli? o.conn).isSome = true) bb (l.foldl (fun bb cn => bb.pump cn 10000) bb) from this l b hmem
  intro l
  induction l with
  | nil => intro bb _; exact Outs.refl _ _
  | cons x xs ih =>
    intro bb hl
    have h1 := (pump_run 10000 bb x).outs
    have hx := hl x List.mem_cons_self
    exact (h1.mono (fun o ho => by rw [ho.1]; exact hx)).trans (ih _ (fun cn hcn => hl cn (List.mem_cons_of_mem _ hcn)))

/-! ### `unregister`, `kick` -/

/-- the session record `unregisterClient` stores: a v5 DISCONNECT may have changed the expiry interval -/
def unregSess (c : Cli) (s0 : Sess) (force : Bool) : Sess :=
  if !force && c.v == 5 then
    match c.discExpiry with
    | some (some e) => { s0 with expiry := e }
    | _ => s0
  else s0

/-- the will at the end of a connection: sent now, delayed, or dropped (after DISCONNECT) -/
def willStep (b : B) (c : Cli) (s : Sess) (store : Bool) : B :=
  if !c.cleanWill then
    match s.will with
    | none => b
    | some w =>
      let delay := if s.expiry ≤ s.willDelay then s.expiry else s.willDelay
      if delay != 0 && store then
        let b := b.dropWill c.cid
        { b with pendingWills := b.pendingWills ++ [(c.cid, w, b.now + delay * 1000)] }
      else b.sendWill c.cid w
  else b

theorem unregister_eq (b : B) (conn : String) (force : Bool) (c : Cli) (hc : b.cli? conn = some c) :
    b.unregister conn force =
      match b.sess? c.cid with
      | none => (b.dropCli conn).terminateS c.cid
      | some s0 =>
        let s := unregSess c s0 force
        let store := !force && s.expiry != 0
        let s := { s with queue := s.queue.close }
        let b2 := willStep ((b.dropCli conn).setSess s) c s store
        if store then { b2 with offline := (c.cid, b2.now + s.expiry * 1000) :: b2.offline.filter (·.1 != c.cid) }
        else b2.terminateS c.cid := by
  unfold B.unregister
  simp only [hc]
  rfl

theorem grow_willStep (b : B) (c : Cli) (s : Sess) (store : Bool) : Grow b (willStep b c s store) := by
  unfold willStep
  split
  · split
    · exact Grow.refl b
    · simp only
      generalize (if s.expiry ≤ s.willDelay then s.expiry else s.willDelay) = delay
      split
      · exact (grow_dropWill b _).trans (grow_pendingWills _ _)
      · exact grow_sendWill _ _ _
  · exact Grow.refl b

theorem unregister_none (b : B) (conn : String) (force : Bool) (hc : b.cli? conn = none) :
    b.unregister conn force = b := by
  unfold B.unregister
  simp only [hc]

theorem unregister_out (b : B) (conn : String) (force : Bool) : (b.unregister conn force).out = b.out := by
  cases hc : b.cli? conn with
  | none => rw [unregister_none b conn force hc]
  | some c =>
    rw [unregister_eq b conn force c hc]
    split
    · exact terminateS_out _ _
    · simp only
      split
      · exact (grow_willStep _ _ _ _).out
      · exact (terminateS_out _ _).trans (grow_willStep _ _ _ _).out

theorem filter_conn_of_none (b : B) (conn : String) (hc : b.cli? conn = none) :
    b.clis.filter (·.conn != conn) = b.clis := by
  unfold B.cli? at hc
  rw [List.find?_eq_none] at hc
  rw [List.filter_eq_self]
  intro x hx
  simpa using hc x hx

/-- frame of `unregister`: configuration and clock stay, the connection is dropped -/
theorem unregister_frame (b : B) (conn : String) (force : Bool) :
    (b.unregister conn force).cfg = b.cfg ∧ (b.unregister conn force).now = b.now ∧
    (b.unregister conn force).clis = b.clis.filter (·.conn != conn) := by
  cases hc : b.cli? conn with
  | none => rw [unregister_none b conn force hc]; exact ⟨rfl, rfl, (filter_conn_of_none b conn hc).symm⟩
  | some c =>
    rw [unregister_eq b conn force c hc]
    split
    · exact ⟨terminateS_cfg _ _, terminateS_now _ _, terminateS_clis _ _⟩
    · simp only
      have g := grow_willStep ((b.dropCli conn).setSess
        { unregSess c ‹Sess› force with queue := (unregSess c ‹Sess› force).queue.close }) c
        { unregSess c ‹Sess› force with queue := (unregSess c ‹Sess› force).queue.close }
        (!force && (unregSess c ‹Sess› force).expiry != 0)
      split
      · exact ⟨g.cfg, g.now, g.clis⟩
      · exact ⟨(terminateS_cfg _ _).trans g.cfg, (terminateS_now _ _).trans g.now, (terminateS_clis _ _).trans g.clis⟩

theorem WF.unregister {b : B} (h : WF b) (conn : String) (force : Bool) : WF (b.unregister conn force) := by
  cases hc : b.cli? conn with
  | none => rw [unregister_none b conn force hc]; exact h
  | some c =>
    have hno := h.dropCli_nocid hc
    have h1 := h.dropCli conn
    rw [unregister_eq b conn force c hc]
    split
    · exact h1.terminateS _ hno
    · simp only
      have g := grow_willStep ((b.dropCli conn).setSess
        { unregSess c ‹Sess› force with queue := (unregSess c ‹Sess› force).queue.close }) c
        { unregSess c ‹Sess› force with queue := (unregSess c ‹Sess› force).queue.close }
        (!force && (unregSess c ‹Sess› force).expiry != 0)
      have h2 := (h1.setSess _).grow g
      have hno2 : ∀ x ∈ (willStep ((b.dropCli conn).setSess
        { unregSess c ‹Sess› force with queue := (unregSess c ‹Sess› force).queue.close }) c
        { unregSess c ‹Sess› force with queue := (unregSess c ‹Sess› force).queue.close }
        (!force && (unregSess c ‹Sess› force).expiry != 0)).clis, x.cid ≠ c.cid := by
        rw [g.clis]; exact hno
      split
      · exact h2.setOffline _ _ hno2
      · exact h2.terminateS _ hno2

def isConnack : Pkt → Bool
  | .connack .. => true
  | _ => false

theorem kick_none (b : B) (conn : String) (code : Option Nat) (hc : b.cli? conn = none) : b.kick conn code = b := by
  unfold B.kick
  simp only [hc]

theorem kick_outs (b : B) (conn : String) (code : Option Nat) :
    Outs (fun o => o.conn = conn ∧ o.poll = false ∧ isConnack o.pkt = false) b (b.kick conn code) := by
  unfold B.kick
  split
  · exact Outs.refl _ _
  · next c hc =>
    simp only
    refine Outs.trans (b := (match code with
      | some k => if c.v == 5 then b.emit conn false (.disconnect k) else b
      | none => b)) ?_ ((outs_emit _ _ _ _ ⟨rfl, rfl, rfl⟩).trans (Outs.of_eq (unregister_out _ _ _)))
    split
    · split
      · exact outs_emit _ _ _ _ ⟨rfl, rfl, rfl⟩
      · exact Outs.refl _ _
    · exact Outs.refl _ _

/-- `kick` = some output, then `unregister` -/
theorem kick_eq (b : B) (conn : String) (code : Option Nat) :
    ∃ o, b.kick conn code = ({ b with out := o } : B).unregister conn false := by
  unfold B.kick
  cases hc : b.cli? conn with
  | none => exact ⟨b.out, by simp only; rw [unregister_none]; exact hc⟩
  | some c =>
    simp only
    split
    · split
      · exact ⟨_, rfl⟩
      · exact ⟨_, rfl⟩
    · exact ⟨_, rfl⟩

theorem WF.kick {b : B} (h : WF b) (conn : String) (code : Option Nat) : WF (b.kick conn code) := by
  obtain ⟨o, ho⟩ := kick_eq b conn code
  rw [ho]
  exact (h.setOut o).unregister conn false

theorem kick_frame (b : B) (conn : String) (code : Option Nat) :
    (b.kick conn code).cfg = b.cfg ∧ (b.kick conn code).now = b.now ∧
    (b.kick conn code).clis = b.clis.filter (·.conn != conn) := by
  obtain ⟨o, ho⟩ := kick_eq b conn code
  rw [ho]
  exact unregister_frame _ conn false

end GmqttVerif.Broker
