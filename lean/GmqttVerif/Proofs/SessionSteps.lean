import GmqttVerif.Proofs.SessionPoll
/-
  Helper lemmas for C05: every wire step except CONNECT writes only to connections that are online, and preserves
  the well-formedness invariant `WF`.
-/
namespace GmqttVerif.Broker
open GmqttVerif.Deliver

theorem WF.of_eq {b b' : B} (h : WF b) (h1 : b'.clis = b.clis) (h2 : b'.sessions = b.sessions)
    (h3 : b'.offline = b.offline) (h4 : b'.subs = b.subs) : WF b' := by
  have hs : ∀ cid, b'.sess? cid = b.sess? cid := fun cid => by unfold B.sess?; rw [h2]
  refine ⟨by rw [h1]; exact h.cids, by rw [h1]; exact h.conns, ?_, ?_, ?_⟩
  · intro c hc; rw [h1] at hc; rw [hs]; exact h.online c hc
  · intro cd hcd c hc; rw [h1] at hc; rw [h3] at hcd; exact h.offl cd hcd c hc
  · intro cs hcs; rw [h4] at hcs; rw [hs]; exact h.subsess cs hcs

/-- a state change that touches neither the connections nor the output, and keeps the invariant -/
structure Keep (b b' : B) : Prop where
  out : b'.out = b.out
  clis : b'.clis = b.clis
  wf : WF b → WF b'

theorem Keep.refl (b : B) : Keep b b := ⟨rfl, rfl, id⟩
theorem Keep.trans {a b c : B} (h1 : Keep a b) (h2 : Keep b c) : Keep a c :=
  ⟨h2.out.trans h1.out, h2.clis.trans h1.clis, fun h => h2.wf (h1.wf h)⟩
theorem Keep.of_grow {b b' : B} (g : Grow b b') : Keep b b' := ⟨g.out, g.clis, fun h => h.grow g⟩

theorem keep_foldl {α : Type} (f : B → α → B) (hf : ∀ b a, Keep b (f b a)) (l : List α) (b : B) :
    Keep b (l.foldl f b) := by
  induction l generalizing b with
  | nil => exact Keep.refl b
  | cons x xs ih => exact (hf b x).trans (ih _)

/-- removing subscriptions, or adding subscriptions of a client that is online -/
theorem keep_setSubs (b : B) (subs' : List (String × Sub))
    (h : ∀ cs ∈ subs', cs ∈ b.subs ∨ ∃ c ∈ b.clis, c.cid = cs.1) : Keep b { b with subs := subs' } := by
  refine ⟨rfl, rfl, fun hw => ⟨hw.cids, hw.conns, hw.online, hw.offl, ?_⟩⟩
  intro cs hcs
  rcases h cs hcs with h | ⟨c, hc, hcc⟩
  · exact hw.subsess cs h
  · rw [← hcc]; exact hw.online c hc

/-- `Ok P b b'`: the step from `b` to `b'` appends only outputs satisfying `P` and keeps the invariant -/
structure Ok (P : Out → Prop) (b b' : B) : Prop where
  outs : Outs P b b'
  wf : WF b → WF b'

theorem Ok.refl (P : Out → Prop) (b : B) : Ok P b b := ⟨Outs.refl P b, id⟩
theorem Ok.trans {P : Out → Prop} {a b c : B} (h1 : Ok P a b) (h2 : Ok P b c) : Ok P a c :=
  ⟨h1.outs.trans h2.outs, fun h => h2.wf (h1.wf h)⟩
theorem Ok.of_keep {P : Out → Prop} {b b' : B} (k : Keep b b') : Ok P b b' := ⟨Outs.of_eq k.out, k.wf⟩
theorem Ok.of_grow {P : Out → Prop} {b b' : B} (g : Grow b b') : Ok P b b' := Ok.of_keep (Keep.of_grow g)
theorem Ok.mono {P Q : Out → Prop} {b b' : B} (hPQ : ∀ o, P o → Q o) (h : Ok P b b') : Ok Q b b' :=
  ⟨h.outs.mono hPQ, h.wf⟩

theorem ok_emit {P : Out → Prop} (b : B) (conn : String) (poll : Bool) (p : Pkt)
    (h : P { conn := conn, poll := poll, pkt := p }) : Ok P b (b.emit conn poll p) :=
  ⟨outs_emit b conn poll p h, fun hw => hw.emit _ _ _⟩

theorem ok_setCli {P : Out → Prop} (b : B) (c c0 : Cli) (h0 : b.cli? c.conn = some c0) (hcid : c0.cid = c.cid) :
    Ok P b (b.setCli c) := ⟨Outs.of_eq rfl, fun hw => hw.setCli h0 hcid⟩

theorem ok_setSess {P : Out → Prop} (b : B) (s : Sess) : Ok P b (b.setSess s) := Ok.of_grow (grow_setSess b s)

theorem ok_kick {P : Out → Prop} (b : B) (conn : String) (code : Option Nat) (hP : ∀ o : Out, o.conn = conn → P o) :
    Ok P b (b.kick conn code) :=
  ⟨(kick_outs b conn code).mono (fun o ho => hP o ho.1), fun hw => hw.kick conn code⟩

theorem ok_unregister {P : Out → Prop} (b : B) (conn : String) (force : Bool) : Ok P b (b.unregister conn force) :=
  ⟨Outs.of_eq (unregister_out b conn force), fun hw => hw.unregister conn force⟩

/-! ### the handlers -/

/-- a PUBACK / PUBCOMP written by the broker gives the receive quota back -/
theorem ok_quotaBack {P : Out → Prop} (b X : B) (conn : String) (h : Ok P b X) :
    Ok P b (match X.cli? conn with
      | some c' => X.setCli { c' with quota := min (c'.quota + 1) X.cfg.recvMax }
      | none => X) := by
  cases hc' : X.cli? conn with
  | none => exact h
  | some c' => exact h.trans (ok_setCli _ _ c' (by rw [← hc', (cli?_some hc').2]) rfl)

theorem ok_pubrelIn (b : B) (conn : String) (pid : Nat) :
    Ok (fun o => (b.cli? o.conn).isSome = true) b (b.pubrelIn conn pid) := by
  unfold B.pubrelIn
  cases hc : b.cli? conn with
  | none => exact Ok.refl _ _
  | some c =>
    have hP : ∀ o : Out, o.conn = conn → (b.cli? o.conn).isSome = true := fun o ho => by rw [ho, hc]; rfl
    have h1 : Ok (fun o => (b.cli? o.conn).isSome = true) b
        (match b.sess? c.cid with
          | some s => b.setSess { s with unack := s.unack.filter (· != pid) }
          | none => b) := by
      cases b.sess? c.cid with
      | some s => exact ok_setSess _ _
      | none => exact Ok.refl _ _
    have h2 := h1.trans (ok_emit _ conn false (.pubcomp pid) (hP _ rfl))
    simp only
    by_cases hv : (c.v == 5) = true
    · rw [if_pos hv]; exact ok_quotaBack _ _ conn h2
    · rw [if_neg hv]; exact h2

theorem ok_ackOut {P : Out → Prop} (b : B) (conn : String) (id : Nat) : Ok P b (b.ackOut conn id) := by
  unfold B.ackOut
  split
  · exact Ok.refl _ _
  · next c hc =>
    have hconn := (cli?_some hc).2
    have h1 : Ok P b
        (match b.sess? c.cid with
          | some s => b.setSess { s with queue := (s.queue.remove id).1 }
          | none => b) := by
      split
      · exact ok_setSess _ _
      · exact Ok.refl _ _
    simp only
    refine h1.trans (ok_setCli _ (c.release id) c ?_ rfl)
    have : (c.release id).conn = conn := hconn
    rw [this]
    split
    · exact hc
    · exact hc

theorem ok_pubrecOut (b : B) (conn : String) (id code : Nat) :
    Ok (fun o => (b.cli? o.conn).isSome = true) b (b.pubrecOut conn id code) := by
  unfold B.pubrecOut
  split
  · exact Ok.refl _ _
  · next c hc =>
    have hP : ∀ o : Out, o.conn = conn → (b.cli? o.conn).isSome = true := fun o ho => by rw [ho, hc]; rfl
    split
    · exact ok_ackOut _ _ _
    · simp only
      refine Ok.trans (b := match b.sess? c.cid with
          | some s => b.setSess { s with queue := (s.queue.replace
              { tag := 0, pub := false, id := id, qos := 0, exp := none, size := 0 }).1 }
          | none => b) ?_ (ok_emit _ conn false _ (hP _ rfl))
      split
      · exact ok_setSess _ _
      · exact Ok.refl _ _

theorem ok_disc_tail {P : Out → Prop} (b : B) (c : Cli) (s : Sess) (d : Nat) (de : Option (Option Nat)) (cw : Bool)
    (hc : b.cli? c.conn = some c) :
    Ok P b (if (s.expiry == 0 && d != 0) = true then b
      else (if (d != 0) = true then b.setSess { s with expiry := d } else b).setCli
        { c with discExpiry := de, cleanWill := cw }) := by
  by_cases h1 : (s.expiry == 0 && d != 0) = true
  · rw [if_pos h1]; exact Ok.refl _ _
  · rw [if_neg h1]
    by_cases h2 : (d != 0) = true
    · rw [if_pos h2]; exact (ok_setSess _ _).trans (ok_setCli _ _ c hc rfl)
    · rw [if_neg h2]; exact ok_setCli _ _ c hc rfl

theorem ok_disconnectIn {P : Out → Prop} (b : B) (conn : String) (se : Option Nat) (code : Nat) :
    Ok P b (b.disconnectIn conn se code) := by
  unfold B.disconnectIn
  cases hc : b.cli? conn with
  | none => exact Ok.refl _ _
  | some c =>
    have hconn := (cli?_some hc).2
    have hc' : b.cli? c.conn = some c := by rw [hconn]; exact hc
    simp only
    by_cases hv : (c.v == 5) = true
    · rw [if_pos hv]
      cases hs : b.sess? c.cid with
      | none => exact Ok.refl _ _
      | some s => exact ok_disc_tail b c s _ _ _ hc'
    · rw [if_neg hv]
      exact ok_setCli _ _ c hc' rfl

theorem ok_closeIn (b : B) (conn : String) :
    Ok (fun o => (b.cli? o.conn).isSome = true) b (b.closeIn conn) := by
  unfold B.closeIn
  split
  · exact Ok.refl _ _
  · next c hc =>
    exact (ok_unregister b conn false).trans (ok_emit _ conn false _ (by show (b.cli? conn).isSome = true; rw [hc]; rfl))

theorem ok_apiTerminate (b : B) (cid : String) :
    Ok (fun o => (b.cli? o.conn).isSome = true) b (b.apiTerminate cid) := by
  unfold B.apiTerminate
  split
  · next c hc =>
    have hm := (cliOf?_some hc).1
    exact (ok_emit b c.conn false _ (cli?_isSome_of_mem hm)).trans (ok_unregister _ _ _)
  · next hc =>
    split
    · refine ⟨Outs.of_eq (terminateS_out b cid), fun hw => hw.terminateS cid ?_⟩
      intro x hx hxc
      unfold B.cliOf? at hc
      rw [List.find?_eq_none] at hc
      exact hc x hx (by simpa using hxc)
    · exact Ok.refl _ _

theorem ok_apiExpire {P : Out → Prop} (b : B) : Ok P b b.apiExpire := by
  unfold B.apiExpire
  have hl : ∀ cd ∈ b.offline.filter (fun cd => b.now > cd.2), cd ∈ b.offline := fun cd h => (List.mem_filter.1 h).1
  generalize b.offline.filter (fun cd => b.now > cd.2) = l at hl
  suffices ∀ (l : List (String × Nat)) (bb : B), bb.out = b.out →
      (WF b → WF bb ∧ ∀ cd ∈ l, ∀ x ∈ bb.clis, x.cid ≠ cd.1) →
      (l.foldl (fun bb cd => bb.terminateS cd.1) bb).out = b.out ∧
        (WF b → WF (l.foldl (fun bb cd => bb.terminateS cd.1) bb)) by
    obtain ⟨h1, h2⟩ := this l b rfl (fun hw => ⟨hw, fun cd hcd x hx => hw.offl cd (hl cd hcd) x hx⟩)
    exact ⟨Outs.of_eq h1, h2⟩
  intro l
  induction l with
  | nil => intro bb ho hw; exact ⟨ho, fun h => (hw h).1⟩
  | cons cd l ih =>
    intro bb ho hw
    refine ih (bb.terminateS cd.1) ((terminateS_out bb cd.1).trans ho) (fun h => ?_)
    obtain ⟨h1, h2⟩ := hw h
    refine ⟨h1.terminateS cd.1 (h2 cd List.mem_cons_self), fun cd' hcd' x hx => h2 cd' (List.mem_cons_of_mem _ hcd') x ?_⟩
    rw [terminateS_clis] at hx; exact hx

theorem ok_apiBackdate {P : Out → Prop} (b : B) (cid : String) (secs : Nat) : Ok P b (b.apiBackdate cid secs) := by
  unfold B.apiBackdate
  split
  · exact Ok.refl _ _
  · next s hs =>
    refine ⟨Outs.of_eq rfl, fun hw => ?_⟩
    have h1 := hw.setSess { s with connectedAt := s.connectedAt - secs * 1000 }
    refine ⟨h1.cids, h1.conns, h1.online, ?_, h1.subsess⟩
    intro cd hcd x hx
    obtain ⟨cd0, hcd0, rfl⟩ := List.mem_map.1 hcd
    have := hw.offl cd0 hcd0 x hx
    split <;> exact this

theorem ok_sleep {P : Out → Prop} (b : B) (ms : Nat) : Ok P b (b.sleep ms) := by
  unfold B.sleep
  simp only
  refine Ok.trans (b := { b with now := b.now + ms, pendingWills := b.pendingWills.filter (fun w => !(decide (w.2.2 ≤ b.now + ms))) })
    ⟨Outs.of_eq rfl, fun hw => hw.of_eq rfl rfl rfl rfl⟩ ?_
  exact Ok.of_grow (grow_foldl _ (fun bb w => grow_sendWill bb _ _) _ _)

theorem ok_apiPublish {P : Out → Prop} (b : B) (m : Msg) : Ok P b (b.deliverMsg "" m []).1 :=
  Ok.of_grow (grow_deliverMsg b "" m [] [])

theorem ok_pumpAll (b : B) : Ok (fun o => (b.cli? o.conn).isSome = true) b b.pumpAll :=
  ⟨pumpAll_outs b, pumpAll_wf⟩

theorem ok_unsubscribe (b : B) (conn : String) (pid : Nat) (topics : List String) :
    Ok (fun o => (b.cli? o.conn).isSome = true) b (b.unsubscribe conn pid topics) := by
  unfold B.unsubscribe
  split
  · exact Ok.refl _ _
  · next c hc =>
    simp only
    refine (Ok.of_keep (keep_foldl _ (fun bb name => ?_) topics b)).trans
      (ok_emit _ conn false _ (by show (b.cli? conn).isSome = true; rw [hc]; rfl))
    exact keep_setSubs bb _ (fun cs hcs => .inl (List.mem_filter.1 hcs).1)

theorem ok_pubAck {P : Out → Prop} (b0 X : B) (c : Cli) (r : PubReq) (matched : Bool)
    (hP : ∀ o : Out, o.conn = r.conn → P o) (h : Ok P b0 X) : Ok P b0 (X.pubAck c r matched) := by
  unfold B.pubAck
  extract_lets code b4
  have hb4 : Ok P b0 b4 := by
    simp only [b4]
    split
    · exact h.trans (ok_emit _ _ _ _ (hP _ rfl))
    · split
      · exact h.trans (ok_emit _ _ _ _ (hP _ rfl))
      · exact h
  split
  · exact ok_quotaBack _ _ _ hb4
  · exact hb4

theorem ok_publishTail {P : Out → Prop} (b0 X : B) (c : Cli) (r : PubReq) (s : Sess)
    (hP : ∀ o : Out, o.conn = r.conn → P o) (h : Ok P b0 X) : Ok P b0 (X.publishTail c r s) := by
  unfold B.publishTail
  extract_lets dupl s1 b1 bm
  have hb1 : Ok P b0 b1 := by
    have hq : Ok P b0 ((X.setSess s1).pubDupQuota c r dupl) := by
      unfold B.pubDupQuota
      split
      · exact ok_quotaBack _ _ _ (h.trans (ok_setSess X s1))
      · exact h.trans (ok_setSess X s1)
    refine hq.trans ?_
    simp only [b1, B.pubRetain]
    split
    · split
      · exact Ok.of_grow (grow_retained _ _)
      · exact Ok.of_grow (grow_retained _ _)
    · exact Ok.refl _ _
  refine ok_pubAck b0 _ c r _ hP ?_
  simp only [bm]
  split
  · exact hb1.trans (Ok.of_grow (grow_deliverMsg _ _ _ _ _))
  · exact hb1

theorem ok_publish (b : B) (r : PubReq) :
    Ok (fun o => (b.cli? o.conn).isSome = true) b (b.publish r) := by
  rw [publish_eq]
  cases hc : b.cli? r.conn with
  | none => exact Ok.refl _ _
  | some c =>
    have hP : ∀ o : Out, o.conn = r.conn → (b.cli? o.conn).isSome = true := fun o ho => by rw [ho, hc]; rfl
    have hconn := (cli?_some hc).2
    simp only
    split
    · exact ok_kick _ _ _ hP
    · split
      · exact ok_kick _ _ _ hP
      · split
        · exact ok_kick _ _ _ hP
        · have hb1 : Ok (fun o => (b.cli? o.conn).isSome = true) b (b.setCli (pubCli c r)) :=
            ok_setCli b (pubCli c r) c (by rw [pubCli_conn, hconn]; exact hc) (pubCli_cid c r).symm
          have hc1 : (b.setCli (pubCli c r)).cli? r.conn = some (pubCli c r) := by
            rw [cli?_setCli, if_pos (by rw [pubCli_conn, hconn])]
          split
          · exact hb1.trans (ok_kick _ _ _ hP)
          · split
            · exact hb1.trans (ok_kick _ _ _ hP)
            · split
              · exact hb1.trans (ok_kick _ _ _ hP)
              · next topic c2 hres =>
                obtain ⟨h2conn, h2cid, _⟩ := aliasRes_ok hres
                have hb2 : Ok (fun o => (b.cli? o.conn).isSome = true) b ((b.setCli (pubCli c r)).setCli c2) :=
                  hb1.trans (ok_setCli _ c2 (pubCli c r) (by rw [h2conn, pubCli_conn, hconn]; exact hc1) h2cid.symm)
                split
                · exact hb2
                · exact ok_publishTail b _ c2 _ _ hP hb2

theorem keep_foldl_pair {α β : Type} (b0 : B) (f : B × β → α → B × β)
    (hf : ∀ acc a, acc.1.clis = b0.clis → Keep acc.1 (f acc a).1) (l : List α) (acc : B × β)
    (h : acc.1.clis = b0.clis) : Keep acc.1 (l.foldl f acc).1 := by
  induction l generalizing acc with
  | nil => exact Keep.refl _
  | cons x xs ih =>
    have h1 := hf acc x h
    exact h1.trans (ih _ (h1.clis.trans h))

theorem ok_subscribe (b : B) (conn : String) (pid : Nat) (topics : List SubTopic) (idProp : Nat) :
    Ok (fun o => (b.cli? o.conn).isSome = true) b (b.subscribe conn pid topics idProp) := by
  unfold B.subscribe
  cases hc : b.cli? conn with
  | none => exact Ok.refl _ _
  | some c =>
    have hP : ∀ o : Out, o.conn = conn → (b.cli? o.conn).isSome = true := fun o ho => by rw [ho, hc]; rfl
    have hm := (cli?_some hc).1
    simp -zeta only
    extract_lets subID
    split
    · exact ok_kick _ _ _ hP
    · refine (Ok.of_keep (keep_foldl_pair b _ ?_ topics (b, []) rfl)).trans (ok_emit _ _ _ _ (hP _ rfl))
      intro acc t hcl
      extract_lets b_1 last sub code0 code1 code2 code3 existed subs b2 b3
      by_cases hcode : code3 ≥ 128
      · rw [if_pos hcode]; exact Keep.refl _
      · rw [if_neg hcode]
        show Keep acc.1 b3
        have h2 : Keep acc.1 b2 := by
          refine keep_setSubs acc.1 subs (fun cs hcs => ?_)
          simp only [subs, List.mem_append, List.mem_filter, List.mem_singleton] at hcs
          rcases hcs with hcs | rfl
          · exact .inl hcs.1
          · exact .inr ⟨c, by rw [hcl]; exact hm, rfl⟩
        refine h2.trans ?_
        simp only [b3]
        split
        · split
          · exact Keep.refl _
          · refine Keep.of_grow (grow_foldl _ (fun bb tm => ?_) _ _)
            split
            · exact Grow.refl _
            · exact (grow_setSess _ _).trans (grow_msgs_ats _ _ _)
        · exact Keep.refl _

end GmqttVerif.Broker
