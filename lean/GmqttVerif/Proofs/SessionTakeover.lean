import GmqttVerif.Model.Takeover
/-
  Helper lemmas for C05, interleaving part (`Model/Takeover.lean`): the inductive invariant of the repaired
  take-over protocol and the witness trace of the code as it was.
-/
namespace GmqttVerif.Takeover

@[simp] theorem upd_same {n : Nat} {α : Type} (f : Fin n → α) (i : Fin n) (v : α) : upd f i v i = v := by
  simp [upd]

theorem upd_other {n : Nat} {α : Type} (f : Fin n → α) (i j : Fin n) (v : α) (h : j ≠ i) : upd f i v j = f j := by
  simp [upd, h]

theorem upd_apply {n : Nat} {α : Type} (f : Fin n → α) (i j : Fin n) (v : α) :
    upd f i v j = if j = i then v else f j := rfl

/-- the inductive invariant of the repaired protocol (`asIs = false`) -/
structure Inv {n : Nat} (s : State n) : Prop where
  /-- `srv.clients[id]` designates exactly the attached process -/
  reg : ∀ i, s.registeredIn = some i ↔ attached s i
  /-- whoever has left `lockDuplicatedID` and not yet finished `registerClient` holds `srv.mu` -/
  locked : ∀ i, s.pc i = .locked → s.mu = some i
  /-- while `srv.mu` is held between the check and the registration nobody is registered -/
  held : s.mu ≠ none → s.registeredIn = none
  /-- no stored session, nobody registered -/
  nosess : s.session = false → s.registeredIn = none
  /-- the Unlock/Lock window does not exist -/
  norelock : ∀ i, s.pc i ≠ .relock

theorem inv_init (n : Nat) : Inv (init n) where
  reg := by intro i; simp [init, attached]
  locked := by intro i; simp [init]
  held := by simp [init]
  nosess := by simp [init]
  norelock := by intro i; simp [init]

theorem attached_upd {n : Nat} (s : State n) (i j : Fin n) (v : PC) (r : Option (Fin n)) (se : Bool)
    (m : Option (Fin n)) (k : Fin n → Bool) :
    attached ({ pc := upd s.pc i v, registeredIn := r, session := se, mu := m, killed := k } : State n) j ↔
      (if j = i then (v = .registered ∨ v = .closing) else attached s j) := by
  unfold attached
  by_cases h : j = i
  · subst h; simp
  · simp [upd_other _ _ _ _ h, h]

theorem pc_upd_ne {n : Nat} (pc : Fin n → PC) (i k : Fin n) (v w : PC) (hv : v ≠ w) (h : upd pc i v k = w) :
    k ≠ i ∧ pc k = w := by
  by_cases hk : k = i
  · subst hk; rw [upd_same] at h; exact absurd h hv
  · rw [upd_other _ _ _ _ hk] at h; exact ⟨hk, h⟩

/-- a step of a process that is not attached, to a program counter that is not attached either -/
theorem reg_upd_unattached {n : Nat} {s : State n} (hreg : ∀ i, s.registeredIn = some i ↔ attached s i)
    (i : Fin n) (v : PC) (hi : ¬ attached s i) (hv : ¬ (v = .registered ∨ v = .closing))
    (se : Bool) (m : Option (Fin n)) (kl : Fin n → Bool) (k : Fin n) :
    s.registeredIn = some k ↔
      attached ({ pc := upd s.pc i v, registeredIn := s.registeredIn, session := se, mu := m, killed := kl } : State n) k := by
  rw [attached_upd]
  by_cases hk : k = i
  · subst hk
    simp only [if_true, hv, iff_false]
    rw [hreg k]; exact hi
  · simp [hk, hreg k]

theorem inv_step {n : Nat} {s t : State n} (h : Inv s) (hst : Step false s t) : Inv t := by
  obtain ⟨hreg, hlocked, hheld, hnosess, hnorelock⟩ := h
  cases hst with
  | checkOnline i j hpc hmu hses hr =>
    refine ⟨?_, ?_, hheld, hnosess, ?_⟩
    · exact reg_upd_unattached hreg i _ (by simp [attached, hpc]) (by simp) _ _ _
    · intro k hk
      exact hlocked k (pc_upd_ne _ _ _ _ _ (by intro h; cases h) hk).2
    · intro k hk
      exact hnorelock k (pc_upd_ne _ _ _ _ _ (by intro h; cases h) hk).2
  | checkNoSession i hpc hmu hses =>
    refine ⟨?_, ?_, fun _ => hnosess hses, hnosess, ?_⟩
    · exact reg_upd_unattached hreg i _ (by simp [attached, hpc]) (by simp) _ _ _
    · intro k hk
      show some i = some k
      by_cases hki : k = i
      · rw [hki]
      · have hk' : upd s.pc i .locked k = .locked := hk
        rw [upd_other _ _ _ _ hki] at hk'
        have := hlocked k hk'
        rw [hmu] at this; cases this
    · intro k hk
      exact hnorelock k (pc_upd_ne _ _ _ _ _ (by intro h; cases h) hk).2
  | checkOffline i _ hpc hmu hses hr =>
    refine ⟨?_, ?_, fun _ => hr, hnosess, ?_⟩
    · exact reg_upd_unattached hreg i _ (by simp [attached, hpc]) (by simp) _ _ _
    · intro k hk
      show some i = some k
      by_cases hki : k = i
      · rw [hki]
      · have hk' : upd s.pc i .locked k = .locked := hk
        rw [upd_other _ _ _ _ hki] at hk'
        have := hlocked k hk'
        rw [hmu] at this; cases this
    · intro k hk
      exact hnorelock k (pc_upd_ne _ _ _ _ _ (by intro h; cases h) hk).2
  | checkOfflineUnlock i has => exact absurd has (by decide)
  | relock i hpc => exact absurd hpc (hnorelock i)
  | wake i j hpc hj =>
    refine ⟨?_, ?_, hheld, hnosess, ?_⟩
    · exact reg_upd_unattached hreg i _ (by simp [attached, hpc]) (by simp) _ _ _
    · intro k hk
      exact hlocked k (pc_upd_ne _ _ _ _ _ (by intro h; cases h) hk).2
    · intro k hk
      exact hnorelock k (pc_upd_ne _ _ _ _ _ (by intro h; cases h) hk).2
  | register i hpc hmu =>
    have hnone : s.registeredIn = none := hheld (by simp [hmu])
    refine ⟨?_, ?_, fun h => absurd rfl h, fun h => (by cases h), ?_⟩
    · intro k
      rw [attached_upd]
      by_cases hk : k = i
      · subst hk; simp
      · have : ¬ attached s k := by rw [← hreg k, hnone]; simp
        simp only [hk, if_false, this, iff_false, Option.some.injEq]
        exact fun h => hk h.symm
    · intro k hk
      have := pc_upd_ne _ _ _ _ _ (by intro h; cases h) hk
      have h2 := hlocked k this.2
      rw [hmu] at h2
      exact absurd (Option.some.inj h2).symm this.1
    · intro k hk
      exact hnorelock k (pc_upd_ne _ _ _ _ _ (by intro h; cases h) hk).2
  | die i hpc =>
    refine ⟨?_, ?_, hheld, hnosess, ?_⟩
    · intro k
      rw [attached_upd]
      by_cases hk : k = i
      · subst hk
        have : attached s k := .inl hpc
        simp [hreg k, this]
      · simp [hk, hreg k]
    · intro k hk
      exact hlocked k (pc_upd_ne _ _ _ _ _ (by intro h; cases h) hk).2
    · intro k hk
      exact hnorelock k (pc_upd_ne _ _ _ _ _ (by intro h; cases h) hk).2
  | unregister i keep hpc hmu =>
    have hi : s.registeredIn = some i := (hreg i).2 (.inr hpc)
    refine ⟨?_, ?_, fun _ => rfl, fun _ => rfl, ?_⟩
    · intro k
      rw [attached_upd]
      by_cases hk : k = i
      · subst hk; simp
      · have : ¬ attached s k := by
          rw [← hreg k, hi]
          intro h; exact hk (Option.some.inj h).symm
        simp [hk, this]
    · intro k hk
      exact hlocked k (pc_upd_ne _ _ _ _ _ (by intro h; cases h) hk).2
    · intro k hk
      exact hnorelock k (pc_upd_ne _ _ _ _ _ (by intro h; cases h) hk).2

theorem reachable_inv {n : Nat} {s : State n} (h : Reachable false s) : Inv s := by
  induction h with
  | init => exact inv_init n
  | step s t _ hst ih => exact inv_step ih hst

theorem reachable_exclusive (n : Nat) (s : State n) (h : Reachable false s) :
    (∀ i j, attached s i → attached s j → i = j) ∧
    (∀ i, s.registeredIn = some i ↔ attached s i) := by
  have hinv := reachable_inv h
  refine ⟨fun i j hi hj => ?_, hinv.reg⟩
  have h1 := (hinv.reg i).2 hi
  have h2 := (hinv.reg j).2 hj
  rw [h1] at h2
  exact Option.some.inj h2

theorem register_free (n : Nat) (s t : State n) (h : Reachable false s) (i : Fin n)
    (_hst : Step false s t) (hreg : s.pc i = .locked ∧ t.pc i = .registered) :
    ∀ j, j ≠ i → ¬ attached s j := by
  have hinv := reachable_inv h
  obtain ⟨hs, ht⟩ := hreg
  have hmu : s.mu = some i := hinv.locked i hs
  have hnone : s.registeredIn = none := hinv.held (by simp [hmu])
  intro j _ hj
  have := (hinv.reg j).2 hj
  rw [hnone] at this
  exact absurd this (by simp)

/-! ### the code as it was: two processes registered at once

With two processes the bad state is NOT reachable (a stored session can only be created by a process that registers,
and such a process ends in `done`; the two racing processes must both still be at `start` when a session exists).
With three processes: process 0 creates the session and leaves; 1 and 2 race through the Unlock/Lock window. -/

def w0 : State 3 := init 3
def w1 : State 3 := { w0 with pc := upd w0.pc 0 .locked, mu := some 0 }
def w2 : State 3 := { w1 with pc := upd w1.pc 0 .registered, registeredIn := some 0, session := true, mu := none }
def w3 : State 3 := { w2 with pc := upd w2.pc 0 .closing }
def w4 : State 3 := { w3 with pc := upd w3.pc 0 .done, registeredIn := none, session := true }
def w5 : State 3 := { w4 with pc := upd w4.pc 1 .relock }
def w6 : State 3 := { w5 with pc := upd w5.pc 2 .relock }
def w7 : State 3 := { w6 with pc := upd w6.pc 1 .locked, mu := some 1 }
def w8 : State 3 := { w7 with pc := upd w7.pc 1 .registered, registeredIn := some 1, session := true, mu := none }
def w9 : State 3 := { w8 with pc := upd w8.pc 2 .locked, mu := some 2 }
def w10 : State 3 := { w9 with pc := upd w9.pc 2 .registered, registeredIn := some 2, session := true, mu := none }

theorem as_is_two_registered :
    ∃ s : State 3, Reachable true s ∧ s.pc 1 = .registered ∧ s.pc 2 = .registered := by
  have r0 : Reachable true w0 := .init
  have r1 : Reachable true w1 := .step _ _ r0 (.checkNoSession w0 0 rfl rfl rfl)
  have r2 : Reachable true w2 := .step _ _ r1 (.register w1 0 rfl rfl)
  have r3 : Reachable true w3 := .step _ _ r2 (.die w2 0 rfl)
  have r4 : Reachable true w4 := .step _ _ r3 (.unregister w3 0 true rfl rfl)
  have r5 : Reachable true w5 := .step _ _ r4 (.checkOfflineUnlock w4 1 rfl rfl rfl rfl rfl)
  have r6 : Reachable true w6 := .step _ _ r5 (.checkOfflineUnlock w5 2 rfl rfl rfl rfl rfl)
  have r7 : Reachable true w7 := .step _ _ r6 (.relock w6 1 rfl rfl)
  have r8 : Reachable true w8 := .step _ _ r7 (.register w7 1 rfl rfl)
  have r9 : Reachable true w9 := .step _ _ r8 (.relock w8 2 rfl rfl)
  have r10 : Reachable true w10 := .step _ _ r9 (.register w9 2 rfl rfl)
  exact ⟨w10, r10, rfl, rfl⟩

end GmqttVerif.Takeover
