import GmqttVerif.Model.Stats
import GmqttVerif.Proofs.AList
/-
  Helper lemmas for C20: sums over the per-client map, the contribution of one event to one counter,
  the gauge invariants, the session life-cycle.
-/
namespace GmqttVerif.Stats
open GmqttVerif

/-! ## sums over the client map -/

def sumN (l : List (String × CStats)) (f : CStats → Nat) : Nat :=
  match l with
  | [] => 0
  | p :: r => f p.2 + sumN r f

def sumI (l : List (String × CStats)) (f : CStats → Int) : Int :=
  match l with
  | [] => 0
  | p :: r => f p.2 + sumI r f

theorem sumN_del_of_absent (l : List (String × CStats)) (cid : String) (f : CStats → Nat)
    (h : AL.get cid l = none) : sumN (AL.del cid l) f = sumN l f := by
  rw [AL.del_eq_self h]

theorem sumI_del_of_absent (l : List (String × CStats)) (cid : String) (f : CStats → Int)
    (h : AL.get cid l = none) : sumI (AL.del cid l) f = sumI l f := by
  rw [AL.del_eq_self h]

/-- removing `cid` removes exactly its entry's share (nothing when it has no entry and `f {} = 0`) -/
theorem sumN_del (l : List (String × CStats)) (hn : AL.NodupKeys l) (cid : String) (f : CStats → Nat) (h0 : f {} = 0) :
    sumN (AL.del cid l) f + f ((AL.get cid l).getD {}) = sumN l f := by
  induction l with
  | nil => simp [AL.del, sumN, AL.get, h0]
  | cons p r ih =>
    obtain ⟨k, v⟩ := p
    have hn' : AL.NodupKeys r := by
      simp only [AL.NodupKeys, AL.keys, List.map_cons, List.nodup_cons] at hn ⊢; exact hn.2
    by_cases e : k = cid
    · subst e
      have hk : AL.get k r = none := by
        rw [AL.get_none_iff]
        simp only [AL.NodupKeys, AL.keys, List.map_cons, List.nodup_cons] at hn
        exact hn.1
      have : AL.del k ((k, v) :: r) = AL.del k r := by simp [AL.del]
      rw [this, sumN_del_of_absent r k f hk]
      simp [AL.get, sumN, Nat.add_comm]
    · have : AL.del cid ((k, v) :: r) = (k, v) :: AL.del cid r := by simp [AL.del, e]
      rw [this]
      simp only [sumN, AL.get, e, if_false]
      have := ih hn'
      omega

theorem sumI_del (l : List (String × CStats)) (hn : AL.NodupKeys l) (cid : String) (f : CStats → Int) (h0 : f {} = 0) :
    sumI (AL.del cid l) f + f ((AL.get cid l).getD {}) = sumI l f := by
  induction l with
  | nil => simp [AL.del, sumI, AL.get, h0]
  | cons p r ih =>
    obtain ⟨k, v⟩ := p
    have hn' : AL.NodupKeys r := by
      simp only [AL.NodupKeys, AL.keys, List.map_cons, List.nodup_cons] at hn ⊢; exact hn.2
    by_cases e : k = cid
    · subst e
      have hk : AL.get k r = none := by
        rw [AL.get_none_iff]
        simp only [AL.NodupKeys, AL.keys, List.map_cons, List.nodup_cons] at hn
        exact hn.1
      have : AL.del k ((k, v) :: r) = AL.del k r := by simp [AL.del]
      rw [this, sumI_del_of_absent r k f hk]
      simp [AL.get, sumI, Int.add_comm]
    · have : AL.del cid ((k, v) :: r) = (k, v) :: AL.del cid r := by simp [AL.del, e]
      rw [this]
      simp only [sumI, AL.get, e, if_false]
      have := ih hn'
      omega

theorem sumN_set (l : List (String × CStats)) (hn : AL.NodupKeys l) (cid : String) (v : CStats) (f : CStats → Nat) (h0 : f {} = 0) :
    sumN (AL.set cid v l) f + f ((AL.get cid l).getD {}) = sumN l f + f v := by
  have := sumN_del l hn cid f h0
  simp only [AL.set, sumN]
  omega

theorem sumI_set (l : List (String × CStats)) (hn : AL.NodupKeys l) (cid : String) (v : CStats) (f : CStats → Int) (h0 : f {} = 0) :
    sumI (AL.set cid v l) f + f ((AL.get cid l).getD {}) = sumI l f + f v := by
  have := sumI_del l hn cid f h0
  simp only [AL.set, sumI]
  omega

theorem sumI_nonneg (l : List (String × CStats)) (f : CStats → Int) (h : ∀ p ∈ l, 0 ≤ f p.2) : 0 ≤ sumI l f := by
  induction l with
  | nil => simp [sumI]
  | cons p r ih =>
    simp only [sumI]
    have h1 := h p (by simp)
    have h2 := ih (fun q hq => h q (by simp [hq]))
    omega

/-! ## one event, one counter -/

/-- what `PacketStats.add` adds to counter `k` -/
def pktW (recv : Bool) (t : PType) (b : Nat) (k : Key) : Nat :=
  if recv then
    (if k = .bytesIn (some t) then b else 0) + (if k = .pktsIn (some t) then 1 else 0) +
    (if k = .bytesIn none then b else 0) + (if k = .pktsIn none then 1 else 0)
  else
    (if k = .bytesOut (some t) then b else 0) + (if k = .pktsOut (some t) then 1 else 0) +
    (if k = .bytesOut none then b else 0) + (if k = .pktsOut none then 1 else 0)

/-- what the event adds to the GLOBAL cumulative counter `k` -/
def gw (k : Key) : Event → Nat
  | .packetReceived _ t b => pktW true t b k
  | .packetSent _ t b => pktW false t b k
  | .messageReceived _ q => if qosOk q ∧ k = .msgIn q then 1 else 0
  | .messageSent _ q => if qosOk q ∧ k = .msgOut q then 1 else 0
  | .messageDropped _ q r => if qosOk q ∧ k = .dropped q r then 1 else 0
  | _ => 0

/-- what the event adds to client `cid`'s cumulative counter `k` -/
def cw (fx : Fix) (cid : String) (k : Key) : Event → Nat
  | .packetReceived c t b => if c = cid then pktW true t b k else 0
  | .packetSent c t b => if c = cid then pktW false t b k else 0
  | .messageReceived c q => if c = cid ∧ qosOk q ∧ k = .msgIn (if fx.qos then q else 0) then 1 else 0
  | .messageSent c q => if c = cid ∧ qosOk q ∧ k = .msgOut (if fx.qos then q else 0) then 1 else 0
  | .messageDropped c q r => if c = cid ∧ qosOk q ∧ k = .dropped q r then 1 else 0
  | _ => 0

theorem cw_msgIn (cid : String) (q : Nat) (hok : qosOk q = true) (e : Event) :
    cw Fix.all cid (.msgIn q) e = if e = .messageReceived cid q then 1 else 0 := by
  cases e with
  | packetReceived c t b => simp [cw, pktW]
  | packetSent c t b => simp [cw, pktW]
  | messageReceived c q' =>
    simp only [cw, Fix.all, if_true, Key.msgIn.injEq, Event.messageReceived.injEq]
    by_cases h1 : c = cid <;> by_cases h2 : q' = q
    · subst h1; subst h2; simp [hok]
    · have : ¬ q = q' := fun e => h2 e.symm
      simp [h1, h2, this]
    · simp [h1]
    · simp [h1]
  | messageSent c q' => simp [cw]
  | messageDropped c q' r => simp [cw]
  | _ => simp [cw]

theorem cw_msgOut (cid : String) (q : Nat) (hok : qosOk q = true) (e : Event) :
    cw Fix.all cid (.msgOut q) e = if e = .messageSent cid q then 1 else 0 := by
  cases e with
  | packetReceived c t b => simp [cw, pktW]
  | packetSent c t b => simp [cw, pktW]
  | messageSent c q' =>
    simp only [cw, Fix.all, if_true, Key.msgOut.injEq, Event.messageSent.injEq]
    by_cases h1 : c = cid <;> by_cases h2 : q' = q
    · subst h1; subst h2; simp [hok]
    · have : ¬ q = q' := fun e => h2 e.symm
      simp [h1, h2, this]
    · simp [h1]
    · simp [h1]
  | messageReceived c q' => simp [cw]
  | messageDropped c q' r => simp [cw]
  | _ => simp [cw]

theorem cw_dropped (cid : String) (q : Nat) (r : Reason) (hok : qosOk q = true) (e : Event) :
    cw Fix.all cid (.dropped q r) e = if e = .messageDropped cid q r then 1 else 0 := by
  cases e with
  | packetReceived c t b => simp [cw, pktW]
  | packetSent c t b => simp [cw, pktW]
  | messageDropped c q' r' =>
    simp only [cw, Key.dropped.injEq, Event.messageDropped.injEq]
    by_cases h1 : c = cid <;> by_cases h2 : q' = q <;> by_cases h3 : r' = r
    · subst h1; subst h2; subst h3; simp [hok]
    · have : ¬ r = r' := fun e => h3 e.symm
      simp [h1, h2, h3, this]
    · have : ¬ q = q' := fun e => h2 e.symm
      simp [h1, h2, this]
    · have : ¬ q = q' := fun e => h2 e.symm
      simp [h1, h2, this]
    · simp [h1]
    · simp [h1]
    · simp [h1]
    · simp [h1]
  | messageReceived c q' => simp [cw]
  | messageSent c q' => simp [cw]
  | _ => simp [cw]

@[simp] theorem bump_cum (c : CStats) (k' : Key) (n : Nat) (k : Key) :
    (c.bump k' n).cum k = c.cum k + (if k = k' then n else 0) := by
  simp only [CStats.bump]
  split <;> simp

@[simp] theorem bump_inflight (c : CStats) (k : Key) (n : Nat) : (c.bump k n).inflight = c.inflight := rfl
@[simp] theorem bump_queued (c : CStats) (k : Key) (n : Nat) : (c.bump k n).queued = c.queued := rfl

theorem addPacket_cum (c : CStats) (recv : Bool) (t : PType) (b : Nat) (k : Key) :
    (addPacket c recv t b).cum k = c.cum k + pktW recv t b k := by
  cases recv <;> simp [addPacket, pktW] <;> omega

@[simp] theorem addPacket_inflight (c : CStats) (recv : Bool) (t : PType) (b : Nat) : (addPacket c recv t b).inflight = c.inflight := by
  cases recv <;> simp [addPacket]
@[simp] theorem addPacket_queued (c : CStats) (recv : Bool) (t : PType) (b : Nat) : (addPacket c recv t b).queued = c.queued := by
  cases recv <;> simp [addPacket]

/-- the entry of `cid'` after `updClient cid f` -/
theorem client_updClient (s : Stats) (cid cid' : String) (f : CStats → CStats) :
    (s.updClient cid f).client cid' = if cid' = cid then f (s.client cid) else s.client cid' := by
  simp only [Stats.updClient, Stats.client, AL.get_set]
  by_cases e : cid' = cid
  · subst e; simp
  · have : ¬ cid = cid' := fun h => e h.symm
    simp [e, this]

@[simp] theorem client_withG (s : Stats) (g' : CStats) (c : String) : ({ s with g := g' } : Stats).client c = s.client c := rfl

theorem client_del (s : Stats) (cid cid' : String) :
    ({ s with clients := AL.del cid s.clients } : Stats).client cid' = if cid' = cid then {} else s.client cid' := by
  simp only [Stats.client, AL.get_del]
  by_cases e : cid' = cid
  · subst e; simp
  · have : ¬ cid = cid' := fun h => e h.symm
    simp [e, this]

/-! ## global cumulative counters = retired + Σ live entries -/

/-- the statistics plus a ghost: the counters of the per-client entries deleted so far (`sessionTerminated`) -/
structure GS where
  s : Stats := {}
  retired : Key → Nat := fun _ => 0

def GS.apply (fx : Fix) (g : GS) (e : Event) : GS :=
  { s := g.s.apply fx e,
    retired := match e with
      | .sessionTerminated cid _ => fun k => g.retired k + (g.s.client cid).cum k
      | _ => g.retired }

def GS.run (fx : Fix) (g : GS) (log : List Event) : GS := log.foldl (GS.apply fx) g

theorem GS.run_s (fx : Fix) (g : GS) (log : List Event) : (GS.run fx g log).s = g.s.run fx log := by
  induction log generalizing g with
  | nil => rfl
  | cons e r ih => simp only [GS.run, List.foldl_cons, Stats.run] at ih ⊢; rw [ih]; rfl

structure SumInv (g : GS) : Prop where
  nodup : AL.NodupKeys g.s.clients
  cum : ∀ k, g.s.g.cum k = g.retired k + sumN g.s.clients (fun c => c.cum k)

theorem upd_sum (s : Stats) (hn : AL.NodupKeys s.clients) (cid : String) (f : CStats → CStats) (k : Key) :
    sumN (s.updClient cid f).clients (fun c => c.cum k) + (s.client cid).cum k =
      sumN s.clients (fun c => c.cum k) + (f (s.client cid)).cum k := by
  simpa [Stats.updClient, Stats.client] using sumN_set s.clients hn cid (f (s.client cid)) (fun c => c.cum k) rfl

theorem nodup_updClient (s : Stats) (hn : AL.NodupKeys s.clients) (cid : String) (f : CStats → CStats) :
    AL.NodupKeys (s.updClient cid f).clients := AL.nodupKeys_set cid _ hn

/-- an update of one entry and of the global structure by the same amount keeps the sum invariant -/
theorem sumInv_upd (g : GS) (hi : SumInv g) (cid : String) (gnew : CStats) (f : CStats → CStats) (w : Key → Nat)
    (hg : ∀ k, gnew.cum k = g.s.g.cum k + w k) (hf : ∀ k, (f (g.s.client cid)).cum k = (g.s.client cid).cum k + w k) :
    SumInv { s := ({ g.s with g := gnew } : Stats).updClient cid f, retired := g.retired } := by
  refine ⟨nodup_updClient _ hi.nodup cid f, ?_⟩
  intro k
  have h1 := upd_sum ({ g.s with g := gnew } : Stats) hi.nodup cid f k
  have h2 := hi.cum k
  have h3 := hg k
  have h4 := hf k
  simp only [Stats.updClient, Stats.client] at h1 h4 ⊢
  omega

theorem sumInv_step (g : GS) (hi : SumInv g) (e : Event) : SumInv (g.apply Fix.all e) := by
  cases e with
  | packetReceived cid t b =>
    exact sumInv_upd g hi cid (addPacket g.s.g true t b) (fun c => addPacket c true t b) (pktW true t b)
      (fun k => addPacket_cum _ _ _ _ k) (fun k => addPacket_cum _ _ _ _ k)
  | packetSent cid t b =>
    exact sumInv_upd g hi cid (addPacket g.s.g false t b) (fun c => addPacket c false t b) (pktW false t b)
      (fun k => addPacket_cum _ _ _ _ k) (fun k => addPacket_cum _ _ _ _ k)
  | messageReceived cid q =>
    simp only [GS.apply, Stats.apply, Fix.all]
    split
    · exact hi
    · exact sumInv_upd g hi cid (g.s.g.bump (.msgIn q) 1) (fun c => c.bump (.msgIn q) 1) (fun k => if k = .msgIn q then 1 else 0)
        (fun k => by simp) (fun k => by simp)
  | messageSent cid q =>
    simp only [GS.apply, Stats.apply, Fix.all]
    split
    · exact hi
    · exact sumInv_upd g hi cid (g.s.g.bump (.msgOut q) 1) (fun c => c.bump (.msgOut q) 1) (fun k => if k = .msgOut q then 1 else 0)
        (fun k => by simp) (fun k => by simp)
  | messageDropped cid q r =>
    simp only [GS.apply, Stats.apply]
    split
    · exact hi
    · exact sumInv_upd g hi cid (g.s.g.bump (.dropped q r) 1) (fun c => c.bump (.dropped q r) 1) (fun k => if k = .dropped q r then 1 else 0)
        (fun k => by simp) (fun k => by simp)
  | addInflight cid d =>
    exact sumInv_upd g hi cid { g.s.g with inflight := g.s.g.inflight + (if Fix.all.delta then (d : Int) else 1) }
      (fun c => { c with inflight := c.inflight + d }) (fun _ => 0) (fun k => by simp) (fun k => by simp)
  | decInflight cid d =>
    simp only [GS.apply, Stats.apply]
    split
    · exact sumInv_upd g hi cid g.s.g id (fun _ => 0) (fun k => by simp) (fun k => by simp)
    · exact sumInv_upd g hi cid { g.s.g with inflight := g.s.g.inflight - d } (fun c => { c with inflight := c.inflight - d })
        (fun _ => 0) (fun k => by simp) (fun k => by simp)
  | addQueueLen cid d =>
    exact sumInv_upd g hi cid { g.s.g with queued := g.s.g.queued + d } (fun c => { c with queued := c.queued + d })
      (fun _ => 0) (fun k => by simp) (fun k => by simp)
  | decQueueLen cid d =>
    simp only [GS.apply, Stats.apply]
    split
    · exact sumInv_upd g hi cid g.s.g id (fun _ => 0) (fun k => by simp) (fun k => by simp)
    · exact sumInv_upd g hi cid { g.s.g with queued := g.s.g.queued - d } (fun c => { c with queued := c.queued - d })
        (fun _ => 0) (fun k => by simp) (fun k => by simp)
  | clientConnected cid => exact ⟨hi.nodup, hi.cum⟩
  | clientDisconnected cid => exact ⟨hi.nodup, hi.cum⟩
  | sessionActive create =>
    simp only [GS.apply, Stats.apply]
    split <;> exact ⟨hi.nodup, hi.cum⟩
  | sessionTerminated cid r =>
    refine ⟨AL.nodupKeys_del cid hi.nodup, ?_⟩
    intro k
    have h1 := sumN_del g.s.clients hi.nodup cid (fun c => c.cum k) rfl
    have h2 := hi.cum k
    simp only [GS.apply, Stats.apply, Fix.all, Stats.client, if_true] at h1 ⊢
    omega

theorem sumInv_run (g : GS) (hi : SumInv g) (log : List Event) : SumInv (GS.run Fix.all g log) := by
  induction log generalizing g with
  | nil => exact hi
  | cons e r ih => exact ih _ (sumInv_step g hi e)

/-! ## a client's cumulative counter = its events since its session began -/

/-- running value of client `cid`'s counter `k`: reset by the termination of its session, otherwise `+ cw` -/
def clientStep (fx : Fix) (cid : String) (k : Key) (acc : Nat) : Event → Nat
  | .sessionTerminated c _ => if c = cid then 0 else acc
  | e => acc + cw fx cid k e

def clientTotal (fx : Fix) (cid : String) (k : Key) (acc : Nat) (log : List Event) : Nat :=
  log.foldl (clientStep fx cid k) acc

/-- running value of the global counter `k` -/
def globalTotal (k : Key) (acc : Nat) (log : List Event) : Nat := log.foldl (fun a e => a + gw k e) acc

theorem client_step (fx : Fix) (s : Stats) (cid : String) (k : Key) (e : Event) :
    ((s.apply fx e).client cid).cum k = clientStep fx cid k ((s.client cid).cum k) e := by
  cases e with
  | packetReceived c t b =>
    simp only [Stats.apply, client_updClient, clientStep, cw]
    by_cases h : cid = c
    · subst h; simp [addPacket_cum, Stats.client]
    · have : ¬ c = cid := fun e => h e.symm
      simp [h, this, Stats.client]
  | packetSent c t b =>
    simp only [Stats.apply, client_updClient, clientStep, cw]
    by_cases h : cid = c
    · subst h; simp [addPacket_cum, Stats.client]
    · have : ¬ c = cid := fun e => h e.symm
      simp [h, this, Stats.client]
  | messageReceived c q =>
    simp only [Stats.apply, clientStep, cw]
    by_cases hq : qosOk q = true
    · simp only [hq, Bool.not_true, Bool.false_eq_true, if_false, client_updClient]
      by_cases h : cid = c
      · subst h; simp [Stats.client]
      · have : ¬ c = cid := fun e => h e.symm
        simp [h, this, Stats.client]
    · simp [hq]
  | messageSent c q =>
    simp only [Stats.apply, clientStep, cw]
    by_cases hq : qosOk q = true
    · simp only [hq, Bool.not_true, Bool.false_eq_true, if_false, client_updClient]
      by_cases h : cid = c
      · subst h; simp [Stats.client]
      · have : ¬ c = cid := fun e => h e.symm
        simp [h, this, Stats.client]
    · simp [hq]
  | messageDropped c q r =>
    simp only [Stats.apply, clientStep, cw]
    by_cases hq : qosOk q = true
    · simp only [hq, Bool.not_true, Bool.false_eq_true, if_false, client_updClient]
      by_cases h : cid = c
      · subst h; simp [Stats.client]
      · have : ¬ c = cid := fun e => h e.symm
        simp [h, this, Stats.client]
    · simp [hq]
  | addInflight c d =>
    simp only [Stats.apply, client_updClient, clientStep, cw]
    by_cases h : cid = c
    · subst h; simp [Stats.client]
    · simp [h, Stats.client]
  | decInflight c d =>
    simp only [Stats.apply, clientStep, cw]
    split <;> simp only [client_updClient] <;> by_cases h : cid = c <;> simp [h, Stats.client]
  | addQueueLen c d =>
    simp only [Stats.apply, client_updClient, clientStep, cw]
    by_cases h : cid = c
    · subst h; simp [Stats.client]
    · simp [h, Stats.client]
  | decQueueLen c d =>
    simp only [Stats.apply, clientStep, cw]
    split <;> simp only [client_updClient] <;> by_cases h : cid = c <;> simp [h, Stats.client]
  | clientConnected c => simp [Stats.apply, clientStep, cw, Stats.client]
  | clientDisconnected c => simp [Stats.apply, clientStep, cw, Stats.client]
  | sessionActive create => simp only [Stats.apply, clientStep, cw]; split <;> simp [Stats.client]
  | sessionTerminated c r =>
    simp only [Stats.apply, clientStep]
    by_cases h : cid = c
    · subst h; simp [Stats.client, AL.get_del_self]
    · have : ¬ c = cid := fun e => h e.symm
      simp [Stats.client, AL.get_del, h, this]

theorem client_run (fx : Fix) (s : Stats) (cid : String) (k : Key) (log : List Event) :
    ((s.run fx log).client cid).cum k = clientTotal fx cid k ((s.client cid).cum k) log := by
  induction log generalizing s with
  | nil => rfl
  | cons e r ih =>
    simp only [Stats.run, List.foldl_cons, clientTotal] at ih ⊢
    rw [ih, client_step]

theorem global_step (fx : Fix) (s : Stats) (k : Key) (e : Event) :
    (s.apply fx e).g.cum k = s.g.cum k + gw k e := by
  cases e with
  | packetReceived c t b => simp [Stats.apply, Stats.updClient, gw, addPacket_cum]
  | packetSent c t b => simp [Stats.apply, Stats.updClient, gw, addPacket_cum]
  | messageReceived c q =>
    simp only [Stats.apply, gw]
    by_cases hq : qosOk q = true <;> simp [hq, Stats.updClient]
  | messageSent c q =>
    simp only [Stats.apply, gw]
    by_cases hq : qosOk q = true <;> simp [hq, Stats.updClient]
  | messageDropped c q r =>
    simp only [Stats.apply, gw]
    by_cases hq : qosOk q = true <;> simp [hq, Stats.updClient]
  | addInflight c d => simp [Stats.apply, Stats.updClient, gw]
  | decInflight c d => simp only [Stats.apply, gw]; split <;> simp [Stats.updClient]
  | addQueueLen c d => simp [Stats.apply, Stats.updClient, gw]
  | decQueueLen c d => simp only [Stats.apply, gw]; split <;> simp [Stats.updClient]
  | clientConnected c => simp [Stats.apply, gw]
  | clientDisconnected c => simp [Stats.apply, gw]
  | sessionActive create => simp only [Stats.apply, gw]; split <;> simp
  | sessionTerminated c r => simp only [Stats.apply, gw]; split <;> simp

theorem global_run (fx : Fix) (s : Stats) (k : Key) (log : List Event) :
    (s.run fx log).g.cum k = globalTotal k (s.g.cum k) log := by
  induction log generalizing s with
  | nil => rfl
  | cons e r ih =>
    simp only [Stats.run, List.foldl_cons, globalTotal] at ih ⊢
    rw [ih, global_step]

/-! ## gauges: global = Σ live entries (repaired code), per client = adds − decs -/

structure GaugeInv (s : Stats) : Prop where
  nodup : AL.NodupKeys s.clients
  infl : s.g.inflight = sumI s.clients (fun c => c.inflight)
  queued : s.g.queued = sumI s.clients (fun c => c.queued)

theorem upd_sumI (s : Stats) (hn : AL.NodupKeys s.clients) (cid : String) (f : CStats → CStats) (p : CStats → Int) (h0 : p {} = 0) :
    sumI (s.updClient cid f).clients p + p (s.client cid) = sumI s.clients p + p (f (s.client cid)) := by
  simpa [Stats.updClient, Stats.client] using sumI_set s.clients hn cid (f (s.client cid)) p h0

/-- an entry update that moves the entry's gauges by (di, dq) together with the same move of the global gauges -/
theorem gaugeInv_upd (s : Stats) (hi : GaugeInv s) (cid : String) (gnew : CStats) (f : CStats → CStats) (di dq : Int)
    (hgi : gnew.inflight = s.g.inflight + di) (hgq : gnew.queued = s.g.queued + dq)
    (hfi : (f (s.client cid)).inflight = (s.client cid).inflight + di)
    (hfq : (f (s.client cid)).queued = (s.client cid).queued + dq) :
    GaugeInv (({ s with g := gnew } : Stats).updClient cid f) := by
  have h1 := upd_sumI ({ s with g := gnew } : Stats) hi.nodup cid f (fun c => c.inflight) rfl
  have h2 := upd_sumI ({ s with g := gnew } : Stats) hi.nodup cid f (fun c => c.queued) rfl
  have h3 := hi.infl
  have h4 := hi.queued
  refine ⟨nodup_updClient _ hi.nodup cid f, ?_, ?_⟩
  · simp only [Stats.updClient, Stats.client] at h1 hfi ⊢; omega
  · simp only [Stats.updClient, Stats.client] at h2 hfq ⊢; omega

theorem gaugeInv_step (s : Stats) (hi : GaugeInv s) (e : Event) : GaugeInv (s.apply Fix.all e) := by
  cases e with
  | packetReceived cid t b =>
    exact gaugeInv_upd s hi cid (addPacket s.g true t b) (fun c => addPacket c true t b) 0 0 (by simp) (by simp) (by simp) (by simp)
  | packetSent cid t b =>
    exact gaugeInv_upd s hi cid (addPacket s.g false t b) (fun c => addPacket c false t b) 0 0 (by simp) (by simp) (by simp) (by simp)
  | messageReceived cid q =>
    simp only [Stats.apply, Fix.all]
    split
    · exact hi
    · exact gaugeInv_upd s hi cid (s.g.bump (.msgIn q) 1) (fun c => c.bump (.msgIn q) 1) 0 0 (by simp) (by simp) (by simp) (by simp)
  | messageSent cid q =>
    simp only [Stats.apply, Fix.all]
    split
    · exact hi
    · exact gaugeInv_upd s hi cid (s.g.bump (.msgOut q) 1) (fun c => c.bump (.msgOut q) 1) 0 0 (by simp) (by simp) (by simp) (by simp)
  | messageDropped cid q r =>
    simp only [Stats.apply]
    split
    · exact hi
    · exact gaugeInv_upd s hi cid (s.g.bump (.dropped q r) 1) (fun c => c.bump (.dropped q r) 1) 0 0 (by simp) (by simp) (by simp) (by simp)
  | addInflight cid d =>
    exact gaugeInv_upd s hi cid { s.g with inflight := s.g.inflight + (if Fix.all.delta then (d : Int) else 1) }
      (fun c => { c with inflight := c.inflight + d }) d 0 (by simp [Fix.all]) (by simp) (by simp) (by simp)
  | decInflight cid d =>
    simp only [Stats.apply]
    split
    · exact gaugeInv_upd s hi cid s.g id 0 0 (by simp) (by simp) (by simp) (by simp)
    · exact gaugeInv_upd s hi cid { s.g with inflight := s.g.inflight - d } (fun c => { c with inflight := c.inflight - d }) (-(d : Int)) 0
        (by simp; omega) (by simp) (by simp; omega) (by simp)
  | addQueueLen cid d =>
    exact gaugeInv_upd s hi cid { s.g with queued := s.g.queued + d } (fun c => { c with queued := c.queued + d }) 0 d
      (by simp) (by simp) (by simp) (by simp)
  | decQueueLen cid d =>
    simp only [Stats.apply]
    split
    · exact gaugeInv_upd s hi cid s.g id 0 0 (by simp) (by simp) (by simp) (by simp)
    · exact gaugeInv_upd s hi cid { s.g with queued := s.g.queued - d } (fun c => { c with queued := c.queued - d }) 0 (-(d : Int))
        (by simp) (by simp; omega) (by simp) (by simp; omega)
  | clientConnected cid => exact ⟨hi.nodup, hi.infl, hi.queued⟩
  | clientDisconnected cid => exact ⟨hi.nodup, hi.infl, hi.queued⟩
  | sessionActive create =>
    simp only [Stats.apply]
    split <;> exact ⟨hi.nodup, hi.infl, hi.queued⟩
  | sessionTerminated cid r =>
    have h1 := sumI_del s.clients hi.nodup cid (fun c => c.inflight) rfl
    have h2 := sumI_del s.clients hi.nodup cid (fun c => c.queued) rfl
    have h3 := hi.infl
    have h4 := hi.queued
    refine ⟨AL.nodupKeys_del cid hi.nodup, ?_, ?_⟩
    · simp only [Stats.apply, Fix.all, Stats.client, if_true] at h1 ⊢; omega
    · simp only [Stats.apply, Fix.all, Stats.client, if_true] at h2 ⊢; omega

theorem gaugeInv_run (s : Stats) (hi : GaugeInv s) (log : List Event) : GaugeInv (s.run Fix.all log) := by
  induction log generalizing s with
  | nil => exact hi
  | cons e r ih => exact ih _ (gaugeInv_step s hi e)

/-- the ideal per-client gauges: every `add` counted, every `dec` subtracted, reset when the session ends -/
structure Tr where
  infl : String → Int := fun _ => 0
  queued : String → Int := fun _ => 0

def Tr.step (t : Tr) : Event → Tr
  | .addInflight c d => { t with infl := fun x => if x = c then t.infl x + d else t.infl x }
  | .decInflight c d => { t with infl := fun x => if x = c then t.infl x - d else t.infl x }
  | .addQueueLen c d => { t with queued := fun x => if x = c then t.queued x + d else t.queued x }
  | .decQueueLen c d => { t with queued := fun x => if x = c then t.queued x - d else t.queued x }
  | .sessionTerminated c _ => { infl := fun x => if x = c then 0 else t.infl x, queued := fun x => if x = c then 0 else t.queued x }
  | _ => t

def Tr.run (t : Tr) (log : List Event) : Tr := log.foldl Tr.step t

/-- a log the broker can produce: a gauge is decremented only by what was added before ("dec only after a matching add") -/
def WFG (t : Tr) : List Event → Prop
  | [] => True
  | e :: r =>
    (match e with
     | .decInflight c d => (d : Int) ≤ t.infl c
     | .decQueueLen c d => (d : Int) ≤ t.queued c
     | _ => True) ∧ WFG (t.step e) r

instance WFG.dec : (t : Tr) → (log : List Event) → Decidable (WFG t log)
  | _, [] => isTrue trivial
  | t, e :: r =>
    have : Decidable (match e with
      | .decInflight c d => (d : Int) ≤ t.infl c
      | .decQueueLen c d => (d : Int) ≤ t.queued c
      | _ => True) := by cases e <;> simp only <;> infer_instance
    have := WFG.dec (t.step e) r
    inferInstanceAs (Decidable (_ ∧ _))

structure TrInv (s : Stats) (t : Tr) : Prop where
  infl : ∀ c, (s.client c).inflight = t.infl c
  queued : ∀ c, (s.client c).queued = t.queued c
  inflNN : ∀ c, 0 ≤ t.infl c
  queuedNN : ∀ c, 0 ≤ t.queued c

/-- client `c`'s in-flight gauge after one event, as the code computes it (with the `== 0` guard) -/
def inflStep (c : String) (cur : Int) : Event → Int
  | .addInflight x d => if x = c then cur + d else cur
  | .decInflight x d => if x = c then (if cur == 0 then cur else cur - d) else cur
  | .sessionTerminated x _ => if x = c then 0 else cur
  | _ => cur

def queuedStep (c : String) (cur : Int) : Event → Int
  | .addQueueLen x d => if x = c then cur + d else cur
  | .decQueueLen x d => if x = c then (if cur == 0 then cur else cur - d) else cur
  | .sessionTerminated x _ => if x = c then 0 else cur
  | _ => cur

theorem infl_step (fx : Fix) (s : Stats) (c : String) (e : Event) :
    ((s.apply fx e).client c).inflight = inflStep c ((s.client c).inflight) e := by
  cases e with
  | packetReceived x t b =>
    simp only [Stats.apply, client_updClient, inflStep]
    by_cases h : c = x
    · subst h; simp [Stats.client]
    · simp [h, Stats.client]
  | packetSent x t b =>
    simp only [Stats.apply, client_updClient, inflStep]
    by_cases h : c = x
    · subst h; simp [Stats.client]
    · simp [h, Stats.client]
  | messageReceived x q =>
    simp only [Stats.apply, inflStep]
    split
    · rfl
    · simp only [client_updClient]; by_cases h : c = x
      · subst h; simp [Stats.client]
      · simp [h, Stats.client]
  | messageSent x q =>
    simp only [Stats.apply, inflStep]
    split
    · rfl
    · simp only [client_updClient]; by_cases h : c = x
      · subst h; simp [Stats.client]
      · simp [h, Stats.client]
  | messageDropped x q r =>
    simp only [Stats.apply, inflStep]
    split
    · rfl
    · simp only [client_updClient]; by_cases h : c = x
      · subst h; simp [Stats.client]
      · simp [h, Stats.client]
  | addInflight x d =>
    simp only [Stats.apply, client_updClient, inflStep]
    by_cases h : c = x
    · subst h; simp [Stats.client]
    · have : ¬ x = c := fun e => h e.symm
      simp [h, this, Stats.client]
  | decInflight x d =>
    simp only [Stats.apply, inflStep]
    by_cases h : c = x
    · subst h
      by_cases hz : ((s.client c).inflight == 0) = true
      · simp only [hz, if_true, client_updClient, id]
      · simp only [hz, Bool.false_eq_true, if_false, client_updClient, if_true, client_withG]
    · have hx : ¬ x = c := fun e => h e.symm
      split <;> simp only [client_updClient, h, hx, if_false, client_withG]
  | addQueueLen x d =>
    simp only [Stats.apply, client_updClient, inflStep]
    by_cases h : c = x
    · subst h; simp [Stats.client]
    · simp [h, Stats.client]
  | decQueueLen x d =>
    simp only [Stats.apply, inflStep]
    split <;> simp only [client_updClient] <;> by_cases h : c = x <;> simp [h, Stats.client]
  | clientConnected x => simp [Stats.apply, inflStep, Stats.client]
  | clientDisconnected x => simp [Stats.apply, inflStep, Stats.client]
  | sessionActive create => simp only [Stats.apply, inflStep]; split <;> simp [Stats.client]
  | sessionTerminated x r =>
    simp only [Stats.apply, inflStep]
    by_cases h : c = x
    · subst h; simp [Stats.client, AL.get_del_self]
    · have : ¬ x = c := fun e => h e.symm
      simp [Stats.client, AL.get_del, h, this]

theorem queued_step (fx : Fix) (s : Stats) (c : String) (e : Event) :
    ((s.apply fx e).client c).queued = queuedStep c ((s.client c).queued) e := by
  cases e with
  | packetReceived x t b =>
    simp only [Stats.apply, client_updClient, queuedStep]
    by_cases h : c = x
    · subst h; simp [Stats.client]
    · simp [h, Stats.client]
  | packetSent x t b =>
    simp only [Stats.apply, client_updClient, queuedStep]
    by_cases h : c = x
    · subst h; simp [Stats.client]
    · simp [h, Stats.client]
  | messageReceived x q =>
    simp only [Stats.apply, queuedStep]
    split
    · rfl
    · simp only [client_updClient]; by_cases h : c = x
      · subst h; simp [Stats.client]
      · simp [h, Stats.client]
  | messageSent x q =>
    simp only [Stats.apply, queuedStep]
    split
    · rfl
    · simp only [client_updClient]; by_cases h : c = x
      · subst h; simp [Stats.client]
      · simp [h, Stats.client]
  | messageDropped x q r =>
    simp only [Stats.apply, queuedStep]
    split
    · rfl
    · simp only [client_updClient]; by_cases h : c = x
      · subst h; simp [Stats.client]
      · simp [h, Stats.client]
  | addInflight x d =>
    simp only [Stats.apply, client_updClient, queuedStep]
    by_cases h : c = x
    · subst h; simp [Stats.client]
    · simp [h, Stats.client]
  | decInflight x d =>
    simp only [Stats.apply, queuedStep]
    split <;> simp only [client_updClient] <;> by_cases h : c = x <;> simp [h, Stats.client]
  | addQueueLen x d =>
    simp only [Stats.apply, client_updClient, queuedStep]
    by_cases h : c = x
    · subst h; simp [Stats.client]
    · have : ¬ x = c := fun e => h e.symm
      simp [h, this, Stats.client]
  | decQueueLen x d =>
    simp only [Stats.apply, queuedStep]
    by_cases h : c = x
    · subst h
      by_cases hz : ((s.client c).queued == 0) = true
      · simp only [hz, if_true, client_updClient, id]
      · simp only [hz, Bool.false_eq_true, if_false, client_updClient, if_true, client_withG]
    · have hx : ¬ x = c := fun e => h e.symm
      split <;> simp only [client_updClient, h, hx, if_false, client_withG]
  | clientConnected x => simp [Stats.apply, queuedStep, Stats.client]
  | clientDisconnected x => simp [Stats.apply, queuedStep, Stats.client]
  | sessionActive create => simp only [Stats.apply, queuedStep]; split <;> simp [Stats.client]
  | sessionTerminated x r =>
    simp only [Stats.apply, queuedStep]
    by_cases h : c = x
    · subst h; simp [Stats.client, AL.get_del_self]
    · have : ¬ x = c := fun e => h e.symm
      simp [Stats.client, AL.get_del, h, this]

theorem trInv_step (fx : Fix) (s : Stats) (t : Tr) (hi : TrInv s t) (e : Event)
    (hwf : match e with
      | .decInflight c d => (d : Int) ≤ t.infl c
      | .decQueueLen c d => (d : Int) ≤ t.queued c
      | _ => True) : TrInv (s.apply fx e) (t.step e) := by
  obtain ⟨h1, h2, h3, h4⟩ := hi
  have key : ∀ c, inflStep c (t.infl c) e = (t.step e).infl c ∧ queuedStep c (t.queued c) e = (t.step e).queued c ∧
      0 ≤ (t.step e).infl c ∧ 0 ≤ (t.step e).queued c := by
    intro c
    have a3 := h3 c
    have a4 := h4 c
    cases e with
    | addInflight x d =>
      by_cases h : x = c
      · subst h
        simp only [inflStep, queuedStep, Tr.step, if_true]; refine ⟨?_, ?_, ?_, ?_⟩ <;> (try simp) <;> omega
      · have h' : ¬ c = x := fun e => h e.symm
        simp only [inflStep, queuedStep, Tr.step, h, h', if_false]; refine ⟨?_, ?_, ?_, ?_⟩ <;> (try simp) <;> omega
    | decInflight x d =>
      simp only at hwf
      by_cases h : x = c
      · subst h
        simp only [inflStep, queuedStep, Tr.step, if_true]
        by_cases hz : t.infl x = 0
        · simp only [hz, beq_self_eq_true, if_true]; refine ⟨?_, ?_, ?_, ?_⟩ <;> (try simp) <;> omega
        · have hz' : (t.infl x == 0) = false := by simpa using hz
          simp only [hz', Bool.false_eq_true, if_false]; refine ⟨?_, ?_, ?_, ?_⟩ <;> (try simp) <;> omega
      · have h' : ¬ c = x := fun e => h e.symm
        simp only [inflStep, queuedStep, Tr.step, h, h', if_false]; refine ⟨?_, ?_, ?_, ?_⟩ <;> (try simp) <;> omega
    | addQueueLen x d =>
      by_cases h : x = c
      · subst h
        simp only [inflStep, queuedStep, Tr.step, if_true]; refine ⟨?_, ?_, ?_, ?_⟩ <;> (try simp) <;> omega
      · have h' : ¬ c = x := fun e => h e.symm
        simp only [inflStep, queuedStep, Tr.step, h, h', if_false]; refine ⟨?_, ?_, ?_, ?_⟩ <;> (try simp) <;> omega
    | decQueueLen x d =>
      simp only at hwf
      by_cases h : x = c
      · subst h
        simp only [inflStep, queuedStep, Tr.step, if_true]
        by_cases hz : t.queued x = 0
        · simp only [hz, beq_self_eq_true, if_true]; refine ⟨?_, ?_, ?_, ?_⟩ <;> (try simp) <;> omega
        · have hz' : (t.queued x == 0) = false := by simpa using hz
          simp only [hz', Bool.false_eq_true, if_false]; refine ⟨?_, ?_, ?_, ?_⟩ <;> (try simp) <;> omega
      · have h' : ¬ c = x := fun e => h e.symm
        simp only [inflStep, queuedStep, Tr.step, h, h', if_false]; refine ⟨?_, ?_, ?_, ?_⟩ <;> (try simp) <;> omega
    | sessionTerminated x r =>
      by_cases h : x = c
      · subst h
        simp only [inflStep, queuedStep, Tr.step, if_true]; refine ⟨?_, ?_, ?_, ?_⟩ <;> (try simp) <;> omega
      · have h' : ¬ c = x := fun e => h e.symm
        simp only [inflStep, queuedStep, Tr.step, h, h', if_false]; refine ⟨?_, ?_, ?_, ?_⟩ <;> (try simp) <;> omega
    | packetReceived x tt b => simp only [inflStep, queuedStep, Tr.step]; refine ⟨?_, ?_, ?_, ?_⟩ <;> (try simp) <;> omega
    | packetSent x tt b => simp only [inflStep, queuedStep, Tr.step]; refine ⟨?_, ?_, ?_, ?_⟩ <;> (try simp) <;> omega
    | messageReceived x q => simp only [inflStep, queuedStep, Tr.step]; refine ⟨?_, ?_, ?_, ?_⟩ <;> (try simp) <;> omega
    | messageSent x q => simp only [inflStep, queuedStep, Tr.step]; refine ⟨?_, ?_, ?_, ?_⟩ <;> (try simp) <;> omega
    | messageDropped x q r => simp only [inflStep, queuedStep, Tr.step]; refine ⟨?_, ?_, ?_, ?_⟩ <;> (try simp) <;> omega
    | clientConnected x => simp only [inflStep, queuedStep, Tr.step]; refine ⟨?_, ?_, ?_, ?_⟩ <;> (try simp) <;> omega
    | clientDisconnected x => simp only [inflStep, queuedStep, Tr.step]; refine ⟨?_, ?_, ?_, ?_⟩ <;> (try simp) <;> omega
    | sessionActive b => simp only [inflStep, queuedStep, Tr.step]; refine ⟨?_, ?_, ?_, ?_⟩ <;> (try simp) <;> omega
  refine ⟨fun c => ?_, fun c => ?_, fun c => (key c).2.2.1, fun c => (key c).2.2.2⟩
  · rw [infl_step, h1 c]; exact (key c).1
  · rw [queued_step, h2 c]; exact (key c).2.1

theorem trInv_run (fx : Fix) (s : Stats) (t : Tr) (hi : TrInv s t) (log : List Event) (hwf : WFG t log) :
    TrInv (s.run fx log) (t.run log) := by
  induction log generalizing s t with
  | nil => exact hi
  | cons e r ih =>
    obtain ⟨h1, h2⟩ := hwf
    exact ih _ _ (trInv_step fx s t hi e h1) h2

/-! ## connection / session gauges against the session life-cycle -/

def isLifecycle : Event → Bool
  | .clientConnected _ | .clientDisconnected _ | .sessionActive _ | .sessionTerminated _ _ => true
  | _ => false

/-- what the broker does to a session, with the statsManager calls each makes, in call order
    (registerClient; internalClose = unregisterClient then clientDisconnected; sessionExpireCheck / TerminateSession) -/
inductive Act
  | connectNew (cid : String)          -- no stored session
  | connectFresh (cid : String)        -- stored offline session discarded (clean start / expired)
  | connectResume (cid : String)       -- stored offline session resumed
  | closeKeep (cid : String)           -- connection ends, session stored
  | closeEnd (cid : String)            -- connection ends, session removed
  | endOffline (cid : String) (r : TermReason)   -- offline session expires / is terminated through the API
  | other (e : Event)                  -- any call that is not a life-cycle call

def Act.events : Act → List Event
  | .connectNew c => [.clientConnected c, .sessionActive true]
  | .connectFresh c => [.clientConnected c, .sessionTerminated c .takenOver, .sessionActive true]
  | .connectResume c => [.clientConnected c, .sessionActive false]
  | .closeKeep c => [.clientDisconnected c]
  | .closeEnd c => [.sessionTerminated c .normal, .clientDisconnected c]
  | .endOffline c r => [.sessionTerminated c r]
  | .other e => [e]

/-- the session table: client id ↦ online? -/
abbrev Tbl := List (String × Bool)

def Act.ok (tbl : Tbl) : Act → Prop
  | .connectNew c => AL.get c tbl = none
  | .connectFresh c => AL.get c tbl = some false
  | .connectResume c => AL.get c tbl = some false
  | .closeKeep c => AL.get c tbl = some true
  | .closeEnd c => AL.get c tbl = some true
  | .endOffline c _ => AL.get c tbl = some false
  | .other e => isLifecycle e = false

def Act.next (tbl : Tbl) : Act → Tbl
  | .connectNew c => AL.set c true tbl
  | .connectFresh c => AL.set c true tbl
  | .connectResume c => AL.set c true tbl
  | .closeKeep c => AL.set c false tbl
  | .closeEnd c => AL.del c tbl
  | .endOffline c _ => AL.del c tbl
  | .other _ => tbl

def Valid (tbl : Tbl) : List Act → Prop
  | [] => True
  | a :: r => a.ok tbl ∧ Valid (a.next tbl) r

instance Act.okDec (tbl : Tbl) (a : Act) : Decidable (a.ok tbl) := by
  cases a <;> simp only [Act.ok] <;> infer_instance

instance Valid.dec : (tbl : Tbl) → (acts : List Act) → Decidable (Valid tbl acts)
  | _, [] => isTrue trivial
  | tbl, a :: r =>
    have := Valid.dec (a.next tbl) r
    inferInstanceAs (Decidable (_ ∧ _))

def Tbl.run (tbl : Tbl) (acts : List Act) : Tbl := acts.foldl Act.next tbl

def count (tbl : Tbl) (b : Bool) : Nat :=
  match tbl with
  | [] => 0
  | p :: r => (if p.2 = b then 1 else 0) + count r b

theorem count_del (tbl : Tbl) (hn : AL.NodupKeys tbl) (c : String) (b : Bool) :
    count (AL.del c tbl) b + (if AL.get c tbl = some b then 1 else 0) = count tbl b := by
  induction tbl with
  | nil => simp [AL.del, count, AL.get]
  | cons p r ih =>
    obtain ⟨k, v⟩ := p
    have hn' : AL.NodupKeys r := by
      simp only [AL.NodupKeys, AL.keys, List.map_cons, List.nodup_cons] at hn ⊢; exact hn.2
    by_cases e : k = c
    · subst e
      have hk : AL.get k r = none := by
        rw [AL.get_none_iff]
        simp only [AL.NodupKeys, AL.keys, List.map_cons, List.nodup_cons] at hn
        exact hn.1
      have h1 : AL.del k ((k, v) :: r) = AL.del k r := by simp [AL.del]
      rw [h1, AL.del_eq_self hk]
      simp only [AL.get, if_true, count, Option.some.injEq]
      omega
    · have h1 : AL.del c ((k, v) :: r) = (k, v) :: AL.del c r := by simp [AL.del, e]
      rw [h1]
      simp only [count, AL.get, e, if_false]
      have := ih hn'
      omega

theorem count_set (tbl : Tbl) (c : String) (v b : Bool) :
    count (AL.set c v tbl) b = count (AL.del c tbl) b + (if v = b then 1 else 0) := by
  simp only [AL.set, count]; omega

structure ConnInv (s : Stats) (tbl : Tbl) : Prop where
  nodup : AL.NodupKeys tbl
  active : s.conn.active = count tbl true
  inactive : s.conn.inactive = count tbl false

theorem conn_of_nonlifecycle (fx : Fix) (s : Stats) (e : Event) (h : isLifecycle e = false) : (s.apply fx e).conn = s.conn := by
  cases e <;> simp [isLifecycle] at h <;> simp only [Stats.apply] <;> (try split) <;> simp [Stats.updClient]

theorem connInv_act (fx : Fix) (s : Stats) (tbl : Tbl) (hi : ConnInv s tbl) (a : Act) (hok : a.ok tbl) :
    ConnInv (s.run fx a.events) (a.next tbl) := by
  obtain ⟨hn, ha, hb⟩ := hi
  cases a with
  | connectNew c =>
    simp only [Act.ok] at hok
    have d1 := count_del tbl hn c true
    have d2 := count_del tbl hn c false
    refine ⟨AL.nodupKeys_set c true hn, ?_, ?_⟩ <;>
      simp [Act.events, Act.next, Stats.run, Stats.apply, count_set, hok] at d1 d2 ⊢ <;> omega
  | connectFresh c =>
    simp only [Act.ok] at hok
    have d1 := count_del tbl hn c true
    have d2 := count_del tbl hn c false
    refine ⟨AL.nodupKeys_set c true hn, ?_, ?_⟩ <;>
      simp [Act.events, Act.next, Stats.run, Stats.apply, count_set, hok] at d1 d2 ⊢ <;> omega
  | connectResume c =>
    simp only [Act.ok] at hok
    have d1 := count_del tbl hn c true
    have d2 := count_del tbl hn c false
    refine ⟨AL.nodupKeys_set c true hn, ?_, ?_⟩ <;>
      simp [Act.events, Act.next, Stats.run, Stats.apply, count_set, hok] at d1 d2 ⊢ <;> omega
  | closeKeep c =>
    simp only [Act.ok] at hok
    have d1 := count_del tbl hn c true
    have d2 := count_del tbl hn c false
    refine ⟨AL.nodupKeys_set c false hn, ?_, ?_⟩ <;>
      simp [Act.events, Act.next, Stats.run, Stats.apply, count_set, hok] at d1 d2 ⊢ <;> omega
  | closeEnd c =>
    simp only [Act.ok] at hok
    have d1 := count_del tbl hn c true
    have d2 := count_del tbl hn c false
    refine ⟨AL.nodupKeys_del c hn, ?_, ?_⟩ <;>
      simp [Act.events, Act.next, Stats.run, Stats.apply, hok] at d1 d2 ⊢ <;> omega
  | endOffline c r =>
    simp only [Act.ok] at hok
    have d1 := count_del tbl hn c true
    have d2 := count_del tbl hn c false
    refine ⟨AL.nodupKeys_del c hn, ?_, ?_⟩ <;>
      cases r <;> simp [Act.events, Act.next, Stats.run, Stats.apply, hok] at d1 d2 ⊢ <;> omega
  | other e =>
    simp only [Act.ok] at hok
    have := conn_of_nonlifecycle fx s e hok
    exact ⟨hn, by simpa [Act.events, Act.next, Stats.run, this] using ha, by simpa [Act.events, Act.next, Stats.run, this] using hb⟩

theorem run_append (fx : Fix) (s : Stats) (l1 l2 : List Event) : s.run fx (l1 ++ l2) = (s.run fx l1).run fx l2 := by
  simp [Stats.run, List.foldl_append]

theorem connInv_run (fx : Fix) (s : Stats) (tbl : Tbl) (hi : ConnInv s tbl) (acts : List Act) (hv : Valid tbl acts) :
    ConnInv (s.run fx (acts.flatMap Act.events)) (Tbl.run tbl acts) := by
  induction acts generalizing s tbl with
  | nil => simpa [Stats.run, Tbl.run] using hi
  | cons a r ih =>
    obtain ⟨h1, h2⟩ := hv
    simp only [List.flatMap_cons, run_append, Tbl.run, List.foldl_cons]
    exact ih _ _ (connInv_act fx s tbl hi a h1) h2

end GmqttVerif.Stats
