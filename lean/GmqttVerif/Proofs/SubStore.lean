import GmqttVerif.Proofs.SubStoreNode
/-
  Store-level facts: what each public operation does to tries, indexes and counters (`*_trie`, `*_keysOf`, …),
  the refinement relation `Rel st m` between a store and the abstract map, and its preservation by every operation.
-/
namespace GmqttVerif.SubStore
open GmqttVerif Topic

/-! ### index keys -/

theorem whichOf_shared_iff (g f : Str) : whichOf g f = .shared ↔ g ≠ [] := by
  unfold whichOf
  by_cases h : g = []
  · by_cases h2 : isSystemTopic f = true <;> simp [h, h2]
  · simp [h]

theorem indexKey_inj {g f g' f' : Str} (hw : whichOf g f = whichOf g' f') (hg : '/' ∉ g) (hg' : '/' ∉ g')
    (hk : indexKey g f = indexKey g' f') : g = g' ∧ f = f' := by
  by_cases h : g = []
  · have h' : g' = [] := by
      by_cases h' : g' = []
      · exact h'
      · have := (whichOf_shared_iff g' f').mpr h'
        rw [← hw] at this
        exact absurd ((whichOf_shared_iff g f).mp this) (by simp [h])
    subst h; subst h'
    simpa [indexKey] using hk
  · have h' : g' ≠ [] := by
      have := (whichOf_shared_iff g f).mpr h
      rw [hw] at this
      exact (whichOf_shared_iff g' f').mp this
    have e : cut '/' (g ++ '/' :: f) = cut '/' (g' ++ '/' :: f') := by
      simp only [indexKey, h, h', ne_eq, not_false_eq_true, ite_true] at hk
      rw [hk]
    rw [cut_append hg, cut_append hg'] at e
    simpa using e

theorem keyParts_indexKey {g f : Str} (hg : '/' ∉ g) : keyParts (whichOf g f) (indexKey g f) = (g, f) := by
  unfold keyParts indexKey
  by_cases h : g = []
  · have : whichOf g f ≠ .shared := fun e => (whichOf_shared_iff g f).mp e h
    subst h
    simp [this]
  · have : whichOf g f = .shared := (whichOf_shared_iff g f).mpr h
    simp [this, h, cut_append hg]

/-! ### what the operations do, field by field -/

theorem subscribe_trie (st : Store) (c : Str) (s : Sub) (w' : Which) :
    (st.subscribe c s).1.trie w' =
      if w' = whichOf s.share s.filter then subscribeTrie (st.trie w') c s else st.trie w' := by
  unfold Store.subscribe
  by_cases h : w' = whichOf s.share s.filter
  · subst h; simp
  · simp [h]

theorem subscribe_flag (st : Store) (c : Str) (s : Sub) :
    (st.subscribe c s).2 = (st.keysOf (whichOf s.share s.filter) c).contains (indexKey s.share s.filter) := rfl

theorem subscribe_keysOf (st : Store) (c : Str) (s : Sub) (w' : Which) (c' : Str) :
    (st.subscribe c s).1.keysOf w' c' =
      if w' = whichOf s.share s.filter ∧ c' = c then
        (if (st.keysOf w' c).contains (indexKey s.share s.filter) then st.keysOf w' c
         else indexKey s.share s.filter :: st.keysOf w' c)
      else st.keysOf w' c' := by
  unfold Store.subscribe Store.keysOf
  by_cases hw : w' = whichOf s.share s.filter
  · subst hw
    by_cases hc : c' = c
    · subst hc; simp [AL.get_set]
    · simp [AL.get_set, hc]
  · simp [hw]

theorem subscribe_stats (st : Store) (c : Str) (s : Sub) :
    (st.subscribe c s).1.stats = if (st.subscribe c s).2 then st.stats else bumpNew st.stats := rfl

theorem subscribe_clientStats (st : Store) (c : Str) (s : Sub) :
    (st.subscribe c s).1.clientStats =
      subscribeCStats st.clientStats c (AL.has c (st.index (whichOf s.share s.filter))) (st.subscribe c s).2 := rfl

theorem unsubscribeKey_trie (st : Store) (c g f : Str) (w' : Which) :
    (st.unsubscribeKey c g f).trie w' =
      if w' = whichOf g f then unsubscribeTrie (st.trie w') c f g else st.trie w' := by
  unfold Store.unsubscribeKey
  by_cases h : w' = whichOf g f
  · subst h; simp
  · simp [h]

theorem unsubscribeKey_keysOf (st : Store) (c g f : Str) (w' : Which) (c' : Str) :
    (st.unsubscribeKey c g f).keysOf w' c' =
      if w' = whichOf g f ∧ c' = c then
        (st.keysOf w' c).filter (fun k => !decide (k = indexKey g f))
      else st.keysOf w' c' := by
  unfold Store.unsubscribeKey Store.keysOf
  by_cases hw : w' = whichOf g f
  · subst hw
    by_cases hc : c' = c
    · subst hc
      cases hg : AL.get c' (st.index (whichOf g f)) with
      | none => simp [AL.has, hg]
      | some ks => simp [AL.has, hg, AL.get_set]
    · by_cases hh : AL.has c (st.index (whichOf g f)) = true
      · simp [hh, AL.get_set, hc]
      · simp [hh, hc]
  · simp [hw]

theorem unsubscribeKey_stats (st : Store) (c g f : Str) :
    (st.unsubscribeKey c g f).stats =
      if (st.keysOf (whichOf g f) c).contains (indexKey g f) then decCur st.stats 1 else st.stats := rfl

theorem unsubscribeKey_clientStats (st : Store) (c g f : Str) :
    (st.unsubscribeKey c g f).clientStats =
      if (st.keysOf (whichOf g f) c).contains (indexKey g f) then decCStats st.clientStats c 1 else st.clientStats := rfl

theorem unsubscribeAllIn_trie (st : Store) (w : Which) (c : Str) (w' : Which) :
    (st.unsubscribeAllIn w c).trie w' =
      if w' = w then
        (st.keysOf w c).foldl (fun t key => unsubscribeTrie t c (keyParts w key).2 (keyParts w key).1) (st.trie w)
      else st.trie w' := rfl

theorem unsubscribeAllIn_keysOf (st : Store) (w : Which) (c : Str) (w' : Which) (c' : Str) :
    (st.unsubscribeAllIn w c).keysOf w' c' = if w' = w ∧ c' = c then [] else st.keysOf w' c' := by
  unfold Store.unsubscribeAllIn Store.keysOf
  by_cases hw : w' = w
  · subst hw
    by_cases hc : c' = c
    · subst hc; simp [AL.get_del]
    · simp [AL.get_del, hc]
  · simp [hw]

/-! ### the refinement relation -/

/-- what callers guarantee: share names contain no '/' ([MQTT-4.8.2-2]; `SplitTopic` cuts at the first '/') -/
def ValidOp : Op → Prop
  | .sub _ s => '/' ∉ s.share
  | _ => True

/-- `st` represents the abstract map `m` -/
structure Rel (st : Store) (m : SubMap) : Prop where
  /-- walking the tries finds exactly the map's bindings -/
  lookup : ∀ c g f, st.lookup c g f = AL.get ⟨c, g, f⟩ m
  nodupM : AL.NodupKeys m
  validM : ∀ k s, AL.get k m = some s → '/' ∉ k.share ∧ s.share = k.share ∧ s.filter = k.filter
  /-- the per-client indexes list exactly the client's keys, each once -/
  idx : ∀ w c key, key ∈ st.keysOf w c ↔
      ∃ g f, (AL.get ⟨c, g, f⟩ m).isSome = true ∧ whichOf g f = w ∧ indexKey g f = key
  idxNodup : ∀ w c, (st.keysOf w c).Nodup
  statsCur : st.stats.current = m.length
  cstatsCur : ∀ c cs, AL.get c st.clientStats = some cs →
      cs.current = (m.filter (fun e => decide (e.1.client = c))).length
  cstatsIdx : ∀ w c, (AL.get c (st.index w)).isSome = true → (AL.get c st.clientStats).isSome = true
  trieOK : ∀ w, TrieOK w (st.trie w)

theorem get_filter_key {κ β : Type} [DecidableEq κ] (p : κ → Bool) (k : κ) (m : List (κ × β)) :
    AL.get k (m.filter (fun e => p e.1)) = if p k then AL.get k m else none := by
  induction m with
  | nil => simp
  | cons e r ih =>
    obtain ⟨a, v⟩ := e
    by_cases hp : p a = true
    · simp only [List.filter_cons, hp, ite_true, AL.get_cons, ih]
      by_cases ha : a = k
      · subst ha; simp [hp]
      · simp [ha]
    · simp only [List.filter_cons, hp, Bool.false_eq_true, ite_false, ih, AL.get_cons]
      by_cases ha : a = k
      · subst ha; simp [hp]
      · simp [ha]

theorem nodupKeys_filter {κ β : Type} [DecidableEq κ] (p : κ × β → Bool) {m : List (κ × β)} (h : AL.NodupKeys m) :
    AL.NodupKeys (m.filter p) := by
  unfold AL.NodupKeys AL.keys at *
  exact List.Nodup.sublist (List.Sublist.map _ List.filter_sublist) h

theorem rel_new : Rel SubStore.new [] := by
  constructor
  · intro c g f
    simp [Store.lookup, trieLookup, SubStore.new, nodeAt_emptyTrie, nodeLookup_empty]
  · exact AL.nodupKeys_nil
  · intro k s h; simp at h
  · intro w c key; simp [Store.keysOf, SubStore.new]
  · intro w c; simp [Store.keysOf, SubStore.new]
  · rfl
  · intro c cs h; simp [SubStore.new] at h
  · intro w c h; simp [SubStore.new] at h
  · intro w; exact trieOK_empty w

/-- an index key is recorded iff the abstract map has the binding -/
theorem Rel.key_mem_iff {st : Store} {m : SubMap} (R : Rel st m) (c g f : Str) (hg : '/' ∉ g) :
    indexKey g f ∈ st.keysOf (whichOf g f) c ↔ (AL.get ⟨c, g, f⟩ m).isSome = true := by
  rw [R.idx]
  constructor
  · rintro ⟨g', f', hs, hw, hk⟩
    obtain ⟨s, hs'⟩ := Option.isSome_iff_exists.mp hs
    have hv := (R.validM _ _ hs').1
    obtain ⟨h1, h2⟩ := indexKey_inj hw hv hg hk
    subst h1; subst h2; exact hs
  · intro hs; exact ⟨g, f, hs, rfl, rfl⟩

theorem whichOf_kind {g f g' f' : Str} (h : whichOf g' f' = whichOf g f) : g' = [] ↔ g = [] := by
  constructor
  · intro e
    by_cases hg : g = []
    · exact hg
    · have := (whichOf_shared_iff g f).mpr hg
      rw [← h] at this
      exact absurd e ((whichOf_shared_iff g' f').mp this)
  · intro e
    by_cases hg : g' = []
    · exact hg
    · have := (whichOf_shared_iff g' f').mpr hg
      rw [h] at this
      exact absurd e ((whichOf_shared_iff g f).mp this)

end GmqttVerif.SubStore
