import GmqttVerif.Proofs.SubStoreIter
/-
  The full traversal (`Iterate` without topic and client id → `preOrderTraverse`) and with it the abstraction
  function as a LIST: `abs st` = everything a walk over the three tries reports.
  Needs two more invariants: the children lists are map-like everywhere (`WFS`), and — because `preOrderTraverse`
  skips nodes whose `topicName` is "" — that no empty topic filter was ever subscribed (`FiltersNonEmpty`).
-/
namespace GmqttVerif.SubStore
open GmqttVerif Topic

/-- all three tries have map-like children lists at every node -/
def WFS (st : Store) : Prop := ∀ w, Trie.WF (st.trie w)

theorem wfs_new : WFS SubStore.new := fun _ => Trie.WF_leaf _

theorem WF_unsubFold (w : Which) (c : Str) (ks : List Str) (t : TTrie) (h : Trie.WF t) : Trie.WF (unsubFold w c ks t) := by
  induction ks generalizing t with
  | nil => exact h
  | cons key ks ih =>
    unfold unsubFold; rw [List.foldl_cons]
    exact ih _ (Trie.WF_remove _ _ _ _ h)

theorem WFS.unsubscribeAllIn {st : Store} (h : WFS st) (w : Which) (c : Str) : WFS (st.unsubscribeAllIn w c) := by
  intro w'
  rw [unsubscribeAllIn_trie']
  split
  · exact WF_unsubFold _ _ _ _ (h w)
  · exact h w'

theorem WFS.step {st : Store} (h : WFS st) (op : Op) : WFS (step st op).1 := by
  cases op with
  | sub c s =>
    intro w'
    simp only [SubStore.step, subscribe_trie]
    split
    · exact Trie.WF_update _ _ _ _ (h w')
    · exact h w'
  | unsub c full =>
    intro w'
    simp only [SubStore.step, Store.unsubscribe, unsubscribeKey_trie]
    split
    · exact Trie.WF_remove _ _ _ _ (h w')
    · exact h w'
  | unsubAll c =>
    exact ((h.unsubscribeAllIn .user c).unsubscribeAllIn .system c).unsubscribeAllIn .shared c

theorem WFS.run {st : Store} (h : WFS st) (ops : List Op) : WFS (run st ops).1 := by
  induction ops generalizing st with
  | nil => exact h
  | cons op ops ih => simp only [SubStore.run]; exact ih (h.step op)

/-- no subscribe operation carries the empty topic filter (`ValidTopicFilter` rejects it) -/
def FiltersNonEmpty (ops : List Op) : Prop := ∀ c s, Op.sub c s ∈ ops → s.filter ≠ []

theorem spec_filters_nonempty (m : SubMap) (ops : List Op) (hm : ∀ k s, AL.get k m = some s → k.filter ≠ [])
    (hops : FiltersNonEmpty ops) : ∀ k s, AL.get k (Spec.run m ops).1 = some s → k.filter ≠ [] := by
  induction ops generalizing m with
  | nil => exact hm
  | cons op ops ih =>
    simp only [Spec.run]
    apply ih
    · intro k s hk
      cases op with
      | sub c s0 =>
        simp only [Spec.step, AL.get_set] at hk
        split at hk
        · rename_i he; subst he; exact hops c s0 List.mem_cons_self
        · exact hm k s hk
      | unsub c full =>
        simp only [Spec.step, AL.get_del] at hk
        split at hk
        · simp at hk
        · exact hm k s hk
      | unsubAll c =>
        simp only [Spec.step] at hk
        rw [get_filter_key (fun k : Key => !decide (k.client = c))] at hk
        split at hk
        · exact hm k s hk
        · simp at hk
    · intro c s h; exact hops c s (List.mem_cons_of_mem _ h)

/-- what `preOrderTraverse` reports at one node -/
def outNamed (n : Node) : List (Str × Sub) := if n.name ≠ [] then setRs n else []

theorem traverse_eq (t : TTrie) : traverse t = Trie.preOrder outNamed t := rfl

theorem Rel.traverse_exact {st : Store} {m : SubMap} (R : Rel st m) (hwf : WFS st)
    (hne : ∀ k s, AL.get k m = some s → k.filter ≠ []) (w : Which) :
    (traverse (st.trie w)).Nodup ∧
    ∀ c s, (c, s) ∈ traverse (st.trie w) ↔ stored m c s ∧ whichOf s.share s.filter = w := by
  have hT := R.trieOK w
  have hd : outNamed {} = [] := rfl
  -- with no empty filter stored, the `topicName != ""` guard never hides an entry
  have hout : ∀ q, outNamed (nodeAt (st.trie w) q) = setRs (nodeAt (st.trie w) q) := by
    intro q
    unfold outNamed
    by_cases hn : (nodeAt (st.trie w) q).name = []
    · simp only [hn, ne_eq, not_true_eq_false, ite_false]
      symm
      rw [List.eq_nil_iff_forall_not_mem]
      rintro ⟨c, s⟩ hm
      have hp := setRs_path (hT q) hm
      obtain ⟨hq, hl⟩ := (mem_setRs_nodeAt hT q c s).mp hm
      obtain ⟨hs, _⟩ := (R.trieLookup_iff w c s).mp hl
      exact hne _ _ hs (by simp only; rw [hp.2, hn])
    · simp [hn]
  rw [traverse_eq]
  constructor
  · apply Trie.nodup_preOrder ({} : Node) outNamed hd _ (hwf w)
    · intro q
      change (outNamed (nodeAt (st.trie w) q)).Nodup
      rw [hout]; exact nodup_setRs (hT q)
    · intro q q' x hx hx'
      change x ∈ outNamed (nodeAt (st.trie w) q) at hx
      change x ∈ outNamed (nodeAt (st.trie w) q') at hx'
      rw [hout] at hx hx'
      obtain ⟨c, s⟩ := x
      exact (setRs_path (hT q) hx).1.symm.trans (setRs_path (hT q') hx').1
  · intro c s
    rw [Trie.mem_preOrder ({} : Node) outNamed hd _ (hwf w)]
    constructor
    · rintro ⟨q, hx⟩
      change (c, s) ∈ outNamed (nodeAt (st.trie w) q) at hx
      rw [hout] at hx
      exact (R.trieLookup_iff w c s).mp ((mem_setRs_nodeAt hT q c s).mp hx).2
    · intro h
      refine ⟨splitLevels s.filter, ?_⟩
      change (c, s) ∈ outNamed (nodeAt (st.trie w) (splitLevels s.filter))
      rw [hout]
      exact (mem_setRs_nodeAt hT _ c s).mpr ⟨rfl, (R.trieLookup_iff w c s).mpr h⟩

/-- `Iterate{Type}` (no topic, no client id): exactly all stored entries of the selected types, each once -/
theorem Rel.iterateAll_exact {st : Store} {m : SubMap} (R : Rel st m) (hwf : WFS st)
    (hne : ∀ k s, AL.get k m = some s → k.filter ≠ []) (o : Opts) (ht : o.topic = []) (hc : o.client = []) :
    (st.iterate o).Nodup ∧ ∀ c s, (c, s) ∈ st.iterate o ↔ stored m c s ∧ o.sel (whichOf s.share s.filter) = true := by
  have hS : iterateShared o (st.index .shared) (st.trie .shared) = traverse (st.trie .shared) := by
    unfold iterateShared; simp [ht, hc]
  have hN : ∀ w, iterateNonShared o (st.index w) (st.trie w) = traverse (st.trie w) := by
    intro w; unfold iterateNonShared; simp [ht, hc]
  apply iterate_combine st o
  · intro _; rw [hS]; exact R.traverse_exact hwf hne .shared
  · rw [hN]; exact R.traverse_exact hwf hne .user
  · rintro ⟨h, _⟩; exact absurd ht h
  · rw [hN]; exact R.traverse_exact hwf hne .system
  · rintro ⟨h, _⟩; exact absurd ht h

/-- the abstraction function as a list: everything a walk over the three tries reports -/
def abs (st : Store) : List (Str × Sub) := st.iterate { type := 7 }

/-- the bindings of the abstract map, as (client, subscription) pairs -/
def entries (m : SubMap) : List (Str × Sub) := m.map (fun e => (e.1.client, e.2))

theorem Rel.abs_perm {st : Store} {m : SubMap} (R : Rel st m) (hwf : WFS st)
    (hne : ∀ k s, AL.get k m = some s → k.filter ≠ []) : (abs st).Perm (entries m) := by
  have hall := R.iterateAll_exact hwf hne { type := 7 } rfl rfl
  have hinj : ∀ a ∈ m, ∀ b ∈ m, (fun e : Key × Sub => (e.1.client, e.2)) a = (fun e : Key × Sub => (e.1.client, e.2)) b → a = b := by
    rintro ⟨ka, sa⟩ ha ⟨kb, sb⟩ hb he
    simp only [Prod.mk.injEq] at he
    obtain ⟨h1, h2⟩ := he
    subst h2
    obtain ⟨_, a2, a3⟩ := R.validM _ _ (AL.get_of_mem R.nodupM ha)
    obtain ⟨_, b2, b3⟩ := R.validM _ _ (AL.get_of_mem R.nodupM hb)
    obtain ⟨kac, kag, kaf⟩ := ka
    obtain ⟨kbc, kbg, kbf⟩ := kb
    simp only at h1 a2 a3 b2 b3
    subst h1; subst a2; subst a3; subst b2; subst b3
    rfl
  have hnd : (entries m).Nodup := nodup_map_of_inj_on _ m hinj (AL.nodup_of_nodupKeys R.nodupM)
  unfold abs
  rw [List.perm_ext_iff_of_nodup hall.1 hnd]
  rintro ⟨c, s⟩
  rw [hall.2]
  have hsel : ∀ w, ({ type := 7 } : Opts).sel w = true := by intro w; cases w <;> decide
  simp only [hsel, and_true]
  unfold entries stored
  rw [List.mem_map]
  constructor
  · intro h
    exact ⟨(⟨c, s.share, s.filter⟩, s), AL.mem_of_get h, rfl⟩
  · rintro ⟨⟨k, s'⟩, hm, he⟩
    simp only [Prod.mk.injEq] at he
    obtain ⟨h1, h2⟩ := he
    subst h2
    have hg := AL.get_of_mem R.nodupM hm
    obtain ⟨_, a2, a3⟩ := R.validM _ _ hg
    obtain ⟨kc, kg, kf⟩ := k
    simp only at h1 a2 a3
    subst h1; subst a2; subst a3
    exact hg

end GmqttVerif.SubStore
