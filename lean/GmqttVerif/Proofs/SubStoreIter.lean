import GmqttVerif.Proofs.SubStoreStep
/-
  Exactness of the query side (`IterateLocked`): what each branch returns, in terms of the trie lookups and —
  through `Rel` — of the abstract map.
-/
namespace GmqttVerif.SubStore
open GmqttVerif Topic

/-! ### levels of a valid topic name are not wildcards -/

theorem mem_of_mem_level {c : Char} {l : Str} {s : Str} (hl : l ∈ splitLevels s) (hc : c ∈ l) : c ∈ s := by
  induction s generalizing l with
  | nil => simp [splitLevels_nil] at hl; subst hl; simp at hc
  | cons a cs ih =>
    by_cases ha : a = '/'
    · subst ha
      rw [splitLevels_sep] at hl
      rcases List.mem_cons.mp hl with h | h
      · subst h; simp at hc
      · exact List.mem_cons_of_mem _ (ih h hc)
    · obtain ⟨l0, ls, h1, h2⟩ := splitLevels_cons ha cs
      rw [h2] at hl
      rcases List.mem_cons.mp hl with h | h
      · subst h
        rcases List.mem_cons.mp hc with h | h
        · subst h; exact List.mem_cons_self
        · exact List.mem_cons_of_mem _ (ih (by rw [h1]; exact List.mem_cons_self) h)
      · exact List.mem_cons_of_mem _ (ih (by rw [h1]; exact List.mem_cons_of_mem _ h) hc)

theorem levels_plain {t : Str} (ht : validTopicName t = true) : ∀ l ∈ splitLevels t, l ≠ hash ∧ l ≠ plus := by
  unfold validTopicName at ht
  simp only [Bool.and_eq_true, Bool.not_eq_true', List.contains_eq_mem, decide_eq_false_iff_not] at ht
  intro l hl
  constructor
  · intro e; subst e
    exact ht.2 (mem_of_mem_level hl (by simp [Topic.hash]))
  · intro e; subst e
    exact ht.1.2 (mem_of_mem_level hl (by simp [Topic.plus]))

theorem validTopicName_ne_nil {t : Str} (ht : validTopicName t = true) : t ≠ [] := by
  intro e; subst e; simp [validTopicName] at ht

/-! ### well-formed tries, seen by the matcher -/

/-- per path: entries are duplicate free and carry their own path -/
def PathOK (t : TTrie) : Prop :=
  ∀ q, (setRs (nodeAt t q)).Nodup ∧ ∀ x ∈ setRs (nodeAt t q), splitLevels x.2.filter = q

theorem pathOK_of_trieOK {w : Which} {t : TTrie} (h : TrieOK w t) : PathOK t := by
  intro q
  refine ⟨nodup_setRs (h q), ?_⟩
  rintro ⟨c, s⟩ hx
  exact (setRs_path (h q) hx).1

theorem setRs_empty : setRs {} = [] := rfl

theorem nodeAt_restrictFirst_nil (l : Str) (t : TTrie) : nodeAt (restrictFirst l t) [] = {} := by
  unfold restrictFirst nodeAt
  cases AL.get l t.children <;> rfl

theorem nodeAt_restrictFirst_cons (l l' : Str) (q : List Str) (t : TTrie) :
    nodeAt (restrictFirst l t) (l' :: q) = if l' = l then nodeAt t (l :: q) else {} := by
  obtain ⟨b, ch⟩ := t
  unfold restrictFirst nodeAt
  simp only [Trie.children]
  cases hg : AL.get l ch with
  | none =>
    simp only [Trie.viewAt_cons, hg, AL.get_nil]
    split <;> rfl
  | some c =>
    simp only [Trie.viewAt_cons, hg, AL.get_cons]
    by_cases h : l' = l
    · subst h; simp
    · have : ¬ l = l' := fun e => h e.symm
      simp [h, this]

theorem pathOK_restrictFirst {t : TTrie} (h : PathOK t) (l : Str) : PathOK (restrictFirst l t) := by
  intro q
  cases q with
  | nil => rw [nodeAt_restrictFirst_nil]; simp [setRs_empty]
  | cons l' q' =>
    rw [nodeAt_restrictFirst_cons]
    by_cases hl : l' = l
    · subst hl; simpa using h (l' :: q')
    · simp [hl, setRs_empty]

theorem nodup_matchTopic_of_pathOK {t : TTrie} (h : PathOK t) (l : Str) (ls : List Str)
    (hp : ∀ l' ∈ l :: ls, l' ≠ hash ∧ l' ≠ plus) : (Trie.matchTopic setRs (l :: ls) t).Nodup := by
  apply Trie.nodup_matchTopic ({} : Node) setRs setRs_empty l ls hp t
  · intro q; exact (h q).1
  · intro q q' x hx hx'
    exact ((h q).2 x hx).symm.trans ((h q').2 x hx')

/-- the entries found under a well-formed trie node are the successful lookups at that path -/
theorem mem_setRs_nodeAt {w : Which} {t : TTrie} (h : TrieOK w t) (q : List Str) (c : Str) (s : Sub) :
    (c, s) ∈ setRs (nodeAt t q) ↔ q = splitLevels s.filter ∧ trieLookup t c s.share s.filter = some s := by
  constructor
  · intro hm
    have hq := (setRs_path (h q) hm).1
    subst hq
    exact ⟨rfl, (mem_setRs_iff (h _) c s).mp hm⟩
  · rintro ⟨rfl, hl⟩
    exact (mem_setRs_iff (h _) c s).mpr hl

/-- **`getMatchedTopicFilter` is exact** on a well-formed trie: for a valid topic name it returns exactly the stored
    entries whose filter matches the topic under MQTT 4.7 including [MQTT-4.7.2-1] -/
theorem mem_getMatched {w : Which} {t : TTrie} (h : TrieOK w t) {topic : Str} (ht : validTopicName topic = true)
    (c : Str) (s : Sub) :
    (c, s) ∈ getMatched t topic ↔
      trieLookup t c s.share s.filter = some s ∧ MatchesTopic s.filter topic = true := by
  have hplain := levels_plain ht
  obtain ⟨ts, hts⟩ := splitLevels_eq_cons topic
  have hph : ∀ l' ∈ firstLevel topic :: ts, l' ≠ hash := fun l' hl => (hplain l' (hts ▸ hl)).1
  obtain ⟨fs, hfs⟩ := splitLevels_eq_cons s.filter
  unfold getMatched
  simp only [hts, List.headD_cons]
  by_cases hsys : isSystemTopic topic = true
  · simp only [hsys, ite_true]
    rw [Trie.mem_matchTopic ({} : Node) setRs setRs_empty _ _ hph]
    have hl0 : isSystemTopic (firstLevel topic) = true := by rw [isSystemTopic_firstLevel]; exact hsys
    have hl0p : firstLevel topic ≠ plus := fun e => by rw [e, isSystemTopic_plus] at hl0; exact Bool.noConfusion hl0
    have hl0h : firstLevel topic ≠ hash := fun e => by rw [e, isSystemTopic_hash] at hl0; exact Bool.noConfusion hl0
    constructor
    · rintro ⟨q, hm, hx⟩
      cases q with
      | nil => simp [Matches] at hm
      | cons l' q' =>
        change (c, s) ∈ setRs (nodeAt (restrictFirst (firstLevel topic) t) (l' :: q')) at hx
        rw [nodeAt_restrictFirst_cons] at hx
        by_cases hl : l' = firstLevel topic
        · subst hl
          simp only [ite_true] at hx
          obtain ⟨hq, hlook⟩ := (mem_setRs_nodeAt h _ c s).mp hx
          refine ⟨hlook, ?_⟩
          unfold MatchesTopic startsWithWildcard
          rw [← hq, hts]
          simp [hl0p, hl0h, hm]
        · simp [hl, setRs_empty] at hx
    · rintro ⟨hlook, hm⟩
      unfold MatchesTopic startsWithWildcard at hm
      rw [hfs, hts, hsys] at hm
      simp only [Bool.true_and, Bool.and_eq_true, Bool.not_eq_true', Bool.or_eq_false_iff,
        decide_eq_false_iff_not] at hm
      obtain ⟨⟨hnp, hnh⟩, hmm⟩ := hm
      have hmm' := hmm
      rw [matches_cons_cons] at hmm'
      simp only [hnh, ite_false, hnp, decide_false, Bool.false_or, Bool.and_eq_true, decide_eq_true_eq] at hmm'
      refine ⟨firstLevel topic :: fs, ?_, ?_⟩
      · rw [hmm'.1] at hmm; exact hmm
      · change (c, s) ∈ setRs (nodeAt (restrictFirst (firstLevel topic) t) (firstLevel topic :: fs))
        rw [nodeAt_restrictFirst_cons]
        simp only [ite_true]
        rw [← hmm'.1, ← hfs]
        exact (mem_setRs_nodeAt h _ c s).mpr ⟨rfl, hlook⟩
  · simp only [hsys, Bool.false_eq_true, ite_false]
    rw [Trie.mem_matchTopic ({} : Node) setRs setRs_empty _ _ hph]
    have : MatchesTopic s.filter topic = Matches (splitLevels s.filter) (firstLevel topic :: ts) := by
      unfold MatchesTopic
      have hs' : isSystemTopic topic = false := by simpa using hsys
      rw [hs', hts]; simp
    rw [this]
    constructor
    · rintro ⟨q, hm, hx⟩
      obtain ⟨hq, hlook⟩ := (mem_setRs_nodeAt h _ c s).mp hx
      subst hq
      exact ⟨hlook, hm⟩
    · rintro ⟨hlook, hm⟩
      exact ⟨splitLevels s.filter, hm, (mem_setRs_nodeAt h _ c s).mpr ⟨rfl, hlook⟩⟩

theorem nodup_getMatched {w : Which} {t : TTrie} (h : TrieOK w t) {topic : Str} (ht : validTopicName topic = true) :
    (getMatched t topic).Nodup := by
  have hplain := levels_plain ht
  obtain ⟨ts, hts⟩ := splitLevels_eq_cons topic
  have hp : ∀ l' ∈ firstLevel topic :: ts, l' ≠ hash ∧ l' ≠ plus := fun l' hl => hplain l' (hts ▸ hl)
  unfold getMatched
  simp only [hts, List.headD_cons]
  split
  · exact nodup_matchTopic_of_pathOK (pathOK_restrictFirst (pathOK_of_trieOK h) _) _ _ hp
  · exact nodup_matchTopic_of_pathOK (pathOK_of_trieOK h) _ _ hp

/-! ### from tries to the abstract map -/

/-- `(c, s)` is a binding of the abstract map -/
def stored (m : SubMap) (c : Str) (s : Sub) : Prop := AL.get ⟨c, s.share, s.filter⟩ m = some s

theorem Rel.trieLookup_iff {st : Store} {m : SubMap} (R : Rel st m) (w : Which) (c : Str) (s : Sub) :
    trieLookup (st.trie w) c s.share s.filter = some s ↔ stored m c s ∧ whichOf s.share s.filter = w := by
  unfold stored
  constructor
  · intro hl
    have hm := (mem_setRs_iff (R.trieOK w _) c s).mpr hl
    have hw := (R.trieOK w _).wok c s hm
    refine ⟨?_, hw⟩
    rw [← R.lookup]; unfold Store.lookup; rw [hw]; exact hl
  · rintro ⟨hs, hw⟩
    rw [← R.lookup] at hs; unfold Store.lookup at hs; rw [hw] at hs; exact hs

theorem whichOf_user {g f : Str} (h : whichOf g f = .user) : g = [] ∧ isSystemTopic f = false := by
  unfold whichOf at h
  by_cases hg : g = []
  · by_cases hf : isSystemTopic f = true
    · simp [hg, hf] at h
    · exact ⟨hg, by simpa using hf⟩
  · simp [hg] at h

theorem whichOf_system {g f : Str} (h : whichOf g f = .system) : g = [] ∧ isSystemTopic f = true := by
  unfold whichOf at h
  by_cases hg : g = []
  · by_cases hf : isSystemTopic f = true
    · exact ⟨hg, hf⟩
    · simp [hg, hf] at h
  · simp [hg] at h

/-- which bit of `IterationOptions.Type` selects the trie an entry lives in -/
def Opts.sel (o : Opts) : Which → Bool
  | .shared => o.shared
  | .system => o.sys
  | .user => o.nonShared

/-- how the three per-trie answers combine in `IterateLocked`: if each consulted trie answers exactly `P` restricted to
    its own entries (each once), and a skipped trie has no entry satisfying `P`, the whole answer is exactly `P`
    restricted to the selected types, each once. -/
theorem iterate_combine (st : Store) (o : Opts) (P : Str → Sub → Prop)
    (hS : o.shared = true → (iterateShared o (st.index .shared) (st.trie .shared)).Nodup ∧
      ∀ c s, (c, s) ∈ iterateShared o (st.index .shared) (st.trie .shared) ↔ P c s ∧ whichOf s.share s.filter = .shared)
    (hU : (iterateNonShared o (st.index .user) (st.trie .user)).Nodup ∧
      ∀ c s, (c, s) ∈ iterateNonShared o (st.index .user) (st.trie .user) ↔ P c s ∧ whichOf s.share s.filter = .user)
    (hU' : (o.topic ≠ [] ∧ isSystemTopic o.topic = true) → ∀ c s, ¬ (P c s ∧ whichOf s.share s.filter = .user))
    (hY : (iterateNonShared o (st.index .system) (st.trie .system)).Nodup ∧
      ∀ c s, (c, s) ∈ iterateNonShared o (st.index .system) (st.trie .system) ↔ P c s ∧ whichOf s.share s.filter = .system)
    (hY' : (o.topic ≠ [] ∧ isSystemTopic o.topic = false) → ∀ c s, ¬ (P c s ∧ whichOf s.share s.filter = .system)) :
    (st.iterate o).Nodup ∧ ∀ c s, (c, s) ∈ st.iterate o ↔ P c s ∧ o.sel (whichOf s.share s.filter) = true := by
  -- the three summands, each characterised
  have hA : (if o.shared then iterateShared o (st.index .shared) (st.trie .shared) else []).Nodup ∧
      ∀ c s, (c, s) ∈ (if o.shared then iterateShared o (st.index .shared) (st.trie .shared) else []) ↔
        (P c s ∧ whichOf s.share s.filter = .shared) ∧ o.shared = true := by
    by_cases h : o.shared = true
    · simp only [h, ite_true, and_true]; exact hS h
    · simp [h]
  have hB : (if o.nonShared && !(decide (o.topic ≠ []) && isSystemTopic o.topic) then
        iterateNonShared o (st.index .user) (st.trie .user) else []).Nodup ∧
      ∀ c s, (c, s) ∈ (if o.nonShared && !(decide (o.topic ≠ []) && isSystemTopic o.topic) then
        iterateNonShared o (st.index .user) (st.trie .user) else []) ↔
        (P c s ∧ whichOf s.share s.filter = .user) ∧ o.nonShared = true := by
    by_cases h : o.nonShared = true
    · by_cases h2 : o.topic ≠ [] ∧ isSystemTopic o.topic = true
      · have := hU' h2
        have hc : (o.nonShared && !(decide (o.topic ≠ []) && isSystemTopic o.topic)) = false := by simp [h2.1, h2.2]
        rw [hc]
        refine ⟨by simp, fun c s => ?_⟩
        constructor
        · intro hx; simp at hx
        · intro hps; exact absurd hps.1 (this c s)
      · have h3 : (decide (o.topic ≠ []) && isSystemTopic o.topic) = false := by
          by_cases ht : o.topic ≠ []
          · have : isSystemTopic o.topic = false := by
              cases hb : isSystemTopic o.topic with
              | false => rfl
              | true => exact absurd ⟨ht, hb⟩ h2
            simp [this]
          · simp [ht]
        simp only [h, h3, Bool.not_false, Bool.and_self, ite_true, and_true]
        exact hU
    · simp [h]
  have hC : (if o.sys && !(decide (o.topic ≠ []) && !isSystemTopic o.topic) then
        iterateNonShared o (st.index .system) (st.trie .system) else []).Nodup ∧
      ∀ c s, (c, s) ∈ (if o.sys && !(decide (o.topic ≠ []) && !isSystemTopic o.topic) then
        iterateNonShared o (st.index .system) (st.trie .system) else []) ↔
        (P c s ∧ whichOf s.share s.filter = .system) ∧ o.sys = true := by
    by_cases h : o.sys = true
    · by_cases h2 : o.topic ≠ [] ∧ isSystemTopic o.topic = false
      · have := hY' h2
        have hc : (o.sys && !(decide (o.topic ≠ []) && !isSystemTopic o.topic)) = false := by simp [h2.1, h2.2]
        rw [hc]
        refine ⟨by simp, fun c s => ?_⟩
        constructor
        · intro hx; simp at hx
        · intro hps; exact absurd hps.1 (this c s)
      · have h3 : (decide (o.topic ≠ []) && !isSystemTopic o.topic) = false := by
          by_cases ht : o.topic ≠ []
          · have : isSystemTopic o.topic = true := by
              cases hb : isSystemTopic o.topic with
              | true => rfl
              | false => exact absurd ⟨ht, hb⟩ h2
            simp [this]
          · simp [ht]
        simp only [h, h3, Bool.not_false, Bool.and_self, ite_true, and_true]
        exact hY
    · simp [h]
  have hiter : st.iterate o =
      (if o.shared then iterateShared o (st.index .shared) (st.trie .shared) else []) ++
      (if o.nonShared && !(decide (o.topic ≠ []) && isSystemTopic o.topic) then
        iterateNonShared o (st.index .user) (st.trie .user) else []) ++
      (if o.sys && !(decide (o.topic ≠ []) && !isSystemTopic o.topic) then
        iterateNonShared o (st.index .system) (st.trie .system) else []) := rfl
  rw [hiter]
  constructor
  · rw [List.nodup_append, List.nodup_append]
    refine ⟨⟨hA.1, hB.1, ?_⟩, hC.1, ?_⟩
    · rintro ⟨c, s⟩ hx y hy rfl
      have h1 := ((hA.2 c s).mp hx).1.2
      have h2 := ((hB.2 c s).mp hy).1.2
      rw [h1] at h2; exact Which.noConfusion h2
    · rintro ⟨c, s⟩ hx y hy rfl
      have h2 := ((hC.2 c s).mp hy).1.2
      rcases List.mem_append.mp hx with hx | hx
      · have h1 := ((hA.2 c s).mp hx).1.2
        rw [h1] at h2; exact Which.noConfusion h2
      · have h1 := ((hB.2 c s).mp hx).1.2
        rw [h1] at h2; exact Which.noConfusion h2
  · intro c s
    simp only [List.mem_append, hA.2, hB.2, hC.2]
    constructor
    · rintro ((⟨⟨hp, hw⟩, hb⟩ | ⟨⟨hp, hw⟩, hb⟩) | ⟨⟨hp, hw⟩, hb⟩) <;> exact ⟨hp, by rw [hw]; exact hb⟩
    · rintro ⟨hp, hb⟩
      cases hw : whichOf s.share s.filter with
      | user => rw [hw] at hb; exact Or.inl (Or.inr ⟨⟨hp, rfl⟩, hb⟩)
      | system => rw [hw] at hb; exact Or.inr ⟨⟨hp, rfl⟩, hb⟩
      | shared => rw [hw] at hb; exact Or.inl (Or.inl ⟨⟨hp, rfl⟩, hb⟩)

/-! ### MatchFilter -/

/-- the optional client restriction applied to a result list -/
def clientSel (cl : Str) (L : List (Str × Sub)) : List (Str × Sub) := if cl ≠ [] then ofClient cl L else L

theorem mem_clientSel (cl : Str) (L : List (Str × Sub)) (c : Str) (s : Sub) :
    (c, s) ∈ clientSel cl L ↔ (c, s) ∈ L ∧ (cl = [] ∨ c = cl) := by
  unfold clientSel ofClient
  by_cases h : cl = []
  · simp [h]
  · simp [h, List.mem_filter]

theorem nodup_clientSel (cl : Str) {L : List (Str × Sub)} (h : L.Nodup) : (clientSel cl L).Nodup := by
  unfold clientSel ofClient
  split
  · exact List.Nodup.sublist List.filter_sublist h
  · exact h

theorem iterateNonShared_matchFilter (o : Opts) (idx : Index) (t : TTrie) (ht : o.topic ≠ []) (hm : o.matchType = 2) :
    iterateNonShared o idx t = clientSel o.client (getMatched t o.topic) := by
  unfold iterateNonShared clientSel
  simp [ht, hm]

theorem iterateShared_matchFilter (o : Opts) (idx : Index) (t : TTrie) (ht : o.topic ≠ []) (hm : o.matchType = 2) :
    iterateShared o idx t = clientSel o.client (getMatched t o.topic) := by
  unfold iterateShared clientSel
  simp [ht, hm]

theorem Rel.matchFilter_part {st : Store} {m : SubMap} (R : Rel st m) (w : Which) (o : Opts)
    (ht : validTopicName o.topic = true) :
    (clientSel o.client (getMatched (st.trie w) o.topic)).Nodup ∧
    ∀ c s, (c, s) ∈ clientSel o.client (getMatched (st.trie w) o.topic) ↔
      (stored m c s ∧ MatchesTopic s.filter o.topic = true ∧ (o.client = [] ∨ c = o.client)) ∧
        whichOf s.share s.filter = w := by
  refine ⟨nodup_clientSel _ (nodup_getMatched (R.trieOK w) ht), fun c s => ?_⟩
  rw [mem_clientSel, mem_getMatched (R.trieOK w) ht, R.trieLookup_iff]
  constructor
  · rintro ⟨⟨⟨h1, h2⟩, h3⟩, h4⟩; exact ⟨⟨h1, h3, h4⟩, h2⟩
  · rintro ⟨⟨h1, h3, h4⟩, h2⟩; exact ⟨⟨⟨h1, h2⟩, h3⟩, h4⟩

/-- `Iterate{MatchFilter, TopicName, [ClientID]}` in any state that represents `m`: exactly the stored entries of the selected
    types whose filter matches the topic, each once -/
theorem Rel.matchFilter_exact {st : Store} {m : SubMap} (R : Rel st m) (o : Opts)
    (ht : validTopicName o.topic = true) (hm : o.matchType = 2) :
    (st.iterate o).Nodup ∧ ∀ c s, (c, s) ∈ st.iterate o ↔
      (stored m c s ∧ MatchesTopic s.filter o.topic = true ∧ (o.client = [] ∨ c = o.client)) ∧
        o.sel (whichOf s.share s.filter) = true := by
  have hne := validTopicName_ne_nil ht
  apply iterate_combine st o
  · intro _; rw [iterateShared_matchFilter o _ _ hne hm]; exact R.matchFilter_part .shared o ht
  · rw [iterateNonShared_matchFilter o _ _ hne hm]; exact R.matchFilter_part .user o ht
  · rintro ⟨_, hsys⟩ c s ⟨⟨_, hmt, _⟩, hw⟩
    rw [matchesTopic_user_dollar hsys (whichOf_user hw).2] at hmt
    exact Bool.noConfusion hmt
  · rw [iterateNonShared_matchFilter o _ _ hne hm]; exact R.matchFilter_part .system o ht
  · rintro ⟨_, hsys⟩ c s ⟨⟨_, hmt, _⟩, hw⟩
    rw [matchesTopic_sys_plain hsys (whichOf_system hw).2] at hmt
    exact Bool.noConfusion hmt

/-! ### MatchName -/

/-- the name under which an entry is found by `Iterate{MatchName}`: its filter, or `$share/<group>/<filter>` -/
def nameMatches (name : Str) (s : Sub) : Prop :=
  if s.share ≠ [] then hasPrefix name sharePrefix = true ∧ cut '/' (name.drop 7) = (s.share, some s.filter)
  else s.filter = name

/-- for well-formed share names this is `GetFullTopicName` -/
theorem nameMatches_fullName (s : Sub) (hv : '/' ∉ s.share) : nameMatches (fullName s.share s.filter) s := by
  unfold nameMatches fullName
  by_cases h : s.share = []
  · simp [h]
  · simp only [h, ne_eq, not_false_eq_true, ite_true]
    refine ⟨by rw [List.append_assoc]; exact hasPrefix_append _ _, ?_⟩
    have : List.drop 7 (sharePrefix ++ s.share ++ '/' :: s.filter) = s.share ++ '/' :: s.filter := by simp [sharePrefix]
    rw [this, cut_append hv]

theorem find_none_empty {w : Which} {t : TTrie} (h : TrieOK w t) {f : Str} (hf : find t f = none) (c : Str) (s : Sub) :
    (c, s) ∉ setRs (nodeAt t (splitLevels f)) := by
  intro hm
  unfold find at hf
  have hp := setRs_path (h _) hm
  cases hat : Trie.at? (splitLevels f) t with
  | none =>
    have : nodeAt t (splitLevels f) = {} := by simp [nodeAt, Trie.viewAt, hat]
    rw [this] at hm; simp [setRs_empty] at hm
  | some nd =>
    have hn : nodeAt t (splitLevels f) = nd.payload := by simp [nodeAt, Trie.viewAt, hat]
    rw [hat] at hf
    simp only at hf
    have hname : nd.payload.name = f := by
      rw [← hn, ← hp.2]; exact splitLevels_inj hp.1
    simp [hname] at hf

theorem find_some_eq {t : TTrie} {f : Str} {n : Node} (hf : find t f = some n) : n = nodeAt t (splitLevels f) := by
  unfold find at hf
  cases hat : Trie.at? (splitLevels f) t with
  | none => simp [hat] at hf
  | some nd =>
    rw [hat] at hf
    simp only at hf
    split at hf
    · injection hf with hf; rw [← hf]; simp [nodeAt, Trie.viewAt, hat]
    · simp at hf

theorem Rel.matchName_nonShared {st : Store} {m : SubMap} (R : Rel st m) (w : Which) (hw : w ≠ .shared) (o : Opts)
    (ht : o.topic ≠ []) (hm : o.matchType = 1) :
    (iterateNonShared o (st.index w) (st.trie w)).Nodup ∧
    ∀ c s, (c, s) ∈ iterateNonShared o (st.index w) (st.trie w) ↔
      (stored m c s ∧ nameMatches o.topic s ∧ (o.client = [] ∨ c = o.client)) ∧ whichOf s.share s.filter = w := by
  have hT := R.trieOK w
  have hnode := hT (splitLevels o.topic)
  have hsh := hnode.kindN hw
  -- the branch taken
  have hbranch : iterateNonShared o (st.index w) (st.trie w) = nameNonShared o (st.trie w) := by
    unfold iterateNonShared; simp [ht, hm]
  rw [hbranch]
  unfold nameNonShared
  -- membership in the node, in abstract terms
  have hmem : ∀ c s, (c, s) ∈ setRs (nodeAt (st.trie w) (splitLevels o.topic)) ↔
      (stored m c s ∧ nameMatches o.topic s) ∧ whichOf s.share s.filter = w := by
    intro c s
    rw [mem_setRs_nodeAt hT, R.trieLookup_iff]
    constructor
    · rintro ⟨hq, hs, hw'⟩
      refine ⟨⟨hs, ?_⟩, hw'⟩
      have hg : s.share = [] := by
        by_cases hg : s.share = []
        · exact hg
        · exact absurd (hw' ▸ (whichOf_shared_iff _ _).mpr hg) hw
      unfold nameMatches; simp only [hg, ne_eq, not_true_eq_false, ite_false]
      exact (splitLevels_inj hq).symm
    · rintro ⟨⟨hs, hn⟩, hw'⟩
      have hg : s.share = [] := by
        by_cases hg : s.share = []
        · exact hg
        · exact absurd (hw' ▸ (whichOf_shared_iff _ _).mpr hg) hw
      unfold nameMatches at hn; simp only [hg, ne_eq, not_true_eq_false, ite_false] at hn
      exact ⟨by rw [hn], hs, hw'⟩
  cases hf : find (st.trie w) o.topic with
  | none =>
    refine ⟨List.nodup_nil, fun c s => ?_⟩
    simp only [List.not_mem_nil, false_iff]
    rintro ⟨⟨hs, hn, _⟩, hw'⟩
    exact find_none_empty hT hf c s ((hmem c s).mpr ⟨⟨hs, hn⟩, hw'⟩)
  | some n =>
    have hn := find_some_eq hf
    subst hn
    simp only
    by_cases hc : o.client = []
    · simp only [hc, ne_eq, not_true_eq_false, ite_false]
      refine ⟨nodup_setRs hnode, fun c s => ?_⟩
      rw [hmem]; simp
    · simp only [hc, ne_eq, not_false_eq_true, ite_true]
      have hnc : nodeOfClient o.client (nodeAt (st.trie w) (splitLevels o.topic)) =
          (AL.get o.client (nodeAt (st.trie w) (splitLevels o.topic)).clients).toList.map (fun s => (o.client, s)) := by
        unfold nodeOfClient; rw [hsh]; simp
      rw [hnc]
      constructor
      · cases AL.get o.client (nodeAt (st.trie w) (splitLevels o.topic)).clients <;> simp
      · intro c s
        have hm2 := hmem c s
        rw [mem_setRs, hsh] at hm2
        simp only [List.not_mem_nil, false_and, exists_false, or_false] at hm2
        simp only [List.mem_map, Option.mem_toList, Option.mem_def]
        constructor
        · rintro ⟨s', hs', he⟩
          injection he with h1 h2; subst h1; subst h2
          obtain ⟨⟨h1, h2⟩, h3⟩ := hm2.mp (AL.mem_of_get hs')
          exact ⟨⟨h1, h2, Or.inr rfl⟩, h3⟩
        · rintro ⟨⟨h1, h2, h3⟩, h4⟩
          have hcc : c = o.client := by simpa [hc] using h3
          subst hcc
          exact ⟨s, AL.get_of_mem hnode.cnodup (hm2.mpr ⟨⟨h1, h2⟩, h4⟩), rfl⟩

theorem Rel.matchName_shared {st : Store} {m : SubMap} (R : Rel st m) (o : Opts)
    (ht : o.topic ≠ []) (hm : o.matchType = 1) :
    (iterateShared o (st.index .shared) (st.trie .shared)).Nodup ∧
    ∀ c s, (c, s) ∈ iterateShared o (st.index .shared) (st.trie .shared) ↔
      (stored m c s ∧ nameMatches o.topic s ∧ (o.client = [] ∨ c = o.client)) ∧ whichOf s.share s.filter = .shared := by
  have hT := R.trieOK .shared
  have hbranch : iterateShared o (st.index .shared) (st.trie .shared) = nameShared o (st.trie .shared) := by
    unfold iterateShared; simp [ht, hm]
  rw [hbranch]
  unfold nameShared
  -- a shared entry whose name matches: decode the name
  have hname : ∀ s : Sub, whichOf s.share s.filter = .shared →
      (nameMatches o.topic s ↔ hasPrefix o.topic sharePrefix = true ∧ cut '/' (o.topic.drop 7) = (s.share, some s.filter)) := by
    intro s hw
    have := (whichOf_shared_iff _ _).mp hw
    unfold nameMatches; simp [this]
  by_cases hp : hasPrefix o.topic sharePrefix = true
  · simp only [hp, ite_true]
    cases hcut : cut '/' (o.topic.drop 7) with
    | mk g of =>
      cases of with
      | none =>
        refine ⟨List.nodup_nil, fun c s => ?_⟩
        simp only [List.not_mem_nil, false_iff]
        rintro ⟨⟨_, hn, _⟩, hw⟩
        rw [hname s hw, hcut] at hn
        simp at hn
      | some f =>
        simp only
        have hnode := hT (splitLevels f)
        -- entries of group g at the node of f, abstractly
        have hmem : ∀ c s, (c, s) ∈ (AL.get g (nodeAt (st.trie .shared) (splitLevels f)).shared).getD [] ↔
            (stored m c s ∧ nameMatches o.topic s) ∧ whichOf s.share s.filter = .shared := by
          intro c s
          constructor
          · intro hin
            cases hg : AL.get g (nodeAt (st.trie .shared) (splitLevels f)).shared with
            | none => simp [hg] at hin
            | some cl =>
              simp only [hg, Option.getD_some] at hin
              have hgm := AL.mem_of_get hg
              have hin' : (c, s) ∈ setRs (nodeAt (st.trie .shared) (splitLevels f)) :=
                mem_setRs.mpr (Or.inr ⟨g, cl, hgm, hin⟩)
              obtain ⟨hq, hl⟩ := (mem_setRs_nodeAt hT _ c s).mp hin'
              obtain ⟨hs, hw⟩ := (R.trieLookup_iff .shared c s).mp hl
              have hsg := (hnode.sok g cl hgm c s hin).1
              refine ⟨⟨hs, ?_⟩, hw⟩
              rw [hname s hw, hcut, hsg, splitLevels_inj hq]
              exact ⟨hp, rfl⟩
          · rintro ⟨⟨hs, hn⟩, hw⟩
            rw [hname s hw, hcut] at hn
            obtain ⟨_, hn⟩ := hn
            injection hn with h1 h2
            injection h2 with h2
            subst h1; subst h2
            have hl := (R.trieLookup_iff .shared c s).mpr ⟨hs, hw⟩
            have hin := (mem_setRs_iff (hT _) c s).mpr hl
            rcases mem_setRs.mp hin with hc | ⟨g', cl, hgm, hcl⟩
            · rw [hnode.kindS rfl] at hc; simp at hc
            · have hsg := (hnode.sok g' cl hgm c s hcl).1
              subst hsg
              rw [AL.get_of_mem hnode.snodup hgm]
              exact hcl
        have hnd : ((AL.get g (nodeAt (st.trie .shared) (splitLevels f)).shared).getD []).Nodup := by
          cases hg : AL.get g (nodeAt (st.trie .shared) (splitLevels f)).shared with
          | none => simp
          | some cl => exact AL.nodup_of_nodupKeys (hnode.gnodup g cl (AL.mem_of_get hg))
        have hndk : AL.NodupKeys ((AL.get g (nodeAt (st.trie .shared) (splitLevels f)).shared).getD []) := by
          cases hg : AL.get g (nodeAt (st.trie .shared) (splitLevels f)).shared with
          | none => simp [AL.nodupKeys_nil]
          | some cl => exact hnode.gnodup g cl (AL.mem_of_get hg)
        cases hf : find (st.trie .shared) f with
        | none =>
          refine ⟨List.nodup_nil, fun c s => ?_⟩
          simp only [List.not_mem_nil, false_iff]
          rintro ⟨⟨hs, hn, _⟩, hw⟩
          have hin := (hmem c s).mpr ⟨⟨hs, hn⟩, hw⟩
          cases hg : AL.get g (nodeAt (st.trie .shared) (splitLevels f)).shared with
          | none => simp [hg] at hin
          | some cl =>
            simp only [hg, Option.getD_some] at hin
            exact find_none_empty hT hf c s (mem_setRs.mpr (Or.inr ⟨g, cl, AL.mem_of_get hg, hin⟩))
        | some n =>
          have hn := find_some_eq hf
          subst hn
          simp only
          by_cases hc : o.client = []
          · simp only [hc, ne_eq, not_true_eq_false, ite_false]
            refine ⟨hnd, fun c s => ?_⟩
            rw [hmem]; simp
          · simp only [hc, ne_eq, not_false_eq_true, ite_true]
            constructor
            · cases AL.get o.client ((AL.get g (nodeAt (st.trie .shared) (splitLevels f)).shared).getD []) <;> simp
            · intro c s
              simp only [List.mem_map, Option.mem_toList, Option.mem_def]
              constructor
              · rintro ⟨s', hs', he⟩
                injection he with h1 h2; subst h1; subst h2
                obtain ⟨⟨h1, h2⟩, h3⟩ := (hmem _ _).mp (AL.mem_of_get hs')
                exact ⟨⟨h1, h2, Or.inr rfl⟩, h3⟩
              · rintro ⟨⟨h1, h2, h3⟩, h4⟩
                have hcc : c = o.client := by simpa [hc] using h3
                subst hcc
                exact ⟨s, AL.get_of_mem hndk ((hmem _ _).mpr ⟨⟨h1, h2⟩, h4⟩), rfl⟩
  · simp only [hp, Bool.false_eq_true, ite_false]
    refine ⟨List.nodup_nil, fun c s => ?_⟩
    simp only [List.not_mem_nil, false_iff]
    rintro ⟨⟨_, hn, _⟩, hw⟩
    rw [hname s hw] at hn
    exact hp hn.1

/-- `Iterate{MatchName, TopicName[, ClientID]}`: exactly the stored entries of the selected types whose name
    (filter, or `$share/<group>/<filter>`) equals `TopicName`, each once, with the latest options -/
theorem Rel.matchName_exact {st : Store} {m : SubMap} (R : Rel st m) (o : Opts) (ht : o.topic ≠ []) (hm : o.matchType = 1) :
    (st.iterate o).Nodup ∧ ∀ c s, (c, s) ∈ st.iterate o ↔
      (stored m c s ∧ nameMatches o.topic s ∧ (o.client = [] ∨ c = o.client)) ∧
        o.sel (whichOf s.share s.filter) = true := by
  apply iterate_combine st o
  · intro _; exact R.matchName_shared o ht hm
  · exact R.matchName_nonShared .user (by decide) o ht hm
  · rintro ⟨_, hsys⟩ c s ⟨⟨_, hn, _⟩, hw⟩
    obtain ⟨h1, h2⟩ := whichOf_user hw
    unfold nameMatches at hn; simp only [h1, ne_eq, not_true_eq_false, ite_false] at hn
    rw [hn, hsys] at h2; exact Bool.noConfusion h2
  · exact R.matchName_nonShared .system (by decide) o ht hm
  · rintro ⟨_, hsys⟩ c s ⟨⟨_, hn, _⟩, hw⟩
    obtain ⟨h1, h2⟩ := whichOf_system hw
    unfold nameMatches at hn; simp only [h1, ne_eq, not_true_eq_false, ite_false] at hn
    rw [hn, hsys] at h2; exact Bool.noConfusion h2

/-! ### per-client listing -/

theorem nodup_filterMap {α β : Type} (f : α → Option β) : ∀ (l : List α), l.Nodup →
    (∀ a ∈ l, ∀ b ∈ l, ∀ x, f a = some x → f b = some x → a = b) → (l.filterMap f).Nodup
  | [], _, _ => by simp
  | a :: r, hn, hinj => by
    have hn' := List.nodup_cons.mp hn
    have ih := nodup_filterMap f r hn'.2 (fun x hx y hy => hinj x (List.mem_cons_of_mem _ hx) y (List.mem_cons_of_mem _ hy))
    cases hfa : f a with
    | none => simpa [List.filterMap_cons, hfa] using ih
    | some x =>
      simp only [List.filterMap_cons, hfa, List.nodup_cons]
      refine ⟨?_, ih⟩
      intro hm
      obtain ⟨b, hb, hfb⟩ := List.mem_filterMap.mp hm
      have := hinj a List.mem_cons_self b (List.mem_cons_of_mem _ hb) x hfa hfb
      exact hn'.1 (this ▸ hb)

/-- the value the listing computes for one index key, through `nodeAt` -/
theorem listNonShared_eq (c : Str) (index : Index) (t : TTrie) :
    listNonShared c index t =
      ((AL.get c index).getD []).filterMap (fun key =>
        (AL.get c (nodeAt t (splitLevels key)).clients).map (fun s => (c, s))) := by
  unfold listNonShared nodeAt Trie.viewAt
  congr 1
  funext key
  cases Trie.at? (splitLevels key) t <;> simp

theorem listShared_eq (c : Str) (index : Index) (t : TTrie) :
    listShared c index t =
      ((AL.get c index).getD []).filterMap (fun key =>
        (AL.get c ((AL.get (keyParts .shared key).1 (nodeAt t (splitLevels (keyParts .shared key).2)).shared).getD [])).map
          (fun s => (c, s))) := by
  unfold listShared nodeAt Trie.viewAt
  congr 1
  funext key
  cases Trie.at? (splitLevels (keyParts Which.shared key).2) t <;> simp

theorem Rel.list_nonShared {st : Store} {m : SubMap} (R : Rel st m) (w : Which) (hw : w ≠ .shared) (cl : Str) :
    (listNonShared cl (st.index w) (st.trie w)).Nodup ∧
    ∀ c s, (c, s) ∈ listNonShared cl (st.index w) (st.trie w) ↔ (stored m c s ∧ c = cl) ∧ whichOf s.share s.filter = w := by
  have hT := R.trieOK w
  rw [listNonShared_eq]
  -- value at a key
  have hval : ∀ key s, AL.get cl (nodeAt (st.trie w) (splitLevels key)).clients = some s →
      s.share = [] ∧ s.filter = key ∧ stored m cl s ∧ whichOf s.share s.filter = w := by
    intro key s hg
    have hm := AL.mem_of_get hg
    obtain ⟨h1, _, h3⟩ := (hT _).cok cl s hm
    have hf : s.filter = key := splitLevels_inj h3
    have hl : trieLookup (st.trie w) cl s.share s.filter = some s := by
      unfold trieLookup nodeLookup; rw [h1, hf]; simpa using hg
    exact ⟨h1, hf, (R.trieLookup_iff w cl s).mp hl⟩
  constructor
  · apply nodup_filterMap _ _ (R.idxNodup w cl)
    intro a _ b _ x ha hb
    obtain ⟨sa, hsa, rfl⟩ := Option.map_eq_some_iff.mp ha
    obtain ⟨sb, hsb, he⟩ := Option.map_eq_some_iff.mp hb
    injection he with _ he; subst he
    exact (hval a sb hsa).2.1.symm.trans (hval b sb hsb).2.1
  · intro c s
    rw [List.mem_filterMap]
    constructor
    · rintro ⟨key, _, hk⟩
      obtain ⟨s', hs', he⟩ := Option.map_eq_some_iff.mp hk
      injection he with h1 h2; subst h1; subst h2
      obtain ⟨_, _, h3, h4⟩ := hval key s' hs'
      exact ⟨⟨h3, rfl⟩, h4⟩
    · rintro ⟨⟨hs, rfl⟩, hw'⟩
      have hg : s.share = [] := by
        by_cases hg : s.share = []
        · exact hg
        · exact absurd (hw' ▸ (whichOf_shared_iff _ _).mpr hg) hw
      refine ⟨s.filter, ?_, ?_⟩
      · have := (R.key_mem_iff c s.share s.filter (R.validM _ _ hs).1).mpr (by unfold stored at hs; simp [hs])
        rw [hw'] at this
        simpa [indexKey, hg, Store.keysOf] using this
      · have hl := (R.trieLookup_iff w c s).mpr ⟨hs, hw'⟩
        unfold trieLookup nodeLookup at hl
        rw [hg] at hl
        simp only [ne_eq, not_true_eq_false, ite_false] at hl
        simp [hl]

theorem Rel.list_shared {st : Store} {m : SubMap} (R : Rel st m) (cl : Str) :
    (listShared cl (st.index .shared) (st.trie .shared)).Nodup ∧
    ∀ c s, (c, s) ∈ listShared cl (st.index .shared) (st.trie .shared) ↔
      (stored m c s ∧ c = cl) ∧ whichOf s.share s.filter = .shared := by
  have hT := R.trieOK .shared
  rw [listShared_eq]
  have hval : ∀ key, key ∈ st.keysOf .shared cl → ∀ s,
      AL.get cl ((AL.get (keyParts .shared key).1 (nodeAt (st.trie .shared) (splitLevels (keyParts .shared key).2)).shared).getD [])
        = some s →
      key = indexKey s.share s.filter ∧ stored m cl s ∧ whichOf s.share s.filter = .shared := by
    intro key hkey s hg
    obtain ⟨g, f, hs, hw, hik⟩ := (R.idx .shared cl key).mp hkey
    obtain ⟨s0, hs0⟩ := Option.isSome_iff_exists.mp hs
    have hv := (R.validM _ _ hs0).1
    have hkp : keyParts .shared key = (g, f) := by rw [← hik, ← hw]; exact keyParts_indexKey hv
    rw [hkp] at hg
    simp only at hg
    cases hgg : AL.get g (nodeAt (st.trie .shared) (splitLevels f)).shared with
    | none => simp [hgg] at hg
    | some cl' =>
      simp only [hgg, Option.getD_some] at hg
      have hgm := AL.mem_of_get hgg
      have hcm := AL.mem_of_get hg
      obtain ⟨h1, _, _, h4⟩ := (hT _).sok g cl' hgm cl s hcm
      have hf : s.filter = f := splitLevels_inj h4
      have hin : (cl, s) ∈ setRs (nodeAt (st.trie .shared) (splitLevels f)) := mem_setRs.mpr (Or.inr ⟨g, cl', hgm, hcm⟩)
      have hl := ((mem_setRs_nodeAt hT _ cl s).mp hin).2
      refine ⟨?_, (R.trieLookup_iff .shared cl s).mp hl⟩
      rw [h1, hf]; exact hik.symm
  constructor
  · apply nodup_filterMap _ _ (R.idxNodup .shared cl)
    intro a ha b hb x hxa hxb
    obtain ⟨sa, hsa, rfl⟩ := Option.map_eq_some_iff.mp hxa
    obtain ⟨sb, hsb, he⟩ := Option.map_eq_some_iff.mp hxb
    injection he with _ he; subst he
    exact (hval a ha sb hsa).1.trans (hval b hb sb hsb).1.symm
  · intro c s
    rw [List.mem_filterMap]
    constructor
    · rintro ⟨key, hkey, hk⟩
      obtain ⟨s', hs', he⟩ := Option.map_eq_some_iff.mp hk
      injection he with h1 h2; subst h1; subst h2
      obtain ⟨_, h3, h4⟩ := hval key hkey s' hs'
      exact ⟨⟨h3, rfl⟩, h4⟩
    · rintro ⟨⟨hs, rfl⟩, hw'⟩
      have hv := (R.validM _ _ hs).1
      have hkey : indexKey s.share s.filter ∈ st.keysOf .shared c := by
        have := (R.key_mem_iff c s.share s.filter hv).mpr (by unfold stored at hs; simp [hs])
        rwa [hw'] at this
      refine ⟨indexKey s.share s.filter, hkey, ?_⟩
      have hkp : keyParts .shared (indexKey s.share s.filter) = (s.share, s.filter) := by
        rw [← hw']; exact keyParts_indexKey hv
      rw [hkp]
      simp only
      have hl := (R.trieLookup_iff .shared c s).mpr ⟨hs, hw'⟩
      unfold trieLookup nodeLookup at hl
      have hg := (whichOf_shared_iff _ _).mp hw'
      simp only [hg, ne_eq, not_false_eq_true, ite_true] at hl
      cases hgg : AL.get s.share (nodeAt (st.trie .shared) (splitLevels s.filter)).shared with
      | none => simp [hgg] at hl
      | some cl' => simp only [hgg, Option.bind_some] at hl; simp [hl]

/-- `Iterate{ClientID}` (no topic): exactly the client's stored entries of the selected types, each once, latest options -/
theorem Rel.clientListing_exact {st : Store} {m : SubMap} (R : Rel st m) (o : Opts) (ht : o.topic = []) (hc : o.client ≠ []) :
    (st.iterate o).Nodup ∧ ∀ c s, (c, s) ∈ st.iterate o ↔
      (stored m c s ∧ c = o.client) ∧ o.sel (whichOf s.share s.filter) = true := by
  have hS : iterateShared o (st.index .shared) (st.trie .shared) = listShared o.client (st.index .shared) (st.trie .shared) := by
    unfold iterateShared; simp [ht, hc]
  have hN : ∀ w, iterateNonShared o (st.index w) (st.trie w) = listNonShared o.client (st.index w) (st.trie w) := by
    intro w; unfold iterateNonShared; simp [ht, hc]
  apply iterate_combine st o
  · intro _; rw [hS]; exact R.list_shared o.client
  · rw [hN]; exact R.list_nonShared .user (by decide) o.client
  · rintro ⟨h, _⟩; exact absurd ht h
  · rw [hN]; exact R.list_nonShared .system (by decide) o.client
  · rintro ⟨h, _⟩; exact absurd ht h

end GmqttVerif.SubStore
