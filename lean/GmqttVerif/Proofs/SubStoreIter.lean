import GmqttVerif.Proofs.SubStoreStep
/-
  Exactness of the query side (`IterateLocked`): what each branch returns, in terms of the trie lookups and —
  through `Rel` — of the abstract map.
-/
namespace GmqttVerif.SubStore
open GmqttVerif Topic

/-! ### levels of a valid topic name are not wildcards -/

theorem mem_of_mem_level {c : Char} {l : Str} {s : Str} (hl : l ∈ splitLevels s) (hc : c ∈ l) : c ∈ s := by
  induction s generalizing l with
  | nil => simp [splitLevels_nil] at hl; subst hl; simp at hc
  | cons a cs ih =>
    by_cases ha : a = '/'
    · subst ha
      rw [splitLevels_sep] at hl
      rcases List.mem_cons.mp hl with h | h
      · subst h; simp at hc
      · exact List.mem_cons_of_mem _ (ih h hc)
    · obtain ⟨l0, ls, h1, h2⟩ := splitLevels_cons ha cs
      rw [h2] at hl
      rcases List.mem_cons.mp hl with h | h
      · subst h
        rcases List.mem_cons.mp hc with h | h
        · subst h; exact List.mem_cons_self
        · exact List.mem_cons_of_mem _ (ih (by rw [h1]; exact List.mem_cons_self) h)
      · exact List.mem_cons_of_mem _ (ih (by rw [h1]; exact List.mem_cons_of_mem _ h) hc)

theorem levels_plain {t : Str} (ht : validTopicName t = true) : ∀ l ∈ splitLevels t, l ≠ hash ∧ l ≠ plus := by
  unfold validTopicName at ht
  simp only [Bool.and_eq_true, Bool.not_eq_true', List.contains_eq_mem, decide_eq_false_iff_not] at ht
  intro l hl
  constructor
  · intro e; subst e
    exact ht.2 (mem_of_mem_level hl (by simp [Topic.hash]))
  · intro e; subst e
    exact ht.1.2 (mem_of_mem_level hl (by simp [Topic.plus]))

theorem validTopicName_ne_nil {t : Str} (ht : validTopicName t = true) : t ≠ [] := by
  intro e; subst e; simp [validTopicName] at ht

/-! ### well-formed tries, seen by the matcher -/

/-- per path: entries are duplicate free and carry their own path -/
def PathOK (t : TTrie) : Prop :=
  ∀ q, (setRs (nodeAt t q)).Nodup ∧ ∀ x ∈ setRs (nodeAt t q), splitLevels x.2.filter = q

theorem pathOK_of_trieOK {w : Which} {t : TTrie} (h : TrieOK w t) : PathOK t := by
  intro q
  refine ⟨nodup_setRs (h q), ?_⟩
  rintro ⟨c, s⟩ hx
  exact (setRs_path (h q) hx).1

theorem setRs_empty : setRs {} = [] := rfl

theorem nodeAt_restrictFirst_nil (l : Str) (t : TTrie) : nodeAt (restrictFirst l t) [] = {} := by
  unfold restrictFirst nodeAt
  cases AL.get l t.children <;> rfl

theorem nodeAt_restrictFirst_cons (l l' : Str) (q : List Str) (t : TTrie) :
    nodeAt (restrictFirst l t) (l' :: q) = if l' = l then nodeAt t (l :: q) else {} := by
  obtain ⟨b, ch⟩ := t
  unfold restrictFirst nodeAt
  simp only [Trie.children]
  cases hg : AL.get l ch with
  | none =>
    simp only [Trie.viewAt_cons, hg, AL.get_nil]
    split <;> rfl
  | some c =>
    simp only [Trie.viewAt_cons, hg, AL.get_cons]
    by_cases h : l' = l
    · subst h; simp
    · have : ¬ l = l' := fun e => h e.symm
      simp [h, this]

theorem pathOK_restrictFirst {t : TTrie} (h : PathOK t) (l : Str) : PathOK (restrictFirst l t) := by
  intro q
  cases q with
  | nil => rw [nodeAt_restrictFirst_nil]; simp [setRs_empty]
  | cons l' q' =>
    rw [nodeAt_restrictFirst_cons]
    by_cases hl : l' = l
    · subst hl; simpa using h (l' :: q')
    · simp [hl, setRs_empty]

theorem nodup_matchTopic_of_pathOK {t : TTrie} (h : PathOK t) (l : Str) (ls : List Str)
    (hp : ∀ l' ∈ l :: ls, l' ≠ hash ∧ l' ≠ plus) : (Trie.matchTopic setRs (l :: ls) t).Nodup := by
  apply Trie.nodup_matchTopic ({} : Node) setRs setRs_empty l ls hp t
  · intro q; exact (h q).1
  · intro q q' x hx hx'
    exact ((h q).2 x hx).symm.trans ((h q').2 x hx')

/-- the entries found under a well-formed trie node are the successful lookups at that path -/
theorem mem_setRs_nodeAt {w : Which} {t : TTrie} (h : TrieOK w t) (q : List Str) (c : Str) (s : Sub) :
    (c, s) ∈ setRs (nodeAt t q) ↔ q = splitLevels s.filter ∧ trieLookup t c s.share s.filter = some s := by
  constructor
  · intro hm
    have hq := (setRs_path (h q) hm).1
    subst hq
    exact ⟨rfl, (mem_setRs_iff (h _) c s).mp hm⟩
  · rintro ⟨rfl, hl⟩
    exact (mem_setRs_iff (h _) c s).mpr hl

/-- **`getMatchedTopicFilter` is exact** on a well-formed trie: for a valid topic name it returns exactly the stored
    entries whose filter matches the topic under MQTT 4.7 including [MQTT-4.7.2-1] -/
theorem mem_getMatched {w : Which} {t : TTrie} (h : TrieOK w t) {topic : Str} (ht : validTopicName topic = true)
    (c : Str) (s : Sub) :
    (c, s) ∈ getMatched t topic ↔
      trieLookup t c s.share s.filter = some s ∧ MatchesTopic s.filter topic = true := by
  have hplain := levels_plain ht
  obtain ⟨ts, hts⟩ := splitLevels_eq_cons topic
  have hph : ∀ l' ∈ firstLevel topic :: ts, l' ≠ hash := fun l' hl => (hplain l' (hts ▸ hl)).1
  obtain ⟨fs, hfs⟩ := splitLevels_eq_cons s.filter
  unfold getMatched
  simp only [hts, List.headD_cons]
  by_cases hsys : isSystemTopic topic = true
  · simp only [hsys, ite_true]
    rw [Trie.mem_matchTopic ({} : Node) setRs setRs_empty _ _ hph]
    have hl0 : isSystemTopic (firstLevel topic) = true := by rw [isSystemTopic_firstLevel]; exact hsys
    have hl0p : firstLevel topic ≠ plus := fun e => by rw [e, isSystemTopic_plus] at hl0; exact Bool.noConfusion hl0
    have hl0h : firstLevel topic ≠ hash := fun e => by rw [e, isSystemTopic_hash] at hl0; exact Bool.noConfusion hl0
    constructor
    · rintro ⟨q, hm, hx⟩
      cases q with
      | nil => simp [Matches] at hm
      | cons l' q' =>
        change (c, s) ∈ setRs (nodeAt (restrictFirst (firstLevel topic) t) (l' :: q')) at hx
        rw [nodeAt_restrictFirst_cons] at hx
        by_cases hl : l' = firstLevel topic
        · subst hl
          simp only [ite_true] at hx
          obtain ⟨hq, hlook⟩ := (mem_setRs_nodeAt h _ c s).mp hx
          refine ⟨hlook, ?_⟩
          unfold MatchesTopic startsWithWildcard
          rw [← hq, hts]
          simp [hl0p, hl0h, hm]
        · simp [hl, setRs_empty] at hx
    · rintro ⟨hlook, hm⟩
      unfold MatchesTopic startsWithWildcard at hm
      rw [hfs, hts, hsys] at hm
      simp only [Bool.true_and, Bool.and_eq_true, Bool.not_eq_true', Bool.or_eq_false_iff,
        decide_eq_false_iff_not] at hm
      obtain ⟨⟨hnp, hnh⟩, hmm⟩ := hm
      have hmm' := hmm
      rw [matches_cons_cons] at hmm'
      simp only [hnh, ite_false, hnp, decide_false, Bool.false_or, Bool.and_eq_true, decide_eq_true_eq] at hmm'
      refine ⟨firstLevel topic :: fs, ?_, ?_⟩
      · rw [hmm'.1] at hmm; exact hmm
      · change (c, s) ∈ setRs (nodeAt (restrictFirst (firstLevel topic) t) (firstLevel topic :: fs))
        rw [nodeAt_restrictFirst_cons]
        simp only [ite_true]
        rw [← hmm'.1, ← hfs]
        exact (mem_setRs_nodeAt h _ c s).mpr ⟨rfl, hlook⟩
  · simp only [hsys, Bool.false_eq_true, ite_false]
    rw [Trie.mem_matchTopic ({} : Node) setRs setRs_empty _ _ hph]
    have : MatchesTopic s.filter topic = Matches (splitLevels s.filter) (firstLevel topic :: ts) := by
      unfold MatchesTopic
      have hs' : isSystemTopic topic = false := by simpa using hsys
      rw [hs', hts]; simp
    rw [this]
    constructor
    · rintro ⟨q, hm, hx⟩
      obtain ⟨hq, hlook⟩ := (mem_setRs_nodeAt h _ c s).mp hx
      subst hq
      exact ⟨hlook, hm⟩
    · rintro ⟨hlook, hm⟩
      exact ⟨splitLevels s.filter, hm, (mem_setRs_nodeAt h _ c s).mpr ⟨rfl, hlook⟩⟩

theorem nodup_getMatched {w : Which} {t : TTrie} (h : TrieOK w t) {topic : Str} (ht : validTopicName topic = true) :
    (getMatched t topic).Nodup := by
  have hplain := levels_plain ht
  obtain ⟨ts, hts⟩ := splitLevels_eq_cons topic
  have hp : ∀ l' ∈ firstLevel topic :: ts, l' ≠ hash ∧ l' ≠ plus := fun l' hl => hplain l' (hts ▸ hl)
  unfold getMatched
  simp only [hts, List.headD_cons]
  split
  · exact nodup_matchTopic_of_pathOK (pathOK_restrictFirst (pathOK_of_trieOK h) _) _ _ hp
  · exact nodup_matchTopic_of_pathOK (pathOK_of_trieOK h) _ _ hp

/-! ### from tries to the abstract map -/

/-- `(c, s)` is a binding of the abstract map -/
def stored (m : SubMap) (c : Str) (s : Sub) : Prop := AL.get ⟨c, s.share, s.filter⟩ m = some s

theorem Rel.trieLookup_iff {st : Store} {m : SubMap} (R : Rel st m) (w : Which) (c : Str) (s : Sub) :
    trieLookup (st.trie w) c s.share s.filter = some s ↔ stored m c s ∧ whichOf s.share s.filter = w := by
  unfold stored
  constructor
  · intro hl
    have hm := (mem_setRs_iff (R.trieOK w _) c s).mpr hl
    have hw := (R.trieOK w _).wok c s hm
    refine ⟨?_, hw⟩
    rw [← R.lookup]; unfold Store.lookup; rw [hw]; exact hl
  · rintro ⟨hs, hw⟩
    rw [← R.lookup] at hs; unfold Store.lookup at hs; rw [hw] at hs; exact hs

theorem whichOf_user {g f : Str} (h : whichOf g f = .user) : g = [] ∧ isSystemTopic f = false := by
  unfold whichOf at h
  by_cases hg : g = []
  · by_cases hf : isSystemTopic f = true
    · simp [hg, hf] at h
    · exact ⟨hg, by simpa using hf⟩
  · simp [hg] at h

theorem whichOf_system {g f : Str} (h : whichOf g f = .system) : g = [] ∧ isSystemTopic f = true := by
  unfold whichOf at h
  by_cases hg : g = []
  · by_cases hf : isSystemTopic f = true
    · exact ⟨hg, hf⟩
    · simp [hg, hf] at h
  · simp [hg] at h

/-- which bit of `IterationOptions.Type` selects the trie an entry lives in -/
def Opts.sel (o : Opts) : Which → Bool
  | .shared => o.shared
  | .system => o.sys
  | .user => o.nonShared

/-- how the three per-trie answers combine in `IterateLocked`: if each consulted trie answers exactly `P` restricted to
    its own entries (each once), and a skipped trie has no entry satisfying `P`, the whole answer is exactly `P`
    restricted to the selected types, each once. -/
theorem iterate_combine (st : Store) (o : Opts) (P : Str → Sub → Prop)
    (hS : o.shared = true → (iterateShared o (st.index .shared) (st.trie .shared)).Nodup ∧
      ∀ c s, (c, s) ∈ iterateShared o (st.index .shared) (st.trie .shared) ↔ P c s ∧ whichOf s.share s.filter = .shared)
    (hU : (iterateNonShared o (st.index .user) (st.trie .user)).Nodup ∧
      ∀ c s, (c, s) ∈ iterateNonShared o (st.index .user) (st.trie .user) ↔ P c s ∧ whichOf s.share s.filter = .user)
    (hU' : (o.topic ≠ [] ∧ isSystemTopic o.topic = true) → ∀ c s, ¬ (P c s ∧ whichOf s.share s.filter = .user))
    (hY : (iterateNonShared o (st.index .system) (st.trie .system)).Nodup ∧
      ∀ c s, (c, s) ∈ iterateNonShared o (st.index .system) (st.trie .system) ↔ P c s ∧ whichOf s.share s.filter = .system)
    (hY' : (o.topic ≠ [] ∧ isSystemTopic o.topic = false) → ∀ c s, ¬ (P c s ∧ whichOf s.share s.filter = .system)) :
    (st.iterate o).Nodup ∧ ∀ c s, (c, s) ∈ st.iterate o ↔ P c s ∧ o.sel (whichOf s.share s.filter) = true := by
  -- the three summands, each characterised
  have hA : (if o.shared then iterateShared o (st.index .shared) (st.trie .shared) else []).Nodup ∧
      ∀ c s, (c, s) ∈ (if o.shared then iterateShared o (st.index .shared) (st.trie .shared) else []) ↔
        (P c s ∧ whichOf s.share s.filter = .shared) ∧ o.shared = true := by
    by_cases h : o.shared = true
    · simp only [h, ite_true, and_true]; exact hS h
    · simp [h]
  have hB : (if o.nonShared && !(decide (o.topic ≠ []) && isSystemTopic o.topic) then
        iterateNonShared o (st.index .user) (st.trie .user) else []).Nodup ∧
      ∀ c s, (c, s) ∈ (if o.nonShared && !(decide (o.topic ≠ []) && isSystemTopic o.topic) then
        iterateNonShared o (st.index .user) (st.trie .user) else []) ↔
        (P c s ∧ whichOf s.share s.filter = .user) ∧ o.nonShared = true := by
    by_cases h : o.nonShared = true
    · by_cases h2 : o.topic ≠ [] ∧ isSystemTopic o.topic = true
      · have := hU' h2
        have hc : (o.nonShared && !(decide (o.topic ≠ []) && isSystemTopic o.topic)) = false := by simp [h2.1, h2.2]
        rw [hc]
        refine ⟨by simp, fun c s => ?_⟩
        constructor
        · intro hx; simp at hx
        · intro hps; exact absurd hps.1 (this c s)
      · have h3 : (decide (o.topic ≠ []) && isSystemTopic o.topic) = false := by
          by_cases ht : o.topic ≠ []
          · have : isSystemTopic o.topic = false := by
              cases hb : isSystemTopic o.topic with
              | false => rfl
              | true => exact absurd ⟨ht, hb⟩ h2
            simp [this]
          · simp [ht]
        simp only [h, h3, Bool.not_false, Bool.and_self, ite_true, and_true]
        exact hU
    · simp [h]
  have hC : (if o.sys && !(decide (o.topic ≠ []) && !isSystemTopic o.topic) then
        iterateNonShared o (st.index .system) (st.trie .system) else []).Nodup ∧
      ∀ c s, (c, s) ∈ (if o.sys && !(decide (o.topic ≠ []) && !isSystemTopic o.topic) then
        iterateNonShared o (st.index .system) (st.trie .system) else []) ↔
        (P c s ∧ whichOf s.share s.filter = .system) ∧ o.sys = true := by
    by_cases h : o.sys = true
    · by_cases h2 : o.topic ≠ [] ∧ isSystemTopic o.topic = false
      · have := hY' h2
        have hc : (o.sys && !(decide (o.topic ≠ []) && !isSystemTopic o.topic)) = false := by simp [h2.1, h2.2]
        rw [hc]
        refine ⟨by simp, fun c s => ?_⟩
        constructor
        · intro hx; simp at hx
        · intro hps; exact absurd hps.1 (this c s)
      · have h3 : (decide (o.topic ≠ []) && !isSystemTopic o.topic) = false := by
          by_cases ht : o.topic ≠ []
          · have : isSystemTopic o.topic = true := by
              cases hb : isSystemTopic o.topic with
              | true => rfl
              | false => exact absurd ⟨ht, hb⟩ h2
            simp [this]
          · simp [ht]
        simp only [h, h3, Bool.not_false, Bool.and_self, ite_true, and_true]
        exact hY
    · simp [h]
  have hiter : st.iterate o =
      (if o.shared then iterateShared o (st.index .shared) (st.trie .shared) else []) ++
      (if o.nonShared && !(decide (o.topic ≠ []) && isSystemTopic o.topic) then
        iterateNonShared o (st.index .user) (st.trie .user) else []) ++
      (if o.sys && !(decide (o.topic ≠ []) && !isSystemTopic o.topic) then
        iterateNonShared o (st.index .system) (st.trie .system) else []) := rfl
  rw [hiter]
  constructor
  · rw [List.nodup_append, List.nodup_append]
    refine ⟨⟨hA.1, hB.1, ?_⟩, hC.1, ?_⟩
    · rintro ⟨c, s⟩ hx y hy rfl
      have h1 := ((hA.2 c s).mp hx).1.2
      have h2 := ((hB.2 c s).mp hy).1.2
      rw [h1] at h2; exact Which.noConfusion h2
    · rintro ⟨c, s⟩ hx y hy rfl
      have h2 := ((hC.2 c s).mp hy).1.2
      rcases List.mem_append.mp hx with hx | hx
      · have h1 := ((hA.2 c s).mp hx).1.2
        rw [h1] at h2; exact Which.noConfusion h2
      · have h1 := ((hB.2 c s).mp hx).1.2
        rw [h1] at h2; exact Which.noConfusion h2
  · intro c s
    simp only [List.mem_append, hA.2, hB.2, hC.2]
    constructor
    · rintro ((⟨⟨hp, hw⟩, hb⟩ | ⟨⟨hp, hw⟩, hb⟩) | ⟨⟨hp, hw⟩, hb⟩) <;> exact ⟨hp, by rw [hw]; exact hb⟩
    · rintro ⟨hp, hb⟩
      cases hw : whichOf s.share s.filter with
      | user => rw [hw] at hb; exact Or.inl (Or.inr ⟨⟨hp, rfl⟩, hb⟩)
      | system => rw [hw] at hb; exact Or.inr ⟨⟨hp, rfl⟩, hb⟩
      | shared => rw [hw] at hb; exact Or.inl (Or.inl ⟨⟨hp, rfl⟩, hb⟩)

/-! ### MatchFilter -/

/-- the optional client restriction applied to a result list -/
def clientSel (cl : Str) (L : List (Str × Sub)) : List (Str × Sub) := if cl ≠ [] then ofClient cl L else L

theorem mem_clientSel (cl : Str) (L : List (Str × Sub)) (c : Str) (s : Sub) :
    (c, s) ∈ clientSel cl L ↔ (c, s) ∈ L ∧ (cl = [] ∨ c = cl) := by
  unfold clientSel ofClient
  by_cases h : cl = []
  · simp [h]
  · simp [h, List.mem_filter]

theorem nodup_clientSel (cl : Str) {L : List (Str × Sub)} (h : L.Nodup) : (clientSel cl L).Nodup := by
  unfold clientSel ofClient
  split
  · exact List.Nodup.sublist List.filter_sublist h
  · exact h

theorem iterateNonShared_matchFilter (o : Opts) (idx : Index) (t : TTrie) (ht : o.topic ≠ []) (hm : o.matchType = 2) :
    iterateNonShared o idx t = clientSel o.client (getMatched t o.topic) := by
  unfold iterateNonShared clientSel
  simp [ht, hm]

theorem iterateShared_matchFilter (o : Opts) (idx : Index) (t : TTrie) (ht : o.topic ≠ []) (hm : o.matchType = 2) :
    iterateShared o idx t = clientSel o.client (getMatched t o.topic) := by
  unfold iterateShared clientSel
  simp [ht, hm]

theorem Rel.matchFilter_part {st : Store} {m : SubMap} (R : Rel st m) (w : Which) (o : Opts)
    (ht : validTopicName o.topic = true) :
    (clientSel o.client (getMatched (st.trie w) o.topic)).Nodup ∧
    ∀ c s, (c, s) ∈ clientSel o.client (getMatched (st.trie w) o.topic) ↔
      (stored m c s ∧ MatchesTopic s.filter o.topic = true ∧ (o.client = [] ∨ c = o.client)) ∧
        whichOf s.share s.filter = w := by
  refine ⟨nodup_clientSel _ (nodup_getMatched (R.trieOK w) ht), fun c s => ?_⟩
  rw [mem_clientSel, mem_getMatched (R.trieOK w) ht, R.trieLookup_iff]
  constructor
  · rintro ⟨⟨⟨h1, h2⟩, h3⟩, h4⟩; exact ⟨⟨h1, h3, h4⟩, h2⟩
  · rintro ⟨⟨h1, h3, h4⟩, h2⟩; exact ⟨⟨⟨h1, h2⟩, h3⟩, h4⟩

/-- `Iterate{MatchFilter, TopicName, [ClientID]}` in any state that represents `m`: exactly the stored entries of the selected
    types whose filter matches the topic, each once -/
theorem Rel.matchFilter_exact {st : Store} {m : SubMap} (R : Rel st m) (o : Opts)
    (ht : validTopicName o.topic = true) (hm : o.matchType = 2) :
    (st.iterate o).Nodup ∧ ∀ c s, (c, s) ∈ st.iterate o ↔
      (stored m c s ∧ MatchesTopic s.filter o.topic = true ∧ (o.client = [] ∨ c = o.client)) ∧
        o.sel (whichOf s.share s.filter) = true := by
  have hne := validTopicName_ne_nil ht
  apply iterate_combine st o
  · intro _; rw [iterateShared_matchFilter o _ _ hne hm]; exact R.matchFilter_part .shared o ht
  · rw [iterateNonShared_matchFilter o _ _ hne hm]; exact R.matchFilter_part .user o ht
  · rintro ⟨_, hsys⟩ c s ⟨⟨_, hmt, _⟩, hw⟩
    rw [matchesTopic_user_dollar hsys (whichOf_user hw).2] at hmt
    exact Bool.noConfusion hmt
  · rw [iterateNonShared_matchFilter o _ _ hne hm]; exact R.matchFilter_part .system o ht
  · rintro ⟨_, hsys⟩ c s ⟨⟨_, hmt, _⟩, hw⟩
    rw [matchesTopic_sys_plain hsys (whichOf_system hw).2] at hmt
    exact Bool.noConfusion hmt

end GmqttVerif.SubStore
