import GmqttVerif.Spec.SubMap
import GmqttVerif.Proofs.Trie
/-
  Node- and trie-level facts for the subscription store:
  what `subscribe` / `unsubscribe` (incl. pruning) do to the lookup of every (client, share, filter),
  and the per-node well-formedness `NodeOK` they preserve.
-/
namespace GmqttVerif.SubStore
open GmqttVerif Topic

/-- node reached by a path; the empty node when the path does not exist -/
def nodeAt (t : TTrie) (q : List Str) : Node := Trie.viewAt {} q t

/-- `node.shared[g][c]` for a shared lookup, `node.clients[c]` otherwise -/
def nodeLookup (n : Node) (c g : Str) : Option Sub :=
  if g ≠ [] then (AL.get g n.shared).bind (AL.get c) else AL.get c n.clients

def trieLookup (t : TTrie) (c g f : Str) : Option Sub := nodeLookup (nodeAt t (splitLevels f)) c g

/-- the subscription stored for (client, share, filter), found by walking the trie it belongs to -/
def Store.lookup (st : Store) (c g f : Str) : Option Sub := trieLookup (st.trie (whichOf g f)) c g f

theorem nodeLookup_empty (c g : Str) : nodeLookup {} c g = none := by
  unfold nodeLookup; by_cases h : g = [] <;> simp [h]

theorem nodeAt_emptyTrie (q : List Str) : nodeAt emptyTrie q = {} := Trie.viewAt_leaf _ q

/-! ### subscribe -/

theorem nodeLookup_subscribeNode (c : Str) (s : Sub) (n : Node) (c' g' : Str) :
    nodeLookup (subscribeNode c s n) c' g' =
      if c' = c ∧ g' = s.share then some s else nodeLookup n c' g' := by
  unfold subscribeNode nodeLookup
  by_cases hs : s.share = []
  · by_cases hg : g' = []
    · simp [hs, hg, AL.get_set]
    · simp [hs, hg]
  · by_cases hg : g' = []
    · simp [hs, hg]
    · by_cases hgs : g' = s.share
      · subst hgs
        by_cases hc : c' = c
        · simp [hs, AL.get_set, hc]
        · cases hget : AL.get s.share n.shared <;> simp [hs, AL.get_set, hc]
      · simp [hs, hg, AL.get_set, hgs]

theorem nodeAt_subscribeTrie (t : TTrie) (c : Str) (s : Sub) (q : List Str) :
    nodeAt (subscribeTrie t c s) q =
      if q = splitLevels s.filter then subscribeNode c s (nodeAt t q) else nodeAt t q := by
  unfold nodeAt subscribeTrie
  rw [Trie.viewAt_update]
  by_cases h : q = splitLevels s.filter <;> simp [h]

theorem trieLookup_subscribeTrie (t : TTrie) (c : Str) (s : Sub) (c' g' f' : Str) :
    trieLookup (subscribeTrie t c s) c' g' f' =
      if c' = c ∧ g' = s.share ∧ f' = s.filter then some s else trieLookup t c' g' f' := by
  unfold trieLookup
  rw [nodeAt_subscribeTrie]
  by_cases hf : f' = s.filter
  · subst hf
    simp only [ite_true, nodeLookup_subscribeNode, and_true]
  · have : splitLevels f' ≠ splitLevels s.filter := fun e => hf (splitLevels_inj e)
    simp [this, hf]

/-! ### unsubscribe -/

theorem unsubNode_empty (c g : Str) : (unsubNode c g {}).getD {} = ({} : Node) := by
  unfold unsubNode
  by_cases h : g = [] <;> simp [h, AL.del]

/-- lookups of the same kind (shared / non-shared) after the node-level removal -/
theorem nodeLookup_unsubNode (c g : Str) (n : Node) (c' g' : Str) (hk : g' = [] ↔ g = []) :
    nodeLookup ((unsubNode c g n).getD n) c' g' =
      if c' = c ∧ g' = g then none else nodeLookup n c' g' := by
  unfold unsubNode nodeLookup
  by_cases hg : g = []
  · have hg' : g' = [] := hk.mpr hg
    subst hg; subst hg'
    simp only [ne_eq, not_true_eq_false, ite_false, Option.getD_some, AL.get_del, and_true]
  · have hg' : g' ≠ [] := fun e => hg (hk.mp e)
    simp only [hg, hg', ne_eq, not_false_eq_true, ite_true]
    cases hget : AL.get g n.shared with
    | none =>
      simp only [Option.getD_none]
      by_cases h : c' = c ∧ g' = g
      · obtain ⟨_, h2⟩ := h
        subst h2
        simp [hget]
      · simp [h]
    | some cl =>
      simp only [Option.getD_some]
      by_cases hgg : g' = g
      · subst hgg
        simp only [and_true, hget, Option.bind_some]
        by_cases he : (AL.del c cl).isEmpty = true
        · simp only [he, ite_true, AL.get_del_self, Option.bind_none]
          by_cases hc : c' = c
          · simp [hc]
          · simp [hc, AL.del_isEmpty_get he hc]
        · simp only [he, Bool.false_eq_true, ite_false, AL.get_set_self, Option.bind_some, AL.get_del]
      · have : ¬ (c' = c ∧ g' = g) := fun h => hgg h.2
        simp only [this, ite_false]
        by_cases he : (AL.del c cl).isEmpty = true
        · simp [he, AL.get_del, hgg]
        · simp [he, AL.get_set, hgg]

theorem nodeLookup_dead (g : Str) (b : Node) (c' g' : Str) (hk : g' = [] ↔ g = []) (hd : deadNode g b = true) :
    nodeLookup b c' g' = none := by
  unfold deadNode at hd
  unfold nodeLookup
  by_cases hg : g = []
  · have hg' : g' = [] := hk.mpr hg
    simp only [hg, ne_eq, not_true_eq_false, ite_false] at hd
    simp [hg', AL.get_of_isEmpty hd]
  · have hg' : g' ≠ [] := fun e => hg (hk.mp e)
    simp only [hg, ne_eq, not_false_eq_true, ite_true] at hd
    simp [hg', AL.get_of_isEmpty hd]

theorem nodeAt_unsubscribeTrie_ne (t : TTrie) (c f g : Str) (q : List Str) (hq : q ≠ splitLevels f) :
    nodeAt (unsubscribeTrie t c f g) q = nodeAt t q := by
  cases hs : splitLevels f with
  | nil => exact absurd hs (splitLevels_ne_nil f)
  | cons l ls =>
    have key := Trie.viewAt_remove ({} : Node) (unsubNode c g) (deadNode g) l ls q t
    rw [hs] at hq
    unfold nodeAt unsubscribeTrie
    rw [hs, key]
    simp [hq]

/-- the node found at `split f` after `unsubscribe`: either the node-level result, or (pruned) the empty node,
    which happens only when the node-level result is dead -/
theorem nodeAt_unsubscribeTrie_eq (t : TTrie) (c f g : Str) :
    nodeAt (unsubscribeTrie t c f g) (splitLevels f) =
        (unsubNode c g (nodeAt t (splitLevels f))).getD (nodeAt t (splitLevels f)) ∨
    (nodeAt (unsubscribeTrie t c f g) (splitLevels f) = {} ∧
      deadNode g ((unsubNode c g (nodeAt t (splitLevels f))).getD (nodeAt t (splitLevels f))) = true) := by
  cases hs : splitLevels f with
  | nil => exact absurd hs (splitLevels_ne_nil f)
  | cons l ls =>
    have key := Trie.viewAt_remove ({} : Node) (unsubNode c g) (deadNode g) l ls (l :: ls) t
    unfold nodeAt unsubscribeTrie
    rw [hs]
    simp only [ite_true] at key
    rw [key]
    cases hat : Trie.at? (l :: ls) t with
    | none =>
      have hv : Trie.viewAt ({} : Node) (l :: ls) t = {} := by simp [Trie.viewAt, hat]
      rw [hv]
      left
      simp [unsubNode_empty]
    | some n =>
      have hv : Trie.viewAt ({} : Node) (l :: ls) t = n.payload := by simp [Trie.viewAt, hat]
      rw [hv]
      cases hg : unsubNode c g n.payload with
      | none => left; simp [hg]
      | some b' =>
        simp only [Option.getD_some]
        by_cases hd : deadNode g b' = true ∧ n.children = []
        · right
          exact ⟨by simp [hg, hd], hd.1⟩
        · left; simp [hg, hd]

theorem trieLookup_unsubscribeTrie (t : TTrie) (c f g : Str) (c' g' f' : Str) (hk : g' = [] ↔ g = []) :
    trieLookup (unsubscribeTrie t c f g) c' g' f' =
      if c' = c ∧ g' = g ∧ f' = f then none else trieLookup t c' g' f' := by
  unfold trieLookup
  by_cases hf : f' = f
  · subst hf
    simp only [and_true]
    have hnode := nodeLookup_unsubNode c g (nodeAt t (splitLevels f')) c' g' hk
    rcases nodeAt_unsubscribeTrie_eq t c f' g with h | ⟨h, hd⟩
    · rw [h]; exact hnode
    · rw [h, nodeLookup_empty, ← hnode, nodeLookup_dead g _ c' g' hk hd]
  · have : splitLevels f' ≠ splitLevels f := fun e => hf (splitLevels_inj e)
    rw [nodeAt_unsubscribeTrie_ne _ _ _ _ _ this]
    simp [hf]

theorem whichOf_shared_iff' (g f : Str) : whichOf g f = .shared ↔ g ≠ [] := by
  unfold whichOf
  by_cases h : g = []
  · by_cases h2 : isSystemTopic f = true <;> simp [h, h2]
  · simp [h]

/-! ### per-node well-formedness -/

/-- what every node of trie `w` at path `q` satisfies: map-like lists, every stored subscription sits at the path of its
    own filter, carries the node's `topicName`, belongs to this trie, and shared / non-shared entries are not mixed -/
structure NodeOK (w : Which) (q : List Str) (n : Node) : Prop where
  cnodup : AL.NodupKeys n.clients
  snodup : AL.NodupKeys n.shared
  gnodup : ∀ g cl, (g, cl) ∈ n.shared → AL.NodupKeys cl
  cok : ∀ c s, (c, s) ∈ n.clients → s.share = [] ∧ s.filter = n.name ∧ splitLevels s.filter = q
  sok : ∀ g cl, (g, cl) ∈ n.shared → ∀ c s, (c, s) ∈ cl → s.share = g ∧ g ≠ [] ∧ s.filter = n.name ∧ splitLevels s.filter = q
  wok : ∀ c s, (c, s) ∈ setRs n → whichOf s.share s.filter = w
  kindS : w = .shared → n.clients = []
  kindN : w ≠ .shared → n.shared = []

theorem nodeOK_empty (w : Which) (q : List Str) : NodeOK w q {} := by
  constructor <;> simp [AL.nodupKeys_nil, setRs]

theorem mem_setRs {n : Node} {c : Str} {s : Sub} :
    (c, s) ∈ setRs n ↔ (c, s) ∈ n.clients ∨ ∃ g cl, (g, cl) ∈ n.shared ∧ (c, s) ∈ cl := by
  unfold setRs
  simp only [List.mem_append, List.mem_flatten, List.mem_map]
  constructor
  · rintro (h | ⟨l, ⟨⟨g, cl⟩, hm, rfl⟩, hl⟩)
    · exact Or.inl h
    · exact Or.inr ⟨g, cl, hm, hl⟩
  · rintro (h | ⟨g, cl, hm, hl⟩)
    · exact Or.inl h
    · exact Or.inr ⟨cl, ⟨(g, cl), hm, rfl⟩, hl⟩

/-- the entries reported for a well-formed node are exactly its successful lookups -/
theorem mem_setRs_iff {w : Which} {q : List Str} {n : Node} (h : NodeOK w q n) (c : Str) (s : Sub) :
    (c, s) ∈ setRs n ↔ nodeLookup n c s.share = some s := by
  rw [mem_setRs]
  unfold nodeLookup
  constructor
  · rintro (hc | ⟨g, cl, hm, hl⟩)
    · have := (h.cok c s hc).1
      simp [this, AL.get_of_mem h.cnodup hc]
    · obtain ⟨h1, h2, _⟩ := h.sok g cl hm c s hl
      rw [h1]
      simp [h2, AL.get_of_mem h.snodup hm, AL.get_of_mem (h.gnodup g cl hm) hl]
  · intro hl
    by_cases hs : s.share = []
    · simp only [hs, ne_eq, not_true_eq_false, ite_false] at hl
      exact Or.inl (AL.mem_of_get hl)
    · simp only [hs, ne_eq, not_false_eq_true, ite_true] at hl
      cases hg : AL.get s.share n.shared with
      | none => simp [hg] at hl
      | some cl =>
        simp only [hg, Option.bind_some] at hl
        exact Or.inr ⟨s.share, cl, AL.mem_of_get hg, AL.mem_of_get hl⟩

theorem setRs_path {w : Which} {q : List Str} {n : Node} (h : NodeOK w q n) {c : Str} {s : Sub}
    (hm : (c, s) ∈ setRs n) : splitLevels s.filter = q ∧ s.filter = n.name := by
  rcases mem_setRs.mp hm with hc | ⟨g, cl, hg, hl⟩
  · exact ⟨(h.cok c s hc).2.2, (h.cok c s hc).2.1⟩
  · exact ⟨(h.sok g cl hg c s hl).2.2.2, (h.sok g cl hg c s hl).2.2.1⟩

theorem nodup_setRs {w : Which} {q : List Str} {n : Node} (h : NodeOK w q n) : (setRs n).Nodup := by
  by_cases hw : w = .shared
  · -- only groups; entries of different groups differ in their share name
    have hc := h.kindS hw
    unfold setRs
    rw [hc, List.nil_append]
    have hsn := h.snodup
    have hg := h.gnodup
    have hsok := h.sok
    generalize n.shared = sh at hsn hg hsok
    induction sh with
    | nil => simp
    | cons gcl r ih =>
      obtain ⟨g, cl⟩ := gcl
      have hsn' : g ∉ AL.keys r ∧ AL.NodupKeys r := by simpa [AL.NodupKeys, AL.keys] using hsn
      simp only [List.map_cons, List.flatten_cons]
      rw [List.nodup_append]
      refine ⟨AL.nodup_of_nodupKeys (hg g cl List.mem_cons_self),
        ih hsn'.2 (fun g' cl' hm => hg g' cl' (List.mem_cons_of_mem _ hm))
          (fun g' cl' hm => hsok g' cl' (List.mem_cons_of_mem _ hm)), ?_⟩
      intro x hx y hy hxy
      subst hxy
      obtain ⟨c, s⟩ := x
      have h1 := (hsok g cl List.mem_cons_self c s hx).1
      obtain ⟨l, hl, hxl⟩ := List.mem_flatten.mp hy
      obtain ⟨⟨g', cl'⟩, hm', rfl⟩ := List.mem_map.mp hl
      have h2 := (hsok g' cl' (List.mem_cons_of_mem _ hm') c s hxl).1
      have : g' = g := h2.symm.trans h1
      subst this
      exact hsn'.1 (List.mem_map.mpr ⟨(g', cl'), hm', rfl⟩)
  · have hs := h.kindN hw
    unfold setRs
    rw [hs]
    simpa using AL.nodup_of_nodupKeys h.cnodup

theorem nodeOK_subscribeNode {w : Which} {q : List Str} {n : Node} (h : NodeOK w q n) (c : Str) (s : Sub)
    (hq : splitLevels s.filter = q) (hw : whichOf s.share s.filter = w) : NodeOK w q (subscribeNode c s n) := by
  have hname : ∀ s' : Sub, splitLevels s'.filter = q → s'.filter = s.filter := fun s' e => splitLevels_inj (e.trans hq.symm)
  by_cases hs : s.share = []
  · have hwn : w ≠ .shared := fun e => by
      rw [← hw] at e; exact (whichOf_shared_iff' _ _).mp e hs
    have hsh := h.kindN hwn
    have hcl : ∀ c' s', (c', s') ∈ AL.set c s n.clients → s'.share = [] ∧ s'.filter = s.filter ∧ splitLevels s'.filter = q ∧
        whichOf s'.share s'.filter = w := by
      intro c' s' hm
      rcases AL.mem_set.mp hm with he | ⟨hm', _⟩
      · injection he with h1 h2; subst h2; exact ⟨hs, rfl, hq, hw⟩
      · have := h.cok c' s' hm'
        exact ⟨this.1, hname s' this.2.2, this.2.2, h.wok c' s' (mem_setRs.mpr (Or.inl hm'))⟩
    unfold subscribeNode
    simp only [hs, ne_eq, not_true_eq_false, ite_false]
    constructor
    · exact AL.nodupKeys_set c s h.cnodup
    · exact h.snodup
    · exact h.gnodup
    · intro c' s' hm; have := hcl c' s' hm; exact ⟨this.1, this.2.1, this.2.2.1⟩
    · intro g cl hm; rw [hsh] at hm; simp at hm
    · intro c' s' hm
      rcases mem_setRs.mp hm with hc | ⟨g, cl, hg, _⟩
      · exact (hcl c' s' hc).2.2.2
      · rw [hsh] at hg; simp at hg
    · intro e; exact absurd e hwn
    · intro _; exact hsh
  · have hws : w = .shared := by rw [← hw]; exact (whichOf_shared_iff' _ _).mpr hs
    have hcl := h.kindS hws
    have hcl0 : AL.NodupKeys ((AL.get s.share n.shared).getD []) ∧
        ∀ c' s', (c', s') ∈ (AL.get s.share n.shared).getD [] →
          s'.share = s.share ∧ s.share ≠ [] ∧ s'.filter = s.filter ∧ splitLevels s'.filter = q := by
      cases hg : AL.get s.share n.shared with
      | none => simp [AL.nodupKeys_nil]
      | some cl0 =>
        have hm := AL.mem_of_get hg
        refine ⟨h.gnodup _ _ hm, fun c' s' hm' => ?_⟩
        have := h.sok _ _ hm c' s' hm'
        exact ⟨this.1, this.2.1, hname s' this.2.2.2, this.2.2.2⟩
    have hsh : ∀ g cl, (g, cl) ∈ AL.set s.share (AL.set c s ((AL.get s.share n.shared).getD [])) n.shared →
        AL.NodupKeys cl ∧ ∀ c' s', (c', s') ∈ cl → s'.share = g ∧ g ≠ [] ∧ s'.filter = s.filter ∧ splitLevels s'.filter = q := by
      intro g cl hm
      rcases AL.mem_set.mp hm with he | ⟨hm', _⟩
      · injection he with h1 h2; subst h1; subst h2
        refine ⟨AL.nodupKeys_set c s hcl0.1, fun c' s' hm' => ?_⟩
        rcases AL.mem_set.mp hm' with he | ⟨hm'', _⟩
        · injection he with h1 h2; subst h2; exact ⟨rfl, hs, rfl, hq⟩
        · exact hcl0.2 c' s' hm''
      · refine ⟨h.gnodup g cl hm', fun c' s' hm'' => ?_⟩
        have := h.sok g cl hm' c' s' hm''
        exact ⟨this.1, this.2.1, hname s' this.2.2.2, this.2.2.2⟩
    unfold subscribeNode
    simp only [hs, ne_eq, not_false_eq_true, ite_true]
    constructor
    · exact h.cnodup
    · exact AL.nodupKeys_set _ _ h.snodup
    · intro g cl hm; exact (hsh g cl hm).1
    · intro c' s' hm; rw [hcl] at hm; simp at hm
    · intro g cl hm c' s' hm'; exact (hsh g cl hm).2 c' s' hm'
    · intro c' s' hm
      rcases mem_setRs.mp hm with hc | ⟨g, cl, hg, hm'⟩
      · rw [hcl] at hc; simp at hc
      · have := (hsh g cl hg).2 c' s' hm'
        rw [hws]
        exact (whichOf_shared_iff' _ _).mpr (this.1 ▸ this.2.1)
    · intro _; exact hcl
    · intro e; exact absurd hws e

theorem nodeOK_unsubNode {w : Which} {q : List Str} {n : Node} (h : NodeOK w q n) (c g : Str) :
    NodeOK w q ((unsubNode c g n).getD n) := by
  unfold unsubNode
  by_cases hg : g = []
  · simp only [hg, ne_eq, not_true_eq_false, ite_false, Option.getD_some]
    have hsub : ∀ x, x ∈ AL.del c n.clients → x ∈ n.clients := fun x hx => (AL.mem_del.mp hx).1
    constructor
    · exact AL.nodupKeys_del c h.cnodup
    · exact h.snodup
    · exact h.gnodup
    · intro c' s' hm; exact h.cok c' s' (hsub _ hm)
    · exact h.sok
    · intro c' s' hm
      apply h.wok c' s'
      rcases mem_setRs.mp hm with hc | hr
      · exact mem_setRs.mpr (Or.inl (hsub _ hc))
      · exact mem_setRs.mpr (Or.inr hr)
    · intro e; simp [h.kindS e, AL.del]
    · exact h.kindN
  · simp only [hg, ne_eq, not_false_eq_true, ite_true]
    cases hget : AL.get g n.shared with
    | none => simpa using h
    | some cl =>
      simp only [Option.getD_some]
      have hcl := AL.mem_of_get hget
      have hmem : ∀ g' cl', (g', cl') ∈ (if (AL.del c cl).isEmpty = true then AL.del g n.shared else AL.set g (AL.del c cl) n.shared) →
          ∃ cl0, (g', cl0) ∈ n.shared ∧ AL.NodupKeys cl' ∧ ∀ x, x ∈ cl' → x ∈ cl0 := by
        intro g' cl' hm
        by_cases he : (AL.del c cl).isEmpty = true
        · simp only [he, ite_true] at hm
          have := (AL.mem_del.mp hm).1
          exact ⟨cl', this, h.gnodup _ _ this, fun x hx => hx⟩
        · simp only [he, Bool.false_eq_true, ite_false] at hm
          rcases AL.mem_set.mp hm with heq | ⟨hm', _⟩
          · injection heq with h1 h2; subst h1; subst h2
            exact ⟨cl, hcl, AL.nodupKeys_del c (h.gnodup _ _ hcl), fun x hx => (AL.mem_del.mp hx).1⟩
          · exact ⟨cl', hm', h.gnodup _ _ hm', fun x hx => hx⟩
      constructor
      · exact h.cnodup
      · by_cases he : (AL.del c cl).isEmpty = true
        · simp only [he, ite_true]; exact AL.nodupKeys_del g h.snodup
        · simp only [he, Bool.false_eq_true, ite_false]; exact AL.nodupKeys_set _ _ h.snodup
      · intro g' cl' hm
        obtain ⟨cl0, _, hn, _⟩ := hmem g' cl' hm
        exact hn
      · exact h.cok
      · intro g' cl' hm c' s' hm'
        obtain ⟨cl0, h0, _, hsub⟩ := hmem g' cl' hm
        exact h.sok g' cl0 h0 c' s' (hsub _ hm')
      · intro c' s' hm
        apply h.wok c' s'
        rcases mem_setRs.mp hm with hc | ⟨g', cl', hg', hm'⟩
        · exact mem_setRs.mpr (Or.inl hc)
        · obtain ⟨cl0, h0, _, hsub⟩ := hmem g' cl' hg'
          exact mem_setRs.mpr (Or.inr ⟨g', cl0, h0, hsub _ hm'⟩)
      · exact h.kindS
      · intro e
        have := h.kindN e
        rw [this] at hget
        simp at hget

/-- every node of the trie is well formed -/
def TrieOK (w : Which) (t : TTrie) : Prop := ∀ q, NodeOK w q (nodeAt t q)

theorem trieOK_empty (w : Which) : TrieOK w emptyTrie := by
  intro q; rw [nodeAt_emptyTrie]; exact nodeOK_empty w q

theorem trieOK_subscribeTrie {w : Which} {t : TTrie} (h : TrieOK w t) (c : Str) (s : Sub)
    (hw : whichOf s.share s.filter = w) : TrieOK w (subscribeTrie t c s) := by
  intro q
  rw [nodeAt_subscribeTrie]
  by_cases hq : q = splitLevels s.filter
  · simp only [hq, ite_true]
    exact nodeOK_subscribeNode (h _) c s rfl hw
  · simp only [hq, ite_false]; exact h q

theorem trieOK_unsubscribeTrie {w : Which} {t : TTrie} (h : TrieOK w t) (c f g : Str) :
    TrieOK w (unsubscribeTrie t c f g) := by
  intro q
  by_cases hq : q = splitLevels f
  · subst hq
    rcases nodeAt_unsubscribeTrie_eq t c f g with he | ⟨he, _⟩
    · rw [he]; exact nodeOK_unsubNode (h _) c g
    · rw [he]; exact nodeOK_empty _ _
  · rw [nodeAt_unsubscribeTrie_ne _ _ _ _ _ hq]; exact h q

end GmqttVerif.SubStore
