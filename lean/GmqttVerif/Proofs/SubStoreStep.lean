import GmqttVerif.Proofs.SubStore
/-
  Every operation preserves the refinement relation `Rel` and returns the flag of the abstract map.
-/
namespace GmqttVerif.SubStore
open GmqttVerif Topic

theorem length_filter_del {κ β : Type} [DecidableEq κ] (p : κ → Bool) (k0 : κ) {m : List (κ × β)} (hn : AL.NodupKeys m) :
    ((AL.del k0 m).filter (fun e => p e.1)).length + (if p k0 = true ∧ (AL.get k0 m).isSome = true then 1 else 0) =
      (m.filter (fun e => p e.1)).length := by
  induction m with
  | nil => simp [AL.del]
  | cons e r ih =>
    obtain ⟨a, v⟩ := e
    have hn' : a ∉ AL.keys r ∧ AL.NodupKeys r := by simpa [AL.NodupKeys, AL.keys] using hn
    by_cases ha : a = k0
    · subst ha
      have h1 : AL.del a r = r := AL.del_eq_self (AL.get_none_iff.mpr hn'.1)
      have e : AL.del a ((a, v) :: r) = AL.del a r := by simp [AL.del]
      rw [e, h1]
      by_cases hp : p a = true <;> simp [hp, AL.get_cons, List.filter_cons]
    · have e : AL.del k0 ((a, v) :: r) = (a, v) :: AL.del k0 r := by simp [AL.del, ha]
      rw [e]
      have := ih hn'.2
      by_cases hp : p a = true <;> simp [hp, AL.get_cons, ha, List.filter_cons] at this ⊢ <;> omega

theorem length_set {κ β : Type} [DecidableEq κ] (k0 : κ) (v : β) {m : List (κ × β)} (hn : AL.NodupKeys m) :
    (AL.set k0 v m).length = if (AL.get k0 m).isSome = true then m.length else m.length + 1 := by
  unfold AL.set
  by_cases h : (AL.get k0 m).isSome = true
  · have := AL.length_del_of_has hn h
    simp [h]; omega
  · have : AL.get k0 m = none := by simpa using h
    rw [AL.del_eq_self this]
    simp [this]

/-- `clientStats[c']` after `subscribeCStats` for another client -/
theorem get_subscribeCStats_ne (cs : List (Str × Stats)) (c c' : Str) (hi ex : Bool) (h : c' ≠ c) :
    AL.get c' (subscribeCStats cs c hi ex) = AL.get c' cs := by
  unfold subscribeCStats
  by_cases h1 : (!hi && !AL.has c cs) = true
  · simp only [h1, ite_true]
    by_cases hex : ex = true
    · simp [hex, AL.get_set, h]
    · simp only [hex, Bool.false_eq_true, ite_false]
      cases hg : AL.get c (AL.set c {} cs) <;> simp [AL.get_set, h]
  · simp only [h1, Bool.false_eq_true, ite_false]
    by_cases hex : ex = true
    · simp [hex]
    · simp only [hex, Bool.false_eq_true, ite_false]
      cases hg : AL.get c cs <;> simp [AL.get_set, h]

/-- `clientStats[c]` after `subscribeCStats` -/
theorem get_subscribeCStats_self (cs : List (Str × Stats)) (c : Str) (hi ex : Bool) :
    AL.get c (subscribeCStats cs c hi ex) =
      match AL.get c cs with
      | some x => some (if ex then x else bumpNew x)
      | none => if hi then none else some (if ex then {} else bumpNew {}) := by
  unfold subscribeCStats AL.has
  cases hg : AL.get c cs with
  | some x =>
    by_cases hex : ex = true <;> simp [hg, hex, AL.get_set]
  | none =>
    by_cases hh : hi = true
    · by_cases hex : ex = true <;> simp [hg, hh, hex]
    · by_cases hex : ex = true <;> simp [hg, hh, hex, AL.get_set]

theorem Rel.subscribe {st : Store} {m : SubMap} (R : Rel st m) (c : Str) (s : Sub) (hv : '/' ∉ s.share) :
    Rel (st.subscribe c s).1 (AL.set ⟨c, s.share, s.filter⟩ s m) ∧
      (st.subscribe c s).2 = AL.has ⟨c, s.share, s.filter⟩ m := by
  have hflag : (st.subscribe c s).2 = AL.has ⟨c, s.share, s.filter⟩ m := by
    rw [subscribe_flag]
    have := R.key_mem_iff c s.share s.filter hv
    unfold AL.has
    by_cases h : (AL.get ⟨c, s.share, s.filter⟩ m).isSome = true
    · rw [h]; simpa using this.mpr h
    · have h' : (AL.get ⟨c, s.share, s.filter⟩ m).isSome = false := by simpa using h
      rw [h']
      simp only [List.contains_eq_mem, decide_eq_false_iff_not]
      exact fun hm => h (this.mp hm)
  refine ⟨?_, hflag⟩
  have hex : (st.keysOf (whichOf s.share s.filter) c).contains (indexKey s.share s.filter) =
      (AL.get ⟨c, s.share, s.filter⟩ m).isSome := by rw [← subscribe_flag, hflag]; rfl
  have hnoStats : AL.get c st.clientStats = none → ∀ g f, AL.get (⟨c, g, f⟩ : Key) m = none := by
    intro hn g f
    cases hg : AL.get (⟨c, g, f⟩ : Key) m with
    | none => rfl
    | some s' =>
      exfalso
      have hm : indexKey g f ∈ st.keysOf (whichOf g f) c :=
        (R.idx _ _ _).mpr ⟨g, f, by simp [hg], rfl, rfl⟩
      have hi : (AL.get c (st.index (whichOf g f))).isSome = true := by
        unfold Store.keysOf at hm
        cases h : AL.get c (st.index (whichOf g f)) with
        | none => simp [h] at hm
        | some _ => rfl
      have := R.cstatsIdx _ _ hi
      simp [hn] at this
  constructor
  · -- lookup
    intro c' g' f'
    unfold Store.lookup
    rw [subscribe_trie, AL.get_set]
    by_cases hw : whichOf g' f' = whichOf s.share s.filter
    · simp only [hw, ite_true]
      have := R.lookup c' g' f'
      unfold Store.lookup at this
      rw [hw] at this
      rw [trieLookup_subscribeTrie, this]
      by_cases hk : c' = c ∧ g' = s.share ∧ f' = s.filter
      · obtain ⟨h1, h2, h3⟩ := hk; subst h1; subst h2; subst h3; simp
      · have : (⟨c', g', f'⟩ : Key) ≠ ⟨c, s.share, s.filter⟩ := by
          intro e; injection e with e1 e2 e3; exact hk ⟨e1, e2, e3⟩
        simp [hk, this]
    · simp only [hw, ite_false]
      have hne : (⟨c', g', f'⟩ : Key) ≠ ⟨c, s.share, s.filter⟩ := by
        intro e; injection e with e1 e2 e3; subst e2; subst e3; exact hw rfl
      simp only [hne, ite_false]
      exact R.lookup c' g' f'
  · exact AL.nodupKeys_set _ _ R.nodupM
  · -- validM
    intro k s' hk
    rw [AL.get_set] at hk
    by_cases he : k = ⟨c, s.share, s.filter⟩
    · subst he
      simp only [ite_true, Option.some.injEq] at hk
      subst hk
      exact ⟨hv, rfl, rfl⟩
    · simp only [he, ite_false] at hk
      exact R.validM k s' hk
  · -- idx
    intro w' c' key'
    rw [subscribe_keysOf]
    by_cases hwc : w' = whichOf s.share s.filter ∧ c' = c
    · obtain ⟨hw, hc⟩ := hwc
      subst hw; subst hc
      simp only [and_self, ite_true]
      have hmem : key' ∈ (if (st.keysOf (whichOf s.share s.filter) c').contains (indexKey s.share s.filter) = true
            then st.keysOf (whichOf s.share s.filter) c'
            else indexKey s.share s.filter :: st.keysOf (whichOf s.share s.filter) c') ↔
          key' = indexKey s.share s.filter ∨ key' ∈ st.keysOf (whichOf s.share s.filter) c' := by
        by_cases hcn : (st.keysOf (whichOf s.share s.filter) c').contains (indexKey s.share s.filter) = true
        · simp only [hcn, ite_true]
          constructor
          · exact Or.inr
          · rintro (h | h)
            · rw [h]; simpa using hcn
            · exact h
        · have hcn' : indexKey s.share s.filter ∉ st.keysOf (whichOf s.share s.filter) c' := by simpa using hcn
          simp [hcn']
      rw [hmem, R.idx]
      constructor
      · rintro (h | ⟨g, f, hs, hw, hk⟩)
        · exact ⟨s.share, s.filter, by simp [AL.get_set], rfl, h.symm⟩
        · refine ⟨g, f, ?_, hw, hk⟩
          rw [AL.get_set]; split <;> simp [hs]
      · rintro ⟨g, f, hs, hw, hk⟩
        rw [AL.get_set] at hs
        by_cases he : (⟨c', g, f⟩ : Key) = ⟨c', s.share, s.filter⟩
        · injection he with _ e2 e3; subst e2; subst e3; exact Or.inl hk.symm
        · simp only [he, ite_false] at hs
          exact Or.inr ⟨g, f, hs, hw, hk⟩
    · simp only [hwc, ite_false]
      rw [R.idx]
      constructor
      · rintro ⟨g, f, hs, hw, hk⟩
        refine ⟨g, f, ?_, hw, hk⟩
        rw [AL.get_set]; split <;> simp [hs]
      · rintro ⟨g, f, hs, hw, hk⟩
        rw [AL.get_set] at hs
        have he : (⟨c', g, f⟩ : Key) ≠ ⟨c, s.share, s.filter⟩ := by
          intro e; injection e with e1 e2 e3; subst e1; subst e2; subst e3; exact hwc ⟨hw.symm, rfl⟩
        simp only [he, ite_false] at hs
        exact ⟨g, f, hs, hw, hk⟩
  · -- idxNodup
    intro w' c'
    rw [subscribe_keysOf]
    by_cases hwc : w' = whichOf s.share s.filter ∧ c' = c
    · simp only [hwc, and_self, ite_true]
      by_cases hcn : (st.keysOf (whichOf s.share s.filter) c).contains (indexKey s.share s.filter) = true
      · simp only [hcn, ite_true]; exact R.idxNodup _ _
      · simp only [hcn, Bool.false_eq_true, ite_false, List.nodup_cons]
        exact ⟨by simpa using hcn, R.idxNodup _ _⟩
    · simp only [hwc, ite_false]; exact R.idxNodup _ _
  · -- statsCur
    rw [subscribe_stats, subscribe_flag, hex, length_set _ _ R.nodupM]
    by_cases h : (AL.get ⟨c, s.share, s.filter⟩ m).isSome = true
    · simp [h, R.statsCur]
    · simp [h, bumpNew, R.statsCur]
  · -- cstatsCur
    intro c' cs' hget
    rw [subscribe_clientStats, subscribe_flag, hex] at hget
    have hcount := length_filter_del (fun k : Key => decide (k.client = c')) ⟨c, s.share, s.filter⟩ R.nodupM
    simp only [decide_eq_true_eq] at hcount
    unfold AL.set
    by_cases hc : c' = c
    · subst hc
      rw [get_subscribeCStats_self] at hget
      simp only [List.filter_cons, decide_true, ite_true, List.length_cons]
      simp only [true_and] at hcount
      cases hold : AL.get c' st.clientStats with
      | some x =>
        rw [hold] at hget
        simp only [Option.some.injEq] at hget
        have hx := R.cstatsCur c' x hold
        by_cases h : (AL.get ⟨c', s.share, s.filter⟩ m).isSome = true
        · simp only [h, ite_true] at hget hcount
          subst hget; omega
        · simp only [h, Bool.false_eq_true, ite_false] at hget hcount
          subst hget; simp [bumpNew]; omega
      | none =>
        rw [hold] at hget
        have hnone := hnoStats hold
        have h : (AL.get ⟨c', s.share, s.filter⟩ m).isSome = false := by simp [hnone]
        have hz : (m.filter (fun e => decide (e.1.client = c'))).length = 0 := by
          rw [List.length_eq_zero_iff, List.filter_eq_nil_iff]
          intro e he
          obtain ⟨k, v⟩ := e
          simp only [decide_eq_true_eq]
          intro hk
          have := AL.get_of_mem R.nodupM he
          obtain ⟨kc, kg, kf⟩ := k
          simp only at hk; subst hk
          rw [hnone] at this; simp at this
        simp only [h, Bool.false_eq_true, ite_false, and_false] at hget hcount
        by_cases hi : AL.has c' (st.index (whichOf s.share s.filter)) = true
        · simp [hi] at hget
        · simp only [hi, Bool.false_eq_true, ite_false, Option.some.injEq] at hget
          subst hget
          have : (bumpNew ({} : Stats)).current = 1 := rfl
          rw [this]; omega
    · rw [get_subscribeCStats_ne _ _ _ _ _ hc] at hget
      have hx := R.cstatsCur c' cs' hget
      have hcc : ¬ c = c' := fun e => hc e.symm
      simp only [hcc, false_and, ite_false, Nat.add_zero] at hcount
      simp only [List.filter_cons, hcc, decide_false, Bool.false_eq_true, ite_false]
      omega
  · -- cstatsIdx
    intro w' c' hi
    rw [subscribe_clientStats]
    by_cases hc : c' = c
    · subst hc
      rw [get_subscribeCStats_self]
      cases hold : AL.get c' st.clientStats with
      | some x => simp
      | none =>
        simp only
        by_cases hh : AL.has c' (st.index (whichOf s.share s.filter)) = true
        · have := R.cstatsIdx _ _ hh
          simp [hold] at this
        · simp [hh]
    · rw [get_subscribeCStats_ne _ _ _ _ _ hc]
      apply R.cstatsIdx w' c'
      unfold Store.subscribe at hi
      by_cases hw : w' = whichOf s.share s.filter
      · subst hw
        simpa [AL.get_set, hc] using hi
      · simpa [hw] using hi
  · -- trieOK
    intro w'
    rw [subscribe_trie]
    by_cases hw : w' = whichOf s.share s.filter
    · simp only [hw, ite_true]
      exact trieOK_subscribeTrie (R.trieOK _) c s rfl
    · simp only [hw, ite_false]; exact R.trieOK w'

theorem get_decCStats (cs : List (Str × Stats)) (c c' : Str) (n : Nat) :
    AL.get c' (decCStats cs c n) = if c' = c then (AL.get c cs).map (fun x => decCur x n) else AL.get c' cs := by
  unfold decCStats
  cases hg : AL.get c cs with
  | none =>
    by_cases h : c' = c
    · subst h; simp [hg]
    · simp [h]
  | some x =>
    by_cases h : c' = c
    · subst h; simp [AL.get_set]
    · simp [AL.get_set, h]

theorem Rel.unsubscribeKey {st : Store} {m : SubMap} (R : Rel st m) (c g f : Str) (hv : '/' ∉ g) :
    Rel (st.unsubscribeKey c g f) (AL.del ⟨c, g, f⟩ m) := by
  have hex : (st.keysOf (whichOf g f) c).contains (indexKey g f) = (AL.get ⟨c, g, f⟩ m).isSome := by
    have := R.key_mem_iff c g f hv
    by_cases h : (AL.get ⟨c, g, f⟩ m).isSome = true
    · rw [h]; simpa using this.mpr h
    · have h' : (AL.get ⟨c, g, f⟩ m).isSome = false := by simpa using h
      rw [h']
      simp only [List.contains_eq_mem, decide_eq_false_iff_not]
      exact fun hm => h (this.mp hm)
  constructor
  · -- lookup
    intro c' g' f'
    unfold Store.lookup
    rw [unsubscribeKey_trie, AL.get_del]
    by_cases hw : whichOf g' f' = whichOf g f
    · simp only [hw, ite_true]
      have := R.lookup c' g' f'
      unfold Store.lookup at this
      rw [hw] at this
      rw [trieLookup_unsubscribeTrie _ _ _ _ _ _ _ (whichOf_kind hw), this]
      by_cases hk : c' = c ∧ g' = g ∧ f' = f
      · obtain ⟨h1, h2, h3⟩ := hk; subst h1; subst h2; subst h3; simp
      · have : (⟨c', g', f'⟩ : Key) ≠ ⟨c, g, f⟩ := by
          intro e; injection e with e1 e2 e3; exact hk ⟨e1, e2, e3⟩
        simp [hk, this]
    · simp only [hw, ite_false]
      have hne : (⟨c', g', f'⟩ : Key) ≠ ⟨c, g, f⟩ := by
        intro e; injection e with e1 e2 e3; subst e2; subst e3; exact hw rfl
      simp only [hne, ite_false]
      exact R.lookup c' g' f'
  · exact AL.nodupKeys_del _ R.nodupM
  · intro k s' hk
    rw [AL.get_del] at hk
    by_cases he : k = ⟨c, g, f⟩
    · simp [he] at hk
    · simp only [he, ite_false] at hk
      exact R.validM k s' hk
  · -- idx
    intro w' c' key'
    rw [unsubscribeKey_keysOf]
    by_cases hwc : w' = whichOf g f ∧ c' = c
    · obtain ⟨hw, hc⟩ := hwc
      subst hw; subst hc
      simp only [and_self, ite_true, List.mem_filter, Bool.not_eq_true', decide_eq_false_iff_not]
      rw [R.idx]
      constructor
      · rintro ⟨⟨g1, f1, hs, hw, hk⟩, hne⟩
        refine ⟨g1, f1, ?_, hw, hk⟩
        rw [AL.get_del]
        have : (⟨c', g1, f1⟩ : Key) ≠ ⟨c', g, f⟩ := by
          intro e; injection e with _ e2 e3; subst e2; subst e3; exact hne hk.symm
        simp [this, hs]
      · rintro ⟨g1, f1, hs, hw, hk⟩
        rw [AL.get_del] at hs
        by_cases he : (⟨c', g1, f1⟩ : Key) = ⟨c', g, f⟩
        · simp [he] at hs
        · simp only [he, ite_false] at hs
          refine ⟨⟨g1, f1, hs, hw, hk⟩, ?_⟩
          intro hkk
          obtain ⟨s1, hs1⟩ := Option.isSome_iff_exists.mp hs
          have hv1 := (R.validM _ _ hs1).1
          obtain ⟨h1, h2⟩ := indexKey_inj hw hv1 hv (hk.trans hkk)
          subst h1; subst h2; exact he rfl
    · simp only [hwc, ite_false]
      rw [R.idx]
      constructor
      · rintro ⟨g1, f1, hs, hw, hk⟩
        refine ⟨g1, f1, ?_, hw, hk⟩
        rw [AL.get_del]
        have : (⟨c', g1, f1⟩ : Key) ≠ ⟨c, g, f⟩ := by
          intro e; injection e with e1 e2 e3; subst e1; subst e2; subst e3; exact hwc ⟨hw.symm, rfl⟩
        simp [this, hs]
      · rintro ⟨g1, f1, hs, hw, hk⟩
        rw [AL.get_del] at hs
        by_cases he : (⟨c', g1, f1⟩ : Key) = ⟨c, g, f⟩
        · simp [he] at hs
        · simp only [he, ite_false] at hs
          exact ⟨g1, f1, hs, hw, hk⟩
  · -- idxNodup
    intro w' c'
    rw [unsubscribeKey_keysOf]
    by_cases hwc : w' = whichOf g f ∧ c' = c
    · simp only [hwc, and_self, ite_true]
      exact List.Nodup.sublist List.filter_sublist (R.idxNodup _ _)
    · simp only [hwc, ite_false]; exact R.idxNodup _ _
  · -- statsCur
    rw [unsubscribeKey_stats, hex]
    by_cases h : (AL.get ⟨c, g, f⟩ m).isSome = true
    · have := AL.length_del_of_has R.nodupM h
      simp only [h, ite_true]
      simp only [decCur, R.statsCur]; omega
    · have hn : AL.get (⟨c, g, f⟩ : Key) m = none := by simpa using h
      simp only [h, Bool.false_eq_true, ite_false]
      rw [R.statsCur, AL.del_eq_self hn]
  · -- cstatsCur
    intro c' cs' hget
    rw [unsubscribeKey_clientStats, hex] at hget
    have hcount := length_filter_del (fun k : Key => decide (k.client = c')) ⟨c, g, f⟩ R.nodupM
    simp only [decide_eq_true_eq] at hcount
    by_cases h : (AL.get ⟨c, g, f⟩ m).isSome = true
    · simp only [h, ite_true] at hget
      rw [get_decCStats] at hget
      by_cases hc : c' = c
      · subst hc
        simp only [ite_true, Option.map_eq_some_iff] at hget
        obtain ⟨x, hx, rfl⟩ := hget
        have := R.cstatsCur c' x hx
        simp only [h, and_self, ite_true] at hcount
        simp only [decCur]; omega
      · simp only [hc, ite_false] at hget
        have := R.cstatsCur c' cs' hget
        have hcc : ¬ c = c' := fun e => hc e.symm
        simp only [hcc, false_and, ite_false] at hcount
        omega
    · simp only [h, Bool.false_eq_true, ite_false] at hget
      have := R.cstatsCur c' cs' hget
      simp only [h, Bool.false_eq_true, and_false, ite_false] at hcount
      omega
  · -- cstatsIdx
    intro w' c' hi
    have hold : (AL.get c' (st.index w')).isSome = true := by
      unfold Store.unsubscribeKey at hi
      simp only at hi
      by_cases hw : w' = whichOf g f ∧ AL.has c (st.index (whichOf g f)) = true
      · simp only [hw, and_self, ite_true] at hi
        obtain ⟨hw1, hw2⟩ := hw
        subst hw1
        rw [AL.get_set] at hi
        by_cases hc : c' = c
        · subst hc; exact hw2
        · simpa [hc] using hi
      · simp only [hw, ite_false] at hi
        exact hi
    have := R.cstatsIdx w' c' hold
    rw [unsubscribeKey_clientStats]
    split
    · rw [get_decCStats]
      by_cases hc : c' = c
      · subst hc; simpa using this
      · simpa [hc] using this
    · exact this
  · -- trieOK
    intro w'
    rw [unsubscribeKey_trie]
    split
    · exact trieOK_unsubscribeTrie (R.trieOK _) _ _ _
    · exact R.trieOK w'

theorem Rel.unsubscribe {st : Store} {m : SubMap} (R : Rel st m) (c full : Str) :
    Rel (st.unsubscribe c full) (AL.del ⟨c, (splitTopic full).1, (splitTopic full).2⟩ m) :=
  R.unsubscribeKey c _ _ (splitTopic_share_no_slash full)

/-! ### UnsubscribeAll -/

/-- the abstract effect of `unsubscribeAll(index_w, trie_w, c)`: drop the client's keys that live in trie `w` -/
def dropIn (w : Which) (c : Str) (m : SubMap) : SubMap :=
  m.filter (fun e => !(decide (e.1.client = c) && decide (whichOf e.1.share e.1.filter = w)))

def unsubFold (w : Which) (c : Str) (ks : List Str) (t : TTrie) : TTrie :=
  ks.foldl (fun t key => unsubscribeTrie t c (keyParts w key).2 (keyParts w key).1) t

theorem trieLookup_unsubFold (w : Which) (c : Str) (ks : List Str) (t : TTrie)
    (hks : ∀ key ∈ ks, whichOf (keyParts w key).1 (keyParts w key).2 = w)
    (c' g' f' : Str) (hw : whichOf g' f' = w) :
    trieLookup (unsubFold w c ks t) c' g' f' =
      if c' = c ∧ ks.any (fun key => decide (keyParts w key = (g', f'))) = true then none else trieLookup t c' g' f' := by
  induction ks generalizing t with
  | nil => simp [unsubFold]
  | cons key ks ih =>
    have h1 := hks key List.mem_cons_self
    have ih' := ih (unsubscribeTrie t c (keyParts w key).2 (keyParts w key).1)
      (fun k hk => hks k (List.mem_cons_of_mem _ hk))
    unfold unsubFold at ih' ⊢
    rw [List.foldl_cons, ih']
    have hk : g' = [] ↔ (keyParts w key).1 = [] := whichOf_kind (hw.trans h1.symm)
    rw [trieLookup_unsubscribeTrie _ _ _ _ _ _ _ hk]
    by_cases hc : c' = c
    · subst hc
      by_cases ha : ks.any (fun key => decide (keyParts w key = (g', f'))) = true
      · simp [ha]
      · by_cases hp : keyParts w key = (g', f')
        · simp [hp]
        · have : ¬ (g' = (keyParts w key).1 ∧ f' = (keyParts w key).2) := by
            intro ⟨e1, e2⟩; apply hp; rw [e1, e2]
          simp [ha, hp, this]
    · simp [hc]

theorem trieOK_unsubFold {w : Which} (c : Str) (ks : List Str) {t : TTrie} (h : TrieOK w t) (w0 : Which) :
    TrieOK w (unsubFold w0 c ks t) := by
  induction ks generalizing t with
  | nil => exact h
  | cons key ks ih =>
    unfold unsubFold
    rw [List.foldl_cons]
    exact ih (trieOK_unsubscribeTrie h _ _ _)

theorem unsubscribeAllIn_trie' (st : Store) (w : Which) (c : Str) (w' : Which) :
    (st.unsubscribeAllIn w c).trie w' = if w' = w then unsubFold w c (st.keysOf w c) (st.trie w) else st.trie w' := rfl

theorem get_dropIn (w : Which) (c : Str) (m : SubMap) (k : Key) :
    AL.get k (dropIn w c m) = if k.client = c ∧ whichOf k.share k.filter = w then none else AL.get k m := by
  unfold dropIn
  rw [get_filter_key (fun k : Key => !(decide (k.client = c) && decide (whichOf k.share k.filter = w)))]
  by_cases h : k.client = c ∧ whichOf k.share k.filter = w
  · simp [h]
  · have : (decide (k.client = c) && decide (whichOf k.share k.filter = w)) = false := by
      simpa using h
    simp [this, h]

theorem Rel.unsubscribeAllIn {st : Store} {m : SubMap} (R : Rel st m) (w : Which) (c : Str) :
    Rel (st.unsubscribeAllIn w c) (dropIn w c m) := by
  -- the client's recorded keys in index w, decoded
  have hks : ∀ key ∈ st.keysOf w c, ∃ g f, (AL.get ⟨c, g, f⟩ m).isSome = true ∧ whichOf g f = w ∧ indexKey g f = key ∧
      keyParts w key = (g, f) := by
    intro key hk
    obtain ⟨g, f, hs, hw, hik⟩ := (R.idx w c key).mp hk
    obtain ⟨s, hs'⟩ := Option.isSome_iff_exists.mp hs
    have hv := (R.validM _ _ hs').1
    refine ⟨g, f, hs, hw, hik, ?_⟩
    rw [← hik, ← hw]; exact keyParts_indexKey hv
  -- number of recorded keys = number of bindings dropped
  have hlen : (st.keysOf w c).length =
      (m.filter (fun e => decide (e.1.client = c) && decide (whichOf e.1.share e.1.filter = w))).length := by
    apply length_eq_of_image (fun e : Key × Sub => indexKey e.1.share e.1.filter)
    · exact R.idxNodup w c
    · exact List.Nodup.sublist List.filter_sublist (AL.nodup_of_nodupKeys R.nodupM)
    · intro a ha b hb hab
      obtain ⟨⟨ac, ag, af⟩, av⟩ := a
      obtain ⟨⟨bc, bg, bf⟩, bv⟩ := b
      simp only [List.mem_filter, Bool.and_eq_true, decide_eq_true_eq] at ha hb
      obtain ⟨ham, hac, haw⟩ := ha
      obtain ⟨hbm, hbc, hbw⟩ := hb
      simp only at hac haw hbc hbw hab
      have hga := AL.get_of_mem R.nodupM ham
      have hgb := AL.get_of_mem R.nodupM hbm
      obtain ⟨h1, h2⟩ := indexKey_inj (haw.trans hbw.symm) (R.validM _ _ hga).1 (R.validM _ _ hgb).1 hab
      subst h1; subst h2; subst hac; subst hbc
      rw [hga] at hgb
      injection hgb with hgb
      rw [hgb]
    · intro key
      rw [R.idx]
      constructor
      · rintro ⟨g, f, hs, hw, hk⟩
        obtain ⟨s, hs'⟩ := Option.isSome_iff_exists.mp hs
        refine ⟨(⟨c, g, f⟩, s), ?_, hk⟩
        rw [List.mem_filter]
        exact ⟨AL.mem_of_get hs', by simp [hw]⟩
      · rintro ⟨⟨⟨kc, kg, kf⟩, v⟩, hm, hk⟩
        simp only [List.mem_filter, Bool.and_eq_true, decide_eq_true_eq] at hm
        obtain ⟨hm, hc, hw⟩ := hm
        simp only at hc hw hk
        subst hc
        exact ⟨kg, kf, by simp [AL.get_of_mem R.nodupM hm], hw, hk⟩
  have hsplit := length_filter_add_filter_not
    (fun e : Key × Sub => decide (e.1.client = c) && decide (whichOf e.1.share e.1.filter = w)) m
  constructor
  · -- lookup
    intro c' g' f'
    unfold Store.lookup
    rw [unsubscribeAllIn_trie', get_dropIn]
    have hold := R.lookup c' g' f'
    unfold Store.lookup at hold
    by_cases hw : whichOf g' f' = w
    · subst hw
      simp only [ite_true, and_true]
      rw [trieLookup_unsubFold _ _ _ _ (fun key hk => by
        obtain ⟨g, f, _, hw, _, hp⟩ := hks key hk
        rw [hp]; exact hw) _ _ _ rfl, hold]
      by_cases hc : c' = c
      · subst hc
        simp only [true_and, ite_true]
        split
        · rfl
        · rename_i hany
          -- no recorded key decodes to (g', f'): the binding is not in the map
          cases hget : AL.get (⟨c', g', f'⟩ : Key) m with
          | none => rfl
          | some s =>
            exfalso
            apply hany
            have hv := (R.validM _ _ hget).1
            have hmem : indexKey g' f' ∈ st.keysOf (whichOf g' f') c' :=
              (R.key_mem_iff c' g' f' hv).mpr (by simp [hget])
            rw [List.any_eq_true]
            exact ⟨indexKey g' f', hmem, by simp [keyParts_indexKey hv]⟩
      · simp [hc]
    · simp only [hw, ite_false, and_false]
      exact hold
  · exact nodupKeys_filter _ R.nodupM
  · intro k s hk
    rw [get_dropIn] at hk
    split at hk
    · simp at hk
    · exact R.validM k s hk
  · -- idx
    intro w' c' key
    rw [unsubscribeAllIn_keysOf]
    by_cases hwc : w' = w ∧ c' = c
    · obtain ⟨h1, h2⟩ := hwc
      subst h1; subst h2
      simp only [and_self, ite_true, List.not_mem_nil, false_iff]
      rintro ⟨g, f, hs, hw, _⟩
      rw [get_dropIn] at hs
      simp [hw] at hs
    · simp only [hwc, ite_false]
      rw [R.idx]
      constructor
      · rintro ⟨g, f, hs, hw, hk⟩
        refine ⟨g, f, ?_, hw, hk⟩
        rw [get_dropIn]
        have : ¬ (c' = c ∧ whichOf g f = w) := fun ⟨e1, e2⟩ => hwc ⟨hw.symm.trans e2, e1⟩
        simp [this, hs]
      · rintro ⟨g, f, hs, hw, hk⟩
        rw [get_dropIn] at hs
        split at hs
        · simp at hs
        · exact ⟨g, f, hs, hw, hk⟩
  · intro w' c'
    rw [unsubscribeAllIn_keysOf]
    split
    · exact List.nodup_nil
    · exact R.idxNodup _ _
  · -- statsCur
    show (decCur st.stats (st.keysOf w c).length).current = (dropIn w c m).length
    unfold dropIn
    simp only [decCur, R.statsCur]
    omega
  · -- cstatsCur
    intro c' cs' hget
    have hget' : AL.get c' (decCStats st.clientStats c (st.keysOf w c).length) = some cs' := hget
    rw [get_decCStats] at hget'
    unfold dropIn
    rw [List.filter_filter]
    by_cases hc : c' = c
    · subst hc
      simp only [ite_true, Option.map_eq_some_iff] at hget'
      obtain ⟨x, hx, rfl⟩ := hget'
      have hcur := R.cstatsCur c' x hx
      have hsp := length_filter_add_filter_not
        (fun e : Key × Sub => decide (whichOf e.1.share e.1.filter = w)) (m.filter (fun e => decide (e.1.client = c')))
      rw [List.filter_filter, List.filter_filter] at hsp
      have e1 : (m.filter (fun a => decide (whichOf a.1.share a.1.filter = w) && decide (a.1.client = c'))).length =
          (m.filter (fun e => decide (e.1.client = c') && decide (whichOf e.1.share e.1.filter = w))).length := by
        congr 1; apply List.filter_congr; intro a _; exact Bool.and_comm _ _
      have e2 : (m.filter (fun a => (!decide (whichOf a.1.share a.1.filter = w)) && decide (a.1.client = c'))).length =
          (m.filter (fun a => decide (a.1.client = c') &&
            !(decide (a.1.client = c') && decide (whichOf a.1.share a.1.filter = w)))).length := by
        congr 1; apply List.filter_congr; intro a _
        by_cases h1 : a.1.client = c' <;> by_cases h2 : whichOf a.1.share a.1.filter = w <;> simp [h1, h2]
      simp only [decCur]
      omega
    · simp only [hc, ite_false] at hget'
      have hcur := R.cstatsCur c' cs' hget'
      rw [hcur]
      congr 1; apply List.filter_congr; intro a _
      by_cases h1 : a.1.client = c'
      · simp [h1, hc]
      · simp [h1]
  · -- cstatsIdx
    intro w' c' hi
    have hold : (AL.get c' (st.index w')).isSome = true := by
      unfold Store.unsubscribeAllIn at hi
      simp only at hi
      by_cases hw : w' = w
      · subst hw
        simp only [ite_true, AL.get_del] at hi
        by_cases hc : c' = c
        · simp [hc] at hi
        · simpa [hc] using hi
      · simpa [hw] using hi
    have := R.cstatsIdx w' c' hold
    show (AL.get c' (decCStats st.clientStats c (st.keysOf w c).length)).isSome = true
    rw [get_decCStats]
    by_cases hc : c' = c
    · subst hc; simpa using this
    · simpa [hc] using this
  · intro w'
    rw [unsubscribeAllIn_trie']
    split
    · rename_i h; subst h; exact trieOK_unsubFold c _ (R.trieOK _) _
    · exact R.trieOK w'

theorem dropIn_all (c : Str) (m : SubMap) :
    dropIn .shared c (dropIn .system c (dropIn .user c m)) = m.filter (fun e => !decide (e.1.client = c)) := by
  unfold dropIn
  rw [List.filter_filter, List.filter_filter]
  apply List.filter_congr
  intro a _
  by_cases h1 : a.1.client = c
  · cases hw : whichOf a.1.share a.1.filter <;> simp [h1]
  · simp [h1]

theorem Rel.unsubscribeAll {st : Store} {m : SubMap} (R : Rel st m) (c : Str) :
    Rel (st.unsubscribeAll c) (m.filter (fun e => !decide (e.1.client = c))) := by
  rw [← dropIn_all]
  exact ((R.unsubscribeAllIn .user c).unsubscribeAllIn .system c).unsubscribeAllIn .shared c

/-! ### whole histories -/

theorem Rel.step {st : Store} {m : SubMap} (R : Rel st m) (op : Op) (hv : ValidOp op) :
    Rel (step st op).1 (Spec.step m op).1 ∧ (step st op).2 = (Spec.step m op).2 := by
  cases op with
  | sub c s => exact R.subscribe c s hv
  | unsub c full => exact ⟨R.unsubscribe c full, rfl⟩
  | unsubAll c => exact ⟨R.unsubscribeAll c, rfl⟩

theorem Rel.run {st : Store} {m : SubMap} (R : Rel st m) (ops : List Op) (hv : ∀ op ∈ ops, ValidOp op) :
    Rel (run st ops).1 (Spec.run m ops).1 ∧ (run st ops).2 = (Spec.run m ops).2 := by
  induction ops generalizing st m with
  | nil => exact ⟨R, rfl⟩
  | cons op ops ih =>
    obtain ⟨R1, hb⟩ := R.step op (hv op List.mem_cons_self)
    obtain ⟨R2, hbs⟩ := ih R1 (fun o ho => hv o (List.mem_cons_of_mem _ ho))
    simp only [SubStore.run, Spec.run]
    exact ⟨R2, by rw [hb, hbs]⟩

theorem step_total (st : Store) (op : Op) :
    (step st op).1.stats.total = st.stats.total + Spec.created [op] [(step st op).2] := by
  cases op with
  | sub c s =>
    simp only [step, subscribe_stats]
    cases h : (st.subscribe c s).2 <;> simp [Spec.created, bumpNew]
  | unsub c full =>
    simp only [step, Store.unsubscribe, unsubscribeKey_stats, Spec.created]
    split <;> simp [decCur]
  | unsubAll c =>
    simp [step, Store.unsubscribeAll, Store.unsubscribeAllIn, decCur, Spec.created]

theorem created_cons (op : Op) (b : Bool) (ops : List Op) (bs : List Bool) :
    Spec.created (op :: ops) (b :: bs) = Spec.created [op] [b] + Spec.created ops bs := by
  cases op <;> cases b <;> simp [Spec.created]

theorem run_total (st : Store) (ops : List Op) :
    (run st ops).1.stats.total = st.stats.total + Spec.created ops (run st ops).2 := by
  induction ops generalizing st with
  | nil => simp [SubStore.run, Spec.created]
  | cons op ops ih =>
    simp only [SubStore.run]
    rw [ih, step_total]
    have := created_cons op (step st op).2 ops (run (step st op).1 ops).2
    omega

end GmqttVerif.SubStore
