import GmqttVerif.Model.Topic
/- facts about level splitting, `$`-topics and `SplitTopic` (core Lean only) -/
namespace GmqttVerif.Topic

theorem splitOn_ne_nil (sep : Char) (s : Str) : splitOn sep s ≠ [] := by
  induction s with
  | nil => simp [splitOn]
  | cons c cs ih =>
    unfold splitOn
    by_cases h : c = sep
    · simp [h]
    · simp only [h, ite_false]
      cases hs : splitOn sep cs with
      | nil => simp
      | cons l ls => simp

theorem splitLevels_ne_nil (s : Str) : splitLevels s ≠ [] := splitOn_ne_nil '/' s

theorem splitLevels_nil : splitLevels [] = [[]] := rfl

theorem splitLevels_sep (cs : Str) : splitLevels ('/' :: cs) = [] :: splitLevels cs := by
  simp [splitLevels, splitOn]

theorem splitLevels_cons {c : Char} (hc : c ≠ '/') (cs : Str) :
    ∃ l ls, splitLevels cs = l :: ls ∧ splitLevels (c :: cs) = (c :: l) :: ls := by
  cases hs : splitLevels cs with
  | nil => exact absurd hs (splitLevels_ne_nil cs)
  | cons l ls =>
    refine ⟨l, ls, rfl, ?_⟩
    unfold splitLevels at hs ⊢
    simp [splitOn, hc, hs]

/-- `strings.Join(strings.Split(s, "/"), "/") == s` -/
theorem join_split (s : Str) : joinLevels (splitLevels s) = s := by
  induction s with
  | nil => rfl
  | cons c cs ih =>
    by_cases hc : c = '/'
    · subst hc
      rw [splitLevels_sep]
      cases hs : splitLevels cs with
      | nil => exact absurd hs (splitLevels_ne_nil cs)
      | cons l ls =>
        rw [hs] at ih
        simp [joinLevels, ih]
    · obtain ⟨l, ls, h1, h2⟩ := splitLevels_cons hc cs
      rw [h2]
      rw [h1] at ih
      cases ls with
      | nil => simp [joinLevels] at ih ⊢; exact ih
      | cons l2 ls' => simp [joinLevels] at ih ⊢; exact ih

/-- different strings have different level lists: a trie path determines the filter -/
theorem splitLevels_inj {a b : Str} (h : splitLevels a = splitLevels b) : a = b := by
  rw [← join_split a, ← join_split b, h]

/-- first level -/
def firstLevel (s : Str) : Str := (splitLevels s).headD []

theorem isSystemTopic_firstLevel (s : Str) : isSystemTopic (firstLevel s) = isSystemTopic s := by
  cases s with
  | nil => rfl
  | cons c cs =>
    by_cases hc : c = '/'
    · subst hc
      simp [firstLevel, splitLevels_sep, isSystemTopic]
    · obtain ⟨l, ls, _, h2⟩ := splitLevels_cons hc cs
      simp [firstLevel, h2, isSystemTopic]

theorem isSystemTopic_plus : isSystemTopic plus = false := by decide
theorem isSystemTopic_hash : isSystemTopic hash = false := by decide

theorem splitLevels_eq_cons (s : Str) : ∃ ls, splitLevels s = firstLevel s :: ls := by
  cases hs : splitLevels s with
  | nil => exact absurd hs (splitLevels_ne_nil s)
  | cons l ls => exact ⟨ls, by simp [firstLevel, hs]⟩

/-! ### `Matches` -/

theorem matches_nil_right (fs : List Str) : Matches fs [] = true ↔ fs = [] ∨ fs = [hash] := by
  cases fs with
  | nil => simp [Matches]
  | cons f fs' =>
    by_cases hf : f = hash
    · subst hf; simp [Matches]
    · simp [Matches, hf]

theorem matches_nil_left (ts : List Str) : Matches [] ts = true ↔ ts = [] := by
  cases ts <;> simp [Matches]

theorem matches_cons_cons (f : Str) (fs : List Str) (t : Str) (ts : List Str) :
    Matches (f :: fs) (t :: ts) = if f = hash then fs.isEmpty else ((f = plus || f = t) && Matches fs ts) := by
  simp [Matches]

/-- [MQTT-4.7.2-1] as a consequence of the routing used by the store: a filter that does not start with `$`
    never matches (under `MatchesTopic`) a topic that does -/
theorem matchesTopic_user_dollar {f t : Str} (ht : isSystemTopic t = true) (hf : isSystemTopic f = false) :
    MatchesTopic f t = false := by
  unfold MatchesTopic startsWithWildcard
  obtain ⟨fl, hfl⟩ := splitLevels_eq_cons f
  obtain ⟨tl, htl⟩ := splitLevels_eq_cons t
  rw [hfl, htl, ht]
  by_cases hw : (firstLevel f = plus ∨ firstLevel f = hash)
  · rcases hw with hw | hw <;> simp [hw]
  · have h1 : firstLevel f ≠ plus := fun e => hw (Or.inl e)
    have h2 : firstLevel f ≠ hash := fun e => hw (Or.inr e)
    have h3 : firstLevel f ≠ firstLevel t := by
      intro e
      have := isSystemTopic_firstLevel f
      rw [e, isSystemTopic_firstLevel, ht, hf] at this
      exact Bool.noConfusion this
    simp [matches_cons_cons, h1, h2, h3]

/-- a filter that starts with `$` never matches a topic that does not -/
theorem matchesTopic_sys_plain {f t : Str} (ht : isSystemTopic t = false) (hf : isSystemTopic f = true) :
    MatchesTopic f t = false := by
  unfold MatchesTopic
  obtain ⟨fl, hfl⟩ := splitLevels_eq_cons f
  obtain ⟨tl, htl⟩ := splitLevels_eq_cons t
  rw [hfl, htl]
  have hs : isSystemTopic (firstLevel f) = true := by rw [isSystemTopic_firstLevel, hf]
  have h1 : firstLevel f ≠ plus := fun e => by rw [e, isSystemTopic_plus] at hs; exact Bool.noConfusion hs
  have h2 : firstLevel f ≠ hash := fun e => by rw [e, isSystemTopic_hash] at hs; exact Bool.noConfusion hs
  have h3 : firstLevel f ≠ firstLevel t := by
    intro e
    rw [e, isSystemTopic_firstLevel, ht] at hs
    exact Bool.noConfusion hs
  simp [matches_cons_cons, h1, h2, h3]

/-! ### `cut`, `SplitTopic`, `GetFullTopicName` -/

theorem cut_append {sep : Char} {g : Str} (hg : sep ∉ g) (f : Str) : cut sep (g ++ sep :: f) = (g, some f) := by
  induction g with
  | nil => simp [cut]
  | cons c cs ih =>
    have hc : c ≠ sep := fun e => hg (e ▸ List.mem_cons_self)
    have hcs : sep ∉ cs := fun h => hg (List.mem_cons_of_mem _ h)
    simp [cut, hc, ih hcs]

theorem cut_fst_not_mem (sep : Char) (s : Str) : sep ∉ (cut sep s).1 := by
  induction s with
  | nil => simp [cut]
  | cons c cs ih =>
    unfold cut
    by_cases hc : c = sep
    · simp [hc]
    · simp only [hc, ite_false]
      intro h
      rcases List.mem_cons.mp h with h | h
      · exact hc h.symm
      · exact ih h

theorem cut_some {sep : Char} {s a b : Str} (h : cut sep s = (a, some b)) : s = a ++ sep :: b := by
  induction s generalizing a b with
  | nil => simp [cut] at h
  | cons c cs ih =>
    unfold cut at h
    by_cases hc : c = sep
    · simp only [hc, ite_true, Prod.mk.injEq, Option.some.injEq] at h
      rw [← h.1, ← h.2, hc]; rfl
    · simp only [hc, ite_false] at h
      cases hcut : cut sep cs with
      | mk a' b' =>
        rw [hcut] at h
        simp only [Prod.mk.injEq] at h
        obtain ⟨h1, h2⟩ := h
        subst h1; subst h2
        rw [ih hcut]; rfl

theorem hasPrefix_append (p s : Str) : hasPrefix (p ++ s) p = true := by
  induction p with
  | nil => cases s <;> rfl
  | cons c cs ih => simp [hasPrefix, ih]

/-- the share name returned by `SplitTopic` never contains '/' -/
theorem splitTopic_share_no_slash (topic : Str) : '/' ∉ (splitTopic topic).1 := by
  unfold splitTopic
  by_cases h : hasPrefix topic sharePrefix = true
  · simp only [h, ite_true]
    have := cut_fst_not_mem '/' (topic.drop 7)
    cases hc : cut '/' (List.drop 7 topic) with
    | mk g o =>
      rw [hc] at this
      cases o <;> simp_all
  · simp [h]

/-- `SplitTopic(GetFullTopicName(g, f)) = (g, f)` for a share name without '/' -/
theorem splitTopic_fullName {g : Str} (hg : g ≠ []) (hs : '/' ∉ g) (f : Str) :
    splitTopic (fullName g f) = (g, f) := by
  unfold splitTopic fullName
  simp only [hg, ne_eq, not_false_eq_true, ite_true]
  have h1 : hasPrefix (sharePrefix ++ g ++ '/' :: f) sharePrefix = true := by
    rw [List.append_assoc]; exact hasPrefix_append _ _
  have h2 : List.drop 7 (sharePrefix ++ g ++ '/' :: f) = g ++ '/' :: f := by
    simp [sharePrefix]
  rw [h1, h2, cut_append hs]
  rfl

/-- a name that does not start with `$share/` is a non-shared filter -/
theorem splitTopic_plain {t : Str} (h : hasPrefix t sharePrefix = false) : splitTopic t = ([], t) := by
  simp [splitTopic, h]

end GmqttVerif.Topic
