import GmqttVerif.Model.TopicMatchBytes
/-
  Proofs about the model of the exported byte scanner `packets.TopicMatch` (Model/TopicMatchBytes.lean,
  which mirrors the code of /repo AS IT IS).

  Main results (all for `Str = List Char`, one `Char` per byte):

  * `topicMatch_total`      : for ALL byte strings the scanner returns a bool: no index is ever out of range
                              (no Go panic) and `len(filter)+1` loop iterations suffice.
  * `topicMatch_bytes_spec` : for every valid topic name and valid topic filter the returned bool is the
                              declarative MQTT 4.7 relation `Topic.MatchesTopic` (full statement, no restriction
                              on the number of levels or on lengths).

  Structure of the proof
    1. `loop_eq`  : the index-based loop (`spos`, `tpos`, checked indexing, fuel) equals a structurally recursive
                    scanner `scan prev fs ts` on the SUFFIXES `fs = filter[spos:]`, `ts = topic[tpos:]`
                    (`prev = filter[spos-1]`), for all inputs; `topicMatchBytes_eq_closed` adds the `$` check.
    2. `scan_spec`: for a suffix `fs` whose level list is a valid filter level list and a wildcard-free `ts`,
                    `scan prev fs ts = Matches (splitLevels fs) (splitLevels ts)`. The side conditions describe the
                    states the loop can be in: not both exhausted (the loop has returned `true` before), and the
                    state `fs = "/#"`, `ts = ""` only right after a `+` (otherwise the "foo matches foo/#" early
                    return has fired one byte earlier).
  Not covered: behaviour on INVALID topic names / filters is only characterised by `topicMatchBytes_eq_closed`
  (equal to `closed`, i.e. whatever the scanner does) — MQTT 4.7 assigns no meaning there; the differential
  stream compares model and real code on those inputs too.
-/
namespace GmqttVerif.TopicMatchBytes
open GmqttVerif GmqttVerif.Topic

theorem beq_dec (x a : Char) : (x == a) = decide (x = a) := rfl

theorem cond1 (l : Str) (n : Nat) (a : Char) :
    cand (some (n + 1 == l.length)) (eqAt l n a) = some (decide (l.drop n = [a])) := by
  induction l generalizing n with
  | nil => simp [cand]
  | cons x xs ih =>
    cases n with
    | zero =>
      cases xs <;> simp [cand, eqAt, beq_dec]
    | succ m =>
      have := ih m
      simpa [eqAt] using this

theorem cond2 (l : Str) (n : Nat) (a b : Char) :
    cand (some (n + 2 == l.length)) (cand (eqAt l n a) (eqAt l (n + 1) b)) = some (decide (l.drop n = [a, b])) := by
  induction l generalizing n with
  | nil => simp [cand]
  | cons x xs ih =>
    cases n with
    | zero =>
      match xs with
      | [] => simp [cand]
      | [y] => by_cases h1 : x = a <;> simp [cand, eqAt, beq_dec, h1]
      | y :: z :: r => simp [cand]
    | succ m =>
      have := ih m
      simpa [eqAt] using this


/-! ### the scanner on suffixes

`scan prev fs ts` is the loop started at a position where `fs = filter[spos:]`, `ts = topic[tpos:]`
and `prev = filter[spos-1]` (if `spos > 0`). -/
def scan : Option Char → Str → Str → Bool
  | _, [], _ => false
  | prev, fc :: fs, ts =>
    if ts.head? = some fc then
      if ts.tail = [] ∧ fs = ['/', '#'] then true
      else if fs = [] ∧ ts.tail = [] then true
      else if ts.tail = [] ∧ fs = ['+'] then fc == '/'
      else scan (some fc) fs ts.tail
    else if fc = '+' then
      if ts.dropWhile (· != '/') = [] ∧ fs = [] then true
      else scan (some '+') fs (ts.dropWhile (· != '/'))
    else if fc = '#' then true
    else decide (prev = some '+' ∧ fs = ['#'] ∧ ts = [] ∧ fc = '/')

def prevAt (f : Str) (spos : Nat) : Option Char := if spos = 0 then none else f[spos - 1]?

theorem skip_eq (t : Str) : ∀ fuel tpos, tpos ≤ t.length → t.length - tpos < fuel →
    ∃ n, skip t fuel tpos = .pos n ∧ n ≤ t.length ∧ t.drop n = (t.drop tpos).dropWhile (· != '/') := by
  intro fuel
  induction fuel with
  | zero => intro tpos _ h; omega
  | succ fuel ih =>
    intro tpos hle hf
    unfold skip
    by_cases h : tpos < t.length
    · have hd := List.drop_eq_getElem_cons h
      have he : t[tpos]? = some t[tpos] := List.getElem?_eq_getElem h
      by_cases hc : t[tpos] = '/'
      · have hb : (t[tpos] != '/') = false := by simp [hc]
        refine ⟨tpos, ?_, hle, ?_⟩
        · simp [cand, neAt, h, hc]
        · rw [hd, List.dropWhile_cons, hb]; simp
      · have hb : (t[tpos] != '/') = true := by simp [hc]
        obtain ⟨n, h1, h2, h3⟩ := ih (tpos + 1) h (by omega)
        refine ⟨n, ?_, h2, ?_⟩
        · simp [cand, neAt, h, hb, h1]
        · rw [hd, List.dropWhile_cons, if_pos hb]; exact h3
    · have : tpos = t.length := by omega
      subst this
      refine ⟨t.length, ?_, Nat.le_refl _, ?_⟩
      · simp [cand]
      · simp


theorem cand_some (a b : Bool) : cand (some a) (some b) = some (a && b) := by
  cases a <;> rfl

theorem cond1' (l : Str) (n : Nat) (a : Char) :
    cand (some (n + 2 == l.length)) (eqAt l (n + 1) a) = some (decide (l.drop (n + 1) = [a])) := by
  have := cond1 l (n + 1) a
  simpa [Nat.add_assoc] using this

theorem cond2' (l : Str) (n : Nat) (a b : Char) :
    cand (some (n + 3 == l.length)) (cand (eqAt l (n + 1) a) (eqAt l (n + 2) b))
      = some (decide (l.drop (n + 1) = [a, b])) := by
  have := cond2 l (n + 1) a b
  simpa [Nat.add_assoc] using this

theorem cond5 (f t : Str) (spos tpos : Nat) (h1 : spos < f.length) (ht : tpos ≤ t.length) :
    cand (some (decide (spos > 0))) (cand (some (spos + 2 == f.length)) (cand (some (tpos == t.length))
        (cand (eqAt f (spos - 1) '+') (cand (eqAt f spos '/') (eqAt f (spos + 1) '#')))))
      = some (decide (prevAt f spos = some '+' ∧ f.drop (spos + 1) = ['#'] ∧ t.drop tpos = [] ∧ f[spos] = '/')) := by
  have e := cond1' f spos '#'
  have hfe : f[spos]? = some f[spos] := List.getElem?_eq_getElem h1
  have e3 : (t.drop tpos = []) ↔ tpos = t.length := by rw [List.drop_eq_nil_iff]; omega
  cases spos with
  | zero => simp [cand, prevAt]
  | succ k =>
    have hk : f[k]? = some f[k] := List.getElem?_eq_getElem (by omega)
    have hp : prevAt f (k + 1) = some f[k] := by simp [prevAt, hk]
    rw [hp]
    by_cases hB : k + 1 + 2 = f.length
    · have hBt : (k + 1 + 2 == f.length) = true := by simp [hB]
      have e' : eqAt f (k + 1 + 1) '#' = some (decide (f.drop (k + 1 + 1) = ['#'])) := by
        rw [hBt] at e; exact e
      rw [e']
      simp only [eqAt, hfe, Option.map_some, cand_some, e3]
      simp [hB, beq_dec, hk, cand_some]
      have hn : (tpos == t.length) = decide (tpos = t.length) := by
        by_cases h : tpos = t.length <;> simp [h]
      rw [hn]
      generalize decide (tpos = t.length) = a
      generalize decide (f[k] = '+') = b
      generalize decide (f[k + 1] = '/') = c
      generalize decide (List.drop (k + 1 + 1) f = ['#']) = d
      cases a <;> cases b <;> cases c <;> cases d <;> rfl
    · have hB' : (k + 1 + 2 == f.length) = false := by simp [hB]
      have e' : decide (f.drop (k + 1 + 1) = ['#']) = false := by
        rw [hB'] at e; exact (Option.some.inj e).symm
      have e'' : ¬ (f.drop (k + 1 + 1) = ['#']) := of_decide_eq_false e'
      simp [cand, hB', e'']

theorem drop_succ_nil_iff {l : Str} {n : Nat} (h : n < l.length) : l.drop (n + 1) = [] ↔ n + 1 = l.length := by
  rw [List.drop_eq_nil_iff]; omega

theorem loop_eq (t f : Str) : ∀ fuel spos tpos, spos ≤ f.length → tpos ≤ t.length → f.length - spos < fuel →
    loop t f fuel spos tpos = .ret (scan (prevAt f spos) (f.drop spos) (t.drop tpos)) := by
  intro fuel
  induction fuel with
  | zero => intro spos tpos _ _ h; omega
  | succ fuel ih =>
    intro spos tpos hs ht hf
    unfold loop
    by_cases h1 : spos < f.length
    · have hfd := List.drop_eq_getElem_cons h1
      have hfe : f[spos]? = some f[spos] := List.getElem?_eq_getElem h1
      rw [hfd]
      by_cases hm : t[tpos]? = some f[spos]
      · have h2 : tpos < t.length := by
          by_cases h : tpos < t.length
          · exact h
          · rw [List.getElem?_eq_none (by omega)] at hm; cases hm
        have heq : f[spos] = t[tpos] := by
          rw [List.getElem?_eq_getElem h2] at hm; exact (Option.some.inj hm).symm
        have htd := List.drop_eq_getElem_cons h2
        have hte : t[tpos]? = some t[tpos] := List.getElem?_eq_getElem h2
        rw [htd]
        have hne : (tpos != t.length) = true := by simp; omega
        · have c0 : cand (some (tpos != t.length)) (eqIdx f spos t tpos) = some true := by
            simp [cand, eqIdx, hfe, hte, heq, hne]
          simp only [c0]
          have c1 : cand (some (tpos + 1 == t.length))
                (cand (some (spos + 3 == f.length)) (cand (eqAt f (spos + 1) '/') (eqAt f (spos + 2) '#')))
              = some (decide (t.drop (tpos + 1) = [] ∧ f.drop (spos + 1) = ['/', '#'])) := by
            rw [cond2', cand_some]
            by_cases hx : tpos + 1 = t.length <;> simp [hx, drop_succ_nil_iff h2]
          have c2 : cand (some (tpos + 1 == t.length)) (cand (some (spos + 1 + 1 == f.length)) (eqAt f (spos + 1) '+'))
              = some (decide (t.drop (tpos + 1) = [] ∧ f.drop (spos + 1) = ['+'])) := by
            rw [cond1', cand_some]
            by_cases hx : tpos + 1 = t.length <;> simp [hx, drop_succ_nil_iff h2]
          have c3 : cand (some (decide (spos + 1 > 0))) (neAt f (spos + 1 - 1) '/') = some (f[spos] != '/') := by
            simp [cand, neAt, hfe]
          have c4 : (spos + 1 = f.length ∧ tpos + 1 = t.length) ↔ (f.drop (spos + 1) = [] ∧ t.drop (tpos + 1) = []) := by
            rw [drop_succ_nil_iff h1, drop_succ_nil_iff h2]
          have hprev : prevAt f (spos + 1) = some t[tpos] := by simp [prevAt, hfe, heq]
          have hrec := ih (spos + 1) (tpos + 1) h1 h2 (by omega)
          rw [hprev] at hrec
          simp only [c1, c2, c3, c4, scan, List.head?_cons, List.tail_cons, heq, hrec]
          rw [if_pos (And.intro h1 ht), if_pos trivial]
          by_cases p1 : List.drop (tpos + 1) t = [] ∧ List.drop (spos + 1) f = ['/', '#']
          · rw [decide_eq_true p1, if_pos p1]
          · rw [decide_eq_false p1, if_neg p1]
            by_cases p2 : List.drop (spos + 1) f = [] ∧ List.drop (tpos + 1) t = []
            · simp only [if_pos p2]
            · simp only [if_neg p2]
              by_cases p3 : List.drop (tpos + 1) t = [] ∧ List.drop (spos + 1) f = ['+']
              · simp only [decide_eq_true p3, if_pos p3]
                by_cases p4 : t[tpos] = '/'
                · simp [p4]
                · have hb : (t[tpos] != '/') = true := by simp [p4]
                  have hb' : (t[tpos] == '/') = false := by simp [p4]
                  simp only [hb, hb']
              · simp only [decide_eq_false p3, if_neg p3]
      · have c0 : cand (some (tpos != t.length)) (eqIdx f spos t tpos) = some false := by
          by_cases h2 : tpos < t.length
          · have hte : t[tpos]? = some t[tpos] := List.getElem?_eq_getElem h2
            have hne : (tpos != t.length) = true := by simp; omega
            have : (f[spos] == t[tpos]) = false := by
              rw [hte] at hm
              simp
              intro h; exact hm (by rw [h])
            simp [cand, eqIdx, hfe, hte, hne, this]
          · have : tpos = t.length := by omega
            simp [cand, this]
        have hh : ¬ ((t.drop tpos).head? = some f[spos]) := by rw [List.head?_drop]; exact hm
        rw [if_pos (And.intro h1 ht)]
        simp only [c0, scan, if_neg hh]
        have ep : eqAt f spos '+' = some (decide (f[spos] = '+')) := by simp [eqAt, hfe, beq_dec]
        have eh : eqAt f spos '#' = some (decide (f[spos] = '#')) := by simp [eqAt, hfe, beq_dec]
        rw [ep, eh, cond5 f t spos tpos h1 ht]
        by_cases q1 : f[spos] = '+'
        · simp only [decide_eq_true q1, if_pos q1]
          obtain ⟨n, s1, s2, s3⟩ := skip_eq t (t.length + 1) tpos ht (by omega)
          have hprev : prevAt f (spos + 1) = some '+' := by simp [prevAt, hfe, q1]
          have hrec := ih (spos + 1) n h1 s2 (by omega)
          rw [hprev, s3] at hrec
          have c6 : (n = t.length ∧ spos + 1 = f.length) ↔
              (List.dropWhile (fun x => x != '/') (List.drop tpos t) = [] ∧ List.drop (spos + 1) f = []) := by
            rw [← s3, drop_succ_nil_iff h1, List.drop_eq_nil_iff]; omega
          simp only [s1, c6, hrec]
          split <;> rfl
        · simp only [decide_eq_false q1, if_neg q1]
          by_cases q2 : f[spos] = '#'
          · simp only [decide_eq_true q2, if_pos q2]
          · simp only [decide_eq_false q2, if_neg q2]
            split <;> simp_all
    · have : spos = f.length := by omega
      subst this
      simp [scan]


/-- the whole function in closed form: the `$` first-byte check, then the suffix scanner -/
def closed : Str → Str → Bool
  | tc :: ts, fc :: fs =>
    if (fc = '$' ∧ tc ≠ '$') ∨ (tc = '$' ∧ fc ≠ '$') then false else scan none (fc :: fs) (tc :: ts)
  | _, _ => false

theorem headCond (tc fc : Char) (ts fs : Str) :
    cor (cand (eqAt (fc :: fs) 0 '$') (neAt (tc :: ts) 0 '$')) (cand (eqAt (tc :: ts) 0 '$') (neAt (fc :: fs) 0 '$'))
      = some (decide ((fc = '$' ∧ tc ≠ '$') ∨ (tc = '$' ∧ fc ≠ '$'))) := by
  by_cases a : fc = '$' <;> by_cases b : tc = '$' <;> simp [a, b, cor, cand, eqAt, neAt, bne, beq_dec]

theorem topicMatchBytes_eq_closed (t f : Str) : topicMatchBytes t f = .ret (closed t f) := by
  unfold topicMatchBytes
  match t, f with
  | [], _ => simp [closed]
  | _ :: _, [] => simp [closed]
  | tc :: ts, fc :: fs =>
    have hl := loop_eq (tc :: ts) (fc :: fs) ((fc :: fs).length + 1) 0 0 (Nat.zero_le _) (Nat.zero_le _) (by omega)
    have hp : prevAt (fc :: fs) 0 = none := rfl
    rw [hl, headCond, hp]
    by_cases h : (fc = '$' ∧ tc ≠ '$') ∨ (tc = '$' ∧ fc ≠ '$')
    · simp [closed, if_pos h, decide_eq_true h]
    · simp [closed, if_neg h, decide_eq_false h]

/-- **Totality / memory safety of the scanner, for ALL byte strings**: `TopicMatch` never indexes out of range
    (no Go panic) and the loop terminates within `len(topicFilter) + 1` iterations. -/
theorem topicMatch_total : ∀ t f : Str, ∃ b, topicMatchBytes t f = .ret b :=
  fun t f => ⟨closed t f, topicMatchBytes_eq_closed t f⟩


/-! ### the suffix scanner against the declarative MQTT 4.7 relation -/

theorem split_nil : splitLevels [] = [[]] := rfl

theorem split_slash (cs : Str) : splitLevels ('/' :: cs) = [] :: splitLevels cs := by
  simp [splitLevels, splitOn]

theorem split_ne_nil (s : Str) : splitLevels s ≠ [] := by
  unfold splitLevels
  induction s with
  | nil => simp [splitOn]
  | cons c cs ih =>
    unfold splitOn
    split
    · simp
    · split <;> simp

theorem split_cons {c : Char} (h : c ≠ '/') (cs : Str) :
    ∃ l ls, splitLevels cs = l :: ls ∧ splitLevels (c :: cs) = (c :: l) :: ls := by
  have hne := split_ne_nil cs
  match hs : splitLevels cs with
  | [] => exact absurd hs hne
  | l :: ls =>
    refine ⟨l, ls, rfl, ?_⟩
    unfold splitLevels at hs ⊢
    simp [splitOn, h, hs]

theorem split_eq_singleton_nil {s : Str} (h : splitLevels s = [[]]) : s = [] := by
  match s with
  | [] => rfl
  | c :: cs =>
    by_cases hc : c = '/'
    · subst hc; rw [split_slash] at h
      have := split_ne_nil cs
      simp at h; exact absurd h this
    · obtain ⟨l, ls, _, h2⟩ := split_cons hc cs
      rw [h2] at h; simp at h

theorem split_eq_hash {s : Str} (h : splitLevels s = [Topic.hash]) : s = ['#'] := by
  match s with
  | [] => simp [split_nil, Topic.hash] at h
  | c :: cs =>
    by_cases hc : c = '/'
    · subst hc; rw [split_slash] at h; simp [Topic.hash] at h
    · obtain ⟨l, ls, h1, h2⟩ := split_cons hc cs
      rw [h2] at h
      simp [Topic.hash] at h
      obtain ⟨⟨rfl, rfl⟩, rfl⟩ := h
      rw [split_eq_singleton_nil h1]


/-- no wildcard character -/
def NW (l : Str) : Prop := ∀ c ∈ l, c ≠ '+' ∧ c ≠ '#'

theorem nwB_iff (l : Str) : (!l.contains '+' && !l.contains '#') = true ↔ NW l := by
  simp only [NW, Bool.and_eq_true, Bool.not_eq_true', List.contains_eq_mem, decide_eq_false_iff_not]
  constructor
  · intro ⟨h1, h2⟩ c hc
    exact ⟨fun e => h1 (e ▸ hc), fun e => h2 (e ▸ hc)⟩
  · intro h
    exact ⟨fun hc => (h _ hc).1 rfl, fun hc => (h _ hc).2 rfl⟩

theorem nwB_iff' (l : Str) : ((!l.contains '+') = true ∧ (!l.contains '#') = true) ↔ NW l := by
  rw [← nwB_iff, Bool.and_eq_true]

theorem NW_nil : NW [] := by intro c hc; cases hc

theorem NW_cons {c : Char} {l : Str} : NW (c :: l) ↔ (c ≠ '+' ∧ c ≠ '#') ∧ NW l := by
  simp [NW]

theorem NW_ne_hash {l : Str} (h : NW l) : l ≠ Topic.hash := by
  intro e; subst e; exact (h '#' (by simp [Topic.hash])).2 rfl

theorem NW_ne_plus {l : Str} (h : NW l) : l ≠ Topic.plus := by
  intro e; subst e; exact (h '+' (by simp [Topic.plus])).1 rfl

theorem valid_cases {l : Str} {ls : List Str} (h : validFilterLevels (l :: ls) = true) :
    ((l = Topic.hash ∧ ls = []) ∨ l = Topic.plus ∨ NW l) ∧ (ls = [] ∨ validFilterLevels ls = true) := by
  cases ls with
  | nil =>
    simp only [validFilterLevels, Bool.or_eq_true, decide_eq_true_eq, nwB_iff] at h
    refine ⟨?_, Or.inl rfl⟩
    rcases h with (h | h) | h
    · exact Or.inl ⟨h, rfl⟩
    · exact Or.inr (Or.inl h)
    · exact Or.inr (Or.inr h)
  | cons l' ls' =>
    simp only [validFilterLevels, Bool.and_eq_true, Bool.or_eq_true, decide_eq_true_eq, nwB_iff'] at h
    refine ⟨?_, Or.inr h.2⟩
    rcases h.1 with h | h
    · exact Or.inr (Or.inl h)
    · exact Or.inr (Or.inr h)

theorem valid_mk {l : Str} {ls : List Str} (h1 : NW l ∨ l = Topic.plus)
    (h2 : ls = [] ∨ validFilterLevels ls = true) : validFilterLevels (l :: ls) = true := by
  cases ls with
  | nil =>
    simp only [validFilterLevels, Bool.or_eq_true, decide_eq_true_eq, nwB_iff]
    rcases h1 with h | h
    · exact Or.inr h
    · exact Or.inl (Or.inr h)
  | cons l' ls' =>
    simp only [validFilterLevels, Bool.and_eq_true, Bool.or_eq_true, decide_eq_true_eq, nwB_iff']
    refine ⟨?_, ?_⟩
    · rcases h1 with h | h
      · exact Or.inr h
      · exact Or.inl h
    · rcases h2 with h | h
      · cases h
      · exact h


theorem matches_cons_cons (f t : Str) (F T : List Str) :
    Matches (f :: F) (t :: T) = if f = Topic.hash then F.isEmpty else ((f = Topic.plus || f = t) && Matches F T) := by
  simp [Matches]

theorem matches_cons_nil (f : Str) (F : List Str) :
    Matches (f :: F) [] = if f = Topic.hash then F.isEmpty else false := by
  simp [Matches]

theorem lit_ne_hash {c : Char} (h : c ≠ '#') (l : Str) : c :: l ≠ Topic.hash := by
  intro e; simp [Topic.hash] at e; exact h e.1

theorem lit_ne_plus {c : Char} (h : c ≠ '+') (l : Str) : c :: l ≠ Topic.plus := by
  intro e; simp [Topic.plus] at e; exact h e.1

/-- consuming one equal literal byte on both sides keeps the filter suffix valid and the relation unchanged -/
theorem step_lit {c : Char} (h1 : c ≠ '+') (h2 : c ≠ '#') {fs : Str} (ts : Str)
    (hv : validFilterLevels (splitLevels (c :: fs)) = true) :
    validFilterLevels (splitLevels fs) = true ∧
    Matches (splitLevels (c :: fs)) (splitLevels (c :: ts)) = Matches (splitLevels fs) (splitLevels ts) := by
  by_cases hc : c = '/'
  · subst hc
    rw [split_slash] at hv ⊢
    rw [split_slash]
    refine ⟨?_, ?_⟩
    · rcases (valid_cases hv).2 with h | h
      · exact absurd h (split_ne_nil fs)
      · exact h
    · rw [matches_cons_cons]; simp [Topic.hash, Topic.plus]
  · obtain ⟨l, ls, e1, e2⟩ := split_cons hc fs
    obtain ⟨m, ms, e3, e4⟩ := split_cons hc ts
    rw [e2] at hv
    rw [e1, e2, e3, e4]
    have hnw : NW l := by
      rcases (valid_cases hv).1 with ⟨h, _⟩ | h | h
      · exact absurd h (lit_ne_hash h2 l)
      · exact absurd h (lit_ne_plus h1 l)
      · exact (NW_cons.1 h).2
    refine ⟨valid_mk (Or.inl hnw) (valid_cases hv).2, ?_⟩
    rw [matches_cons_cons, matches_cons_cons, if_neg (lit_ne_hash h2 l), if_neg (NW_ne_hash hnw)]
    simp [lit_ne_plus h1 l, NW_ne_plus hnw]


theorem plus_valid {fs : Str} (hv : validFilterLevels (splitLevels ('+' :: fs)) = true) :
    (fs = [] ∧ splitLevels ('+' :: fs) = [Topic.plus]) ∨
    (∃ fs2, fs = '/' :: fs2 ∧ splitLevels ('+' :: fs) = Topic.plus :: splitLevels fs2 ∧
        validFilterLevels ([] :: splitLevels fs2) = true) := by
  have hc : ('+' : Char) ≠ '/' := by decide
  obtain ⟨l, ls, e1, e2⟩ := split_cons hc fs
  rw [e2] at hv
  have hl : l = [] := by
    rcases (valid_cases hv).1 with ⟨h, _⟩ | h | h
    · simp [Topic.hash] at h
    · simpa [Topic.plus] using h
    · exact absurd rfl (NW_cons.1 h).1.1
  subst hl
  match fs with
  | [] => exact Or.inl ⟨rfl, rfl⟩
  | c :: cs =>
    by_cases hs : c = '/'
    · subst hs
      rw [split_slash] at e1
      simp at e1
      subst e1
      refine Or.inr ⟨cs, rfl, ?_, ?_⟩
      · rw [e2]; rfl
      · exact valid_mk (Or.inl NW_nil) (valid_cases hv).2
    · obtain ⟨l', ls', _, e4⟩ := split_cons hs cs
      rw [e4] at e1; simp at e1

theorem hash_valid {fs : Str} (hv : validFilterLevels (splitLevels ('#' :: fs)) = true) : fs = [] := by
  have hc : ('#' : Char) ≠ '/' := by decide
  obtain ⟨l, ls, e1, e2⟩ := split_cons hc fs
  rw [e2] at hv
  rcases (valid_cases hv).1 with ⟨h, h'⟩ | h | h
  · simp [Topic.hash] at h
    subst h; subst h'
    exact split_eq_singleton_nil e1
  · simp [Topic.plus] at h
  · exact absurd rfl (NW_cons.1 h).1.2

theorem dropWhile_split (ts : Str) :
    ∃ l, (ts.dropWhile (· != '/') = [] ∧ splitLevels ts = [l]) ∨
         (∃ ts2, ts.dropWhile (· != '/') = '/' :: ts2 ∧ splitLevels ts = l :: splitLevels ts2) := by
  induction ts with
  | nil => exact ⟨[], Or.inl ⟨rfl, rfl⟩⟩
  | cons c cs ih =>
    by_cases hc : c = '/'
    · subst hc
      exact ⟨[], Or.inr ⟨cs, by simp, split_slash cs⟩⟩
    · have hb : (c != '/') = true := by simp [hc]
      obtain ⟨l0, ls0, e1, e2⟩ := split_cons hc cs
      obtain ⟨l, h | ⟨ts2, h1, h2⟩⟩ := ih
      · refine ⟨c :: l0, Or.inl ⟨?_, ?_⟩⟩
        · rw [List.dropWhile_cons, if_pos hb]; exact h.1
        · rw [e2]; rw [e1] at h; simp at h; rw [h.2.2]
      · refine ⟨c :: l0, Or.inr ⟨ts2, ?_, ?_⟩⟩
        · rw [List.dropWhile_cons, if_pos hb]; exact h1
        · rw [e2]; rw [e1] at h2; simp at h2; rw [h2.2]

theorem matches_head_ne {fc tc : Char} (h1 : fc ≠ '+') (h2 : fc ≠ '#') (hne : tc ≠ fc) (fs ts : Str) :
    Matches (splitLevels (fc :: fs)) (splitLevels (tc :: ts)) = false := by
  by_cases hf : fc = '/'
  · subst hf
    obtain ⟨m, ms, _, e4⟩ := split_cons hne ts
    rw [split_slash, e4, matches_cons_cons]
    simp [Topic.hash, Topic.plus]
  · obtain ⟨l, ls, _, e2⟩ := split_cons hf fs
    rw [e2]
    by_cases ht : tc = '/'
    · subst ht
      rw [split_slash, matches_cons_cons, if_neg (lit_ne_hash h2 l)]
      simp [lit_ne_plus h1 l]
    · obtain ⟨m, ms, _, e4⟩ := split_cons ht ts
      rw [e4, matches_cons_cons, if_neg (lit_ne_hash h2 l)]
      simp [lit_ne_plus h1 l, Ne.symm hne]

theorem lit_plus_end {c : Char}
    (hv : validFilterLevels (splitLevels [c, '+']) = true) : c = '/' := by
  by_cases hc : c = '/'
  · exact hc
  · obtain ⟨l, ls, e1, e2⟩ := split_cons hc ['+']
    have : splitLevels ['+'] = [['+']] := by decide
    rw [this] at e1
    simp at e1
    obtain ⟨rfl, rfl⟩ := e1
    rw [e2] at hv
    rcases (valid_cases hv).1 with ⟨h, _⟩ | h | h
    · simp [Topic.hash] at h
    · simp [Topic.plus] at h
    · exact absurd rfl (NW_cons.1 (NW_cons.1 h).2).1.1


theorem matches_nil_left {T : List Str} (h : T ≠ []) : Matches [] T = false := by
  cases T with
  | nil => exact absurd rfl h
  | cons _ _ => rfl

theorem matches_hash (T : List Str) : Matches [Topic.hash] T = true := by
  cases T <;> simp [Matches]

theorem matches_nil_right {L : List Str} (hL : L ≠ []) (h : Matches L [] = true) : L = [Topic.hash] := by
  match L, hL with
  | [], hL => exact absurd rfl hL
  | f :: F, _ =>
    rw [matches_cons_nil] at h
    by_cases hf : f = Topic.hash
    · rw [if_pos hf] at h; simp at h; rw [hf, h]
    · rw [if_neg hf] at h; cases h

theorem scan_match (prev : Option Char) (fc : Char) (fs ts' : Str) :
    scan prev (fc :: fs) (fc :: ts') =
      if ts' = [] ∧ fs = ['/', '#'] then true
      else if fs = [] ∧ ts' = [] then true
      else if ts' = [] ∧ fs = ['+'] then fc == '/'
      else scan (some fc) fs ts' := by
  have h : (fc :: ts').head? = some fc := rfl
  rw [scan, if_pos h]; rfl

theorem scan_else (prev : Option Char) (fc : Char) (fs ts : Str) (hm : ¬ ts.head? = some fc) :
    scan prev (fc :: fs) ts =
      if fc = '+' then
        if ts.dropWhile (· != '/') = [] ∧ fs = [] then true
        else scan (some '+') fs (ts.dropWhile (· != '/'))
      else if fc = '#' then true
      else decide (prev = some '+' ∧ fs = ['#'] ∧ ts = [] ∧ fc = '/') := by
  rw [scan, if_neg hm]

/-- the suffix scanner decides the MQTT 4.7 relation between the remaining filter levels and the remaining
    topic levels, for every suffix of a valid filter and wildcard-free topic suffix reachable by the loop -/
theorem scan_spec : ∀ (fs : Str) (prev : Option Char) (ts : Str),
    validFilterLevels (splitLevels fs) = true → NW ts → ¬(fs = [] ∧ ts = []) →
    (ts = [] → fs = ['/', '#'] → prev = some '+') →
    scan prev fs ts = Matches (splitLevels fs) (splitLevels ts) := by
  intro fs
  induction fs with
  | nil =>
    intro prev ts _ _ hne _
    simp only [scan]
    match ts with
    | [] => exact absurd ⟨rfl, rfl⟩ hne
    | c :: cs =>
      rw [split_nil]
      by_cases hc : c = '/'
      · subst hc
        rw [split_slash, matches_cons_cons, matches_nil_left (split_ne_nil cs)]
        simp [Topic.hash]
      · obtain ⟨m, ms, _, e⟩ := split_cons hc cs
        rw [e, matches_cons_cons]
        simp [Topic.hash, Topic.plus]
  | cons fc fs ih =>
    intro prev ts hv hnw hne hprev
    by_cases hm : ts.head? = some fc
    · obtain ⟨ts', rfl⟩ : ∃ ts', ts = fc :: ts' := by
        cases ts with
        | nil => simp at hm
        | cons a b => simp at hm; exact ⟨b, by rw [hm]⟩
      have hlit := (NW_cons.1 hnw).1
      have hnw' := (NW_cons.1 hnw).2
      obtain ⟨hv', hstep⟩ := step_lit hlit.1 hlit.2 ts' hv
      rw [hstep, scan_match]
      by_cases p1 : ts' = [] ∧ fs = ['/', '#']
      · rw [if_pos p1]; obtain ⟨rfl, rfl⟩ := p1; decide
      · rw [if_neg p1]
        by_cases p2 : fs = [] ∧ ts' = []
        · rw [if_pos p2]; obtain ⟨rfl, rfl⟩ := p2; decide
        · rw [if_neg p2]
          by_cases p3 : ts' = [] ∧ fs = ['+']
          · rw [if_pos p3]; obtain ⟨rfl, rfl⟩ := p3
            have := lit_plus_end hv; subst this; decide
          · rw [if_neg p3]
            exact ih (some fc) ts' hv' hnw' p2 (fun h1 h2 => absurd ⟨h1, h2⟩ p1)
    · rw [scan_else _ _ _ _ hm]
      by_cases q1 : fc = '+'
      · subst q1
        rw [if_pos rfl]
        obtain ⟨l, hd⟩ := dropWhile_split ts
        have hnw' : NW (ts.dropWhile (· != '/')) :=
          fun c hc => hnw c ((List.dropWhile_sublist _).subset hc)
        rcases plus_valid hv with ⟨rfl, e⟩ | ⟨fs2, rfl, e, hv2⟩
        · rw [e]
          rcases hd with ⟨d1, d2⟩ | ⟨ts2, d1, d2⟩
          · rw [d1, d2]; simp [Topic.plus, Topic.hash, Matches]
          · have hv0 : validFilterLevels (splitLevels []) = true := by decide
            have := ih (some '+') (ts.dropWhile (· != '/')) hv0 hnw' (by rw [d1]; simp) (by intro _ h; cases h)
            rw [this, d1, d2, if_neg (by simp), split_nil, split_slash, matches_cons_cons, matches_cons_cons]
            simp [Topic.plus, Topic.hash]
        · rw [e]
          have := ih (some '+') (ts.dropWhile (· != '/')) (by rw [split_slash]; exact hv2) hnw' (by simp)
            (fun _ _ => rfl)
          rw [this, if_neg (by simp), split_slash]
          rcases hd with ⟨d1, d2⟩ | ⟨ts2, d1, d2⟩
          · rw [d1, d2, split_nil, matches_cons_cons, matches_cons_cons]
            simp [Topic.plus, Topic.hash]
          · rw [d1, d2, split_slash, matches_cons_cons, matches_cons_cons]
            simp [Topic.plus, Topic.hash]
      · rw [if_neg q1]
        by_cases q2 : fc = '#'
        · subst q2
          rw [if_pos rfl]
          have := hash_valid hv
          subst this
          have e : splitLevels ['#'] = [Topic.hash] := by decide
          rw [e, matches_hash]
        · rw [if_neg q2]
          match ts, hm, hprev with
          | [], _, hprev =>
            rw [split_nil]
            by_cases hf : fc = '/'
            · subst hf
              rw [split_slash, matches_cons_cons]
              by_cases hfs : fs = ['#']
              · subst hfs
                have := hprev rfl rfl
                subst this
                decide
              · have h2 : Matches (splitLevels fs) [] = false := by
                  cases hmm : Matches (splitLevels fs) [] with
                  | false => rfl
                  | true => exact absurd (split_eq_hash (matches_nil_right (split_ne_nil fs) hmm)) hfs
                simp [hfs, h2, Topic.hash]
            · obtain ⟨l, ls, _, e2⟩ := split_cons hf fs
              rw [e2, matches_cons_cons, if_neg (lit_ne_hash q2 l)]
              simp [hf, lit_ne_plus q1 l]
          | tc :: ts', hm, _ =>
            have hne' : tc ≠ fc := by intro e; apply hm; simp [e]
            rw [matches_head_ne q1 q2 hne']
            simp


theorem closed_cons (tc fc : Char) (ts fs : Str) :
    closed (tc :: ts) (fc :: fs) =
      if (fc = '$' ∧ tc ≠ '$') ∨ (tc = '$' ∧ fc ≠ '$') then false else scan none (fc :: fs) (tc :: ts) := rfl

theorem validTopicName_iff (t : Str) : validTopicName t = true ↔ t ≠ [] ∧ NW t := by
  unfold validTopicName
  rw [Bool.and_assoc, Bool.and_eq_true, nwB_iff]
  cases t <;> simp

/-- **C02, exported helper**: on every valid topic name and valid topic filter the byte scanner
    `packets.TopicMatch(topic, filter)` returns exactly the MQTT 4.7 relation (including [MQTT-4.7.2-1]). -/
theorem topicMatch_bytes_spec : ∀ t f : Str, validTopicName t = true → validFilter f = true →
    topicMatchBytes t f = .ret (MatchesTopic f t) := by
  intro t f ht hf
  rw [topicMatchBytes_eq_closed]
  congr 1
  obtain ⟨htne, hnw⟩ := (validTopicName_iff t).1 ht
  unfold validFilter at hf
  rw [Bool.and_eq_true] at hf
  obtain ⟨hfne, hv⟩ := hf
  match t, f, htne, hfne with
  | [], _, h, _ => exact absurd rfl h
  | _ :: _, [], _, h => simp at h
  | tc :: ts, fc :: fs, _, _ =>
    have hlit := (NW_cons.1 hnw).1
    rw [closed_cons]
    unfold MatchesTopic
    by_cases h : (fc = '$' ∧ tc ≠ '$') ∨ (tc = '$' ∧ fc ≠ '$')
    · rw [if_pos h]
      rcases h with ⟨h1, h2⟩ | ⟨h1, h2⟩
      · subst h1
        rw [matches_head_ne (by decide) (by decide) h2]; simp
      · subst h1
        by_cases hw : fc = '+' ∨ fc = '#'
        · have : startsWithWildcard (fc :: fs) = true := by
            unfold startsWithWildcard
            rcases hw with rfl | rfl
            · rcases plus_valid hv with ⟨_, e⟩ | ⟨_, _, e, _⟩ <;> rw [e] <;> simp
            · have := hash_valid hv; subst this; decide
          simp [isSystemTopic, this]
        · have hw1 : fc ≠ '+' := fun e => hw (Or.inl e)
          have hw2 : fc ≠ '#' := fun e => hw (Or.inr e)
          rw [matches_head_ne hw1 hw2 (Ne.symm h2)]; simp
    · rw [if_neg h]
      rw [scan_spec (fc :: fs) none (tc :: ts) hv hnw (by simp) (by intro h; cases h)]
      have : (isSystemTopic (tc :: ts) && startsWithWildcard (fc :: fs)) = false := by
        by_cases hs : tc = '$'
        · subst hs
          have hfc : fc = '$' := by
            by_cases hfc : fc = '$'
            · exact hfc
            · exact absurd (Or.inr ⟨rfl, hfc⟩) h
          subst hfc
          obtain ⟨l, ls, _, e⟩ := split_cons (by decide : ('$' : Char) ≠ '/') fs
          simp [startsWithWildcard, e, Topic.plus, Topic.hash]
        · have : isSystemTopic (tc :: ts) = false := by
            simp [isSystemTopic, hs]
          simp [this]
      simp [this]


/-! ### non-vacuity: the special-cased shapes, evaluated on the model -/

-- "foo" matches "foo/#" (parent level)
example : topicMatchBytes ['f','o','o'] ['f','o','o','/','#'] = .ret true := by decide
-- "foo/" matches "foo/+" (empty last level)
example : topicMatchBytes ['f','o','o','/'] ['f','o','o','/','+'] = .ret true := by decide
-- "foo/bar" matches "foo/+/#"
example : topicMatchBytes ['f','o','o','/','b','a','r'] ['f','o','o','/','+','/','#'] = .ret true := by decide
-- "foo" does not match "foo/+"
example : topicMatchBytes ['f','o','o'] ['f','o','o','/','+'] = .ret false := by decide
-- [MQTT-4.7.2-1]: "$SYS" is not matched by "#" nor "+"
example : topicMatchBytes ['$','S'] ['#'] = .ret false := by decide
example : topicMatchBytes ['$','S'] ['+'] = .ret false := by decide
example : topicMatchBytes ['$','S','/','a'] ['$','S','/','#'] = .ret true := by decide
-- invalid inputs still return (no panic): empty strings, wildcard glued to a literal
example : topicMatchBytes [] ['#'] = .ret false := by decide
example : topicMatchBytes ['a'] ['a','+'] = .ret false := by decide
-- the hypotheses of `topicMatch_bytes_spec` are satisfiable together with both outcomes
example : validTopicName ['a','/','b'] = true ∧ validFilter ['a','/','+'] = true ∧
    MatchesTopic ['a','/','+'] ['a','/','b'] = true := by decide
example : validTopicName ['a','/','b'] = true ∧ validFilter ['a','/','+','/','c'] = true ∧
    MatchesTopic ['a','/','+','/','c'] ['a','/','b'] = false := by decide

end GmqttVerif.TopicMatchBytes
