import GmqttVerif.Model.Trie
import GmqttVerif.Proofs.AList
import GmqttVerif.Proofs.Topic
/-
  Generic trie facts. The semantic content of a trie is the function `viewAt d q t` = payload of the node reached
  by path `q`, or the default payload `d` when the path does not exist ("absent = empty node").
  * `viewAt_update`     subscribe-walk  : changes exactly the payload at the path
  * `viewAtO_removeGo`  unsubscribe-walk with one-level pruning : changes exactly the payload at the path; a pruned node
                         reads as `d`; zombie nodes left behind read as their own (empty) payload
  * `mem_matchTopic`    the recursive matcher returns exactly the outputs of the nodes whose path `Matches` the topic levels
  * `nodup_matchTopic`  ... each once
  * `mem_preOrder`      full traversal = all paths (needs `WF`: no duplicate child keys anywhere)
-/
namespace GmqttVerif.Trie
open GmqttVerif Topic

variable {β γ : Type}

/-- payload at path `q`; `d` if there is no such node -/
def viewAt (d : β) (q : List Str) (t : Trie β) : β :=
  match at? q t with
  | some n => n.payload
  | none => d

def viewAtO (d : β) (q : List Str) : Option (Trie β) → β
  | some t => viewAt d q t
  | none => d

@[simp] theorem viewAt_nil (d : β) (b : β) (ch) : viewAt d [] (node b ch) = b := rfl

theorem viewAt_cons (d : β) (l : Str) (q : List Str) (b : β) (ch : List (Str × Trie β)) :
    viewAt d (l :: q) (node b ch) = match AL.get l ch with | some c => viewAt d q c | none => d := by
  unfold viewAt
  simp only [at?]
  cases AL.get l ch <;> rfl

theorem viewAt_leaf (d : β) (q : List Str) : viewAt d q (leaf d) = d := by
  cases q with
  | nil => rfl
  | cons l q => simp [leaf, viewAt_cons]

/-- effect of the subscribe-walk on every path -/
theorem viewAt_update (d : β) (f : β → β) (p q : List Str) (t : Trie β) :
    viewAt d q (update d f p t) = if q = p then f (viewAt d p t) else viewAt d q t := by
  induction p generalizing q t with
  | nil =>
    obtain ⟨b, ch⟩ := t
    cases q with
    | nil => simp [update]
    | cons l q' => simp [update, viewAt_cons]
  | cons l ls ih =>
    obtain ⟨b, ch⟩ := t
    cases q with
    | nil => simp [update]
    | cons l' q' =>
      simp only [update, viewAt_cons, AL.get_set]
      by_cases hl : l' = l
      · subst hl
        simp only [ite_true, ih, List.cons.injEq, true_and]
        cases hg : AL.get l' ch with
        | none => simp [viewAt_leaf]
        | some c => simp
      · simp [hl]

/-- effect of the unsubscribe-walk (with its one-level pruning) on every path -/
theorem viewAtO_removeGo (d : β) (g : β → Option β) (dead : β → Bool) (p q : List Str) (t : Trie β) :
    viewAtO d q (removeGo g dead p t) =
      if q = p then
        (match at? p t with
         | none => d
         | some n =>
           match g n.payload with
           | none => n.payload
           | some b' => if dead b' && n.children.isEmpty then d else b')
      else viewAt d q t := by
  induction p generalizing q t with
  | nil =>
    obtain ⟨b, ch⟩ := t
    cases q with
    | nil =>
      simp only [removeGo, at?, payload, children, ite_true]
      cases g b with
      | none => simp [viewAtO]
      | some b' => by_cases hd : (dead b' && ch.isEmpty) = true <;> simp [hd, viewAtO]
    | cons l q' =>
      simp only [removeGo]
      cases g b with
      | none => simp [viewAtO]
      | some b' =>
        by_cases hd : (dead b' && ch.isEmpty) = true
        · simp only [hd, ite_true, viewAtO]
          have : ch = [] := by
            have := (Bool.and_eq_true _ _).mp hd
            exact List.isEmpty_iff.mp this.2
          subst this
          simp [viewAt_cons]
        · simp [hd, viewAtO, viewAt_cons]
  | cons l ls ih =>
    obtain ⟨b, ch⟩ := t
    cases hg : AL.get l ch with
    | none =>
      simp only [removeGo, hg, viewAtO, at?]
      by_cases hq : q = l :: ls
      · subst hq; simp [viewAt_cons, hg]
      · simp [hq]
    | some c =>
      simp only [removeGo, hg, at?]
      have ih' := fun q' => ih q' c
      cases q with
      | nil =>
        cases removeGo g dead ls c <;> simp [viewAtO]
      | cons l' q' =>
        by_cases hl : l' = l
        · subst hl
          have := ih' q'
          cases hr : removeGo g dead ls c with
          | none =>
            rw [hr] at this
            simp only [viewAtO, viewAt_cons, AL.get_del_self, List.cons.injEq, true_and, hg] at this ⊢
            exact this
          | some c' =>
            rw [hr] at this
            simp only [viewAtO, viewAt_cons, AL.get_set_self, List.cons.injEq, true_and, hg] at this ⊢
            exact this
        · cases hr : removeGo g dead ls c with
          | none => simp [viewAtO, viewAt_cons, AL.get_del, hl]
          | some c' => simp [viewAtO, viewAt_cons, AL.get_set, hl]

/-- `remove` on a non-empty path, in terms of `viewAt` -/
theorem viewAt_remove (d : β) (g : β → Option β) (dead : β → Bool) (l : Str) (ls q : List Str) (t : Trie β) :
    viewAt d q (remove g dead (l :: ls) t) =
      if q = l :: ls then
        (match at? (l :: ls) t with
         | none => d
         | some n =>
           match g n.payload with
           | none => n.payload
           | some b' => if dead b' && n.children.isEmpty then d else b')
      else viewAt d q t := by
  have h := viewAtO_removeGo d g dead (l :: ls) q t
  obtain ⟨b, ch⟩ := t
  unfold remove
  cases hr : removeGo g dead (l :: ls) (node b ch) with
  | some t' => rw [hr] at h; simpa [viewAtO] using h
  | none =>
    -- impossible: the walk over a non-empty path always returns the node itself
    exfalso
    simp only [removeGo] at hr
    cases hg : AL.get l ch with
    | none => simp [hg] at hr
    | some c =>
      simp only [hg] at hr
      cases hr2 : removeGo g dead ls c <;> simp [hr2] at hr

/-! ### matching -/

/-- the recursive call / end-of-topic handling shared by the `+` child and the exact child -/
def sub (out : β → List γ) (ls : List Str) (c : Trie β) : List γ :=
  if ls.isEmpty then matchEnd out c else matchTopic out ls c

theorem matchTopic_cons (out : β → List γ) (l : Str) (ls : List Str) (b : β) (ch : List (Str × Trie β)) :
    matchTopic out (l :: ls) (node b ch) =
      (match AL.get hash ch with | some n => out n.payload | none => []) ++
      (match AL.get plus ch with | some c => sub out ls c | none => []) ++
      (match AL.get l ch with | some c => sub out ls c | none => []) := by
  unfold sub
  rw [matchTopic]
  cases AL.get hash ch <;> cases AL.get plus ch <;> cases AL.get l ch <;> rfl

variable (d : β) (out : β → List γ)

theorem mem_matchEnd (hd : out d = []) (c : Trie β) (x : γ) :
    x ∈ matchEnd out c ↔ ∃ fs, Matches fs [] = true ∧ x ∈ out (viewAt d fs c) := by
  obtain ⟨b, ch⟩ := c
  simp only [matchEnd, hashChild, payload, children, List.mem_append]
  constructor
  · rintro (h | h)
    · exact ⟨[], by simp [Matches], by simpa using h⟩
    · refine ⟨[hash], by simp [Matches], ?_⟩
      rw [viewAt_cons]
      cases hg : AL.get hash ch with
      | none => simp [hg] at h
      | some n => obtain ⟨nb, nch⟩ := n; simpa [hg, payload] using h
  · rintro ⟨fs, hm, hx⟩
    rcases (matches_nil_right fs).mp hm with rfl | rfl
    · left; simpa using hx
    · right
      rw [viewAt_cons] at hx
      cases hg : AL.get hash ch with
      | none => simp [hg, hd] at hx
      | some n => obtain ⟨nb, nch⟩ := n; simpa [hg, payload] using hx

/-- membership in the matcher's result, for topic levels that are not `#` -/
theorem mem_sub (hd : out d = []) (ls : List Str) (hp : ∀ l ∈ ls, l ≠ hash) (c : Trie β) (x : γ) :
    x ∈ sub out ls c ↔ ∃ fs, Matches fs ls = true ∧ x ∈ out (viewAt d fs c) := by
  induction ls generalizing c with
  | nil => simpa [sub] using mem_matchEnd d out hd c x
  | cons l ls ih =>
    obtain ⟨b, ch⟩ := c
    have hl : l ≠ hash := hp l List.mem_cons_self
    have hp' : ∀ l' ∈ ls, l' ≠ hash := fun l' h => hp l' (List.mem_cons_of_mem _ h)
    have ih' := fun c => ih hp' c
    simp only [sub, List.isEmpty_cons, Bool.false_eq_true, ite_false, matchTopic_cons, List.mem_append]
    constructor
    · rintro ((h | h) | h)
      · refine ⟨[hash], by simp [Matches], ?_⟩
        rw [viewAt_cons]
        cases hg : AL.get hash ch with
        | none => simp [hg] at h
        | some n => obtain ⟨nb, nch⟩ := n; simpa [hg, payload] using h
      · cases hg : AL.get plus ch with
        | none => simp [hg] at h
        | some cp =>
          simp only [hg] at h
          obtain ⟨fs, hm, hx⟩ := (ih' cp).mp h
          refine ⟨plus :: fs, ?_, ?_⟩
          · rw [matches_cons_cons]; simp [hm, show plus ≠ hash by decide]
          · rw [viewAt_cons, hg]; exact hx
      · cases hg : AL.get l ch with
        | none => simp [hg] at h
        | some cl =>
          simp only [hg] at h
          obtain ⟨fs, hm, hx⟩ := (ih' cl).mp h
          refine ⟨l :: fs, ?_, ?_⟩
          · rw [matches_cons_cons]; simp [hm, hl]
          · rw [viewAt_cons, hg]; exact hx
    · rintro ⟨fs, hm, hx⟩
      cases fs with
      | nil => simp [Matches] at hm
      | cons f fs' =>
        rw [matches_cons_cons] at hm
        rw [viewAt_cons] at hx
        by_cases hf : f = hash
        · subst hf
          simp only [ite_true, List.isEmpty_iff] at hm
          subst hm
          left; left
          cases hg : AL.get hash ch with
          | none => simp [hg, hd] at hx
          | some n => obtain ⟨nb, nch⟩ := n; simpa [hg, payload] using hx
        · simp only [hf, ite_false, Bool.and_eq_true, Bool.or_eq_true, decide_eq_true_eq] at hm
          obtain ⟨hfl, hm'⟩ := hm
          rcases hfl with hfl | hfl
          · subst hfl
            left; right
            cases hg : AL.get plus ch with
            | none => simp [hg, hd] at hx
            | some cp =>
              simp only [hg] at hx ⊢
              exact (ih' cp).mpr ⟨fs', hm', hx⟩
          · subst hfl
            right
            cases hg : AL.get f ch with
            | none => simp [hg, hd] at hx
            | some cl =>
              simp only [hg] at hx ⊢
              exact (ih' cl).mpr ⟨fs', hm', hx⟩

/-- **the matcher is exact**: for a topic with at least one level, none of them `#`, the result contains exactly the
    outputs of the nodes whose path matches the topic levels under MQTT 4.7 -/
theorem mem_matchTopic (hd : out d = []) (l : Str) (ls : List Str) (hp : ∀ l' ∈ l :: ls, l' ≠ hash) (t : Trie β) (x : γ) :
    x ∈ matchTopic out (l :: ls) t ↔ ∃ fs, Matches fs (l :: ls) = true ∧ x ∈ out (viewAt d fs t) := by
  have := mem_sub d out hd (l :: ls) hp t x
  simpa [sub] using this

theorem viewAt_child {b : β} {ch : List (Str × Trie β)} {k : Str} {c : Trie β} (h : AL.get k ch = some c) (q : List Str) :
    viewAt d (k :: q) (node b ch) = viewAt d q c := by
  rw [viewAt_cons, h]

/-- the outputs of distinct paths are disjoint -/
def Disjoint (t : Trie β) : Prop :=
  ∀ q q' x, x ∈ out (viewAt d q t) → x ∈ out (viewAt d q' t) → q = q'

theorem disjoint_child {b : β} {ch : List (Str × Trie β)} {k : Str} {c : Trie β} (h : AL.get k ch = some c)
    (hdis : Disjoint d out (node b ch)) : Disjoint d out c := by
  intro q q' x hx hx'
  rw [← viewAt_child d h] at hx hx'
  have := hdis _ _ x hx hx'
  simpa using this

theorem nodup_hashPart (b : β) (ch : List (Str × Trie β)) (hn : ∀ q, (out (viewAt d q (node b ch))).Nodup) :
    (match AL.get hash ch with | some n => out n.payload | none => []).Nodup := by
  cases hg : AL.get hash ch with
  | none => exact List.nodup_nil
  | some n =>
    have := hn [hash]
    rw [viewAt_child d hg] at this
    obtain ⟨nb, nch⟩ := n
    simpa [payload] using this

theorem mem_hashPart (b : β) (ch : List (Str × Trie β)) (x : γ)
    (h : x ∈ (match AL.get hash ch with | some n => out n.payload | none => [])) :
    x ∈ out (viewAt d [hash] (node b ch)) := by
  cases hg : AL.get hash ch with
  | none => simp [hg] at h
  | some n =>
    rw [viewAt_child d hg]
    obtain ⟨nb, nch⟩ := n
    simpa [hg, payload] using h

/-- ... and each entry is returned once: the three branches of the matcher (`#` child, `+` child, exact child) never
    overlap for a topic whose levels are not wildcards -/
theorem nodup_sub (hd : out d = []) (ls : List Str) (hp : ∀ l ∈ ls, l ≠ hash ∧ l ≠ plus) (c : Trie β)
    (hn : ∀ q, (out (viewAt d q c)).Nodup) (hdis : Disjoint d out c) : (sub out ls c).Nodup := by
  induction ls generalizing c with
  | nil =>
    obtain ⟨b, ch⟩ := c
    simp only [sub, List.isEmpty_nil, ite_true, matchEnd, hashChild, payload, children]
    rw [List.nodup_append]
    refine ⟨by simpa using hn [], nodup_hashPart d out b ch hn, ?_⟩
    intro x hx y hy hxy
    subst hxy
    have h1 : x ∈ out (viewAt d [] (node b ch)) := by simpa using hx
    have h2 := mem_hashPart d out b ch x hy
    have := hdis _ _ x h1 h2
    simp at this
  | cons l ls ih =>
    obtain ⟨b, ch⟩ := c
    have hl := hp l List.mem_cons_self
    have hp' : ∀ l' ∈ ls, l' ≠ hash ∧ l' ≠ plus := fun l' h => hp l' (List.mem_cons_of_mem _ h)
    have hph : ∀ l' ∈ ls, l' ≠ hash := fun l' h => (hp' l' h).1
    -- a child's result, seen from the parent
    have child : ∀ k c', AL.get k ch = some c' →
        (sub out ls c').Nodup ∧ ∀ x, x ∈ sub out ls c' → ∃ fs, x ∈ out (viewAt d (k :: fs) (node b ch)) := by
      intro k c' hk
      refine ⟨ih hp' c' (fun q => by rw [← viewAt_child d hk]; exact hn _) (disjoint_child d out hk hdis), ?_⟩
      intro x hx
      obtain ⟨fs, _, hfs⟩ := (mem_sub d out hd ls hph c' x).mp hx
      exact ⟨fs, by rw [viewAt_child d hk]; exact hfs⟩
    simp only [sub, List.isEmpty_cons, Bool.false_eq_true, ite_false, matchTopic_cons]
    have hP : (match AL.get plus ch with | some c => sub out ls c | none => []).Nodup ∧
        ∀ x, x ∈ (match AL.get plus ch with | some c => sub out ls c | none => []) →
          ∃ fs, x ∈ out (viewAt d (plus :: fs) (node b ch)) := by
      cases hg : AL.get plus ch with
      | none => simp
      | some cp => exact child plus cp hg
    have hL : (match AL.get l ch with | some c => sub out ls c | none => []).Nodup ∧
        ∀ x, x ∈ (match AL.get l ch with | some c => sub out ls c | none => []) →
          ∃ fs, x ∈ out (viewAt d (l :: fs) (node b ch)) := by
      cases hg : AL.get l ch with
      | none => simp
      | some cl => exact child l cl hg
    rw [List.nodup_append, List.nodup_append]
    refine ⟨⟨nodup_hashPart d out b ch hn, hP.1, ?_⟩, hL.1, ?_⟩
    · intro x hx y hy hxy
      subst hxy
      have h1 := mem_hashPart d out b ch x hx
      obtain ⟨fs, h2⟩ := hP.2 x hy
      have := hdis _ _ x h1 h2
      simp only [List.cons.injEq] at this
      exact absurd this.1 (by decide)
    · intro x hx y hy hxy
      subst hxy
      obtain ⟨fs2, h2⟩ := hL.2 x hy
      rcases List.mem_append.mp hx with hx | hx
      · have h1 := mem_hashPart d out b ch x hx
        have := hdis _ _ x h1 h2
        simp only [List.cons.injEq] at this
        exact hl.1 this.1.symm
      · obtain ⟨fs1, h1⟩ := hP.2 x hx
        have := hdis _ _ x h1 h2
        simp only [List.cons.injEq] at this
        exact hl.2 this.1.symm

theorem nodup_matchTopic (hd : out d = []) (l : Str) (ls : List Str) (hp : ∀ l' ∈ l :: ls, l' ≠ hash ∧ l' ≠ plus)
    (t : Trie β) (hn : ∀ q, (out (viewAt d q t)).Nodup) (hdis : Disjoint d out t) :
    (matchTopic out (l :: ls) t).Nodup := by
  have := nodup_sub d out hd (l :: ls) hp t hn hdis
  simpa [sub] using this

/-! ### full traversal -/

mutual
/-- no node has two children under the same key (Go: `children` is a map) -/
def WF : Trie β → Prop
  | node _ ch => (AL.keys ch).Nodup ∧ WFCh ch
def WFCh : List (Str × Trie β) → Prop
  | [] => True
  | (_, t) :: r => WF t ∧ WFCh r
end

theorem WFCh_iff (ch : List (Str × Trie β)) : WFCh ch ↔ ∀ kt ∈ ch, WF kt.2 := by
  induction ch with
  | nil => simp [WFCh]
  | cons kt r ih => obtain ⟨k, t⟩ := kt; simp [WFCh, ih]

theorem WF_node (b : β) (ch : List (Str × Trie β)) : WF (node b ch) ↔ AL.NodupKeys ch ∧ ∀ kt ∈ ch, WF kt.2 := by
  rw [WF, WFCh_iff]; rfl

theorem WF_leaf (b : β) : WF (leaf b) := by
  rw [leaf, WF_node]; simp [AL.nodupKeys_nil]

theorem WF_child {b : β} {ch : List (Str × Trie β)} {k : Str} {c : Trie β} (h : WF (node b ch)) (hk : AL.get k ch = some c) :
    WF c := ((WF_node b ch).mp h).2 (k, c) (AL.mem_of_get hk)

theorem WF_set {b : β} {ch : List (Str × Trie β)} (h : WF (node b ch)) (k : Str) (c : Trie β) (hc : WF c) (b' : β) :
    WF (node b' (AL.set k c ch)) := by
  rw [WF_node] at h ⊢
  refine ⟨AL.nodupKeys_set k c h.1, fun kt hkt => ?_⟩
  rcases AL.mem_set.mp hkt with he | ⟨hm, _⟩
  · subst he; exact hc
  · exact h.2 kt hm

theorem WF_del {b : β} {ch : List (Str × Trie β)} (h : WF (node b ch)) (k : Str) (b' : β) :
    WF (node b' (AL.del k ch)) := by
  rw [WF_node] at h ⊢
  exact ⟨AL.nodupKeys_del k h.1, fun kt hkt => h.2 kt (AL.mem_del.mp hkt).1⟩

theorem WF_payload {b b' : β} {ch : List (Str × Trie β)} (h : WF (node b ch)) : WF (node b' ch) := by
  rw [WF_node] at h ⊢; exact h

theorem WF_update (dflt : β) (f : β → β) (p : List Str) (t : Trie β) (h : WF t) : WF (update dflt f p t) := by
  induction p generalizing t with
  | nil => obtain ⟨b, ch⟩ := t; exact WF_payload h
  | cons l ls ih =>
    obtain ⟨b, ch⟩ := t
    simp only [update]
    apply WF_set h
    apply ih
    cases hg : AL.get l ch with
    | none => exact WF_leaf dflt
    | some c => exact WF_child h hg

theorem WF_removeGo (g : β → Option β) (dead : β → Bool) (p : List Str) (t : Trie β) (h : WF t) :
    ∀ t', removeGo g dead p t = some t' → WF t' := by
  induction p generalizing t with
  | nil =>
    obtain ⟨b, ch⟩ := t
    intro t' ht'
    simp only [removeGo] at ht'
    cases hg : g b with
    | none => simp [hg] at ht'; subst ht'; exact h
    | some b' =>
      simp only [hg] at ht'
      split at ht'
      · simp at ht'
      · injection ht' with ht'; subst ht'; exact WF_payload h
  | cons l ls ih =>
    obtain ⟨b, ch⟩ := t
    intro t' ht'
    simp only [removeGo] at ht'
    cases hg : AL.get l ch with
    | none => simp [hg] at ht'; subst ht'; exact h
    | some c =>
      simp only [hg] at ht'
      cases hr : removeGo g dead ls c with
      | none => simp [hr] at ht'; subst ht'; exact WF_del h l b
      | some c' =>
        simp [hr] at ht'; subst ht'
        exact WF_set h l c' (ih c (WF_child h hg) c' hr) b

theorem WF_remove (g : β → Option β) (dead : β → Bool) (p : List Str) (t : Trie β) (h : WF t) : WF (remove g dead p t) := by
  unfold remove
  cases p with
  | nil => exact h
  | cons l ls =>
    simp only
    cases hr : removeGo g dead (l :: ls) t with
    | none => exact h
    | some t' => exact WF_removeGo g dead (l :: ls) t h t' hr

mutual
/-- with map-like children, the traversal visits exactly the nodes reachable by paths -/
theorem mem_preOrder (hd : out d = []) : ∀ (t : Trie β), WF t → ∀ x, x ∈ preOrder out t ↔ ∃ q, x ∈ out (viewAt d q t)
  | node b ch, h, x => by
    have hch := (WF_node b ch).mp h
    rw [preOrder, List.mem_append, mem_preOrderCh hd ch hch.2]
    constructor
    · rintro (hx | ⟨k, c, q, hm, hx⟩)
      · exact ⟨[], by simpa using hx⟩
      · exact ⟨k :: q, by rw [viewAt_cons, AL.get_of_mem hch.1 hm]; exact hx⟩
    · rintro ⟨q, hx⟩
      cases q with
      | nil => exact Or.inl (by simpa using hx)
      | cons k q =>
        rw [viewAt_cons] at hx
        cases hg : AL.get k ch with
        | none => simp [hg, hd] at hx
        | some c => exact Or.inr ⟨k, c, q, AL.mem_of_get hg, by simpa [hg] using hx⟩
theorem mem_preOrderCh (hd : out d = []) : ∀ (ch : List (Str × Trie β)), (∀ kt ∈ ch, WF kt.2) →
    ∀ x, x ∈ preOrderCh out ch ↔ ∃ k c q, (k, c) ∈ ch ∧ x ∈ out (viewAt d q c)
  | [], _, x => by simp [preOrderCh]
  | (k, t) :: r, h, x => by
    rw [preOrderCh, List.mem_append, mem_preOrder hd t (h (k, t) List.mem_cons_self),
      mem_preOrderCh hd r (fun kt hkt => h kt (List.mem_cons_of_mem _ hkt))]
    constructor
    · rintro (⟨q, hx⟩ | ⟨k', c, q, hm, hx⟩)
      · exact ⟨k, t, q, List.mem_cons_self, hx⟩
      · exact ⟨k', c, q, List.mem_cons_of_mem _ hm, hx⟩
    · rintro ⟨k', c, q, hm, hx⟩
      rcases List.mem_cons.mp hm with he | hm'
      · injection he with h1 h2; subst h1; subst h2; exact Or.inl ⟨q, hx⟩
      · exact Or.inr ⟨k', c, q, hm', hx⟩
end

mutual
/-- ... each entry once -/
theorem nodup_preOrder (hd : out d = []) : ∀ (t : Trie β), WF t → (∀ q, (out (viewAt d q t)).Nodup) → Disjoint d out t →
    (preOrder out t).Nodup
  | node b ch, h, hn, hdis => by
    have hch := (WF_node b ch).mp h
    rw [preOrder, List.nodup_append]
    refine ⟨by simpa using hn [], nodup_preOrderCh hd b ch ch hch.1 hch.2 (fun _ hm => hm) hch.1 hn hdis, ?_⟩
    intro x hx y hy hxy
    subst hxy
    obtain ⟨k, c, q, hm, hxq⟩ := (mem_preOrderCh d out hd ch hch.2 x).mp hy
    have h1 : x ∈ out (viewAt d [] (node b ch)) := by simpa using hx
    have h2 : x ∈ out (viewAt d (k :: q) (node b ch)) := by rw [viewAt_cons, AL.get_of_mem hch.1 hm]; exact hxq
    have := hdis _ _ x h1 h2
    simp at this
/-- children `r` (a suffix of the node's child list `ch`) -/
theorem nodup_preOrderCh (hd : out d = []) (b : β) (ch : List (Str × Trie β)) :
    ∀ (r : List (Str × Trie β)), AL.NodupKeys r → (∀ kt ∈ r, WF kt.2) → (∀ kt ∈ r, kt ∈ ch) → AL.NodupKeys ch →
      (∀ q, (out (viewAt d q (node b ch))).Nodup) → Disjoint d out (node b ch) → (preOrderCh out r).Nodup
  | [], _, _, _, _, _, _ => by simp [preOrderCh]
  | (k, t) :: r, hnk, hwf, hsub, hnch, hn, hdis => by
    have hnk' : k ∉ AL.keys r ∧ AL.NodupKeys r := by simpa [AL.NodupKeys, AL.keys] using hnk
    have hkt : AL.get k ch = some t := AL.get_of_mem hnch (hsub _ List.mem_cons_self)
    rw [preOrderCh, List.nodup_append]
    refine ⟨?_, nodup_preOrderCh hd b ch r hnk'.2 (fun kt hm => hwf kt (List.mem_cons_of_mem _ hm))
      (fun kt hm => hsub kt (List.mem_cons_of_mem _ hm)) hnch hn hdis, ?_⟩
    · apply nodup_preOrder hd t (hwf _ List.mem_cons_self)
      · intro q; rw [← viewAt_child d hkt]; exact hn _
      · exact disjoint_child d out hkt hdis
    · intro x hx y hy hxy
      subst hxy
      obtain ⟨q, hxq⟩ := (mem_preOrder d out hd t (hwf _ List.mem_cons_self) x).mp hx
      obtain ⟨k', c', q', hm', hxq'⟩ :=
        (mem_preOrderCh d out hd r (fun kt hm => hwf kt (List.mem_cons_of_mem _ hm)) x).mp hy
      have hk't : AL.get k' ch = some c' := AL.get_of_mem hnch (hsub _ (List.mem_cons_of_mem _ hm'))
      have h1 : x ∈ out (viewAt d (k :: q) (node b ch)) := by rw [viewAt_child d hkt]; exact hxq
      have h2 : x ∈ out (viewAt d (k' :: q') (node b ch)) := by rw [viewAt_child d hk't]; exact hxq'
      have := hdis _ _ x h1 h2
      simp only [List.cons.injEq] at this
      exact hnk'.1 (this.1 ▸ List.mem_map.mpr ⟨(k', c'), hm', rfl⟩)
end

end GmqttVerif.Trie
