import GmqttVerif.Model.WillTimer
/-! helper lemmas for `Properties/C08Timer.lean` -/
namespace GmqttVerif.WillTimer

theorem signal_get (ts : List T) (w v : Nat) (b : Bool) :
    (signal ts w b)[v]? = if v = w ∧ ts[w]? = some (.waiting none) then some (.waiting (some b)) else ts[v]? := by
  unfold signal
  split
  · next h =>
    by_cases hv : v = w
    · subst hv
      have : v < ts.length := by
        rcases Nat.lt_or_ge v ts.length with h' | h'
        · exact h'
        · rw [List.getElem?_eq_none_iff.mpr h'] at h; cases h
      simp [h, List.getElem?_set_self this]
    · simp [hv, List.getElem?_set_ne (Ne.symm hv)]
  · next h =>
    by_cases hv : v = w
    · subst hv
      have : ¬ ts[v]? = some (.waiting none) := fun e => h e
      simp [this]
    · simp [hv]

theorem signal_length (ts : List T) (w : Nat) (b : Bool) : (signal ts w b).length = ts.length := by
  unfold signal; split <;> simp

/-- the invariant of the repaired code -/
structure Inv (s : State) : Prop where
  entry_lt : ∀ w, s.entry = some w → w < s.timers.length
  noOrphan : NoOrphan s
  quiet : (s.online = true ∨ s.session = false) → ∀ w, ¬ pending s w
  sessOnline : s.online = true → s.session = true
  bufTrue : ∀ w, s.timers[w]? = some (.waiting (some true)) → w ∈ s.ended
  sigTrue : ∀ w, s.timers[w]? = some (.signalled true) → w ∈ s.fired ∨ w ∈ s.ended
  pub : ∀ w ∈ s.published, w ∈ s.fired ∨ w ∈ s.ended

theorem inv_init : Inv {} := by
  constructor <;> simp [NoOrphan, pending]

theorem get_lt {ts : List T} {w : Nat} {t : T} (h : ts[w]? = some t) : w < ts.length := by
  rcases Nat.lt_or_ge w ts.length with h' | h'
  · exact h'
  · rw [List.getElem?_eq_none_iff.mpr h'] at h; cases h

theorem set_get (ts : List T) (w v : Nat) (t : T) (hw : w < ts.length) :
    (ts.set w t)[v]? = if v = w then some t else ts[v]? := by
  by_cases hv : v = w
  · subst hv; simp [List.getElem?_set_self hw]
  · simp [hv, List.getElem?_set_ne (Ne.symm hv)]

/-- appending a fresh goroutine: every other entry is an old one -/
theorem append_get (ts : List T) (w : Nat) (t : T) (hw : (ts ++ [T.waiting none])[w]? = some t) (hne : t ≠ .waiting none) :
    ts[w]? = some t := by
  by_cases hl : w < ts.length
  · rwa [List.getElem?_append_left hl] at hw
  · rw [List.getElem?_append_right (by omega)] at hw
    by_cases h0 : w - ts.length = 0
    · simp [h0] at hw; exact absurd hw.symm hne
    · rw [List.getElem?_eq_none_iff.mpr (by simp; omega)] at hw; cases hw

theorem inv_discWill {s : State} (h : Inv s) : Inv (step false s .discWill) := by
  simp only [step]
  split
  · next ho =>
    have hq := h.quiet (Or.inl ho)
    have hs := h.sessOnline ho
    constructor
    · intro w hw; simp at hw; subst hw; simp
    · intro w hw
      simp only [pending] at hw
      by_cases hl : w < s.timers.length
      · rw [List.getElem?_append_left hl] at hw; exact absurd hw (hq w)
      · have : w = s.timers.length := by
          rcases Nat.lt_or_ge w (s.timers.length + 1) with h1 | h1
          · omega
          · rw [List.getElem?_eq_none_iff.mpr (by simp; omega)] at hw; cases hw
        simp [this]
    · intro hc; simp [hs] at hc
    · intro hc; simp at hc
    · intro w hw; exact h.bufTrue w (append_get _ _ _ hw (by simp))
    · intro w hw; exact h.sigTrue w (append_get _ _ _ hw (by simp))
    · exact h.pub
  · exact h

theorem inv_discPlain {s : State} (h : Inv s) : Inv (step false s .discPlain) := by
  simp only [step]
  split
  · next ho =>
    have hs := h.sessOnline ho
    exact ⟨h.entry_lt, h.noOrphan, by intro hc; simp [hs] at hc, by intro hc; simp at hc, h.bufTrue, h.sigTrue, h.pub⟩
  · exact h

/-- after signalling the registered will nothing is pending -/
theorem signal_quiet {s : State} (h : Inv s) (w : Nat) (he : s.entry = some w) (b : Bool) (v : Nat) :
    ¬ (signal s.timers w b)[v]? = some (T.waiting none) := by
  intro hv
  simp only [signal_get] at hv
  split at hv
  · cases hv
  · next hc =>
    have := h.noOrphan v hv
    rw [he] at this; cases this
    exact hc ⟨rfl, hv⟩

theorem signal_old {s : State} (w : Nat) (b : Bool) (v : Nat) (t : T) (ht : ∀ c, t ≠ .waiting (some c))
    (hv : (signal s.timers w b)[v]? = some t) : s.timers[v]? = some t := by
  simp only [signal_get] at hv
  split at hv
  · cases hv; exact absurd rfl (ht b)
  · exact hv

theorem inv_resume {s : State} (h : Inv s) : Inv (step false s .resume) := by
  simp only [step]
  split
  · exact h
  · next hg =>
    simp at hg
    split
    · next w he =>
      constructor
      · intro v hv; simp at hv; rw [signal_length]; exact h.entry_lt v hv
      · intro v hv; exact absurd hv (signal_quiet h w he false v)
      · intro _ v hv; exact absurd hv (signal_quiet h w he false v)
      · intro _; exact hg.2
      · intro v hv
        simp only [signal_get] at hv
        split at hv
        · cases hv
        · exact h.bufTrue v hv
      · intro v hv; exact h.sigTrue v (signal_old w false v _ (by simp) hv)
      · exact h.pub
    · next he =>
      refine ⟨h.entry_lt, h.noOrphan, ?_, fun _ => hg.2, h.bufTrue, h.sigTrue, h.pub⟩
      intro _ v hv
      have := h.noOrphan v hv
      simp [he] at this

theorem inv_terminate {s : State} (h : Inv s) : Inv (step false s .terminate) := by
  simp only [step]
  split
  · exact h
  · next hg =>
    simp at hg
    split
    · next w he =>
      constructor
      · intro v hv; simp at hv; rw [signal_length]; exact h.entry_lt v hv
      · intro v hv; exact absurd hv (signal_quiet h w he true v)
      · intro _ v hv; exact absurd hv (signal_quiet h w he true v)
      · intro ho; simp [hg.1] at ho
      · intro v hv
        simp only [signal_get] at hv
        split at hv
        · next hc =>
          obtain ⟨rfl, hp⟩ := hc
          simp [hp]
        · have := h.bufTrue v hv
          split <;> simp [this]
      · intro v hv
        rcases h.sigTrue v (signal_old w true v _ (by simp) hv) with h1 | h1
        · exact Or.inl h1
        · right; split <;> simp [h1]
      · intro v hv
        rcases h.pub v hv with h1 | h1
        · exact Or.inl h1
        · right; split <;> simp [h1]
    · next he =>
      refine ⟨h.entry_lt, h.noOrphan, ?_, ?_, h.bufTrue, h.sigTrue, h.pub⟩
      · intro _ v hv
        have := h.noOrphan v hv
        simp [he] at this
      · intro ho; simp [hg.1] at ho

theorem inv_connectFresh {s : State} (h : Inv s) : Inv (step false s .connectFresh) := by
  simp only [step]
  split
  · exact h
  · next hg =>
    simp at hg
    exact ⟨h.entry_lt, h.noOrphan, fun _ => h.quiet (Or.inr hg.2), fun _ => rfl, h.bufTrue, h.sigTrue, h.pub⟩

/-- replacing a goroutine's state by one that is not "blocked, unsignalled" creates no pending will -/
theorem pending_set {ts : List T} {w v : Nat} {t : T} (hl : w < ts.length) (ht : t ≠ .waiting none)
    (hv : (ts.set w t)[v]? = some (T.waiting none)) : ts[v]? = some (T.waiting none) := by
  rw [set_get _ _ _ _ hl] at hv
  split at hv
  · cases hv; exact absurd rfl ht
  · exact hv

theorem inv_fire {s : State} (h : Inv s) (w : Nat) : Inv (step false s (.fire w)) := by
  simp only [step]
  split
  · next b hw =>
    have hl := get_lt hw
    constructor
    · intro v hv; simp at hv; simp; exact h.entry_lt v hv
    · intro v hv; exact h.noOrphan v (pending_set hl (by simp) hv)
    · intro hc v hv; exact h.quiet hc v (pending_set hl (by simp) hv)
    · exact h.sessOnline
    · intro v hv
      simp only [set_get _ _ _ _ hl] at hv
      split at hv
      · cases hv
      · exact h.bufTrue v hv
    · intro v hv
      simp only [set_get _ _ _ _ hl] at hv
      split at hv
      · next hc => left; simp [hc]
      · rcases h.sigTrue v hv with h1 | h1
        · left; simp [h1]
        · exact Or.inr h1
    · intro v hv
      rcases h.pub v hv with h1 | h1
      · left; simp [h1]
      · exact Or.inr h1
  · exact h

theorem inv_wake {s : State} (h : Inv s) (w : Nat) : Inv (step false s (.wake w)) := by
  simp only [step]
  split
  · next b hw =>
    have hl := get_lt hw
    constructor
    · intro v hv; simp at hv; simp; exact h.entry_lt v hv
    · intro v hv; exact h.noOrphan v (pending_set hl (by simp) hv)
    · intro hc v hv; exact h.quiet hc v (pending_set hl (by simp) hv)
    · exact h.sessOnline
    · intro v hv
      simp only [set_get _ _ _ _ hl] at hv
      split at hv
      · cases hv
      · exact h.bufTrue v hv
    · intro v hv
      simp only [set_get _ _ _ _ hl] at hv
      split at hv
      · next hc =>
        subst hc
        simp at hv; subst hv
        exact Or.inr (h.bufTrue v hw)
      · exact h.sigTrue v hv
    · exact h.pub
  · exact h

theorem inv_finish {s : State} (h : Inv s) (w : Nat) : Inv (step false s (.finish w)) := by
  simp only [step]
  split
  · next send hw =>
    have hl := get_lt hw
    constructor
    · intro v hv
      simp at hv
      simp
      exact h.entry_lt v hv.2
    · intro v hv
      have hv' := pending_set hl (by simp) hv
      have he := h.noOrphan v hv'
      have hne : v ≠ w := by
        intro e; subst e; rw [hw] at hv'; cases hv'
      simp [he, hne]
    · intro hc v hv; exact h.quiet hc v (pending_set hl (by simp) hv)
    · exact h.sessOnline
    · intro v hv
      simp only [set_get _ _ _ _ hl] at hv
      split at hv
      · cases hv
      · exact h.bufTrue v hv
    · intro v hv
      simp only [set_get _ _ _ _ hl] at hv
      split at hv
      · cases hv
      · exact h.sigTrue v hv
    · intro v hv
      simp at hv
      split at hv
      · next hs =>
        subst hs
        simp at hv
        rcases hv with hv | hv
        · exact h.pub v hv
        · subst hv; exact h.sigTrue v hw
      · exact h.pub v hv
  · exact h

theorem inv_step {s : State} (h : Inv s) (op : Op) : Inv (step false s op) := by
  cases op with
  | discWill => exact inv_discWill h
  | discPlain => exact inv_discPlain h
  | resume => exact inv_resume h
  | terminate => exact inv_terminate h
  | connectFresh => exact inv_connectFresh h
  | fire w => exact inv_fire h w
  | wake w => exact inv_wake h w
  | finish w => exact inv_finish h w

theorem inv_foldl (ops : List Op) {s : State} (h : Inv s) : Inv (ops.foldl (step false) s) := by
  induction ops generalizing s with
  | nil => exact h
  | cons op ops ih => exact ih (inv_step h op)

theorem inv_run (ops : List Op) : Inv (run false ops) := inv_foldl ops inv_init

/-- second invariant: what has been published belongs to goroutines that have finished, each once -/
structure Inv2 (s : State) : Prop where
  pubDone : ∀ w ∈ s.published, s.timers[w]? = some .done
  nodup : s.published.Nodup

theorem inv2_init : Inv2 {} := by constructor <;> simp

theorem done_set {ts : List T} {w v : Nat} {t : T} (hl : w < ts.length) (hw : ts[w]? ≠ some .done)
    (hv : ts[v]? = some .done) : (ts.set w t)[v]? = some .done := by
  rw [set_get _ _ _ _ hl]
  split
  · next e => subst e; exact absurd hv hw
  · exact hv

theorem done_signal {ts : List T} {w v : Nat} {b : Bool} (hv : ts[v]? = some .done) : (signal ts w b)[v]? = some .done := by
  rw [signal_get]
  split
  · next hc => obtain ⟨rfl, hp⟩ := hc; rw [hp] at hv; cases hv
  · exact hv

theorem inv2_step {s : State} (asIs : Bool) (h : Inv2 s) (op : Op) : Inv2 (step asIs s op) := by
  cases op with
  | discWill =>
    simp only [step]; split
    · refine ⟨?_, h.nodup⟩
      intro w hw
      have := h.pubDone w hw
      show (s.timers ++ [T.waiting none])[w]? = some .done
      rw [List.getElem?_append_left (get_lt this)]; exact this
    · exact h
  | discPlain => simp only [step]; split <;> exact ⟨h.pubDone, h.nodup⟩
  | resume =>
    simp only [step]; split
    · exact h
    · split
      · exact ⟨fun w hw => done_signal (h.pubDone w hw), h.nodup⟩
      · exact ⟨h.pubDone, h.nodup⟩
  | terminate =>
    simp only [step]; split
    · exact h
    · split
      · exact ⟨fun w hw => done_signal (h.pubDone w hw), h.nodup⟩
      · exact ⟨h.pubDone, h.nodup⟩
  | connectFresh => simp only [step]; split <;> exact ⟨h.pubDone, h.nodup⟩
  | fire w =>
    simp only [step]; split
    · next b hw => exact ⟨fun v hv => done_set (get_lt hw) (by rw [hw]; simp) (h.pubDone v hv), h.nodup⟩
    · exact h
  | wake w =>
    simp only [step]; split
    · next b hw => exact ⟨fun v hv => done_set (get_lt hw) (by rw [hw]; simp) (h.pubDone v hv), h.nodup⟩
    · exact h
  | finish w =>
    simp only [step]; split
    · next send hw =>
      have hl := get_lt hw
      have hnot : w ∉ s.published := fun hm => by have := h.pubDone w hm; rw [hw] at this; cases this
      constructor
      · intro v hv
        show (s.timers.set w .done)[v]? = some .done
        rw [set_get _ _ _ _ hl]
        split
        · rfl
        · next hne =>
          have hv' : v ∈ s.published := by
            simp at hv
            split at hv
            · simp at hv; rcases hv with hv | hv
              · exact hv
              · exact absurd hv hne
            · exact hv
          exact h.pubDone v hv'
      · show (if send = true then s.published ++ [w] else s.published).Nodup
        split
        · exact List.nodup_append.mpr ⟨h.nodup, by simp, by intro a ha b hb; simp at hb; subst hb; intro e; subst e; exact hnot ha⟩
        · exact h.nodup
    · exact h

theorem inv2_foldl (asIs : Bool) (ops : List Op) {s : State} (h : Inv2 s) : Inv2 (ops.foldl (step asIs) s) := by
  induction ops generalizing s with
  | nil => exact h
  | cons op ops ih => exact ih (inv2_step asIs h op)

theorem inv2_run (asIs : Bool) (ops : List Op) : Inv2 (run asIs ops) := inv2_foldl asIs ops inv2_init

end GmqttVerif.WillTimer
