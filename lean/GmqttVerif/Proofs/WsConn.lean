import GmqttVerif.Model.WsConn
/-
  Vocabulary and helper lemmas for C18 (`wsConn`). Core Lean only.
-/
namespace GmqttVerif.WsConn

variable {α : Type}

/-! ### vocabulary used by the property statements -/

/-- the bytes a data message contributes to the MQTT stream: a binary message its payload, a text message nothing -/
def Msg.payload : Msg α → List α
  | .binary b => b
  | .text _ => []

def Msg.isText : Msg α → Bool
  | .binary _ => false
  | .text _ => true

/-- concatenation of the payloads of the binary messages, in order -/
def payloads (msgs : List (Msg α)) : List α := msgs.flatMap Msg.payload

def Res.bytes : Res α → List α
  | .data c => c
  | _ => []

/-- concatenation of the chunks returned by a sequence of `Read` calls, in order -/
def delivered (outs : List (Res α)) : List α := outs.flatMap Res.bytes

/-- unread rest of the current message -/
def St.rem (st : St α) : List α :=
  match st.buf with
  | some b => b.drop st.r
  | none => []

/-- everything `Read` has not handed out yet: rest of the current message, then the pending messages -/
def unread (st : St α) (pending : List (Msg α)) : List α := st.rem ++ payloads pending

/-- invariant of the patched code: a kept buffer always has at least one unread byte -/
def St.WF (st : St α) : Prop :=
  match st.buf with
  | some b => st.r < b.length
  | none => st.r = 0

/-- number of `Read` calls (of any positive size) that certainly drain everything -/
def cost (st : St α) (pending : List (Msg α)) : Nat := (unread st pending).length + pending.length

/-! ### one `Read` -/

theorem copyOut_res (slack : Nat) (b : List α) (r n : Nat) :
    (copyOut slack b r n).2 = .data ((b.drop r).take n) := by
  unfold copyOut; simp only []; split <;> rfl

theorem copyOut_rem (b : List α) (r n : Nat) :
    (b.drop r).take n ++ (copyOut 0 b r n).1.rem = b.drop r := by
  unfold copyOut; simp only []
  split
  · rename_i h
    simp only [St.rem, List.append_nil]
    apply List.take_of_length_le
    simp only [List.length_take, List.length_drop, Nat.add_zero] at h ⊢
    omega
  · rename_i h
    simp only [St.rem]
    simp only [List.length_take, List.length_drop, Nat.add_zero] at h
    have hl : ((b.drop r).take n).length = n := by
      simp only [List.length_take, List.length_drop]; omega
    rw [hl, ← List.drop_drop]
    exact List.take_append_drop n (b.drop r)

theorem copyOut_wf (b : List α) (r n : Nat) : (copyOut 0 b r n).1.WF := by
  unfold copyOut; simp only []
  split
  · simp [St.WF]
  · rename_i h
    simp only [St.WF]
    omega

/-- one `Read` of the patched code neither loses nor invents nor reorders a byte -/
theorem read_exact (st : St α) (hwf : st.WF) (pending : List (Msg α)) (n : Nat) :
    (read 0 st pending n).2.2.bytes ++ unread (read 0 st pending n).1 (read 0 st pending n).2.1
      = unread st pending := by
  unfold read
  cases hb : st.buf with
  | none =>
    have hr0 : st.r = 0 := by simpa [St.WF, hb] using hwf
    cases pending with
    | nil => simp [Res.bytes, unread, St.rem, hb]
    | cons m rest =>
      cases m with
      | text p => simp [Res.bytes, unread, St.rem, hb, payloads, Msg.payload]
      | binary b =>
        have h := copyOut_rem b st.r n
        have hr := copyOut_res 0 b st.r n
        simp only [unread, St.rem, hb, payloads, List.flatMap_cons, Msg.payload, List.nil_append]
        generalize copyOut 0 b st.r n = co at h hr
        obtain ⟨st', res⟩ := co
        simp only at hr h ⊢
        subst hr
        simp only [Res.bytes, hr0, List.drop_zero] at h ⊢
        simp only [St.rem] at h
        rw [← List.append_assoc, h]
  | some b =>
    have h := copyOut_rem b st.r n
    have hr := copyOut_res 0 b st.r n
    simp only [unread, St.rem, hb]
    generalize copyOut 0 b st.r n = co at h hr
    obtain ⟨st', res⟩ := co
    simp only at hr h ⊢
    subst hr
    simp only [Res.bytes] at h ⊢
    simp only [St.rem] at h
    rw [← List.append_assoc, h]

theorem read_wf (st : St α) (hwf : st.WF) (pending : List (Msg α)) (n : Nat) :
    (read 0 st pending n).1.WF := by
  unfold read
  cases hb : st.buf with
  | none =>
    cases pending with
    | nil => exact hwf
    | cons m rest =>
      cases m with
      | text p => exact hwf
      | binary b => exact copyOut_wf b st.r n
  | some b => exact copyOut_wf b st.r n

theorem cost_zero (st : St α) (hwf : st.WF) (pending : List (Msg α)) (h : cost st pending = 0) :
    pending = [] ∧ st.buf = none := by
  unfold cost at h
  have hp : pending = [] := List.eq_nil_of_length_eq_zero (by omega)
  refine ⟨hp, ?_⟩
  cases hb : st.buf with
  | none => rfl
  | some b =>
    exfalso
    simp only [unread, St.rem, hb, List.length_append, List.length_drop] at h
    simp only [St.WF, hb] at hwf
    omega

/-- every `Read` with a non-empty buffer makes progress: `cost` drops by at least one (or is already 0) -/
theorem read_cost (st : St α) (hwf : st.WF) (pending : List (Msg α)) (n : Nat) (hn : 0 < n) :
    cost (read 0 st pending n).1 (read 0 st pending n).2.1 ≤ cost st pending - 1 := by
  have hex := congrArg List.length (read_exact st hwf pending n)
  simp only [List.length_append] at hex
  unfold cost
  cases hb : st.buf with
  | none =>
    cases pending with
    | nil => simp [read, hb, unread, St.rem, payloads]
    | cons m rest =>
      cases m with
      | text p =>
        simp only [read, hb] at hex ⊢
        simp only [List.length_cons] at hex ⊢
        omega
      | binary b =>
        simp only [read, hb] at hex ⊢
        simp only [List.length_cons] at hex ⊢
        omega
  | some b =>
    simp only [read, hb] at hex ⊢
    have hr := copyOut_res 0 b st.r n
    have h1 : 1 ≤ ((copyOut 0 b st.r n).2).bytes.length := by
      rw [hr]
      simp only [Res.bytes, List.length_take, List.length_drop]
      simp only [St.WF, hb] at hwf
      omega
    omega

/-- stream exactness as an invariant of any sequence of reads of the patched code -/
theorem run_exact (reads : List Nat) : ∀ (st : St α) (pending : List (Msg α)), st.WF →
    delivered (run 0 st pending reads).2.2 ++ unread (run 0 st pending reads).1 (run 0 st pending reads).2.1
      = unread st pending ∧ (run 0 st pending reads).1.WF := by
  induction reads with
  | nil => intro st pending hwf; simp [run, delivered, hwf]
  | cons n ns ih =>
    intro st pending hwf
    have h1 := read_exact st hwf pending n
    have hw1 := read_wf st hwf pending n
    have h2 := ih (read 0 st pending n).1 (read 0 st pending n).2.1 hw1
    simp only [run]
    refine ⟨?_, h2.2⟩
    simp only [delivered, List.flatMap_cons, List.append_assoc] at h2 ⊢
    rw [h2.1, h1]

theorem run_drains (reads : List Nat) (hpos : ∀ n ∈ reads, 0 < n) : ∀ (st : St α) (pending : List (Msg α)),
    st.WF → cost st pending ≤ reads.length →
    (run 0 st pending reads).2.1 = [] ∧ (run 0 st pending reads).1.buf = none := by
  induction reads with
  | nil =>
    intro st pending hwf hc
    simp only [run]
    exact cost_zero st hwf pending (by simpa using hc)
  | cons n ns ih =>
    intro st pending hwf hc
    have hw1 := read_wf st hwf pending n
    have hc1 := read_cost st hwf pending n (hpos n (by simp))
    simp only [List.length_cons] at hc
    have := ih (fun m hm => hpos m (by simp [hm])) (read 0 st pending n).1 (read 0 st pending n).2.1 hw1 (by omega)
    simpa only [run] using this

theorem payloads_eq_filter (msgs : List (Msg α)) :
    payloads msgs = (msgs.filter (fun m => !m.isText)).flatMap Msg.payload := by
  induction msgs with
  | nil => rfl
  | cons m ms ih =>
    unfold payloads at ih ⊢
    cases m with
    | binary b => simp [Msg.isText, Msg.payload, ih]
    | text p => simp [Msg.isText, Msg.payload, ih]

end GmqttVerif.WsConn
