import GmqttVerif.Model.Deliver
import GmqttVerif.Model.Broker
import GmqttVerif.Proofs.Deliver
import GmqttVerif.Generated.MuHeld
/-
  C01 — PUBLISH reaches exactly the matching subscribers, at the right QoS, in order.

  `Deliver.deliver` is the pure model of `deliverMessage` (tied to the code at wire level by the stream
  `broker-deliver`); matching is the declarative MQTT 4.7 relation `Topic.MatchesTopic` (C02 proves the trie
  computes it). Statements hold for every subscription table, source, message and choice function.
-/
namespace GmqttVerif.Deliver

/-- overlap mode: client `c` gets exactly one copy per wanted subscription, each at QoS min(published, granted),
    RETAIN kept only under Retain-As-Published, carrying that subscription's identifier, DUP cleared. -/
theorem deliver_overlap_exact (src : String) (table : List (String × Sub)) (m : Msg) (c : String) :
    copiesFor c (overlap m (eligible src m.topic table)) =
      (wanted src table m.topic c).map (fun s =>
        { m with qos := min m.qos s.qos, sids := m.sids ++ [s.id].filter (· ≠ 0), dup := false, retained := s.rap && m.retained }) :=
  overlap_exact src table m c

/-- onlyonce mode: nothing when no subscription is wanted; otherwise exactly one copy, at QoS
    min(published, highest granted), carrying the identifiers of all wanted subscriptions, RETAIN treated
    as by one of the wanted subscriptions of highest granted QoS. -/
theorem deliver_onlyonce_exact (src : String) (table : List (String × Sub)) (m : Msg) (c : String) :
    let w := wanted src table m.topic c
    (w = [] → copiesFor c (onlyonce m (eligible src m.topic table)) = []) ∧
    (w ≠ [] → ∃ s ∈ w, (∀ s' ∈ w, s'.qos ≤ s.qos) ∧
        copiesFor c (onlyonce m (eligible src m.topic table)) =
          [{ m with qos := min m.qos s.qos, sids := m.sids ++ (w.map (·.id)).filter (· ≠ 0), dup := false,
                    retained := s.rap && m.retained }]) :=
  onlyonce_exact src table m c

/-- a client none of whose subscriptions (shared or not) is eligible receives nothing, in either mode, whatever
    the choice function does (as long as it chooses among the members it is given). -/
theorem deliver_nothing_unmatched (mode : Bool) (src : String) (table : List (String × Sub)) (m : Msg)
    (pick : String → List (String × Sub) → Option (String × Sub))
    (hpick : ∀ g ms x, pick g ms = some x → x ∈ ms) (c : String)
    (h : ∀ cs ∈ table, cs.1 = c → ¬ (subMatches cs.2 m.topic = true ∧ ¬ (cs.2.nl = true ∧ cs.1 = src))) :
    copiesFor c (deliver mode src table m pick).2 = [] :=
  nothing_unmatched mode src table m pick hpick c h

/-- the "matched" flag (which decides the v5 reason code 0x10) is true exactly when some subscription is eligible -/
theorem matched_iff (mode : Bool) (src : String) (table : List (String × Sub)) (m : Msg)
    (pick : String → List (String × Sub) → Option (String × Sub)) :
    (deliver mode src table m pick).1 = true ↔
      ∃ cs ∈ table, subMatches cs.2 m.topic = true ∧ ¬ (cs.2.nl = true ∧ cs.1 = src) :=
  matched_iff' mode src table m pick

end GmqttVerif.Deliver

namespace GmqttVerif.Broker
open GmqttVerif.Deliver

/-- Every QoS 1/2 PUBLISH the broker accepts is acknowledged to its publisher with the same packet identifier:
    exactly one PUBACK (QoS 1) / PUBREC (QoS 2), nothing for QoS 0. "Accepts" = the connection exists, has a session,
    and none of the refusal conditions applies: receive quota, maximum packet size, retain not available, and the
    topic name / topic alias checks — a v5 Topic Alias is neither 0 nor above the advertised `topic_alias_maximum`
    (`halias`), and a zero-length topic name comes only on a v5 connection together with an alias that is bound to a
    non-empty name in the connection's alias table (`hempty`). -/
theorem publish_ack_same_id (b : B) (r : PubReq) (c : Cli) (s : Sess)
    (hc : b.cli? r.conn = some c) (hs : b.sess? c.cid = some s)
    (halias : ∀ a, c.v = 5 → r.alias = some a → a ≠ 0 ∧ a ≤ b.cfg.aliasMax)
    (hempty : r.topic = "" →
      c.v = 5 ∧ ∃ a p, r.alias = some a ∧ c.aliasIn.find? (fun p => p.1 == a) = some p ∧ p.2 ≠ "")
    (hquota : ¬ (c.v = 5 ∧ r.qos > 0 ∧ c.quota = 0))
    (hsize : ¬ (c.v = 5 ∧ b.cfg.maxPacket ≠ 0 ∧ r.size > b.cfg.maxPacket))
    (hret : ¬ (b.cfg.retainAvail = false ∧ r.retain = true)) :
    ∃ code, newH b (b.publish r) r.conn =
      (if r.qos = 1 then [Pkt.puback r.pid code] else if r.qos = 2 then [Pkt.pubrec r.pid code] else []) :=
  publish_ack b r c s hc hs ⟨halias, hempty⟩ hquota hsize hret

/-- Per-publisher order. Each `deliverMessage` appends its copies to the matched session queues under the server
    lock and ghost tags are issued in that order. For every `deliverMessage` step: (1) the invariant "every queue is
    sorted by tag, all tags already issued" is preserved; (2) issued tags are never reassigned; (3) whatever a queue
    holds afterwards with an old tag it held before — so every copy of the new message sits behind everything
    enqueued earlier. With C10 `read_fifo` (hand-out order = insertion order) a subscriber is handed one
    publisher's messages in publication order. -/
theorem per_publisher_order (b : B) (src : String) (m : Msg) (hints : List Nat) (rap : List String) (h : TagsSorted b) :
    let b' := (b.deliverMsg src m hints rap).1
    TagsSorted b' ∧ b.msgs <+: b'.msgs ∧
    ∀ s' ∈ b'.sessions, ∀ e ∈ s'.queue.items, e.tag < b.msgs.length →
      ∃ s ∈ b.sessions, s.cid = s'.cid ∧ e ∈ s.queue.items :=
  deliver_order b src m hints rap h

/-! ## non-vacuity -/

def exTable : List (String × Sub) :=
  [("c1", { filter := "a/+", qos := 1, id := 3 }), ("c1", { filter := "a/#", qos := 2, rap := true, id := 4 }),
   ("c1", { filter := "b", qos := 2 }), ("c2", { filter := "#", qos := 0, nl := true }),
   ("c2", { share := "g", filter := "a/b", qos := 1, id := 9 })]

def exMsg : Msg := { topic := "a/b", tag := "m", plen := 1, qos := 2, retained := true }

example : (wanted "c2" exTable "a/b" "c1").length = 2 := by decide
example : wanted "c2" exTable "a/b" "c2" = [] := by decide
example : (copiesFor "c1" (deliver false "c2" exTable exMsg (pickBy [])).2).map (·.qos) = [1, 2] := by decide
example : (copiesFor "c1" (deliver true "c2" exTable exMsg (pickBy [])).2).map (fun x => (x.qos, x.sids, x.retained)) = [(2, [3, 4], true)] := by decide


/-- a broker with one v5 connection that has bound alias 2 to "a/b", and a v4 subscriber -/
def exB : B :=
  let b : B := {}
  let b := b.connect { conn := "p", cid := "pub", v := 5 }
  let b := b.connect { conn := "s", cid := "sub", v := 4 }
  let b := b.subscribe "s" 1 [{ name := "a/#", qos := 2 }] 0
  b.publish { conn := "p", topic := "a/b", qos := 0, alias := some 2 }

/-- the hypotheses of `publish_ack_same_id` hold for a QoS 2 PUBLISH that names its topic by alias only … -/
example : ∃ c s, exB.cli? "p" = some c ∧ exB.sess? c.cid = some s ∧ c.v = 5 ∧
    c.aliasIn.find? (fun p => p.1 == 2) = some (2, "a/b") ∧ (2 : Nat) ≤ exB.cfg.aliasMax ∧ c.quota ≠ 0 := by
  refine ⟨_, _, rfl, rfl, ?_⟩
  decide
/-- … and the acknowledgement is the PUBREC with its id -/
example : newH exB (exB.publish { conn := "p", topic := "", qos := 2, pid := 7, alias := some 2 }) "p" = [Pkt.pubrec 7 0] := by
  decide
/-- the excluded cases really are refusals: alias 0, unbound alias, alias above the maximum -/
example : newH exB (exB.publish { conn := "p", topic := "x", qos := 1, pid := 7, alias := some 0 }) "p" = [.disconnect 0x94, .closed] := by
  decide
example : newH exB (exB.publish { conn := "p", topic := "", qos := 1, pid := 7, alias := some 3 }) "p" = [.disconnect 0x94, .closed] := by
  decide
example : newH exB (exB.publish { conn := "p", topic := "x", qos := 1, pid := 7, alias := some 11 }) "p" = [.disconnect 0x94, .closed] := by
  decide
example : newH exB (exB.publish { conn := "p", topic := "", qos := 1, pid := 7 }) "p" = [.disconnect 0x82, .closed] := by
  decide

end GmqttVerif.Broker

/-! ### premise of the broker-level order theorem, re-read from the source on every run -/
namespace GmqttVerif.C01
open GmqttVerif.Generated

/-- Every call of `(*server).deliverMessage`, and of every `…Locked` helper of `*server`, in package server runs with
    `srv.mu` held: it follows a `mu.Lock()` (or `lockDuplicatedID`, which returns holding the lock) with no `mu.Unlock()`
    in between, or sits in a `…Locked` function / in `deliverMessage`'s own handler. This is the premise under which one
    `deliverMessage` is ONE atomic step of the broker model (`Broker.per_publisher_order`, `Broker.publish_ack_same_id`)
    and publishes have a single total order. `Generated/MuHeld.lean` is rewritten from server/*.go on every check run
    (`harness/cmd/extract/muheld.go`, a syntactic reading — see there for what it does not follow). -/
theorem deliver_runs_under_server_mu :
    muCallSiteCodes.all (· ≠ 0) = true ∧ 0 < muDeliverSites ∧ muCallSiteCodes.length = muCallSites.length := by decide

end GmqttVerif.C01
