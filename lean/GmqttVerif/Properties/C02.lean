import GmqttVerif.Proofs.SubStoreAll
import GmqttVerif.Proofs.TopicMatchBytes
/-
  C02 — Subscription index answers match MQTT topic-matching rules after any history.

  Property theorems only. Model: `Model/SubStore.lean` (+ `Model/Trie.lean`, `Model/Topic.lean`), which mirrors
  `persistence/subscription/mem` AFTER the proposed fixes `findings/substore-shared-index` (F19, F20),
  `substore-shared-dollar-topic`, `substore-matchname-panic`; tied to the code by the streams `substore*` of
  `bin/check C02` (and `topicmatch` for the byte scanner, whose model mirrors the code as it is).

  Vocabulary
  * `Op`, `run new ops`          : histories of Subscribe / Unsubscribe / UnsubscribeAll on `mem.NewStore()`.
  * `ValidOp`                    : share names contain no '/' (what `SplitTopic` / `ValidV5Topic` guarantee).
  * `Spec.run [] ops`            : the abstract finite map `(client, share, filter) ↦ subscription` (`Spec/SubMap.lean`).
  * `st.lookup c g f`            : the subscription found by walking the trie that (g, f) belongs to — the abstraction
                                   function, pointwise.
  * `stored m c s`               : `(c, s.share, s.filter) ↦ s` is a binding of the abstract map.
  * `Topic.MatchesTopic f t`     : MQTT 4.7 matching incl. [MQTT-4.7.2-1] (`Model/Topic.lean`, written from the standard).
  * `o.sel (whichOf g f)`        : the entry's type (Shared / SYS / NonShared) is selected by `IterationOptions.Type`.
-/
namespace GmqttVerif.SubStore
open GmqttVerif Topic

/-- **Refinement.** After every history the store represents exactly the abstract map: walking the tries finds, for every
    (client, share, filter), the binding of the map (latest options) or nothing; the `AlreadyExisted` flags are the map's
    "key was present" answers. Covers re-subscription, pruning, zombie nodes, prefix filters, all three tries. -/
theorem substore_refines_map (ops : List Op) (hv : ∀ op ∈ ops, ValidOp op) :
    (∀ c g f, (run new ops).1.lookup c g f = AL.get ⟨c, g, f⟩ (Spec.run [] ops).1) ∧
      (run new ops).2 = (Spec.run [] ops).2 :=
  ⟨((rel_new.run ops hv).1).lookup, (rel_new.run ops hv).2⟩

/-- The full relation (`Rel`: lookups, per-client indexes, counters, per-node well-formedness) holds after every history. -/
theorem substore_rel (ops : List Op) (hv : ∀ op ∈ ops, ValidOp op) : Rel (run new ops).1 (Spec.run [] ops).1 :=
  (rel_new.run ops hv).1

/-- **Refinement, as lists.** `abs` = everything a full walk over the three tries reports (`Iterate{TypeAll}`). After every
    history without empty topic filters it is — as a multiset — exactly the set of bindings of the abstract map: nothing is
    lost in the tries (no entry hidden in a detached or shadowed node), nothing is reported twice, nothing stale survives. -/
theorem substore_abs_eq_map (ops : List Op) (hv : ∀ op ∈ ops, ValidOp op) (hne : FiltersNonEmpty ops) :
    (abs (run new ops).1).Perm (entries (Spec.run [] ops).1) :=
  (substore_rel ops hv).abs_perm (wfs_new.run ops)
    (spec_filters_nonempty [] ops (by intro k s h; simp at h) hne)

/-- `Iterate{Type}` without topic and client id returns, each once, exactly the stored entries of the selected types. -/
theorem iterate_all_exact (ops : List Op) (hv : ∀ op ∈ ops, ValidOp op) (hne : FiltersNonEmpty ops) (ty : Nat) :
    let o : Opts := { type := ty }
    ((run new ops).1.iterate o).Nodup ∧
    ∀ c s, (c, s) ∈ (run new ops).1.iterate o ↔
      stored (Spec.run [] ops).1 c s ∧ o.sel (whichOf s.share s.filter) = true :=
  (substore_rel ops hv).iterateAll_exact (wfs_new.run ops)
    (spec_filters_nonempty [] ops (by intro k s h; simp at h) hne) _ rfl rfl

/-- **Matching is exact.** For every reachable store, every valid topic name (no wildcard characters), every type mask
    and optional client id: `Iterate{Type, MatchFilter, TopicName[, ClientID]}` returns — each exactly once (`Nodup`) —
    the stored entries of the selected types whose filter matches the topic under MQTT 4.7
    (`#` incl. parent level, `+` one possibly empty level, no wildcard at the first level against a `$` topic). -/
theorem matchTopic_exact (ops : List Op) (hv : ∀ op ∈ ops, ValidOp op) (topic : Str) (ht : validTopicName topic = true)
    (ty : Nat) (cl : Str) :
    let o : Opts := { type := ty, topic := topic, matchType := 2, client := cl }
    ((run new ops).1.iterate o).Nodup ∧
    ∀ c s, (c, s) ∈ (run new ops).1.iterate o ↔
      (stored (Spec.run [] ops).1 c s ∧ MatchesTopic s.filter topic = true ∧ (cl = [] ∨ c = cl)) ∧
        o.sel (whichOf s.share s.filter) = true :=
  (substore_rel ops hv).matchFilter_exact _ ht rfl

/-- the instance the broker's delivery path and the property statement talk about: non-shared lookups
    (`TypeNonShared | TypeSYS`) return exactly the stored entries with empty share name whose filter matches -/
theorem matchTopic_exact_nonshared (ops : List Op) (hv : ∀ op ∈ ops, ValidOp op) (topic : Str)
    (ht : validTopicName topic = true) (c : Str) (s : Sub) :
    (c, s) ∈ (run new ops).1.iterate { type := 5, topic := topic, matchType := 2 } ↔
      stored (Spec.run [] ops).1 c s ∧ s.share = [] ∧ MatchesTopic s.filter topic = true := by
  have := (matchTopic_exact ops hv topic ht 5 []).2 c s
  simp only at this
  rw [this]
  have hsel : (({ type := 5, topic := topic, matchType := 2, client := [] } : Opts).sel (whichOf s.share s.filter) = true) ↔
      s.share = [] := by
    unfold Opts.sel
    cases hw : whichOf s.share s.filter with
    | user => simp [(whichOf_user hw).1, Opts.nonShared]
    | system => simp [(whichOf_system hw).1, Opts.sys]
    | shared =>
      have := (whichOf_shared_iff _ _).mp hw
      simp [this, Opts.shared]
  rw [hsel]
  constructor
  · rintro ⟨⟨h1, h2, _⟩, h3⟩; exact ⟨h1, h3, h2⟩
  · rintro ⟨h1, h3, h2⟩; exact ⟨⟨h1, h2, by simp⟩, h3⟩

/-- **Lookup by exact name.** `Iterate{Type, MatchName, TopicName[, ClientID]}` (used by `subscription.Get`, the admin API)
    returns — each once — exactly the stored entries of the selected types whose name equals `TopicName`
    (`nameMatches`: the filter itself, or `$share/<group>/<filter>` for a shared entry), with the latest options. -/
theorem find_exact (ops : List Op) (hv : ∀ op ∈ ops, ValidOp op) (name : Str) (hn : name ≠ []) (ty : Nat) (cl : Str) :
    let o : Opts := { type := ty, topic := name, matchType := 1, client := cl }
    ((run new ops).1.iterate o).Nodup ∧
    ∀ c s, (c, s) ∈ (run new ops).1.iterate o ↔
      (stored (Spec.run [] ops).1 c s ∧ nameMatches name s ∧ (cl = [] ∨ c = cl)) ∧
        o.sel (whichOf s.share s.filter) = true :=
  (substore_rel ops hv).matchName_exact _ hn rfl

/-- **Lookup by client.** `Iterate{Type, ClientID}` (used by `GetClientSubscriptions`, session resume) returns — each once —
    exactly the client's stored entries of the selected types, with the latest options. -/
theorem client_listing_exact (ops : List Op) (hv : ∀ op ∈ ops, ValidOp op) (cl : Str) (hc : cl ≠ []) (ty : Nat) :
    let o : Opts := { type := ty, client := cl }
    ((run new ops).1.iterate o).Nodup ∧
    ∀ c s, (c, s) ∈ (run new ops).1.iterate o ↔
      (stored (Spec.run [] ops).1 c s ∧ c = cl) ∧ o.sel (whichOf s.share s.filter) = true :=
  (substore_rel ops hv).clientListing_exact _ rfl hc

/-- **Counters are exact.** `SubscriptionsCurrent` = number of live subscriptions, `SubscriptionsTotal` = number of
    Subscribe calls that created a new key, and every client's `SubscriptionsCurrent` = number of its live subscriptions. -/
theorem stats_exact (ops : List Op) (hv : ∀ op ∈ ops, ValidOp op) :
    (run new ops).1.stats.current = (Spec.run [] ops).1.length ∧
    (run new ops).1.stats.total = Spec.created ops (Spec.run [] ops).2 ∧
    ∀ c cs, (run new ops).1.getClientStats c = some cs →
      cs.current = ((Spec.run [] ops).1.filter (fun e => decide (e.1.client = c))).length := by
  have R := substore_rel ops hv
  refine ⟨R.statsCur, ?_, R.cstatsCur⟩
  have := run_total new ops
  rw [(rel_new.run ops hv).2] at this
  simpa [SubStore.new] using this

/-! ### the exported byte scanner `packets.TopicMatch` -/

/-- for ALL byte strings the scanner returns a bool: no index out of range (no panic), bounded loop -/
theorem topicMatch_total : ∀ t f : Str, ∃ b, TopicMatchBytes.topicMatchBytes t f = .ret b :=
  TopicMatchBytes.topicMatch_total

/-- for every valid topic name and valid filter the scanner decides the same relation as the index: MQTT 4.7 -/
theorem topicMatch_bytes_spec : ∀ t f : Str, validTopicName t = true → validFilter f = true →
    TopicMatchBytes.topicMatchBytes t f = .ret (MatchesTopic f t) :=
  TopicMatchBytes.topicMatch_bytes_spec

/-! ### non-vacuity -/

/-- a history with a shared prefix, a pruned node, a zombie node and a re-subscription is valid, and the theorems speak
    about a non-empty store -/
example :
    let c1 : Str := "c1".toList
    let s (f : String) : Sub := { share := [], filter := f.toList, qos := 1, nl := false, rap := false, rh := 0, id := 0 }
    let ops := [Op.sub c1 (s "a/b"), .sub c1 (s "a"), .unsub c1 "a/b".toList, .sub c1 (s "a/+"), .unsub c1 "a".toList]
    (∀ op ∈ ops, ValidOp op) ∧ ((Spec.run [] ops).1.length = 1) ∧
      ((run new ops).1.iterate { type := 7, topic := "a/x".toList, matchType := 2 }).length = 1 := by
  refine ⟨?_, by decide, by decide⟩
  intro op hop
  simp only [List.mem_cons, List.not_mem_nil, or_false] at hop
  rcases hop with h | h | h | h | h <;> subst h <;> simp [ValidOp]

end GmqttVerif.SubStore
