import GmqttVerif.Model.Limiter
import GmqttVerif.Proofs.LimiterTrace
/-
  C03 (component level) — packet id limiter `server/limiter.go` over `pkg/bitmap`:
  ids handed out are non-zero, pairwise distinct and never an id that is still outstanding;
  `used` counts the outstanding ids; the number of outstanding ids never exceeds the limit;
  released ids become available again; `pollPacketIDs` terminates.

  Property theorems only; lemmas are in `Proofs/LimiterBitmap.lean`, `Proofs/Limiter.lean`,
  `Proofs/LimiterTrace.lean`.  Everything is stated for ALL histories (lists of `Op`) from a fresh
  limiter with ANY limit.  The model (`Model/Limiter.lean`, `Model/Bitmap.lean`) is tied to the code by the
  correspondence stream `limiter` of `bin/check C03` (exact ids, `used`, `freePid`, bitmap dumps).
  The wire-level part of C03 (queue + limiter + handlers) is not in this file.

  FINDING (see /verif/findings/limiter-markused-unchecked.md): `markUsedLocked` neither tests the bit nor
  the window.  The clauses about `used` and the window therefore hold only for histories that respect its
  implicit contract (`Contract`): ids passed to it are packet ids (1..65535), pairwise distinct, not
  marked yet — and, for the window bound, fit into the window.  The full-strength statements are kept below
  as `…_Statement` together with machine-checked counterexamples.
-/
namespace GmqttVerif.Limiter

/-! ## vocabulary (definitions in Proofs/Limiter.lean and Proofs/LimiterTrace.lean)

* `Sys`               : the limiter plus its (at most one) `pollPacketIDs` call parked in `cond.Wait()`.
* `run s ops`         : final state and per-op outputs of a history.
* `l.marked id`       : the bit of `id` in `lockedPid` is set.
* `cnt l`             : number of ids in 1..65535 whose bit is set.
* `Out.ids o`         : ids handed out during a step (by the poll itself or by the parked poll it woke).
* `outstanding ops outs` : ids handed out or marked and not released since, computed from ops and outputs only.
* `MarkOK l ids`      : ids are pairwise distinct, in 1..65535, none marked in `l`.
* `Contract fits s ops` : every `mark`/`markSignal` of the history satisfies `MarkOK` in the state it meets
                         (and, if `fits`, `used + len ≤ limit`).
-/

/-- 1. Ids returned by `pollPacketIDs` in ANY reachable state (no assumption on callers): each is a valid
    packet id (≠ 0, ≤ 65535), was not marked before the call and is marked after it; they are pairwise
    distinct; and nothing that was marked gets unmarked. -/
theorem poll_ids_nonzero_distinct_unmarked (limit : Nat) (ops : List Op) (max : Nat) (l' : Limiter) (ids : List Nat)
    (h : (run (Sys.new limit) ops).1.lim.poll max = (l', .ids ids)) :
    (∀ id ∈ ids, id ≠ 0 ∧ id ≤ 65535 ∧ (run (Sys.new limit) ops).1.lim.marked id = false ∧ l'.marked id = true)
    ∧ ids.Nodup
    ∧ (∀ id, (run (Sys.new limit) ops).1.lim.marked id = true → l'.marked id = true) := by
  have hs : Struct (run (Sys.new limit) ops).1.lim := Struct_run ops (Struct_new limit)
  obtain ⟨_, _, _, _, _, _, _, hall, hnd, hmark, _⟩ := poll_spec hs max l' ids h
  refine ⟨?_, hnd, ?_⟩
  · intro id hid
    obtain ⟨a, b, c⟩ := hall id hid
    refine ⟨by omega, b, c, ?_⟩
    rw [hmark]; simp [hid]
  · intro id hm
    rw [hmark, hm]; rfl

/-- 1'. How many: a poll that is neither parked nor refused returns exactly `min(max, limit - used)` ids
    (the doc comment of `pollPacketIDs`), and it is parked iff `used ≥ limit` and the limiter is open. -/
theorem poll_length (limit : Nat) (ops : List Op) (max : Nat) :
    let l := (run (Sys.new limit) ops).1.lim
    (∀ l' ids, l.poll max = (l', .ids ids) → ids.length = min max (l.limit - l.used))
    ∧ ((l.poll max).2 = .blocked ↔ (l.used ≥ l.limit ∧ l.exit = false)) := by
  intro l
  have hs : Struct l := Struct_run ops (Struct_new limit)
  refine ⟨?_, ?_⟩
  · intro l' ids h
    obtain ⟨_, _, hlen, _⟩ := poll_spec hs max l' ids h
    rw [hlen]; split <;> omega
  · rw [poll_unfold]
    constructor
    · intro h
      split at h
      · assumption
      · split at h
        · cases h
        · split at h <;> cases h
    · intro h; simp [h]

/-- 2. `used` is the number of outstanding ids. For every history respecting the `markUsedLocked` contract:
    the outstanding ids computed from the trace alone are pairwise distinct, valid packet ids, exactly the
    ids whose bit is set, and `used` equals their number (= `cnt`, the number of set bits in 1..65535). -/
theorem used_eq_marked (limit : Nat) (ops : List Op) (hc : Contract false (Sys.new limit) ops) :
    let r := run (Sys.new limit) ops
    let out := outstanding ops r.2
    out.Nodup ∧ (∀ id ∈ out, id ≠ 0 ∧ id ≤ 65535) ∧ (∀ id, id ∈ out ↔ r.1.lim.marked id = true)
    ∧ r.1.lim.used = out.length ∧ r.1.lim.used = cnt r.1.lim := by
  intro r out
  obtain ⟨h, _⟩ := run_TInv false ops (TInv_new limit) (by intro h; cases h) hc
  have hl := h.linv
  refine ⟨hl.nodup, ?_, hl.mem, hl.len.symm, hl.inv.cnt⟩
  intro id hid
  have hm := (hl.mem id).mp hid
  refine ⟨?_, marked_le hl.inv.st hm⟩
  intro h0; subst h0
  rw [hl.inv.zero] at hm; cases hm

/-- 3. Window: for every history whose `mark` ops also fit the window, the number of outstanding ids
    (handed out or marked, not yet released) never exceeds the limit. -/
theorem window_bound (limit : Nat) (ops : List Op) (hc : Contract true (Sys.new limit) ops) :
    let r := run (Sys.new limit) ops
    (outstanding ops r.2).length ≤ r.1.lim.limit ∧ r.1.lim.limit = limit % 65536 := by
  intro r
  obtain ⟨h, hw⟩ := run_TInv true ops (TInv_new limit) (fun _ => Win_new limit) hc
  refine ⟨?_, by rw [run_limit]; rfl⟩
  have := hw rfl
  unfold Win at this
  show (trackAll [] ops (run (Sys.new limit) ops).2).length ≤ _
  rw [h.linv.len]; exact this

/-- 4. Release: in every state reached under the contract, releasing a marked id clears exactly its bit and
    decrements `used` by exactly one; releasing an id that is not marked (never handed out, already released,
    0, an id awaiting PUBCOMP that was not re-marked …) changes nothing at all. -/
theorem release_frees (limit : Nat) (ops : List Op) (hc : Contract false (Sys.new limit) ops) (id : Nat) :
    let l := (run (Sys.new limit) ops).1.lim
    (l.marked id = true →
        (l.releaseLocked id).marked id = false ∧ (l.releaseLocked id).used + 1 = l.used
        ∧ ∀ j, j ≠ id → (l.releaseLocked id).marked j = l.marked j)
    ∧ (l.marked id = false → l.releaseLocked id = l) := by
  obtain ⟨h, _⟩ := run_TInv false ops (TInv_new limit) (by intro h; cases h) hc
  exact release_spec h.linv id

/-- 4'. …and a released id may be handed out again: the first id a poll returns is the first unmarked id met
    when walking from `freePid` upwards (65535 wraps to 1), in any reachable state … -/
theorem poll_takes_next_free (limit : Nat) (ops : List Op) (max : Nat) (l' : Limiter) (id : Nat) (rest : List Nat)
    (h : (run (Sys.new limit) ops).1.lim.poll max = (l', .ids (id :: rest))) :
    let l := (run (Sys.new limit) ops).1.lim
    ∃ k, k < 65536 ∧ advN k l.freePid = id ∧ l.marked id = false
      ∧ ∀ j, j < k → l.marked (advN j l.freePid) = true :=
  poll_first_spec h

/-- … in particular an unmarked id the cursor stands on is returned next (under the contract, for any
    `max ≥ 1`, window not full, limiter open). -/
theorem released_id_reusable (limit : Nat) (ops : List Op) (hc : Contract false (Sys.new limit) ops)
    (id max : Nat) :
    let l := (run (Sys.new limit) ops).1.lim
    l.marked id = false → l.freePid = id → l.used < l.limit → l.exit = false → 1 ≤ max →
    ∃ l' rest, l.poll max = (l', .ids (id :: rest)) := by
  obtain ⟨h, _⟩ := run_TInv false ops (TInv_new limit) (by intro h; cases h) hc
  exact poll_cursor_spec h.linv.inv id max

/-- 5. Termination: under the contract the unbounded inner search loop of `pollPacketIDs` always finds a free id
    (no `spin`, the limiter never wedges), for every history and every `max`. -/
theorem poll_terminates (limit : Nat) (ops : List Op) (hc : Contract false (Sys.new limit) ops) :
    let r := run (Sys.new limit) ops
    r.1.wedged = false ∧ (∀ max, (r.1.lim.poll max).2 ≠ .spin)
    ∧ (∀ o ∈ r.2, o ≠ .wedged ∧ o ≠ .polled .spin ∧ o ≠ .done (some .spin)) := by
  intro r
  obtain ⟨h, _⟩ := run_TInv false ops (TInv_new limit) (by intro h; cases h) hc
  refine ⟨h.notWedged, fun max => (Inv_poll h.linv.inv max).2, ?_⟩
  exact run_no_spin false ops (TInv_new limit) hc

/-! ## full-strength statements that the code does NOT satisfy (finding limiter-markused-unchecked) -/

/-- `used` always equals the number of marked ids — for every history, no assumption on callers. -/
def used_eq_marked_Statement : Prop :=
  ∀ (limit : Nat) (ops : List Op), (run (Sys.new limit) ops).1.lim.used = cnt (run (Sys.new limit) ops).1.lim

/-- the number of marked ids never exceeds the limit — for every history, no assumption on callers. -/
def window_bound_Statement : Prop :=
  ∀ (limit : Nat) (ops : List Op), cnt (run (Sys.new limit) ops).1.lim ≤ (run (Sys.new limit) ops).1.lim.limit

/-- counterexample: `markUsedLocked(7)` twice counts the id twice (`used = 2`, one id marked). -/
theorem used_eq_marked_Statement_false : ¬ used_eq_marked_Statement := by
  intro h
  have h := h 10 [.mark [7], .mark [7]]
  have e : (run (Sys.new 10) [.mark [7], .mark [7]]).1.lim = ((new 10).markAll [7]).markUsedLocked 7 := rfl
  rw [e] at h
  obtain ⟨hi, hu, _, hmk⟩ := Inv_markAll [7] (Inv_new 10) ⟨by simp, by
    intro id hid; simp at hid; subst hid
    exact ⟨by omega, by omega, by simp [Limiter.marked, new, Bitmap.get_new]⟩⟩
  have hc : cnt (((new 10).markAll [7]).markUsedLocked 7) = cnt ((new 10).markAll [7]) := by
    apply cnt_congr
    intro id
    rw [marked_markUsedLocked hi.st (by omega)]
    split
    · rename_i e; subst e; rw [hmk]; simp
    · rfl
  have hu2 : (((new 10).markAll [7]).markUsedLocked 7).used = (((new 10).markAll [7]).used + 1) % 65536 := rfl
  rw [hc, hu2, ← hi.cnt, hu] at h
  simp [new] at h

/-- counterexample: marking two fresh ids on a limiter of limit 1 leaves two ids outstanding. -/
theorem window_bound_Statement_false : ¬ window_bound_Statement := by
  intro h
  have h := h 1 [.mark [1, 2]]
  have e : (run (Sys.new 1) [.mark [1, 2]]).1.lim = (new 1).markAll [1, 2] := rfl
  rw [e] at h
  obtain ⟨hi, hu, hl, _⟩ := Inv_markAll [1, 2] (Inv_new 1) ⟨by simp, by
    intro id hid
    simp at hid
    rcases hid with rfl | rfl <;>
      exact ⟨by omega, by omega, by simp [Limiter.marked, new, Bitmap.get_new]⟩⟩
  rw [← hi.cnt, hu, hl] at h
  simp [new] at h

/-! ## non-vacuity: a concrete history meets the contract and exercises marking, a full window,
    a parked poll woken by a release, a release of ids that are not outstanding, and close -/

def exOps : List Op := [.mark [5, 9], .poll 2, .poll 1, .release 5, .batchRelease [1, 77], .poll 3, .close]

set_option maxRecDepth 100000 in
example : Contract true (Sys.new 3) exOps := by decide
set_option maxRecDepth 100000 in
example : (run (Sys.new 3) exOps).2 =
    [.done none, .polled (.ids [1]), .polled .blocked, .done (some (.ids [2])), .done none,
     .polled (.ids [3]), .done none] := by decide
set_option maxRecDepth 100000 in
example : outstanding exOps (run (Sys.new 3) exOps).2 = [9, 2, 3] ∧ (run (Sys.new 3) exOps).1.lim.used = 3 := by decide

end GmqttVerif.Limiter
