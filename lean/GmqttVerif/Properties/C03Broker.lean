import GmqttVerif.Model.Broker
import GmqttVerif.Proofs.BrokerReplay
/-
  C03 at broker level — outbound QoS 1/2: packet ids in flight are pairwise distinct and tracked by the window, the
  window bounds what the poll loop hands out, a resumed connection first gets its in-flight messages again (DUP = 1,
  same ids, PUBREL for the released ones), and a first transmission has DUP = 0.

  Stated over the wire-level broker model (`Model/Broker.lean`); `runB`/`Step` are the wire steps of C05
  (`Proofs/Session.lean`). Vocabulary: `Queue.idsOf l` = packet ids of the id-bearing elements of `l`, in order;
  `PumpRound`/`PumpTrace`/`Round` = the rounds of the poll loop (`Proofs/BrokerPump.lean`); `pumpIds c` = the ids
  offered to `Read`; `replayPkt` = the packet `pollInflights` writes for an element; `Pkt.core` forgets what
  topic-alias compression changes (topic name, alias, size); `pOuts conn ps` = the packets `ps` on the P stream of
  `conn`; `newP b0 b conn` = the P-stream packets written to `conn` since `b0`. Invariants and helper lemmas: `Proofs/BrokerQueue|BrokerInv|BrokerReplay.lean`.
-/
namespace GmqttVerif.Broker
open GmqttVerif.Deliver
open GmqttVerif.Queue (idsOf)

/-- 1. `outbound_ids_distinct`. In every state reachable from the empty broker by wire steps, for every online
    connection `c` and the stored session `s` of its client id:
    * the window `used` has no duplicates and does not contain 0;
    * the packet ids of the id-bearing queue elements are pairwise distinct;
    * every element handed out or replayed on this connection (`done`, in front of the cursor) carries a non-zero id
      that is in the window;
    * an id still waiting to be replayed (`rest`) is not in the window;
    * once the replay is complete (`drained`) every id-bearing element's id is in the window.
    (The converse "every id in the window belongs to a queue element" does NOT hold in the model: `Add` on a full
    queue may drop an expired in-flight element, and `B.enqueue` ignores the notifier events of `Add`, so the id stays
    in the window. The code releases it in `queueNotifier.NotifyDropped` when the client is connected — a divergence of
    the broker model from the code that only this corner exercises; the statements below hold either way.) -/
theorem outbound_ids_distinct (cfg : Cfg) (steps : List Step) :
    let b := runB { cfg := cfg } steps
    ∀ c ∈ b.clis, ∀ s ∈ b.sessions, s.cid = c.cid →
      c.used.Nodup ∧ 0 ∉ c.used ∧ (idsOf s.queue.items).Nodup ∧
      (∀ e ∈ s.queue.done, e.id ≠ 0 ∧ e.id ∈ c.used) ∧
      (∀ e ∈ s.queue.rest, e.id ≠ 0 → e.id ∉ c.used) ∧
      (s.queue.drained = true → ∀ e ∈ s.queue.items, e.id ≠ 0 → e.id ∈ c.used) := by
  intro b c hc s hs hcid
  have hinv := reachable_rinv cfg steps
  have hu := hinv.outq.c c hc s hs hcid
  have hq := hinv.outq.q s hs
  refine ⟨hu.nodup, hu.nz, hq.nodup, fun e he => ⟨hq.inv.1 e he, hu.done e he⟩, hu.rest, ?_⟩
  intro hd e he hne
  rcases List.mem_append.1 he with he | he
  · exact hu.done e he
  · exact absurd ((Queue.isQueued_iff e).1 (hq.inv.2.2 hd e he)).2 hne

/-- 1'. also for sessions that are offline the stored packet ids are pairwise distinct, and the queue has the shape
    "elements with id first" (`Queue.Inv`) that the replay relies on. -/
theorem stored_ids_distinct (cfg : Cfg) (steps : List Step) :
    ∀ s ∈ (runB { cfg := cfg } steps).sessions, (idsOf s.queue.items).Nodup ∧ Queue.Inv s.queue :=
  fun s hs => ⟨((reachable_rinv cfg steps).outq.q s hs).nodup, ((reachable_rinv cfg steps).outq.q s hs).inv⟩

/-- 1''. the invariant is inductive: each wire step preserves it (`RInv` = `WF` ∧ `OutInv` ∧ `MsgsInv` ∧ `WillInv`). -/
theorem invariant_step (b : B) (h : RInv b) (st : Step) : RInv (stepB b st) := rinv_step h st

/-- 2a. `window_bound`, per round: the poll loop performs a round only while the window has room; the ids it offers
    are fresh (not 0, not in the window, pairwise distinct) and no more than the room left; `Read` hands out at most
    that many QoS>0 messages; and afterwards the window is not over-full. -/
theorem window_bound (conn : String) (b : B) (c : Cli) (s : Sess) (q' : Queue.Q) (out : List Queue.Elem)
    (h : PumpRound conn b c s q' out) :
    c.used.length < c.maxInflight ∧
    (pumpIds c).Nodup ∧ (∀ p ∈ pumpIds c, p ≠ 0 ∧ p ∉ c.used) ∧
    (out.filter (fun e => e.qos != 0)).length ≤ c.maxInflight - c.used.length ∧
    ∃ c1, (b.pumpRound conn c s q' out).cli? conn = some c1 ∧ c1.maxInflight = c.maxInflight ∧
      c1.used = c.used ++ (out.filter (fun e => e.qos != 0)).map (·.id) ∧ c1.used.length ≤ c1.maxInflight := by
  obtain ⟨hnd, hfresh, hlen⟩ := pumpIds_spec c
  obtain ⟨evs, hread⟩ := h.read
  have hk := Queue.read_ok_qos_len hread
  have hw := h.window
  obtain ⟨c1, hc1, ec1⟩ := pumpRound_cli b conn c s q' out h.cli
  refine ⟨hw, hnd, hfresh, by omega, c1, hc1, by rw [ec1], by rw [ec1], ?_⟩
  rw [ec1]
  simp only [List.length_append, List.length_map]
  omega

/-- 2b. `window_bound`, closed window: with `used.length ≥ maxInflight` the poll loop hands out nothing at all. -/
theorem window_closed (b : B) (conn : String) (c : Cli) (hc : b.cli? conn = some c)
    (hfull : c.used.length ≥ c.maxInflight) (fuel : Nat) : b.pump conn fuel = b := by
  cases fuel with
  | zero => rfl
  | succ fuel =>
    rw [pump_succ]
    simp only [hc]
    split
    · rfl
    · rw [if_pos hfull]

/-- 2c. `window_bound`, whole run: a run of the poll loop never makes the window larger than
    max(its size before, maxInflight) — in particular it stays within `maxInflight` if it was before. -/
theorem window_bound_run (conn : String) (b b' : B) (rs : List Round) (h : PumpTrace conn b rs b') (c : Cli)
    (hc : b.cli? conn = some c) :
    ∃ c', b'.cli? conn = some c' ∧ c'.maxInflight = c.maxInflight ∧
      c'.used.length ≤ max c.used.length c.maxInflight := by
  induction h generalizing c with
  | stop b => exact ⟨c, hc, rfl, Nat.le_max_left _ _⟩
  | round b c0 s q' out rs b' hround _ ih =>
    have : c0 = c := by have := hround.cli; rw [hc] at this; exact (Option.some.inj this).symm
    subst this
    obtain ⟨_, _, _, _, c1, hc1, hm1, _, hl1⟩ := window_bound conn b c0 s q' out hround
    obtain ⟨c', hc', hm', hl'⟩ := ih c1 hc1
    refine ⟨c', hc', hm'.trans hm1, ?_⟩
    rw [hm1] at hl1 hl'
    have := Nat.le_max_right c0.used.length c0.maxInflight
    omega

/-- what a round of the poll loop writes: one packet per element handed out, in order, on the P stream of the
    connection, equal to `pubPkt` of the element up to topic-alias compression. -/
theorem pump_round_writes (b : B) (conn : String) (c : Cli) (s : Sess) (q' : Queue.Q) (out : List Queue.Elem) :
    ∃ ps, (b.pumpRound conn c s q' out).out = b.out ++ pOuts conn ps ∧
      ps.map Pkt.core = out.map (fun e => (b.pubPkt c e (b.ats.getD e.tag b.now)).core) :=
  pumpRound_out b conn c s q' out

/-- 3. `replay_on_resume`. A CONNECT that resumes the stored session `s0` (Clean Start 0, deadline not passed;
    `b1` = the state after a connection with the same client id has been displaced) writes, after the displacement
    output and its CONNACK, only P-stream packets to its own connection: one per replayed element `els`, in order,
    equal (up to topic-alias compression) to `replayPkt` of the element — a PUBLISH with DUP = 1 and the element's
    packet id, or PUBREL with that id for an element already replaced on PUBREC. The replayed elements are a prefix
    of the id-bearing elements of the stored queue, in queue order, with the same (message, packet id, kind)
    (`Queue.key`); when the queue reports "drained" they are all of them; until then the poll loop hands out nothing,
    so no first transmission (DUP = 0, `first_send_dup0`) can precede them. (`hinv` holds in every reachable state:
    `stored_ids_distinct`.) Built on C10 `replay_after_init` (`Queue.runReplay_spec`). -/
theorem replay_on_resume (b : B) (r : ConnectReq) (s0 : Sess)
    (hs : (afterDisplace b r.cid).sess? r.cid = some s0)
    (hres : r.clean = false ∧ deadlinePassed (afterDisplace b r.cid) r.cid = false)
    (hinv : Queue.Inv s0.queue) :
    let b1 := afterDisplace b r.cid
    let core := connectCore b.cfg b1 r
    let inflight := s0.queue.items.filter (fun e => e.id != 0)
    ∃ (els : List Queue.Elem) (ps : List Pkt) (sfin : Sess),
      (b.connect r).out = b1.out ++ [{ conn := r.conn, poll := false, pkt := connackPkt b.cfg b1 r }] ++ pOuts r.conn ps ∧
      ps.map Pkt.core = els.map (fun e => (replayPkt core (newCli b.cfg r) e).core) ∧
      (∀ e ∈ els, (replayPkt core (newCli b.cfg r) e).id? = some e.id ∧
        (replayPkt core (newCli b.cfg r) e).dup? = (if e.pub then some true else none)) ∧
      (els.map Queue.key) <+: (inflight.map Queue.key) ∧
      (b.connect r).sess? r.cid = some sfin ∧
      (sfin.queue.drained = true → els.map Queue.key = inflight.map Queue.key) ∧
      (sfin.queue.drained = false → ∀ fuel, (b.connect r).pump r.conn fuel = b.connect r) := by
  intro b1 core inflight
  have hr : resumeOf b1 r = true := (resumeOf_iff b1 r).2 ⟨hres.1, by rw [hs]; rfl, hres.2⟩
  have hcli : core.cli? r.conn = some (newCli b.cfg r) := core_cli b.cfg b1 r
  have hsess : core.sess? (newCli b.cfg r).cid = some (newSess b.cfg b1 r) := core_sess b.cfg b1 r
  obtain ⟨calls, ps, hout, hcore, hsfin, c', hc', hcid', _, _⟩ :=
    replay_trace 100000 core r.conn (newCli b.cfg r) (newSess b.cfg b1 r) hcli hsess
  -- the queue the replay starts from
  have hq0 : (newSess b.cfg b1 r).queue =
      { s0.queue.init false (cliMaxPktOf r) with
        rest := (s0.queue.init false (cliMaxPktOf r)).rest.map
          (fun e => if e.pub then { e with size := totalBytes r.v ((endOld b1 r).msgOf e.tag) } else e) } := by
    show newQueue b.cfg b1 r = _
    have hs' : b1.sess? r.cid = some s0 := hs
    unfold newQueue
    simp only [hs', hr, if_true]
  have hpend : (Queue.pending (newSess b.cfg b1 r).queue.rest).map Queue.key = inflight.map Queue.key := by
    rw [hq0]
    simp only
    rw [Queue.pending_map _ (fun e => by split <;> rfl)]
    have hshape : Queue.Shape s0.queue.items := Queue.Shape.prepend hinv.1 hinv.2.1
    have : (s0.queue.init false (cliMaxPktOf r)).rest = s0.queue.items := by simp [Queue.Q.init]
    rw [this, ← hshape.filter_eq_pending, List.map_map]
    apply List.map_congr_left
    intro e _
    simp only [Function.comp]
    split <;> rfl
  have hnd : (newSess b.cfg b1 r).queue.drained = true → Queue.pending (newSess b.cfg b1 r).queue.rest = [] := by
    rw [hq0]; intro h; simp [Queue.Q.init] at h
  obtain ⟨h1, h2⟩ := Queue.runReplay_spec (newSess b.cfg b1 r).queue calls hnd
  rw [hpend] at h1
  refine ⟨(Queue.runReplay (newSess b.cfg b1 r).queue calls).2, ps, _, ?_, hcore,
    fun e _ => replayPkt_shape core _ e, ?_, hsfin, ?_, ?_⟩
  · rw [connect_eq]
    show (core.replay r.conn 100000).out = _
    rw [hout, core_out]
  · rw [← h1]; exact List.prefix_append _ _
  · intro hd
    have := h2 hd
    rw [this] at h1
    simpa using h1
  · intro hd fuel
    have hc'' : (b.connect r).cli? r.conn = some c' := hc'
    exact pump_blocked (b.connect r) r.conn c' _ hc'' (by rw [hcid']; exact hsfin) hd fuel

/-- 4. `first_send_dup0`. Given the invariant "logged messages have DUP = 0" (`MsgsInv`; every reachable state has it:
    `reachable_msgs_inv` — enqueued copies and retained replays are stored with DUP cleared), every packet the poll
    loop writes is a PUBLISH with DUP = 0 on the P stream of its connection. -/
theorem first_send_dup0 (conn : String) (b b' : B) (rs : List Round) (h : PumpTrace conn b rs b') (hm : MsgsInv b) :
    ∃ ps, b'.out = b.out ++ pOuts conn ps ∧ ∀ p ∈ ps, p.dup? = some false := by
  induction h with
  | stop b => exact ⟨[], by simp [pOuts], by simp⟩
  | round b c s q' out rs b' hround _ ih =>
    obtain ⟨ps1, ho1, hcore1⟩ := pumpRound_out b conn c s q' out
    obtain ⟨ps2, ho2, hd2⟩ := ih ((pres_pumpRound hround).msgs hm)
    refine ⟨ps1 ++ ps2, by rw [ho2, ho1]; simp [pOuts], ?_⟩
    intro p hp
    rcases List.mem_append.1 hp with hp | hp
    · have hmem : p.core ∈ ps1.map Pkt.core := List.mem_map_of_mem hp
      rw [hcore1] at hmem
      obtain ⟨e, _, he⟩ := List.mem_map.1 hmem
      rw [Pkt.dup?_of_core he.symm]
      show some (b.msgOf e.tag).dup = some false
      congr 1
      unfold B.msgOf
      rw [List.getD_eq_getElem?_getD]
      cases hg : b.msgs[e.tag]? with
      | none => rfl
      | some m => exact hm.dup m (List.mem_of_getElem? hg)
    · exact hd2 p hp

/-- 4'. …for every run of `pump` from a reachable state. -/
theorem first_send_dup0_reachable (cfg : Cfg) (steps : List Step) (conn : String) (fuel : Nat) :
    let b := runB { cfg := cfg } steps
    ∃ ps, (b.pump conn fuel).out = b.out ++ pOuts conn ps ∧ ∀ p ∈ ps, p.dup? = some false := by
  intro b
  obtain ⟨rs, h⟩ := pump_trace fuel b conn
  exact first_send_dup0 conn b _ rs h (reachable_rinv cfg steps).msgs

/-- the message-log invariant of reachable states: one time stamp per logged message, logged messages have DUP = 0 -/
theorem reachable_msgs_inv (cfg : Cfg) (steps : List Step) : MsgsInv (runB { cfg := cfg } steps) :=
  (reachable_rinv cfg steps).msgs

/-! ## non-vacuity -/

/-- subscriber "s" (v4, clean = false) gets two QoS 1 messages and one QoS 2, acknowledges the first, answers PUBREC
    for the third, and its socket closes; it reconnects with Clean Start 0 -/
def exOut : B :=
  let b : B := {}
  let b := b.connect { conn := "s", cid := "sub", v := 4, clean := false }
  let b := b.subscribe "s" 1 [{ name := "t", qos := 2 }] 0
  let b := b.connect { conn := "p", cid := "pub", v := 4 }
  let b := b.publish { conn := "p", topic := "t", qos := 1, pid := 1, tag := "m1", plen := 1 }
  let b := b.publish { conn := "p", topic := "t", qos := 1, pid := 2, tag := "m2", plen := 1 }
  let b := b.publish { conn := "p", topic := "t", qos := 2, pid := 3, tag := "m3", plen := 1 }
  let b := b.pump "s" 5
  let b := b.ackOut "s" 1
  let b := b.pubrecOut "s" 3 0
  b.closeIn "s"

def exOutSteps : List Step :=
  [.connect { conn := "s", cid := "sub", v := 4, clean := false }, .subscribe "s" 1 [{ name := "t", qos := 2 }] 0,
   .connect { conn := "p", cid := "pub", v := 4 },
   .publish { conn := "p", topic := "t", qos := 1, pid := 1, tag := "m1", plen := 1 }]

/-- a reachable state with an online connection and a non-empty queue (hypotheses of `outbound_ids_distinct`) -/
example : ((runB {} exOutSteps).clis.map (·.cid)) = ["pub", "sub"] ∧
    ((runB {} exOutSteps).sess? "sub").map (fun s => s.queue.items.length) = some 1 := by decide

/-- the stored queue: PUBLISH id 2 and PUBREL id 3 in flight -/
example : (exOut.sess? "sub").map (fun s => s.queue.items.map (fun e => (e.id, e.pub))) = some [(2, true), (3, false)] := by
  decide

/-- the hypotheses of `replay_on_resume` hold for the reconnect, and it replays both, in order: DUP PUBLISH 2, PUBREL 3 -/
example : ∃ s0, (afterDisplace exOut "sub").sess? "sub" = some s0 ∧
    deadlinePassed (afterDisplace exOut "sub") "sub" = false ∧ Queue.Inv s0.queue :=
  ⟨_, rfl, by decide, by
    refine ⟨by decide, ⟨by decide, ?_⟩, by decide⟩
    decide⟩

example : newP exOut (exOut.connect { conn := "s2", cid := "sub", v := 4, clean := false }) "s2" =
    [.publish "t" 1 false true 2 "m2" 1 [] none none 8, .pubrel 3] := by decide

/-- a window of 1: the poll loop hands out one QoS 1 message and stops (hypotheses of `window_bound`) -/
def exWin : B :=
  let b : B := {}
  let b := b.connect { conn := "s", cid := "sub", v := 5, rm := some 1 }
  let b := b.subscribe "s" 1 [{ name := "t", qos := 1 }] 0
  let b := b.connect { conn := "p", cid := "pub", v := 4 }
  let b := b.publish { conn := "p", topic := "t", qos := 1, pid := 1, tag := "m1", plen := 1 }
  b.publish { conn := "p", topic := "t", qos := 1, pid := 2, tag := "m2", plen := 1 }

example : (newP exWin (exWin.pump "s" 5) "s").map (fun p => (p.id?, p.dup?)) = [(some 1, some false)] ∧
    ((exWin.pump "s" 5).cli? "s").map (fun c => (c.used, c.maxInflight)) = some ([1], 1) := by decide

end GmqttVerif.Broker
