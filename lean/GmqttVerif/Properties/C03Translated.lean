import GmqttVerif.Model.Bitmap
import GmqttVerif.Generated.BitmapT
/-
  C03 — the bitmap model is the code: a regenerated translation instead of a transcription.

  `Generated/BitmapT.lean` is produced on every check run from `pkg/bitmap/bitmap.go` by the Go → Lean translator of
  `harness/cmd/extract/translate.go` (loop-free unsigned-integer code: every function of the file, with Go's wrap-around
  arithmetic made explicit through `% 2^w`). The theorems below prove the translated functions equal to the hand-written model
  `Model/Bitmap.lean`, which is what the limiter model (`Model/Limiter.lean`) and the C03 theorems are built on. A change of
  bitmap.go changes the generated definitions; if these proofs no longer go through, the model no longer describes the code.

  Hypotheses are the Go types: a `uint16` argument is a natural number below 65536.
-/
namespace GmqttVerif.C03Translated
open GmqttVerif.Generated GmqttVerif.Bitmap

def toModel (b : BitmapT.Bitmap) : Bitmap := { vals := b.vals, size := b.size }

theorem one_shl_small : ∀ p : Fin 8, (1 <<< p.val) % 256 = 1 <<< p.val := by decide

theorem one_shl_and7 (o : Nat) : (1 <<< (o &&& 7)) % 256 = 1 <<< (o &&& 7) := by
  have h : o &&& 7 < 8 := Nat.lt_succ_of_le Nat.and_le_right
  exact one_shl_small ⟨o &&& 7, h⟩

/-- `bitmap.New`, for every uint16 size -/
theorem new_eq (size : Nat) (h : size < 65536) : toModel (BitmapT.New size) = Bitmap.new size := by
  unfold BitmapT.New Bitmap.new toModel maxSize
  simp only [Nat.shiftRight_eq_div_pow]
  by_cases h1 : size = 0 ∨ size ≥ 65535
  · simp [h1]
  · by_cases h2 : size % 8 ≠ 0
    · have e1 : (size + (8 + 65536 - size % 8) % 65536) % 65536 = (size + (8 - size % 8)) % 65536 := by omega
      have e2 : ((size + (8 - size % 8)) % 65536 / 2 ^ 3 + 1) % 65536 = (size + (8 - size % 8)) % 65536 / 2 ^ 3 + 1 := by omega
      simp [h1, h2, e1, e2]
    · have e2 : (size / 2 ^ 3 + 1) % 65536 = size / 2 ^ 3 + 1 := by omega
      simp [h1, h2, e2]

/-- `(*Bitmap).Set`: the receiver afterwards is the model's, for every offset and value -/
theorem set_eq (b : BitmapT.Bitmap) (offset value : Nat) :
    toModel (BitmapT.Set b offset value).1 = (toModel b).set offset value := by
  unfold BitmapT.Set Bitmap.set toModel clearBit setBit
  by_cases h : b.size < offset
  · simp [h]
  · simp only [h, if_false, one_shl_and7]
    by_cases hv : value = 0 <;> simp [hv]

/-- … and its result says whether the offset was within the size -/
theorem set_result (b : BitmapT.Bitmap) (offset value : Nat) :
    (BitmapT.Set b offset value).2 = decide (¬ b.size < offset) := by
  unfold BitmapT.Set
  by_cases h : b.size < offset <;> simp [h]

/-- `(*Bitmap).Get` -/
theorem get_eq (b : BitmapT.Bitmap) (offset : Nat) :
    (BitmapT.Get b offset).2 = (toModel b).get offset ∧ (BitmapT.Get b offset).1 = b := by
  unfold BitmapT.Get Bitmap.get toModel getBit
  by_cases h : b.size < offset <;> simp [h]

theorem size_eq (b : BitmapT.Bitmap) : (BitmapT.Size b).2 = (toModel b).size ∧ BitmapT.MaxSize = maxSize := ⟨rfl, rfl⟩

-- non-vacuity: the translated code computes (bit 3 of byte 1 set by offset 11, read back, cleared)
example : ((BitmapT.Set (BitmapT.New 20) 11 1).1.vals.toList = [0, 8, 0, 0] ∧ (BitmapT.New 20).size = 24)
    ∧ (BitmapT.Get (BitmapT.Set (BitmapT.New 20) 11 1).1 11).2 = 1
    ∧ (BitmapT.Get (BitmapT.Set (BitmapT.Set (BitmapT.New 20) 11 1).1 11 0).1 11).2 = 0 := by decide

end GmqttVerif.C03Translated
