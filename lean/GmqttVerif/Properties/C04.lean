import GmqttVerif.Model.Inbound
import GmqttVerif.Proofs.Inbound
/-
  C04 — Inbound QoS 2 is exactly-once; every QoS>0 packet gets its matching ack.

  Property theorems only; lemmas are in `Proofs/Inbound.lean`.  Stated for ALL event sequences of one
  session: PUBLISH (any QoS, id, DUP flag), PUBREL (any id, also ids never published), reconnects with and
  without session resumption, in any interleaving, with duplication and id reuse.
  `Model/Inbound.lean` mirrors what `publishHandler` / `pubrelHandler` (server/client.go) do with the unack
  store; `Model/Unack.lean` mirrors `persistence/unack/mem` and is tied to it by the correspondence stream
  `unack` of `bin/check C04`.  The handler model is tied to the code at wire level (oracle `oracle_inbound`).

  The delivery spec (`mustDeliver`, `openAfter`) is written on the event history alone: it never mentions the store.
-/
namespace GmqttVerif.Inbound

/-! ## vocabulary (definitions in Proofs/Inbound.lean)

* `closes id e`      : `e` is PUBREL(id) or a connection on which the session was not resumed.
* `isPub2 id e`      : `e` is a QoS 2 PUBLISH with packet id `id`.
* `openAfter id pre` : in history `pre` a QoS 2 PUBLISH(id) occurs after the last event that closes `id`.
* `mustDeliver pre e`: `e` is a PUBLISH and, if QoS 2, no PUBLISH with its id is open in `pre`
                       (= it is the first with its id since the last PUBREL of that id / session reset).
* `deliverSpec pre evs` : `mustDeliver` for each event of `evs` with the history grown accordingly.
* `ackSpec e`        : QoS 1 PUBLISH ↦ [PUBACK id], QoS 2 PUBLISH ↦ [PUBREC id], PUBREL ↦ [PUBCOMP id], else [].
* `Event.plain`      : the `OnMsgArrived` hook (if any) let the message through.
-/

/-- 1. Exactly once: for every event sequence, the handler delivers exactly the publishes that are the first
    with their packet id since the last PUBREL of that id or session reset (QoS 0/1 publishes: always);
    retransmissions in between — whatever their DUP flag, also after resuming the session — are not delivered. -/
theorem qos2_exactly_once (evs : List Event) (hp : ∀ e ∈ evs, e.plain) :
    (run init evs).2.map (·.deliver) = deliverSpec [] evs :=
  (run_spec evs Agrees_init hp).2

/-- 1'. the same, position by position: the k-th event is delivered iff `mustDeliver` says so for the
    history formed by the events before it. -/
theorem qos2_exactly_once_at (evs : List Event) (hp : ∀ e ∈ evs, e.plain) (k : Nat) (hk : k < evs.length) :
    ((run init evs).2.map (·.deliver))[k]? = some (mustDeliver (evs.take k) evs[k]) := by
  rw [qos2_exactly_once evs hp]
  have gen : ∀ (evs pre : List Event) (k : Nat) (hk : k < evs.length),
      (deliverSpec pre evs)[k]? = some (mustDeliver (pre ++ evs.take k) evs[k]) := by
    intro evs
    induction evs with
    | nil => intro pre k hk; cases hk
    | cons e es ih =>
      intro pre k hk
      cases k with
      | zero => simp [deliverSpec]
      | succ k =>
        simp only [deliverSpec, List.getElem?_cons_succ, List.take_succ_cons, List.getElem_cons_succ]
        rw [ih (pre ++ [e]) k (by simpa using hk)]
        simp
  simpa using gen evs [] k hk

theorem deliverSpec_append (pre a b : List Event) :
    deliverSpec pre (a ++ b) = deliverSpec pre a ++ deliverSpec (pre ++ a) b := by
  induction a generalizing pre with
  | nil => simp [deliverSpec]
  | cons e es ih => simp [deliverSpec, ih]

/-- 2. Reuse: once PUBREL(id) has been processed (or the session was reset), the next QoS 2 PUBLISH with the
    same id is a new message and is delivered — whatever happened before and whatever else (other ids,
    other packet types, resumed reconnects) happens in between. -/
theorem id_reusable_after_release (pre mid : List Event) (id : Nat) (d : Bool) (c : Event)
    (hc : closes id c = true) (hpre : ∀ e ∈ pre, e.plain) (hcp : c.plain) (hmid : ∀ e ∈ mid, e.plain)
    (hno : ∀ e ∈ mid, isPub2 id e = false) :
    ((run init (pre ++ [c] ++ mid ++ [.pub 2 id d .ok])).2.map (·.deliver)).getLast? = some true := by
  rw [qos2_exactly_once]
  · rw [deliverSpec_append]
    simp only [deliverSpec, List.nil_append, mustDeliver]
    have : openAfter id (pre ++ [c] ++ mid) = false := by
      unfold openAfter
      simp only [List.reverse_append, List.reverse_cons, List.singleton_append, List.append_assoc]
      have gen : ∀ (a b : List Event), (∀ e ∈ a, isPub2 id e = false) →
          ((a ++ c :: b).takeWhile (fun e => !closes id e)).any (isPub2 id) = false := by
        intro a b ha
        induction a with
        | nil => simp [hc]
        | cons x a ih =>
          simp only [List.cons_append, List.takeWhile_cons]
          split
          · simp only [List.any_cons, ha x List.mem_cons_self, Bool.false_or]
            exact ih (fun e he => ha e (List.mem_cons_of_mem _ he))
          · rfl
      exact gen mid.reverse pre.reverse (fun e he => hno e (List.mem_reverse.mp he))
    have this' : openAfter id (pre ++ c :: mid) = false := by simpa using this
    simp [this']
  · intro e he
    simp only [List.mem_append, List.mem_singleton] at he
    rcases he with ((he | he) | he) | he
    · exact hpre e he
    · subst he; exact hcp
    · exact hmid e he
    · subst he; rfl

/-- 2'. …and before that release every further QoS 2 PUBLISH with the id is recognised as a retransmission
    and not delivered again, whatever lies in between that does not close the id. -/
theorem duplicate_not_delivered (pre mid : List Event) (id : Nat) (d d' : Bool)
    (hpre : ∀ e ∈ pre, e.plain) (hmid : ∀ e ∈ mid, e.plain) (hno : ∀ e ∈ mid, closes id e = false) :
    ((run init (pre ++ [.pub 2 id d .ok] ++ mid ++ [.pub 2 id d' .ok])).2.map (·.deliver)).getLast? = some false := by
  rw [qos2_exactly_once]
  · rw [deliverSpec_append]
    simp only [deliverSpec, List.nil_append, mustDeliver]
    have : openAfter id (pre ++ [.pub 2 id d .ok] ++ mid) = true := by
      unfold openAfter
      simp only [List.reverse_append, List.reverse_cons, List.singleton_append, List.append_assoc]
      have gen : ∀ (a b : List Event), (∀ e ∈ a, closes id e = false) →
          ((a ++ Event.pub 2 id d .ok :: b).takeWhile (fun e => !closes id e)).any (isPub2 id) = true := by
        intro a b ha
        induction a with
        | nil => simp [closes, isPub2]
        | cons x a ih =>
          simp only [List.cons_append, List.takeWhile_cons, ha x List.mem_cons_self, Bool.not_false, if_true,
            List.any_cons]
          rw [ih (fun e he => ha e (List.mem_cons_of_mem _ he))]
          simp
      exact gen mid.reverse pre.reverse (fun e he => hno e (List.mem_reverse.mp he))
    have this' : openAfter id (pre ++ Event.pub 2 id d .ok :: mid) = true := by simpa using this
    simp [this']
  · intro e he
    simp only [List.mem_append, List.mem_singleton] at he
    rcases he with ((he | he) | he) | he
    · exact hpre e he
    · subst he; rfl
    · exact hmid e he
    · subst he; rfl

/-- 3. Acks: for every event sequence (any hook verdicts, any state) each QoS 1 PUBLISH is answered by exactly one
    PUBACK, each QoS 2 PUBLISH — first or retransmission — by exactly one PUBREC, each PUBREL by exactly one
    PUBCOMP, all with the packet id of the packet they answer; nothing else is written. -/
theorem acks_match (s : St) (evs : List Event) :
    (run s evs).2.map (·.acks) = evs.map ackSpec :=
  run_acks evs s

/-- 4. A QoS 2 PUBLISH that the `OnMsgArrived` hook rejects with a failure code (v5, code ≥ 0x80) is not
    delivered and its id is not left in the store: a later PUBLISH with the id is treated as new. -/
theorem hook_rejection_not_recorded (s : St) (id c : Nat) (d : Bool) (hv : s.v5 = true) (hc : c ≥ 0x80)
    (hfresh : id ∉ s.store.ids) :
    (step s (.pub 2 id d (.err c))).2.deliver = false
    ∧ ∀ j, j ∈ (step s (.pub 2 id d (.err c))).1.store.ids ↔ j ∈ s.store.ids := by
  have hset : (s.store.set id).2 = false := by rw [set_snd]; simp [hfresh]
  have h21 : (2 : Nat) ≠ 1 := by decide
  constructor
  · simp [step, hset]
  · intro j
    simp only [step, h21, if_false, if_true, hv, hset, Bool.not_false, Bool.true_and, hc, decide_true]
    rw [mem_remove, mem_set]
    constructor
    · rintro ⟨h | h, hne⟩
      · exact absurd h hne
      · exact h
    · intro h
      exact ⟨Or.inr h, fun e => hfresh (e ▸ h)⟩

/-! ## non-vacuity: a concrete history with duplication, interleaved ids, reuse, resumed and clean reconnects -/

def exEvs : List Event :=
  [.pub 2 1 false .ok, .pub 2 2 false .ok, .pub 2 1 true .ok, .pub 1 1 false .ok, .reset false true,
   .pub 2 1 true .ok, .pubrel 1, .pub 2 1 false .ok, .pubrel 3, .reset true false, .pub 2 2 true .ok, .pub 0 0 false .ok]

example : ∀ e ∈ exEvs, e.plain := by decide
example : (run init exEvs).2.map (·.deliver) =
    [true, true, false, true, false, false, false, true, false, false, true, true] := by decide
example : (run init exEvs).2.map (·.acks) =
    [[.pubrec 1], [.pubrec 2], [.pubrec 1], [.puback 1], [], [.pubrec 1], [.pubcomp 1], [.pubrec 1], [.pubcomp 3], [],
     [.pubrec 2], []] := by decide

end GmqttVerif.Inbound
