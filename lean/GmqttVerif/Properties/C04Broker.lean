import GmqttVerif.Model.Broker
import GmqttVerif.Proofs.BrokerInbound
/-
  C04 at broker level — inbound QoS 2 exactly-once: `B.publish` forwards a QoS 2 PUBLISH iff its packet id is not
  awaiting PUBREL, `B.pubrelIn` releases the id and answers PUBCOMP, and this use of the session's id list `unack`
  refines the component model `Inbound.step` — so the exactly-once theorem of `Properties/C04.lean` carries over to
  every sequence of accepted PUBLISH / PUBREL packets on a connection of the wire-level broker model.

  Vocabulary (`Proofs/Deliver.lean`, `Proofs/BrokerInbound.lean`): an accepted PUBLISH is
  `publish_accepted`: `B.publish r = publishTail …`; `forwarded u qos pid` = not (QoS 2 and pid ∈ u);
  `unackAfterPub u qos pid` = u with pid appended when QoS 2 and new; `pubMsg r` the message built from `r`;
  `pubRetain`, `pubAck`, `pubDupQuota` the retained-store, acknowledgement and duplicate quota give-back steps; `Sim u st`: `u` and the component store hold
  the same ids; `InRun conn b evs fl b'`: a run of accepted PUBLISH / PUBREL packets on `conn` from `b` to `b'`, `evs` the
  events as the component model sees them, `fl` for each whether `deliverMessage` was called.
-/
namespace GmqttVerif.Broker
open GmqttVerif.Deliver

/-- 1. `qos2_forward_iff`. For an accepted QoS 2 PUBLISH with packet id `pid` on a session whose ids awaiting PUBREL
    are `s.unack`:
    * pid ∉ unack: the id is recorded, the retained store updated, `deliverMessage` is called, PUBREC written;
    * pid ∈ unack (a retransmission, whatever its DUP flag): nothing but the PUBREC — no `deliverMessage`, no
      retained-store update, the session record unchanged — and, on a v5 connection, the receive-quota unit taken
      for the packet is given back (`pubDupQuota`: the id already holds one unit until its PUBREL);
    and in both cases pid ∈ unack afterwards, on the same connection. -/
theorem qos2_forward_iff (b : B) (c : Cli) (r : PubReq) (s : Sess) (hq : r.qos = 2) :
    (r.pid ∉ s.unack →
      b.publishTail c r s =
        let b1 := (b.setSess { s with unack := s.unack ++ [r.pid] }).pubRetain r false
        let bm := b1.deliverMsg c.cid (pubMsg r) r.hints r.rapHint
        bm.1.pubAck c r bm.2) ∧
    (r.pid ∈ s.unack → b.publishTail c r s = ((b.setSess s).pubDupQuota c r true).pubAck c r false) ∧
    (∀ c0, b.cli? r.conn = some c0 →
      (∃ s', (b.publishTail c r s).sess? s.cid = some s' ∧ r.pid ∈ s'.unack) ∧
      (∃ c', (b.publishTail c r s).cli? r.conn = some c' ∧ c'.cid = c0.cid)) := by
  have hq' : (r.qos == 2) = true := by simp [hq]
  refine ⟨fun hn => ?_, fun hm => ?_, fun c0 hc0 => ?_⟩
  · rw [publishTail_eq]
    simp [forwarded, unackAfterPub, hq', hn]
  · rw [publishTail_eq]
    simp [forwarded, hq', hm]
  · obtain ⟨⟨s', hs', hu⟩, hcli⟩ := publishTail_after b c r s c0 hc0
    refine ⟨⟨s', hs', ?_⟩, hcli⟩
    rw [hu]
    unfold unackAfterPub
    by_cases hm : r.pid ∈ s.unack
    · simp [hm]
    · simp [hm, hq']

/-- 1'. the general form, any QoS: `deliverMessage` is called iff `forwarded s.unack r.qos r.pid`. -/
theorem publish_forwards_iff (b : B) (c : Cli) (r : PubReq) (s : Sess) :
    b.publishTail c r s =
      if forwarded s.unack r.qos r.pid then
        let b1 := (b.setSess { s with unack := unackAfterPub s.unack r.qos r.pid }).pubRetain r false
        let bm := b1.deliverMsg c.cid (pubMsg r) r.hints r.rapHint
        bm.1.pubAck c r bm.2
      else ((b.setSess s).pubDupQuota c r true).pubAck c r false :=
  publishTail_eq b c r s

/-- 1''. an accepted PUBLISH is `publishTail` (after the receive-quota and topic-alias steps on the connection's own
    record), on the session found for the connection. -/
theorem accepted_publish_is_tail (b : B) (r : PubReq) (c : Cli) (s : Sess)
    (hc : b.cli? r.conn = some c) (hs : b.sess? c.cid = some s) (htopic : TopicOk b c r)
    (hquota : ¬ (c.v = 5 ∧ r.qos > 0 ∧ c.quota = 0))
    (hsize : ¬ (c.v = 5 ∧ b.cfg.maxPacket ≠ 0 ∧ r.size > b.cfg.maxPacket))
    (hret : ¬ (b.cfg.retainAvail = false ∧ r.retain = true)) :
    ∃ t c2, aliasRes b.cfg (pubCli c r) r = .ok (t, c2) ∧
      b.publish r = ((b.setCli (pubCli c r)).setCli c2).publishTail c2 { r with topic := t } s :=
  publish_accepted b r c s hc hs htopic hquota hsize hret

/-- 2. `pubrel_releases`. PUBREL(pid) on a connection with a session removes `pid` from the ids awaiting PUBREL
    (whether or not it was there), and writes exactly PUBCOMP(pid) to the connection. -/
theorem pubrel_releases (b : B) (conn : String) (pid : Nat) (c : Cli) (s : Sess)
    (hc : b.cli? conn = some c) (hs : b.sess? c.cid = some s) :
    (b.pubrelIn conn pid).sess? c.cid = some { s with unack := s.unack.filter (· != pid) } ∧
    pid ∉ s.unack.filter (· != pid) ∧
    newH b (b.pubrelIn conn pid) conn = [.pubcomp pid] := by
  obtain ⟨h1, _, h3⟩ := pubrelIn_after b conn pid c s hc hs
  refine ⟨h1, by simp, ?_⟩
  rw [newH_append b _ conn _ h3]
  simp

/-- 3. refinement: the broker's handling of `unack` simulates the component model of C04 (`Inbound.step`, hook
    verdict "ok"), both in the resulting id set and in the decision to deliver. -/
theorem unack_refines_inbound (u : List Nat) (st : Inbound.St) (h : Sim u st) :
    (∀ qos pid dup, Sim (unackAfterPub u qos pid) (Inbound.step st (.pub qos pid dup .ok)).1 ∧
      (Inbound.step st (.pub qos pid dup .ok)).2.deliver = forwarded u qos pid) ∧
    (∀ pid, Sim (u.filter (· != pid)) (Inbound.step st (.pubrel pid)).1 ∧
      (Inbound.step st (.pubrel pid)).2.deliver = false) :=
  ⟨fun qos pid dup => pub_refines u st h qos pid dup, fun pid => ⟨pubrel_refines u st h pid, rfl⟩⟩

/-- 4. `qos2_exactly_once_broker`. For every run of accepted PUBLISH and PUBREL packets on one connection that
    starts with no id awaiting PUBREL, the PUBLISHes forwarded to the subscribers are exactly those that C04's
    trace-level spec demands: QoS 0/1 always; QoS 2 iff it is the first with its packet id since the last PUBREL
    of that id (`Inbound.deliverSpec` / `mustDeliver` / `openAfter`, defined on the packet history alone). -/
theorem qos2_exactly_once_broker (conn : String) (b b' : B) (evs : List Inbound.Event) (fl : List Bool)
    (h : InRun conn b evs fl b') (c : Cli) (s : Sess) (hc : b.cli? conn = some c) (hs : b.sess? c.cid = some s)
    (hempty : s.unack = []) : fl = Inbound.deliverSpec [] evs := by
  have hplain : ∀ e ∈ evs, e.plain := by
    clear hc hs hempty
    induction h with
    | nil => intro e he; cases he
    | pub _ _ _ _ _ _ _ _ _ _ _ _ _ _ _ ih =>
      intro e he
      rcases List.mem_cons.1 he with rfl | he
      · rfl
      · exact ih e he
    | rel _ _ _ _ _ _ _ _ _ _ ih =>
      intro e he
      rcases List.mem_cons.1 he with rfl | he
      · trivial
      · exact ih e he
  rw [h.sim c s hc hs Inbound.init (by intro id; simp [hempty, Inbound.init, Unack.new])]
  exact (Inbound.run_spec evs Inbound.Agrees_init hplain).2

/-- 4'. the same from any state, relative to the component model started with the same ids -/
theorem qos2_refines_component (conn : String) (b b' : B) (evs : List Inbound.Event) (fl : List Bool)
    (h : InRun conn b evs fl b') (c : Cli) (s : Sess) (hc : b.cli? conn = some c) (hs : b.sess? c.cid = some s) :
    fl = (Inbound.run (stOf s.unack (c.v == 5)) evs).2.map (·.deliver) :=
  h.sim c s hc hs _ (sim_stOf _ _)

/-! ## non-vacuity -/

/-- a v5 publisher "p" and a v4 subscriber to "t" -/
def exQ2 : B :=
  let b : B := {}
  let b := b.connect { conn := "s", cid := "sub", v := 4 }
  let b := b.subscribe "s" 1 [{ name := "t", qos := 2 }] 0
  b.connect { conn := "p", cid := "pub", v := 5 }

def exPub (pid : Nat) (dup : Bool) : PubReq := { conn := "p", topic := "t", qos := 2, pid := pid, dup := dup, tag := "m", plen := 1 }

/-- PUBLISH 7, retransmission of 7, PUBREL 7, PUBLISH 7 again: queued for the subscriber 1, 1, 1, 2 times;
    acknowledgements PUBREC 7, PUBREC 7 (v5 reason 0x10: the duplicate was matched against nothing), PUBCOMP 7,
    PUBREC 7 -/
example :
    let b1 := exQ2.publish (exPub 7 false)
    let b2 := b1.publish (exPub 7 true)
    let b3 := b2.pubrelIn "p" 7
    let b4 := b3.publish (exPub 7 false)
    ([b1, b2, b3, b4].map (fun b => (b.sess? "sub").map (fun s => s.queue.items.length))) = [some 1, some 1, some 1, some 2] ∧
    newH exQ2 b4 "p" = [.pubrec 7 0, .pubrec 7 0x10, .pubcomp 7, .pubrec 7 0] := by decide

/-- the hypotheses of an `InRun` step hold in `exQ2` -/
example : ∃ c s, exQ2.cli? "p" = some c ∧ exQ2.sess? c.cid = some s ∧ s.unack = [] ∧ c.quota ≠ 0 ∧ c.v = 5 :=
  ⟨_, _, rfl, rfl, rfl, by decide, rfl⟩

example : Inbound.deliverSpec [] [.pub 2 7 false .ok, .pub 2 7 true .ok, .pubrel 7, .pub 2 7 false .ok] =
    [true, false, false, true] := by decide

end GmqttVerif.Broker
