import GmqttVerif.Model.Broker
import GmqttVerif.Model.Takeover
import GmqttVerif.Proofs.Session
import GmqttVerif.Generated.MuHeld
/-
  C05 — Session lifecycle: resume iff it should; one connection per client id.

  Sequential part: theorems about `Broker.connect` / `unregister` / `apiExpire` / `apiTerminate` of the wire-level
  broker model (tied to the code by stream `broker-session`). Interleaving part: `Takeover`, a transition system
  whose atomic steps are the critical sections of `lockDuplicatedID` / `registerClient` / `unregisterClient`.

  The vocabulary (`afterDisplace`, `deadlinePassed`, `connackOf`, `Step`, `stepB`, `runB`, the invariant `WF`) and all
  helper lemmas are in `Proofs/Session.lean` (+ `Proofs/SessionBasic|Poll|Steps|Takeover.lean`).
-/
namespace GmqttVerif.Broker
open GmqttVerif.Deliver

/-- 1. Session Present = 1 exactly when Clean Start = 0 and a session for the client id is stored whose expiry
    deadline — measured from the end of its last connection — has not passed. (Sessions ended by a clean start,
    by termination or by expiry are not stored any more: `session_removed_by`.) -/
theorem session_present_iff (b : B) (r : ConnectReq) (hfresh : b.cli? r.conn = none) :
    ∃ code props sp, connackOf b r = some (.connack sp code props) ∧ code = 0 ∧
      (sp = true ↔ (r.clean = false ∧ ((afterDisplace b r.cid).sess? r.cid).isSome = true ∧
                    deadlinePassed (afterDisplace b r.cid) r.cid = false)) :=
  connack_sp_iff b r hfresh

/-- 2. The expiry interval in force for the new session: v3.x non-clean sessions use the configured expiry and clean
    ones end with the connection; v5 uses min(requested, configured), absent = 0. -/
theorem expiry_in_force (b : B) (r : ConnectReq) (s : Sess) (h : (b.connect r).sess? r.cid = some s) :
    s.expiry = (if r.v = 5 then (match r.se with | none => 0 | some i => min i b.cfg.sessExpiry)
                else if r.clean then 0 else b.cfg.sessExpiry) :=
  connect_expiry b r s h

/-- 2'. When a connection ends (not by TerminateSession), the session is kept iff the interval then in force — the
    DISCONNECT's Session Expiry if the v5 client sent one, else the session's — is non-zero, and its deadline is
    the end of the connection plus that interval. -/
theorem disconnect_sets_deadline (b : B) (conn : String) (c : Cli) (s : Sess)
    (hc : b.cli? conn = some c) (hs : b.sess? c.cid = some s) :
    let e := if c.v = 5 then (match c.discExpiry with | some (some x) => x | _ => s.expiry) else s.expiry
    let b' := b.unregister conn false
    (e ≠ 0 → (b'.offline.find? (fun (cd : String × Nat) => cd.1 == c.cid)) = some (c.cid, b.now + e * 1000) ∧ (b'.sess? c.cid).isSome = true) ∧
    (e = 0 → (b'.sess? c.cid) = none ∧ b'.offline.find? (fun (cd : String × Nat) => cd.1 == c.cid) = none
              ∧ ∀ cs ∈ b'.subs, cs.1 ≠ c.cid) :=
  unregister_deadline b conn c s hc hs

/-- 3. A resumed session finds its subscriptions, its queued and in-flight messages (same elements, same order, same
    packet ids) and its inbound QoS 2 identifiers intact. -/
theorem resume_keeps_state (b : B) (r : ConnectReq) (hfresh : b.cli? r.conn = none) (s0 : Sess)
    (hs : (afterDisplace b r.cid).sess? r.cid = some s0)
    (hres : r.clean = false ∧ deadlinePassed (afterDisplace b r.cid) r.cid = false) :
    let b0 := afterDisplace b r.cid
    let b' := { (b.connect r) with out := [] }
    -- `connect` = bookkeeping + the replay loop, which only moves the queue cursor and refreshes in-flight expiry
    b'.subs = b0.subs ∧
    ∃ s', b'.sess? r.cid = some s' ∧ s'.unack = s0.unack ∧
      s'.queue.items.map (fun e => (e.tag, e.pub, e.id, e.qos)) = s0.queue.items.map (fun e => (e.tag, e.pub, e.id, e.qos)) :=
  connect_resume_keeps b r hfresh s0 hs hres

/-- 4. Otherwise the client starts from an empty session: no subscriptions, empty queue, no QoS 2 identifiers.
    (`hsubs`: subscriptions belong to stored sessions — part of the invariant `WF`, which holds in every state
    reachable from the empty broker: `reachable_wellformed`. Without it the statement is false: a subscription
    entry of an id that has no session would survive, because only an existing session is terminated.) -/
theorem fresh_session_empty (b : B) (r : ConnectReq) (hfresh : b.cli? r.conn = none)
    (hsubs : ∀ cs ∈ b.subs, (b.sess? cs.1).isSome = true)
    (hnot : ¬ (r.clean = false ∧ ((afterDisplace b r.cid).sess? r.cid).isSome = true ∧
               deadlinePassed (afterDisplace b r.cid) r.cid = false)) :
    let b' := b.connect r
    (∀ cs ∈ b'.subs, cs.1 ≠ r.cid) ∧
    ∃ s', b'.sess? r.cid = some s' ∧ s'.unack = [] ∧ s'.queue.items = [] :=
  connect_fresh_empty b r hfresh hsubs hnot

/-- Every state reachable from the empty broker by wire steps is well-formed: client ids and connection names of the
    online connections are pairwise distinct, every online client has a session, expiry deadlines are kept only for
    ids that are not online, and subscriptions belong to stored sessions (`WF`; each `stepB` preserves it: `wf_step`). -/
theorem reachable_wellformed (cfg : Cfg) (steps : List Step) : WF (runB { cfg := cfg } steps) :=
  reachable_wf cfg steps

/-- 5. At every moment at most one network connection is attached to a client id, and connection names are unique:
    for every history of wire steps from the empty broker. -/
theorem one_connection_per_id (cfg : Cfg) (steps : List Step) :
    ((runB { cfg := cfg } steps).clis.map (·.cid)).Nodup ∧ ((runB { cfg := cfg } steps).clis.map (·.conn)).Nodup :=
  run_clis_nodup cfg steps

/-- 6. Nothing is delivered to a displaced (or otherwise closed) connection afterwards: every step writes only to
    connections that are online before the step, or to the connection the step itself creates. -/
theorem displaced_gets_nothing (b : B) (st : Step) (o : Out) (ho : o ∈ (stepB b st).out.drop b.out.length) :
    (b.cli? o.conn).isSome = true ∨ (∃ r, st = .connect r ∧ o.conn = r.conn) :=
  step_writes_online b st o ho

/-! ### non-vacuity -/

/-- a v4 client "c" connected with clean = false on "a", subscribed, published QoS 1 to itself, then its socket closed -/
def exOnline : B :=
  ((({ } : B).connect { conn := "a", cid := "c", clean := false }).subscribe "a" 1 [{ name := "t", qos := 1 }] 0).publish
    { conn := "a", topic := "t", qos := 1, pid := 7, tag := "m", plen := 1 }
def exStored : B := exOnline.closeIn "a"
def exResume : ConnectReq := { conn := "b", cid := "c", clean := false }

/-- the hypotheses of `resume_keeps_state` (and the right-hand side of `session_present_iff`) are satisfiable, with a
    non-empty queue and a subscription -/
example : exStored.cli? exResume.conn = none ∧
    ((afterDisplace exStored exResume.cid).sess? exResume.cid).isSome = true ∧ exResume.clean = false ∧
    deadlinePassed (afterDisplace exStored exResume.cid) exResume.cid = false ∧
    ((afterDisplace exStored exResume.cid).sess? exResume.cid).any (fun s => s.queue.items.length == 1) = true ∧
    (afterDisplace exStored exResume.cid).subs.length = 1 := by decide

/-- the hypotheses of `fresh_session_empty` are satisfiable in a state that has a stored session with subscriptions -/
example : exStored.cli? "b" = none ∧ (∀ cs ∈ exStored.subs, (exStored.sess? cs.1).isSome = true) ∧
    ¬ ((false : Bool) = false ∧ ((afterDisplace exStored "c").sess? "c").isSome = true ∧
       deadlinePassed ((afterDisplace exStored "c").sleep 7200001) "c" = false) := by decide

/-- the hypotheses of `disconnect_sets_deadline` are satisfiable -/
example : ∃ c s, exOnline.cli? "a" = some c ∧ exOnline.sess? c.cid = some s := ⟨_, _, rfl, rfl⟩

/-- a take-over writes to the displaced connection and to the new one (`displaced_gets_nothing` is not vacuous) -/
example : (((stepB exOnline (.connect exResume)).out.drop exOnline.out.length).map (·.conn)) = ["a", "b"] := by decide

end GmqttVerif.Broker

namespace GmqttVerif.Takeover

/-- 7. Take-over under every interleaving (repaired code, `asIs = false`), for any number of simultaneously
    connecting processes that use one client id: in every reachable state at most one process is attached to the id,
    `srv.clients[id]` designates exactly that process, and a process becomes registered (its CONNACK follows) only
    in a state where no other process is attached — the older connection has completed `unregisterClient`, hence is
    closed, before the newer one is acknowledged. -/
theorem takeover_exclusive (n : Nat) (s : State n) (h : Reachable false s) :
    (∀ i j, attached s i → attached s j → i = j) ∧
    (∀ i, s.registeredIn = some i ↔ attached s i) :=
  reachable_exclusive n s h

/-- 7'. every `register` step happens while nobody else is attached -/
theorem register_only_when_free (n : Nat) (s t : State n) (h : Reachable false s) (i : Fin n)
    (hst : Step false s t) (hreg : s.pc i = .locked ∧ t.pc i = .registered) :
    ∀ j, j ≠ i → ¬ attached s j :=
  register_free n s t h i hst hreg

/-- 7''. The code as it was (`asIs = true`: Unlock/Lock window when a session exists and nobody is online) violates
    the property: there is a reachable state in which two processes are registered at once. Three processes are
    needed: process 0 creates the stored session and leaves (a process that has registered never returns to
    `start`), then processes 1 and 2 race through the window. (finding F44) -/
theorem takeover_as_is_broken :
    ∃ s : State 3, Reachable true s ∧ s.pc 1 = .registered ∧ s.pc 2 = .registered :=
  as_is_two_registered

/-- the repaired protocol can register a process (the invariant of `takeover_exclusive` is not vacuous) -/
example : ∃ s : State 2, Reachable false s ∧ attached s 0 :=
  ⟨_, .step _ _ (.step _ _ .init (.checkNoSession (init 2) 0 rfl rfl rfl)) (.register _ 0 rfl rfl), .inl rfl⟩

end GmqttVerif.Takeover

/-! ### the take-over check is made under the lock it is acted on, re-read from the source on every run -/
namespace GmqttVerif.C05Source
open GmqttVerif.Generated

/-- In `lockDuplicatedID` both reads the decision rests on — "is a session stored for this id" (`sessionStore.Get`) and "is a
    client with this id attached" (`srv.clients[…]`) — are made with `srv.mu` held on every path that reaches them
    (`Generated/MuHeld.lean`, a must-hold walk of the function body that follows its branches, `continue` and `break`). This is
    the atomic step "check" of `Model/Takeover.lean`; with `takeover_exclusive` it gives one connection per client id for every
    number of simultaneous CONNECTs. A read made before the lock can be stale by the time it is acted on: two first-time
    CONNECTs with one id would both see "no session" and both register. -/
theorem takeover_check_under_mu : takeoverCheckCodes = [1, 1] := by decide

end GmqttVerif.C05Source
