import GmqttVerif.Model.Codec.Size
import GmqttVerif.Proofs.Codec.Prim
import GmqttVerif.Proofs.Codec.Utf8
import GmqttVerif.Proofs.Codec.TopicValid
import GmqttVerif.Proofs.Codec.Props
import GmqttVerif.Proofs.Codec.Packets
import GmqttVerif.Proofs.Codec.Size
/-
  C06 — Packet codec is total, bounded and round-trips for every input.

  Property theorems only; helper lemmas live in `Proofs/Codec/*.lean`, the executable model in
  `Model/Codec/{Prim,Utf8,TopicValid,PropTable,Props,Packets,Size}.lean`. The model is tied to
  `pkg/packets` and `message.go` by the correspondence streams of `bin/check C06` (driver `drive_codec`,
  oracle `oracle_codec`), and the property is re-checked on the implementation's outputs against an independent
  MQTT codec (vlib/props/c06.py).

  The model mirrors the code of /repo *after* the fixes for F21, F22, F23, F25, F26, N5, N7 (findings/c06-*.md, all
  committed as `fix:` commits); the `Orig.*` definitions keep the code as it was found where a fix touches it, and the
  `…_orig_violated` theorems below are the machine-checked witnesses that the code as found violated the property.
  F24 (allocation of the declared Remaining Length) is recorded, not fixed: `alloc_proportional_violated`.

  Totality / "never hangs" is by construction: every model function is a total Lean function (structural
  recursion, or well-founded recursion on the length of the unread input).

  ## vocabulary (definitions in Proofs/Codec/*.lean)
  * `Bytes = List Nat`, `AllBytes bs`: every element `< 256`.
  * `decVbi` = Go `EncodeRemainLength` (the READER of a variable byte integer), `encVbi` = Go `DecodeRemainLength`
    (the WRITER) — gmqtt's names are swapped.
  * `VbiTerminated pre`: `pre` ends with a byte `< 128`.
  * `IsScalar c`, `encodeCp c`, `utf8Of cps`, `MqttChar c`, `SpecUtf8 bs`: RFC 3629 / MQTT 1.5.4.
  * `levels bs` / `splitFirst bs`: the topic levels (split at `/`); `PlainLevel`, `LevelsOK`, `NameShape`,
    `FilterShape`, `SpecName`, `SpecFilter`, `SpecV5`: MQTT 4.7 / 4.8.2 level-wise.
-/
namespace GmqttVerif.Codec

/-! ## 1. primitives -/

/-- Variable byte integer round trip: what `DecodeRemainLength` writes for any `n < 268 435 456`,
    `EncodeRemainLength` reads back as `n`, consuming exactly those bytes and nothing of what follows. -/
theorem vbi_roundtrip (n : Nat) (h : n < 268435456) (rest : Bytes) :
    ∃ bs, encVbi n = .ok bs ∧ decVbi (bs ++ rest) = .ok (n, rest) := by
  refine ⟨vbiDigits 4 n, ?_, decVbi_vbiDigits n h rest⟩
  simp [encVbi, h]

/-- The writer refuses values that have no encoding, and the reader never returns one. -/
theorem vbi_range (n : Nat) :
    (268435456 ≤ n → encVbi n = .error .malformed) ∧
    (∀ bs rest, decVbi bs = .ok (n, rest) → n ≤ 268435455) := by
  refine ⟨fun h => by simp [encVbi, Nat.not_lt.mpr h], fun bs rest h => ?_⟩
  exact decVbiAux_le bs 0 0 n rest h

/-- The encoding has the minimal length 1–4 that `TotalBytes` / `getVariablelenght` assume. -/
theorem vbi_canonical_length (n : Nat) (h : n < 268435456) : (vbiDigits 4 n).length = vbiLen n :=
  vbiDigits_length n h

/-- No over-read: the reader consumes a prefix `pre` of its input and hands back exactly the rest.
    If `pre` is a complete integer (ends with a byte < 128) the result is independent of whatever follows;
    otherwise the input ended inside the integer — gmqtt then treats `io.EOF` as a terminating zero byte —
    and nothing is left unread. -/
theorem vbi_decode_consumes_prefix (bs : Bytes) (n : Nat) (rest : Bytes) (h : decVbi bs = .ok (n, rest)) :
    ∃ pre, bs = pre ++ rest ∧
      ((VbiTerminated pre ∧ ∀ rest', decVbi (pre ++ rest') = .ok (n, rest')) ∨ (rest = [] ∧ ¬ VbiTerminated pre)) :=
  decVbiAux_prefix bs 0 0 n rest h

theorem u16_roundtrip (n : Nat) (h : n < 65536) (rest : Bytes) : readU16 (writeU16 n ++ rest) = .ok (n, rest) :=
  readU16_writeU16 n h rest

theorem u32_roundtrip (n : Nat) (h : n < 4294967296) (rest : Bytes) : readU32 (writeU32 n ++ rest) = .ok (n, rest) :=
  readU32_writeU32 n h rest

/-- decode ⇒ re-encode for the fixed-width integers: the bytes read are exactly the bytes written -/
theorem u16_u32_reencode (bs : Bytes) (hb : AllBytes bs) (n : Nat) (rest : Bytes) :
    (readU16 bs = .ok (n, rest) → bs = writeU16 n ++ rest ∧ n < 65536) ∧
    (readU32 bs = .ok (n, rest) → bs = writeU32 n ++ rest ∧ n < 4294967296) :=
  ⟨readU16_inv bs n rest hb, readU32_inv bs n rest hb⟩

/-- Binary Data round trip (`writeBinary` / `readUTF8String(false, …)`) for every field of at most 65 535 bytes,
    and conversely every accepted field re-encodes to the bytes it was read from. -/
theorem binary_roundtrip (s : Bytes) (rest : Bytes) :
    (s.length ≤ 65535 → readBin (writeBin s ++ rest) = .ok (s, rest)) ∧
    (∀ bs, AllBytes bs → readBin bs = .ok (s, rest) → bs = writeBin s ++ rest ∧ s.length ≤ 65535) :=
  ⟨fun h => readBin_writeBin s h rest, fun bs hb h => readBin_inv bs s rest hb h⟩

/-- UTF-8 String round trip (`writeUTF8String` / `readUTF8String(true, …)`): a string of at most 65 535 bytes
    is read back iff it is an MQTT UTF-8 string. -/
theorem string_roundtrip (s : Bytes) (hl : s.length ≤ 65535) (rest : Bytes) :
    (SpecUtf8 s → readStr true (writeBin s ++ rest) = .ok (s, rest)) ∧
    (¬ SpecUtf8 s → readStr true (writeBin s ++ rest) = .error .malformed) := by
  have e : s.length % 65536 / 256 % 256 * 256 + s.length % 65536 % 256 = s.length := by omega
  constructor
  · intro h
    have hv := (validUTF8_iff s).mpr h
    simp only [writeBin, writeU16, List.cons_append, List.nil_append, readStr, e]
    simp [hv]
  · intro h
    have hv : validUTF8 s = false := by
      cases hvv : validUTF8 s with
      | false => rfl
      | true => exact (h ((validUTF8_iff s).mp hvv)).elim
    simp only [writeBin, writeU16, List.cons_append, List.nil_append, readStr, e]
    simp [hv]

/-! ## 2. UTF-8 and topic validity = MQTT 1.5.4 / 4.7 / 4.8.2 -/

/-- `ValidUTF8` (F22 fixed) accepts exactly the well-formed UTF-8 encodings of sequences of Unicode scalar
    values other than U+0000–U+001F and U+007F–U+009F. -/
theorem utf8_validity_spec (bs : Bytes) : validUTF8 bs = true ↔ SpecUtf8 bs := validUTF8_iff bs

/-- A topic name field (`readUTF8String(true,…)` then `ValidTopicName`) is accepted exactly when MQTT 4.7 allows it:
    a non-empty UTF-8 string none of whose levels contains `+` or `#`. -/
theorem topic_name_validity_spec (bs : Bytes) :
    (validUTF8 bs && validTopicName true bs) = true ↔ SpecName bs := validName_iff bs

/-- A topic filter field is accepted exactly when MQTT 4.7 allows it: non-empty UTF-8, every level either free of
    wildcards or exactly `+`, the last level possibly exactly `#`. -/
theorem topic_filter_validity_spec (bs : Bytes) :
    (validUTF8 bs && validTopicFilter true bs) = true ↔ SpecFilter bs := validFilter_iff bs

/-- MQTT 5 subscription filters incl. `$share/{ShareName}/{filter}` (ShareName non-empty, no `/ + #`). -/
theorem v5_topic_validity_spec (bs : Bytes) :
    (validUTF8 bs && validV5Topic bs) = true ↔ SpecV5 bs := validV5_iff bs

/-! ### the unchanged tree violates the three statements above (findings F21, F22, F26) -/

/-- F22: U+FFFD (EF BF BD) is well-formed UTF-8 of an admitted code point, the unchanged `ValidUTF8` rejects it -/
theorem utf8_validity_orig_violated :
    SpecUtf8 [0xEF, 0xBF, 0xBD] ∧ Orig.validUTF8 [0xEF, 0xBF, 0xBD] = false := by
  refine ⟨⟨[0xFFFD], ?_, rfl⟩, ?_⟩
  · intro c hc; simp at hc; subst hc; simp [MqttChar, IsScalar]
  · rw [Orig.validUTF8]
    simp [decodeRune, firstInfo, decodeMulti, isCont, ctlRune, runeError]

/-- F21: `"+a"` has a level that contains `+` and more, the unchanged `ValidTopicFilter` accepts it -/
theorem topic_filter_validity_orig_violated :
    ¬ FilterShape [0x2B, 0x61] ∧ Orig.validTopicFilter true [0x2B, 0x61] = true := by
  refine ⟨?_, ?_⟩
  · rw [filterShape_iff]
    simp [filterBytes, headNotSlash, cHash, cPlus, cSlash]
  · simp [Orig.validTopicFilter, Orig.validTopicFilterLoop, decodeRune, firstInfo, Orig.badRune, runeError, cHash,
      cPlus, cSlash, prevNotSlash, headNotSlash]

/-- F26: the empty string is not a topic name [MQTT-4.7.3-1], the unchanged `ValidTopicName` accepts it -/
theorem topic_name_validity_orig_violated : ¬ NameShape [] ∧ Orig.validTopicName true [] = true := by
  refine ⟨by simp [NameShape], by simp [Orig.validTopicName, Orig.validTopicNameLoop]⟩

/-! ## 3. properties (`Properties.Unpack` / `Pack`, incl. the will variant) -/

/-- `WFProps t ps` (Proofs/Codec/Props.lean): ids strictly ascending (= one entry per property, in `Pack` order), every
    value of the right wire type and within the limits the decoder enforces (bool 0/1, Receive Maximum / Maximum
    Packet Size / Topic Alias / Subscription Identifier non-zero, strings ≤ 65535 bytes of MQTT UTF-8, Response Topic a
    topic name, exactly one Subscription Identifier, ≥ 1 User Property), every id permitted for packet type `t`
    (`none` = will properties), Authentication Data only with Authentication Method, total length < 2^28.

    Round trip: what `Pack` writes for a well-formed property set, `Unpack` reads back unchanged, consuming exactly the
    property length field and the declared number of bytes. -/
theorem props_roundtrip (t : Option Nat) (ps : Props) (h : WFProps t ps) (rest : Bytes) :
    unpackProps t (packProps (some ps) ++ rest) = .ok (ps, rest) := unpackProps_packProps t ps h rest

/-- the will variant: `PackWillProperties` writes the same bytes as `Pack` for a will property set -/
theorem props_roundtrip_will (ps : Props) (h : WFProps none ps) (rest : Bytes) :
    unpackProps none (packWillProps (some ps) ++ rest) = .ok (ps, rest) := by
  rw [packWillProps_eq ps h.2.2.1]
  exact unpackProps_packProps none ps h rest

/-- Accepted ⇒ well-formed ⇒ re-encodes to bytes that decode to the same property set: every value `Unpack`
    returns (for any byte string whatsoever: properties in any order, interleaved user properties, non-canonical
    Subscription Identifier, over-long declared length …) satisfies `WFProps`, hence round-trips. -/
theorem props_reencode_stable (t : Option Nat) (bufr : Bytes) (hb : AllBytes bufr) (ps : Props) (rest : Bytes)
    (h : unpackProps t bufr = .ok (ps, rest)) :
    WFProps t ps ∧ ∀ rest', unpackProps t (packProps (some ps) ++ rest') = .ok (ps, rest') :=
  ⟨(unpackProps_wf t bufr ps rest hb h).1, fun rest' => unpackProps_reencode t bufr ps rest rest' hb h⟩

/-- Facts about the tables of `Model/Codec/PropTable.lean` that the model relies on (the association-list
    representation writes properties in ascending id order): re-checked whenever the table file is regenerated
    from `properties.go`. `Properties.Pack` writes in ascending id order; the reader table, the whitelist and the
    pack order list the same 27 ids; the will properties are among them, ascending. -/
theorem prop_table_facts :
    packOrder.Pairwise (· < ·) ∧ propKinds.map (·.1) = packOrder ∧ validProps.map (·.1) = packOrder
      ∧ willProps.Pairwise (· < ·) ∧ (∀ i ∈ willProps, i ∈ packOrder) ∧ kindOf 0x26 = some .user := by
  refine ⟨by decide, by decide, by decide, by decide, by decide, by decide⟩

/-- Total and bounded: `Unpack` is a total function; when it succeeds it has consumed the property-length field and
    then exactly `min n available` bytes (`rest = after.drop n`), and the outcome depends only on that window:
    replacing everything behind the window changes nothing. -/
theorem props_unpack_total_and_bounded (t : Option Nat) (bufr : Bytes) (ps : Props) (rest : Bytes)
    (h : unpackProps t bufr = .ok (ps, rest)) :
    ∃ n pre after, bufr = pre ++ after ∧ decVbi bufr = .ok (n, after) ∧ n ≤ 268435455 ∧ rest = after.drop n ∧
      (VbiTerminated pre → ∀ after', after'.take n = after.take n →
        unpackProps t (pre ++ after') = .ok (ps, after'.drop n)) := by
  have h' := h
  simp only [unpackProps] at h
  cases hd : decVbi bufr with
  | error e => rw [hd] at h; cases h
  | ok r =>
    obtain ⟨n, after⟩ := r
    obtain ⟨pre, hpre, hcase⟩ := decVbiAux_prefix bufr 0 0 n after hd
    have hle := decVbiAux_le bufr 0 0 n after hd
    refine ⟨n, pre, after, hpre, rfl, hle, ?_, ?_⟩
    · rw [hd] at h
      simp only at h
      split at h
      · rename_i h0; cases h; subst h0; simp
      · split at h
        · cases h
        · split at h
          · cases h
          · cases h; rfl
    · intro hterm after' htake
      rcases hcase with ⟨_, hind⟩ | ⟨_, hnt⟩
      · have hd' : decVbi (pre ++ after') = .ok (n, after') := hind after'
        simp only [unpackProps, hd'] at h' ⊢
        rw [hd] at h'
        simp only at h'
        rw [htake]
        split at h'
        · cases h'; rename_i h0; rw [if_pos h0]; subst h0; simp
        · rename_i h0
          rw [if_neg h0]
          split at h'
          · cases h'
          · rename_i ps' hl
            split at h'
            · cases h'
            · rename_i hc
              cases h'
              rw [if_neg hc]
      · exact (hnt hterm).elim

/-! ## 4. packets: all 15 types × MQTT 3.1 / 3.1.1 / 5

  `WF v p` (Proofs/Codec/Packets.lean) is the explicit well-formedness predicate per packet type for reader version
  `v`: field ranges (ids, QoS, lengths ≤ 65535), MQTT UTF-8 where the decoder demands it, valid topic name / filters,
  flag consistency (CONNECT will flags, PUBLISH dup/QoS 0), properties `WFProps` for the packet type when — and only
  when — the version is 5, and the nil-vs-empty shape of optional fields exactly as `Unpack` leaves them
  (e.g. PUBACK: no properties ⇒ reason code 0; v5 DISCONNECT always carries a property set). `readPacket_wf` shows
  every accepted packet satisfies it, so it excludes nothing the decoder can produce. -/

/-- `decode_no_overread`: `ReadPacket` consumes a prefix of the stream and returns exactly the rest. When it returns a
    packet, the prefix is the first byte, the Remaining Length field and exactly the declared number of body bytes
    (`consumed = 1 + len(vbi) + n`), and — provided the length field was complete — the result is the same whatever
    follows the packet: the body parser sees only the declared window. (On error, too, what is left is a suffix.) -/
theorem decode_no_overread (v : Nat) (bs : Bytes) :
    (∃ pre, bs = pre ++ (readPacket v bs).rest) ∧
    ∀ p, (readPacket v bs).res = .ok p →
      ∃ first vbi window n, bs = first :: (vbi ++ (window ++ (readPacket v bs).rest)) ∧ window.length = n
        ∧ decVbi (vbi ++ (window ++ (readPacket v bs).rest)) = .ok (n, window ++ (readPacket v bs).rest)
        ∧ (VbiTerminated vbi → ∀ ext, readPacket v (first :: (vbi ++ (window ++ ext))) = { res := .ok p, rest := ext }) :=
  readPacket_no_overread v bs

/-- `encode_decode`: every well-formed packet value of every type packs, and `ReadPacket` under the same reader version
    reads the packed bytes back to the identical value, consuming exactly those bytes. -/
theorem encode_decode (v : Nat) (hv : v = 3 ∨ v = 4 ∨ v = 5) (p : Packet) (h : WF v p) (ext : Bytes) :
    ∃ bs, pack p = .ok bs ∧ readPacket v (bs ++ ext) = { res := .ok p, rest := ext } :=
  encode_decode_all v hv p h ext

/-- every packet the decoder accepts — from any byte string — is well-formed -/
theorem decode_wf (v : Nat) (hv : v = 3 ∨ v = 4 ∨ v = 5) (bs : Bytes) (hb : AllBytes bs) (p : Packet)
    (h : (readPacket v bs).res = .ok p) : WF v p :=
  readPacket_wf v hv bs p hb h

/-- `reencode_stable`: every accepted packet re-encodes (`Pack` succeeds) to bytes that decode to an equal packet,
    for every packet type and version. With the unchanged tree this failed for v3.1 CONNECT (F23) and CONNECT with
    Will QoS 3 (N7); the model carries the fixes. -/
theorem reencode_stable (v : Nat) (hv : v = 3 ∨ v = 4 ∨ v = 5) (bs : Bytes) (hb : AllBytes bs) (p : Packet)
    (h : (readPacket v bs).res = .ok p) (ext : Bytes) :
    ∃ out, pack p = .ok out ∧ readPacket v (out ++ ext) = { res := .ok p, rest := ext } :=
  reencode_stable_all v hv bs p hb h ext

/-- `size_exact` (packets): whenever `Pack` succeeds, `packets.TotalBytes` — computed from the Remaining Length that `Pack`
    caches in the fixed header — equals the number of bytes written. -/
theorem size_exact (p : Packet) (out : Bytes) (h : pack p = .ok out) :
    ∃ t fl body, bodyOf p = .ok (t, fl, body) ∧ totalBytes body.length = out.length := by
  simp only [pack] at h
  cases hb : bodyOf p with
  | error e => rw [hb] at h; cases h
  | ok r =>
    obtain ⟨t, fl, body⟩ := r
    rw [hb] at h
    exact ⟨t, fl, body, rfl, totalBytes_frame t fl body out h⟩

/-- `size_exact` (messages): `Message.TotalBytes(version)` equals the length of the PUBLISH that `MessageToPublish` +
    `Pack` produce, for every message with QoS ≤ 2 whose property block and remaining length are below 2^28
    (no condition on the strings: over-long fields are counted the way they are written). N5 fixed. -/
theorem msg_size_exact' (v : Nat) (m : Message) (hq : m.qos ≤ 2) (hp : msgPropsLen m ≤ 268435455)
    (h : msgRemLen v m ≤ 268435455) :
    ∃ out, pack (.publish (messageToPublish m v)) = .ok out ∧ out.length = msgTotalBytes v m :=
  msg_size_exact v m hq hp h

/-- N5: with the unchanged `MessageToPublish` a non-nil empty Correlation Data makes the packet 3 bytes longer than
    `TotalBytes` says (topic "a", payload "b": 7 vs 10) -/
def n5Witness : Message :=
  { dup := false, qos := 0, retained := false, topic := [0x61], payload := [0x62], pid := 0, contentType := [], correlationData := some [], messageExpiry := 0, payloadFormat := 0, responseTopic := [], subIds := [], user := [] }

theorem msg_size_exact_orig_violated :
    msgTotalBytes 5 n5Witness = 7 ∧
    ∃ out, pack (.publish (Orig.messageToPublish n5Witness 5)) = .ok out ∧ out.length = 10 :=
  ⟨by decide, [0x30, 0x08, 0x00, 0x01, 0x61, 0x03, 0x09, 0x00, 0x00, 0x62], rfl, rfl⟩

/-- F24 (recorded): the full-strength statement "memory allocated up front is proportional to the bytes supplied"
    is FALSE for the code as it is: five bytes make `Publish.Unpack` allocate 268 435 455 bytes. -/
def AllocProportionalStatement : Prop := ∀ v bs, allocBytes v bs ≤ 2 * bs.length + 4096

theorem alloc_proportional_violated : ¬ AllocProportionalStatement := by
  intro h
  have := h 4 [0x30, 0xFF, 0xFF, 0xFF, 0x7F]
  have e : allocBytes 4 [0x30, 0xFF, 0xFF, 0xFF, 0x7F] = 268435455 := by decide
  rw [e] at this
  simp at this

/-- what does hold: whenever a packet is returned, the allocation was covered by bytes actually received -/
theorem alloc_proportional_partial (v : Nat) (bs : Bytes) (p : Packet) (h : (readPacket v bs).res = .ok p) :
    allocBytes v bs ≤ bs.length := by
  cases bs with
  | nil => simp [allocBytes]
  | cons first s1 =>
    simp only [readPacket, allocBytes] at h ⊢
    cases hd : decVbi s1 with
    | error e => simp
    | ok r =>
      obtain ⟨n, s2⟩ := r
      rw [hd] at h
      simp only [newPacket] at h ⊢
      have hl := decVbiAux_len' s1 0 0 n s2 hd
      cases hp : planOf (first / 16) (first % 16) n v with
      | fail e => simp
      | done q => simp
      | window e f =>
        rw [hp] at h
        simp only [runPlan] at h ⊢
        obtain ⟨hn, _⟩ := withWindow_res h
        simp only [List.length_cons]
        omega

/-! ### non-vacuity -/

/-- a v5 PUBLISH with QoS 1, topic "a/b", payload format, topic alias, two user properties and a payload is well-formed -/
example : WF 5 (.publish { version := 5, dup := true, qos := 1, retain := false, topic := [0x61, 0x2F, 0x62], pid := 7, payload := [1, 2, 3, 255], props := some [(0x01, .byte 1), (0x23, .u16 5), (0x26, .users [([0x6B], [0x76]), ([], [])])] }) := by
  have ht : validUTF8 [0x61, 0x2F, 0x62] = true := validUTF8_ascii _ (by simp)
  have hk : validUTF8 [0x6B] = true := validUTF8_ascii _ (by simp)
  have hv : validUTF8 [0x76] = true := validUTF8_ascii _ (by simp)
  have he : validUTF8 [] = true := validUTF8_ascii _ (by simp)
  have hn : validTopicName true [0x61, 0x2F, 0x62] = true := by
    have := (validName_iff [0x61, 0x2F, 0x62]).mpr ⟨(validUTF8_iff _).mp ht, by
      rw [nameShape_iff]; simp [nameBytes, cPlus, cHash]⟩
    simp only [Bool.and_eq_true] at this
    exact this.2
  refine ⟨rfl, by simp, by simp, by simp, by simp, ht, fun _ => hn, ?_, by
    simp [publishBody, v5, packProps, packBody, encEntry, writeBin, writeU16, encVbiOrNil, encVbi, vbiDigits]⟩
  rw [if_pos (by simp [v5])]
  refine ⟨_, rfl, ⟨by simp [SortedProps], ?_, ?_, by simp [Props.has, Props.get, List.lookup],
    by simp [packBody, encEntry, writeBin, writeU16, vbiMax]⟩, by simp⟩
  · intro e he'
    simp only [List.mem_cons, List.not_mem_nil, or_false] at he'
    rcases he' with rfl | rfl | rfl <;>
      simp [wfEntry, kindOf, propKinds, List.lookup, validU16, hk, hv, he]
  · intro e he'
    simp only [List.mem_cons, List.not_mem_nil, or_false] at he'
    rcases he' with rfl | rfl | rfl <;> decide

/-- a v3.1.1 SUBSCRIBE with two filters and a v5 PUBACK with a reason string are well-formed -/
example : WF 4 (.subscribe { version := 4, pid := 10, props := none, topics := [{ name := [0x61, 0x2F, 0x2B], qos := 1, noLocal := false, rap := false, retainHandling := 0 }, { name := [0x23], qos := 2, noLocal := false, rap := false, retainHandling := 0 }] }) := by
  have h1 : validUTF8 [0x61, 0x2F, 0x2B] = true := validUTF8_ascii _ (by simp)
  have h2 : validUTF8 [0x23] = true := validUTF8_ascii _ (by simp)
  have f1 : validTopicFilter true [0x61, 0x2F, 0x2B] = true := by
    have := (validFilter_iff [0x61, 0x2F, 0x2B]).mpr ⟨(validUTF8_iff _).mp h1, by
      rw [filterShape_iff]; simp [filterBytes, headNotSlash, cPlus, cHash, cSlash]⟩
    simp only [Bool.and_eq_true] at this
    exact this.2
  have f2 : validTopicFilter true [0x23] = true := by
    have := (validFilter_iff [0x23]).mpr ⟨(validUTF8_iff _).mp h2, by
      rw [filterShape_iff]; simp [filterBytes, headNotSlash, cPlus, cHash]⟩
    simp only [Bool.and_eq_true] at this
    exact this.2
  refine ⟨rfl, by simp, by simp, ?_, by simp [WFOptProps, v5], by
    simp [subscribeBody, v5, writeBin, writeU16]⟩
  intro t ht
  simp only [List.mem_cons, List.not_mem_nil, or_false] at ht
  rcases ht with rfl | rfl
  · exact ⟨by simp, h1, by simp [v5, f1], by simp, by simp [v5]⟩
  · exact ⟨by simp, h2, by simp [v5, f2], by simp, by simp [v5]⟩

example : WF 5 (.puback { version := 5, pid := 65535, code := 0x10, props := some [(0x1F, .str [0x6F, 0x6B])] }) := by
  have h1 : validUTF8 [0x6F, 0x6B] = true := validUTF8_ascii _ (by simp)
  refine ⟨rfl, by simp, by simp, ?_, by
    simp [ackBody, v5, packProps, packBody, encEntry, writeBin, writeU16, encVbiOrNil, encVbi, vbiDigits]⟩
  rw [if_pos (by simp [v5])]
  refine ⟨by simp, fun l hl => ?_⟩
  simp only [Option.some.injEq] at hl
  subst hl
  refine ⟨by simp [SortedProps], ?_, ?_, by simp [Props.has, Props.get, List.lookup],
    by simp [packBody, encEntry, writeBin, writeU16, vbiMax]⟩
  · intro e he'
    simp only [List.mem_cons, List.not_mem_nil, or_false] at he'
    subst he'
    simp [wfEntry, kindOf, propKinds, List.lookup, validStr, h1]
  · intro e he'
    simp only [List.mem_cons, List.not_mem_nil, or_false] at he'
    subst he'
    decide

/-- a CONNECT property set with five kinds of properties (u32, string, binary, u16, two user properties) is well-formed -/
example : WFProps (some tCONNECT)
    [(0x11, .u32 60), (0x15, .str [0x6D]), (0x16, .str [1, 2, 255]), (0x21, .u16 10),
     (0x26, .users [([0x61], [0x62]), ([0x63], [])])] := by
  have hm : validUTF8 [0x6D] = true := validUTF8_ascii _ (by simp)
  have ha : validUTF8 [0x61] = true := validUTF8_ascii _ (by simp)
  have hb : validUTF8 [0x62] = true := validUTF8_ascii _ (by simp)
  have hc : validUTF8 [0x63] = true := validUTF8_ascii _ (by simp)
  have he : validUTF8 [] = true := validUTF8_ascii _ (by simp)
  refine ⟨by simp [SortedProps], ?_, ?_, by simp [Props.has, Props.get, List.lookup], by simp [packBody, encEntry, writeBin, writeU16, writeU32, vbiMax]⟩
  · intro e he'
    simp only [List.mem_cons, List.not_mem_nil, or_false] at he'
    rcases he' with rfl | rfl | rfl | rfl | rfl <;>
      simp [wfEntry, kindOf, propKinds, List.lookup, validU32, validU16, validStr, hm, ha, hb, hc, he]
  · intro e he'
    simp only [List.mem_cons, List.not_mem_nil, or_false] at he'
    rcases he' with rfl | rfl | rfl | rfl | rfl <;> decide


/-- "sport/+/é/#" is a filter per the specification (so the right-hand sides above are inhabited by non-trivial values) -/
example : SpecFilter [0x73, 0x2F, 0x2B, 0x2F, 0xC3, 0xA9, 0x2F, 0x23] := by
  refine ⟨⟨[0x73, 0x2F, 0x2B, 0x2F, 0xE9, 0x2F, 0x23], ?_, by simp [utf8Of, encodeCp]⟩, ?_⟩
  · intro c hc
    simp only [List.mem_cons, List.not_mem_nil, or_false] at hc
    rcases hc with rfl | rfl | rfl | rfl | rfl | rfl | rfl <;> simp [MqttChar, IsScalar]
  · rw [filterShape_iff]
    simp [filterBytes, headNotSlash, cHash, cPlus, cSlash]

/-- "$share/g/a" is a shared subscription filter -/
example : SpecV5 ([0x24, 0x73, 0x68, 0x61, 0x72, 0x65, 0x2F] ++ [0x67] ++ 0x2F :: [0x61]) := by
  refine ⟨⟨[0x24, 0x73, 0x68, 0x61, 0x72, 0x65, 0x2F, 0x67, 0x2F, 0x61], ?_, by simp [utf8Of, encodeCp]⟩, ?_⟩
  · intro c hc
    simp only [List.mem_cons, List.not_mem_nil, or_false] at hc
    rcases hc with rfl | rfl | rfl | rfl | rfl | rfl | rfl | rfl | rfl | rfl <;> simp [MqttChar, IsScalar]
  · rw [if_pos (by simp [sharePrefix])]
    refine ⟨[0x67], [0x61], by simp [sharePrefix, cSlash], by simp, by simp [cSlash], by simp [cPlus], by simp [cHash], ?_⟩
    rw [filterShape_iff]
    simp [filterBytes, headNotSlash, cHash, cPlus]

/-- a 4-byte variable byte integer round-trips -/
example : decVbi ([0xFF, 0xFF, 0xFF, 0x7F] ++ [1, 2]) = .ok (268435455, [1, 2]) :=
  decVbi_vbiDigits 268435455 (by omega) [1, 2]

end GmqttVerif.Codec
