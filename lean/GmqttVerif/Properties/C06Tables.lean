import GmqttVerif.Model.Codec.SourceTie
/-
  C06 — regenerated tie of the property tables and the property loop.

  `Generated/Codec.lean` is rewritten from `pkg/packets/properties.go` / `packets.go` by `harness/cmd/extract` on every
  check run; the theorems below are therefore re-checked by the kernel against what the code says NOW. Together they say
  that the hand-written tables of `Model/Codec/PropTable.lean` and the property loop of `Model/Codec/Props.lean`
  (about which `Properties/C06.lean` proves totality, round trips and sizes) are a faithful transcription of the source:

    * `ValidateID` (table `ValidProperties`) = `propAllowed`, for every type and id           (`source_allowed_eq_model`)
    * the `switch propType` of `Properties.Unpack` gives every id the reader `kindOf` gives it  (`source_switch_kinds`)
    * every simple case tests for a duplicate on the field it assigns, no two ids share a field (`source_dupcheck_fields`)
    * the only validator closures are the three the model has                                   (`source_validators`)
    * cases of another shape, loop prologue / head / default / tail, helper bodies: the text the model transcribes,
      compared by fingerprint                     (`source_inline_cases`, `source_loop_shape`, `source_helpers`)
    * `UnpackWillProperties` handles exactly `willProps`, each id as `Unpack` does              (`source_will_cases`)
    * `Pack` / `PackWillProperties` write in `packOrder` / `willProps` order with the writer of the id's kind and
      from the field `Unpack` assigns                                                           (`source_pack_order`)
    * the packet-type and property-id constants are the numbers the model uses                  (`source_consts`)

  Texts are compared through their FNV-1a-64 fingerprints (computed by the extractor; `String` equality is very slow in
  the kernel); `SourceTie.selfCheck`, run by `oracle_codecfacts` on every check, recomputes the expected fingerprints
  from the expected texts. A change of the source that alters any of these facts makes this module fail to build;
  `SourceTie.diffs` then names the entries, which seed the search for a failing packet.
-/
namespace GmqttVerif.Codec
open GmqttVerif.Generated

/-! ### generic lemmas -/

theorem mem_insNat (a x : Nat) (l : List Nat) : x ∈ insNat a l ↔ x = a ∨ x ∈ l := by
  induction l with
  | nil => simp [insNat]
  | cons b t ih =>
    unfold insNat
    split
    · simp
    · simp [ih]; constructor
      · rintro (h | h | h) <;> simp [h]
      · rintro (h | h | h) <;> simp [h]

theorem mem_insSort (x : Nat) (l : List Nat) : x ∈ insSort l ↔ x ∈ l := by
  induction l with
  | nil => simp [insSort]
  | cons a t ih => simp [insSort, mem_insNat, ih]

theorem contains_insSort (x : Nat) (l : List Nat) : (insSort l).contains x = l.contains x := by
  rw [Bool.eq_iff_iff]; simp [mem_insSort]

theorem lookup_map_snd {β γ : Type} (f : β → γ) (id : Nat) (l : List (Nat × β)) :
    List.lookup id (l.map (fun r => (r.1, f r.2))) = (List.lookup id l).map f := by
  induction l with
  | nil => rfl
  | cons r t ih =>
    obtain ⟨k, v⟩ := r
    simp only [List.map_cons, List.lookup_cons]
    split <;> simp_all

/-! ### the tables -/

/-- The source's `ValidProperties` is the model's `validProps` (rows in id order, packet types as sets). -/
theorem source_validProps_eq : codecValidProps = validPropsSorted := by decide +kernel

/-- `ValidateID(t, id)` as the source's `ValidProperties` decides it is the model's `propAllowed` — for every packet
    type and every property identifier. -/
theorem source_allowed_eq_model (t id : Nat) : propAllowed t id = srcAllowed t id := by
  unfold propAllowed srcAllowed
  rw [source_validProps_eq, validPropsSorted, lookup_map_snd]
  cases List.lookup id validProps with
  | none => rfl
  | some l => simp [mem_insSort]

theorem source_kindTable_eq : kindTable codecUnpackKinds = propKinds.map (fun r => (r.1, some r.2)) := by decide +kernel

/-- The reader the source's `switch propType` uses for an identifier is the kind the model's `kindOf` looks up;
    identifiers the switch sends to `default:` are unknown to the model too — for every identifier. -/
theorem source_switch_kinds (id : Nat) : kindOf id = srcKindN id := by
  unfold kindOf srcKindN
  rw [source_kindTable_eq, lookup_map_snd]
  cases List.lookup id propKinds <;> rfl

/-- Every case of the shape `p.F, err = propertyReadX(p.G, …)` has `F = G` (the duplicate test looks at the field that
    is assigned), and no field is assigned by two identifiers. -/
theorem source_dupcheck_fields :
    (∀ c ∈ codecUnpackFields, c.2.1 = c.2.2) ∧ (codecUnpackFields.map (·.2.1)).Nodup
    ∧ (∀ c ∈ codecWillUnpackFields, c ∈ codecUnpackFields) := by
  decide +kernel

/-- The validator closures of the source are exactly those of `validStr` (0x08), `validU16` (0x21), `validU32` (0x27). -/
theorem source_validators :
    codecUnpackValidatorsH = expValidatorsH ∧ codecWillUnpackValidatorsH = expValidatorsH.take 1 := by
  decide +kernel

theorem source_inline_cases :
    codecUnpackInlineH = expUnpackInlineH ∧ codecWillUnpackInlineH = expUnpackInlineH.drop 2
    ∧ codecPackInlineH = expPackInlineH ∧ codecWillPackInlineH = expPackInlineH.drop 1 := by
  decide +kernel

theorem source_loop_shape :
    codecUnpackShapeH = expUnpackShapeH ∧ codecWillUnpackShapeH = expWillUnpackShapeH
    ∧ codecPackPrologueH = expPackPrologueH ∧ codecWillPackPrologueH = expPackPrologueH := by
  decide +kernel

theorem source_helpers : codecHelpersH = expHelpersH := by decide +kernel

/-- `UnpackWillProperties` handles exactly the identifiers of `willProps`, and gives each the kind `Unpack` gives it. -/
theorem source_will_cases :
    codecWillUnpackKinds.map (·.1) = willProps
    ∧ (∀ e ∈ codecWillUnpackKinds, e ∈ codecUnpackKinds) := by
  decide +kernel

/-- field index `Unpack` assigns for an id (19 = `TopicAlias`, whose case has the extra alias-zero test; 0 for the loops) -/
def unpackFieldIdx (id : Nat) : Nat :=
  match List.lookup id codecUnpackFields with
  | some c => c.1
  | none => if id = 35 then 19 else 0

/-- `Pack` writes the identifiers in `packOrder`, `PackWillProperties` in `willProps` order; every write uses the writer
    of the identifier's kind and takes the value from the field `Unpack` assigns. -/
theorem source_pack_order :
    codecPackCallsN.map (·.1) = packOrder ∧ codecWillPackCallsN.map (·.1) = willProps
    ∧ (∀ c ∈ codecPackCallsN, (kindOf c.1).map writerCodeOf = some c.2.1 ∧ c.2.2 = unpackFieldIdx c.1)
    ∧ (∀ c ∈ codecWillPackCallsN, c ∈ codecPackCallsN) := by
  decide +kernel

theorem source_consts :
    codecPacketTypes.map (·.2) = [0, tCONNECT, tCONNACK, tPUBLISH, tPUBACK, tPUBREC, tPUBREL, tPUBCOMP, tSUBSCRIBE, tSUBACK,
        tUNSUBSCRIBE, tUNSUBACK, tPINGREQ, tPINGRESP, tDISCONNECT, tAUTH]
    ∧ codecPropIds.map (·.2) = packOrder
    ∧ codecMiscConsts.map (·.2) = [3, 4, 5, 0, 2, 2, 2, 65535, 1, 128] := by
  decide +kernel

/-- Consequence used by the codec theorems: the loop's admission test is the source's `ValidateID`. -/
theorem idAllowed_is_source (t id : Nat) : idAllowed (some t) id = srcAllowed t id :=
  source_allowed_eq_model t id

-- non-vacuity: the tables are not empty and contain the interesting rows
example : srcAllowed tPUBLISH 0x23 = true ∧ srcAllowed tSUBSCRIBE 0x23 = false ∧ srcKindN 0x16 = some .bin
    ∧ srcKindN 0x0B = some .vbi ∧ srcKindN 0x04 = none := by decide +kernel

end GmqttVerif.Codec
