import GmqttVerif.Model.Retained
import GmqttVerif.Proofs.RetainedStore
/-
  C07 (store level) — Retained messages: last value per topic; lookups by filter return exactly
  the kept messages whose topic matches.

  Property theorems only; helper lemmas live in `Proofs/Retained*.lean`.
  Everything is stated for ALL histories (lists of `Op` = AddOrReplace / Remove / ClearAll on a
  fresh `trie.NewStore()`), all topics (any string: empty levels, `$` topics, topics that are prefixes
  of each other, even topic names containing wildcard characters) and all valid filters.
  The model (`Model/Retained.lean`) is tied to `retained/trie` by the correspondence streams
  `retained-store` / `retained-invalid` of `bin/check C07`.

  The wire-level half of C07 (when the broker stores, clears and replays) is a separate component.

  vocabulary
  * `run ops`          : the model store after the history `ops`
  * `specRun ops`      : the declarative spec after the same history: an association list
                         topic ↦ message; `Spec.get` is the lookup (`spec_is_last_value` below says
                         it is "the last value added and not removed/cleared since")
  * `splitLevels`      : `strings.Split(·, "/")`
  * `Matches f t`      : MQTT §4.7 on level lists (declarative, `Model/RetainedTopic.lean`)
  * `ValidFilter f`    : MQTT §4.7.1 validity of a filter string
  * `foldUntil fn l s` : call `fn` on the elements of `l` in order until it returns false
-/
namespace GmqttVerif.Retained

/-- 0. The spec really is "last value per topic": one more operation changes the lookup of the
    affected topic only, in the obvious way. -/
theorem spec_is_last_value (ops : List Op) (op : Op) (t : Topic) :
    Spec.get (specRun (ops ++ [op])) t =
      match op with
      | .add m => if t = m.topic then some m else Spec.get (specRun ops) t
      | .remove t' => if t = t' then none else Spec.get (specRun ops) t
      | .clear => none := by
  unfold specRun
  rw [List.foldl_append]
  cases op with
  | add m => exact Spec.get_add _ m t
  | remove t' => exact Spec.get_remove _ t' t
  | clear => rfl

/-- 1. Refinement: after every history of AddOrReplace / Remove / ClearAll, `GetRetainedMessage t`
    is the spec map's entry for `t` — for every topic string `t` (prefix-related topics, `$` topics,
    removal of inner nodes and the pruning it does or does not do, re-adds). -/
theorem retained_refines_map (ops : List Op) (t : Topic) :
    (run ops).getRetainedMessage t = Spec.get (specRun ops) t :=
  get_of_inv (inv_run ops) t

/-- 2'. (stronger form) For every history and every filter string in which `#` occurs at most as the
    last level, `GetMatchedMessages f` returns a message iff it is the kept message of its topic and the
    topic `Matches` the filter, and no topic is returned twice. -/
theorem matched_exact_hashLast (ops : List Op) (f : Topic) (hf : hashLast (splitLevels f) = true) :
    (∀ m, m ∈ (run ops).getMatchedMessages f ↔
      (Spec.get (specRun ops) m.topic = some m ∧ Matches (splitLevels f) (splitLevels m.topic))) ∧
    (((run ops).getMatchedMessages f).map (·.topic)).Nodup :=
  matched_of_inv (inv_run ops) f hf

/-- 2. For every reachable store and every VALID filter, `GetMatchedMessages f` returns exactly the
    kept messages whose topic matches `f` under MQTT §4.7 (`#` includes the parent level, `+` is exactly
    one possibly empty level, a wildcard-leading filter never sees `$` topics), each once. -/
theorem matched_exact (ops : List Op) (f : Topic) (hf : ValidFilter f) :
    (∀ m, m ∈ (run ops).getMatchedMessages f ↔
      (Spec.get (specRun ops) m.topic = some m ∧ Matches (splitLevels f) (splitLevels m.topic))) ∧
    (((run ops).getMatchedMessages f).map (·.topic)).Nodup :=
  matched_exact_hashLast ops f (validFilter_hashLast hf)

/-- 3. `Iterate` with a callback that never stops is called exactly once for every kept message and
    for nothing else. -/
theorem iterate_exact (ops : List Op) :
    (∀ m, m ∈ (run ops).iterateAll ↔ Spec.get (specRun ops) m.topic = some m) ∧
    (((run ops).iterateAll).map (·.topic)).Nodup :=
  iterate_of_inv (inv_run ops)

/-- 3'. `Iterate` with an arbitrary stateful callback sees a prefix of that same enumeration: it is
    the fold of the callback over the full enumeration, cut at the first `false`. -/
theorem iterate_stop_prefix (ops : List Op) {σ : Type} (fn : σ → Msg → σ × Bool) (init : σ) :
    (run ops).iterate fn init = (foldUntil fn (run ops).iterateAll init).1 := by
  rw [iterate_eq, iterateAll_eq]

/-! ## non-vacuity: the hypotheses are satisfiable and the functions compute what one expects -/

section examples
private def a : Topic := ['a']
private def ab : Topic := ['a', '/', 'b']
private def abc : Topic := ['a', '/', 'b', '/', 'c']
private def sa : Topic := ['$', 's', '/', 'a']
private def h1 : List Op :=
  [.add ⟨a, 1⟩, .add ⟨ab, 2⟩, .add ⟨abc, 3⟩, .add ⟨sa, 4⟩, .remove ab, .add ⟨ab, 5⟩, .remove a, .add ⟨[], 6⟩]

example : ValidFilter ['a', '/', '#'] := by decide
example : ValidFilter ['+', '/', '+'] := by decide
example : ¬ ValidFilter ['#', '/', 'a'] := by decide
example : ¬ ValidFilter ['a', '+'] := by decide
/-- `a` was removed (inner node, keeps its children), `a/b` removed and re-added: `a/#` = what is below `a`;
    `a/b/#` includes its parent level `a/b` -/
example : (run h1).getMatchedMessages ['a', '/', '#'] = [⟨ab, 5⟩, ⟨abc, 3⟩] := by decide
example : (run h1).getMatchedMessages ['a', '/', 'b', '/', '#'] = [⟨ab, 5⟩, ⟨abc, 3⟩] := by decide
/-- `#` does not see `$s/a`; `+` sees the empty topic -/
example : (run h1).getMatchedMessages ['#'] = [⟨ab, 5⟩, ⟨abc, 3⟩, ⟨[], 6⟩] := by decide
example : (run h1).getMatchedMessages ['+'] = [⟨[], 6⟩] := by decide
example : (run h1).getMatchedMessages ['$', 's', '/', '+'] = [⟨sa, 4⟩] := by decide
example : (run h1).getRetainedMessage a = none := by decide
example : (run h1).getRetainedMessage ab = some ⟨ab, 5⟩ := by decide
example : (run h1).iterateAll = [⟨ab, 5⟩, ⟨abc, 3⟩, ⟨[], 6⟩, ⟨sa, 4⟩] := by decide
example : Matches (splitLevels ['a', '/', '#']) (splitLevels a) := by decide
example : ¬ Matches (splitLevels ['+', '/', 'a']) (splitLevels sa) := by decide
example : Matches (splitLevels ['+', '/', '+']) (splitLevels ['/']) := by decide
/-- outside the hypothesis of `matched_exact`: a `#` that is not last makes the code return the whole
    subtree although nothing `Matches` — mirrored, not claimed -/
example : (run h1).getMatchedMessages ['#', '/', 'x'] = [⟨ab, 5⟩, ⟨abc, 3⟩, ⟨[], 6⟩] := by decide
example : ¬ Matches (splitLevels ['#', '/', 'x']) (splitLevels ab) := by decide
end examples

end GmqttVerif.Retained
