import GmqttVerif.Model.Broker
import GmqttVerif.Proofs.C07Broker
import GmqttVerif.Generated.PubOrder
import GmqttVerif.Model.RetainRace
/-
  C07 (broker level) — Retained messages: last value per topic, replayed to new subscriptions per spec.

  Stated over the wire-level broker model (`Model/Broker.lean`: `B.publish`, `B.subscribe`, `B.sendWill`, the field
  `B.retained`; tied to the code by the stream `broker-retained` of `bin/check C07`). The store-level half (the trie
  behind the abstract map `B.retained`) is `Properties/C07.lean`. Property theorems only; vocabulary and helper lemmas
  are in `Proofs/C07Broker.lean`.

  vocabulary
  * `retGet ret t`        : the entry of topic `t` in the retained map (an association list topic ↦ message)
  * `retStore ret m`      : the declarative update by a message: RETAIN=0 nothing, RETAIN=1 + empty payload removes the
                            entry of `m.topic`, RETAIN=1 + payload replaces it by `m`
  * `lastValue t ms cur`  : the entry of `t` after the messages `ms`, starting from `cur` (closed form: `lastValue_eq`)
  * `NotRefused b c r`    : no refusal of `B.publish` applies (topic / alias, receive quota, packet size, retain
                            available); `Accepted b r m` / `Duplicate b r` / `Refused b r` : the three fates of a PUBLISH
  * `IsWill b w`, `WillsOnly b b'`, `NoRetainedWill b` : wills registered in `b`; `b'.retained` is `b.retained` after
                            storing some of them; none of them has RETAIN=1
  * `subIdOf`, `lastOf`, `subOf`, `subCode`, `hasSub`, `putSub` : the pieces of one SUBSCRIBE entry
  * `replayGate`, `replayCopy`, `entryCopies`, `subCopiesL`, `pushQ`, `copyElem` : what an entry replays
  * `RetOK ret`           : one entry per topic, each a message of that topic with RETAIN=1 and a payload
  * `PubHist b ss ms b'`  : a history of wire steps in which only accepted PUBLISHes (messages `ms`) change the map
-/
namespace GmqttVerif.Broker
open GmqttVerif.Deliver

/-- 1. `retained_store_on_publish`. The three fates of a PUBLISH.
    * accepted with message `m` (`Accepted`: not refused, not a retransmission of a QoS 2 PUBLISH still awaiting
      PUBREL; `accepted_message` says what `m` is): the retained map becomes `retStore b.retained m`, that is
      – RETAIN=1 and a non-empty payload: exactly `m` is stored under its topic, in front of the other entries, which
        are unchanged (and any other entry of that topic is gone);
      – RETAIN=1 and an empty payload: the entries of that topic are removed, the others unchanged;
      – RETAIN=0: the map is unchanged;
    * duplicate: unchanged;
    * refused: the connection is closed; the map changes only by wills that the end of the connection fires
      (`WillsOnly`), hence not at all when no registered will has RETAIN=1. -/
theorem retained_store_on_publish (b : B) (r : PubReq) :
    (∀ m, Accepted b r m →
      (b.publish r).retained = retStore b.retained m ∧
      (m.retained = true → m.plen ≠ 0 →
        (b.publish r).retained = (m.topic, m) :: b.retained.filter (fun tm => tm.1 != m.topic) ∧
        retGet (b.publish r).retained m.topic = some m ∧
        ∀ t, t ≠ m.topic → retGet (b.publish r).retained t = retGet b.retained t) ∧
      (m.retained = true → m.plen = 0 →
        (b.publish r).retained = b.retained.filter (fun tm => tm.1 != m.topic) ∧
        retGet (b.publish r).retained m.topic = none ∧
        ∀ t, t ≠ m.topic → retGet (b.publish r).retained t = retGet b.retained t) ∧
      (m.retained = false → (b.publish r).retained = b.retained)) ∧
    (Duplicate b r → (b.publish r).retained = b.retained) ∧
    (Refused b r → WillsOnly b (b.publish r) ∧ (NoRetainedWill b → (b.publish r).retained = b.retained)) := by
  refine ⟨fun m ha => ?_, fun hd => publish_duplicate_retained hd,
    fun hr => ⟨publish_refused_willsOnly hr, fun hn => (publish_refused_willsOnly hr).eq_of_noRetainedWill hn⟩⟩
  have e := publish_accepted_retained ha
  have hg : ∀ t, retGet (b.publish r).retained t =
      if m.retained = true ∧ m.topic = t then (if m.plen = 0 then none else some m) else retGet b.retained t :=
    fun t => by rw [e]; exact retGet_retStore b.retained m t
  refine ⟨e, fun hr hp => ?_, fun hr hp => ?_, fun hr => ?_⟩
  · have hp' : (m.plen == 0) = false := by simpa using hp
    refine ⟨by rw [e]; simp [retStore, hr, hp'], ?_, fun t ht => ?_⟩
    · rw [hg, if_pos ⟨hr, rfl⟩, if_neg hp]
    · rw [hg, if_neg (fun h => ht h.2.symm)]
  · have hp' : (m.plen == 0) = true := by simpa using hp
    refine ⟨by rw [e]; simp [retStore, hr, hp'], ?_, fun t ht => ?_⟩
    · rw [hg, if_pos ⟨hr, rfl⟩, if_pos hp]
    · rw [hg, if_neg (fun h => ht h.2.symm)]
  · rw [e]; exact retStore_not_retained _ _ hr

/-- 1'. The message of an accepted PUBLISH: QoS, RETAIN, DUP, payload (tag and length) and Message Expiry Interval of
    the packet, no subscription identifiers, and as topic the topic name of the packet — or, for a v5 packet with an
    empty topic name, the name its Topic Alias is bound to on that connection. -/
theorem accepted_message (b : B) (r : PubReq) (m : Msg) (h : Accepted b r m) :
    m.qos = r.qos ∧ m.retained = r.retain ∧ m.dup = r.dup ∧ m.tag = r.tag ∧ m.plen = r.plen ∧
    m.expiry = r.expiry.getD 0 ∧ m.sids = [] ∧ m.topic ≠ "" ∧
    (r.topic ≠ "" → m.topic = r.topic) ∧
    (r.topic = "" → ∃ c a p, b.cli? r.conn = some c ∧ r.alias = some a ∧
      c.aliasIn.find? (fun p => p.1 == a) = some p ∧ m.topic = p.2) := by
  obtain ⟨c, s, t, c2, hc, _, _, hres, _, rfl⟩ := h
  obtain ⟨h1, h2⟩ := aliasRes_topic hres
  refine ⟨rfl, rfl, rfl, rfl, rfl, by cases r.expiry <;> rfl, rfl, (aliasRes_ok hres).2.2.2.2.2, h1, fun ht => ?_⟩
  obtain ⟨a, p, ha, hf, e⟩ := h2 ht
  rw [pubCli_aliasIn] at hf
  exact ⟨c, a, p, hc, ha, hf, e⟩

/-- 1''. The hypotheses of `Accepted`, spelled out (the vocabulary of C01 / C04: `publish_accepted`). -/
theorem accepted_iff (b : B) (r : PubReq) (m : Msg) :
    Accepted b r m ↔
      ∃ c s t c2, b.cli? r.conn = some c ∧ b.sess? c.cid = some s ∧
        (TopicOk b c r ∧ ¬ (c.v = 5 ∧ r.qos > 0 ∧ c.quota = 0) ∧
          ¬ (c.v = 5 ∧ b.cfg.maxPacket ≠ 0 ∧ r.size > b.cfg.maxPacket) ∧
          ¬ (b.cfg.retainAvail = false ∧ r.retain = true)) ∧
        aliasRes b.cfg (pubCli c r) r = .ok (t, c2) ∧
        ¬ (r.qos = 2 ∧ r.pid ∈ s.unack) ∧ m = pubMsg { r with topic := t } := by
  have hf : ∀ s : Sess, forwarded s.unack r.qos r.pid = true ↔ ¬ (r.qos = 2 ∧ r.pid ∈ s.unack) := by
    intro s
    unfold forwarded
    by_cases h2 : r.qos = 2 <;> by_cases hm : r.pid ∈ s.unack <;> simp [h2, hm]
  constructor
  · rintro ⟨c, s, t, c2, hc, hs, hn, hres, hfw, e⟩
    exact ⟨c, s, t, c2, hc, hs, ⟨hn.topic, hn.quota, hn.size, hn.retain⟩, hres, (hf s).1 hfw, e⟩
  · rintro ⟨c, s, t, c2, hc, hs, ⟨h1, h2, h3, h4⟩, hres, hfw, e⟩
    exact ⟨c, s, t, c2, hc, hs, ⟨h1, h2, h3, h4⟩, hres, (hf s).2 hfw, e⟩

/-- 2. `retained_last_value`. Over a history of wire steps in which the retained map is changed by accepted PUBLISHes
    only (`PubHist`: messages `ms`, in order; every other step leaves the map alone — `retained_untouched_by_other_ops`
    says which steps do), the entry of every topic `t` is decided by the LAST accepted message with RETAIN=1 for `t`:
    that message if its payload is non-empty, nothing if it is empty; the entry from before the history if there was
    no such message. -/
theorem retained_last_value (b b' : B) (ss : List Step) (ms : List Msg) (h : PubHist b ss ms b') (t : String) :
    b' = runB b ss ∧
    retGet b'.retained t =
      match (ms.filter (fun m => m.retained && m.topic == t)).getLast? with
      | none => retGet b.retained t
      | some m => if m.plen = 0 then none else some m := by
  obtain ⟨h1, h2⟩ := h.run
  refine ⟨h1, ?_⟩
  rw [h2, retGet_foldl_retStore]
  exact lastValue_eq t ms _

/-- 2'. The same as a fold, for any list of stored messages (accepted PUBLISHes and wills alike): one more message
    changes the entry of its own topic only. -/
theorem retained_last_value_step (ret : List (String × Msg)) (ms : List Msg) (m : Msg) (t : String) :
    retGet ((ms ++ [m]).foldl retStore ret) t =
      if m.retained = true ∧ m.topic = t then (if m.plen = 0 then none else some m)
      else retGet (ms.foldl retStore ret) t := by
  rw [List.foldl_append]
  exact retGet_retStore _ m t

/-- 3. `subscribe_replay_exact`. A SUBSCRIBE (entries `topics`, Subscription Identifier property `idProp`) of the
    connection `conn` (record `c`) whose session is `s`. With `perEntry` the list, entry by entry, of the copies the
    entries replay (`subCopiesL`; described by the last clause):
    * the message log grows by exactly these copies, in order, each stamped with the current time; the retained
      map is unchanged;
    * the session queue of the subscriber is the old one after `Queue.add` of one element per copy, in order
      (`pushQ`: element `copyElem` — a PUBLISH without packet id, QoS of the copy, expiry from the copy's Message
      Expiry Interval, size for the subscriber's protocol version; what `add` does with a full queue is C10); no other
      session changes;
    * one SUBACK with the reason codes of the entries is written;
    * the entry `t` at position `|pre|` replays nothing if it is refused (`subCode ≥ 0x80`), else
      `entryCopies b.retained existed sub t` where `sub = subOf topics subID t` is the stored subscription — share
      name and filter from the entry's name, options from the LAST entry of this SUBSCRIBE with the same name — and
      `existed` says whether the client had a subscription with this share name and filter before the SUBSCRIBE or
      an earlier granted entry of the same SUBSCRIBE created one. `entry_copies_exact` reads `entryCopies`. -/
theorem subscribe_replay_exact (b : B) (conn : String) (pid : Nat) (topics : List SubTopic) (idProp : Nat)
    (c : Cli) (s : Sess) (hc : b.cli? conn = some c) (hs : b.sess? c.cid = some s) :
    let subID := subIdOf b.cfg c idProp
    let perEntry := subCopiesL b.cfg c topics subID b.retained b.subs topics
    let b' := b.subscribe conn pid topics idProp
    b'.msgs = b.msgs ++ perEntry.flatten ∧
    b'.ats = b.ats ++ List.replicate perEntry.flatten.length b.now ∧
    b'.retained = b.retained ∧
    b'.sess? c.cid = some { s with queue := pushQ b.now c.v s.queue b.msgs.length perEntry.flatten } ∧
    (∀ cid, cid ≠ c.cid → b'.sess? cid = b.sess? cid) ∧
    b'.out = b.out ++ [{ conn := conn, poll := false, pkt := .suback pid (topics.map (subCode b.cfg c topics subID)) }] ∧
    perEntry.length = topics.length ∧
    ∀ pre t post, topics = pre ++ t :: post →
      perEntry[pre.length]? =
        some (if subCode b.cfg c topics subID t ≥ 0x80 then []
              else entryCopies b.retained
                (hasSub b.subs c.cid (subOf topics subID t) ||
                  pre.any (fun x => !(decide (subCode b.cfg c topics subID x ≥ 0x80)) &&
                    ((splitShare x.name).1 == (splitShare t.name).1 && (splitShare x.name).2 == (splitShare t.name).2)))
                (subOf topics subID t) t) := by
  intro subID perEntry b'
  obtain ⟨b1, e, hp⟩ := subscribe_spec b conn pid topics idProp c s hc hs
  have e' : b' = b1.emit conn false (.suback pid (topics.map (subCode b.cfg c topics subID))) := e
  refine ⟨by rw [e']; exact hp.msgs, by rw [e']; exact hp.ats, by rw [e']; exact hp.retained,
    by rw [e']; exact hp.sess, fun cid hne => by rw [e']; exact hp.others cid hne, ?_,
    subCopiesL_length _ _ _ _ _ _ _, fun pre t post htop => ?_⟩
  · rw [e']
    show b1.out ++ _ = _
    rw [hp.out]
  · have := subCopiesL_at b.cfg c topics subID b.retained b.subs pre t post
    rw [hasSub_subsAfter] at this
    show (subCopiesL b.cfg c topics subID b.retained b.subs topics)[pre.length]? = _
    rw [htop] at this ⊢
    exact this

/-- 3'. `entry_copies_exact`: what one granted entry replays, for the stored subscription `sub`, the entry `t`, and
    `existed` (the subscription was there before this entry).
    * non-shared (`sub.share = ""`) with Retain Handling 0, or with the subscription new and Retain Handling other
      than 2 (that is 1, for a valid packet): one copy per entry of the retained map whose topic matches the filter
      (`subMatches` = `Topic.MatchesTopic`, MQTT 4.7), in map order;
    * Retain Handling 2; Retain Handling other than 0 on an existing subscription; any shared subscription: nothing;
    * a copy is the stored message with QoS = min(stored QoS, granted QoS) and DUP=0, RETAIN = Retain As Published
      ∧ stored RETAIN (see `replay_retain_flag_as_is`); topic, payload, Message Expiry Interval and subscription
      identifiers as stored (the identifier of the subscription is NOT added). -/
theorem entry_copies_exact (ret : List (String × Msg)) (existed : Bool) (sub : Sub) (t : SubTopic) :
    (sub.share = "" → (t.rh = 0 ∨ (existed = false ∧ t.rh ≠ 2)) →
      entryCopies ret existed sub t = (ret.filter (fun tm => subMatches sub tm.1)).map (fun tm => replayCopy sub tm.2)) ∧
    (t.rh = 2 → entryCopies ret existed sub t = []) ∧
    (existed = true → t.rh ≠ 0 → entryCopies ret existed sub t = []) ∧
    (sub.share ≠ "" → entryCopies ret existed sub t = []) ∧
    (∀ m, (replayCopy sub m).qos = min m.qos sub.qos ∧ (replayCopy sub m).dup = false ∧
      (replayCopy sub m).retained = (sub.rap && m.retained) ∧ (replayCopy sub m).topic = m.topic ∧
      (replayCopy sub m).tag = m.tag ∧ (replayCopy sub m).plen = m.plen ∧ (replayCopy sub m).expiry = m.expiry ∧
      (replayCopy sub m).sids = m.sids) := by
  refine ⟨fun hsh hrh => ?_, fun h2 => ?_, fun hex hrh => ?_, fun hsh => ?_, fun m => ⟨rfl, rfl, rfl, rfl, rfl, rfl, rfl, rfl⟩⟩
  · have : replayGate existed sub t = true := by
      unfold replayGate
      rcases hrh with h0 | ⟨he, h2⟩
      · simp [hsh, h0]
      · simp [hsh, he, h2]
    simp [entryCopies, this]
  · have : replayGate existed sub t = false := by simp [replayGate, h2]
    simp [entryCopies, this]
  · have : replayGate existed sub t = false := by simp [replayGate, hex, hrh]
    simp [entryCopies, this]
  · have : replayGate existed sub t = false := by simp [replayGate, hsh]
    simp [entryCopies, this]

/-- 3''. When the retained map holds one entry per topic (`RetOK`: every reachable state, `reachable_retained_ok`), an
    entry whose gate is open replays exactly the kept messages whose topic matches the filter, each once: a message is
    among the copies iff it is the copy of the kept message of a matching topic, and no topic occurs twice. -/
theorem entry_copies_each_once (ret : List (String × Msg)) (hok : RetOK ret) (existed : Bool) (sub : Sub) (t : SubTopic)
    (hg : replayGate existed sub t = true) :
    (∀ m', m' ∈ entryCopies ret existed sub t ↔
      ∃ m, retGet ret m.topic = some m ∧ subMatches sub m.topic = true ∧ m' = replayCopy sub m) ∧
    ((entryCopies ret existed sub t).map (·.topic)).Nodup ∧
    (entryCopies ret existed sub t).length = (ret.filter (fun tm => subMatches sub tm.1)).length := by
  have he : entryCopies ret existed sub t =
      (ret.filter (fun tm => subMatches sub tm.1)).map (fun tm => replayCopy sub tm.2) := by simp [entryCopies, hg]
  rw [he]
  refine ⟨fun m' => ?_, ?_, by simp⟩
  · simp only [List.mem_map, List.mem_filter]
    constructor
    · rintro ⟨tm, ⟨hmem, hmatch⟩, rfl⟩
      have htop := (hok.entry tm hmem).1
      refine ⟨tm.2, ?_, by rw [htop]; exact hmatch, rfl⟩
      rw [← hok.mem_iff, htop]
      exact hmem
    · rintro ⟨m, hget, hmatch, rfl⟩
      exact ⟨(m.topic, m), ⟨(hok.mem_iff _ _).2 hget, hmatch⟩, rfl⟩
  · rw [List.map_map]
    have : (ret.filter (fun tm => subMatches sub tm.1)).map ((fun m : Msg => m.topic) ∘ fun tm => replayCopy sub tm.2) =
        (ret.filter (fun tm => subMatches sub tm.1)).map (·.1) := by
      apply List.map_congr_left
      intro tm htm
      exact (hok.entry tm (List.mem_filter.1 htm).1).1
    rw [this]
    exact hok.nodup.sublist (List.filter_sublist.map _)

/-- 3'''. Options and reason code of a granted entry: it is acknowledged with the QoS of the stored subscription;
    when its name occurs once in the SUBSCRIBE the stored subscription carries the entry's own options. With the name
    repeated the LAST entry's QoS / No Local / Retain As Published / Retain Handling are stored for every one of
    them, while the decision to replay (`replayGate`) reads the Retain Handling of the entry being processed. -/
theorem entry_options (cfg : Cfg) (c : Cli) (topics : List SubTopic) (subID : Nat) (t : SubTopic) (ht : t ∈ topics) :
    (¬ subCode cfg c topics subID t ≥ 0x80 → subCode cfg c topics subID t = (subOf topics subID t).qos) ∧
    (lastOf topics t ∈ topics ∧ (lastOf topics t).name = t.name) ∧
    ((∀ x ∈ topics, x.name = t.name → x = t) →
      subOf topics subID t = { share := (splitShare t.name).1, filter := (splitShare t.name).2, qos := t.qos,
                               nl := t.nl, rap := t.rap, rh := t.rh, id := subID }) := by
  refine ⟨subCode_granted cfg c topics subID t, lastOf_mem topics t ht, fun hu => ?_⟩
  unfold subOf
  rw [lastOf_unique topics t ht hu]

/-- 4. The property's expectation about the RETAIN flag of replayed copies: in every reachable state, every message a
    SUBSCRIBE appends to the message log (the replayed copies; the poll loop writes each as a PUBLISH with the flags
    of the logged message) has RETAIN=1. -/
def replay_retain_flag_Statement : Prop :=
  ∀ (cfg : Cfg) (steps : List Step) (conn : String) (pid : Nat) (topics : List SubTopic) (idProp : Nat),
    ∀ m' ∈ ((runB { cfg := cfg } steps).subscribe conn pid topics idProp).msgs.drop (runB { cfg := cfg } steps).msgs.length,
      m'.retained = true

/-- a publisher stores a retained message on "t"; a second client connects -/
def exRetSteps : List Step :=
  [.connect { conn := "p", cid := "p" },
   .publish { conn := "p", topic := "t", retain := true, qos := 1, pid := 1, tag := "x", plen := 1 },
   .connect { conn := "s", cid := "s" }]

/-- 4'. The model mirrors the code (recorded finding F13): the expectation does not hold. Witness: the second client
    subscribes to "t" without Retain As Published — the replayed copy has RETAIN=0. -/
theorem replay_retain_flag_Statement_false : ¬ replay_retain_flag_Statement := by
  intro h
  have h1 := h {} exRetSteps "s" 1 [{ name := "t", qos := 1 }] 0
    { topic := "t", tag := "x", plen := 1, qos := 1, retained := false } (by decide)
  exact absurd h1 (by decide)

/-- 4''. `replay_retain_flag_as_is`. What does hold: when every kept message has RETAIN=1 (`RetOK`: every reachable
    state), a replayed copy carries RETAIN=1 exactly when the stored subscription asked for Retain As Published —
    for each entry, and for every message a whole SUBSCRIBE appends to the message log. -/
theorem replay_retain_flag_as_is (b : B) (hok : RetOK b.retained) :
    (∀ existed sub t, ∀ m' ∈ entryCopies b.retained existed sub t, m'.retained = sub.rap) ∧
    (∀ conn pid topics idProp c s, b.cli? conn = some c → b.sess? c.cid = some s →
      ∀ m' ∈ (b.subscribe conn pid topics idProp).msgs.drop b.msgs.length,
        ∃ t ∈ topics, m'.retained = (subOf topics (subIdOf b.cfg c idProp) t).rap) := by
  have h1 : ∀ existed sub t, ∀ m' ∈ entryCopies b.retained existed sub t, m'.retained = sub.rap := by
    intro existed sub t m' hm'
    unfold entryCopies at hm'
    split at hm'
    · obtain ⟨tm, htm, rfl⟩ := List.mem_map.1 hm'
      have := (hok.entry tm (List.mem_filter.1 htm).1).2.1
      simp [replayCopy, this]
    · cases hm'
  refine ⟨h1, fun conn pid topics idProp c s hc hs m' hm' => ?_⟩
  rw [(subscribe_replay_exact b conn pid topics idProp c s hc hs).1, List.drop_left] at hm'
  obtain ⟨l, hl, hml⟩ := List.mem_flatten.1 hm'
  rcases mem_subCopiesL _ _ _ _ _ _ _ l hl with rfl | ⟨t, ht, ex, rfl⟩
  · cases hml
  · exact ⟨t, ht, h1 ex _ t m' hml⟩

/-- 5. `will_retained`. Publishing a will (`sendWill`: the connection ended without a normal DISCONNECT, the delayed
    will fell due, or the session ended first — when, is C08) updates the retained map exactly as an accepted PUBLISH
    of the same message does: RETAIN=1 with a payload stores the will under its topic, RETAIN=1 with an empty payload
    clears the topic, RETAIN=0 leaves the map alone; other topics are never affected. -/
theorem will_retained (b : B) (cid : String) (w : Msg) :
    (b.sendWill cid w).retained = retStore b.retained w ∧
    (∀ t, retGet (b.sendWill cid w).retained t =
      if w.retained = true ∧ w.topic = t then (if w.plen = 0 then none else some w) else retGet b.retained t) := by
  have e : (b.sendWill cid w).retained = retStore b.retained w := by
    rw [sendWill_eq, (enq_deliverMsg _ _ _ _ _).retained, willRetain_retained]
  exact ⟨e, fun t => by rw [e]; exact retGet_retStore _ _ _⟩

/-- 6. `retained_untouched_by_other_ops`. SUBSCRIBE, UNSUBSCRIBE, PUBREL, PUBACK / PUBCOMP, PUBREC, DISCONNECT, a
    message published through the API, back-dating a session and the poll loops never change the retained map.
    CONNECT (take-over of an online client, end of the old session), the end of a connection, `TerminateSession`,
    session expiry and the passage of time change it only by storing wills that were registered before the step
    (`WillsOnly`) — hence not at all when no registered will has RETAIN=1. -/
theorem retained_untouched_by_other_ops (b : B) :
    (∀ conn pid topics idProp, (b.subscribe conn pid topics idProp).retained = b.retained) ∧
    (∀ conn pid topics, (b.unsubscribe conn pid topics).retained = b.retained) ∧
    (∀ conn pid, (b.pubrelIn conn pid).retained = b.retained) ∧
    (∀ conn id, (b.ackOut conn id).retained = b.retained) ∧
    (∀ conn id code, (b.pubrecOut conn id code).retained = b.retained) ∧
    (∀ conn se code, (b.disconnectIn conn se code).retained = b.retained) ∧
    (∀ m, (b.deliverMsg "" m []).1.retained = b.retained) ∧
    (∀ cid secs, (b.apiBackdate cid secs).retained = b.retained) ∧
    b.pumpAll.retained = b.retained ∧
    (∀ r, WillsOnly b (b.connect r)) ∧
    (∀ conn, WillsOnly b (b.closeIn conn)) ∧
    (∀ cid, WillsOnly b (b.apiTerminate cid)) ∧
    WillsOnly b b.apiExpire ∧
    (∀ ms, WillsOnly b (b.sleep ms)) ∧
    (∀ b', WillsOnly b b' → NoRetainedWill b → b'.retained = b.retained) :=
  ⟨subscribe_retained b, unsubscribe_retained b, pubrelIn_retained b, ackOut_retained b, pubrecOut_retained b,
   disconnectIn_retained b, apiPublish_retained b, apiBackdate_retained b, pumpAll_retained b,
   willsOnly_connect b, fun conn => ((Fired.refl b).closeIn conn).ret, fun cid => ((Fired.refl b).apiTerminate cid).ret,
   (Fired.refl b).apiExpire.ret, fun ms => ((Fired.refl b).sleep ms).ret, fun _ h hn => h.eq_of_noRetainedWill hn⟩

/-- 6'. `retained_changes_only_by_publish_or_will`, over the step type of `runB`: a wire step either is an accepted
    PUBLISH and stores its message, or changes the retained map by storing wills registered before the step — or
    not at all. -/
theorem retained_changes_only_by_publish_or_will (b : B) (st : Step) :
    (∃ r m, st = .publish r ∧ Accepted b r m ∧ (stepB b st).retained = retStore b.retained m) ∨
    WillsOnly b (stepB b st) :=
  step_retained b st

/-- 6''. In every state reachable from the empty broker by wire steps the retained map holds at most one entry per
    topic, and every entry is a message of that topic with RETAIN=1 and a non-empty payload (`RetOK`, the hypothesis
    of `entry_copies_each_once` and `replay_retain_flag_as_is`; each step preserves it: `retOK_step`). -/
theorem reachable_retained_ok (cfg : Cfg) (steps : List Step) : RetOK (runB { cfg := cfg } steps).retained :=
  reachable_retOK cfg steps

/-- 6‴. The hypothesis "the connection has a session" of `subscribe_replay_exact` (and of `Accepted`) holds for every
    online connection of every reachable state (C05: `WF`). -/
theorem online_has_session (cfg : Cfg) (steps : List Step) (conn : String) (c : Cli)
    (hc : (runB { cfg := cfg } steps).cli? conn = some c) : ∃ s, (runB { cfg := cfg } steps).sess? c.cid = some s :=
  Option.isSome_iff_exists.1 ((reachable_wf cfg steps).online c (cli?_some hc).1)

/-! ### non-vacuity -/

/-- v5 client "p" on connection "a" with an alias bound to "t" (by a first retained PUBLISH), v5 subscriber "s" on "c" -/
def exPub : B :=
  ((({ } : B).connect { conn := "a", cid := "p", v := 5 }).connect { conn := "c", cid := "s", v := 5, clean := false }).publish
    { conn := "a", topic := "t", alias := some 1, retain := true, qos := 2, pid := 9, tag := "v1", plen := 2 }

def exPub2 : PubReq := { conn := "a", topic := "", alias := some 1, retain := true, qos := 1, pid := 3, tag := "v2", plen := 2 }
def exPubDup : PubReq := { conn := "a", topic := "t", retain := true, qos := 2, pid := 9, dup := true, tag := "other", plen := 5 }
def exPubClear : PubReq := { conn := "a", topic := "t", retain := true, tag := "", plen := 0 }

theorem exPub_notRefused (r : PubReq) (c : Cli) (hc : exPub.cli? "a" = some c)
    (h1 : r.alias = some 1 ∨ (r.alias = none ∧ r.topic ≠ "")) (h2 : r.size = 0) : NotRefused exPub c r := by
  have hc' : c = { conn := "a", cid := "p", v := 5, maxInflight := 100, cliMaxPkt := 4294967295, quota := 99, aliasIn := [(1, "t")], aliasOut := Alias.Fifo.new 0 } :=
    (Option.some.inj hc).symm
  subst hc'
  refine ⟨⟨fun a _ ha => ?_, fun ht => ⟨rfl, ?_⟩⟩, fun h => absurd h.2.2 (by decide), fun h => ?_, fun h => absurd h.1 (by decide)⟩
  · rcases h1 with h1 | h1
    · rw [h1] at ha; cases ha; decide
    · rw [h1.1] at ha; cases ha
  · rcases h1 with h1 | h1
    · exact ⟨1, (1, "t"), h1, rfl, by decide⟩
    · exact absurd ht h1.2
  · rw [h2] at h; exact absurd h.2.2 (by decide)

/-- `Accepted` is satisfiable, with alias resolution (empty topic name) and a replacement of the kept message -/
example : Accepted exPub exPub2 { topic := "t", tag := "v2", plen := 2, qos := 1, retained := true } :=
  ⟨_, _, "t", _, rfl, rfl, exPub_notRefused exPub2 _ rfl (.inl rfl) rfl, rfl, by decide, rfl⟩

/-- the kept message of "t" was "v1" and is "v2" afterwards -/
example : (retGet exPub.retained "t").map (·.tag) = some "v1" ∧
    (retGet (exPub.publish exPub2).retained "t").map (·.tag) = some "v2" := by decide

/-- `Duplicate` is satisfiable: the QoS 2 PUBLISH with packet id 9 again, now with another payload — nothing is stored -/
example : Duplicate exPub exPubDup ∧ (exPub.publish exPubDup).retained = exPub.retained :=
  ⟨⟨_, _, rfl, rfl, exPub_notRefused exPubDup _ rfl (.inr ⟨rfl, by decide⟩) rfl, by decide⟩, by decide⟩

/-- `Refused` is satisfiable (alias above the advertised maximum), and the refusal fires the will of the publisher:
    `WillsOnly` with a non-empty list — the retained map changes although the PUBLISH is refused -/
def exWillB : B :=
  ({ } : B).connect { conn := "a", cid := "p", v := 5, will := some ({ topic := "w", tag := "will", plen := 1, qos := 0, retained := true }, 0) }

example : Refused exWillB { conn := "a", topic := "t", alias := some 99, retain := true, tag := "x", plen := 1 } ∧
    (exWillB.publish { conn := "a", topic := "t", alias := some 99, retain := true, tag := "x", plen := 1 }).retained.map (·.1) = ["w"] := by
  refine ⟨⟨_, rfl, fun hn => ?_⟩, by decide⟩
  exact absurd (hn.topic.alias 99 rfl rfl).2 (by decide)

/-- a clearing PUBLISH (RETAIN=1, empty payload) removes the entry; the history form `PubHist` is inhabited -/
example : ∃ b', PubHist exPub [.publish exPubClear, .pubrel "a" 9] [{ topic := "t", tag := "", plen := 0, qos := 0, retained := true }] b' ∧
    b'.retained.map (·.1) = [] := by
  have ha : Accepted exPub exPubClear { topic := "t", tag := "", plen := 0, qos := 0, retained := true } :=
    ⟨_, _, "t", _, rfl, rfl, exPub_notRefused exPubClear _ rfl (.inr ⟨rfl, by decide⟩) rfl, rfl, by decide, rfl⟩
  have hq : ∀ b : B, (stepB b (.pubrel "a" 9)).retained = b.retained := fun b => pubrelIn_retained b "a" 9
  exact ⟨_, .accepted ha (.quiet (hq _) (.nil _)), by decide⟩

/-- a SUBSCRIBE with a repeated name, a Retain Handling 2 entry and a shared entry: the hypotheses of
    `subscribe_replay_exact` hold and the entries replay: one copy (Retain Handling 1, new; QoS and Retain As
    Published of the LAST entry named "t"), one copy (Retain Handling 0 on the now existing subscription),
    nothing (Retain Handling 2), nothing (shared) -/
def exTopics : List SubTopic :=
  [{ name := "t", qos := 0, rh := 1 }, { name := "t", qos := 1, rap := true }, { name := "#", qos := 1, rh := 2 }, { name := "$share/g/t", qos := 1 }]

example : (∃ c s, exPub.cli? "c" = some c ∧ exPub.sess? c.cid = some s) ∧
    ((exPub.subscribe "c" 1 exTopics 0).msgs.drop exPub.msgs.length).map (fun m => (m.topic, m.tag, m.qos, m.retained, m.dup)) =
      [("t", "v1", 1, true, false), ("t", "v1", 1, true, false)] :=
  ⟨⟨_, _, rfl, rfl⟩, by decide⟩

/-- Retain Handling 1 on an existing subscription replays nothing; on a new one it replays -/
example :
    ((exPub.subscribe "c" 1 [{ name := "t", qos := 1, rh := 1 }] 0).msgs.length = exPub.msgs.length + 1) ∧
    (((exPub.subscribe "c" 1 [{ name := "t", qos := 1, rh := 1 }] 0).subscribe "c" 2 [{ name := "t", qos := 1, rh := 1 }] 0).msgs.length
      = exPub.msgs.length + 1) := by decide

/-- `RetOK` holds in `exPub` with a non-empty map (the hypothesis of 3'' and 4'' is satisfiable non-trivially) -/
example : RetOK exPub.retained ∧ exPub.retained.length = 1 :=
  ⟨⟨by decide, by decide⟩, by decide⟩

/-- a will with RETAIN=1 is stored when the connection ends abruptly; with `NoRetainedWill` violated the map changes -/
example : ¬ NoRetainedWill exWillB ∧ (exWillB.closeIn "a").retained.map (·.1) = ["w"] := by
  refine ⟨fun h => ?_, by decide⟩
  have := h { topic := "w", tag := "will", plen := 1, qos := 0, retained := true } (.inl ⟨_, List.mem_cons_self, rfl⟩)
  exact absurd this (by decide)

end GmqttVerif.Broker

/-! ### order of effects, re-read from the source on every run -/
namespace GmqttVerif.C07Order
open GmqttVerif.Generated

/-- In `publishHandler` and in `sendWillLocked` the hook is consulted first, the retained store is updated next and the
    message is delivered last (`Generated/PubOrder.lean`, rewritten from server/client.go and server/server.go on every check
    run). This is the order the broker model has (`B.publish` / `B.sendWill` update `B.retained` from what the hook let through
    and then call `deliver`); with the delivery in front of the store update a SUBSCRIBE handled in between — by another
    connection, while the publisher's goroutine is between the two calls — would see the message neither live nor retained,
    although the publisher is acknowledged and the message is kept afterwards. -/
theorem retained_updated_between_hook_and_delivery :
    publishOrderN = [0, 1, 1, 2] ∧ willOrderN = [0, 1, 1, 2] := by decide

/-! The order matters under concurrency, and only there (`Model/RetainRace.lean`): a SUBSCRIBE of another connection is handled by
    another goroutine; its two steps (install the subscription, read the retained store) interleave freely with the publisher's. -/
open GmqttVerif.RetainRace in
/-- With the store updated BEFORE the delivery, a subscriber whose SUBSCRIBE races with an accepted retained PUBLISH gets the
    message at least once in every interleaving (retained replay, live copy, or both). -/
theorem store_then_deliver_never_loses :
    ∀ l ∈ interleavings [.store, .deliver] [.install, .replay], 1 ≤ (run l).copies := by decide

open GmqttVerif.RetainRace in
/-- With the delivery in front of the store update there is an interleaving in which the subscriber gets nothing although the
    message is retained afterwards — the schedule `deliver, install, replay, store`. -/
theorem deliver_then_store_can_lose :
    ∃ l ∈ interleavings [.deliver, .store] [.install, .replay], (run l).copies = 0 ∧ (run l).stored = true :=
  ⟨[.deliver, .install, .replay, .store], by decide, by decide⟩

open GmqttVerif.RetainRace in
/-- The program orders read from the source ARE the safe ones: publisher `store, deliver`; subscriber `install, replay`
    (with `replay` before `install` the subscriber could also be missed: `replay, store, deliver, install`). -/
theorem source_orders_are_safe :
    ofCodes publishOrderN = [.store, .deliver] ∧ ofCodes willOrderN = [.store, .deliver] ∧ ofCodes subscribeOrderN = [.install, .replay]
    ∧ ∀ l ∈ interleavings (ofCodes publishOrderN) (ofCodes subscribeOrderN), 1 ≤ (run l).copies := by decide

end GmqttVerif.C07Order
