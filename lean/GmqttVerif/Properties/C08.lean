import GmqttVerif.Model.Broker
import GmqttVerif.Proofs.BrokerInv
/-
  C08 — Will messages: published when the connection ends without a normal DISCONNECT, after
  min(Will Delay, Session Expiry); suppressed by a normal DISCONNECT; cancelled when the session is resumed in time;
  published at most once; with the registered content (including RETAIN).

  Stated over the wire-level broker model (`Model/Broker.lean`, tied to the code by the stream `broker-will`).
  Vocabulary: `unregSess c s0 force` is the session record `unregisterClient` stores (a v5 DISCONNECT may have changed
  its expiry), `willDelayOf s` = min(s.willDelay, s.expiry); `afterDisplace`, `resumeOf` from C05. Helper lemmas:
  `Proofs/BrokerWill.lean`.
-/
namespace GmqttVerif.Broker
open GmqttVerif.Deliver

/-- 1. `will_on_unregister`. Connection `conn` (record `c`, stored session `s0` with will `w`) ends without the will
    having been cleaned. With `s` the session record as stored and d = min(Will Delay, Session Expiry):
    * d = 0 — in particular whenever the session is not kept (expiry 0) — the will is published now (`sendWill`),
      then the session is kept with its expiry deadline or terminated;
    * d ≠ 0 — nothing is published; exactly one entry for the client id is pending afterwards (an older one is
      replaced), due at now + d·1000 ms; the session is kept. -/
theorem will_on_unregister (b : B) (conn : String) (c : Cli) (s0 : Sess) (w : Msg)
    (hc : b.cli? conn = some c) (hs : b.sess? c.cid = some s0) (hcw : c.cleanWill = false) (hw : s0.will = some w) :
    let s := unregSess c s0 false
    let b1 := (b.dropCli conn).setSess { s with queue := s.queue.close }
    (willDelayOf s = 0 →
      b.unregister conn false =
        if s.expiry != 0 then
          { (b1.sendWill c.cid w) with
            offline := (c.cid, b.now + s.expiry * 1000) :: (b1.sendWill c.cid w).offline.filter (·.1 != c.cid) }
        else (b1.sendWill c.cid w).terminateS c.cid) ∧
    (willDelayOf s ≠ 0 →
      b.unregister conn false =
        { b1 with
          pendingWills := b1.pendingWills.filter (fun (x : String × Msg × Nat) => x.1 != c.cid) ++
                            [(c.cid, w, b.now + willDelayOf s * 1000)],
          offline := (c.cid, b.now + s.expiry * 1000) :: b1.offline.filter (·.1 != c.cid) }) := by
  intro s b1
  have hwill : ({ s with queue := s.queue.close } : Sess).will = some w := by
    show (unregSess c s0 false).will = _
    rw [unregSess_will, hw]
  have hd : willDelayOf ({ s with queue := s.queue.close } : Sess) = willDelayOf s := rfl
  rw [unregister_eq b conn false c hc, hs]
  simp only []
  rw [willStep_will _ c _ _ w hcw hwill, hd]
  refine ⟨fun h0 => ?_, fun hne => ?_⟩
  · simp only [Bool.not_false, Bool.true_and, h0, bne_self_eq_false, Bool.false_and, Bool.false_eq_true, if_false]
    have hnow : (b1.sendWill c.cid w).now = b.now := (grow_sendWill b1 c.cid w).now
    split
    · rw [hnow]
    · rfl
  · have hexp : s.expiry ≠ 0 := by
      intro h; apply hne; unfold willDelayOf; rw [h]; exact Nat.min_zero _
    have h1 : (willDelayOf s != 0) = true := by simpa using hne
    have h2 : ((unregSess c s0 false).expiry != 0) = true := by
      show (s.expiry != 0) = true
      simpa using hexp
    simp only [Bool.not_false, h1, h2, Bool.and_self, if_true]
    rfl

/-- 2a. `will_suppressed_by_normal_disconnect`, DISCONNECT: on a v3 connection every DISCONNECT, on a v5 connection a
    DISCONNECT with a reason code other than 0x04 (and that is not the protocol error "Session Expiry 0 → non-zero",
    which the handler drops) marks the will as cleaned; reason code 0x04 keeps it. -/
theorem disconnect_cleans_will (b : B) (conn : String) (c : Cli) (se : Option Nat) (code : Nat)
    (hc : b.cli? conn = some c) :
    (c.v ≠ 5 → (b.disconnectIn conn se code).cli? conn = some { c with discExpiry := some none, cleanWill := true }) ∧
    (c.v = 5 → ∀ s, b.sess? c.cid = some s → ¬ (s.expiry = 0 ∧ se.getD 0 ≠ 0) →
      (b.disconnectIn conn se code).cli? conn = some { c with discExpiry := some se, cleanWill := code != 4 }) := by
  have hconn := (cli?_some hc).2
  refine ⟨fun hv => ?_, fun hv s hs hok => ?_⟩
  · unfold B.disconnectIn
    have hv' : (c.v == 5) = false := by simpa using hv
    simp only [hc, hv', Bool.false_eq_true, if_false]
    rw [cli?_setCli, if_pos hconn]
  · unfold B.disconnectIn
    have hv' : (c.v == 5) = true := by simpa using hv
    simp only [hc, hv', if_true, hs]
    cases se with
    | none =>
      simp only []
      rw [if_neg (by simp), cli?_setCli, if_pos hconn]
    | some e =>
      simp only []
      rw [if_neg (by intro h; apply hok; simpa using h), cli?_setCli, if_pos hconn]

/-- 2b. `will_suppressed_by_normal_disconnect`, end of the connection: once the will is marked cleaned, the end of the
    connection neither publishes nor schedules it — the result is the bookkeeping of `unregisterClient` alone (session
    stored with its deadline, or terminated). `hnop`: no delayed will of an earlier connection is pending for an
    online client (holds in every reachable state); without it `terminateS` would publish that one. -/
theorem will_suppressed_by_normal_disconnect (b : B) (conn : String) (c : Cli) (s0 : Sess)
    (hc : b.cli? conn = some c) (hs : b.sess? c.cid = some s0) (hcw : c.cleanWill = true)
    (hnop : b.willOf? c.cid = none) :
    let s := unregSess c s0 false
    let b1 := (b.dropCli conn).setSess { s with queue := s.queue.close }
    b.unregister conn false =
      if s.expiry != 0 then { b1 with offline := (c.cid, b.now + s.expiry * 1000) :: b1.offline.filter (·.1 != c.cid) }
      else b1.terminate c.cid := by
  intro s b1
  rw [unregister_eq b conn false c hc, hs]
  simp only []
  rw [willStep_clean _ c _ _ hcw]
  simp only [Bool.not_false, Bool.true_and]
  split
  · rfl
  · exact terminateS_none _ _ hnop

/-- 2c. In every state reachable from the empty broker by wire steps (`runB`, C05) at most one delayed will is
    pending per client id, each belongs to a stored session with an expiry deadline, and none is pending for an online
    client — the hypothesis `hnop` of 2b (`WillInv`; each wire step preserves it: `rinv_step`). -/
theorem no_pending_will_online (cfg : Cfg) (steps : List Step) :
    let b := runB { cfg := cfg } steps
    (b.pendingWills.map (·.1)).Nodup ∧
    (∀ w ∈ b.pendingWills, (∃ cd ∈ b.offline, cd.1 = w.1) ∧ (b.sess? w.1).isSome = true) ∧
    (∀ c ∈ b.clis, b.willOf? c.cid = none) := by
  intro b
  have h := reachable_rinv cfg steps
  exact ⟨h.will.nodup, h.will.stored, online_no_pending_will h.wf h.will⟩

/-- 3. `will_cancelled_by_resume`. A CONNECT that resumes the stored session (Clean Start 0, deadline not passed)
    removes the pending delayed will of that client id without publishing it: relative to the state `b1` in which
    the decision is taken (an online connection of the same id displaced first), the pending wills are those of
    the other client ids, and neither the message log, nor the retained store, nor any other client's pending will
    changes. -/
theorem will_cancelled_by_resume (b : B) (r : ConnectReq) (hres : resumeOf (afterDisplace b r.cid) r = true) :
    let b1 := afterDisplace b r.cid
    let b' := b.connect r
    b'.pendingWills = b1.pendingWills.filter (fun (w : String × Msg × Nat) => w.1 != r.cid) ∧
    b'.willOf? r.cid = none ∧ b'.msgs = b1.msgs ∧ b'.retained = b1.retained := by
  intro b1 b'
  have hf := replay_frame 100000 (connectCore b.cfg b1 r) r.conn
  have hs : (b1.sess? r.cid).isSome = true := ((resumeOf_iff b1 r).1 hres).2.1
  have hend : endOld b1 r = b1.dropWill r.cid := by
    unfold endOld
    cases h : b1.sess? r.cid with
    | none => rw [h] at hs; cases hs
    | some s =>
      have hres' : resumeOf b1 r = true := hres
      simp only [hres', Bool.not_true, Bool.false_eq_true, if_false]
  have hp : b'.pendingWills = b1.pendingWills.filter (fun (w : String × Msg × Nat) => w.1 != r.cid) := by
    show (b.connect r).pendingWills = _
    rw [connect_eq, hf.pendingWills]
    show (endOld b1 r).pendingWills = _
    rw [hend]; rfl
  refine ⟨hp, ?_, ?_, ?_⟩
  · unfold B.willOf?; rw [hp]; exact willOf?_filter_self _ _
  · show (b.connect r).msgs = _
    rw [connect_eq, hf.msgs]
    show (endOld b1 r).msgs = _
    rw [hend]; rfl
  · show (b.connect r).retained = _
    rw [connect_eq, hf.retained]
    show (endOld b1 r).retained = _
    rw [hend]; rfl

/-- 4a. `will_fires_once`, timer: when time passes, exactly the pending wills that are due are published, in the order
    they were scheduled, and are no longer pending afterwards; no due will remains pending. -/
theorem will_fires_once_sleep (b : B) (ms : Nat) :
    b.sleep ms =
      (b.pendingWills.filter (fun w => decide (w.2.2 ≤ b.now + ms))).foldl (fun bb w => bb.sendWill w.1 w.2.1)
        { b with now := b.now + ms, pendingWills := b.pendingWills.filter (fun w => !(decide (w.2.2 ≤ b.now + ms))) } ∧
    (b.sleep ms).pendingWills = b.pendingWills.filter (fun w => !(decide (w.2.2 ≤ b.now + ms))) ∧
    ∀ w ∈ (b.sleep ms).pendingWills, (b.sleep ms).now < w.2.2 := by
  refine ⟨rfl, sleep_pendingWills b ms, ?_⟩
  intro w hw
  rw [sleep_pendingWills] at hw
  rw [sleep_now]
  have := (List.mem_filter.1 hw).2
  simpa using this

/-- 4b. `will_fires_once`, session end: when the session ends (`sessionTerminatedLocked`) a pending delayed will is
    published then, and is no longer pending; without a pending will nothing is published. Either way no will of
    that client id is pending afterwards — so the timer cannot publish it a second time; and after the timer has
    published it (4a) it is not pending (there is at most one entry per client id: 2c), so the session end does not
    publish it again. -/
theorem will_fires_once_terminate (b : B) (cid : String) :
    (∀ x, b.willOf? cid = some x → b.terminateS cid = ((b.terminate cid).dropWill cid).sendWill cid x.2.1) ∧
    (b.willOf? cid = none → b.terminateS cid = b.terminate cid) ∧
    (b.terminateS cid).willOf? cid = none ∧
    (b.terminateS cid).pendingWills = b.pendingWills.filter (fun (w : String × Msg × Nat) => w.1 != cid) :=
  ⟨terminateS_some b cid, terminateS_none b cid, terminateS_willOf? b cid, terminateS_pendingWills b cid⟩

/-- 5. `will_content`. Publishing a will is `deliverMessage` of the registered message with the client as source —
    so C01 applies to it — after the retained store has been updated when the will has RETAIN set: an empty payload
    clears the topic's retained message, any other replaces it by the will. -/
theorem will_content (b : B) (cid : String) (w : Msg) :
    b.sendWill cid w = ((b.willRetain w).deliverMsg cid w []).1 ∧
    (b.willRetain w).retained = (b.sendWill cid w).retained ∧
    (b.sendWill cid w).retained =
      if w.retained then
        (if w.plen == 0 then b.retained.filter (·.1 != w.topic) else (w.topic, w) :: b.retained.filter (·.1 != w.topic))
      else b.retained := by
  refine ⟨rfl, ?_, sendWill_retained b cid w⟩
  rw [sendWill_eq, (enq_deliverMsg _ _ _ _ _).retained]

/-! ## non-vacuity -/

def exWill : Msg := { topic := "w", tag := "will", plen := 1, qos := 1, retained := true }

/-- a v5 client with will (delay 5 s, session expiry 60 s) online on "a"; a v4 subscriber to "w" on "s" -/
def exW : B :=
  let b : B := {}
  let b := b.connect { conn := "s", cid := "sub", v := 4 }
  let b := b.subscribe "s" 1 [{ name := "w", qos := 1 }] 0
  b.connect { conn := "a", cid := "c", v := 5, clean := false, se := some 60, will := some (exWill, 5) }

/-- hypotheses of `will_on_unregister`, delayed case -/
example : ∃ c s0, exW.cli? "a" = some c ∧ exW.sess? c.cid = some s0 ∧ c.cleanWill = false ∧ s0.will = some exWill ∧
    willDelayOf (unregSess c s0 false) = 5 := ⟨_, _, rfl, rfl, rfl, rfl, by decide⟩
/-- the socket closes: one will pending, due in 5 s; nothing queued for the subscriber -/
example : (exW.closeIn "a").pendingWills = [("c", exWill, exW.now + 5000)] ∧
    ((exW.closeIn "a").sess? "sub").map (fun s => s.queue.items.length) = some 0 := by decide
/-- 5 s later it is published once (queued for the subscriber, retained), and no longer pending -/
example : (((exW.closeIn "a").sleep 5000).sess? "sub").map (fun s => s.queue.items.length) = some 1 ∧
    ((exW.closeIn "a").sleep 5000).pendingWills = [] ∧ (((exW.closeIn "a").sleep 5000).retained.map (·.1)) = ["w"] := by
  decide
/-- resuming in time cancels it (hypothesis of `will_cancelled_by_resume`) -/
example : resumeOf (afterDisplace ((exW.closeIn "a").sleep 3000) "c") { conn := "b", cid := "c", v := 5, clean := false } = true ∧
    (((exW.closeIn "a").sleep 3000).connect { conn := "b", cid := "c", v := 5, clean := false }).pendingWills = [] := by
  decide
/-- a normal DISCONNECT suppresses it; DISCONNECT with reason 0x04 does not -/
example : ((exW.disconnectIn "a" none 0).closeIn "a").pendingWills = [] ∧
    ((exW.disconnectIn "a" none 4).closeIn "a").pendingWills.length = 1 := by decide
/-- hypotheses of `will_suppressed_by_normal_disconnect` -/
example : ∃ c s0, (exW.disconnectIn "a" none 0).cli? "a" = some c ∧ (exW.disconnectIn "a" none 0).sess? c.cid = some s0 ∧
    c.cleanWill = true ∧ (exW.disconnectIn "a" none 0).willOf? c.cid = none := ⟨_, _, rfl, rfl, rfl, rfl⟩
/-- a clean-start CONNECT ends the stored session: the pending will fires then (hypothesis of 4b) -/
example : ((exW.closeIn "a").willOf? "c").isSome = true ∧
    ((((exW.closeIn "a").connect { conn := "b", cid := "c", v := 5, clean := true }).sess? "sub").map
      (fun s => s.queue.items.length)) = some 1 := by decide

end GmqttVerif.Broker
