import GmqttVerif.Proofs.WillTimer
import GmqttVerif.Generated.WillTimer
/-!
# C08, schedules of the delayed-will goroutine (finding F16)

`Properties/C08.lean` states the will clauses on the sequential broker model, where the goroutine that waits for the
Will Delay Interval is one atomic step. Here the goroutine's own steps are interleaved with the connection events of
its client (`Model/WillTimer.lean`): every list of `Op`s is one schedule. The theorems hold for every schedule of the
repaired code (`run false`); the `as_is_*` theorems exhibit the schedule on which the code before the repair
(`run true`) publishes the will of a session that was resumed in time.
-/
namespace GmqttVerif.WillTimer

/-- 1. In every reachable state every will whose goroutine is still blocked and unsignalled is the one registered in
    `srv.willMessage`: a resume or the end of the session can reach it. -/
theorem no_orphan_will (ops : List Op) : NoOrphan (run false ops) := (inv_run ops).noOrphan

/-- 2. `will_cancelled_by_resume`, every schedule: whatever happened before, a CONNECT that resumes the session puts
    `false` into the channel of every will that was still pending, so its goroutine can leave the select only with
    "discard" or through its own timer (the delay has then passed). -/
theorem resume_cancels_pending_will (ops : List Op) (w : Nat)
    (hp : pending (run false ops) w) (hoff : (run false ops).online = false) (hs : (run false ops).session = true) :
    (step false (run false ops) .resume).timers[w]? = some (.waiting (some false)) ∧
    ∀ v, ¬ pending (step false (run false ops) .resume) v := by
  have h := inv_run ops
  have he := h.noOrphan w hp
  have hq := (inv_resume h).quiet
  simp only [step, hoff, hs, he] at hq ⊢
  refine ⟨?_, fun v => hq (Or.inl rfl) v⟩
  simp [signal_get, show (run false ops).timers[w]? = some (T.waiting none) from hp]

/-- 3. A will is published only if its own timer fired or it was the registered will when the session ended: never
    because of another connection's goroutine, never after a resume that came first. -/
theorem will_published_only_if_due (ops : List Op) (w : Nat) (h : w ∈ (run false ops).published) :
    w ∈ (run false ops).fired ∨ w ∈ (run false ops).ended := (inv_run ops).pub w h

/-- 4. `will_fires_once`, every schedule (both versions of the code): no will is published twice. -/
theorem will_published_at_most_once (asIs : Bool) (ops : List Op) : (run asIs ops).published.Nodup :=
  (inv2_run asIs ops).nodup

/-- 5. While a connection of the client is online no will is pending (the property's "a will is never published while
    its client is connected", for the delayed case). -/
theorem no_pending_will_while_online (ops : List Op) (h : (run false ops).online = true) (w : Nat) :
    ¬ pending (run false ops) w := (inv_run ops).quiet (Or.inl h) w

/-- the schedule of F16: connection 1 ends (will 0 delayed), connection 2 resumes (will 0 cancelled, its goroutine
    woken) and ends (will 1 delayed) before goroutine 0 obtains `srv.mu`; goroutine 0 then runs its tail. -/
def f16 : List Op := [.discWill, .resume, .wake 0, .discWill, .finish 0]

/-- 6a. The code before the repair: on that schedule will 1 is pending but no longer registered … -/
theorem as_is_orphans_will : ¬ NoOrphan (run true f16) := by
  intro h
  have := h 1 (by decide)
  revert this; decide

/-- 6b. … so the next resume cannot cancel it, and when its timer fires it is published although the session was
    resumed inside the delay and never ended. -/
theorem as_is_resumed_will_published :
    (run true (f16 ++ [.resume, .fire 1, .finish 1])).published = [1] ∧
    (run true (f16 ++ [.resume, .fire 1, .finish 1])).ended = [] := by decide

/-- 6c. The repaired code on the same schedule: the resume reaches will 1 (theorem 2) and nothing is published unless
    the timer wins the race inside the select; with the goroutine taking the signal nothing is published at all. -/
theorem fixed_resumed_will_not_published :
    (run false (f16 ++ [.resume, .wake 1, .finish 1])).published = [] ∧
    NoOrphan (run false f16) := ⟨by decide, no_orphan_will f16⟩

/-! ### tie to the source: the statements of the goroutine as the extractor reads them on every run -/

/-- The goroutine in `unregisterClient` has exactly the steps `Model/WillTimer.lean` gives it — leave the select with the
    signalled value or, through the timer, with `true`; take `srv.mu`; remove the map entry only if it is its own; publish
    iff `send` — `signal` is a non-blocking send and the channel has room for one value. -/
theorem code_shape :
    Generated.willGoroutineSteps =
      ["select:send = <-wm.send{t.Stop()}|<-t.C{send = true}", "lock", "defer-unlock", "delete-if-own", "return-unless-send", "send"] ∧
    Generated.willSignalShape = ["non-blocking-send"] ∧ Generated.willSignalChannel = ["make(chan bool, 1)"] := by decide

/-- Besides the goroutine, exactly four statements of server/server.go touch the table of pending wills or signal a will,
    and they are the ones the model's steps transcribe (fingerprints of "function: statement", `Generated.willSites` has the
    texts):

      sessionTerminatedLocked: if w, ok := srv.willMessage[clientID]; ok { w.signal(true) }                    -- `terminate`
      registerClient: if w, ok := srv.willMessage[client.opts.ClientID]; ok { w.signal(false) }                -- `resume`
      registerClient: if w, ok := srv.willMessage[client.opts.ClientID]; ok { w.signal(true) }                 -- discarded on take-over
      unregisterClient: srv.willMessage[client.opts.ClientID] = wm                                             -- `discWill`

    None of them deletes an entry or publishes by itself: publication and removal belong to the goroutine alone, which is
    what `will_published_at_most_once` and `no_orphan_will` rest on. A new site, or one of these doing more, changes the
    protocol between the goroutine and the rest of the broker and the model has to be revisited. -/
theorem will_table_sites :
    Generated.willSitesH = [10254449101128154510, 449044565644613609, 9324400592424825336, 11441625322029165376] := by decide

/-- which of the two versions of the model the code is -/
def codeAsIs : Bool := !(Generated.willGoroutineSteps.contains "delete-if-own")

theorem code_is_repaired : codeAsIs = false := by decide

/-- theorems 1 and 3 for the version of the model selected by what the extractor read -/
theorem no_orphan_will_code (ops : List Op) : NoOrphan (run codeAsIs ops) := by
  rw [code_is_repaired]; exact no_orphan_will ops

theorem will_published_only_if_due_code (ops : List Op) (w : Nat) (h : w ∈ (run codeAsIs ops).published) :
    w ∈ (run codeAsIs ops).fired ∨ w ∈ (run codeAsIs ops).ended := by
  rw [code_is_repaired] at h ⊢; exact will_published_only_if_due ops w h

/-! non-vacuity -/
/-- hypotheses of theorem 2 hold after `f16` for will 1 -/
example : pending (run false f16) 1 ∧ (run false f16).online = false ∧ (run false f16).session = true := by decide
/-- a will that is due is published: timer, and end of session -/
example : (run false [.discWill, .fire 0, .finish 0]).published = [0] := by decide
example : (run false [.discWill, .terminate, .wake 0, .finish 0]).published = [0] ∧
          (run false [.discWill, .terminate, .wake 0, .finish 0]).ended = [0] := by decide
/-- a clean-start CONNECT = `terminate` then `connectFresh` -/
example : (run false [.discWill, .terminate, .connectFresh, .wake 0, .finish 0, .discWill]).entry = some 1 := by decide

end GmqttVerif.WillTimer
