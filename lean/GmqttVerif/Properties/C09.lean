import GmqttVerif.Model.RedisStores
import GmqttVerif.Model.RedisHistory
import GmqttVerif.Proofs.ElemCodec
import GmqttVerif.Proofs.RedisCrash
import GmqttVerif.Properties.C10Redis
/-
  C09 — Durable (redis) sessions survive a broker crash at any point.

  Property theorems only; lemmas live in `Proofs/ElemCodec.lean`, `Proofs/Redis*.lean`.
  The models (`Model/Redis.lean`, `Model/RedisStores.lean`, `Model/RedisQueue.lean`, `Model/ElemCodec.lean`) mirror the
  tree WITH the patches of findings/c09-*.diff and findings/c10-redis-queue.diff; they are tied to the code by the
  streams `redis-cmds`, `redis-codec`, `redis-stores`, `redis-crash` of `bin/check C09` (vlib/props/c09.py).
-/
namespace GmqttVerif.C09
open GmqttVerif.Codec GmqttVerif.ElemCodec GmqttVerif.Redis GmqttVerif.RedisStores

/-! ## 1. every stored value decodes to what was encoded (within the limits of the format)

The limits are explicit hypotheses:
* `Message.InLimits`: topic, payload, content type, correlation data, response topic and every user-property key/value are
  shorter than 64 KiB (`WriteString` writes `uint16(len)` — F30), packet id < 2^16, message expiry < 2^32,
  subscription identifiers < 2^28 (`DecodeRemainLength` gives up above, and the encoder drops its error);
* `Elem.InLimits`: the two timestamps fit 64 bits and the body is within its limits;
* `Subscription.InLimits`: share name and topic filter shorter than 64 KiB, identifier < 2^32. -/

/-- `DecodeMessage(EncodeMessage(m)) = m` -/
theorem message_roundtrip (m : Message) (h : m.InLimits) : decodeMessage (encodeMessage m) = .ok m :=
  decodeMessage_encodeMessage m h

/-- `Elem.Decode(Elem.Encode(e)) = e`, for PUBLISH and PUBREL elements -/
theorem elem_roundtrip (e : Elem) (h : e.InLimits) : decodeElem (encodeElem e) = .ok e :=
  decodeElem_encodeElem e h

/-- `DecodeSubscription(EncodeSubscription(s)) = s` -/
theorem subscription_roundtrip (s : Subscription) (h : s.InLimits) : decodeSubscription (encodeSubscription s) = .ok s :=
  decodeSubscription_encodeSubscription s h

/-- F30 is real: the length prefix of a 64 KiB field wraps to 0, so the decoder reads an EMPTY field and then takes the
    field's bytes for whatever follows (packet id, property ids, …). -/
theorem f30_length_prefix_wraps (p rest : Bytes) (h : p.length = 65536) :
    readBin (writeBin p ++ rest) = .ok ([], p ++ rest) := by
  simp [writeBin, writeU16, h, readBin]

/-- the five fields `Store.Set` writes are read back as the same session, whatever the hash held before -/
theorem session_roundtrip (old : List (Bytes × Bytes)) (s : Session) (hw : ∀ m, s.will = some m → m.InLimits)
    (h1 : s.willDelay < 4294967296) (h2 : s.connectedAt < 4294967296) (h3 : s.expiry < 4294967296) :
    parseSession (sessFields.map (hfind (upsertMany old (sessHash s)))) = .ok (some s) :=
  parsedSess_sessHash old s hw h1 h2 h3

/-! ## 2. the raw dataset refines the decoded store, command by command

`DCmd` (Model/RedisDecoded.lean) are the write commands of the persistence layer with decoded payloads, `DCmd.enc` the redis
command sent, `dfold` their meaning on the decoded store (per client: session hash, subscriptions, queue elements, unack
ids). After ANY sequence of well-formed commands a restart succeeds and recovers exactly the client views of the decoded
store: every client whose `session:<id>` hash holds a session, with exactly its subscriptions, its queue elements in
order, and its unack ids — nothing else, nothing missing. This holds for arbitrary command sequences, in particular for
every prefix of what a history issues. -/

theorem recover_refines (cs : List DCmd) (hc : ∀ d ∈ cs, d.Good) :
    ∃ d, recover (applyAll [] (cs.map DCmd.enc)) = .ok d ∧ ∀ c, viewOf d c = clientView (dfold DStore.empty cs) c := by
  obtain ⟨hr, hg⟩ := rel_fold cs [] DStore.empty rel_empty good_empty hc
  obtain ⟨d, hd, h1, h2⟩ := recover_of_rel _ _ hr hg
  exact ⟨d, hd, viewOf_eq d _ hg h1 h2⟩

/-! ## 3. crash consistency

`HOp` (Model/RedisHistory.lean) are the steps of client histories — connect (new / clean start / resume), subscribe,
unsubscribe, a publish routed to a subscriber's queue (online or offline), delivery, PUBACK/PUBCOMP, PUBREC, an incoming
QoS 2 publish, PUBREL, a new expiry on DISCONNECT, session termination — and `hcmds` the write commands the broker
issues for them, in order. `ValidOp` is what the callers of the stores guarantee (values within the limits of the format,
non-zero packet ids, …). The acknowledgement of a step (CONNACK, SUBACK, UNSUBACK, the publisher's PUBACK/PUBREC, …) is
written after the step's last command.

**For every valid history and EVERY prefix `k` of its command sequence** the restart on the dataset after `k` commands
succeeds, and

* (a) if `k` is the end of a step: every client is recovered exactly as the decoded state after that step says
  (`clientView (hrun … h1).g c`): the sessions whose registration completed and that were not removed, with exactly the
  subscriptions subscribed and not unsubscribed, the queue holding in order every element enqueued and not yet taken
  out (in-flight ones with their packet ids), and the unack ids set and not removed;
* (b) if `k` lies strictly inside a step: every OTHER client is recovered exactly as before that step, and the step's own
  client satisfies `Interior`: no session at all while a session is being created or removed; the same session with
  the same subscriptions / unack ids and a queue that differs in expiry times only while a resume replays; the same
  session with every QoS>0 message still queued while a `Read` pipeline runs. Steps with a single command have no
  interior. -/
theorem crash_consistent (ie : Nat) (h : List HOp) (hv : ValidHist ie {} h) (k : Nat) (hk : k ≤ (hcmds ie {} h).length) :
    ∃ d, recover (applyAll [] (((hcmds ie {} h).take k).map DCmd.enc)) = .ok d ∧
      ((∃ h1 h2, h = h1 ++ h2 ∧ k = (hcmds ie {} h1).length ∧ ∀ c, viewOf d c = clientView (hrun ie {} h1).g c) ∨
       (∃ h1 op h2 j, h = h1 ++ op :: h2 ∧ 0 < j ∧ j < (op.cmds ie (hrun ie {} h1)).length ∧
          k = (hcmds ie {} h1).length + j ∧
          (∀ c, c ≠ op.cid → viewOf d c = clientView (hrun ie {} h1).g c) ∧
          Interior (hrun ie {} h1) op (viewOf d op.cid))) := by
  obtain ⟨hgood, hsplit⟩ := hist_good ie h {} hinv_empty hv
  obtain ⟨d, hd, hview⟩ := recover_refines ((hcmds ie {} h).take k) (fun x hx => hgood x (List.mem_of_mem_take hx))
  refine ⟨d, hd, ?_⟩
  rcases prefix_split ie {} h k hk with ⟨h1, h2, he, ht, hl⟩ | ⟨h1, op, h2, j, he, hj0, hj, hkj, ht⟩
  · left
    refine ⟨h1, h2, he, hl, ?_⟩
    intro c
    have hg : dfold DStore.empty (hcmds ie {} h1) = (hrun ie {} h1).g := (hrun_g ie {} h1).symm
    rw [hview c, ht, hg]
  · right
    obtain ⟨hi1, hv1⟩ := hsplit h1 (op :: h2) he
    refine ⟨h1, op, h2, j, he, hj0, hj, hkj, ?_, ?_⟩
    · intro c hc
      rw [hview c, ht, dfold_append]
      have hg : dfold DStore.empty (hcmds ie {} h1) = (hrun ie {} h1).g := (hrun_g ie {} h1).symm
      rw [hg]
      exact clientView_congr _ _ c (take_cmds_other ie _ op j c hc)
    · rw [hview op.cid, ht, dfold_append]
      have hg : dfold DStore.empty (hcmds ie {} h1) = (hrun ie {} h1).g := (hrun_g ie {} h1).symm
      rw [hg]
      exact interior ie _ op j hi1 hv1.1 hj0 hj

/-! ### what the steps mean (the decoded state `clientView (hrun …).g` that (a) refers to) -/

/-- SUBSCRIBE adds / replaces exactly this subscription -/
theorem subscribe_meaning (ie : Nat) (st : HSt) (c : Bytes) (s : Subscription) :
    ((hstep ie st (.subscribe c s)).g c).subs = upsert (st.g c).subs (fullTopicName s) s ∧
    ((hstep ie st (.subscribe c s)).g c).queue = (st.g c).queue ∧ ((hstep ie st (.subscribe c s)).g c).sess = (st.g c).sess := by
  simp [hstep, HOp.cmds, HOp.run, dfold, dexec, DCmd.cid, DClient.step]

/-- UNSUBSCRIBE removes exactly this topic filter -/
theorem unsubscribe_meaning (ie : Nat) (st : HSt) (c : Bytes) (t : Bytes) :
    ((hstep ie st (.unsubscribe c t)).g c).subs = eraseField (st.g c).subs t := by
  simp [hstep, HOp.cmds, HOp.run, dfold, dexec, DCmd.cid, DClient.step, eraseFields]

/-- a routed PUBLISH is appended to the subscriber's queue -/
theorem enqueue_meaning (ie : Nat) (st : HSt) (c : Bytes) (e : Elem) :
    ((hstep ie st (.enqueue c e)).g c).queue = (st.g c).queue ++ [e] := by
  simp [hstep, HOp.cmds, HOp.run, dfold, dexec, DCmd.cid, DClient.step]

/-- PUBACK / PUBCOMP removes the in-flight entry carrying that packet id, and only it -/
theorem ack_meaning (ie : Nat) (st : HSt) (c : Bytes) (pid : Nat) (e : Elem)
    (h : findById pid ((st.g c).queue.take (st.cur c)) = some e) :
    ((hstep ie st (.ack c pid)).g c).queue = (st.g c).queue.erase e ∧ e.id = pid := by
  refine ⟨?_, (findById_mem pid _ e h).2⟩
  simp [hstep, HOp.cmds, HOp.run, h, dfold, dexec, DCmd.cid, DClient.step]

/-- an incoming QoS 2 PUBLISH records its packet id, PUBREL forgets it -/
theorem qos2_meaning (ie : Nat) (st : HSt) (c : Bytes) (pid : Nat) :
    pid ∈ ((hstep ie st (.recvQos2 c pid)).g c).unack ∧
    ((hstep ie st (.pubrel c pid)).g c).unack = (st.g c).unack.erase pid := by
  constructor
  · by_cases hm : pid ∈ (st.g c).unack
    · simp [hstep, HOp.cmds, HOp.run, hm, dfold]
    · simp [hstep, HOp.cmds, HOp.run, hm, dfold, dexec, DCmd.cid, DClient.step]
  · simp [hstep, HOp.cmds, HOp.run, dfold, dexec, DCmd.cid, DClient.step]

/-- removing a session leaves no session, queue or subscriptions behind -/
theorem terminate_meaning (ie : Nat) (st : HSt) (c : Bytes) :
    clientView (hstep ie st (.terminate c)).g c = none ∧ ((hstep ie st (.terminate c)).g c).subs = [] ∧
    ((hstep ie st (.terminate c)).g c).queue = [] := by
  refine ⟨?_, ?_, ?_⟩
  · rw [clientView_eq_cview]
    apply cview_sess_nil
    simp [hstep, HOp.cmds, HOp.run, removalCmds, dfold, dexec, DCmd.cid, DClient.step]
  · simp [hstep, HOp.cmds, HOp.run, removalCmds, dfold, dexec, DCmd.cid, DClient.step]
  · simp [hstep, HOp.cmds, HOp.run, removalCmds, dfold, dexec, DCmd.cid, DClient.step]

/-! ### non-vacuity: a history with a crash point inside a `Read` pipeline -/

private def demoSub : Subscription := { topicFilter := [116], qos := 1 }
private def demoMsg (q : Nat) : Elem := { atTime := 0, expiry := zeroTime, body := .publish { qos := q, topic := [116], payload := [112] } }
private def demoHist : List HOp :=
  [.connect [99] true { id := [99], expiry := 300 } 1000, .subscribe [99] demoSub, .enqueue [99] (demoMsg 0),
   .enqueue [99] (demoMsg 1), .deliver [99] [7, 8] 2000, .ack [99] 7]

example : (hcmds 30 {} demoHist).length = 10 := by decide
example : ((hrun 30 {} demoHist).g [99]).queue = [] := by decide

end GmqttVerif.C09
