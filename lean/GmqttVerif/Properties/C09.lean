import GmqttVerif.Model.RedisStores
import GmqttVerif.Proofs.ElemCodec
/-
  C09 — Durable (redis) sessions survive a broker crash at any point.

  Property theorems only; lemmas live in `Proofs/ElemCodec.lean`, `Proofs/Redis*.lean`.
  The models (`Model/Redis.lean`, `Model/RedisStores.lean`, `Model/RedisQueue.lean`, `Model/ElemCodec.lean`) mirror the
  tree WITH the patches of findings/c09-*.diff and findings/c10-redis-queue.diff; they are tied to the code by the
  streams `redis-cmds`, `redis-codec`, `redis-stores`, `redis-crash` of `bin/check C09` (vlib/props/c09.py).
-/
namespace GmqttVerif.C09
open GmqttVerif.Codec GmqttVerif.ElemCodec GmqttVerif.Redis GmqttVerif.RedisStores

/-! ## 1. every stored value decodes to what was encoded (within the limits of the format)

The limits are explicit hypotheses:
* `Message.InLimits`: topic, payload, content type, correlation data, response topic and every user-property key/value are
  shorter than 64 KiB (`WriteString` writes `uint16(len)` — F30), packet id < 2^16, message expiry < 2^32,
  subscription identifiers < 2^28 (`DecodeRemainLength` gives up above, and the encoder drops its error);
* `Elem.InLimits`: the two timestamps fit 64 bits and the body is within its limits;
* `Subscription.InLimits`: share name and topic filter shorter than 64 KiB, identifier < 2^32. -/

/-- `DecodeMessage(EncodeMessage(m)) = m` -/
theorem message_roundtrip (m : Message) (h : m.InLimits) : decodeMessage (encodeMessage m) = .ok m :=
  decodeMessage_encodeMessage m h

/-- `Elem.Decode(Elem.Encode(e)) = e`, for PUBLISH and PUBREL elements -/
theorem elem_roundtrip (e : Elem) (h : e.InLimits) : decodeElem (encodeElem e) = .ok e :=
  decodeElem_encodeElem e h

/-- `DecodeSubscription(EncodeSubscription(s)) = s` -/
theorem subscription_roundtrip (s : Subscription) (h : s.InLimits) : decodeSubscription (encodeSubscription s) = .ok s :=
  decodeSubscription_encodeSubscription s h

/-- F30 is real: the length prefix of a 64 KiB field wraps to 0, so the decoder reads an EMPTY field and then takes the
    field's bytes for whatever follows (packet id, property ids, …). -/
theorem f30_length_prefix_wraps (p rest : Bytes) (h : p.length = 65536) :
    readBin (writeBin p ++ rest) = .ok ([], p ++ rest) := by
  simp [writeBin, writeU16, h, readBin]

end GmqttVerif.C09
