import GmqttVerif.Model.Queue
import GmqttVerif.Proofs.Queue
/-
  C10 — Session message queue: bounded, FIFO, conserving, drops by documented priority.

  Property theorems only; helper lemmas live in `Proofs/Queue.lean`.
  Everything is stated for ALL operation histories (lists of `Op`), all capacities, all
  times, all sizes.  The model (`Model/Queue.lean`) is tied to `persistence/queue/mem`
  by the correspondence stream `queue-mem` of `bin/check C10`.
-/
namespace GmqttVerif.Queue

/-! ## vocabulary (definitions are in Proofs/Queue.lean so lemmas can use them)

* `WFOp op`      : what callers guarantee: added elements are PUBLISHes without a packet id,
                   packet ids supplied to `Read` are non-zero.
* `tags l`       : ghost identities of a list of elements.
* `Out.dropped`  : elements reported through `NotifyDropped` by one step.
* `Out.finished` : elements that left by completion: QoS 0 handed out by `Read`, or acknowledged (`Remove`).
* `addedTags ops`: tags passed to `Add`, in order.
* `ledger outs`  : tags of everything dropped, finished or cleared over a history.
* `handedOut outs`: tags returned by `Read` (not replays), in order.
* `unread q`     : tags of queued, not yet handed out messages, in order.
* `counters`     : running sums of the queue / in-flight deltas, reset by a clean `Init`.
-/

/-- 1. The length never exceeds the configured maximum, for every history. -/
theorem len_le_max (max ie : Nat) (hmax : 0 < max) (ops : List Op) :
    (run (new max ie) ops).1.items.length ≤ max :=
  run_len_le_max _ ops (by simp [new, Q.items]) hmax

/-- 2. Conservation: after any history, what is inside plus everything reported dropped,
    finished (QoS 0 handed out / acknowledged) or discarded by a clean Init is exactly
    (as a multiset) what was inside before plus what was added. Nothing is lost or invented. -/
theorem conservation (q : Q) (ops : List Op) :
    List.Perm (tags (run q ops).1.items ++ ledger (run q ops).2) (tags q.items ++ addedTags ops) :=
  run_conservation q ops

/-- 2'. "exactly one of, never two, never silently gone": if the added messages are pairwise
    distinct, every one of them occurs exactly once in (still inside ++ dropped ++ finished ++ cleared). -/
theorem exactly_one_place (max ie : Nat) (ops : List Op) (hnd : (addedTags ops).Nodup) (t : Nat)
    (ht : t ∈ addedTags ops) :
    (tags (run (new max ie) ops).1.items ++ ledger (run (new max ie) ops).2).count t = 1 :=
  run_exactly_one max ie ops hnd t ht

/-- 3. FIFO: over any well-formed history from an empty queue, the messages handed out by `Read`
    (in hand-out order) followed by the still unread ones form a subsequence of the insertion order. -/
theorem read_fifo (max ie : Nat) (ops : List Op) (hwf : ∀ op ∈ ops, WFOp op) :
    List.Sublist (handedOut (run (new max ie) ops).2 ++ unread (run (new max ie) ops).1) (addedTags ops) :=
  run_fifo max ie ops hwf

/-- 4. Packet ids: in every reachable state a `Read` gives the supplied ids, in order, to exactly the
    QoS>0 messages it returns, and QoS 0 messages carry no id. -/
theorem read_ids_in_order (max ie : Nat) (ops : List Op) (hwf : ∀ op ∈ ops, WFOp op)
    (now : Nat) (pids : List Nat) (out : List Elem) (evs : List Ev) (q' : Q)
    (h : (run (new max ie) ops).1.read now pids = (q', .ok out evs)) :
    ((out.filter (fun e => e.qos != 0)).map (·.id)) = pids.take (out.filter (fun e => e.qos != 0)).length
    ∧ ∀ e ∈ out, e.qos = 0 → e.id = 0 :=
  reachable_read_ids max ie ops hwf now pids out evs q' h

/-- 5. `Read` never returns an expired or oversize message (in any state whatsoever):
    every returned element stems from a queued element that was not expired at `now`
    and whose size does not exceed the read limit. -/
theorem read_never_expired_or_oversize (q : Q) (now : Nat) (pids : List Nat) (out : List Elem)
    (evs : List Ev) (q' : Q) (h : q.read now pids = (q', .ok out evs)) :
    ∀ e ∈ out, ∃ v ∈ q.rest, v.tag = e.tag ∧ v.size = e.size ∧ expired now v = false ∧ e.size ≤ q.limit :=
  read_ok_sound q now pids out evs q' h

/-- 6. Replay: after `Init` without clean start in any reachable state, any sequence of `ReadInflight`
    calls (sizes arbitrary) returns a prefix of the unacknowledged in-flight entries, in order, with their
    packet ids; once the queue reports "drained" the whole of them has been returned; and `Read`
    is refused until then. -/
theorem replay_after_init (max ie : Nat) (ops : List Op) (hwf : ∀ op ∈ ops, WFOp op)
    (limit : Nat) (calls : List (Nat × Nat)) :
    let q := (run (new max ie) ops).1
    let inflight := q.items.filter (fun e => e.id != 0)
    let r := runReplay (q.init false limit) calls
    (r.2.map key).IsPrefix (inflight.map key)   -- `IsPrefix a b` = `a <+: b`
    ∧ (r.1.drained = true → r.2.map key = inflight.map key)
    ∧ (r.1.drained = false → ∀ now pids, (r.1.read now pids).2 = .panic) :=
  reachable_replay max ie ops hwf limit calls

/-- 7. Drop ladder: on a full queue the victim chosen by `Add` is, in this order:
    the first expired in-flight entry; the first expired queued message; the first queued QoS 0
    message; then the newcomer if it is QoS 0 or nothing is queued, else the oldest queued message.
    (`find?` = first element satisfying; `eraseP` = the list without it.) -/
theorem drop_ladder (q : Q) (now : Nat) (e : Elem) :
    chooseVictim q now e =
      match q.done.find? (expired now) with
      | some v => .inflight v (q.done.eraseP (expired now))
      | none =>
        match q.rest.find? (fun x => isQueued x && expired now x) with
        | some v => .queued v .expired (q.rest.eraseP (fun x => isQueued x && expired now x))
        | none =>
          match q.rest.find? (fun x => isQueued x && x.qos == 0) with
          | some v => .queued v .full (q.rest.eraseP (fun x => isQueued x && x.qos == 0))
          | none =>
            if e.qos == 0 then .newcomer
            else match q.rest.find? isQueued with
              | some v => .queued v .full (q.rest.eraseP isQueued)
              | none => .newcomer :=
  chooseVictim_spec q now e

/-- 7'. and `Add` touches nothing unless the queue is full. -/
theorem add_not_full (q : Q) (now : Nat) (e : Elem) (h : q.items.length < q.max) :
    q.add now e = ({ q with rest := q.rest ++ [e] }, [.queued 1]) :=
  add_of_not_full q now e h

/-- 8. Counters: over any well-formed history from an empty queue, the sums of the deltas reported
    through the notifier (since creation or the last clean Init) equal the true contents:
    queue length, and number of entries that carry a packet id (in flight). -/
theorem counters_exact (max ie : Nat) (ops : List Op) (hwf : ∀ op ∈ ops, WFOp op) :
    let r := run (new max ie) ops
    counters ops r.2 = ((r.1.items.length : Int), ((r.1.items.filter (fun e => e.id != 0)).length : Int)) :=
  run_counters max ie ops hwf

/-! ## non-vacuity: concrete non-trivial histories meet the hypotheses -/

def exElem (t q : Nat) (x : Option Nat) : Elem := { tag := t, pub := true, id := 0, qos := q, exp := x, size := 20 }

def exOps : List Op :=
  [.init true 100, .readInflight 1 10, .add 2 (exElem 1 1 none), .add 3 (exElem 2 0 none), .add 4 (exElem 3 2 (some 1)),
   .read 5 [7, 8], .add 6 (exElem 4 1 none), .add 7 (exElem 5 1 none), .remove 7, .init false 100,
   .readInflight 9 10, .readInflight 10 10, .read 11 [9]]

example : (∀ op ∈ exOps, WFOp op) ∧ (addedTags exOps).Nodup := by decide
example : (run (new 2 0) exOps).1.items.length = 1 := by decide
example : handedOut (run (new 2 0) exOps).2 = [1, 5] := by decide

end GmqttVerif.Queue
