import GmqttVerif.Proofs.RedisQueueLoops
/-
  C10, redis backend — `persistence/queue/redis` refines `persistence/queue/mem`.

  The redis queue (Model/RedisQueue.lean: the list `queue:<id>` in redis + `len`, `current`, `readCache` in memory;
  every method = LRANGE, decode, decide, then RPUSH / LSET index / LREM 1 <bytes>) is compared with the SAME Lean model as
  the memory queue (Model/Queue.lean) by the stream `queue-redis` of `bin/check C10`: same op lines, same oracle.
  Here the refinement is stated in Lean and proved for EVERY operation: the ones that touch at most one entry (`Init`,
  `Close`, `Add` below capacity, `Remove`, `Replace`; Proofs/RedisQueue.lean) and the loops — `Read`, `ReadInflight` and the
  drop ladder of `Add` on a full queue (Proofs/RedisQueueLoops.lean) —, then combined into one step theorem
  (`redis_refines_mem`, over the dispatcher `rstep`) and lifted to whole histories (`redis_refines_mem_run`).

  Caller obligations. Besides the state-independent `Queue.WFOp` (added elements are PUBLISHes without packet id, packet ids
  given to `Read` are non-zero) the refinement needs three obligations RELATIVE TO THE STATE, collected in `FreshOp q op`:
    * `Add e`     : the ghost tag of `e` is not in the queue (then no two list entries are byte-identical);
    * `Read pids` : the packet ids are pairwise different and none of them is in use in the queue (what the session's
                    packet id allocator guarantees; with a reused id the two queues DIFFER observably after the next
                    `Remove` — `readCache[id]` is overwritten, the memory queue removes the first entry carrying the id —,
                    see `/verif/findings/c10-redis-refinement-pids.md` and `statement_without_fresh_false` below);
    * `Replace e` : the ghost tag of the PUBREL is the tag of the slot it overwrites (ghost only: the memory model keeps the
                    slot's tag, the redis model stores the bytes of `e`).
  `RedisRefinesMemStatement` therefore carries the hypothesis `FreshOp q op` in addition to the original text (kept as
  `RedisRefinesMemStatementWFOnly`, which is refuted for the dispatcher by `statement_without_fresh_false`).

  `Sim C rq ds q` (Proofs/RedisQueue.lean): the redis list holds exactly the encodings of `q.done ++ q.rest`, `len` and
  `current` are their lengths, `readCache` maps every packet id in front of the cursor to the bytes of its entry, the flags
  agree — plus the two hypotheses of the refinement as invariants: the ghost tags are pairwise distinct ("no two list
  entries are byte-identical": the codec is injective) and the packet ids in use are pairwise distinct.
-/
namespace GmqttVerif.C10Redis
open GmqttVerif.Codec (Bytes)
open GmqttVerif.Redis GmqttVerif.RedisQueue
open GmqttVerif.Queue (Elem Q)

/-- caller obligations relative to the state (see the header) -/
def FreshOp (q : Q) : Queue.Op → Prop
  | .add _ e => e.tag ∉ Queue.tags q.items
  | .read _ pids => pids.Nodup ∧ ∀ p ∈ pids, p ∉ nzIds q.items
  | .replace e =>
    match q.done.find? (fun x => x.id == e.id) with
    | some x => e.tag = x.tag
    | none => True
  | _ => True

instance (q : Q) : DecidablePred (FreshOp q) := fun op => by
  cases op <;> simp only [FreshOp] <;> try infer_instance
  split <;> infer_instance

/-- THE ORIGINAL TEXT of the statement (only `Queue.WFOp`). It is false for the dispatcher `rstep` (below): an `Add` that
    repeats a ghost tag, or a `Read` that reuses a packet id, leaves the relation — `statement_without_fresh_false`. -/
def RedisRefinesMemStatementWFOnly (C : RedisQueue.Codec)
    (rstep : RQ → Dataset → Queue.Op → RQ × Dataset × List Queue.Ev × List Elem × String) : Prop :=
  ∀ (rq : RQ) (ds : Dataset) (q : Q) (op : Queue.Op), Sim C rq ds q → Queue.WFOp op →
    let r := rstep rq ds op
    let m := Queue.step q op
    r.2.2.1 = m.2.evs ∧ r.2.2.2.1 = m.2.returned ∧ r.2.2.2.2 = m.2.status ∧ Sim C r.1 r.2.1 m.1

/-- FULL STATEMENT: every operation of a well-formed history gives the same notifier calls, the same returned elements and
    the same status on both queues, and keeps the relation. `rstep` is `RedisQueue.{add,read,readInflight,remove,replace,
    init,close}` dispatched on `Queue.Op` (`rstep` below). Change against the original text: the hypothesis `FreshOp q op`. -/
def RedisRefinesMemStatement (C : RedisQueue.Codec)
    (rstep : RQ → Dataset → Queue.Op → RQ × Dataset × List Queue.Ev × List Elem × String) : Prop :=
  ∀ (rq : RQ) (ds : Dataset) (q : Q) (op : Queue.Op), Sim C rq ds q → Queue.WFOp op → FreshOp q op →
    let r := rstep rq ds op
    let m := Queue.step q op
    r.2.2.1 = m.2.evs ∧ r.2.2.2.1 = m.2.returned ∧ r.2.2.2.2 = m.2.status ∧ Sim C r.1 r.2.1 m.1

/-- `Init` (with and without Clean Start) -/
theorem redis_refines_mem_init (C : RedisQueue.Codec) (rq : RQ) (ds : Dataset) (q : Q) (clean : Bool) (limit : Nat)
    (h : Sim C rq ds q) :
    (init rq ds clean limit : Res Elem).status = .ok ∧
      Sim C (init rq ds clean limit : Res Elem).q (applyAll ds (init rq ds clean limit : Res Elem).cmds) (q.init clean limit) :=
  sim_init C rq ds q clean limit h

/-- `Add` while the queue is not full: one RPUSH, `NotifyMsgQueueAdded(1)` -/
theorem redis_refines_mem_add (C : RedisQueue.Codec) (rq : RQ) (ds : Dataset) (q : Q) (now : Nat) (e : Elem)
    (h : Sim C rq ds q) (hfull : q.items.length < q.max) (hpub : e.pub = true) (hid : e.id = 0)
    (htag : e.tag ∉ Queue.tags q.items) :
    (add (ops C) rq ds now e).evs.map evOf = (q.add now e).2 ∧ (add (ops C) rq ds now e).status = .ok ∧
      Sim C (add (ops C) rq ds now e).q (applyAll ds (add (ops C) rq ds now e).cmds) (q.add now e).1 :=
  sim_add_notfull C rq ds q now e h hfull hpub hid htag

/-- `Remove(pid)`: LREM by the cached bytes removes exactly the entry the memory queue removes -/
theorem redis_refines_mem_remove (C : RedisQueue.Codec) (rq : RQ) (ds : Dataset) (q : Q) (pid : Nat)
    (h : Sim C rq ds q) (hpid : pid ≠ 0) :
    ((remove rq pid : Res Elem).evs.map evOf = (q.remove pid).2.1) ∧ (remove rq pid : Res Elem).status = .ok ∧
      Sim C (remove rq pid : Res Elem).q (applyAll ds (remove rq pid : Res Elem).cmds) (q.remove pid).1 :=
  sim_remove C rq ds q pid h hpid

/-- `Replace(elem)`: LSET at the index of the first entry in front of the cursor carrying the packet id; the ghost tag of the
    slot stays with it (`slotTag`), exactly as `Queue.replaceFirst` does -/
theorem redis_refines_mem_replace (C : RedisQueue.Codec) (rq : RQ) (ds : Dataset) (q : Q) (e : Elem) (h : Sim C rq ds q) :
    let slotTag := ((q.done.find? (fun x => x.id == e.id)).map (·.tag)).getD e.tag
    let e' : Elem := { e with tag := slotTag }
    ((replace (ops C) rq ds e').status = (if (q.replace e).2 then Status.replaced else Status.notfound)) ∧
      Sim C (replace (ops C) rq ds e').q (applyAll ds (replace (ops C) rq ds e').cmds) (q.replace e).1 :=
  sim_replace C rq ds q e h

/-- `Close` -/
theorem redis_refines_mem_close (C : RedisQueue.Codec) (rq : RQ) (ds : Dataset) (q : Q) (h : Sim C rq ds q) :
    Sim C (close (ε := Elem) rq).q (applyAll ds (close (ε := Elem) rq).cmds) q.close :=
  sim_close C rq ds q h

/-- the relation is not vacuous: a fresh queue object on an empty dataset simulates the fresh memory queue -/
theorem sim_new (C : RedisQueue.Codec) (key : Bytes) (max ie : Nat) :
    Sim C { key := key, max := max, ie := ie } [] (Queue.new max ie) := by
  refine ⟨by simp [NoDupKeys], by simp [listAt, Redis.get, Queue.new, Q.items], by simp [Queue.new, Q.items],
    by simp [Queue.new], by simp [cacheGet, Queue.new], rfl, rfl, rfl, rfl, rfl, by simp [Queue.new, Q.items, Queue.tags],
    by simp [Queue.new, Q.items, nzIds], Queue.inv_new max ie⟩

/-! ## the loops -/

/-- `ReadInflight(maxSize)`: LRANGE of the window behind the cursor; every entry with a packet id is returned with a
    refreshed expiry (LSET at its index when an in-flight expiry is configured), cached, and the cursor moves past it; the
    first entry without packet id ends the drain. Same returned elements, no notifier calls, relation kept.
    Hypotheses: the relation only. -/
theorem redis_refines_mem_readInflight (C : RedisQueue.Codec) (rq : RQ) (ds : Dataset) (q : Q) (now maxSize : Nat)
    (h : Sim C rq ds q) :
    (readInflight (ops C) rq ds now maxSize).evs.map evOf = [] ∧
    (readInflight (ops C) rq ds now maxSize).ret = (q.readInflight now maxSize).2 ∧
    (readInflight (ops C) rq ds now maxSize).status = .ok ∧
      Sim C (readInflight (ops C) rq ds now maxSize).q (applyAll ds (readInflight (ops C) rq ds now maxSize).cmds)
        (q.readInflight now maxSize).1 :=
  sim_readInflight C rq ds q now maxSize h

/-- `Read(pids)`, every branch (panic before the drain, would block, closed, empty id list, the loop): expired / oversize
    entries are removed with LREM and reported, QoS 0 entries are removed and returned, QoS 1/2 entries get the next packet
    id by LSET at the cursor. Same notifier calls (in order, with the two deltas), same returned elements, same status,
    relation kept.
    Hypotheses: the relation; the packet ids are non-zero (`Queue.WFOp`), pairwise different and not in use (`FreshOp`). -/
theorem redis_refines_mem_read (C : RedisQueue.Codec) (rq : RQ) (ds : Dataset) (q : Q) (now : Nat) (pids : List Nat)
    (h : Sim C rq ds q) (h0 : ∀ p ∈ pids, p ≠ 0) (hnd : pids.Nodup) (hfresh : ∀ p ∈ pids, p ∉ nzIds q.items) :
    (read (ops C) rq ds now pids).evs.map evOf = (Queue.step q (.read now pids)).2.evs ∧
    (read (ops C) rq ds now pids).ret = (Queue.step q (.read now pids)).2.returned ∧
    statusStr (read (ops C) rq ds now pids).status = (Queue.step q (.read now pids)).2.status ∧
      Sim C (read (ops C) rq ds now pids).q (applyAll ds (read (ops C) rq ds now pids).cmds)
        (Queue.step q (.read now pids)).1 :=
  sim_read C rq ds q now pids h h0 hnd hfresh

/-- `Add` on a FULL queue: LRANGE 0 -1, decode, the drop ladder (expired in-flight entry → expired queued → first queued
    QoS 0 → the newcomer if it is QoS 0 or nothing is queued → the oldest queued) picks the victim the memory queue picks;
    LREM 1 <its bytes> + RPUSH of the newcomer. Same notifier calls, relation kept.
    Hypotheses: the relation; the queue is full; the newcomer is a PUBLISH without packet id (`Queue.WFOp`) whose ghost tag
    is not in the queue (`FreshOp`). (`max > 0` is NOT needed: with `max = 0` both queues drop every newcomer.) -/
theorem redis_refines_mem_add_full (C : RedisQueue.Codec) (rq : RQ) (ds : Dataset) (q : Q) (now : Nat) (e : Elem)
    (h : Sim C rq ds q) (hfull : q.max ≤ q.items.length) (hpub : e.pub = true) (hid : e.id = 0)
    (htag : e.tag ∉ Queue.tags q.items) :
    (add (ops C) rq ds now e).evs.map evOf = (q.add now e).2 ∧ (add (ops C) rq ds now e).status = .ok ∧
      Sim C (add (ops C) rq ds now e).q (applyAll ds (add (ops C) rq ds now e).cmds) (q.add now e).1 :=
  sim_add_full C rq ds q now e h hfull hpub hid htag

/-! ## all operations -/

/-- what a method call of the redis queue makes observable, and the dataset after its commands -/
def resOut (ds : Dataset) (r : Res Elem) : RQ × Dataset × List Queue.Ev × List Elem × String :=
  (r.q, applyAll ds r.cmds, r.evs.map evOf, r.ret, statusStr r.status)

/-- the methods of the redis queue dispatched on `Queue.Op` -/
def rstep (C : RedisQueue.Codec) (rq : RQ) (ds : Dataset) : Queue.Op → RQ × Dataset × List Queue.Ev × List Elem × String
  | .add now e => resOut ds (add (ops C) rq ds now e)
  | .read now pids => resOut ds (read (ops C) rq ds now pids)
  | .readInflight now n => resOut ds (readInflight (ops C) rq ds now n)
  | .remove pid => resOut ds (remove rq pid)
  | .replace e => resOut ds (replace (ops C) rq ds e)
  | .init clean limit => resOut ds (init rq ds clean limit)
  | .close => resOut ds (close rq)

/-- THE REFINEMENT, one step: for every operation whose caller obligations hold, the redis queue makes the same notifier
    calls, returns the same elements and the same status as the memory queue, and the simulation relation holds again
    between the new object state + the dataset after the issued commands and the new memory queue. -/
theorem redis_refines_mem (C : RedisQueue.Codec) : RedisRefinesMemStatement C (rstep C) := by
  intro rq ds q op hs hwf hfr
  cases op with
  | add now e =>
    have key : (add (ops C) rq ds now e).evs.map evOf = (q.add now e).2 ∧ (add (ops C) rq ds now e).status = .ok ∧
        Sim C (add (ops C) rq ds now e).q (applyAll ds (add (ops C) rq ds now e).cmds) (q.add now e).1 := by
      by_cases hfull : q.items.length < q.max
      · exact sim_add_notfull C rq ds q now e hs hfull hwf.1 hwf.2 hfr
      · exact sim_add_full C rq ds q now e hs (by omega) hwf.1 hwf.2 hfr
    obtain ⟨k1, k2, k3⟩ := key
    refine ⟨k1, add_ret C rq ds now e, ?_, k3⟩
    show statusStr (add (ops C) rq ds now e).status = "ok"
    rw [k2]; rfl
  | read now pids =>
    exact sim_read C rq ds q now pids hs hwf hfr.1 hfr.2
  | readInflight now n =>
    obtain ⟨k1, k2, k3, k4⟩ := sim_readInflight C rq ds q now n hs
    refine ⟨k1, k2, ?_, k4⟩
    show statusStr (readInflight (ops C) rq ds now n).status = "ok"
    rw [k3]; rfl
  | remove pid =>
    obtain ⟨k1, k2, k3⟩ := sim_remove_any C rq ds q pid hs
    obtain ⟨m1, m2, m3, m4⟩ := step_remove_eq q pid
    refine ⟨k1.trans m2.symm, (remove_ret rq pid).trans m3.symm, ?_, m1 ▸ k3⟩
    show statusStr (remove rq pid : Res Elem).status = _
    rw [k2, m4]; rfl
  | replace e =>
    have he : ({ e with tag := ((q.done.find? (fun x => x.id == e.id)).map (·.tag)).getD e.tag } : Elem) = e := by
      simp only [FreshOp] at hfr
      cases hf : q.done.find? (fun x => x.id == e.id) with
      | none => rfl
      | some x =>
        rw [hf] at hfr
        simp only at hfr
        simp [← hfr]
    have key := sim_replace C rq ds q e hs
    simp only [he] at key
    obtain ⟨k1, k2⟩ := key
    obtain ⟨m1, m2, m3, m4⟩ := step_replace_eq q e
    obtain ⟨n1, n2⟩ := replace_ret_evs C rq ds e
    refine ⟨?_, n1.trans m3.symm, ?_, m1 ▸ k2⟩
    · show (replace (ops C) rq ds e).evs.map evOf = _
      rw [n2, m2]; rfl
    · show statusStr (replace (ops C) rq ds e).status = _
      rw [k1, m4]
      cases (q.replace e).2 <;> rfl
  | init clean limit =>
    obtain ⟨k1, k2⟩ := sim_init C rq ds q clean limit hs
    obtain ⟨n1, n2⟩ := init_ret_evs rq ds clean limit
    refine ⟨?_, n1, ?_, k2⟩
    · show (init rq ds clean limit : Res Elem).evs.map evOf = []
      rw [n2]; rfl
    · show statusStr (init rq ds clean limit : Res Elem).status = "ok"
      rw [k1]; rfl
  | close =>
    exact ⟨rfl, rfl, rfl, sim_close C rq ds q hs⟩

/-! ## whole histories -/

/-- the redis queue over a history: final object state, final dataset, and per operation (notifier calls, returned
    elements, status) -/
def rrun (C : RedisQueue.Codec) (rq : RQ) (ds : Dataset) : List Queue.Op → RQ × Dataset × List (List Queue.Ev × List Elem × String)
  | [] => (rq, ds, [])
  | op :: ops =>
    let r := rstep C rq ds op
    let rest := rrun C r.1 r.2.1 ops
    (rest.1, rest.2.1, (r.2.2.1, r.2.2.2.1, r.2.2.2.2) :: rest.2.2)

/-- the caller obligations along a history, each relative to the state the memory queue is in at that point -/
def FreshRun (q : Q) : List Queue.Op → Prop
  | [] => True
  | op :: ops => Queue.WFOp op ∧ FreshOp q op ∧ FreshRun (Queue.step q op).1 ops

instance : ∀ (q : Q) (ops : List Queue.Op), Decidable (FreshRun q ops)
  | _, [] => isTrue trivial
  | q, op :: ops =>
    have := instDecidableFreshRun (Queue.step q op).1 ops
    by unfold FreshRun; infer_instance

/-- THE REFINEMENT, whole histories: from related states, every history whose caller obligations hold produces the same
    observable outputs (notifier calls, returned elements, status — operation by operation) on the redis queue and on the
    memory queue, and ends in related states. -/
theorem redis_refines_mem_run (C : RedisQueue.Codec) (ops : List Queue.Op) (rq : RQ) (ds : Dataset) (q : Q)
    (h : Sim C rq ds q) (hf : FreshRun q ops) :
    (rrun C rq ds ops).2.2 = (Queue.run q ops).2.map (fun o => (o.evs, o.returned, o.status)) ∧
      Sim C (rrun C rq ds ops).1 (rrun C rq ds ops).2.1 (Queue.run q ops).1 := by
  induction ops generalizing rq ds q with
  | nil => exact ⟨rfl, h⟩
  | cons op ops ih =>
    obtain ⟨hwf, hfr, hrest⟩ := hf
    obtain ⟨s1, s2, s3, s4⟩ := redis_refines_mem C rq ds q op h hwf hfr
    obtain ⟨i1, i2⟩ := ih _ _ _ s4 hrest
    rw [Queue.run_cons]
    refine ⟨?_, i2⟩
    show (_, _, _) :: (rrun C (rstep C rq ds op).1 (rstep C rq ds op).2.1 ops).2.2 = _
    rw [i1, List.map_cons, s1, s2, s3]

/-- histories from the fresh queue: a new queue object over an empty dataset against `Queue.new` -/
theorem redis_refines_mem_from_new (C : RedisQueue.Codec) (key : Bytes) (max ie : Nat) (ops : List Queue.Op)
    (hf : FreshRun (Queue.new max ie) ops) :
    (rrun C { key := key, max := max, ie := ie } [] ops).2.2 =
        (Queue.run (Queue.new max ie) ops).2.map (fun o => (o.evs, o.returned, o.status)) ∧
      Sim C (rrun C { key := key, max := max, ie := ie } [] ops).1 (rrun C { key := key, max := max, ie := ie } [] ops).2.1
        (Queue.run (Queue.new max ie) ops).1 :=
  redis_refines_mem_run C ops _ _ _ (sim_new C key max ie) hf

/-! ## non-vacuity, and why `FreshOp` is needed -/

def exElem (t q : Nat) (x : Option Nat) : Elem := { tag := t, pub := true, id := 0, qos := q, exp := x, size := 20 }

/-- a history that ends with one message in flight (tag 1, packet id 7) and two queued (tags 2, 3) in a queue of capacity 3 -/
def exOps : List Queue.Op :=
  [.init true 100, .readInflight 1 10, .add 2 (exElem 1 1 none), .add 3 (exElem 2 0 none), .add 4 (exElem 3 2 (some 9)),
   .read 5 [7]]

/-- … continued: `Add` on the full queue (the ladder drops the queued QoS 0 message), a `Read` with two fresh ids, the PUBREL
    of the in-flight message, its acknowledgement, a reconnect and the replay -/
def exOps2 : List Queue.Op :=
  exOps ++ [.add 6 (exElem 4 1 none), .read 7 [8, 9], .replace { exElem 1 1 none with pub := false, id := 7 }, .remove 7,
    .init false 100, .readInflight 8 1, .readInflight 9 5, .add 20 (exElem 5 1 none)]

example : FreshRun (Queue.new 3 0) exOps2 := by decide

/-- the hypotheses of the three loop theorems are met by a non-trivial state: for every codec there are a queue object, a
    dataset and a memory queue in the relation, with something in flight AND something queued, on which `Add` finds the
    queue full, and `Read [8, 9]` / `ReadInflight` / `Add (tag 4)` satisfy their side conditions -/
example (C : RedisQueue.Codec) (key : Bytes) :
    ∃ rq ds q, Sim C rq ds q ∧ q.done ≠ [] ∧ q.rest ≠ [] ∧ q.max ≤ q.items.length ∧
      ((exElem 4 1 none).pub = true ∧ (exElem 4 1 none).id = 0 ∧ (exElem 4 1 none).tag ∉ Queue.tags q.items) ∧
      ((∀ p ∈ [8, 9], p ≠ 0) ∧ [8, 9].Nodup ∧ ∀ p ∈ [8, 9], p ∉ nzIds q.items) ∧
      (q.add 6 (exElem 4 1 none)).2 = [.dropped (exElem 2 0 none) .full] :=
  ⟨_, _, _, (redis_refines_mem_from_new C key 3 0 exOps (by decide)).2, by decide, by decide, by decide, by decide,
    by decide, by decide⟩

/-- and over that history (and its continuation) the redis queue reports what the memory queue reports, whatever the codec -/
example (C : RedisQueue.Codec) (key : Bytes) :
    (rrun C { key := key, max := 3, ie := 0 } [] exOps2).2.2 =
      (Queue.run (Queue.new 3 0) exOps2).2.map (fun o => (o.evs, o.returned, o.status)) :=
  (redis_refines_mem_from_new C key 3 0 exOps2 (by decide)).1

/-- The original text of the statement (without `FreshOp`) does not hold for the dispatcher: adding the same ghost tag twice
    is allowed by `Queue.WFOp`, and afterwards two list entries are byte-identical — the relation (which records that they
    are not) cannot hold. (For a reused packet id the difference is observable: findings/c10-redis-refinement-pids.md.) -/
theorem statement_without_fresh_false (C : RedisQueue.Codec) : ¬ RedisRefinesMemStatementWFOnly C (rstep C) := by
  intro H
  have h0 := sim_new C [] 5 0
  have h1 := (H _ _ _ (.add 0 (exElem 1 1 none)) h0 (by decide)).2.2.2
  have h2 := (H _ _ _ (.add 0 (exElem 1 1 none)) h1 (by decide)).2.2.2
  exact absurd h2.tags (by decide)

end GmqttVerif.C10Redis
