import GmqttVerif.Proofs.RedisQueue
/-
  C10, redis backend — `persistence/queue/redis` refines `persistence/queue/mem`.

  The redis queue (Model/RedisQueue.lean: the list `queue:<id>` in redis + `len`, `current`, `readCache` in memory;
  every method = LRANGE, decode, decide, then RPUSH / LSET index / LREM 1 <bytes>) is compared with the SAME Lean model as
  the memory queue (Model/Queue.lean) by the stream `queue-redis` of `bin/check C10`: same op lines, same oracle.
  Here the refinement is stated in Lean, and proved for the operations that touch at most one entry (`Init`, `Close`,
  `Add` below capacity, `Remove`, `Replace`); for the loops — `Read`, `ReadInflight` and the drop ladder of `Add` on a full
  queue — it is established by that stream only (`_partial`).

  `Sim C rq ds q` (Proofs/RedisQueue.lean): the redis list holds exactly the encodings of `q.done ++ q.rest`, `len` and
  `current` are their lengths, `readCache` maps every packet id in front of the cursor to the bytes of its entry, the flags
  agree — plus the two hypotheses of the refinement as invariants: the ghost tags are pairwise distinct ("no two list
  entries are byte-identical": the codec is injective) and the packet ids in use are pairwise distinct.
-/
namespace GmqttVerif.C10Redis
open GmqttVerif.Codec (Bytes)
open GmqttVerif.Redis GmqttVerif.RedisQueue
open GmqttVerif.Queue (Elem Q)

/-- FULL STATEMENT (established by correspondence, not yet by proof): every operation of a well-formed history gives the
    same notifier calls, the same returned elements and the same status on both queues, and keeps the relation.
    `rstep` would be `RedisQueue.{add,read,readInflight,remove,replace,init,close}` dispatched on `Queue.Op`. -/
def RedisRefinesMemStatement (C : RedisQueue.Codec)
    (rstep : RQ → Dataset → Queue.Op → RQ × Dataset × List Queue.Ev × List Elem × String) : Prop :=
  ∀ (rq : RQ) (ds : Dataset) (q : Q) (op : Queue.Op), Sim C rq ds q → Queue.WFOp op →
    let r := rstep rq ds op
    let m := Queue.step q op
    r.2.2.1 = m.2.evs ∧ r.2.2.2.1 = m.2.returned ∧ r.2.2.2.2 = m.2.status ∧ Sim C r.1 r.2.1 m.1

/-- `Init` (with and without Clean Start) -/
theorem redis_refines_mem_init (C : RedisQueue.Codec) (rq : RQ) (ds : Dataset) (q : Q) (clean : Bool) (limit : Nat)
    (h : Sim C rq ds q) :
    (init rq ds clean limit : Res Elem).status = .ok ∧
      Sim C (init rq ds clean limit : Res Elem).q (applyAll ds (init rq ds clean limit : Res Elem).cmds) (q.init clean limit) :=
  sim_init C rq ds q clean limit h

/-- `Add` while the queue is not full: one RPUSH, `NotifyMsgQueueAdded(1)` -/
theorem redis_refines_mem_add (C : RedisQueue.Codec) (rq : RQ) (ds : Dataset) (q : Q) (now : Nat) (e : Elem)
    (h : Sim C rq ds q) (hfull : q.items.length < q.max) (hpub : e.pub = true) (hid : e.id = 0)
    (htag : e.tag ∉ Queue.tags q.items) :
    (add (ops C) rq ds now e).evs.map evOf = (q.add now e).2 ∧ (add (ops C) rq ds now e).status = .ok ∧
      Sim C (add (ops C) rq ds now e).q (applyAll ds (add (ops C) rq ds now e).cmds) (q.add now e).1 :=
  sim_add_notfull C rq ds q now e h hfull hpub hid htag

/-- `Remove(pid)`: LREM by the cached bytes removes exactly the entry the memory queue removes -/
theorem redis_refines_mem_remove (C : RedisQueue.Codec) (rq : RQ) (ds : Dataset) (q : Q) (pid : Nat)
    (h : Sim C rq ds q) (hpid : pid ≠ 0) :
    ((remove rq pid : Res Elem).evs.map evOf = (q.remove pid).2.1) ∧ (remove rq pid : Res Elem).status = .ok ∧
      Sim C (remove rq pid : Res Elem).q (applyAll ds (remove rq pid : Res Elem).cmds) (q.remove pid).1 :=
  sim_remove C rq ds q pid h hpid

/-- `Replace(elem)`: LSET at the index of the first entry in front of the cursor carrying the packet id; the ghost tag of the
    slot stays with it (`slotTag`), exactly as `Queue.replaceFirst` does -/
theorem redis_refines_mem_replace (C : RedisQueue.Codec) (rq : RQ) (ds : Dataset) (q : Q) (e : Elem) (h : Sim C rq ds q) :
    let slotTag := ((q.done.find? (fun x => x.id == e.id)).map (·.tag)).getD e.tag
    let e' : Elem := { e with tag := slotTag }
    ((replace (ops C) rq ds e').status = (if (q.replace e).2 then Status.replaced else Status.notfound)) ∧
      Sim C (replace (ops C) rq ds e').q (applyAll ds (replace (ops C) rq ds e').cmds) (q.replace e).1 :=
  sim_replace C rq ds q e h

/-- `Close` -/
theorem redis_refines_mem_close (C : RedisQueue.Codec) (rq : RQ) (ds : Dataset) (q : Q) (h : Sim C rq ds q) :
    Sim C (close (ε := Elem) rq).q (applyAll ds (close (ε := Elem) rq).cmds) q.close :=
  sim_close C rq ds q h

/-- the relation is not vacuous: a fresh queue object on an empty dataset simulates the fresh memory queue -/
theorem sim_new (C : RedisQueue.Codec) (key : Bytes) (max ie : Nat) :
    Sim C { key := key, max := max, ie := ie } [] (Queue.new max ie) := by
  refine ⟨by simp [NoDupKeys], by simp [listAt, Redis.get, Queue.new, Q.items], by simp [Queue.new, Q.items],
    by simp [Queue.new], by simp [cacheGet, Queue.new], rfl, rfl, rfl, rfl, rfl, by simp [Queue.new, Q.items, Queue.tags],
    by simp [Queue.new, Q.items, nzIds], Queue.inv_new max ie⟩

end GmqttVerif.C10Redis
