import GmqttVerif.Proofs.SubStoreIter
/-
  C11 — Shared subscriptions, store-level clauses: group membership and locality of leaving.
  (The wire-level clauses — exactly one member per message, QoS = min, no retained messages on a shared subscribe —
  are the broker-level harness's part.)

  Same model and vocabulary as `Properties/C02.lean`; the model mirrors `persistence/subscription/mem` after the
  proposed fixes F19 / F20 / `substore-shared-dollar-topic` (see `/verif/findings`). On the unchanged code these
  statements are FALSE; the stream `shared-churn` of `bin/check C11` exhibits the counterexamples.
-/
namespace GmqttVerif.SubStore
open GmqttVerif Topic

namespace Spec

/-- how one operation changes "client `k.client` is subscribed to (`k.share`, `k.filter`)" -/
def touch (k : Key) (b : Bool) : Op → Bool
  | .sub c s => if (⟨c, s.share, s.filter⟩ : Key) = k then true else b
  | .unsub c full => if (⟨c, (splitTopic full).1, (splitTopic full).2⟩ : Key) = k then false else b
  | .unsubAll c => if c = k.client then false else b

/-- "subscribed and has not left since", read off the history -/
def member (k : Key) (ops : List Op) : Bool := ops.foldl (touch k) false

theorem isSome_run (k : Key) (m : SubMap) (ops : List Op) :
    (AL.get k (run m ops).1).isSome = ops.foldl (touch k) (AL.get k m).isSome := by
  induction ops generalizing m with
  | nil => rfl
  | cons op ops ih =>
    simp only [run, List.foldl_cons]
    rw [ih]
    congr 1
    cases op with
    | sub c s =>
      simp only [step, touch, AL.get_set]
      by_cases h : k = ⟨c, s.share, s.filter⟩
      · subst h; simp
      · have : ¬ (⟨c, s.share, s.filter⟩ : Key) = k := fun e => h e.symm
        simp [h, this]
    | unsub c full =>
      simp only [step, touch, AL.get_del]
      by_cases h : k = ⟨c, (splitTopic full).1, (splitTopic full).2⟩
      · subst h; simp
      · have : ¬ (⟨c, (splitTopic full).1, (splitTopic full).2⟩ : Key) = k := fun e => h e.symm
        simp [h, this]
    | unsubAll c =>
      simp only [step, touch]
      rw [get_filter_key (fun k : Key => !decide (k.client = c))]
      by_cases h : k.client = c
      · simp [h]
      · have : ¬ c = k.client := fun e => h e.symm
        simp [h, this]

end Spec

/-- **Membership is exact.** After any history, the members of `$share/g/f` reported by the index
    (`Iterate{TypeShared, MatchName, "$share/g/f"}`) are — each once — exactly the clients whose last relevant action was a
    subscribe to (g, f): subscribed, and not left since by Unsubscribe or UnsubscribeAll. Latest options are returned. -/
theorem shared_members_exact (ops : List Op) (hv : ∀ op ∈ ops, ValidOp op) (g f : Str) (hg : g ≠ []) (hs : '/' ∉ g) :
    let res := (run new ops).1.iterate { type := 2, topic := fullName g f, matchType := 1 }
    res.Nodup ∧
    (∀ c s, (c, s) ∈ res ↔ stored (Spec.run [] ops).1 c s ∧ s.share = g ∧ s.filter = f) ∧
    (∀ c, (∃ s, (c, s) ∈ res) ↔ Spec.member ⟨c, g, f⟩ ops = true) := by
  have R : Rel (run new ops).1 (Spec.run [] ops).1 := (rel_new.run ops hv).1
  have hne : fullName g f ≠ [] := by simp [fullName, hg, sharePrefix]
  have hex := R.matchName_exact { type := 2, topic := fullName g f, matchType := 1 } hne rfl
  have hmem : ∀ c s, (c, s) ∈ (run new ops).1.iterate { type := 2, topic := fullName g f, matchType := 1 } ↔
      stored (Spec.run [] ops).1 c s ∧ s.share = g ∧ s.filter = f := by
    intro c s
    rw [hex.2]
    have hdrop : List.drop 7 (fullName g f) = g ++ '/' :: f := by simp [fullName, hg, sharePrefix]
    have hpre : hasPrefix (fullName g f) sharePrefix = true := by
      simp only [fullName, hg, ne_eq, not_false_eq_true, ite_true]; rw [List.append_assoc]; exact hasPrefix_append _ _
    constructor
    · rintro ⟨⟨h1, h2, _⟩, h3⟩
      have hw : whichOf s.share s.filter = .shared := by
        cases hw : whichOf s.share s.filter <;> simp [Opts.sel, hw, Opts.shared, Opts.sys, Opts.nonShared] at h3
        rfl
      have hsg := (whichOf_shared_iff _ _).mp hw
      unfold nameMatches at h2
      simp only [hsg, ne_eq, not_false_eq_true, ite_true, hdrop, cut_append hs] at h2
      obtain ⟨_, h2⟩ := h2
      injection h2 with e1 e2; injection e2 with e2
      exact ⟨h1, e1.symm, e2.symm⟩
    · rintro ⟨h1, h2, h3⟩
      have hw : whichOf s.share s.filter = .shared := (whichOf_shared_iff _ _).mpr (h2 ▸ hg)
      refine ⟨⟨h1, ?_, Or.inl rfl⟩, by rw [hw]; simp [Opts.sel, Opts.shared]⟩
      unfold nameMatches
      simp only [h2, hg, ne_eq, not_false_eq_true, ite_true, hdrop, cut_append hs, h3]
      exact ⟨hpre, trivial⟩
  refine ⟨hex.1, hmem, fun c => ?_⟩
  have hrun := Spec.isSome_run ⟨c, g, f⟩ [] ops
  simp only [AL.get_nil, Option.isSome_none] at hrun
  unfold Spec.member
  rw [← hrun]
  constructor
  · rintro ⟨s, hm⟩
    obtain ⟨h1, h2, h3⟩ := (hmem c s).mp hm
    unfold stored at h1; rw [h2, h3] at h1; simp [h1]
  · intro h
    obtain ⟨s, hs'⟩ := Option.isSome_iff_exists.mp h
    obtain ⟨_, h2, h3⟩ := R.validM _ _ hs'
    simp only at h2 h3
    exact ⟨s, (hmem c s).mpr ⟨by unfold stored; rw [h2, h3]; exact hs', h2, h3⟩⟩

/-- **Selection set is exact.** For every valid topic name, the candidates handed to the delivery code for shared
    subscriptions (`Iterate{TypeShared, MatchFilter, topic}`) are — each once — exactly the stored shared entries whose filter
    matches under MQTT 4.7 incl. [MQTT-4.7.2-1]; grouped by (share, filter) they are the member sets above. -/
theorem shared_match_exact (ops : List Op) (hv : ∀ op ∈ ops, ValidOp op) (topic : Str) (ht : validTopicName topic = true) :
    let res := (run new ops).1.iterate { type := 2, topic := topic, matchType := 2 }
    res.Nodup ∧
    ∀ c s, (c, s) ∈ res ↔ stored (Spec.run [] ops).1 c s ∧ s.share ≠ [] ∧ MatchesTopic s.filter topic = true := by
  have R : Rel (run new ops).1 (Spec.run [] ops).1 := (rel_new.run ops hv).1
  have hex := R.matchFilter_exact { type := 2, topic := topic, matchType := 2 } ht rfl
  refine ⟨hex.1, fun c s => ?_⟩
  rw [hex.2]
  constructor
  · rintro ⟨⟨h1, h2, _⟩, h3⟩
    have hw : whichOf s.share s.filter = .shared := by
      cases hw : whichOf s.share s.filter <;> simp [Opts.sel, hw, Opts.shared, Opts.sys, Opts.nonShared] at h3
      rfl
    exact ⟨h1, (whichOf_shared_iff _ _).mp hw, h2⟩
  · rintro ⟨h1, h2, h3⟩
    have hw : whichOf s.share s.filter = .shared := (whichOf_shared_iff _ _).mpr h2
    exact ⟨⟨h1, h3, Or.inl rfl⟩, by rw [hw]; simp [Opts.sel, Opts.shared]⟩

/-- what a leave operation is allowed to change -/
def leaves (c g f : Str) (c' : Str) (s : Sub) : Prop := c' = c ∧ s.share = g ∧ s.filter = f

/-- **Leaving is local (UNSUBSCRIBE).** In every reachable state, after `Unsubscribe(c, "$share/g/f")`:
    (1) every other (client, share, filter) — other members of the group, other groups, the leaver's other subscriptions,
        non-shared entries on the same filter — is looked up exactly as before;
    (2) the leaver's entry is gone;
    (3) for every topic and type mask the matching answer is the old answer minus exactly the leaver's entry — so the leaver
        can no longer be selected for (g, f), and everybody else still is. -/
theorem leave_is_local_unsubscribe (ops : List Op) (hv : ∀ op ∈ ops, ValidOp op) (c g f : Str) (hg : g ≠ []) (hs : '/' ∉ g) :
    let st := (run new ops).1
    let st' := st.unsubscribe c (fullName g f)
    (∀ c' g' f', ¬ (c' = c ∧ g' = g ∧ f' = f) → st'.lookup c' g' f' = st.lookup c' g' f') ∧
    st'.lookup c g f = none ∧
    ∀ (topic : Str), validTopicName topic = true → ∀ (ty : Nat) (c' : Str) (s : Sub),
      let o : Opts := { type := ty, topic := topic, matchType := 2 }
      ((c', s) ∈ st'.iterate o ↔ (c', s) ∈ st.iterate o ∧ ¬ leaves c g f c' s) := by
  have R : Rel (run new ops).1 (Spec.run [] ops).1 := (rel_new.run ops hv).1
  have R' := R.unsubscribe c (fullName g f)
  rw [splitTopic_fullName hg hs] at R'
  simp only at R'
  refine ⟨?_, ?_, ?_⟩
  · intro c' g' f' hne
    rw [R'.lookup, R.lookup, AL.get_del]
    have : (⟨c', g', f'⟩ : Key) ≠ ⟨c, g, f⟩ := by
      intro e; injection e with e1 e2 e3; exact hne ⟨e1, e2, e3⟩
    simp [this]
  · rw [R'.lookup, AL.get_del]; simp
  · intro topic ht ty c' s
    simp only
    rw [(R'.matchFilter_exact _ ht rfl).2, (R.matchFilter_exact _ ht rfl).2]
    unfold stored leaves
    rw [AL.get_del]
    by_cases hk : (⟨c', s.share, s.filter⟩ : Key) = ⟨c, g, f⟩
    · injection hk with e1 e2 e3
      simp [e1, e2, e3]
    · have : ¬ (c' = c ∧ s.share = g ∧ s.filter = f) := by
        rintro ⟨e1, e2, e3⟩; exact hk (by rw [e1, e2, e3])
      simp [hk, this]

/-- **Leaving is local (session end / clean take-over / expiry: `UnsubscribeAll`).** In every reachable state, after
    `UnsubscribeAll(c)`: every other client's entries (all groups, all filters, shared or not) are looked up exactly as before,
    none of `c`'s entries is left, and every matching answer is the old answer minus exactly `c`'s entries. -/
theorem leave_is_local_unsubscribeAll (ops : List Op) (hv : ∀ op ∈ ops, ValidOp op) (c : Str) :
    let st := (run new ops).1
    let st' := st.unsubscribeAll c
    (∀ c' g' f', c' ≠ c → st'.lookup c' g' f' = st.lookup c' g' f') ∧
    (∀ g' f', st'.lookup c g' f' = none) ∧
    ∀ (topic : Str), validTopicName topic = true → ∀ (ty : Nat) (c' : Str) (s : Sub),
      let o : Opts := { type := ty, topic := topic, matchType := 2 }
      ((c', s) ∈ st'.iterate o ↔ (c', s) ∈ st.iterate o ∧ c' ≠ c) := by
  have R : Rel (run new ops).1 (Spec.run [] ops).1 := (rel_new.run ops hv).1
  have R' := R.unsubscribeAll c
  have hget : ∀ k : Key, AL.get k ((Spec.run [] ops).1.filter (fun e => !decide (e.1.client = c))) =
      if k.client = c then none else AL.get k (Spec.run [] ops).1 := by
    intro k
    rw [get_filter_key (fun k : Key => !decide (k.client = c))]
    by_cases h : k.client = c <;> simp [h]
  refine ⟨?_, ?_, ?_⟩
  · intro c' g' f' hne
    rw [R'.lookup, R.lookup, hget]; simp [hne]
  · intro g' f'
    rw [R'.lookup, hget]; simp
  · intro topic ht ty c' s
    simp only
    rw [(R'.matchFilter_exact _ ht rfl).2, (R.matchFilter_exact _ ht rfl).2]
    unfold stored
    rw [hget]
    by_cases hc : c' = c
    · simp [hc]
    · simp [hc]

/-- the two leave theorems together, under the name used in DESIGN.md -/
theorem leave_is_local :
    (∀ (ops : List Op), (∀ op ∈ ops, ValidOp op) → ∀ (c g f : Str), g ≠ [] → '/' ∉ g →
      (∀ c' g' f', ¬ (c' = c ∧ g' = g ∧ f' = f) →
        ((run new ops).1.unsubscribe c (fullName g f)).lookup c' g' f' = (run new ops).1.lookup c' g' f') ∧
      ((run new ops).1.unsubscribe c (fullName g f)).lookup c g f = none) ∧
    (∀ (ops : List Op), (∀ op ∈ ops, ValidOp op) → ∀ (c : Str),
      (∀ c' g' f', c' ≠ c → ((run new ops).1.unsubscribeAll c).lookup c' g' f' = (run new ops).1.lookup c' g' f') ∧
      (∀ g' f', ((run new ops).1.unsubscribeAll c).lookup c g' f' = none)) :=
  ⟨fun ops hv c g f hg hs =>
      ⟨(leave_is_local_unsubscribe ops hv c g f hg hs).1, (leave_is_local_unsubscribe ops hv c g f hg hs).2.1⟩,
   fun ops hv c => ⟨(leave_is_local_unsubscribeAll ops hv c).1, (leave_is_local_unsubscribeAll ops hv c).2.1⟩⟩

/-! ### non-vacuity: one client in two groups on one filter, another member, the first leaves one group -/
example :
    let s (g f : String) : Sub := { share := g.toList, filter := f.toList, qos := 1, nl := false, rap := false, rh := 0, id := 0 }
    let ops := [Op.sub "A".toList (s "g1" "t"), .sub "A".toList (s "g2" "t"), .sub "B".toList (s "g1" "t"),
                .unsub "A".toList "$share/g1/t".toList]
    (∀ op ∈ ops, ValidOp op) ∧ Spec.member ⟨"B".toList, "g1".toList, "t".toList⟩ ops = true ∧
      Spec.member ⟨"A".toList, "g1".toList, "t".toList⟩ ops = false ∧
      ((run new ops).1.iterate { type := 2, topic := "t".toList, matchType := 2 }).length = 2 := by
  refine ⟨?_, by decide, by decide, by decide⟩
  intro op hop
  simp only [List.mem_cons, List.not_mem_nil, or_false] at hop
  rcases hop with h | h | h | h <;> subst h <;> simp [ValidOp] <;> decide

end GmqttVerif.SubStore
