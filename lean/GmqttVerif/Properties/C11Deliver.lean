import GmqttVerif.Model.Deliver
import GmqttVerif.Model.Broker
import GmqttVerif.Proofs.DeliverShared
/-
  C11 — Shared subscriptions, delivery clauses, over the pure model `Deliver.deliver` of `deliverMessage`
  (server/server.go `newDeliverHandler` + `flush`): exactly one member per group and message, at QoS
  min(published, that member's granted QoS); shared and non-shared deliveries do not influence each other; a member
  that has left is no longer selected and the other groups are not disturbed.
  (The store-level clauses — who the members are, locality of leaving in the subscription store — are `Properties/C11.lean`.)

  Property theorems only; vocabulary and helper lemmas live in `Proofs/DeliverShared.lean`:
  * `Pick`              : the choice function `deliver` is parametrised by (stands for `rand.Intn`);
  * `GoodPick pick`     : it chooses among the members it is given, and chooses someone whenever the list is non-empty;
  * `eligible src t tb` : the table entries the iteration does not skip (filter matches `t`, not (No Local ∧ own message));
  * `sharedGroups el`   : the distinct full names `$share/g/f` visited, in visit order;
  * `members el g`      : the visited shared entries with full name `g`, in visit order — what `pick g` is given;
  * `chosen pick el g`  : the member `pick` selects for `g`;  `enqFor m cs = (cs.1, downgrade m cs.2 [cs.2.id])`;
  * `isShared cs`       : the entry's share name is non-empty.
  Enqueue requests `(clientID, message)` carry no group name, so "one enqueue per group" is stated through the shape of
  the result: `shared m el pick` IS the list of groups mapped to the enqueue of the selected member.
-/
namespace GmqttVerif.Deliver

/-- 1. `shared_one_per_group`. For every subscription table, source, message and good choice function, with
    `el` the eligible entries:
    * the visited groups are pairwise distinct, and a full name is visited exactly when the table has an eligible shared
      entry with that full name (so a group without eligible member gets nothing);
    * the shared enqueues are, in order, ONE per visited group: the enqueue of the member `pick` selected for it —
      in particular there are exactly as many as visited groups;
    * that member is what `pick` returned for the group's member list, is an eligible entry of the table with that full
      name, and its copy is `downgrade m s [s.id]` for ITS subscription `s`: QoS = min(published, its granted QoS),
      its subscription identifier, RETAIN only under its Retain-As-Published, DUP cleared. -/
theorem shared_one_per_group (src : String) (table : List (String × Sub)) (m : Msg) (pick : Pick) (hp : GoodPick pick) :
    let el := eligible src m.topic table
    (sharedGroups el).Nodup ∧
    (∀ g, g ∈ sharedGroups el ↔
      ∃ cs ∈ table, cs.2.share ≠ "" ∧ cs.2.fullName = g ∧ subMatches cs.2 m.topic = true ∧ ¬ (cs.2.nl = true ∧ cs.1 = src)) ∧
    shared m el pick = (sharedGroups el).map (fun g => enqFor m (chosen pick el g)) ∧
    (shared m el pick).length = (sharedGroups el).length ∧
    ∀ g ∈ sharedGroups el,
      pick g (members el g) = some (chosen pick el g) ∧
      chosen pick el g ∈ table ∧ (chosen pick el g).2.share ≠ "" ∧ (chosen pick el g).2.fullName = g ∧
      subMatches (chosen pick el g).2 m.topic = true ∧ ¬ ((chosen pick el g).2.nl = true ∧ (chosen pick el g).1 = src) ∧
      enqFor m (chosen pick el g) =
        ((chosen pick el g).1,
         { m with qos := min m.qos (chosen pick el g).2.qos,
                  sids := m.sids ++ [(chosen pick el g).2.id].filter (· ≠ 0),
                  dup := false,
                  retained := (chosen pick el g).2.rap && m.retained }) := by
  intro el
  refine ⟨sharedGroups_nodup el, fun g => ?_, shared_map hp m el, by rw [shared_map hp m el, List.length_map], ?_⟩
  · rw [mem_sharedGroups]
    constructor
    · rintro ⟨cs, h1, h2, h3⟩
      obtain ⟨ht, hm, hn⟩ := mem_eligible.1 h1
      exact ⟨cs, ht, h2, h3, hm, hn⟩
    · rintro ⟨cs, ht, h2, h3, hm, hn⟩
      exact ⟨cs, mem_eligible.2 ⟨ht, hm, hn⟩, h2, h3⟩
  · intro g hg
    obtain ⟨h1, h2⟩ := chosen_spec hp hg
    obtain ⟨hel, hs, hf⟩ := mem_members.1 h2
    obtain ⟨ht, hm, hn⟩ := mem_eligible.1 hel
    exact ⟨h1, ht, hs, hf, hm, hn, rfl⟩

/-- 1'. a group none of whose members is eligible (filter does not match, or No Local on the publisher's own entry) is not
    visited: no enqueue stems from it, whatever the choice function does. -/
theorem shared_none_without_member (src : String) (table : List (String × Sub)) (m : Msg) (g : String)
    (h : ∀ cs ∈ table, cs.2.share ≠ "" → cs.2.fullName = g →
      ¬ (subMatches cs.2 m.topic = true ∧ ¬ (cs.2.nl = true ∧ cs.1 = src))) :
    g ∉ sharedGroups (eligible src m.topic table) ∧ members (eligible src m.topic table) g = [] := by
  have hm : members (eligible src m.topic table) g = [] := by
    rw [List.eq_nil_iff_forall_not_mem]
    intro cs hcs
    obtain ⟨hel, hs, hf⟩ := mem_members.1 hcs
    obtain ⟨ht, hmm, hn⟩ := mem_eligible.1 hel
    exact h cs ht hs hf ⟨hmm, hn⟩
  exact ⟨fun hg => mem_sharedGroups_iff_members.1 hg hm, hm⟩

/-- 2. `shared_independent_of_nonshared`. `deliver` is the shared part, computed from the shared entries of the table
    only, combined with the non-shared part, computed from the non-shared entries only, in the order the mode
    prescribes (onlyonce: shared first; overlap: non-shared first). -/
theorem shared_independent_of_nonshared (mode : Bool) (src : String) (table : List (String × Sub)) (m : Msg) (pick : Pick) :
    (deliver mode src table m pick).2 =
      if mode then
        shared m (eligible src m.topic (table.filter isShared)) pick ++
          onlyonce m (eligible src m.topic (table.filter (fun cs => !isShared cs)))
      else
        overlap m (eligible src m.topic (table.filter (fun cs => !isShared cs))) ++
          shared m (eligible src m.topic (table.filter isShared)) pick := by
  simp only [deliver, eligible_filter, shared_filter_isShared, overlap_filter_nonShared, onlyonce_filter_nonShared]

/-- 2'. hence: two tables with the same shared entries produce the same shared enqueues (adding, removing or changing
    non-shared subscriptions changes nothing for the groups), and two tables with the same non-shared entries produce
    the same non-shared enqueues (group membership changes nothing for ordinary subscribers). -/
theorem shared_independent_of_nonshared' (src topic : String) (t₁ t₂ : List (String × Sub)) (m : Msg) (pick : Pick) :
    (t₁.filter isShared = t₂.filter isShared →
      shared m (eligible src topic t₁) pick = shared m (eligible src topic t₂) pick) ∧
    (t₁.filter (fun cs => !isShared cs) = t₂.filter (fun cs => !isShared cs) →
      overlap m (eligible src topic t₁) = overlap m (eligible src topic t₂) ∧
      onlyonce m (eligible src topic t₁) = onlyonce m (eligible src topic t₂)) := by
  refine ⟨fun h => ?_, fun h => ⟨?_, ?_⟩⟩
  · rw [← shared_filter_isShared m (eligible src topic t₁), ← shared_filter_isShared m (eligible src topic t₂),
      ← eligible_filter, ← eligible_filter, h]
  · rw [← overlap_filter_nonShared m (eligible src topic t₁), ← overlap_filter_nonShared m (eligible src topic t₂),
      ← eligible_filter, ← eligible_filter, h]
  · rw [← onlyonce_filter_nonShared m (eligible src topic t₁), ← onlyonce_filter_nonShared m (eligible src topic t₂),
      ← eligible_filter, ← eligible_filter, h]

/-- 3. `leave_stops_selection`. Let `keep` say which table entries survive (UNSUBSCRIBE / session end remove entries),
    `el` / `el'` the eligible entries before / after. Then for every full name `g`:
    * the member list handed to `pick` afterwards is the old one minus the removed entries, in the same order;
    * if client `c` has no eligible shared entry for `g` left, a good choice function cannot select `c` for `g`:
      no enqueue for group `g` goes to `c`;
    * if no removed entry belongs to `g`, the member list is unchanged — the same `pick` result gives the same enqueue;
    * `g` is still visited exactly when it was visited before and still has a member.
    (The ORDER in which the remaining groups are visited may change: it is the order of first eligible members.) -/
theorem leave_stops_selection (src topic : String) (table : List (String × Sub)) (keep : String × Sub → Bool)
    (pick : Pick) (hp : GoodPick pick) (g : String) :
    let el := eligible src topic table
    let el' := eligible src topic (table.filter keep)
    members el' g = (members el g).filter keep ∧
    (∀ c, (∀ cs ∈ members el' g, cs.1 ≠ c) → ∀ x, pick g (members el' g) = some x → x.1 ≠ c) ∧
    ((∀ cs ∈ table, keep cs = false → ¬ (cs.2.share ≠ "" ∧ cs.2.fullName = g)) →
      members el' g = members el g ∧ pick g (members el' g) = pick g (members el g)) ∧
    (g ∈ sharedGroups el' ↔ g ∈ sharedGroups el ∧ members el' g ≠ []) := by
  intro el el'
  have h1 : members el' g = (members el g).filter keep := by
    show members (eligible src topic (table.filter keep)) g = _
    rw [eligible_filter, members_filter]
  refine ⟨h1, fun c hc x hx => hc x (hp.mem g _ x hx), fun hk => ?_, ?_⟩
  · have : members el' g = members el g := by
      rw [h1, List.filter_eq_self]
      intro cs hcs
      obtain ⟨hel, hs, hf⟩ := mem_members.1 hcs
      cases hkc : keep cs with
      | true => rfl
      | false => exact absurd ⟨hs, hf⟩ (hk cs (mem_eligible.1 hel).1 hkc)
    exact ⟨this, by rw [this]⟩
  · show g ∈ sharedGroups (eligible src topic (table.filter keep)) ↔ _
    rw [eligible_filter]
    have := mem_sharedGroups_filter (el := eligible src topic table) (p := keep) (g := g)
    rw [← eligible_filter] at this
    rw [← eligible_filter]
    exact this

end GmqttVerif.Deliver

namespace GmqttVerif.Broker
open GmqttVerif.Deliver

/-- 3a. `leave_stops_selection` for the end of a session (`B.terminate`: clean take-over, expiry, TerminateSession):
    only the entries of that client are removed from the table `deliverMsg` iterates over (whatever the iteration
    order hint), so afterwards it is a member of no group — `pickBy` (or any good choice function) never selects it —
    and every group's member list is the old one minus that client's entries, unchanged for groups it was not in. -/
theorem leave_terminate (b : B) (c : String) (rapHint : List String) (src topic : String) (g : String) :
    let table := orderTable rapHint b.subs
    let table' := orderTable rapHint (b.terminate c).subs
    table' = table.filter (fun cs => cs.1 != c) ∧
    (∀ cs ∈ members (eligible src topic table') g, cs.1 ≠ c) ∧
    members (eligible src topic table') g = (members (eligible src topic table) g).filter (fun cs => cs.1 != c) ∧
    ((∀ cs ∈ members (eligible src topic table) g, cs.1 ≠ c) →
      members (eligible src topic table') g = members (eligible src topic table) g) := by
  intro table table'
  have ht : table' = table.filter (fun cs => cs.1 != c) := orderTable_filter rapHint b.subs _
  have hm : members (eligible src topic table') g = (members (eligible src topic table) g).filter (fun cs => cs.1 != c) := by
    rw [ht, eligible_filter, members_filter]
  refine ⟨ht, ?_, hm, fun h => ?_⟩
  · intro cs hcs
    rw [hm] at hcs
    simpa using (List.mem_filter.1 hcs).2
  · rw [hm, List.filter_eq_self]
    intro cs hcs
    simpa using h cs hcs

/-- 3b. `leave_stops_selection` for UNSUBSCRIBE: exactly the entries of the unsubscribing client for the named
    (share, filter) pairs are removed (`unsubKeep`); for every full name the member list afterwards is the old one minus
    those entries; the groups of other names, and the other members of the named groups, are untouched. -/
theorem leave_unsubscribe (b : B) (conn : String) (pid : Nat) (topics : List String) (c : Cli)
    (hc : b.cli? conn = some c) (rapHint : List String) (src topic : String) (g : String) :
    let table := orderTable rapHint b.subs
    let table' := orderTable rapHint (b.unsubscribe conn pid topics).subs
    (b.unsubscribe conn pid topics).subs = b.subs.filter (unsubKeep c.cid topics) ∧
    table' = table.filter (unsubKeep c.cid topics) ∧
    members (eligible src topic table') g = (members (eligible src topic table) g).filter (unsubKeep c.cid topics) ∧
    (∀ cs, cs.1 ≠ c.cid → unsubKeep c.cid topics cs = true) ∧
    (∀ cs, (∀ name ∈ topics, splitShare name ≠ (cs.2.share, cs.2.filter)) → unsubKeep c.cid topics cs = true) ∧
    (∀ cs name, cs.1 = c.cid → name ∈ topics → splitShare name = (cs.2.share, cs.2.filter) → unsubKeep c.cid topics cs = false) := by
  intro table table'
  have hs : (b.unsubscribe conn pid topics).subs = b.subs.filter (unsubKeep c.cid topics) := by
    unfold B.unsubscribe
    simp only [hc]
    exact unsub_fold_subs c.cid topics b
  have ht : table' = table.filter (unsubKeep c.cid topics) := by
    show orderTable rapHint (b.unsubscribe conn pid topics).subs = _
    rw [hs, orderTable_filter]
  refine ⟨hs, ht, by rw [ht, eligible_filter, members_filter], ?_, ?_, ?_⟩
  · intro cs hne
    have : (cs.1 == c.cid) = false := by simpa using hne
    simp [unsubKeep, this]
  · intro cs hall
    simp only [unsubKeep, Bool.not_eq_true', Bool.and_eq_false_iff, List.any_eq_false]
    right
    intro name hname
    have := hall name hname
    rw [Bool.and_eq_true]
    rintro ⟨h1, h2⟩
    apply this
    rw [Prod.ext_iff]
    exact ⟨(by simpa using h1 : cs.2.share = (splitShare name).1).symm, (by simpa using h2 : cs.2.filter = (splitShare name).2).symm⟩
  · intro cs name hcid hname hsplit
    simp only [unsubKeep, Bool.not_eq_false', Bool.and_eq_true, beq_iff_eq, List.any_eq_true]
    exact ⟨hcid, name, hname, by rw [hsplit], by rw [hsplit]⟩

end GmqttVerif.Broker

/-! ## non-vacuity -/
namespace GmqttVerif.Deliver

/-- two groups on overlapping filters, one of them with two members, one member with No Local, plus ordinary subscribers -/
def exShared : List (String × Sub) :=
  [("c1", { share := "g1", filter := "a/+", qos := 1, id := 3 }),
   ("c2", { share := "g1", filter := "a/+", qos := 2, id := 4 }),
   ("c3", { filter := "a/#", qos := 0 }),
   ("c2", { share := "g2", filter := "a/b", qos := 0, nl := true }),
   ("c1", { share := "g3", filter := "x", qos := 2 })]

def exSharedMsg : Msg := { topic := "a/b", tag := "m", plen := 1, qos := 2 }

/-- always the first member / always the last member: both are good choice functions -/
def pickFirst : Pick := fun _ ms => ms.head?
def pickLast : Pick := fun _ ms => ms.getLast?

theorem goodPick_first : GoodPick pickFirst :=
  ⟨fun _ ms x h => List.mem_of_mem_head? h, fun _ ms h => by
    cases ms with
    | nil => exact absurd rfl h
    | cons a as => exact ⟨a, rfl⟩⟩

theorem goodPick_last : GoodPick pickLast :=
  ⟨fun _ ms x h => List.mem_of_getLast? h, fun _ ms h => by
    cases hl : ms.getLast? with
    | none => exact absurd (List.getLast?_eq_none_iff.1 hl) h
    | some x => exact ⟨x, hl⟩⟩

/-- `pickBy hints` (the model's stand-in for the random choice) is a good choice function -/
theorem goodPick_pickBy (hints : List Nat) : GoodPick (Broker.pickBy hints) := by
  refine ⟨fun g ms x h => ?_, fun g ms h => ?_⟩
  · unfold Broker.pickBy at h
    split at h
    · next y hy => cases h; exact List.mem_of_find?_eq_some hy
    · exact List.mem_of_mem_head? h
  · unfold Broker.pickBy
    split
    · exact ⟨_, rfl⟩
    · cases ms with
      | nil => exact absurd rfl h
      | cons a as => exact ⟨a, rfl⟩

/-- the publisher `c2` has No Local on its `g2` entry: groups `g1` (two eligible members) and nothing else are visited;
    exactly one enqueue, to the selected member, at min(2, granted) -/
example : sharedGroups (eligible "c2" "a/b" exShared) = ["$share/g1/a/+"] := by decide
example : (members (eligible "c2" "a/b" exShared) "$share/g1/a/+").map (·.1) = ["c1", "c2"] := by decide
example : (shared exSharedMsg (eligible "c2" "a/b" exShared) pickFirst).map (fun x => (x.1, x.2.qos, x.2.sids)) = [("c1", 1, [3])] := by
  decide
example : (shared exSharedMsg (eligible "c2" "a/b" exShared) pickLast).map (fun x => (x.1, x.2.qos, x.2.sids)) = [("c2", 2, [4])] := by
  decide
/-- another publisher: both matching groups are served, one enqueue each; `g3` (filter does not match) gets nothing -/
example : (shared exSharedMsg (eligible "p" "a/b" exShared) pickLast).map (fun x => (x.1, x.2.qos)) = [("c2", 2), ("c2", 0)] := by
  decide
/-- after `c2` has left `g1` the last member of `g1` is `c1`; `g2` is unchanged -/
example : (shared exSharedMsg (eligible "p" "a/b" (exShared.filter (fun cs => !(cs.1 == "c2" && cs.2.share == "g1")))) pickLast).map
    (fun x => (x.1, x.2.qos)) = [("c1", 1), ("c2", 0)] := by decide
/-- the whole of `deliver`, both modes: the ordinary subscriber `c3` gets its copy next to the group deliveries -/
example : ((deliver false "p" exShared exSharedMsg pickFirst).2).map (fun x => (x.1, x.2.qos)) = [("c3", 0), ("c1", 1), ("c2", 0)] := by
  decide
example : ((deliver true "p" exShared exSharedMsg pickFirst).2).map (fun x => (x.1, x.2.qos)) = [("c1", 1), ("c2", 0), ("c3", 0)] := by
  decide

end GmqttVerif.Deliver
