import GmqttVerif.Model.Broker
import GmqttVerif.Proofs.BrokerPump
/-
  C12 — Message expiry: the lifetime of a stored message is the publisher's interval capped by the configured
  maximum; an expired message is never handed out; the interval forwarded to a v5 subscriber is the received one
  minus the whole seconds the message waited, at least 1, never absent.

  Stated over the wire-level broker model (`Model/Broker.lean`, tied to the code by the stream `broker-expiry`).
  Vocabulary (`lifetime`, `B.enqElem`, `B.enqRefuse`, `PumpTrace`, `PumpRound`, `Round`, `Pkt.expiry`, `Pkt.core`) and helper
  lemmas: `Proofs/BrokerEnqueue.lean`, `Proofs/BrokerPump.lean`.
-/
namespace GmqttVerif.Broker
open GmqttVerif.Deliver

/-- 1. `lifetime_capped`. Whenever `enqueue` accepts a copy `m` for the stored session `s` of client `cid`, the
    element it hands to the session queue's `Add` carries the fresh ghost tag and the expiry stamp
    now + 1000·L ms, L = `lifetime m.expiry cfg.msgExpiry` — no stamp (never expires) when L is unlimited. -/
theorem lifetime_capped (b : B) (cid : String) (origQos : Nat) (m : Msg) (s : Sess)
    (hs : b.sess? cid = some s) (hacc : b.enqRefuse cid origQos = false) :
    ∃ e : Queue.Elem,
      b.enqueue cid origQos m =
        { (b.setSess { s with queue := (s.queue.add b.now e).1 }) with msgs := b.msgs ++ [m], ats := b.ats ++ [b.now] } ∧
      e.tag = b.msgs.length ∧ e.pub = true ∧ e.id = 0 ∧ e.qos = m.qos ∧
      e.exp = (lifetime m.expiry b.cfg.msgExpiry).map (fun L => b.now + 1000 * L) := by
  refine ⟨b.enqElem cid s m, ?_, rfl, rfl, rfl, rfl, ?_⟩
  · rw [enqueue_some b cid origQos m s hs, hacc]; rfl
  · show b.enqExp m = _
    unfold B.enqExp lifetime
    by_cases h1 : b.cfg.msgExpiry = 0 <;> by_cases h2 : m.expiry = 0
    · simp [h1, h2]
    · simp [h1, h2, Nat.mul_comm]
    · simp [h1, h2, Nat.mul_comm]
    · by_cases h3 : m.expiry ≤ b.cfg.msgExpiry
      · simp [h1, h2, h3, Nat.min_eq_left h3, Nat.mul_comm]
      · have h3' : b.cfg.msgExpiry ≤ m.expiry := by omega
        simp [h1, h2, h3, Nat.min_eq_right h3', Nat.mul_comm]

/-- 1'. …and unless the queue is full the stamped element is what the queue then holds at its end. -/
theorem lifetime_capped_queued (b : B) (cid : String) (origQos : Nat) (m : Msg) (s : Sess)
    (hs : b.sess? cid = some s) (hacc : b.enqRefuse cid origQos = false)
    (hroom : s.queue.items.length < s.queue.max) :
    ∃ s' e, (b.enqueue cid origQos m).sess? cid = some s' ∧ s'.queue.items = s.queue.items ++ [e] ∧
      e.exp = (lifetime m.expiry b.cfg.msgExpiry).map (fun L => b.now + 1000 * L) := by
  obtain ⟨e, heq, _, _, _, _, hexp⟩ := lifetime_capped b cid origQos m s hs hacc
  refine ⟨{ s with queue := (s.queue.add b.now e).1 }, e, ?_, ?_, hexp⟩
  · rw [heq]
    show (b.setSess _).sess? cid = _
    rw [sess?_setSess, if_pos (sess?_some hs).2]
  · rw [Queue.add_of_not_full s.queue b.now e hroom]
    simp [Queue.Q.items]

/-- 1''. …and the time of the enqueue is logged under the element's tag (given one time stamp per logged message, which
    holds in every reachable state: C03Broker `reachable_msgs_inv`): it is the `at_` from which `pubPkt` later
    measures how long the message waited. -/
theorem enqueue_time_logged (b : B) (cid : String) (origQos : Nat) (m : Msg) (s : Sess)
    (hs : b.sess? cid = some s) (hacc : b.enqRefuse cid origQos = false) (hlen : b.ats.length = b.msgs.length) (d : Nat) :
    (b.enqueue cid origQos m).ats.getD b.msgs.length d = b.now ∧
    (b.enqueue cid origQos m).msgOf b.msgs.length = m := by
  rw [enqueue_some b cid origQos m s hs, hacc]
  simp only [Bool.false_eq_true, if_false, B.msgOf]
  constructor
  · rw [← hlen]; simp
  · simp

/-- every copy `deliverMessage` enqueues carries the Message Expiry Interval of the published message -/
theorem deliver_copies_expiry (mode : Bool) (src : String) (table : List (String × Sub)) (m : Msg)
    (pick : String → List (String × Sub) → Option (String × Sub)) :
    ∀ cm ∈ (deliver mode src table m pick).2, cm.2.expiry = m.expiry := by
  have hov : ∀ cm ∈ overlap m (eligible src m.topic table), cm.2.expiry = m.expiry := by
    intro cm h
    simp only [overlap, List.mem_map] at h
    obtain ⟨cs, _, rfl⟩ := h; rfl
  have hon : ∀ cm ∈ onlyonce m (eligible src m.topic table), cm.2.expiry = m.expiry := by
    intro cm h
    simp only [onlyonce, List.mem_map] at h
    obtain ⟨cs, _, rfl⟩ := h; rfl
  have hsh : ∀ cm ∈ shared m (eligible src m.topic table) pick, cm.2.expiry = m.expiry := by
    intro cm h
    simp only [shared, List.mem_filterMap] at h
    obtain ⟨g, _, hg⟩ := h
    split at hg
    · simp only [Option.some.injEq] at hg; rw [← hg]; rfl
    · cases hg
  intro cm h
  simp only [deliver] at h
  split at h
  · rcases List.mem_append.1 h with h | h
    · exact hsh cm h
    · exact hon cm h
  · rcases List.mem_append.1 h with h | h
    · exact hov cm h
    · exact hsh cm h

/-- 2. `never_delivered_after_deadline`. In every round of every run of the poll loop, each element `Read` hands out
    stems from a queued element (same ghost tag) whose expiry stamp, if it has one, has not passed: now ≤ stamp.
    (`now` is the broker clock, which does not move during the run; built on C10 `read_never_expired_or_oversize`.) -/
theorem never_delivered_after_deadline (conn : String) (b b' : B) (rs : List Round) (h : PumpTrace conn b rs b') :
    ∀ r ∈ rs, ∀ e ∈ r.out, ∃ v ∈ r.s.queue.rest, v.tag = e.tag ∧ ∀ t, v.exp = some t → b.now ≤ t := by
  intro r hr e he
  obtain ⟨evs, hread⟩ := (h.rounds r hr).read
  obtain ⟨v, hv, htag, _, hexp, _⟩ := Queue.read_ok_sound _ _ _ _ _ _ hread e he
  refine ⟨v, hv, htag, fun t ht => ?_⟩
  rw [← h.now.1 r hr]
  simp only [Queue.expired, ht, decide_eq_false_iff_not, Nat.not_lt] at hexp
  exact hexp

/-- 2'. every run of `pump` is such a sequence of rounds -/
theorem pump_is_rounds (b : B) (conn : String) (fuel : Nat) : ∃ rs, PumpTrace conn b rs (b.pump conn fuel) :=
  pump_trace fuel b conn

/-- 3a. `forwarded_interval`, arithmetic: for a received interval `orig` > 0 and a waiting time of `w` ms the
    forwarded interval is between 1 and `orig`; it is `orig` minus the whole seconds waited while that is positive,
    and 1 from then on. -/
theorem forwarded_interval (orig w : Nat) (h : 0 < orig) :
    1 ≤ remaining orig w ∧ remaining orig w ≤ orig ∧
    (w / 1000 < orig → remaining orig w = orig - w / 1000) ∧ (orig ≤ w / 1000 → remaining orig w = 1) := by
  unfold remaining
  by_cases hd : w / 1000 < orig
  · rw [if_pos hd]
    exact ⟨by omega, by omega, fun _ => rfl, fun h' => by omega⟩
  · rw [if_neg hd]
    exact ⟨Nat.le_refl 1, h, fun h' => absurd h' hd, fun _ => rfl⟩

/-- 3b. `forwarded_interval`, packet: the PUBLISH built for a v5 subscriber carries the Message Expiry Interval
    property whenever the stored interval is non-zero — never absent — with the value `remaining` of the stored
    interval and the time since the element was queued; a v3 subscriber's packet has no such property, and a message
    without expiry gets none. -/
theorem forwarded_interval_pkt (b : B) (c : Cli) (e : Queue.Elem) (at_ : Nat) :
    (b.pubPkt c e at_).expiry =
      if c.v = 5 ∧ (b.msgOf e.tag).expiry ≠ 0 then some (remaining (b.msgOf e.tag).expiry (b.now - at_)) else none := by
  unfold B.pubPkt
  by_cases hv : c.v = 5 <;> by_cases hm : (b.msgOf e.tag).expiry = 0 <;> simp [Pkt.expiry, hv, hm]

/-- 3c. `forwarded_interval`, wire: in a round of the poll loop the packets written are, one per element handed out and
    in order, `pubPkt` of the element up to topic-alias compression, which leaves the expiry property alone — so for a
    v5 subscriber every forwarded message with a non-zero stored interval `orig` carries an interval in [1, orig]. -/
theorem forwarded_interval_wire (b : B) (conn : String) (c : Cli) (s : Sess) (q' : Queue.Q) (out : List Queue.Elem)
    (hv : c.v = 5) :
    ∃ ps, (b.pumpRound conn c s q' out).out = b.out ++ pOuts conn ps ∧ ps.length = out.length ∧
      ∀ i (hi : i < ps.length) (ho : i < out.length), (b.msgOf out[i].tag).expiry ≠ 0 →
        ∃ d, ps[i].expiry = some d ∧ 1 ≤ d ∧ d ≤ (b.msgOf out[i].tag).expiry := by
  obtain ⟨ps, ho, hcore⟩ := pumpRound_out b conn c s q' out
  have hlen : ps.length = out.length := by simpa using congrArg List.length hcore
  refine ⟨ps, ho, hlen, fun i hi hoi hne => ?_⟩
  have hi' : i < (ps.map Pkt.core).length := by simpa using hi
  have : (ps.map Pkt.core)[i] = (out.map (fun e => (b.pubPkt c e (b.ats.getD e.tag b.now)).core))[i]'(by simpa using hoi) := by
    simp only [hcore]
  simp only [List.getElem_map] at this
  have hexp := Pkt.expiry_of_core this
  rw [forwarded_interval_pkt, if_pos ⟨hv, hne⟩] at hexp
  have hb := forwarded_interval (b.msgOf out[i].tag).expiry (b.now - b.ats.getD out[i].tag b.now) (Nat.pos_of_ne_zero hne)
  exact ⟨_, hexp, hb.1, hb.2.1⟩

/-! ## non-vacuity -/

/-- a v5 subscriber "s" (window 10), a v5 publisher "p"; "p" publishes QoS 1 with Message Expiry Interval 5 s on a
    broker whose maximum is 7200 s; nothing has been pumped yet -/
def exExp : B :=
  let b : B := {}
  let b := b.connect { conn := "s", cid := "sub", v := 5, rm := some 10 }
  let b := b.subscribe "s" 1 [{ name := "t", qos := 1 }] 0
  let b := b.connect { conn := "p", cid := "pub", v := 5 }
  b.publish { conn := "p", topic := "t", qos := 1, pid := 1, expiry := some 5, tag := "m", plen := 1 }

example : lifetime 5 7200 = some 5 ∧ lifetime 9000 7200 = some 7200 ∧ lifetime 0 7200 = some 7200 ∧
    lifetime 5 0 = some 5 ∧ lifetime 0 0 = none := by decide

/-- the queued copy carries the stamp now + 5000 ms -/
example : (exExp.sess? "sub").map (fun s => s.queue.items.map (·.exp)) = some [some (exExp.now + 5000)] := by decide

/-- pumped 2.5 s later the subscriber gets interval 3; after the deadline nothing is handed out -/
example : ((((exExp.sleep 2500).pump "s" 5).out.drop exExp.out.length).map (fun o => o.pkt.expiry)) = [some 3] := by decide
example : (((exExp.sleep 5001).pump "s" 5).out.drop exExp.out.length) = [] := by decide
example : remaining 5 2500 = 3 ∧ remaining 5 7000 = 1 := by decide

end GmqttVerif.Broker
