import GmqttVerif.Model.AliasFifo
import GmqttVerif.Model.AliasInbound
import GmqttVerif.Proofs.Alias
/-
  C13 (topic alias part) — aliases negotiated at CONNECT hold in both directions.

  Property theorems only; helper lemmas and the specification vocabulary live in `Proofs/Alias.lean`.
  Models: `Model/AliasFifo.lean` (topicalias/fifo `Check` + the PUBLISH rewriting of `writeLoop`, the code as it is) and
  `Model/AliasInbound.lean` (alias handling of `connectWithTimeOut`, `Properties.Unpack`, `publishHandler`, with
  `fixed = false` the code as it is and `fixed = true` the code with the F02 patch).
  Ties: stream `aliasfifo` (fifo.New/Check through the public API + the writeLoop rewriting) and stream `aliasin`
  (a real broker, a v5 client publishing with aliases, observed on the wire) of `bin/check C13`.
  The size / quota parts of C13 (`outbound_size`, `inbound_quota`, `inbound_size`, `negotiate_ok`) are not in this file.

  vocabulary (Proofs/Alias.lean)
  * `Pkt`            : (topic name or `none` = zero length, Topic Alias property or `none`) of a PUBLISH on the wire
  * `emitAll max q topics` : the packets `writeLoop` produces for messages with these topics, for a v5 client that
                       declared Topic Alias Maximum `max`; `none` = the write loop panicked
  * `recv`/`recvAll` : a receiver with an alias → topic table following MQTT 5.0 §3.3.2.3.4; `none` = protocol error
  * `runIn fixed st pubs` / `specIn max hist pubs` : outcome of each inbound PUBLISH (alias property, topic name) by the
                       model / by the specification written as a function of the connection's history
-/
namespace GmqttVerif.Alias

variable {τ : Type} [DecidableEq τ]

/-- 1. `outbound_alias_sound`: for every Topic Alias Maximum the client can declare (uint16) and every sequence of
    message topics, the write loop does not panic, every alias it sends is in `[1, max]`, and a receiver that replays the
    packets through its alias table (starting empty, as at CONNECT) resolves every packet — in particular every packet sent
    with a zero-length topic name — to the real topic of that message, without protocol error. -/
theorem outbound_alias_sound (max : Nat) (hmax : max ≤ 65535) (topics : List τ) :
    ∃ pkts, emitAll max (Fifo.new max) topics = some pkts
      ∧ (∀ p ∈ pkts, ∀ a, p.alias = some a → 1 ≤ a ∧ a ≤ max)
      ∧ recvAll max [] pkts = some topics := by
  by_cases hpos : 0 < max
  · obtain ⟨pkts, h1, h2, h3⟩ := emitAll_sound hmax hpos topics (Fifo.new max) [] (inv_new max)
    refine ⟨pkts, h1, ?_, h3⟩
    intro p hp a ha
    obtain ⟨b, hb, hr⟩ := h2 p hp
    rw [ha] at hb; cases hb; exact hr
  · have h0 : max = 0 := by omega
    subst h0
    refine ⟨_, emitAll_zero _ topics, ?_, recvAll_plain 0 [] topics⟩
    intro p hp a ha
    simp only [List.mem_map] at hp
    obtain ⟨t, _, rfl⟩ := hp
    cases ha

/-- 1'. once an alias has been established the topic name is really left out: a topic that is still in the manager's
    table is sent with a zero-length name (this is what makes 1. non-trivial). -/
theorem outbound_alias_used (max : Nat) (hpos : 0 < max) (q : Fifo τ) (t : τ) (a : Nat)
    (h : lookup t q.index = some a) :
    emit max q t = .ok q { topic := none, alias := some a } := by
  simp [emit, hpos, Fifo.check, h]

/-- 2. `outbound_no_alias_when_zero`: a client that declared Topic Alias Maximum 0 (or none) never receives an alias and
    always the full topic name; the alias manager is not even consulted (its state is untouched). -/
theorem outbound_no_alias_when_zero (q : Fifo τ) (topics : List τ) :
    emitAll 0 q topics = some (topics.map (fun t => { topic := some t, alias := none }))
    ∧ ∀ t, emit 0 q t = .ok q { topic := some t, alias := none } :=
  ⟨emitAll_zero q topics, fun t => by simp [emit]⟩

/-- 2'. the guard in `writeLoop` is needed: `Check` on a manager created with maximum 0 dereferences a nil list element. -/
theorem check_panics_when_zero (t : τ) : ∃ r : CheckRes τ, (Fifo.new 0 : Fifo τ).check t = r ∧ (match r with | .panic => True | _ => False) :=
  ⟨_, rfl, by simp [Fifo.check, Fifo.new, lookup]⟩

/-- The full-strength inbound statement for a given variant of the code: whatever `server_receive_maximum` is, on a
    connection whose CONNACK advertised Topic Alias Maximum `max`, every sequence of PUBLISH packets is answered exactly as
    MQTT 5.0 §3.3.2.3.4 says: alias in `[1, max]` with a topic name → accepted and (re)bound; with a zero-length name →
    routed under the topic most recently bound to that alias on this connection, 0x94 if none; alias 0 or `> max` → 0x94;
    no alias → routed under its own topic name; never a crash. -/
def InboundAliasStatement (fixed : Bool) : Prop :=
  ∀ (τ : Type) (max receiveMax : Nat), max ≤ 65535 → 1 ≤ receiveMax → receiveMax ≤ 65535 →
    ∀ pubs : List (Option Nat × Option τ),
      runIn fixed (connect fixed max receiveMax : InSt τ) pubs = specIn max [] pubs

/-- 3. `inbound_alias`: the code with the F02 patch satisfies the statement. -/
theorem inbound_alias : InboundAliasStatement true := by
  intro τ max rm _ _ _ pubs
  exact runIn_eq_spec max pubs _ [] rfl (by simp [connect]) (by intro a; rfl)

/-- 3'. the tree as it is does not (finding F02, first half): with advertised maximum 10 (the default), alias 10 is refused. -/
theorem inbound_alias_fails_as_is : ¬ InboundAliasStatement false := by
  intro h
  have := h Nat 10 100 (by decide) (by decide) (by decide) [(some 10, some 7)]
  revert this
  decide

/-- 3''. finding F02, second half: the table is sized by the receive maximum, so with `topic_alias_maximum = 100` and
    `server_receive_maximum = 10` (accepted by the config validator) alias 50 crashes the handler; and with
    `server_receive_maximum = 65535` the table has length 0 (uint16 wrap), so does alias 1. -/
theorem inbound_alias_as_is_panics :
    (publish false (connect false 100 10 : InSt Nat) (some 50) (some 7)).2 = .panic
    ∧ (publish false (connect false 10 65535 : InSt Nat) (some 1) (some 7)).2 = .panic := by
  decide

/-- 3'''. accepted aliases in words: after the patch every alias in `[1, max]` is accepted with a topic name, and a later
    zero-length PUBLISH with that alias is routed under that name, in every reachable state. -/
theorem inbound_bind_then_use (max rm : Nat) (pre : List (Option Nat × Option τ)) (a : Nat) (t : τ)
    (ha : 1 ≤ a ∧ a ≤ max) (hpre : ∀ r ∈ specIn max [] pre, ∃ x, r = InRes.ok (τ := τ) x) :
    ∃ rs, runIn true (connect true max rm : InSt τ) (pre ++ [(some a, some t), (some a, none)])
      = rs ++ [.ok (some t), .ok (some t)] := by
  have key : ∀ (pre : List (Option Nat × Option τ)) (hist : List (Option Nat × Option τ)),
      (∀ r ∈ specIn max hist pre, ∃ x, r = InRes.ok (τ := τ) x) →
      ∃ rs, specIn max hist (pre ++ [(some a, some t), (some a, none)]) = rs ++ [.ok (some t), .ok (some t)] := by
    intro pre
    induction pre with
    | nil =>
      intro hist _
      have h1 : ¬ (a = 0 ∨ a > max) := by omega
      exact ⟨[], by simp [specIn, expected, h1, lastBinding]⟩
    | cons p ps ih =>
      intro hist hall
      obtain ⟨pa, pt⟩ := p
      simp only [List.cons_append, specIn] at hall ⊢
      cases he : expected max hist pa pt with
      | ok r =>
        rw [he] at hall
        simp only at hall ⊢
        obtain ⟨rs, hrs⟩ := ih ((pa, pt) :: hist) (fun r hr => hall r (List.mem_cons_of_mem _ hr))
        exact ⟨.ok r :: rs, by rw [hrs]; rfl⟩
      | disc c =>
        rw [he] at hall
        obtain ⟨x, hx⟩ := hall (.disc c) (by simp)
        cases hx
      | panic =>
        rw [he] at hall
        obtain ⟨x, hx⟩ := hall .panic (by simp)
        cases hx
  obtain ⟨rs, hrs⟩ := key pre [] hpre
  refine ⟨rs, ?_⟩
  rw [← hrs]
  exact runIn_eq_spec max _ _ [] rfl (by simp [connect]) (by intro b; rfl)

/-! ## non-vacuity -/

/-- max 2, topics a b a c a: `a`,`b` are bound to 1,2; `a` goes out without name; `c` evicts `a` (oldest) and takes alias 1;
    `a` is then re-announced with its name under alias 2 (evicting `b`) -/
example : emitAll 2 (Fifo.new 2) ["a", "b", "a", "c", "a"] =
    some [⟨some "a", some 1⟩, ⟨some "b", some 2⟩, ⟨none, some 1⟩, ⟨some "c", some 1⟩, ⟨some "a", some 2⟩] := by decide

example : recvAll 2 [] [⟨some "a", some 1⟩, ⟨some "b", some 2⟩, ⟨none, some 1⟩, ⟨some "c", some 1⟩, ⟨some "a", some 2⟩]
    = some ["a", "b", "a", "c", "a"] := by decide

/-- a receiver does reject nonsense: unknown alias / alias above its maximum -/
example : recvAll 2 [] [(⟨none, some 1⟩ : Pkt String)] = none := by decide
example : recvAll 2 [] [(⟨some "a", some 3⟩ : Pkt String)] = none := by decide

/-- inbound, patched: bind 2→a, use it, rebind 2→b, use it, alias = max accepted, alias max+1 refused -/
example : runIn true (connect true 3 1 : InSt String)
    [(some 2, some "a"), (some 2, none), (some 2, some "b"), (some 2, none), (some 3, some "c"), (some 1, none)]
    = [.ok (some "a"), .ok (some "a"), .ok (some "b"), .ok (some "b"), .ok (some "c"), .disc 0x94] := by decide
example : runIn true (connect true 3 1 : InSt String) [(some 4, some "a")] = [.disc 0x94] := by decide
example : runIn true (connect true 3 1 : InSt String) [(some 0, some "a")] = [.disc 0x94] := by decide

end GmqttVerif.Alias
