import GmqttVerif.Model.Broker
import GmqttVerif.Proofs.BrokerLimitsSize
import GmqttVerif.Proofs.BrokerLimitsIn
import GmqttVerif.Properties.C01
import GmqttVerif.Properties.C10
import GmqttVerif.Properties.C13
import GmqttVerif.Model.BrokerCfg
/-
  C13 at broker level — the limits negotiated at CONNECT hold in both directions, over the wire-level broker model
  (`Model/Broker.lean`; `runB`/`Step` are the wire steps of C05, `PumpRound`/`PumpTrace` the rounds of the poll loop):

  outbound  `outbound_size*`   every PUBLISH the poll loop writes fits the client's Maximum Packet Size before alias
                               rewriting; after it, up to the 3 bytes of the Topic Alias property more (finding F40);
                               oversize messages are dropped whole, the connection stays online;
            `outbound_alias_*` aliases on the wire are in [1, client's Topic Alias Maximum] and a client-side table
                               resolves every packet to the message's real topic (lifts C13 `outbound_alias_sound`);
  inbound   `inbound_alias_*`  the verdict for every Topic Alias on a v5 PUBLISH, and the refinement of C13's `inbound_alias` spec;
            `inbound_quota*`   the receive quota is Receive Maximum minus the units in use; never 0x93 below the limit,
                               always 0x93 above it; retransmissions do not count; how "in use" still differs from
                               "QoS 2 not yet released" (PUBREL of an unknown id);
            `inbound_size`     0x95 exactly for packets larger than the server's Maximum Packet Size;
  CONNECT   `negotiate_ok`     what `connect` installs and advertises.

  Property theorems only; vocabulary and helper lemmas are in `Proofs/BrokerLimits*.lean`:
  * `Pkt.size? / alias? / topic?`, `Pkt.core` (a PUBLISH up to topic name, alias, size), `pOuts conn ps`, `newP b b' conn`;
  * `aliasPropBytes = 3`; `totalBytes v m` = `Message.TotalBytes(version)`;
  * `LInv` : the invariant of reachable states (`RInv` of C03 ∧ sizes `SzInv` ∧ quota ≤ Receive Maximum ∧ `AliasGood`);
  * `KickedWith b b' conn code` : the step appended exactly DISCONNECT(code) and the socket close to the output of
    `conn`, and `conn` is no longer registered;
  * `DecodeOk c r` : the packet decoder lets the PUBLISH through (no alias 0, no zero-length topic name without alias);
  * `Pkt.aliasView`, `recvRun` : a PUBLISH as a client-side alias table sees it; the table run (`Alias.recv` of C13);
  * `inUse conn b n steps` : receive-quota units in use on `conn` after `steps`; `outstanding b conn pid` : the QoS 2
    packet id is awaiting PUBREL on the session of `conn`;
  * `KeepCli I O rm c c'` : the record `c'` is `c` up to window / DISCONNECT flags, up to quota and inbound alias table
    if the connection is in `I`, and up to the outbound alias manager if it is in `O`.
-/
namespace GmqttVerif.Broker
open GmqttVerif.Deliver

/-! ## outbound: Maximum Packet Size -/

/-- 1. `outbound_size`, per round of the poll loop, in every reachable state. `c` is the connection, `s` its session,
    `out` what `Read` handed out:
    * `connect` installed the client's Maximum Packet Size as the queue's read limit (and every later step kept it);
    * for every element handed out, the packet `pollNewMessages` builds (`pubPkt`, before alias rewriting) has size
      `TotalBytes(version)` of the stored message, and that is ≤ the client's Maximum Packet Size — from C10
      `read_never_expired_or_oversize` and the invariant that `enqueue`, the retained-message replay of SUBSCRIBE and the
      resume of a session stamp queue elements with `TotalBytes` for the reading connection's version;
    * what is written to the connection is one packet per element, in order, equal to `pubPkt` up to topic name / alias /
      size (`Pkt.core`), of size at most Maximum Packet Size + 3, and at most Maximum Packet Size if the client did not
      declare a Topic Alias Maximum (or is not v5). -/
theorem outbound_size (cfg : Cfg) (steps : List Step) (conn : String) (c : Cli) (s : Sess) (q' : Queue.Q)
    (out : List Queue.Elem) (h : PumpRound conn (runB { cfg := cfg } steps) c s q' out) :
    let b := runB { cfg := cfg } steps
    s.queue.limit = c.cliMaxPkt ∧
    (∀ e ∈ out, (b.pubPkt c e (b.ats.getD e.tag b.now)).size? = some (totalBytes c.v (b.msgOf e.tag)) ∧
      totalBytes c.v (b.msgOf e.tag) ≤ c.cliMaxPkt) ∧
    ∃ ps, (b.pumpRound conn c s q' out).out = b.out ++ pOuts conn ps ∧
      ps.map Pkt.core = out.map (fun e => (b.pubPkt c e (b.ats.getD e.tag b.now)).core) ∧
      ∀ p ∈ ps, ∃ n, p.size? = some n ∧ n ≤ c.cliMaxPkt + aliasPropBytes ∧
        (¬ (c.v = 5 ∧ 0 < c.cliAliasMax) → n ≤ c.cliMaxPkt) := by
  intro b
  have hl : LInv b := reachable_linv cfg steps
  replace h : PumpRound conn b c s q' out := h
  clear_value b
  have hfit := pumpRound_fits h hl
  refine ⟨hl.sz.lim c (cli?_some h.cli).1 s (sess?_some h.sess).1 (sess?_some h.sess).2,
    fun e he => ⟨pubPkt_size b c e _, hfit e he⟩, ?_⟩
  obtain ⟨ps, ho, hcore⟩ := pumpRound_out b conn c s q' out
  obtain ⟨ps', ho', hall⟩ := pumpRound_written b conn c s q' out h.cli
  have hps : ps' = ps := by rw [← newP_pOuts b _ conn ps' ho', ← newP_pOuts b _ conn ps ho]
  subst hps
  refine ⟨ps', ho, hcore, ?_⟩
  intro p hp
  obtain ⟨e, he, n', hn', hle, hsame⟩ := hall p hp
  have := hfit e he
  refine ⟨n', hn', by omega, fun hn => ?_⟩
  have hp' := hsame hn
  rw [hp', pubPkt_size] at hn'
  cases hn'
  exact this

/-- `OutboundSizeWithin slack`: in every reachable state, every PUBLISH a run of the poll loop of an online connection
    writes has size ≤ that client's Maximum Packet Size + `slack` (a function of the connection record). -/
def OutboundSizeWithin (slack : Cli → Nat) : Prop :=
  ∀ (cfg : Cfg) (steps : List Step) (conn : String) (fuel : Nat),
    ((runB { cfg := cfg } steps).cli? conn).all
      (fun c => pumpFits (runB { cfg := cfg } steps) conn fuel (c.cliMaxPkt + slack c)) = true

/-- the full-strength property: no slack at all -/
def OutboundSizeStatement : Prop := OutboundSizeWithin (fun _ => 0)

/-- 1'. `outbound_size_partial` — what holds of the model (and of the code it mirrors): for a whole run of the poll
    loop from any reachable state, every packet written fits the client's Maximum Packet Size, except that for a v5
    client that declared a Topic Alias Maximum > 0 the 3 bytes of the Topic Alias property, which `writeLoop` adds
    after the size check, may come on top (recorded finding F40). -/
theorem outbound_size_partial :
    OutboundSizeWithin (fun c => if c.v = 5 ∧ 0 < c.cliAliasMax then aliasPropBytes else 0) := by
  intro cfg steps conn fuel
  cases hc : (runB { cfg := cfg } steps).cli? conn with
  | none => rfl
  | some c =>
    simp only [Option.all_some]
    obtain ⟨rs, htr⟩ := pump_trace fuel (runB { cfg := cfg } steps) conn
    obtain ⟨ps, ho, hall⟩ := pumpTrace_sizes htr (reachable_linv cfg steps) c hc
    apply pumpFits_of ho
    intro p hp
    obtain ⟨n, hn, h1, h2⟩ := hall p hp
    refine ⟨n, hn, ?_⟩
    by_cases hcond : c.v = 5 ∧ 0 < c.cliAliasMax
    · rw [if_pos hcond]; exact h1
    · rw [if_neg hcond]; exact h2 hcond

/-- 1''. the same with the packets in hand: a run of the poll loop appends only PUBLISH packets on the P stream of its
    connection, each within the bound. -/
theorem outbound_size_run (cfg : Cfg) (steps : List Step) (conn : String) (fuel : Nat) (c : Cli)
    (hc : (runB { cfg := cfg } steps).cli? conn = some c) :
    ∃ ps, ((runB { cfg := cfg } steps).pump conn fuel).out = (runB { cfg := cfg } steps).out ++ pOuts conn ps ∧
      ∀ p ∈ ps, ∃ n, p.size? = some n ∧ n ≤ c.cliMaxPkt + aliasPropBytes ∧
        (¬ (c.v = 5 ∧ 0 < c.cliAliasMax) → n ≤ c.cliMaxPkt) := by
  obtain ⟨rs, htr⟩ := pump_trace fuel (runB { cfg := cfg } steps) conn
  exact pumpTrace_sizes htr (reachable_linv cfg steps) c hc

/-- the reachable state that refutes the full-strength statement: a v5 subscriber with Maximum Packet Size 7 and Topic
    Alias Maximum 1; a QoS 0 message on topic "t" with a 1-byte payload has `TotalBytes` 7 and passes the size check … -/
def exF40Steps : List Step :=
  [.connect { conn := "s", cid := "sub", v := 5, mp := some 7, ta := some 1 },
   .subscribe "s" 1 [{ name := "t", qos := 0 }] 0,
   .connect { conn := "p", cid := "pub", v := 4 },
   .publish { conn := "p", topic := "t", qos := 0, tag := "m", plen := 1 }]

/-- 1'''. `outbound_size_full_refuted` (finding F40): … and goes out with the alias property, 10 bytes long. -/
theorem outbound_size_full_refuted : ¬ OutboundSizeStatement := by
  intro h
  have := h {} exF40Steps "s" 5
  revert this
  decide

/-- 1⁗. oversize messages are dropped whole and the connection stays online: a run of the poll loop from a reachable
    state leaves its connection registered, with the same negotiated limits, receive quota and inbound alias table. -/
theorem pump_keeps_online (cfg : Cfg) (steps : List Step) (conn : String) (fuel : Nat) (c : Cli)
    (hc : (runB { cfg := cfg } steps).cli? conn = some c) :
    ∃ c', ((runB { cfg := cfg } steps).pump conn fuel).cli? conn = some c' ∧
      KeepCli (fun _ => False) (fun x => x = conn) cfg.recvMax c c' := by
  have hl := reachable_linv cfg steps
  obtain ⟨c', hc', hsame⟩ := (pump_run fuel (runB { cfg := cfg } steps) conn).cli c hc
  obtain ⟨c0, hc0, k⟩ := (lim_pump (I := fun _ => False) (runB { cfg := cfg } steps) conn fuel).clis c' (cli?_some hc').1
  have : c0 = c := hl.rinv.wf.conn_inj hc0 (cli?_some hc).1
    (by rw [← k.conn, hsame.conn])
  subst this
  rw [runB_cfg] at k
  exact ⟨c', hc', k⟩

/-! ## outbound: topic aliases -/

/-- 2. `outbound_alias_range_and_resolution`. For a v5 connection that declared Topic Alias Maximum `max` ∈ [1, 65535]:
    (a) in every reachable state its alias manager is consistent with SOME client-side alias table `tab` (`Alias.Inv`);
    (b) for EVERY table `tab` it is consistent with, and every run of the poll loop (no empty topic names among the
        messages handed out): every packet written carries an alias in [1, max]; a client that replays the written
        (topic-name-or-empty, alias) pairs through `tab` (`Alias.recv`, MQTT 5.0 §3.3.2.3.4) hits no protocol error and
        resolves each packet to the real topic of its message, in order; and afterwards the manager is consistent with the
        client's updated table `tab'` — so the statement chains over the whole life of the connection.
    This lifts C13 `outbound_alias_sound` (`Alias.emit_step`) through `emitPub`, which is `Alias.emit` on the topic
    name (`emitPub_alias`). -/
theorem outbound_alias_range_and_resolution (cfg : Cfg) (steps : List Step) (conn : String) (c : Cli)
    (hc : (runB { cfg := cfg } steps).cli? conn = some c) (hv : c.v = 5) (hpos : 0 < c.cliAliasMax)
    (hmax : c.cliAliasMax ≤ 65535) :
    (∃ tab, Alias.Inv c.cliAliasMax c.aliasOut tab) ∧
    ∀ tab, Alias.Inv c.cliAliasMax c.aliasOut tab → ∀ rs b', PumpTrace conn (runB { cfg := cfg } steps) rs b' →
      (∀ r ∈ rs, ∀ e ∈ r.out, (r.b.msgOf e.tag).topic ≠ "") →
      ∃ ps c' tab', b'.out = (runB { cfg := cfg } steps).out ++ pOuts conn ps ∧ b'.cli? conn = some c' ∧
        Alias.Inv c.cliAliasMax c'.aliasOut tab' ∧
        (∀ p ∈ ps, ∃ a, p.alias? = some a ∧ 1 ≤ a ∧ a ≤ c.cliAliasMax) ∧
        recvRun c.cliAliasMax tab (ps.map Pkt.aliasView) = some (tab', roundTopics rs) ∧
        Alias.recvAll c.cliAliasMax tab (ps.map Pkt.aliasView) = some (roundTopics rs) := by
  refine ⟨(reachable_linv cfg steps).alias c (cli?_some hc).1 hv hpos hmax, ?_⟩
  intro tab inv rs b' htr htop
  obtain ⟨ps, c', tab', ho, hc', _, _, inv', hall, hrr⟩ := pumpTrace_alias htr c hc hv hpos hmax tab inv htop
  refine ⟨ps, c', tab', ho, hc', inv', hall, hrr, ?_⟩
  rw [← recvRun_topics, hrr]
  rfl

/-- 2'. one PUBLISH through `emitPub` (also the replayed ones of a resumed CONNECT): range, resolution, consistency. -/
theorem outbound_alias_one (b : B) (conn : String) (c : Cli) (hc : b.cli? conn = some c) (hv : c.v = 5)
    (hpos : 0 < c.cliAliasMax) (hmax : c.cliAliasMax ≤ 65535) (tab : List (Nat × String))
    (inv : Alias.Inv c.cliAliasMax c.aliasOut tab)
    (topic : String) (htop : topic ≠ "") (qos : Nat) (retain dup : Bool) (id : Nat) (tag : String) (plen : Nat)
    (sids : List Nat) (exp : Option Nat) (size : Nat) :
    ∃ p' q' tab', (b.emitPub conn (.publish topic qos retain dup id tag plen sids exp none size)).out =
        b.out ++ [{ conn := conn, poll := true, pkt := p' }] ∧
      (b.emitPub conn (.publish topic qos retain dup id tag plen sids exp none size)).cli? conn = some { c with aliasOut := q' } ∧
      Alias.Inv c.cliAliasMax q' tab' ∧
      (∃ a, p'.alias? = some a ∧ 1 ≤ a ∧ a ≤ c.cliAliasMax) ∧
      Alias.recv c.cliAliasMax tab p'.aliasView = some (tab', topic) :=
  emitPub_alias_sound b conn c hc hv hpos hmax tab inv topic htop qos retain dup id tag plen sids exp size

/-- 2''. a client that declared no Topic Alias Maximum (or 0), or is not v5, gets every PUBLISH as it is: full topic
    name, no alias; the manager is not consulted. -/
theorem outbound_alias_off (b : B) (conn : String) (c : Cli) (hc : b.cli? conn = some c)
    (hoff : ¬ (c.v = 5 ∧ 0 < c.cliAliasMax))
    (topic : String) (qos : Nat) (retain dup : Bool) (id : Nat) (tag : String) (plen : Nat) (sids : List Nat)
    (exp : Option Nat) (size : Nat) :
    b.emitPub conn (.publish topic qos retain dup id tag plen sids exp none size) =
      b.emit conn true (.publish topic qos retain dup id tag plen sids exp none size) :=
  (emitPub_alias b conn c hc topic qos retain dup id tag plen sids exp size).1 hoff

/-- 2'''. the life of an outbound alias manager: `connect` installs `Fifo.new cliAliasMax` (empty, bound = the
    client's Topic Alias Maximum), consistent with the empty client table; the replay loop of that `connect` and the poll
    loop (`Step.pump`) are the only things that touch it afterwards; and it stays good (`AliasGood`). -/
theorem outbound_alias_manager_life :
    (∀ (cfg : Cfg) (b1 : B) (r : ConnectReq),
      (connectCore cfg b1 r).cli? r.conn = some (newCli cfg r) ∧
      (newCli cfg r).aliasOut = Alias.Fifo.new (newCli cfg r).cliAliasMax ∧
      Alias.Inv (newCli cfg r).cliAliasMax (newCli cfg r).aliasOut ([] : List (Nat × String))) ∧
    (∀ (cfg : Cfg) (steps : List Step) (st : Step) (conn : String) (c c' : Cli),
      (runB { cfg := cfg } steps).cli? conn = some c → (stepB (runB { cfg := cfg } steps) st).cli? conn = some c' →
      st ≠ .pump → c'.aliasOut = c.aliasOut ∧ c'.cliAliasMax = c.cliAliasMax ∧ c'.v = c.v) ∧
    (∀ (cfg : Cfg) (steps : List Step), ∀ c ∈ (runB { cfg := cfg } steps).clis, AliasGood c) := by
  refine ⟨fun cfg b1 r => ⟨core_cli cfg b1 r, rfl, Alias.inv_new _⟩, ?_, fun cfg steps => (reachable_linv cfg steps).alias⟩
  intro cfg steps st conn c c' hc hc' hst
  obtain ⟨h1, h2, _, _, _, h6⟩ := step_frame _ (reachable_linv cfg steps).rinv.wf st conn c c' hc hc'
  refine ⟨h6 ?_, h2, h1⟩
  cases st <;> first | exact (fun h => h) | exact absurd rfl hst

/-! ## inbound: topic aliases -/

/-- 3. `inbound_alias_verdicts`. An online v5 connection with a session sends a PUBLISH with Topic Alias `a`; the
    receive quota, the size check and the retain check do not refuse it. Then, with `max` = the configured (and
    advertised) `topic_alias_maximum`:
    * `a = 0`  (refused by the decoder, whatever else) or `a > max`: the connection is ended with 0x94;
    * `1 ≤ a ≤ max` and a topic name: accepted — `publish` is the common tail (`publishTail`: QoS 2 id store, retained
      store, `deliverMessage`, acknowledgement) under the packet's own topic, and afterwards the connection's table binds
      `a` to that topic (the previous binding of `a` dropped, the others kept);
    * `1 ≤ a ≤ max`, zero-length topic name, `a` bound to `t ≠ ""`: accepted and routed under `t` (the message handed to
      `deliverMessage` has topic `t`); the table is unchanged;
    * `1 ≤ a ≤ max`, zero-length topic name, `a` not bound: the connection is ended with 0x94. -/
theorem inbound_alias_verdicts (b : B) (r : PubReq) (c : Cli) (s : Sess) (a : Nat)
    (hc : b.cli? r.conn = some c) (hs : b.sess? c.cid = some s) (hv : c.v = 5) (ha : r.alias = some a)
    (hquota : ¬ (r.qos > 0 ∧ c.quota = 0)) (hsize : ¬ (b.cfg.maxPacket ≠ 0 ∧ r.size > b.cfg.maxPacket))
    (hret : ¬ (b.cfg.retainAvail = false ∧ r.retain = true)) :
    (a = 0 ∨ a > b.cfg.aliasMax → KickedWith b (b.publish r) r.conn 0x94) ∧
    (1 ≤ a → a ≤ b.cfg.aliasMax → r.topic ≠ "" →
      ∃ c2 : Cli, c2 = { pubCli c r with aliasIn := (a, r.topic) :: c.aliasIn.filter (fun (p : Nat × String) => p.1 != a) } ∧
        b.publish r = ((b.setCli (pubCli c r)).setCli c2).publishTail c2 r s ∧
        ∃ c', (b.publish r).cli? r.conn = some c' ∧
          c'.aliasIn = (a, r.topic) :: c.aliasIn.filter (fun (p : Nat × String) => p.1 != a)) ∧
    (1 ≤ a → a ≤ b.cfg.aliasMax → r.topic = "" →
      ∀ p, c.aliasIn.find? (fun (p : Nat × String) => p.1 == a) = some p → p.2 ≠ "" →
        b.publish r = ((b.setCli (pubCli c r)).setCli (pubCli c r)).publishTail (pubCli c r) { r with topic := p.2 } s ∧
        (pubMsg { r with topic := p.2 }).topic = p.2 ∧
        ∃ c', (b.publish r).cli? r.conn = some c' ∧ c'.aliasIn = c.aliasIn) ∧
    (1 ≤ a → a ≤ b.cfg.aliasMax → r.topic = "" →
      (∀ p, c.aliasIn.find? (fun (p : Nat × String) => p.1 == a) = some p → p.2 = "") →
        KickedWith b (b.publish r) r.conn 0x94) := by
  have hconn := (cli?_some hc).2
  have hq' : ¬ (c.v = 5 ∧ r.qos > 0 ∧ c.quota = 0) := fun h => hquota ⟨h.2.1, h.2.2⟩
  have hs' : ¬ (c.v = 5 ∧ b.cfg.maxPacket ≠ 0 ∧ r.size > b.cfg.maxPacket) := fun h => hsize ⟨h.2.1, h.2.2⟩
  have hdec : a ≠ 0 → DecodeOk c r := fun h0 =>
    ⟨fun h => by rw [ha] at h; exact h0 (Option.some.inj h.2), fun h => by
      rcases h.2 with h | h
      · exact h hv
      · rw [ha] at h; cases h⟩
  have hpv : (pubCli c r).v = 5 := by rw [pubCli_v]; exact hv
  have hpc : (pubCli c r).conn = r.conn := by rw [pubCli_conn]; exact hconn
  have hkick : a ≠ 0 → aliasRes b.cfg (pubCli c r) r = .error 0x94 → KickedWith b (b.publish r) r.conn 0x94 := by
    intro h0 he
    rw [publish_to_alias b r c s hc hs (hdec h0) hq' hs' hret, he]
    exact kicked_of_setCli_kick b r.conn (pubCli c r) 0x94 hpc hpv
  refine ⟨?_, ?_, ?_, ?_⟩
  · intro h
    by_cases h0 : a = 0
    · rw [publish_alias_zero b r c hc hv (by rw [ha, h0])]
      exact kicked_of_kick b r.conn c 0x94 hc hv
    · exact hkick h0 (aliasRes_out_of_range b.cfg (pubCli c r) r a hpv ha h)
  · intro h1 h2 ht
    have h0 : a ≠ 0 := by omega
    have he := aliasRes_bind b.cfg (pubCli c r) r a hpv ha h1 h2 ht
    rw [pubCli_aliasIn] at he
    generalize hc2 : ({ pubCli c r with aliasIn := (a, r.topic) :: c.aliasIn.filter (fun (p : Nat × String) => p.1 != a) } : Cli) = c2 at he
    have hc2conn : c2.conn = r.conn := by rw [← hc2]; exact hpc
    have hcli : ((b.setCli (pubCli c r)).setCli c2).cli? r.conn = some c2 := by rw [cli?_setCli, if_pos hc2conn]
    have hpub : b.publish r = ((b.setCli (pubCli c r)).setCli c2).publishTail c2 r s := by
      rw [publish_to_alias b r c s hc hs (hdec h0) hq' hs' hret, he]
    refine ⟨c2, rfl, hpub, ?_⟩
    rw [hpub]
    exact ⟨_, publishTail_cli _ c2 r s c2 hcli, by rw [← hc2]⟩
  · intro h1 h2 ht p hf hp
    have h0 : a ≠ 0 := by omega
    have he := aliasRes_use b.cfg (pubCli c r) r a hpv ha h1 h2 ht p (by rw [pubCli_aliasIn]; exact hf) hp
    have hcli : ((b.setCli (pubCli c r)).setCli (pubCli c r)).cli? r.conn = some (pubCli c r) := by
      rw [cli?_setCli, if_pos hpc]
    have hpub : b.publish r =
        ((b.setCli (pubCli c r)).setCli (pubCli c r)).publishTail (pubCli c r) { r with topic := p.2 } s := by
      rw [publish_to_alias b r c s hc hs (hdec h0) hq' hs' hret, he]
    refine ⟨hpub, rfl, ?_⟩
    rw [hpub]
    exact ⟨_, publishTail_cli _ (pubCli c r) { r with topic := p.2 } s (pubCli c r) hcli, pubCli_aliasIn c r⟩
  · intro h1 _ ht hf
    have h0 : a ≠ 0 := by omega
    exact hkick h0 (aliasRes_unbound b.cfg (pubCli c r) r a hpv ha ht (by rw [pubCli_aliasIn]; exact hf))

/-- 3'. the topic-alias step of the broker refines the inbound alias specification of C13 (`Alias.publish true`, shown
    equal to the MQTT 5.0 §3.3.2.3.4 history specification by `Alias.inbound_alias`): same verdict — accepted under
    the same topic, or DISCONNECT with the same code — and the tables stay in correspondence; a zero-length topic name
    without alias, which the component model hands on, the broker refuses with 0x82. -/
theorem inbound_alias_refines_spec (cfg : Cfg) (c : Cli) (r : PubReq) (st : Alias.InSt String) (hv : c.v = 5)
    (hmax : st.serverMax = cfg.aliasMax) (hsize : st.size = cfg.aliasMax + 1) (hsim : AliasSim c.aliasIn st.mapper) :
    match Alias.publish true st r.alias (if r.topic = "" then none else some r.topic), aliasRes cfg c r with
    | (st', .ok (some t)), .ok (t', c2) => t' = t ∧ AliasSim c2.aliasIn st'.mapper
    | (_, .ok none), .error code => code = 0x82
    | (_, .disc k), .error code => code = k
    | _, _ => False :=
  aliasRes_refines cfg c r st hv hmax hsize hsim

/-! ## inbound: Receive Maximum -/

/-- 4. `inbound_quota`. In every state reachable from the empty broker, for every online v5 connection:
    receive quota + units in use = the configured (and advertised) Receive Maximum, where `inUse` counts, since the
    CONNECT that registered the connection: +1 for every QoS 2 PUBLISH on it that did not end the connection and whose
    packet id was not already awaiting PUBREL (`outstanding`), −1 (not below 0) for every PUBREL on it; a QoS 1
    PUBLISH takes a unit and gets it back with its PUBACK at once, and so does a retransmission of a QoS 2 PUBLISH
    still awaiting PUBREL (its id already holds a unit: `inbound_quota_ignores_duplicates`); no other step — of this or
    any other connection — changes the quota.
    This is the model's (= `readLoop` / `tryDecServerQuota` / `addServerQuota`) bookkeeping. As far as PUBLISH packets
    go it is "QoS 2 publishes accepted and not yet released"; it still differs from that in one corner, exhibited
    below: a PUBREL for a packet id that is not outstanding gives a unit back (`inbound_quota_pubrel_any_id`). -/
theorem inbound_quota (cfg : Cfg) (steps : List Step) (conn : String) (c : Cli)
    (hc : (runB { cfg := cfg } steps).cli? conn = some c) (hv : c.v = 5) :
    c.quota + inUse conn { cfg := cfg } 0 steps = cfg.recvMax := by
  have := quota_ghost_run { cfg := cfg } (linv_empty cfg) steps conn 0 (fun c hc => by cases hc) c hc hv
  rw [runB_cfg] at this
  exact this

/-- 4a. hence a client that keeps the units in use below Receive Maximum is never refused with 0x93: the quota check
    passes, and the outcome of its next PUBLISH (decoder, size and retain checks passed) is decided by the topic-alias
    step — accepted, or 0x94 / 0x82. -/
theorem inbound_quota_never_refused (cfg : Cfg) (steps : List Step) (conn : String) (c : Cli) (s : Sess)
    (hc : (runB { cfg := cfg } steps).cli? conn = some c) (hs : (runB { cfg := cfg } steps).sess? c.cid = some s)
    (hv : c.v = 5) (hlt : inUse conn { cfg := cfg } 0 steps < cfg.recvMax) :
    c.quota ≠ 0 ∧
    ∀ r : PubReq, r.conn = conn → DecodeOk c r → ¬ (cfg.maxPacket ≠ 0 ∧ r.size > cfg.maxPacket) →
      ¬ (cfg.retainAvail = false ∧ r.retain = true) →
      (runB { cfg := cfg } steps).publish r =
        match aliasRes cfg (pubCli c r) r with
        | .error code => ((runB { cfg := cfg } steps).setCli (pubCli c r)).kick r.conn (some code)
        | .ok (topic, c2) =>
          (((runB { cfg := cfg } steps).setCli (pubCli c r)).setCli c2).publishTail c2 { r with topic := topic } s := by
  have hq := inbound_quota cfg steps conn c hc hv
  have hne : c.quota ≠ 0 := by omega
  refine ⟨hne, fun r hr hd hsz hret => ?_⟩
  subst hr
  have hcfg := runB_cfg { cfg := cfg } steps
  have := publish_to_alias (runB { cfg := cfg } steps) r c s hc hs hd (fun h => hne h.2.2)
    (fun h => hsz (by rw [hcfg] at h; exact ⟨h.2.1, h.2.2⟩)) (fun h => hret (by rw [hcfg] at h; exact h))
  rw [hcfg] at this
  exact this

/-- 4b. and one that has Receive Maximum units in use is ended with 0x93 by its next QoS > 0 PUBLISH. -/
theorem inbound_quota_exceeded_kicked (cfg : Cfg) (steps : List Step) (c : Cli) (r : PubReq)
    (hc : (runB { cfg := cfg } steps).cli? r.conn = some c) (hv : c.v = 5)
    (hfull : inUse r.conn { cfg := cfg } 0 steps = cfg.recvMax) (hd : DecodeOk c r) (hq : r.qos > 0) :
    KickedWith (runB { cfg := cfg } steps) ((runB { cfg := cfg } steps).publish r) r.conn 0x93 := by
  have h := inbound_quota cfg steps r.conn c hc hv
  have h0 : c.quota = 0 := by omega
  rw [publish_quota_refused _ r c hc hd hv hq h0]
  exact kicked_of_kick _ r.conn c 0x93 hc hv

/-- 4c. the per-step form: how each wire step moves quota and units in use together (any state with one connection
    record per name; `hq` is the relation before the step). -/
theorem inbound_quota_step (b : B) (hw : WF b) (st : Step) (conn : String) (n : Nat)
    (hq : ∀ c, b.cli? conn = some c → c.v = 5 → c.quota + n = b.cfg.recvMax) :
    ∀ c', (stepB b st).cli? conn = some c' → c'.v = 5 →
      c'.quota + inUseStep conn b st n = (stepB b st).cfg.recvMax :=
  quota_ghost_step b hw st conn n hq

/-- Receive Maximum 2; a QoS 2 PUBLISH with packet id 1, and the same again (a duplicate: the id is still awaiting
    PUBREL, so it is not forwarded a second time) -/
def exDupSteps : List Step :=
  [.connect { conn := "p", cid := "pub", v := 5 },
   .publish { conn := "p", topic := "t", qos := 2, pid := 1 },
   .publish { conn := "p", topic := "t", qos := 2, pid := 1, dup := true }]

/-- 4d. duplicates do not count: after a QoS 2 PUBLISH and its retransmission ONE publication is outstanding
    (`unack = [1]`), one unit is in use, the quota is 1, and the next QoS 1 PUBLISH is accepted and acknowledged.
    (Before the fix of the code — commit dd72ab4 — the retransmission kept a second unit and this PUBLISH was
    refused with 0x93.) -/
theorem inbound_quota_ignores_duplicates :
    let b := runB { cfg := { recvMax := 2 } } exDupSteps
    (b.sess? "pub").map (·.unack) = some [1] ∧ (b.cli? "p").map (·.quota) = some 1 ∧
    inUse "p" { cfg := { recvMax := 2 } } 0 exDupSteps = 1 ∧
    newH b (b.publish { conn := "p", topic := "t", qos := 1, pid := 2 }) "p" = [.puback 2 0x10] := by
  decide

/-- 4d'. in general: a retransmission of a QoS 2 PUBLISH whose id is awaiting PUBREL leaves the units in use as they
    are, whatever else the step does. -/
theorem inbound_quota_duplicate_step (b : B) (r : PubReq) (n : Nat) (h2 : r.qos = 2)
    (hout : outstanding b r.conn r.pid = true) : inUseStep r.conn b (.publish r) n = n := by
  simp [inUseStep, h2, hout]

/-- Receive Maximum 2; three QoS 2 publications (ids 1, 2, 3) with a PUBREL for the unrelated id 99 in between -/
def exRelSteps : List Step :=
  [.connect { conn := "p", cid := "pub", v := 5 },
   .publish { conn := "p", topic := "t", qos := 2, pid := 1 },
   .pubrel "p" 99,
   .publish { conn := "p", topic := "t", qos := 2, pid := 2 },
   .pubrel "p" 99,
   .publish { conn := "p", topic := "t", qos := 2, pid := 3 }]

/-- 4e. the remaining discrepancy: THREE QoS 2 publications are outstanding (`unack = [1, 2, 3]`) although Receive Maximum is 2:
    every PUBREL, also for an id that was never published, is answered with PUBCOMP and gives a unit back; one unit is
    in use, the quota is 1, nothing was refused. -/
theorem inbound_quota_pubrel_any_id :
    let b := runB { cfg := { recvMax := 2 } } exRelSteps
    (b.sess? "pub").map (·.unack) = some [1, 2, 3] ∧ (b.cli? "p").map (·.quota) = some 1 ∧
    inUse "p" { cfg := { recvMax := 2 } } 0 exRelSteps = 1 := by
  decide

/-! ## inbound: Maximum Packet Size -/

/-- 5. `inbound_size`. A PUBLISH on an online v5 connection that passes the decoder and the receive quota:
    if it is larger than the server's (non-zero) `max_packet_size` the connection is ended with 0x95;
    if it is not, its size plays no role at all — `publish` behaves as for the same packet with size 0 (for a
    connection of any version, `hsmall` being vacuous for v3/v4). -/
theorem inbound_size (b : B) (r : PubReq) (c : Cli) (hc : b.cli? r.conn = some c) :
    (c.v = 5 → DecodeOk c r → ¬ (r.qos > 0 ∧ c.quota = 0) → b.cfg.maxPacket ≠ 0 → r.size > b.cfg.maxPacket →
      KickedWith b (b.publish r) r.conn 0x95) ∧
    (¬ (c.v = 5 ∧ b.cfg.maxPacket ≠ 0 ∧ r.size > b.cfg.maxPacket) → b.publish r = b.publish { r with size := 0 }) := by
  have hconn := (cli?_some hc).2
  refine ⟨fun hv hd hq hm hs => ?_, fun hsmall => ?_⟩
  · rw [publish_size_refused b r c hc hd (fun h => hq ⟨h.2.1, h.2.2⟩) hv hm hs]
    exact kicked_of_setCli_kick b r.conn (pubCli c r) 0x95 (by rw [pubCli_conn]; exact hconn) (by rw [pubCli_v]; exact hv)
  · have h2 : ((pubCli c r).v == 5 && (b.setCli (pubCli c r)).cfg.maxPacket != 0 &&
        decide (r.size > (b.setCli (pubCli c r)).cfg.maxPacket)) = false := by
      rw [Bool.eq_false_iff]; intro h; apply hsmall
      rw [pubCli_v] at h
      simpa [Bool.and_eq_true, beq_iff_eq, decide_eq_true_eq, and_assoc] using h
    have h2' : ((pubCli c { r with size := 0 }).v == 5 && (b.setCli (pubCli c { r with size := 0 })).cfg.maxPacket != 0 &&
        decide (0 > (b.setCli (pubCli c { r with size := 0 })).cfg.maxPacket)) = false := by simp
    rw [publish_eq b r, publish_eq b { r with size := 0 }]
    simp only [hc, h2, h2', Bool.false_eq_true, if_false]
    rfl

/-! ## CONNECT -/

/-- the configurations the validator of the server accepts (`config.Validate`, mirrored in `Driver/Broker.lean`) -/
def validCfg (cfg : Cfg) : Prop :=
  cfg.maxQueued > 0 ∧ cfg.recvMax ≠ 0 ∧ cfg.maxPacket ≠ 0 ∧ cfg.maxInflight ≠ 0 ∧ cfg.maxQueued ≥ cfg.maxInflight

/-- `validCfg` is what the executable validator `Cfg.validB` decides — the function the oracle runs on every `new` line and
    that the stream `config-validate` compares with `config.MQTT.Validate` of the real code on boundary configurations. -/
theorem validCfg_iff_validB (cfg : Cfg) : validCfg cfg ↔ cfg.validB = true := by
  unfold validCfg Cfg.validB
  simp [Bool.and_eq_true, decide_eq_true_eq, bne_iff_ne, and_assoc]

/-- 6. `negotiate_ok`. For every configuration the validator accepts, every state and every CONNECT request,
    `connect` registers a connection record `c` with
    * packet-id window `maxInflight` = min(client's Receive Maximum, configured `max_inflight`) for v5 (the configured
      value if the client sent none, or is not v5) — never above the configured value, and non-zero unless the client
      itself declared Receive Maximum 0;
    * receive quota = the configured `server_receive_maximum`, which is non-zero;
    * Maximum Packet Size / Topic Alias Maximum as declared by the client (4294967295 / 0 if absent or not v5), and an
      outbound alias manager in good state for that bound (`AliasGood`);
    and answers with a CONNACK (the first one this `connect` writes to its connection) with reason code 0 that, for v5,
    advertises exactly the configured Receive Maximum, Topic Alias Maximum and Maximum Packet Size (and the granted
    session expiry and keep alive). -/
theorem negotiate_ok (b : B) (hvalid : validCfg b.cfg) (r : ConnectReq) :
    ∃ c, (b.connect r).cli? r.conn = some c ∧ c.v = r.v ∧ c.cid = r.cid ∧
      c.maxInflight = (if r.v == 5 then (match r.rm with | some x => min x b.cfg.maxInflight | none => b.cfg.maxInflight)
                       else b.cfg.maxInflight) ∧
      c.maxInflight ≤ b.cfg.maxInflight ∧ (¬ (r.v = 5 ∧ r.rm = some 0) → c.maxInflight ≠ 0) ∧
      c.quota = b.cfg.recvMax ∧ c.quota ≠ 0 ∧
      c.cliMaxPkt = (if r.v == 5 then (match r.mp with | some x => x | none => 4294967295) else 4294967295) ∧
      c.cliAliasMax = (if r.v == 5 then (match r.ta with | some x => x | none => 0) else 0) ∧
      AliasGood c ∧
      connackOf b r = some (.connack (resumeOf (afterDisplace b r.cid) r) 0
        (if r.v == 5 then some (seOf b.cfg r, b.cfg.recvMax, b.cfg.aliasMax, b.cfg.maxPacket, min r.ka b.cfg.maxKeepAlive)
         else none)) := by
  obtain ⟨_, hrm, _, hmi, _⟩ := hvalid
  -- the record of the new connection
  have hcore : (connectCore b.cfg (afterDisplace b r.cid) r).cli? r.conn = some (newCli b.cfg r) := core_cli _ _ r
  obtain ⟨c, hc, _⟩ := (replay_run 100000 (connectCore b.cfg (afterDisplace b r.cid) r) r.conn).cli _ hcore
  have hc' : (b.connect r).cli? r.conn = some c := by rw [connect_eq]; exact hc
  obtain ⟨hcm, hcc⟩ := cli?_some hc'
  have k : KeepCli (fun _ => False) (fun x => x = r.conn) b.cfg.recvMax (newCli b.cfg r) c := by
    rcases connect_clis b r c hcm with ⟨c0, hc0, hne, k0⟩ | k
    · exact absurd (by rw [← k0.conn, hcc]) hne
    · exact k
  have hq : c.quota = b.cfg.recvMax := (k.inb (fun h => h)).1
  have hmi' : c.maxInflight = (if r.v == 5 then (match r.rm with | some x => min x b.cfg.maxInflight | none => b.cfg.maxInflight)
      else b.cfg.maxInflight) := k.maxInflight
  refine ⟨c, hc', k.v, k.cid, hmi', ?_, ?_, hq, by rw [hq]; exact hrm, k.cliMaxPkt, k.cliAliasMax,
    k.alias (aliasGood_newCli b.cfg r), ?_⟩
  · rw [hmi']
    split
    · split
      · exact Nat.min_le_right _ _
      · exact Nat.le_refl _
    · exact Nat.le_refl _
  · intro hn
    rw [hmi']
    by_cases hv : r.v = 5
    · have hv' : (r.v == 5) = true := by simpa using hv
      rw [if_pos hv']
      cases hr : r.rm with
      | none => exact hmi
      | some x =>
        have hx : x ≠ 0 := fun h0 => hn ⟨hv, by rw [hr, h0]⟩
        simp only
        omega
    · have hv' : (r.v == 5) = false := by simpa using hv
      rw [hv']
      exact hmi
  · -- the CONNACK
    obtain ⟨l1, e1, p1⟩ := afterDisplace_outs b r.cid
    obtain ⟨l2, e2, _⟩ := (replay_run 100000 (connectCore b.cfg (afterDisplace b r.cid) r) r.conn).outs
    unfold connackOf
    rw [connect_eq, e2, core_out, e1]
    simp only [List.append_assoc, List.drop_left, List.singleton_append]
    exact find_connack _ (by intro p; cases p <;> rfl) r.conn l1 l2 _ (fun o ho => (p1 o ho).2.2) ⟨rfl, rfl, rfl⟩

/-- 6'. a v5 CONNECT with Receive Maximum 0 (a protocol error by MQTT 5.0 §3.1.2.11.3 that `connect` does not refuse)
    yields a window of size 0 — and with a window of size 0 the poll loop hands out nothing at all, QoS 0 included: the
    subscriber is connected and starved. -/
theorem receive_maximum_zero_starves :
    (∀ (cfg : Cfg) (r : ConnectReq), r.v = 5 → r.rm = some 0 → (newCli cfg r).maxInflight = 0) ∧
    (∀ (b : B) (conn : String) (c : Cli), b.cli? conn = some c → c.maxInflight = 0 → ∀ fuel, b.pump conn fuel = b) := by
  refine ⟨fun cfg r hv hr => by simp [newCli, hv, hr], fun b conn c hc h0 fuel => ?_⟩
  cases fuel with
  | zero => rfl
  | succ fuel =>
    rw [pump_succ]
    simp only [hc]
    split
    · rfl
    · rw [if_pos (by rw [h0]; exact Nat.zero_le _)]

/-! ## non-vacuity -/

/-- the state of `outbound_size_full_refuted` is reachable, the subscriber is online with limit 7, and the round
    conditions of `outbound_size` hold there: the poll loop does write the message -/
example : ((runB {} exF40Steps).cli? "s").map (fun c => (c.v, c.cliMaxPkt, c.cliAliasMax)) = some (5, 7, 1) ∧
    newP (runB {} exF40Steps) ((runB {} exF40Steps).pump "s" 5) "s" =
      [.publish "t" 0 false false 0 "m" 1 [] none (some 1) 10] := by decide

/-- the bound of `outbound_size_partial` is met with equality there: 7 + 3 -/
example : pumpFits (runB {} exF40Steps) "s" 5 10 = true ∧ pumpFits (runB {} exF40Steps) "s" 5 9 = false := by decide

/-- after the first message has gone out, an oversize one (2-byte payload, `TotalBytes` 8 > 7) and another small one … -/
def exOversize : B :=
  runB ((runB {} exF40Steps).pump "s" 5)
    [.publish { conn := "p", topic := "t", qos := 0, tag := "big", plen := 2 },
     .publish { conn := "p", topic := "t", qos := 0, tag := "m2", plen := 1 }]

/-- … the oversize message is dropped whole, the small one still arrives — this time under its alias, without topic
    name, 7 − 1 + 3 bytes long — and the connection stays online -/
example : newP exOversize (exOversize.pump "s" 5) "s" = [.publish "" 0 false false 0 "m2" 1 [] none (some 1) 9] ∧
    ((exOversize.pump "s" 5).cli? "s").isSome = true := by decide

/-- the client-side view of those two packets: alias 1 is bound by the first and resolves the second -/
example : recvRun 1 [] [Pkt.aliasView (.publish "t" 0 false false 0 "m" 1 [] none (some 1) 10),
      Pkt.aliasView (.publish "" 0 false false 0 "m2" 1 [] none (some 1) 9)] = some ([(1, "t")], ["t", "t"]) := by decide

/-- a v5 subscriber with a QoS 1 message in flight closes its socket … -/
def exResume : B :=
  ((runB {} [.connect { conn := "s", cid := "sub", v := 5, clean := false, se := some 100 },
      .subscribe "s" 1 [{ name := "t", qos := 1 }] 0, .connect { conn := "p", cid := "pub", v := 4 },
      .publish { conn := "p", topic := "t", qos := 1, pid := 1, tag := "m", plen := 100 }]).pump "s" 5).closeIn "s"

/-- … F40, second half (outside `outbound_size`, which is about the poll loop): the in-flight replay of a resumed
    session is not checked against the new connection's Maximum Packet Size at all -/
example :
    newP exResume (exResume.connect { conn := "s2", cid := "sub", v := 5, clean := false, se := some 100, mp := some 20 }) "s2" =
      [.publish "t" 1 false true 1 "m" 100 [] none none 108] := by decide

/-- inbound aliases on a reachable state (`exB` of C01: a v5 publisher that has bound alias 2 to "a/b"): the hypotheses of
    `inbound_alias_verdicts` hold, and the verdicts are what the wire shows -/
example : ∃ c s, exB.cli? "p" = some c ∧ exB.sess? c.cid = some s ∧ c.v = 5 ∧ c.quota ≠ 0 ∧
    c.aliasIn.find? (fun p => p.1 == 2) = some (2, "a/b") ∧ exB.cfg.aliasMax = 10 := ⟨_, _, rfl, rfl, by decide⟩
example : newH exB (exB.publish { conn := "p", topic := "x", alias := some 11 }) "p" = [.disconnect 0x94, .closed] ∧
    newH exB (exB.publish { conn := "p", topic := "", alias := some 3 }) "p" = [.disconnect 0x94, .closed] ∧
    ((exB.publish { conn := "p", topic := "x", alias := some 10 }).cli? "p").map (·.aliasIn) = some [(10, "x"), (2, "a/b")] ∧
    ((exB.publish { conn := "p", topic := "", alias := some 2 }).cli? "p").map (·.aliasIn) = some [(2, "a/b")] := by
  decide

/-- inbound size: `max_packet_size` 20 -/
def exSize : B := runB { cfg := { maxPacket := 20 } } [.connect { conn := "p", cid := "pub", v := 5 }]
example : newH exSize (exSize.publish { conn := "p", topic := "t", size := 21 }) "p" = [.disconnect 0x95, .closed] ∧
    newH exSize (exSize.publish { conn := "p", topic := "t", size := 20 }) "p" = [] := by decide

/-- receive quota on a well-behaved run: two QoS 2 publications outstanding of Receive Maximum 2, then one released -/
def exQuotaSteps : List Step :=
  [.connect { conn := "p", cid := "pub", v := 5 },
   .publish { conn := "p", topic := "t", qos := 2, pid := 1 }, .publish { conn := "p", topic := "t", qos := 1, pid := 2 },
   .publish { conn := "p", topic := "t", qos := 2, pid := 3 }]
example :
    inUse "p" { cfg := { recvMax := 2 } } 0 exQuotaSteps = 2 ∧
    ((runB { cfg := { recvMax := 2 } } exQuotaSteps).cli? "p").map (·.quota) = some 0 ∧
    inUse "p" { cfg := { recvMax := 2 } } 0 (exQuotaSteps ++ [.pubrel "p" 1]) = 1 ∧
    ((runB { cfg := { recvMax := 2 } } (exQuotaSteps ++ [.pubrel "p" 1])).cli? "p").map (·.quota) = some 1 := by decide

/-- negotiation: the default configuration is valid; a v5 CONNECT with Receive Maximum 3, Maximum Packet Size 50,
    Topic Alias Maximum 4 -/
example : validCfg ({} : Cfg) := by unfold validCfg; decide
def exConnReq : ConnectReq := { conn := "c", cid := "id", v := 5, rm := some 3, mp := some 50, ta := some 4, ka := 60 }
example :
    (((({} : B).connect exConnReq).cli? "c").map (fun c => (c.maxInflight, c.quota, c.cliMaxPkt, c.cliAliasMax)) = some (3, 100, 50, 4)) ∧
    connackOf ({} : B) exConnReq = some (.connack false 0 (some (0, 100, 10, 268435456, 60))) := by decide

end GmqttVerif.Broker
