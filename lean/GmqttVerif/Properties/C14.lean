import GmqttVerif.Generated.Hooks
import GmqttVerif.Proofs.Hooks
import GmqttVerif.Proofs.BrokerHooks
/-
  C14 — Hook decisions are enforced; plugin wrappers compose in configured order.

  Three groups of theorems:

  A. over GENERATED facts (`Generated/Facts.lean`, re-extracted from /repo by harness/cmd/extract on every check run):
     every wrapper kind of `server.HookWrapper` is collected AND applied by `initPluginHooks`, wrapper field `XWrapper`
     belongs to hook field `X`, every fold runs from the last plugin to the first. A wrapper kind that is added to the
     struct and forgotten in `initPluginHooks` (as `OnReAuthWrapper` was, F09) makes `all_wrappers_installed` false:
     `lake build` fails and the check reports the broken obligation.
  B. over the fold (`Model/Hooks.lean`): the composed hook calls pre_1 … pre_n base post_n … post_1, each exactly once,
     and returns the base verdict.
  C. over the broker model with verdict inputs (`Model/BrokerHooks.lean`): what the hook decides is what happens.
     The `*_neutral` theorems tie that model to `Model/Broker.lean` (the broker whose hooks accept everything).
-/
namespace GmqttVerif.C14
open GmqttVerif.Generated GmqttVerif.Hooks GmqttVerif.Broker GmqttVerif.BrokerHooks GmqttVerif.Deliver

/-! ## A. generated facts -/

/-- Every wrapper kind a plugin can expose (field of `HookWrapper`) is collected from the plugins AND folded into
    `srv.hooks` by `initPluginHooks`. -/
theorem all_wrappers_installed : ∀ k ∈ hookWrapperFields, k ∈ collectedKinds ∧ k ∈ appliedKinds := by decide

/-- The folded hooks are installed BEFORE anything takes a copy of a hook value: in `(*server).init` the call of
    `initPluginHooks` precedes every place where `srv.hooks.X` is stored or passed on (the queue notifier of every session
    restored from persistence is built from such a copy), no function that runs before `init` has returned takes one, and
    plugins are loaded only afterwards. A copy taken earlier would be a hook without the plugins' wrappers for the whole
    life of the object that holds it ("every hook wrapper a plugin exposes is installed"). -/
theorem hooks_installed_before_captured :
    initHookOrderN.head? = some 0 ∧ (initHookOrderN.filter (· = 0)).length = 1
    ∧ initHookOrderN.getLast? = some 3 ∧ hookCapturesInitPhaseN = 0 := by decide

/-- Wrapper field `XWrapper` corresponds to hook field `X` of `Hooks` (both directions), and each apply block starts
    from and assigns the hook field of its own kind. -/
theorem wrapper_hook_names_match :
    (∀ k ∈ hookWrapperFields, ∃ h ∈ hooksFields, h ++ "Wrapper" = k) ∧
    (∀ h ∈ hooksFields, h ++ "Wrapper" ∈ hookWrapperFields) ∧
    appliedKinds = appliedHookFields.map (· ++ "Wrapper") ∧
    appliedBaseFields = appliedHookFields := by decide

/-- Every installed fold is the countdown loop (`composeLoop`), plugins are appended in `plugin_order` and their
    wrappers collected in that order: with `wrappers_nest`, the first plugin in `plugin_order` is outermost. -/
theorem folds_run_last_to_first :
    (∀ k ∈ appliedKinds, k ∈ appliedOutermostFirst) ∧
    pluginOrderFacts = ["plugins-appended-in-plugin_order", "wrappers-collected-by-forward-range-over-plugins"] := by decide

/-- no kind is listed twice (a duplicated block would wrap twice) -/
theorem kinds_listed_once : hookWrapperFields.Nodup ∧ collectedKinds.Nodup ∧ appliedKinds.Nodup := by decide

/-! ## B. the fold -/

/-- `wrappers_nest`: for every plugin list, the hook installed by `initPluginHooks` returns the base hook's verdict
    and its call log is `pre_1 … pre_n`, the base hook's own entries, `post_n … post_1`. -/
theorem wrappers_nest {ρ : Type} (ws : List Wrapper) (base : Hook ρ) (r : ρ) (marks : List String)
    (hb : Appends base r marks) (l : Log) :
    compose ws base l = (r, l ++ (ws.map (·.pre) ++ marks ++ (ws.map (·.post)).reverse)) := by
  rw [compose_eq_foldr]
  exact foldr_appends ws hb l

/-- each participant fires exactly once per event: if the plugins' entries are pairwise distinct and the base hook
    does not produce them, every `pre_i` and every `post_i` occurs exactly once in what one call appends. -/
theorem wrappers_fire_once {ρ : Type} (ws : List Wrapper) (base : Hook ρ) (r : ρ) (marks : List String)
    (hb : Appends base r marks)
    (hnodup : (ws.map (·.pre) ++ ws.map (·.post)).Nodup)
    (hbase : ∀ w ∈ ws, w.pre ∉ marks ∧ w.post ∉ marks) :
    ∀ w ∈ ws, ((compose ws base []).2.count w.pre = 1) ∧ ((compose ws base []).2.count w.post = 1) := by
  intro w hw
  rw [wrappers_nest ws base r marks hb []]
  have hnd := List.nodup_append.mp hnodup
  have hpre : w.pre ∈ ws.map (·.pre) := List.mem_map.mpr ⟨w, hw, rfl⟩
  have hpost : w.post ∈ ws.map (·.post) := List.mem_map.mpr ⟨w, hw, rfl⟩
  have h1 : w.pre ∉ ws.map (·.post) := fun h => hnd.2.2 _ hpre _ h rfl
  have h2 : w.post ∉ ws.map (·.pre) := fun h => hnd.2.2 _ h _ hpost rfl
  have c1 : (ws.map (·.pre)).count w.pre = 1 := by rw [hnd.1.count]; simp [hpre]
  have c2 : (ws.map (·.post)).count w.post = 1 := by rw [hnd.2.1.count]; simp [hpost]
  have z1 : (ws.map (·.post)).count w.pre = 0 := List.count_eq_zero_of_not_mem h1
  have z2 : (ws.map (·.pre)).count w.post = 0 := List.count_eq_zero_of_not_mem h2
  have z3 : marks.count w.pre = 0 := List.count_eq_zero_of_not_mem (hbase w hw).1
  have z4 : marks.count w.post = 0 := List.count_eq_zero_of_not_mem (hbase w hw).2
  simp [List.count_append, List.count_reverse, c1, c2, z1, z2, z3, z4]

/-- had the loop run forwards, the LAST plugin would be outermost (what `folds_run_last_to_first` excludes) -/
theorem forward_loop_would_reverse {ρ : Type} (ws : List Wrapper) (base : Hook ρ) :
    composeForward ws base = compose ws.reverse base := composeForward_eq ws base

/-- non-vacuity: three plugins in the order b, a, c around a base hook -/
example : (compose [recWrapper "b", recWrapper "a", recWrapper "c"] (baseHook (7 : Nat) ["*"]) ["earlier"]) =
    (7, ["earlier", ">b", ">a", ">c", "*", "<c", "<a", "<b"]) := by decide

/-! ## C. verdicts -/

/-- `connect_reject_clean`: a CONNECT the authentication hook rejects gets a failing CONNACK carrying the hook's code
    (for a v3 client every code above the v3 range becomes 0x87, as in `sendErrConnack`) and NOTHING else happens:
    sessions, connections, subscriptions, retained messages, pending wills, queues are literally unchanged. -/
theorem connect_reject_clean (code : Nat) (wv : WillVerdict) (bh : BH) (r : ConnectReq) (method : Option String) :
    let bh' := connectH (.reject code) wv bh r method
    bh'.b = bh.b ∧ bh'.pending = bh.pending ∧ bh'.authMethod = bh.authMethod ∧
    bh'.xout = bh.xout ++ [{ conn := r.conn, pkt := .connackErr r.v (errConnackCode r.v code) }, { conn := r.conn, pkt := .closed }] ∧
    (code ≠ 0 → errConnackCode r.v code ≠ 0) ∧
    (r.v = 5 → errConnackCode r.v code = code) := by
  refine ⟨rfl, rfl, rfl, by simp [connectH, refuse, BH.xemit], ?_, ?_⟩
  · intro h
    unfold errConnackCode
    split <;> simp_all
  · intro h
    simp [errConnackCode, h]

/-- an enhanced-authentication exchange that is still going on, or is refused later, has not touched the broker -/
theorem auth_exchange_clean (av : AuthVerdict) (wv : WillVerdict) (bh : BH) (conn : String) (code : Nat)
    (hav : av ≠ .accept ∨ code ≠ 24) : (authContinueH av wv bh conn code).b = bh.b := by
  unfold authContinueH
  split
  · rfl
  · split
    · rfl
    · cases av with
      | accept => simp_all
      | reject c => rfl
      | cont => rfl

theorem connect_continue_clean (wv : WillVerdict) (bh : BH) (r : ConnectReq) (am : String) :
    (connectH .cont wv bh r (some am)).b = bh.b := rfl

/-- `subscribe_verdict`, hook error: every topic is reported with the hook's code (0x80 to a v3 client) and nothing
    is installed or replayed. -/
theorem subscribe_verdict_error (code : Nat) (rej grant : String → Option Nat) (b : B) (conn : String) (c : Cli)
    (pid : Nat) (topics : List SubTopic) (idProp : Nat) (hc : b.cli? conn = some c) :
    let b' := subscribeH (some code) rej grant b conn pid topics idProp
    b'.subs = b.subs ∧ b'.sessions = b.sessions ∧ b'.retained = b.retained ∧ b'.msgs = b.msgs ∧ b'.clis = b.clis ∧
    b'.out = b.out ++ [{ conn := conn, poll := false, pkt := .suback pid (topics.map (fun _ => if c.v == 5 then code else 0x80)) }] := by
  simp [subscribeH, hc, B.emit]

/-- `subscribe_verdict`, per-topic decisions: the broker state is exactly what the un-hooked handler produces for the
    topics the hook let through at the QoS the hook granted — so nothing is installed (or replayed) for a rejected
    topic, and a down-graded subscription is installed with the granted QoS … -/
theorem subscribe_verdict_state (rej grant : String → Option Nat) (b : B) (conn : String)
    (pid : Nat) (topics : List SubTopic) (idProp : Nat) :
    let b' := subscribeH none rej grant b conn pid topics idProp
    let b0 := b.subscribe conn pid (acceptedTopics topics rej grant) idProp
    b'.subs = b0.subs ∧ b'.sessions = b0.sessions ∧ b'.retained = b0.retained ∧ b'.msgs = b0.msgs ∧ b'.clis = b0.clis ∧
    (∀ t ∈ acceptedTopics topics rej grant, (rej t.name).isNone = true ∧ ∀ q, grant t.name = some q → t.qos = q) := by
  refine ⟨?_, ?_, ?_, ?_, ?_, fun t ht => ⟨acceptedTopics_rejected topics rej grant t ht, acceptedTopics_granted topics rej grant t ht⟩⟩ <;>
  · unfold subscribeH
    cases h : b.cli? conn with
    | none => simp [B.subscribe, h]
    | some c => rfl

/-- … and the SUBACK says so: a rejected position carries the hook's code (0x80 for v3), the other positions carry,
    in order, the codes of the un-hooked handler (granted QoS or its own refusal). `cs` = those codes. -/
theorem subscribe_verdict_suback (rej : String → Option Nat) (f : Nat → Nat) (names : List String) (cs : List Nat)
    (hlen : cs.length = (names.filter (fun n => (rej n).isNone)).length) :
    (mergeCodes names rej f cs).length = names.length ∧
    (∀ (i : Nat) (n : String) (code : Nat), names[i]? = some n → rej n = some code → (mergeCodes names rej f cs)[i]? = some (f code)) ∧
    ((names.zip (mergeCodes names rej f cs)).filter (fun p => (rej p.1).isNone)).map (·.2) = cs :=
  ⟨mergeCodes_length names rej f cs hlen,
   fun i n code hi hr => mergeCodes_rejected names rej f cs hlen i n code hi hr,
   mergeCodes_accepted names rej f cs hlen⟩

/-- UNSUBSCRIBE: a hook error removes nothing; per-topic rejections remove exactly the other (possibly renamed) topics -/
theorem unsubscribe_verdict (rej : String → Option Nat) (ren : String → String) (b : B) (conn : String) (c : Cli)
    (pid : Nat) (topics : List String) (hc : b.cli? conn = some c) :
    (∀ code, (unsubscribeH (some code) rej ren b conn pid topics).subs = b.subs) ∧
    (unsubscribeH none rej ren b conn pid topics).subs =
      (b.unsubscribe conn pid ((topics.filter (fun t => (rej t).isNone)).map ren)).subs := by
  constructor
  · intro code; simp [unsubscribeH, hc, B.emit]
  · simp only [unsubscribeH, hc]
    split <;> rfl

/-- `msg_verdict`, rejected or dropped: the message is enqueued for nobody — no session queue changes and no message
    is added to the message table — and the retained store, the subscriptions and the pending wills are unchanged.
    Holds for every PUBLISH that reaches the hook (`s` is the publisher's session, as `publishPre` hands it over);
    the only things that happen are the acknowledgement and the QoS 2 / quota bookkeeping of the publisher. -/
theorem msg_verdict_refused (v : MsgVerdict) (hv : (∃ code, v = .reject code) ∨ v = .drop)
    (b : B) (c : Cli) (s : Sess) (r : PubReq) (m : Msg) (hs : b.sess? c.cid = some s) :
    Untouched b (publishPost v b c s r m) := by
  have hcid : s.cid = c.cid := sess?_cid hs
  simp only [publishPost]
  generalize (r.qos == 2 && s.unack.contains r.pid) = dupl
  have h1 : Untouched b (b.setSess (if (r.qos == 2 && !dupl) = true then { s with unack := s.unack ++ [r.pid] } else s)) := by
    split
    · exact untouched_setSess (s0 := s) (by simpa [hcid] using hs) rfl
    · exact untouched_setSess (s0 := s) (by simpa [hcid] using hs) rfl
  have hres : (if dupl = true then ((none, none) : Option Msg × Option Nat) else v.result m).1 = none ∨
      ((if dupl = true then ((none, none) : Option Msg × Option Nat) else v.result m).2).isSome = true := by
    cases dupl with
    | true => left; rfl
    | false =>
      rcases hv with ⟨code, rfl⟩ | rfl
      · right; rfl
      · left; rfl
  rw [route_refused _ c r _ hres]
  exact (h1.trans (untouched_dupQuota _ c r dupl)).trans (untouched_acknowledge _ c r _)

/-- … and the acknowledgement of a rejected PUBLISH carries the hook's code for a v5 client (success for v3, where
    the code cannot be expressed), the one of a dropped PUBLISH "no matching subscribers" -/
theorem msg_verdict_ack (b : B) (c : Cli) (s : Sess) (r : PubReq) (m : Msg) (code : Nat)
    (hnd : (r.qos == 2 && s.unack.contains r.pid) = false) :
    publishPost (.reject code) b c s r m =
      acknowledge (b.setSess (if r.qos == 2 then { s with unack := s.unack ++ [r.pid] } else s)) c r (if c.v == 5 then code else 0) ∧
    publishPost .drop b c s r m =
      acknowledge (b.setSess (if r.qos == 2 then { s with unack := s.unack ++ [r.pid] } else s)) c r (if c.v == 5 then 0x10 else 0) := by
  constructor <;>
  · simp only [publishPost, hnd, dupQuota_false]
    simp [MsgVerdict.result, route, ackCode]

/-- `msg_verdict`, rewritten: the broker behaves exactly as if the client had published the rewritten message
    (except that the acknowledgement answers the packet that was sent): subscribers and the retained store see `f m`. -/
theorem msg_verdict_rewritten (f : Msg → Msg) (b : B) (c : Cli) (s : Sess) (r : PubReq) (m : Msg) :
    publishPost (.rewrite f) b c s r m = publishPost .accept b c s r (f m) := rfl

/-- what "see" means: the retained store after an accepted (or rewritten) first delivery is the store updated with
    THAT message — cleared for an empty payload, replaced otherwise, untouched without RETAIN … -/
theorem msg_verdict_retained (b : B) (c : Cli) (s : Sess) (r : PubReq) (m : Msg)
    (hnd : (r.qos == 2 && s.unack.contains r.pid) = false) :
    (publishPost .accept b c s r m).retained = (storeRetained b m).retained := by
  have hs : ∀ (x : B) (t : Sess), (storeRetained (x.setSess t) m).retained = (storeRetained x m).retained := by
    intro x t; unfold storeRetained; split
    · split <;> rfl
    · rfl
  simp only [publishPost, hnd, dupQuota_false]
  rw [(untouched_acknowledge _ c r _).retained]
  simp only [Bool.false_eq_true, if_false, MsgVerdict.result, route]
  rw [deliverMsg_retained, hs]

/-- … and the routed message is that message: the state handed to the acknowledgement is `deliverMsg` of it -/
theorem msg_verdict_routed (b : B) (c : Cli) (s : Sess) (r : PubReq) (m : Msg)
    (hnd : (r.qos == 2 && s.unack.contains r.pid) = false) :
    ∃ b1, b1.retained = b.retained ∧ b1.subs = b.subs ∧
      publishPost .accept b c s r m =
        acknowledge ((storeRetained b1 m).deliverMsg c.cid m r.hints r.rapHint).1 c r
          (ackCode c.v none ((storeRetained b1 m).deliverMsg c.cid m r.hints r.rapHint).2) := by
  refine ⟨b.setSess (if r.qos == 2 then { s with unack := s.unack ++ [r.pid] } else s), rfl, rfl, ?_⟩
  simp only [publishPost, hnd, dupQuota_false]
  simp [MsgVerdict.result, route]

/-- `will_verdict`: a will dropped by OnWillPublish is published to nobody and changes nothing; an edited will is
    published as edited (delivery and retained store: `sendWill` of the edited message); an untouched one as stored. -/
theorem will_verdict (b : B) (cid : String) (m : Msg) (f : Msg → Msg) :
    willH .drop b cid m = b ∧
    willH (.rewrite f) b cid m = b.sendWill cid (f m) ∧
    willH .keep b cid m = b.sendWill cid m := ⟨rfl, rfl, rfl⟩

/-! ### the extended model is the broker model when every hook is neutral -/

theorem terminateSH_neutral (b : B) (cid : String) : terminateSH .keep b cid = b.terminateS cid := rfl

theorem unregisterH_neutral (b : B) (conn : String) (force : Bool) :
    unregisterH .keep b conn force = b.unregister conn force := rfl

theorem kickH_neutral (b : B) (conn : String) (code : Option Nat) : kickH .keep b conn code = b.kick conn code := rfl

theorem closeH_neutral (b : B) (conn : String) : closeH .keep b conn = b.closeIn conn := rfl

theorem sleepH_neutral (b : B) (ms : Nat) : sleepH .keep b ms = b.sleep ms := rfl

theorem subscribeH_neutral (b : B) (conn : String) (pid : Nat) (topics : List SubTopic) (idProp : Nat) :
    subscribeH none (fun _ => none) (fun _ => none) b conn pid topics idProp = b.subscribe conn pid topics idProp := by
  unfold subscribeH
  cases h : b.cli? conn with
  | none => simp [B.subscribe, h]
  | some c =>
    simp only [acceptedTopics_neutral]
    have : mergeCodes (topics.map (·.name)) (fun _ => none) (fun code => if c.v == 5 then code else 0x80) = id := by
      funext cs; exact mergeCodes_none _ _ cs
    rw [this, patchAck_id]

theorem unsubscribeH_neutral (b : B) (conn : String) (pid : Nat) (topics : List String) :
    unsubscribeH none (fun _ => none) id b conn pid topics = b.unsubscribe conn pid topics := by
  unfold unsubscribeH
  cases h : b.cli? conn with
  | none => simp [B.unsubscribe, h]
  | some c =>
    have hm : mergeCodes topics (fun _ => none) id = id := by funext cs; exact mergeCodes_none _ _ cs
    have hf : (topics.filter (fun t => ((fun _ => none : String → Option Nat) t).isNone)).map id = topics := by simp
    simp only [hf, hm, patchAck_id]
    split <;> rfl

/-- the accepting path of `publishPost` is the tail of `B.publish`, literally -/
theorem publishPost_accept (b : B) (c : Cli) (s : Sess) (r : PubReq) (m : Msg)
    (hm : m.retained = r.retain ∧ m.plen = r.plen ∧ m.topic = r.topic) :
    publishPost .accept b c s r m =
      (let dupl := r.qos == 2 && s.unack.contains r.pid
       let s := if r.qos == 2 && !dupl then { s with unack := s.unack ++ [r.pid] } else s
       let b := b.setSess s
       let b := if dupl && c.v == 5 then
              (match b.cli? r.conn with
               | some c' => b.setCli { c' with quota := min (c'.quota + 1) b.cfg.recvMax }
               | none => b)
            else b
       let b := if r.retain && !dupl then
              (if r.plen == 0 then { b with retained := b.retained.filter (·.1 != r.topic) }
               else { b with retained := (r.topic, m) :: b.retained.filter (·.1 != r.topic) })
            else b
       let (b, matched) := if !dupl then b.deliverMsg c.cid m r.hints r.rapHint else (b, false)
       let code := if c.v == 5 && !matched then 0x10 else 0
       let b := if r.qos == 1 then b.emit r.conn false (.puback r.pid code)
                else if r.qos == 2 then b.emit r.conn false (.pubrec r.pid code) else b
       if r.qos == 1 && c.v == 5 then
         match b.cli? r.conn with
         | some c' => b.setCli { c' with quota := min (c'.quota + 1) b.cfg.recvMax }
         | none => b
       else b) := by
  obtain ⟨h1, h2, h3⟩ := hm
  simp only [publishPost]
  cases hd : (r.qos == 2 && s.unack.contains r.pid) with
  | true =>
    have hq : r.qos = 2 := by
      simp only [Bool.and_eq_true, beq_iff_eq] at hd; exact hd.1
    simp [route, ackCode, acknowledge, ackEmit, ackForget, ackQuota, dupQuota, hq]
    split <;> first | (simp_all; done) | (simp_all; rfl) | rfl
  | false =>
    simp only [MsgVerdict.result, route, storeRetained, dupQuota_false, h1, h2, h3, Bool.not_false, Bool.and_true, Bool.false_and,
      Bool.false_eq_true, if_false, if_true]
    generalize hdm : (B.deliverMsg _ c.cid m r.hints r.rapHint) = dm
    obtain ⟨bd, matched⟩ := dm
    simp only [ackCode, acknowledge, ackEmit, ackForget, ackQuota]
    by_cases h5 : c.v = 5 <;> cases matched <;> by_cases hq1 : r.qos = 1 <;> by_cases hq2 : r.qos = 2 <;> first | (simp_all; done) | (simp_all; rfl) | rfl

/-- the tail of `B.publish` (from the QoS 2 bookkeeping on), copied literally -/
def brokerPublishTail (b : B) (c : Cli) (s : Sess) (r : PubReq) : B :=
  let m : Msg := { topic := r.topic, tag := r.tag, plen := r.plen, qos := r.qos, retained := r.retain, dup := r.dup,
                   expiry := match r.expiry with | some e => e | none => 0 }
  let dupl := r.qos == 2 && s.unack.contains r.pid
  let s := if r.qos == 2 && !dupl then { s with unack := s.unack ++ [r.pid] } else s
  let b := b.setSess s
  let b := if dupl && c.v == 5 then
      (match b.cli? r.conn with
       | some c' => b.setCli { c' with quota := min (c'.quota + 1) b.cfg.recvMax }
       | none => b)
    else b
  let b := if r.retain && !dupl then
      (if r.plen == 0 then { b with retained := b.retained.filter (·.1 != r.topic) }
       else { b with retained := (r.topic, m) :: b.retained.filter (·.1 != r.topic) })
    else b
  let (b, matched) := if !dupl then b.deliverMsg c.cid m r.hints r.rapHint else (b, false)
  let code := if c.v == 5 && !matched then 0x10 else 0
  let b := if r.qos == 1 then b.emit r.conn false (.puback r.pid code)
           else if r.qos == 2 then b.emit r.conn false (.pubrec r.pid code) else b
  if r.qos == 1 && c.v == 5 then
    match b.cli? r.conn with
    | some c' => b.setCli { c' with quota := min (c'.quota + 1) b.cfg.recvMax }
    | none => b
  else b

/-- `B.publish` is the shared head (`publishK`) followed by that tail -/
theorem publish_eq_head_tail (b : B) (r : PubReq) : b.publish r = publishK .keep id brokerPublishTail b r := rfl

/-- with neutral hooks, PUBLISH is `B.publish` -/
theorem publishH_neutral (b : B) (r : PubReq) : publishH .accept .keep b r = b.publish r := by
  rw [publish_eq_head_tail]
  unfold publishH
  congr 1
  funext b' c s r'
  exact publishPost_accept b' c s r' (reqMsg r') ⟨rfl, rfl, rfl⟩

/-- when nobody is displaced and no will is pending, the accepted CONNECT is `B.connect` -/
theorem preConnect_neutral (wv : WillVerdict) (b : B) (r : ConnectReq)
    (h1 : b.cliOf? r.cid = none) (h2 : b.sess? r.cid = none) : preConnect wv b r = b := by
  simp [preConnect, h1, h2]

/-! ### non-vacuity: a broker with an observer subscribed to `#` and a publisher -/

def exB : B :=
  ((({ } : B).connect { conn := "s", cid := "sx", v := 5 }).subscribe "s" 1 [{ name := "#", qos := 2 }] 0).connect
    { conn := "p", cid := "px", v := 5, will := some ({ topic := "w/1", tag := "W", plen := 1, qos := 1 }, 0) }
def exReq : PubReq := { conn := "p", topic := "t/1", qos := 1, pid := 7, retain := true, tag := "m1", plen := 2 }
def exRewrite (m : Msg) : Msg := { m with topic := "z/9", tag := "m9" }

/-- accepted: one message enqueued, retained under its topic, PUBACK 0 -/
example : (publishH .accept .keep exB exReq).msgs.map (·.tag) = ["m1"] ∧
    (publishH .accept .keep exB exReq).retained.map (·.1) = ["t/1"] ∧
    ((publishH .accept .keep exB exReq).out.getLast?.map (·.pkt)) = some (.puback 7 0) := by decide
/-- rejected: nothing enqueued, nothing retained, PUBACK carries the code -/
example : (publishH (.reject 135) .keep exB exReq).msgs = [] ∧ (publishH (.reject 135) .keep exB exReq).retained = [] ∧
    ((publishH (.reject 135) .keep exB exReq).out.getLast?.map (·.pkt)) = some (.puback 7 135) := by decide
/-- dropped: nothing enqueued, nothing retained, "no matching subscribers" -/
example : (publishH .drop .keep exB exReq).msgs = [] ∧ (publishH .drop .keep exB exReq).retained = [] ∧
    ((publishH .drop .keep exB exReq).out.getLast?.map (·.pkt)) = some (.puback 7 16) := by decide
/-- rewritten: the observer's queue and the retained store get the rewritten message -/
example : (publishH (.rewrite exRewrite) .keep exB exReq).msgs.map (fun m => (m.topic, m.tag)) = [("z/9", "m9")] ∧
    (publishH (.rewrite exRewrite) .keep exB exReq).retained.map (fun tm => (tm.1, tm.2.tag)) = [("z/9", "m9")] := by decide
/-- the will of the publisher: published as stored, as edited, or not at all -/
example : (closeH .keep exB "p").msgs.map (fun m => (m.topic, m.tag)) = [("w/1", "W")] ∧
    (closeH (.rewrite exRewrite) exB "p").msgs.map (fun m => (m.topic, m.tag)) = [("z/9", "m9")] ∧
    (closeH .drop exB "p").msgs = [] := by decide
/-- a will with RETAIN: the retained store holds the will as the hook left it — replaced payload, RETAIN cleared, dropped -/
example :
    let b := exB.connect { conn := "q", cid := "qx", v := 5, will := some ({ topic := "w/2", tag := "W2", plen := 2, qos := 1, retained := true }, 0) }
    (closeH .keep b "q").retained.map (fun tm => (tm.1, tm.2.tag)) = [("w/2", "W2")] ∧
    (closeH (.rewrite (fun m => { m with tag := "m7" })) b "q").retained.map (fun tm => (tm.1, tm.2.tag)) = [("w/2", "m7")] ∧
    (closeH (.rewrite (fun m => { m with retained := false })) b "q").retained = [] ∧
    (closeH .drop b "q").retained = [] := by decide
/-- per-topic verdicts: `t/2` rejected with 0x87, `t/3` granted QoS 0 instead of 2 -/
example :
    let rej := fun n => if n == "t/2" then some 135 else none
    let grant := fun n => if n == "t/3" then some 0 else none
    let b' := subscribeH none rej grant exB "p" 3 [{ name := "t/1", qos := 1 }, { name := "t/2", qos := 2 }, { name := "t/3", qos := 2 }] 0
    (b'.out.getLast?.map (·.pkt)) = some (.suback 3 [1, 135, 0]) ∧
    (b'.subs.filter (·.1 == "px")).map (fun cs => (cs.2.filter, cs.2.qos)) = [("t/1", 1), ("t/3", 0)] := by decide
/-- a rejected CONNECT of a v3 client: CONNACK 0x87 for a code outside the v3 range, state untouched -/
example : (connectH (.reject 140) .keep { b := exB } { conn := "q", cid := "qx", v := 4 }).xout = [{ conn := "q", pkt := .connackErr 4 135 }, { conn := "q", pkt := .closed }] ∧
    (connectH (.reject 140) .keep { b := exB } { conn := "q", cid := "qx", v := 4 }).b.sessions.length = exB.sessions.length := by decide

end GmqttVerif.C14
