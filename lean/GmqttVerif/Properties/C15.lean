import GmqttVerif.Proofs.LifecycleMore
import GmqttVerif.Proofs.LifecycleSys
import GmqttVerif.Generated.Locks
import GmqttVerif.Generated.Serve
/-
  C15 — Concurrent use is race-free, deadlock-free and Stop terminates cleanly.            (PARTIAL claim)

  What is proved: the lifecycle / termination logic of a connection's goroutines and of `Stop`, on the interleaving
  model `Model/Lifecycle.lean` whose atomic steps are the blocking operations of server/client.go and server/server.go,
  and (in `Properties/C15LockOrder.lean`) that the extracted "acquired-while-holding" relation among the mutexes is
  acyclic. What is NOT proved, and cannot be by any executable model: freedom from data races in the Go memory model and
  absence of panics in general. The `-race` runs of the thorough tier only OBSERVE that; they are support, not proof.

  The full-strength theorems hold for the REPAIRED code (`Fixes.all`, Stop tracking every connection). The code as it
  was violates them; each violation is exhibited below as a reachable state of the as-is model (`…_as_is_stuck`),
  was reproduced on the real broker (findings/c15-*.md) and has a patch (findings/c15-*.diff):
    F37  readLoop blocks for ever on `client.in <-` after readHandle has returned
    F38  a connection whose CONNECT failed / timed out is not closed by the server; Stop ignores unregistered ones
    F47  setError sends the DISCONNECT with a blocking send inside errOnce.Do: a full `client.out` deadlocks every
         goroutine of the connection — and the take-over of a stalled client
    F48  connectWithTimeOut queues AUTH(continue) / CONNACK(error) with plain sends on `client.out`: with a peer that
         does not read, the tenth AUTH round blocks for good (reachable since b5c09eb lets readLoop read AUTH packets)
    F49  a connection that ends before CONNECT makes connectWithTimeOut return ok = true: pollMessageHandler runs on a
         nil queue store (recovered panic)

  Not modelled: the keep-alive read deadline (same path as a read error), the `Client.Disconnect` API, persistence
  errors inside registerClient, the `ctx` deadline of Stop (`context.Background()` is assumed), several goroutines
  taking one connection over at the same time, WebSocket listeners (`ws.Server.Shutdown`).
-/
namespace GmqttVerif.Lifecycle

def fixed (v5 : Bool) : Cfg := { fix := Fixes.all, v5 := v5 }
def asIs (v5 : Bool) : Cfg := { fix := Fixes.asIs, v5 := v5 }

/-! ## 1. no stuck state, termination -/

/-- FULL STATEMENT (false for the code as it was, see §5): in every reachable state in which the socket is dead (the
    peer or the server has closed it), some goroutine can move until all have exited. -/
def NoStuckStatement (c : Cfg) : Prop :=
  ∀ s, Reachable c s → s.dead = true → s.exited = false → s.canMove c = true

/-- `lifecycle_no_stuck_state` — repaired code: every reachable state with a dead socket has an enabled goroutine step
    until all goroutines have exited, and the ranking function strictly decreases along EVERY goroutine step (so every
    schedule — a fortiori every weakly fair one — terminates, within `rank s` steps: `lifecycle_terminates`). -/
theorem lifecycle_no_stuck_state (v5 : Bool) :
    NoStuckStatement (fixed v5) ∧
    ∀ s a t, a.isEnv = false → step (fixed v5) s a = some t → rank t < rank s :=
  ⟨fun _ hr hd hne => progress rfl (inv_reachable hr) hd hne,
   fun s a t ha h => rank_decreases (fixed v5) s t a ha h⟩

/-- the ranking function decreases for every configuration, repaired or not: the goroutines only ever do finite work
    per input; what the code as it was lacks is progress, not well-foundedness. -/
theorem rank_decreases_always (c : Cfg) (s t : State) (a : Act) (ha : a.isEnv = false) (h : step c s a = some t) :
    rank t < rank s := rank_decreases c s t a ha h

/-- any sequence of goroutine steps from `s` has at most `rank s` steps. -/
theorem lifecycle_terminates (c : Cfg) (s t : State) (acts : List Act) (hint : ∀ a ∈ acts, a.isEnv = false)
    (h : run c s acts = some t) : acts.length ≤ rank s := by
  have := run_bound c acts s t hint h; omega

/-- `closing_closes_socket` — repaired code: once `client.close` is closed (a refused CONNECT, the connect timeout, a
    handled DISCONNECT, a protocol error, a take-over) the connection winds down even if the peer keeps its end open,
    provided the peer reads what is written to it: writeLoop closes the socket. [MQTT-3.2.2-7], F38. -/
theorem closing_closes_socket (v5 : Bool) (s : State) (hr : Reachable (fixed v5) s)
    (ho : s.once = .done) (hst : s.stalled = false) (hne : s.exited = false) : s.canMove (fixed v5) = true :=
  progress_closing rfl (reachable_inv_invc hr).1 (reachable_inv_invc hr).2 ho hst hne

/-! ## 2. `closed` is closed only after unregister ran -/

/-- `closed_after_unregister`: when `client.closed` is closed, serve() has finished, the client is no longer in
    `srv.clients`, and if it ever was connected `unregisterClient` has run — exactly once. Every configuration. -/
theorem closed_after_unregister (c : Cfg) (s : State) (hr : Reachable c s) (hc : s.closedCh = true) :
    s.s = .done ∧ s.registered = false ∧ (s.status = true → s.unregistered = true ∧ s.nUnreg = 1) := by
  have hi := inv_reachable hr
  have hs := hi.clCh.mp hc
  have hd := hi.dereg (Or.inr hs)
  refine ⟨hs, hd.1, fun hst => ⟨hd.2 hst, ?_⟩⟩
  have := hi.nUnreg
  simp [hd.2 hst] at this
  exact this

/-- … and everything serve() joins has exited by then. -/
theorem closed_after_goroutines_exit (c : Cfg) (s : State) (hr : Reachable c s) (hc : s.closedCh = true) :
    s.r = .done ∧ s.w = .done ∧ (s.p = .done ∨ s.p = .notStarted) ∧ (s.h = .done ∨ s.h = .notStarted) := by
  have hi := inv_reachable hr
  have hs := hi.clCh.mp hc
  have hj := hi.join (by simp [hs])
  exact ⟨hi.aftR (by simp [hs]), hj.1, hj.2.1, hj.2.2⟩

/-! ## 3. every channel is closed at most once, each by its one owner -/

/-- `channels_closed_once`: no reachable state has executed `close()` twice on `client.close`, `client.in`,
    `client.connected` or `client.closed` (a second close panics). Every configuration. -/
theorem channels_closed_once (c : Cfg) (s : State) (hr : Reachable c s) :
    s.nClose ≤ 1 ∧ s.nIn ≤ 1 ∧ s.nConnected ≤ 1 ∧ s.nClosed ≤ 1 := by
  have hi := inv_reachable hr
  have h1 := hi.nClose; have h2 := hi.nIn; have h3 := hi.nConn; have h4 := hi.nClosed
  refine ⟨?_, ?_, ?_, ?_⟩
  · rw [h1]; split <;> omega
  · rw [h2]; split <;> omega
  · rw [h3]; split <;> omega
  · rw [h4]; split <;> omega

/-- … and the sites: `close(client.in)` only by readLoop, `close(client.connected)` only by connectWithTimeOut,
    `close(client.closed)` only by internalClose, `close(client.close)` only inside a `setError` that found errOnce
    not yet done (and leaves it done). -/
theorem channels_closed_by_owner (c : Cfg) (s t : State) (a : Act) (hr : Reachable c s) (h : step c s a = some t) :
    (t.nIn ≠ s.nIn → a = .rCloseIn) ∧
    (t.nConnected ≠ s.nConnected → a = .cCloseConnected) ∧
    (t.nClosed ≠ s.nClosed → a = .sCloseClosed) ∧
    (t.nClose ≠ s.nClose → s.once ≠ .done ∧ t.once = .done ∧
      a ∈ [Act.rErr, .rSendDisc, .wErr, .cErr, .pErr, .hErr, .hSendDisc, .xErr, .xSendDisc]) :=
  close_sites c s t a (inv_reachable hr) h

/-! ## 4. Stop -/

def fixedSys (plugins : Nat) : SysCfg := { fix := Fixes.all, stopAll := true, plugins := plugins }
def asIsSys (plugins : Nat) : SysCfg := { fix := Fixes.asIs, stopAll := false, plugins := plugins }

/-- `stop_terminates` — repaired code, any number of connections in any state, any number of plugins: once `Stop` has
    been called, some goroutine of some connection or `Stop` itself can move until `Stop` has returned and every
    goroutine of every connection has exited; every such step decreases the system's ranking function; and when `Stop`
    has returned, every connection's `closed` channel is closed (after its unregister: `closed_after_unregister`),
    each plugin's `Unload` has run exactly once and so has `OnStop`. At no moment has any of them run twice. -/
theorem stop_terminates (n : Nat) (y : Sys) (hr : SysReachable (fixedSys n) y) :
    (y.stop ≠ .idle → ¬ (y.stop = .done ∧ ∀ c ∈ y.conns, c.st.exited = true) → y.canMove (fixedSys n) = true) ∧
    (∀ a z, a.isEnv = false → sysStep (fixedSys n) y a = some z → sysRank (fixedSys n) z < sysRank (fixedSys n) y) ∧
    (y.stop = .done → (∀ c ∈ y.conns, c.st.closedCh = true) ∧ y.unloads = List.replicate n 1 ∧ y.onStops = 1) ∧
    ((∀ k ∈ y.unloads, k ≤ 1) ∧ y.onStops ≤ 1) := by
  have hi := sysInv_reachable hr
  refine ⟨fun h1 h2 => sys_progress rfl rfl hi h1 h2, fun a z ha h => sys_rank_decreases _ y z a ha h, ?_, ?_⟩
  · intro hd
    refine ⟨fun c hc => ?_, ?_, ?_⟩
    · exact hi.waited (by simp [hd]) c hc (hi.killed rfl (by simp [hd]) c hc).1
    · have := hi.unl; simp [hd, unloadsAt, fixedSys] at this; exact this
    · have := hi.ons; simp [hd] at this; exact this
  · constructor
    · intro k hk
      have h5 := hi.unl
      have hmem : ∀ m j, k ∈ unloadsAt m j → k ≤ 1 := by
        intro m j hkk
        simp only [unloadsAt, List.mem_append, List.mem_replicate] at hkk
        rcases hkk with ⟨_, rfl⟩ | ⟨_, rfl⟩ <;> omega
      rw [h5] at hk
      split at hk <;> exact hmem _ _ hk
    · have := hi.ons; rw [this]; split <;> omega

/-! ## 5. the code as it was: reachable stuck states (each reproduced on the real broker) -/

def rep {α : Type} : Nat → List α → List α
  | 0, _ => []
  | n + 1, l => l ++ rep n l

/-- CONNECT accepted, CONNACK written, pollMessageHandler and readHandle started and parked -/
def connectTrace : List Act :=
  [.send .connOk, .rRead, .rSend, .cRecv, .cWriteConnack, .cCloseConnected, .sSpawn, .rWaitConn, .wRecv, .wWriteOk,
   .pStart, .pIdsOk]

/-- F37: DISCONNECT followed by 9 packets in one burst, then the peer closes. readHandle returns on the DISCONNECT,
    readLoop fills the 8 slots of `client.in` and blocks on the ninth send. -/
def f37Trace : List Act :=
  connectTrace ++ [.send .disc] ++ rep 9 [.send (.data true)] ++
  [.rRead, .rSend, .rWaitConn, .hRecv, .hErr] ++ rep 8 [.rRead, .rSend, .rWaitConn] ++ [.rRead] ++
  [.wClose, .wDrain, .wErr, .peerClose]

/-- `f37_as_is_stuck`: a reachable state of the code as it was, socket dead, goroutines left, nothing can move: readLoop is
    on `client.in <-` with `in` full and no receiver, serve() waits for it in `readWg.Wait()`, the client stays in
    `srv.clients` (a later CONNECT with this id waits for ever on `<-oldClient.closed`). So `NoStuckStatement` fails. -/
theorem f37_as_is_stuck :
    ∃ s, run (asIs false) init f37Trace = some s ∧ s.dead = true ∧ s.exited = false ∧ s.canMove (asIs false) = false ∧
      s.registered = true ∧ s.closedCh = false ∧ s.inq.length = 8 ∧ s.r = .send (.data true) ∧ s.s = .waitRead := by
  refine ⟨_, rfl, ?_⟩; decide

theorem no_stuck_statement_fails_as_is : ¬ NoStuckStatement (asIs false) := by
  intro h
  obtain ⟨s, hs, hd, hne, hcm, _⟩ := f37_as_is_stuck
  have hr : Reachable (asIs false) s := by
    have gen : ∀ (acts : List Act) (u t : State), Reachable (asIs false) u → run (asIs false) u acts = some t →
        Reachable (asIs false) t := by
      intro acts
      induction acts with
      | nil => intro u t hu hrun; simp [run] at hrun; subst hrun; exact hu
      | cons a as ih =>
        intro u t hu hrun
        simp only [run] at hrun
        split at hrun
        · rename_i v hv; exact ih v t (Reachable.step u v a hu hv) hrun
        · cases hrun
    exact gen _ _ _ Reachable.init hs
  have := h s hr hd hne
  simp [hcm] at this

/-- … the same schedule on the repaired code leaves a state that can move. -/
example : ∃ s, run (fixed false) init f37Trace = some s ∧ s.canMove (fixed false) = true := ⟨_, rfl, by decide⟩

/-- F38 (first half): a refused CONNECT. The CONNACK with the error code is written, `client.close` is closed,
    writeLoop exits — and nobody closes the socket. -/
def f38Trace : List Act :=
  [.send .connFail, .rRead, .rSend, .cRecv, .cSendErrConnack, .cErr, .cCloseConnected, .sSpawn, .rWaitConn,
   .wRecv, .wWriteOk, .wClose, .wDrain, .wErr]

/-- `f38_failed_connect_as_is_stuck`: the connection has been refused, the peer is reading, and the server neither
    closes the socket nor can any goroutine move: readLoop and serve() stay for as long as the peer likes
    (`closing_closes_socket` fails for the code as it was). -/
theorem f38_failed_connect_as_is_stuck :
    ∃ s, run (asIs false) init f38Trace = some s ∧ s.once = .done ∧ s.stalled = false ∧ s.srvClosed = false ∧
      s.exited = false ∧ s.canMove (asIs false) = false ∧ s.r = .read ∧ s.s = .waitRead := by
  refine ⟨_, rfl, ?_⟩; decide

/-- F38 (second half): `Stop` closes and awaits the REGISTERED connections only. A connection that has not sent
    CONNECT is left behind: Stop returns (Unload and OnStop have run) with that connection's goroutines alive on an
    open socket. -/
theorem f38_stop_as_is_leaves_connection :
    ∃ y, sysRun (asIsSys 1) (Sys.init (asIsSys 1))
        [.accept false, .stopCall, .stopListeners, .stopClients, .stopWaited, .stopUnload, .stopUnloaded, .stopOnStop] = some y ∧
      y.stop = .done ∧ y.onStops = 1 ∧
      ∃ c ∈ y.conns, c.st.exited = false ∧ c.st.dead = false ∧ c.st.closedCh = false := by
  refine ⟨_, rfl, by decide, by decide, ?_⟩
  exact ⟨_, List.mem_singleton.mpr rfl, by decide⟩

/-- … and a connection wedged by F37 makes `Stop` itself wait for ever. -/
theorem f37_stop_as_is_stuck :
    ∃ y, sysRun (asIsSys 1) (Sys.init (asIsSys 1))
        ([SysAct.accept false] ++ (f37Trace.map (SysAct.conn 0)) ++ [.stopCall, .stopListeners, .stopClients]) = some y ∧
      y.stop = .wait ∧ y.canMove (asIsSys 1) = false := by
  refine ⟨_, rfl, ?_⟩; decide

/-- F47: a v5 client stops reading; `client.out` fills with eight PUBLISHes behind the CONNACK writeLoop is stuck on;
    another connection takes the client id over: `oldClient.setError(SessionTakenOver)` enters errOnce.Do and blocks on
    `client.out <- DISCONNECT`. When the old peer finally goes away, writeLoop's and readLoop's own `setError` block on
    the Once for ever. -/
def f47Trace : List Act :=
  [.send .connOk, .rRead, .rSend, .cRecv, .cWriteConnack, .cCloseConnected, .sSpawn, .rWaitConn,
   .setStall true, .wRecv, .pStart] ++ rep 9 [.enqueue] ++ rep 8 [.pIdsOk, .pQueueMsg, .pWrite] ++ [.pIdsOk, .pQueueMsg] ++
  [.kill, .xErr, .peerClose, .wWriteFail, .rReadErr]

theorem f47_once_deadlock_as_is_stuck :
    ∃ s, run (asIs true) init f47Trace = some s ∧ s.dead = true ∧ s.exited = false ∧ s.canMove (asIs true) = false ∧
      s.once = .running ∧ s.x = .sendDisc ∧ s.w = .setErr ∧ s.r = .setErr false ∧ s.outq.length = 8 := by
  refine ⟨_, rfl, ?_⟩; decide

example : ∃ s, run (fixed true) init f47Trace = some s ∧ s.canMove (fixed true) = true := ⟨_, rfl, by decide⟩

/-- F48: enhanced authentication against a peer that has stopped reading: writeLoop is stuck writing the first
    AUTH(continue), every further round queues one more on `client.out` with a plain send
    (`client.out <- &packets.Auth{…}`, no `select` on `client.close`), the tenth blocks. When the peer goes away writeLoop
    exits, but connectWithTimeOut stays on that send — the 5 s timer is not consulted there —, `connected` is never
    closed and readLoop waits for it for ever. -/
def f48Trace : List Act :=
  [.setStall true] ++ rep 10 [.send .authCont] ++ [.rRead, .rSend, .cRecv, .cSendAuth, .wRecv] ++
  rep 8 [.rAuthStep, .rRead, .rSend, .cRecv, .cSendAuth] ++ [.rAuthStep, .rRead, .rSend, .cRecv] ++
  [.peerClose, .wWriteFail, .wErr]

theorem f48_auth_send_as_is_stuck :
    ∃ s, run (asIs true) init f48Trace = some s ∧ s.dead = true ∧ s.exited = false ∧ s.canMove (asIs true) = false ∧
      s.s = .cSendAuth ∧ s.outq.length = 8 ∧ s.w = .done ∧ s.r = .waitConn ∧ s.connectedCh = false := by
  refine ⟨_, rfl, ?_⟩; decide

example : ∃ s, run (fixed true) init f48Trace = some s ∧ s.canMove (fixed true) = true := ⟨_, rfl, by decide⟩

/-- F49: the peer goes away before CONNECT. `connectWithTimeOut` sees the closed `in` (`p == nil`), returns with
    `err == nil`, i.e. ok = true, and serve() starts pollMessageHandler on a client that was never registered. -/
theorem f49_as_is_poll_without_queue :
    ∃ s, run (asIs false) init [.peerClose, .rReadErr, .rErr, .rCloseIn, .cRecvNil, .cCloseConnected, .sSpawn] = some s ∧
      s.p = .start ∧ s.registered = false := ⟨_, rfl, by decide⟩

/-- repaired code: pollMessageHandler only ever starts on a registered client. -/
theorem workers_only_when_registered (v5 : Bool) (s : State) (hr : Reachable (fixed v5) s) (hp : s.p = .start) :
    s.registered = true :=
  (reachable_inv_invc hr).2.pReg0 rfl hp

/-! ## 5b. tie of the join structure: what `serve()` in the tree starts and joins (regenerated on every run) -/

/-- every goroutine `serve()` starts is followed by `Done()` on a WaitGroup that `serve()` waits for before the deferred
    `internalClose`, the four per-connection goroutines are among them, and every WaitGroup's `Add` total equals the
    number of goroutines that call its `Done` -/
def joinedBeforeClose (gs : List (String × String)) (adds : List (String × Nat)) (waits : List String) : Bool :=
  ["readLoop", "writeLoop", "pollMessageHandler", "readHandle"].all (fun f => gs.any (fun g => g.1 == f)) &&
  gs.all (fun g => g.2 != "" && waits.contains g.2) &&
  waits.all (fun wg => ((adds.filter (fun a => a.1 == wg)).map (·.2)).foldl (· + ·) 0 == (gs.filter (fun g => g.2 == wg)).length)

/-- `serve_joins_all_goroutines`: in the tree the facts were extracted from, readLoop, writeLoop, pollMessageHandler and
    readHandle are all joined (readWg / client.wg) before `internalClose` runs — the guards of the model's `sWaitRead` /
    `sWaitWg` steps, on which `closed_after_goroutines_exit` and `stop_terminates` rest. A goroutine started with a bare
    `go`, or an `Add` that does not match, breaks this proof. -/
theorem serve_joins_all_goroutines :
    joinedBeforeClose Generated.serveGoroutines Generated.serveAdds Generated.serveWaits = true := by decide

/-- `conn_tracked_until_closed`: `Stop` takes its snapshot from `srv.conns` and waits for the `closed` channel of every
    connection in it (the model's `stopClients` marks every connection that is not finished as awaited). That is sound only
    if a connection leaves `srv.conns` after its `closed` channel is closed — otherwise a `Stop` that starts in between misses a
    connection whose `internalClose` (OnClosed hook, unregister, will, session termination) is still running, and returns
    before it. In the tree the facts were extracted from every `delete(….conns, …)` of package server is a top-level statement
    of its function placed after `close(client.closed)`, and there is at least one. -/
theorem conn_tracked_until_closed :
    Generated.connsDeletes ≠ [] ∧ ∀ d ∈ Generated.connsDeletes, d.2 = 1 := by decide

/-- `channel_close_sites`: the owner table `channels_closed_by_owner` proves things about is the source's: each of the four
    per-connection channels has exactly one `close(…)` statement in package server — `client.close` inside the `errOnce.Do`
    literal of `setError`, `client.in` in readLoop's deferred literal, `client.connected` in connectWithTimeOut's deferred
    literal, `client.closed` as a plain statement of internalClose (re-read on every run). A second close site, or one moved
    out of its `sync.Once`, is a possible double close (panic) that no scripted lifecycle need hit. -/
theorem channel_close_sites :
    Generated.closeSites = [("client.close", "setError", 1), ("client.in", "readLoop", 2),
      ("client.connected", "connectWithTimeOut", 2), ("client.closed", "internalClose", 0)] := by decide

/-! ## 6. lock order: the part that holds for every tree (the rest is in Properties/C15LockOrder.lean) -/

/-- a path of ≥ 1 edges -/
inductive Path (edges : List (Nat × Nat)) : Nat → Nat → Prop
  | single (a b : Nat) : (a, b) ∈ edges → Path edges a b
  | cons (a b c : Nat) : (a, b) ∈ edges → Path edges b c → Path edges a c

def rankAt (r : List Nat) (i : Nat) : Nat := r.getD i 0

/-- a rank that increases along every edge excludes cycles -/
theorem no_cycle_of_rank (edges : List (Nat × Nat)) (r : List Nat)
    (h : ∀ e ∈ edges, rankAt r e.1 < rankAt r e.2) : ∀ a, ¬ Path edges a a := by
  have mono : ∀ a b, Path edges a b → rankAt r a < rankAt r b := by
    intro a b p
    induction p with
    | single a b hab => exact h (a, b) hab
    | cons a b c hab _ ih => have := h (a, b) hab; simp at this; omega
  intro a p
  have := mono a a p
  omega

def edgeOk (r : List Nat) (feedback : List (Nat × Nat)) (e : Nat × Nat) : Bool :=
  feedback.contains e || rankAt r e.1 < rankAt r e.2

/-- `lock_order_acyclic_modulo_feedback`: for the tree the facts were extracted from, the extracted rank increases
    along every "acquired-while-holding" edge except the edges the extractor lists as closing a cycle
    (`Generated.lockFeedback`; empty for the repaired tree) — so the relation without them has no cycle. -/
theorem lock_order_acyclic_modulo_feedback :
    ∀ a, ¬ Path (Generated.lockEdges.filter (fun e => !Generated.lockFeedback.contains e)) a a := by
  apply no_cycle_of_rank _ Generated.lockRank
  have h : (Generated.lockEdges.all (edgeOk Generated.lockRank Generated.lockFeedback)) = true := by decide
  intro e he
  simp only [List.mem_filter] at he
  have := List.all_eq_true.mp h e he.1
  simp only [edgeOk, Bool.or_eq_true, decide_eq_true_eq] at this
  rcases this with h1 | h1
  · exact absurd (List.contains_iff_mem.mp h1) (by simpa using he.2)
  · exact h1

end GmqttVerif.Lifecycle
