import GmqttVerif.Properties.C15
/-
  C15 — lock order, full statement. This module builds only for a tree whose extracted "acquired-while-holding"
  relation is acyclic (`Generated.lockFeedback = []`). For the tree as it was it does NOT build: the extractor finds the
  cycle  TrieDB.RWMutex -> Queue.cond.L -> statsManager.clientMu -> TrieDB.RWMutex  (findings/c15-f50-lock-order-stats.md),
  and bin/check reports that as a finding; `lock_order_acyclic_modulo_feedback` (Properties/C15.lean) is what holds then.
-/
namespace GmqttVerif.Lifecycle

/-- the extractor found no edge that closes a cycle -/
theorem lock_feedback_empty : Generated.lockFeedback = [] := by decide

/-- `lock_order_acyclic`: the extracted "acquired-while-holding" relation among the named mutexes (server.mu, configMu,
    the subscription and retained stores' RWMutexes, Queue.cond.L, the limiter's cond.L, the stats mutex, the session
    store mutex, the federation and admin plugin locks) has no cycle: no lock is ever (transitively) acquired while it
    is itself held, so no set of goroutines can wait for each other's mutexes in a circle. -/
theorem lock_order_acyclic : ∀ a, ¬ Path Generated.lockEdges a a := by
  have h := lock_order_acyclic_modulo_feedback
  have e : Generated.lockEdges.filter (fun e => !Generated.lockFeedback.contains e) = Generated.lockEdges := by
    rw [lock_feedback_empty]; simp
  rwa [e] at h

end GmqttVerif.Lifecycle
