import GmqttVerif.Model.Fed.Protocol
import GmqttVerif.Proofs.Fed.Protocol
import GmqttVerif.Model.Fed.LocalSubs
import GmqttVerif.Proofs.Fed.LocalSubs
/-
  C16 — Federation event stream is reliable: ordered, at-least-once, applied once.

  Property theorems only; the inductive invariant and its preservation are in `Proofs/Fed/Protocol.lean`,
  the queue lemmas in `Proofs/Fed/Queue.lean`.

  Setting (`Model/Fed/Protocol.lean`): the transition system of ONE sending node S and ONE receiving node R.
  S's side is the real `eventQueue` model (`Model/Fed/EventQueue.lean`, tied to the code by stream `fedqueue`) driven as
  `peer.initStream` / `stream.sendEvents` / `stream.readLoop` drive it; R's side is `sessionMgr.add`, `lruCache`,
  `eventStreamHandler` and the receive loop of `EventStream` (`Model/Fed/PeerSession.lean`, stream `fedsession`);
  the channel is two FIFO buffers.  A *schedule* is any list of environment steps
  `emit | setRetained | fetchSend | deliver ok | deliverAck | brk | reconnect opens | helloLost | peerRestart | senderRestart`
  — unbounded events, unbounded breaks, any interleaving.  The end-to-end run of the real loops is stream `fedsim`.

  Vocabulary
  * `hist`      ghost: bodies S put into the queue since its last `clear()` — "what S emitted in this epoch", in emission
                order; after a clean start it begins with the resynchronisation events (one Subscribe per local topic, one
                Message per retained message).
  * `applied`   ghost: bodies R applied since R's session was created.
  * `Aligned`   R's session carries S's current session id ("within one peer session").
  * `Quiescent` stream open, no event in flight, nothing left to send.
  * `SafeReachable` reachable by a schedule without `helloLost`; `Reachable` by any schedule.
  * `cap`       capacity of R's LRU of seen ids (100 in the code); the theorems hold for every capacity.

  FINDING (`findings/c16-lost-hello.md`): with `helloLost` — R processes a Hello that creates a new session but the
  response does not reach S — the full-strength statements are FALSE for the code as it is.  They are kept as
  `…Statement` definitions, refuted by a concrete schedule, and proved as `…_partial` for schedules without that step.
-/
namespace GmqttVerif.Fed
open Proto

variable {τ μ : Type} [DecidableEq τ]

/-- reachable from some initial local state by a schedule in which no handshake response is lost -/
def SafeReachable (cap : Nat) (st : St τ μ) : Prop :=
  ∃ (ts : List τ) (ms : List μ) (ls : List (Label τ μ)), (∀ l ∈ ls, l.isHelloLost = false) ∧ run cap ls (init ts ms) = some st

/-- reachable by any schedule -/
def Reachable (cap : Nat) (st : St τ μ) : Prop :=
  ∃ (ts : List τ) (ms : List μ) (ls : List (Label τ μ)), run cap ls (init ts ms) = some st

theorem SafeReachable.inv {cap : Nat} {st : St τ μ} (h : SafeReachable cap st) : Inv st := by
  obtain ⟨ts, ms, ls, hl, hr⟩ := h
  exact run_inv ls hl (inv_init ts ms) hr

/-! ## 1. applied log = duplicate-free, gap-free, in-order prefix of what was emitted -/

/-- FULL-STRENGTH statement: in every reachable state, within one peer session, R's applied log is `take k` of what S
    emitted.  FALSE for the code as it is (see `applied_is_prefix_exactly_once_refuted`). -/
def AppliedIsPrefixStatement (τ μ : Type) [DecidableEq τ] : Prop :=
  ∀ (cap : Nat) (st : St τ μ), Reachable cap st → Aligned st → ∃ k, st.r.applied = st.s.hist.take k

/-- In EVERY state reachable without a lost handshake response — any interleaving of emissions, fetches, deliveries,
    acks, breaks (also between an application and its ack), failed stream opens, peer restarts and sender restarts, any
    number of them — within one peer session the receiver's applied log equals `take k emitted` for some `k`:
    emission order, no duplicate, no gap. -/
theorem applied_is_prefix_exactly_once_partial (cap : Nat) (st : St τ μ) (h : SafeReachable cap st) (hal : Aligned st) :
    ∃ k, st.r.applied = st.s.hist.take k := by
  obtain ⟨ss, hss, hid⟩ := hal
  have a := h.inv.al ss hss hid
  exact ⟨st.r.applied.length, (List.prefix_iff_eq_take.mp a.pref)⟩

/-- The refutation: Subscribe 1 is sent, applied and acknowledged; R restarts; R processes S's Hello (new session,
    clean_start) but the response is lost; S retries with the same session id and is told clean_start=false,
    next_event_id=0; `setReadPosition(0)` finds nothing; Subscribe 2 (event id 1) becomes the first and only event of R's
    new session.  applied = [Subscribe 2] is not a prefix of emitted = [Subscribe 1, Subscribe 2]. -/
theorem applied_is_prefix_exactly_once_refuted : ¬ AppliedIsPrefixStatement Nat Nat := by
  intro h
  have hrun := lostHello_run
  cases hr : run 100 lostHelloSchedule (init ([] : List Nat) ([] : List Nat)) with
  | none => rw [hr] at hrun; simp at hrun
  | some st =>
    rw [hr] at hrun
    simp only [Option.map_some, Option.some.injEq, Prod.mk.injEq] at hrun
    obtain ⟨h1, h2, _, _, h5, h6, _⟩ := hrun
    have hal : Aligned st := by
      cases hs : st.r.sess with
      | none => rw [hs] at h5; simp at h5
      | some ss => rw [hs] at h5; simp at h5; exact ⟨ss, hs, by rw [h5, h6]⟩
    obtain ⟨k, hk⟩ := h 100 st ⟨[], [], lostHelloSchedule, hr⟩ hal
    rw [h1, h2] at hk
    match k with
    | 0 => simp at hk
    | 1 => simp at hk
    | k + 2 => simp at hk

/-- Outside a peer session nothing is applied: while R's session does not belong to S's current epoch (R restarted, S
    restarted, first contact) the stream is down and both buffers are empty; the next Hello is answered with
    clean_start = true, next_event_id = 0. -/
theorem unaligned_is_silent (cap : Nat) (st : St τ μ) (h : SafeReachable cap st) (hna : ¬ Aligned st) :
    st.c.isOpen = false ∧ st.c.up = [] ∧ st.c.down = [] ∧ (helloR cap st.r st.s.sid).2.1 = true := by
  have hi := h.inv
  have hc : st.c.isOpen = false := by
    cases ho : st.c.isOpen with
    | false => rfl
    | true => exact absurd (hi.openal ho).1 hna
  exact ⟨hc, (hi.closedc hc).1, (hi.closedc hc).2, (hello_clean_of_unaligned hna).1⟩

/-- At-least-once: while the session lasts, an emitted event that R has not applied yet is still in S's queue under its
    id (acknowledgements never remove it, breaks never lose it), so the next (re)connection sends it again. -/
theorem no_event_lost_while_session_lasts (cap : Nat) (st : St τ μ) (h : SafeReachable cap st) (hal : Aligned st)
    (i : Nat) (b : PBody τ μ) (hi1 : st.r.applied.length ≤ i) (hi2 : st.s.hist[i]? = some b) :
    ({ id := i, body := b } : Event (PBody τ μ)) ∈ st.s.q.items :=
  inv_unapplied_queued h.inv hal i b hi1 hi2

/-- The duplicate filter only ever needs the most recent id: in every safely reachable state R has applied either exactly
    `nextEventID` events or one more, and in the second case that id is still in the LRU — for EVERY LRU capacity `cap`
    (the model never evicts the id it has just inserted; the code hard-codes 100). Ids 100 or more behind are never re-sent. -/
theorem lru_only_last_id_needed (cap : Nat) (st : St τ μ) (h : SafeReachable cap st) (ss : Sess)
    (hs : st.r.sess = some ss) (hid : ss.id = st.s.sid) :
    st.r.applied.length = ss.next ∨ (st.r.applied.length = ss.next + 1 ∧ ss.next ∈ ss.seen.items) :=
  (h.inv.al ss hs hid).m

/-! ## 2. quiescence -/

/-- FULL-STRENGTH statement, false with a lost handshake response (same schedule: it ends quiescent with
    R's view = {2} and S's local set = {1, 2}). -/
def QuiescentEqualStatement (τ μ : Type) [DecidableEq τ] : Prop :=
  ∀ (cap : Nat) (st : St τ μ), Reachable cap st → Quiescent st →
    st.r.applied = st.s.hist ∧ ∀ t, t ∈ st.r.subs ↔ t ∈ st.s.topics

/-- If the buffers are drained and no break is pending (stream open, nothing in flight, nothing left to send) then
    k = number emitted — R has applied every event of the session exactly once, in order — and R's view of S's subscriptions
    equals S's local topic set. -/
theorem quiescent_equal_partial (cap : Nat) (st : St τ μ) (h : SafeReachable cap st) (hq : Quiescent st) :
    Aligned st ∧ st.r.applied = st.s.hist ∧ ∀ t, t ∈ st.r.subs ↔ t ∈ st.s.topics :=
  inv_quiescent h.inv hq

theorem quiescent_equal_refuted : ¬ QuiescentEqualStatement Nat Nat := by
  intro h
  have hrun := lostHello_run
  cases hr : run 100 lostHelloSchedule (init ([] : List Nat) ([] : List Nat)) with
  | none => rw [hr] at hrun; simp at hrun
  | some st =>
    rw [hr] at hrun
    simp only [Option.map_some, Option.some.injEq, Prod.mk.injEq] at hrun
    obtain ⟨h1, h2, _, _, _, _, h7, h8, h9⟩ := hrun
    have hq : Quiescent st := by
      refine ⟨h9, List.eq_nil_of_length_eq_zero h7, List.eq_nil_of_length_eq_zero h8, ?_⟩
      -- the dangling flag is part of the state; compute it
      have : (run 100 lostHelloSchedule (init ([] : List Nat) ([] : List Nat))).map (fun st => st.s.q.dangling) = some none := rfl
      rw [hr] at this
      simpa using this
    have := (h 100 st ⟨[], [], lostHelloSchedule, hr⟩ hq).1
    rw [h1, h2] at this
    simp at this

/-- Liveness half of "after the stream has been stable": from every safely reachable state, a connection on which
    nothing breaks any more (`reconnect true` if needed, then only `fetchSend`, `deliver true`, `deliverAck`) reaches a
    quiescent state in finitely many steps, without S's local set changing on the way. -/
theorem stable_stream_reaches_quiescence (cap : Nat) (st : St τ μ) (h : SafeReachable cap st) :
    ∃ (ls : List (Label τ μ)) (st' : St τ μ), (∀ l ∈ ls, l.isStable = true) ∧ run cap ls st = some st' ∧ Quiescent st' ∧
      st'.s.topics = st.s.topics := by
  obtain ⟨ls, st', h1, h2, h3, _, h5, _⟩ := inv_reaches_quiescence (cap := cap) h.inv
  exact ⟨ls, st', h1, h2, h3, h5⟩

/-! ## 3. resynchronisation after session loss -/

/-- When the peer has lost the session (`peerRestart`: R restarted or declared S failed) or S has (`senderRestart`:
    S restarted or re-created the peer after fail+join, possibly with a different local set `ts`), the sessions are no longer
    aligned, the next handshake is a clean start, and a stable stream from there ends in a state where R has applied exactly
    the resynchronisation + later events, once each in order, and R's view equals S's local set. -/
theorem resync_restores_partial (cap : Nat) (st st1 : St τ μ) (h : SafeReachable cap st) (l : Label τ μ)
    (hl : l = .peerRestart ∨ ∃ ts ms, l = .senderRestart ts ms) (hs : step cap st l = some st1) :
    ¬ Aligned st1 ∧ (helloR cap st1.r st1.s.sid).2.1 = true ∧
    ∃ (ls : List (Label τ μ)) (st2 : St τ μ), (∀ l ∈ ls, l.isStable = true) ∧ run cap ls st1 = some st2 ∧ Quiescent st2 ∧
      Aligned st2 ∧ st2.r.applied = st2.s.hist ∧ (∀ t, t ∈ st2.r.subs ↔ t ∈ st1.s.topics) := by
  have hi := h.inv
  have hna := (unaligned_after_restart hi l hl hs).1
  have hl' : l.isHelloLost = false := by
    rcases hl with h | ⟨_, _, h⟩ <;> subst h <;> rfl
  have hi1 := step_inv l hl' hi hs
  obtain ⟨ls, st2, h1, h2, h3, h4, h5, _⟩ := inv_reaches_quiescence (cap := cap) hi1
  have hq := inv_quiescent h4 h3
  exact ⟨hna, (hello_clean_of_unaligned hna).1, ls, st2, h1, h2, h3, hq.1, hq.2.1, fun t => by rw [← h5]; exact hq.2.2 t⟩

omit [DecidableEq τ] in
/-- what a clean start enqueues: exactly one Subscribe per local topic and one Message per retained message, ids from 0 -/
theorem clean_start_resyncs (s : Sender τ μ) :
    (helloS s true 0).hist = s.topics.map PBody.sub ++ s.retained.map PBody.msg ∧
    (helloS s true 0).q.items = tagged 0 (helloS s true 0).hist := by
  obtain ⟨h1, _, h3, h4, _⟩ := helloS_clean s
  refine ⟨h1, ?_⟩
  simp [EQ.items, h3, h4]

/-! ## 4. `localSubStore`: exact reference counts, events exactly on the 0→1 and 1→0 edges

  `Model/Fed/LocalSubs.lean` mirrors `localSubStore` and the three hooks; stream `localsubs` ties it to the code through the real
  hook wrappers.  `LS.holders ix t` = number of clients whose topic set contains `t`.  In the protocol model above the sender's local
  set changes exactly with the emitted Subscribe/Unsubscribe events; the theorems here are what justifies that.
  (They are about one hook call at a time; two concurrent calls can queue their events in the wrong order in the code:
  `findings/c16-hook-order-race.md`.) -/

/-- After any history of subscribe / unsubscribe / session-terminated calls, starting from the empty store or from `init` on any
    broker subscription store, `topics[t]` equals the number of local clients subscribed to `t` — for every topic (0 = absent). -/
theorem localSubs_refcount (pre : List (String × String)) (ops : List LS.Op) (t : String) :
    (LS.run (LS.init pre) ops).count t = LS.holders (LS.run (LS.init pre) ops).index t :=
  (LS.wf_run (LS.wf_init pre) ops).cnt t

/-- One hook call in a reachable store: a Subscribe event is emitted exactly when the number of holders of the topic goes 0→1,
    an Unsubscribe event exactly when it goes 1→0 (for `OnSessionTerminated`: one per topic the client was the last holder of,
    none twice), and nothing otherwise. -/
theorem localSubs_events_exactly_on_edges (pre : List (String × String)) (ops : List LS.Op)
    (qs : List (String × EQ Body)) (c share filter topic : String) :
    let l := LS.run (LS.init pre) ops
    let h : HookSt := { ls := l, queues := qs }
    -- OnSubscribed
    ((h.onSubscribed c share filter).2 =
        if LS.holders l.index (fullName share filter) = 0 then [Body.sub share filter] else []) ∧
    (LS.holders (h.onSubscribed c share filter).1.ls.index (fullName share filter) =
        LS.holders l.index (fullName share filter) + LS.ind (fullName share filter ∉ l.clientTopics c)) ∧
    -- OnUnsubscribed
    ((h.onUnsubscribed c topic).2 =
        if topic ∈ l.clientTopics c ∧ LS.holders l.index topic = 1 then [Body.unsub topic] else []) ∧
    (LS.holders l.index topic =
        LS.holders (h.onUnsubscribed c topic).1.ls.index topic + LS.ind (topic ∈ l.clientTopics c)) ∧
    -- OnSessionTerminated
    ((∀ t, Body.unsub t ∈ (h.onSessionTerminated c).2 ↔ (t ∈ l.clientTopics c ∧ LS.holders l.index t = 1)) ∧
     (h.onSessionTerminated c).2.Nodup ∧ (∀ b ∈ (h.onSessionTerminated c).2, ∃ t, b = Body.unsub t)) := by
  intro l h
  have hwf : LS.WF l := LS.wf_run (LS.wf_init pre) ops
  have hs := LS.subscribe_spec hwf c (fullName share filter)
  have hu := LS.unsubscribe_spec hwf c topic
  have ha := LS.unsubscribeAll_spec hwf c
  refine ⟨?_, ?_, ?_, ?_, ?_, ?_, ?_⟩
  · simp only [HookSt.onSubscribed, h]
    by_cases hz : LS.holders l.index (fullName share filter) = 0
    · have : (l.subscribe c (fullName share filter)).2 = true := hs.2.2.mpr hz
      simp [this, hz]
    · have : (l.subscribe c (fullName share filter)).2 = false := by
        cases hb : (l.subscribe c (fullName share filter)).2 with
        | false => rfl
        | true => exact absurd (hs.2.2.mp hb) hz
      simp [this, hz]
  · have := hs.2.1 (fullName share filter)
    simp only [HookSt.onSubscribed, h]
    split <;> simpa using this
  · simp only [HookSt.onUnsubscribed, h]
    by_cases hz : topic ∈ l.clientTopics c ∧ LS.holders l.index topic = 1
    · have : (l.unsubscribe c topic).2 = true := hu.2.2.mpr hz
      simp [this, hz]
    · have : (l.unsubscribe c topic).2 = false := by
        cases hb : (l.unsubscribe c topic).2 with
        | false => rfl
        | true => exact absurd (hu.2.2.mp hb) hz
      simp [this, hz]
  · have := hu.2.1 topic
    simp only [HookSt.onUnsubscribed, h]
    split <;> simpa using this
  · intro t
    simp only [HookSt.onSessionTerminated, h, List.mem_map]
    constructor
    · rintro ⟨x, hx, he⟩
      cases he
      exact (ha.2.2.1 t).mp hx
    · intro hx
      exact ⟨t, (ha.2.2.1 t).mpr hx, rfl⟩
  · simp only [HookSt.onSessionTerminated, h]
    exact GmqttVerif.nodup_map_of_inj_on Body.unsub _ (fun a _ b _ e => by cases e; rfl) ha.2.2.2.1
  · intro b hb
    simp only [HookSt.onSessionTerminated, h, List.mem_map] at hb
    obtain ⟨t, _, rfl⟩ := hb
    exact ⟨t, rfl⟩

/-- every emitted event is appended to the queue of every peer, once -/
theorem hook_event_reaches_every_peer (qs : List (String × EQ Body)) (b : Body) :
    (HookSt.addAll qs b).map (fun p => (p.1, p.2.items.map (·.body))) =
      qs.map (fun p => (p.1, p.2.items.map (·.body) ++ [b])) := by
  simp only [HookSt.addAll, List.map_map]
  apply List.map_congr_left
  intro p _
  simp only [Function.comp]
  congr 1
  unfold EQ.add
  cases p.2.dangling <;> simp [EQ.items]

/-! ## non-vacuity -/

/-- a run with a break between application and ack, a re-send that is recognised as duplicate, ending quiescent -/
example :
    (run 100 ([.reconnect true, .fetchSend, .deliver false, .reconnect true, .emit (.unsub 7), .fetchSend, .deliver true,
               .deliver true, .deliver true, .deliverAck] : List (Label Nat Nat)) (init [7, 8] [])).map
      (fun st => (st.r.applied, st.r.subs, st.s.topics, st.r.sess.map (·.next), st.s.q.items.map (·.id), st.c.up.length)) =
    some ([.sub 7, .sub 8, .unsub 7], [8], [8], some 3, [1, 2], 0) := rfl

end GmqttVerif.Fed
