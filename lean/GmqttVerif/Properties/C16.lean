import GmqttVerif.Model.Fed.Protocol
import GmqttVerif.Proofs.Fed.Protocol
import GmqttVerif.Model.Fed.LocalSubs
import GmqttVerif.Proofs.Fed.LocalSubs
/-
  C16 — Federation event stream is reliable: ordered, at-least-once, applied once.

  Property theorems only; the inductive invariant and its preservation are in `Proofs/Fed/Protocol.lean`,
  the queue lemmas in `Proofs/Fed/Queue.lean`.

  Setting (`Model/Fed/Protocol.lean`): the transition system of ONE sending node S and ONE receiving node R.
  S's side is the real `eventQueue` model (`Model/Fed/EventQueue.lean`, tied to the code by stream `fedqueue`) driven as
  `peer.initStream` / `stream.sendEvents` / `stream.readLoop` drive it; R's side is `sessionMgr.add`, `lruCache`,
  `eventStreamHandler` and the receive loop of `EventStream` (`Model/Fed/PeerSession.lean`, stream `fedsession`);
  the channel is two FIFO buffers.  A *schedule* is any list of environment steps
  `emit | setRetained | fetchSend | deliver ok | deliverAck | brk | reconnect opens mid | helloLost | helloFail | peerRestart | senderRestart`
  — unbounded events, unbounded breaks (also during the handshake: `helloLost` = R processed the Hello, the answer is lost;
  `helloFail` = the Hello never arrived; `reconnect false` = the stream cannot be opened after the handshake; `mid` = events that concurrently running hooks queue
  inside a clean start, between `queue.clear()` and the locked snapshot of the local topics), any interleaving.
  The end-to-end run of the real loops is stream `fedsim`, whose oracle executes this very transition system.

  The theorems are about the protocol AS IT IS SINCE 086aedd (`fixed = true`: `peer.synced`, `peer.ackFloor`).  For the code
  before that commit (`fixed = false`) the same statements are false: `…_as_is_refuted` (findings/c16-lost-hello.md).

  Vocabulary
  * `hist`      ghost: bodies S put into the queue since its last `clear()` — "what S emitted in this epoch", in emission
                order; after a clean start it begins with the resynchronisation events (one Subscribe per local topic, one
                Message per retained message).
  * `applied`   ghost: bodies R applied since R's session was created.
  * `Aligned`   R's session carries S's current session id ("within one peer session").
  * `InSession` Aligned and R's `nextEventID` is not behind what S has seen acknowledged — i.e. R still holds the session S's
                queue belongs to.  (Aligned without InSession occurs only between a Hello that re-created R's session without S
                seeing the answer and S's next successful Hello, which then starts clean.)
  * `Quiescent` stream open, no event in flight, nothing left to send.
  * `Reachable fixed cap st`  reachable from an initial state by ANY schedule.
  * `cap`       capacity of R's LRU of seen ids (100 in the code); the theorems hold for every capacity.
-/
namespace GmqttVerif.Fed
open Proto

variable {τ μ : Type} [DecidableEq τ]

/-- reachable by any schedule from some initial local state -/
def Reachable (fixed : Bool) (cap : Nat) (st : St τ μ) : Prop :=
  ∃ (ts : List τ) (ms : List μ) (ls : List (Label τ μ)), run fixed cap ls (init ts ms) = some st

theorem Reachable.inv {cap : Nat} {st : St τ μ} (h : Reachable true cap st) : Inv st := by
  obtain ⟨ts, ms, ls, hr⟩ := h
  exact run_inv ls (inv_init ts ms) hr

/-! ## 1. applied log = duplicate-free, gap-free, in-order prefix of what was emitted -/

/-- the statement, for either variant of the code -/
def AppliedIsPrefixStatement (fixed : Bool) (τ μ : Type) [DecidableEq τ] : Prop :=
  ∀ (cap : Nat) (st : St τ μ), Reachable fixed cap st → Aligned st → ∃ k, st.r.applied = st.s.hist.take k

/-- In EVERY reachable state of the protocol transition system — any interleaving of emissions, fetches, deliveries, acks,
    breaks (between an application and its ack, during the handshake with the answer lost or the request lost, between handshake
    and stream), peer restarts and sender restarts, any number of them — within one peer session the receiver's applied log
    equals `take k emitted` for some `k`: emission order, no duplicate, no gap. -/
theorem applied_is_prefix_exactly_once : AppliedIsPrefixStatement true τ μ := by
  intro cap st h hal
  obtain ⟨ss, hss, hid⟩ := hal
  have hal := h.inv.al ss hss hid
  by_cases hf : st.s.ackFloor ≤ ss.next
  · exact ⟨st.r.applied.length, List.prefix_iff_eq_take.mp (hal.1 hf).pref⟩
  · exact ⟨0, by rw [(hal.2 (by omega)).app0]; rfl⟩

/-- The code before 086aedd: Subscribe 1 is sent, applied and acknowledged; R restarts; R processes S's Hello (new session,
    clean_start) but the answer is lost; S retries with the same session id and is told clean_start=false, next_event_id=0;
    `setReadPosition(0)` finds nothing; Subscribe 2 (event id 1) becomes the first and only event of R's new session.
    applied = [Subscribe 2] is not a prefix of emitted = [Subscribe 1, Subscribe 2]. -/
theorem applied_is_prefix_exactly_once_as_is_refuted : ¬ AppliedIsPrefixStatement false Nat Nat := by
  intro h
  have hrun := lostHello_run_as_is
  cases hr : run false 100 lostHelloSchedule (init ([] : List Nat) ([] : List Nat)) with
  | none => rw [hr] at hrun; simp at hrun
  | some st =>
    rw [hr] at hrun
    simp only [Option.map_some, Option.some.injEq, summary, Prod.mk.injEq] at hrun
    obtain ⟨h1, h2, _, _, h5, h6, _⟩ := hrun
    have hal : Aligned st := by
      cases hs : st.r.sess with
      | none => rw [hs] at h5; simp at h5
      | some ss => rw [hs] at h5; simp at h5; exact ⟨ss, hs, by rw [h5, h6]⟩
    obtain ⟨k, hk⟩ := h 100 st ⟨[], [], lostHelloSchedule, hr⟩ hal
    rw [h1, h2] at hk
    match k with
    | 0 => simp at hk
    | 1 => simp at hk
    | k + 2 => simp at hk

/-- Outside a peer session nothing is applied: while R's session does not carry S's id (R restarted, S restarted, first contact)
    the stream is down and both buffers are empty; the next Hello is answered with clean_start = true, next_event_id = 0. -/
theorem unaligned_is_silent (cap : Nat) (st : St τ μ) (h : Reachable true cap st) (hna : ¬ Aligned st) :
    st.c.isOpen = false ∧ st.c.up = [] ∧ st.c.down = [] ∧ (helloR cap st.r st.s.sid).2.1 = true := by
  have hi := h.inv
  have hc : st.c.isOpen = false := by
    cases ho : st.c.isOpen with
    | false => rfl
    | true =>
      obtain ⟨_, ss, h1, h2, _⟩ := hi.openal ho
      exact absurd ⟨ss, h1, h2⟩ hna
  exact ⟨hc, (hi.closedc hc).1, (hi.closedc hc).2, (hello_clean_of_unaligned hna).1⟩

/-- R's session re-created behind S's back (Aligned but not InSession): R has applied nothing, holds no subscription of S, the
    stream is down, and S's next successful handshake is a clean start although R answers clean_start=false. -/
theorem stale_session_is_empty_and_resynced (cap : Nat) (st : St τ μ) (h : Reachable true cap st) (ss : Sess)
    (hs : st.r.sess = some ss) (hid : ss.id = st.s.sid) (hlt : ss.next < st.s.ackFloor) :
    st.r.applied = [] ∧ st.r.subs = [] ∧ st.c.isOpen = false ∧
    cleanDecision true st.s (helloR cap st.r st.s.sid).2.1 (helloR cap st.r st.s.sid).2.2 = true := by
  have stl := (h.inv.al ss hs hid).2 hlt
  refine ⟨stl.app0, stl.subs0, stl.closed, ?_⟩
  rcases helloR_cases cap st.r st.s.sid with ⟨ss', hss', _, hr⟩ | ⟨_, hr⟩
  · have e := sess_unique hs hss'
    subst e
    rw [hr]; simp [cleanDecision]; omega
  · rw [hr]; simp [cleanDecision]

/-- At-least-once: while the session lasts, an emitted event that R has not applied yet is still in S's queue under its
    id (acknowledgements never remove it, breaks never lose it), so the next (re)connection sends it again. -/
theorem no_event_lost_while_session_lasts (cap : Nat) (st : St τ μ) (h : Reachable true cap st) (hal : InSession st)
    (i : Nat) (b : PBody τ μ) (hi1 : st.r.applied.length ≤ i) (hi2 : st.s.hist[i]? = some b) :
    ({ id := i, body := b } : Event (PBody τ μ)) ∈ st.s.q.items :=
  inv_unapplied_queued h.inv hal i b hi1 hi2

/-- The duplicate filter only ever needs the most recent id: while the session lasts R has applied either exactly
    `nextEventID` events or one more, and in the second case that id is still in the LRU — for EVERY LRU capacity `cap`
    (the model never evicts the id it has just inserted; the code hard-codes 100). Ids 100 or more behind are never re-sent. -/
theorem lru_only_last_id_needed (cap : Nat) (st : St τ μ) (h : Reachable true cap st) (ss : Sess)
    (hs : st.r.sess = some ss) (hid : ss.id = st.s.sid) (hfl : st.s.ackFloor ≤ ss.next) :
    st.r.applied.length = ss.next ∨ (st.r.applied.length = ss.next + 1 ∧ ss.next ∈ ss.seen.items) :=
  ((h.inv.al ss hs hid).1 hfl).m

/-! ## 2. quiescence -/

def QuiescentEqualStatement (fixed : Bool) (τ μ : Type) [DecidableEq τ] : Prop :=
  ∀ (cap : Nat) (st : St τ μ), Reachable fixed cap st → Quiescent st →
    st.r.applied = st.s.hist ∧ ∀ t, t ∈ st.r.subs ↔ t ∈ st.s.topics

/-- In every reachable state: if the buffers are drained and no break is pending (stream open, nothing in flight, nothing left
    to send) then k = number emitted — R has applied every event of the session exactly once, in order — and R's view of S's
    subscriptions equals S's local topic set. -/
theorem quiescent_equal : QuiescentEqualStatement true τ μ := by
  intro cap st h hq
  exact (inv_quiescent h.inv hq).2

/-- The code before 086aedd: the schedule above ends quiescent with R's view = {2} and S's local set = {1, 2}. -/
theorem quiescent_equal_as_is_refuted : ¬ QuiescentEqualStatement false Nat Nat := by
  intro h
  have hrun := lostHello_run_as_is
  cases hr : run false 100 lostHelloSchedule (init ([] : List Nat) ([] : List Nat)) with
  | none => rw [hr] at hrun; simp at hrun
  | some st =>
    rw [hr] at hrun
    simp only [Option.map_some, Option.some.injEq, summary, Prod.mk.injEq] at hrun
    obtain ⟨h1, h2, _, _, _, _, h7, h8, h9, h10⟩ := hrun
    have hq : Quiescent st :=
      ⟨h9, List.eq_nil_of_length_eq_zero h7, List.eq_nil_of_length_eq_zero h8, h10⟩
    have := (h 100 st ⟨[], [], lostHelloSchedule, hr⟩ hq).1
    rw [h1, h2] at this
    simp at this

/-- …and with the fix the same schedule (plus the delivery of the second event) ends with everything applied. -/
theorem lost_hello_schedule_fixed :
    (run true 100 (lostHelloSchedule ++ [.deliver true]) (init ([] : List Nat) ([] : List Nat))).map summary =
      some ([.sub 1, .sub 2], [.sub 1, .sub 2], [1, 2], [1, 2], some 0, 0, 0, 0, true, none) :=
  lostHello_run_fixed

/-- Liveness half of "after the stream has been stable": from every reachable state, a connection on which nothing breaks any
    more (`reconnect true` if needed, then only `fetchSend`, `deliver true`, `deliverAck`) reaches a quiescent state in
    finitely many steps, without S's local set changing on the way. -/
theorem stable_stream_reaches_quiescence (cap : Nat) (st : St τ μ) (h : Reachable true cap st) :
    ∃ (ls : List (Label τ μ)) (st' : St τ μ), (∀ l ∈ ls, l.isStable = true) ∧ run true cap ls st = some st' ∧ Quiescent st' ∧
      st'.r.applied = st'.s.hist ∧ (∀ t, t ∈ st'.r.subs ↔ t ∈ st.s.topics) := by
  obtain ⟨ls, st', h1, h2, h3, h4, h5, _⟩ := inv_reaches_quiescence (cap := cap) h.inv
  have hq := inv_quiescent h4 h3
  exact ⟨ls, st', h1, h2, h3, hq.2.1, fun t => by rw [← h5]; exact hq.2.2 t⟩

/-! ## 3. resynchronisation after session loss -/

/-- When the peer has lost the session (`peerRestart`: R restarted or declared S failed) or S has (`senderRestart`:
    S restarted or re-created the peer after fail+join, possibly with a different local set `ts`) — from ANY reachable state,
    whatever handshakes were lost before — the sessions are no longer aligned, the next handshake is a clean start, and a stable
    stream from there ends in a state where R has applied exactly the resynchronisation + later events, once each in order,
    and R's view equals S's local set. -/
theorem resync_restores (cap : Nat) (st st1 : St τ μ) (h : Reachable true cap st) (l : Label τ μ)
    (hl : l = .peerRestart ∨ ∃ ts ms, l = .senderRestart ts ms) (hs : step true cap st l = some st1) :
    ¬ Aligned st1 ∧ (helloR cap st1.r st1.s.sid).2.1 = true ∧
    ∃ (ls : List (Label τ μ)) (st2 : St τ μ), (∀ l ∈ ls, l.isStable = true) ∧ run true cap ls st1 = some st2 ∧ Quiescent st2 ∧
      InSession st2 ∧ st2.r.applied = st2.s.hist ∧ (∀ t, t ∈ st2.r.subs ↔ t ∈ st1.s.topics) := by
  have hi := h.inv
  have hna := (unaligned_after_restart hi l hl hs).1
  have hi1 := step_inv l hi hs
  obtain ⟨ls, st2, h1, h2, h3, h4, h5, _⟩ := inv_reaches_quiescence (cap := cap) hi1
  have hq := inv_quiescent h4 h3
  exact ⟨hna, (hello_clean_of_unaligned hna).1, ls, st2, h1, h2, h3, hq.1, hq.2.1, fun t => by rw [← h5]; exact hq.2.2 t⟩

/-- what a clean start leaves in the queue: the events hooks queued after `clear()` (none is lost), then exactly one Subscribe per
    local topic — of the topic set INCLUDING those hooks' effects — and one Message per retained message; ids from 0.
    A subscribe/unsubscribe racing with the resynchronisation is therefore either in the snapshot or queued, never dropped. -/
theorem clean_start_resyncs (s : Sender τ μ) (mid : List (PBody τ μ)) :
    (helloS s true 0 mid).topics = mid.foldl applyView s.topics ∧
    (helloS s true 0 mid).hist = mid ++ ((helloS s true 0 mid).topics.map PBody.sub ++ s.retained.map PBody.msg) ∧
    (helloS s true 0 mid).q.items = tagged 0 (helloS s true 0 mid).hist ∧
    (∀ t, t ∈ view (helloS s true 0 mid).hist ↔ t ∈ (helloS s true 0 mid).topics) := by
  obtain ⟨h1, _, h3, h4, _, h6, _⟩ := helloS_clean s mid
  refine ⟨h6, by rw [h1, h6]; rfl, by simp [EQ.items, h3, h4], ?_⟩
  intro t
  rw [h1, h6]
  exact view_mid_syncBodies _ _ _ t

/-! ## 4. `localSubStore`: exact reference counts, events exactly on the 0→1 and 1→0 edges

  `Model/Fed/LocalSubs.lean` mirrors `localSubStore` and the three hooks; stream `localsubs` ties it to the code through the real
  hook wrappers.  `LS.holders ix t` = number of clients whose topic set contains `t`.  In the protocol model above the sender's local
  set changes exactly with the emitted Subscribe/Unsubscribe events; the theorems here are what justifies that.
  (They are about one hook call at a time; two concurrent calls can queue their events in the wrong order in the code:
  `findings/c16-hook-order-race.md`.) -/

/-- After any history of subscribe / unsubscribe / session-terminated calls, starting from the empty store or from `init` on any
    broker subscription store, `topics[t]` equals the number of local clients subscribed to `t` — for every topic (0 = absent). -/
theorem localSubs_refcount (pre : List (String × String)) (ops : List LS.Op) (t : String) :
    (LS.run (LS.init pre) ops).count t = LS.holders (LS.run (LS.init pre) ops).index t :=
  (LS.wf_run (LS.wf_init pre) ops).cnt t

/-- One hook call in a reachable store: a Subscribe event is emitted exactly when the number of holders of the topic goes 0→1,
    an Unsubscribe event exactly when it goes 1→0 (for `OnSessionTerminated`: one per topic the client was the last holder of,
    none twice), and nothing otherwise. -/
theorem localSubs_events_exactly_on_edges (pre : List (String × String)) (ops : List LS.Op)
    (qs : List (String × EQ Body)) (c share filter topic : String) :
    let l := LS.run (LS.init pre) ops
    let h : HookSt := { ls := l, queues := qs }
    -- OnSubscribed
    ((h.onSubscribed c share filter).2 =
        if LS.holders l.index (fullName share filter) = 0 then [Body.sub share filter] else []) ∧
    (LS.holders (h.onSubscribed c share filter).1.ls.index (fullName share filter) =
        LS.holders l.index (fullName share filter) + LS.ind (fullName share filter ∉ l.clientTopics c)) ∧
    -- OnUnsubscribed
    ((h.onUnsubscribed c topic).2 =
        if topic ∈ l.clientTopics c ∧ LS.holders l.index topic = 1 then [Body.unsub topic] else []) ∧
    (LS.holders l.index topic =
        LS.holders (h.onUnsubscribed c topic).1.ls.index topic + LS.ind (topic ∈ l.clientTopics c)) ∧
    -- OnSessionTerminated
    ((∀ t, Body.unsub t ∈ (h.onSessionTerminated c).2 ↔ (t ∈ l.clientTopics c ∧ LS.holders l.index t = 1)) ∧
     (h.onSessionTerminated c).2.Nodup ∧ (∀ b ∈ (h.onSessionTerminated c).2, ∃ t, b = Body.unsub t)) := by
  intro l h
  have hwf : LS.WF l := LS.wf_run (LS.wf_init pre) ops
  have hs := LS.subscribe_spec hwf c (fullName share filter)
  have hu := LS.unsubscribe_spec hwf c topic
  have ha := LS.unsubscribeAll_spec hwf c
  refine ⟨?_, ?_, ?_, ?_, ?_, ?_, ?_⟩
  · simp only [HookSt.onSubscribed, h]
    by_cases hz : LS.holders l.index (fullName share filter) = 0
    · have : (l.subscribe c (fullName share filter)).2 = true := hs.2.2.mpr hz
      simp [this, hz]
    · have : (l.subscribe c (fullName share filter)).2 = false := by
        cases hb : (l.subscribe c (fullName share filter)).2 with
        | false => rfl
        | true => exact absurd (hs.2.2.mp hb) hz
      simp [this, hz]
  · have := hs.2.1 (fullName share filter)
    simp only [HookSt.onSubscribed, h]
    split <;> simpa using this
  · simp only [HookSt.onUnsubscribed, h]
    by_cases hz : topic ∈ l.clientTopics c ∧ LS.holders l.index topic = 1
    · have : (l.unsubscribe c topic).2 = true := hu.2.2.mpr hz
      simp [this, hz]
    · have : (l.unsubscribe c topic).2 = false := by
        cases hb : (l.unsubscribe c topic).2 with
        | false => rfl
        | true => exact absurd (hu.2.2.mp hb) hz
      simp [this, hz]
  · have := hu.2.1 topic
    simp only [HookSt.onUnsubscribed, h]
    split <;> simpa using this
  · intro t
    simp only [HookSt.onSessionTerminated, h, List.mem_map]
    constructor
    · rintro ⟨x, hx, he⟩
      cases he
      exact (ha.2.2.1 t).mp hx
    · intro hx
      exact ⟨t, (ha.2.2.1 t).mpr hx, rfl⟩
  · simp only [HookSt.onSessionTerminated, h]
    exact GmqttVerif.nodup_map_of_inj_on Body.unsub _ (fun a _ b _ e => by cases e; rfl) ha.2.2.2.1
  · intro b hb
    simp only [HookSt.onSessionTerminated, h, List.mem_map] at hb
    obtain ⟨t, _, rfl⟩ := hb
    exact ⟨t, rfl⟩

/-- every emitted event is appended to the queue of every peer, once -/
theorem hook_event_reaches_every_peer (qs : List (String × EQ Body)) (b : Body) :
    (HookSt.addAll qs b).map (fun p => (p.1, p.2.items.map (·.body))) =
      qs.map (fun p => (p.1, p.2.items.map (·.body) ++ [b])) := by
  simp only [HookSt.addAll, List.map_map]
  apply List.map_congr_left
  intro p _
  simp only [Function.comp]
  congr 1
  unfold EQ.add
  cases p.2.dangling <;> simp [EQ.items]

/-! ## non-vacuity -/

/-- a run with a break between application and ack, a re-send that is recognised as duplicate, ending quiescent -/
example :
    (run true 100 ([.reconnect true [], .fetchSend, .deliver false, .reconnect true [], .emit (.unsub 7), .fetchSend, .deliver true,
               .deliver true, .deliver true, .deliverAck] : List (Label Nat Nat)) (init [7, 8] [])).map
      (fun st => (st.r.applied, st.r.subs, st.s.topics, st.r.sess.map (·.next), st.s.q.items.map (·.id), st.c.up.length)) =
    some ([.sub 7, .sub 8, .unsub 7], [8], [8], some 3, [1, 2], 0) := rfl

/-- a subscription made by another client inside the clean start (after `clear()`): queued in front of the snapshot, applied once -/
example :
    (run true 100 ([.reconnect true [.sub 9], .fetchSend, .deliver true, .deliver true, .deliver true] : List (Label Nat Nat))
        (init [7] [])).map (fun st => (st.r.applied, st.r.subs, st.s.topics)) =
    some ([.sub 9, .sub 7, .sub 9], [9, 7], [7, 9]) := rfl

/-- first contact with the answer lost twice: the session id is rotated each time, the third Hello is a clean start -/
example :
    (run true 100 ([.helloLost, .helloLost, .reconnect true [], .fetchSend, .deliver true] : List (Label Nat Nat)) (init [7] [])).map
      (fun st => (st.r.applied, st.s.sid, st.r.sess.map (·.id), st.s.synced)) =
    some ([.sub 7], 2, some 2, true) := rfl

end GmqttVerif.Fed
