import GmqttVerif.Model.Fed.Route
import GmqttVerif.Model.Fed.Groups
import GmqttVerif.Model.Fed.Node
import GmqttVerif.Proofs.Fed.Route
import GmqttVerif.Proofs.Fed.Groups
import GmqttVerif.Model.Fed.Delivery
import GmqttVerif.Proofs.Deliver
/-
  C17 — Federation routing: forwarded to exactly the nodes that need it, delivered once.

  Property theorems only.  `Fed.route` (`Model/Fed/Route.lean`) mirrors `Federation.sendMessage`/`sendSharedMsg` and is tied
  to the code by streams `fedroute`, `fedroute-shared` (exact comparison through `OnMsgArrivedWrapper`, real `mem.TrieDB`
  stores and real peer queues).  The receiver (`Recv.event`, `Model/Fed/PeerSession.lean`) is tied by `fedsession` (C16) and
  `fedrecv-retained`.  The matching relation is `Fed.subMatches` (`Model/Fed/Topic.lean`, = what `TrieDB.Iterate` with
  `MatchFilter` visits); the theorems below do not depend on what it computes.

  FINDING (recorded): F36 (`findings/c17-shared-across-nodes.md`) — `shared_one_in_federation` is false, in both directions
  (a group served twice; a group not served at all).  F35 (`findings/c17-remote-retained-clear.md`, a remote retained clear was
  stored as an empty retained message) is fixed since 5eb0806; the as-is statement is kept as `remote_retained_clear_as_is_refuted`.
-/
namespace GmqttVerif.Fed

/-! ## 1. non-retained, no shared subscriptions: exactly the peers that need it -/

/-- Without shared subscriptions (neither in the federation tree nor locally) a non-retained message goes to exactly the
    peers that hold at least one subscription whose filter matches the topic — each of them once (`Nodup`: one `queue.add`
    per node), never to the local node (`self` is not a peer: `nodeJoin` skips the local name), and the local delivery is
    left unchanged (no drop, iteration options untouched, round-robin counters untouched). -/
theorem route_nonretained_exact (i : RouteIn) (topic : String)
    (hf : ∀ k ∈ i.fedSubs, k.share = "") (hl : ∀ l ∈ i.locals, l.share = "") (hself : i.self ∉ i.peers) :
    (route i topic false).targets.Nodup ∧
    (∀ n, n ∈ (route i topic false).targets ↔
        n ∈ i.peers ∧ ∃ k ∈ i.fedSubs, k.node = n ∧ subMatches "" k.filter topic = true) ∧
    i.self ∉ (route i topic false).targets ∧
    (route i topic false).drop = false ∧ (route i topic false).nonSharedOnly = false ∧ (route i topic false).sent = i.sent := by
  have hc := toCore_noShared i topic hf hl
  have hr : route i topic false = _ := routeCore_noShared sortStrings (toCore i topic) hc.1 hc.2
  have hmem : ∀ n, n ∈ (route i topic false).targets ↔
      n ∈ i.peers ∧ ∃ k ∈ i.fedSubs, k.node = n ∧ subMatches "" k.filter topic = true := by
    intro n
    rw [hr]
    simp only [List.mem_filter, mem_dedupS, toCore, List.mem_map, List.contains_iff_mem]
    constructor
    · rintro ⟨⟨k, ⟨hk, hm⟩, rfl⟩, hp⟩
      simp at hm
      exact ⟨hp, k, hk, rfl, hm.2⟩
    · rintro ⟨hp, k, hk, rfl, hm⟩
      exact ⟨⟨k, ⟨hk, by simp [hf k hk, hm]⟩, rfl⟩, hp⟩
  refine ⟨?_, hmem, ?_, ?_, ?_, ?_⟩
  · rw [hr]; exact (nodup_dedupS _).filter _
  · intro h; exact hself ((hmem _).mp h).1
  · rw [hr]
  · rw [hr]
  · rw [hr]; rfl

/-! ## 2. retained: every peer -/

/-- A retained message is put into the queue of every peer (each once when peer names are distinct, which a Go map
    guarantees), whatever the subscriptions are; it is delivered locally as usual. -/
theorem route_retained_all (i : RouteIn) (topic : String) :
    (route i topic true).targets = i.peers ∧ (route i topic true).drop = false ∧
    (route i topic true).nonSharedOnly = false ∧ (route i topic true).sent = i.sent := by
  have h : route i topic true = _ := routeCore_retained sortStrings (toCore i topic)
  rw [h]
  exact ⟨rfl, rfl, rfl, rfl⟩

/-! ## 3. the receiver does not forward again -/

/-- Structural: handling an event received from a peer — in particular a Message, which is handed to `Publisher.Publish`,
    the delivery routine below the hook layer (see `Model/Fed/Node.lean`) — adds nothing to any peer queue and does not
    touch the round-robin counters, whereas a client publish goes through `OnMsgArrived` → `sendMessage`.  Tied to the
    code by op `recvpub` of `drive_fedroute` (real `server` value with the federation's `OnMsgArrived` wrapper installed,
    real `Publisher`, real `EventStream` loop). -/
theorem receiver_no_reforward (n : Node) (src : String) (e : Event Body) (ackOk : Bool) :
    (n.onStreamEvent src e ackOk).queues = n.queues ∧ (n.onStreamEvent src e ackOk).sent = n.sent :=
  ⟨rfl, rfl⟩

/-- …and the received message does reach the local delivery exactly once when it is not a duplicate (C16). -/
theorem received_message_published_once (r : Recv) (src : String) (s : Sess) (id : Nat) (m : Msg) (ackOk : Bool)
    (hs : r.getSess src = some s) (hnew : id ∉ s.seen.items) :
    (r.event src { id := id, body := .msg m } ackOk).1.pubs = r.pubs ++ [m] := by
  have hset : (s.seen.set id).2 = false := by
    simp [LRU.set, hnew]
  cases ackOk <;> cases hr : m.retained <;> simp [Recv.event, hs, Sess.see, hset, Recv.apply, Recv.setSess, hr] <;>
    split <;> rfl

/-! ## 3b. end to end: a matching non-shared subscriber anywhere gets what a local subscriber would -/

open GmqttVerif.Deliver in
/-- Composition of the routing decision, the event stream (C16: a queued event is applied by the peer exactly once) and the
    receiver's `Publisher.Publish` (= `Deliver.deliver` with source `""`, C01): in a federation without shared subscriptions,
    for a non-retained message with a non-empty topic published on `origin`,
    * the origin delivers locally exactly as it would alone (no drop, iteration options untouched),
    * every client of every OTHER node receives exactly the copies a publish of the same message on its own node would give it
      (C01 `deliver_overlap_exact` / `deliver_onlyonce_exact` then say which: one per wanted subscription at min QoS, …) —
      in particular nothing on nodes without a matching subscription, which are not even sent the message,
    * no node is sent the message twice. -/
theorem federation_delivery_exact (onlyOnce : Bool) (origin : BNode) (others : List BNode) (sent : List (String × Nat))
    (m : Deliver.Msg) (pick : String → List (String × Sub) → Option (String × Sub))
    (hpick : ∀ g ms x, pick g ms = some x → x ∈ ms)
    (hnames : ((origin :: others).map (·.name)).Nodup)
    (hnoshared : ∀ n ∈ origin :: others, ∀ cs ∈ n.table, cs.2.share = "")
    (htopic : m.topic ≠ "") (hnr : m.retained = false) :
    -- the origin's own delivery is the one it would do without a federation
    (route (originRouteIn origin others sent) m.topic m.retained).drop = false ∧
    (route (originRouteIn origin others sent) m.topic m.retained).nonSharedOnly = false ∧
    -- every client of every other node gets exactly what a local publish of `m` on that node would give it
    (∀ n ∈ others, ∀ c, copiesFor c (remoteEnqueues onlyOnce origin others sent m pick n) =
        copiesFor c (deliver onlyOnce "" n.table m pick).2) ∧
    -- and the message is queued for a node at most once
    (route (originRouteIn origin others sent) m.topic m.retained).targets.Nodup := by
  simp only [List.map_cons, List.nodup_cons] at hnames
  have hf : ∀ k ∈ (originRouteIn origin others sent).fedSubs, k.share = "" := by
    intro k hk
    simp only [originRouteIn, announced, List.mem_flatMap, List.mem_map] at hk
    obtain ⟨n, hn, cs, hcs, rfl⟩ := hk
    exact hnoshared n (List.mem_cons_of_mem _ hn) cs hcs
  have hl : ∀ l ∈ (originRouteIn origin others sent).locals, l.share = "" := by
    intro l hl
    simp only [originRouteIn, List.mem_map] at hl
    obtain ⟨cs, hcs, rfl⟩ := hl
    exact hnoshared origin (List.mem_cons_self ..) cs hcs
  have hr := route_nonretained_exact (originRouteIn origin others sent) m.topic hf hl hnames.1
  rw [hnr]
  refine ⟨hr.2.2.2.1, hr.2.2.2.2.1, ?_, hr.1⟩
  intro n hn c
  unfold remoteEnqueues
  by_cases ht : (route (originRouteIn origin others sent) m.topic false).targets.contains n.name = true
  · rw [if_pos ht]
  · rw [if_neg ht]
    -- not a target: no subscription of the node matches, so its own delivery produces nothing either
    have hnt : n.name ∉ (route (originRouteIn origin others sent) m.topic false).targets := by
      simpa using ht
    have hnone : ∀ cs ∈ n.table, ¬ Deliver.subMatches cs.2 m.topic = true := by
      intro cs hcs hm
      apply hnt
      rw [hr.2.1]
      refine ⟨List.mem_map_of_mem hn, { node := n.name, share := cs.2.share, filter := cs.2.filter }, ?_, rfl, ?_⟩
      · simp only [originRouteIn, announced, List.mem_flatMap, List.mem_map]
        exact ⟨n, hn, cs, hcs, rfl⟩
      · rw [subMatches_eq_MatchesTopic _ _ _ htopic]
        exact hm
    have := Deliver.nothing_unmatched onlyOnce "" n.table m pick hpick c (fun cs hcs _ h => hnone cs hcs h.1)
    rw [this]
    simp [copiesFor]

/-! ## 4. share groups spanning nodes (F36) -/

/-- FULL-STRENGTH statement: in any federation (distinct node names, any `sort` that permutes), for any published
    non-retained message and any share group with at least one member somewhere, exactly one node hands the message to a
    member of that group. -/
def SharedOneStatement : Prop :=
  ∀ (ν γ : Type) [DecidableEq ν] [DecidableEq γ] (sort : List ν → List ν) (_ : ∀ l, (sort l).Perm l)
    (origin : FNode ν γ) (others : List (FNode ν γ)) (sent : List (γ × Nat)) (g : γ),
    ((origin :: others).map (·.name)).Nodup →
    (g ∈ origin.members ∨ ∃ n ∈ others, g ∈ n.members) →
    servedBy sort origin others sent g = 1

/-- Refutation 1 (served twice): node 0 (origin) has a member of group 7; node 1 has a member of group 7 AND a matching
    non-shared subscription.  Round robin picks the local node for the group; node 1 gets the message anyway for its
    non-shared subscriber and, on receiving it, also serves its member of group 7. -/
theorem shared_one_in_federation_refuted : ¬ SharedOneStatement := by
  intro h
  have := h Nat Nat (fun l => l) (fun l => List.Perm.refl l) ⟨0, [7], false⟩ [⟨1, [7], true⟩] [] 7 (by decide) (by decide)
  revert this
  decide

/-- Refutation 2 (not served at all): node 0 (origin) has a member of group 7, node 1 a member of group 8.  Group 8 is
    routed to node 1, which makes the origin drop the message locally — its member of group 7 gets nothing, and node 1 has no
    member of group 7. -/
theorem shared_lost_refuted :
    servedBy (fun l => l) (⟨0, [7], false⟩ : FNode Nat Nat) [⟨1, [8], false⟩] [] 7 = 0 := by decide

/-- What does hold: if the published message matches ONE share group in the whole federation and no other node holds a matching
    non-shared subscription, exactly one node serves the group — the origin when the round robin picks it (nothing is forwarded,
    local delivery untouched), otherwise the picked node (and the origin's own delivery is dropped, or restricted to its
    non-shared subscribers when it has some).  For every `sort` that permutes, every counter value, any number of members per node. -/
theorem shared_one_in_federation_partial {ν γ : Type} [DecidableEq ν] [DecidableEq γ]
    (sort : List ν → List ν) (hsort : ∀ l, (sort l).Perm l)
    (origin : FNode ν γ) (others : List (FNode ν γ)) (sent : List (γ × Nat)) (g : γ)
    (hnames : ((origin :: others).map (·.name)).Nodup)
    (hsingle : (∀ x ∈ origin.members, x = g) ∧ ∀ n ∈ others, ∀ x ∈ n.members, x = g)
    (hnons : ∀ n ∈ others, n.nonShared = false)
    (hmem : g ∈ origin.members ∨ ∃ n ∈ others, g ∈ n.members) :
    servedBy sort origin others sent g = 1 :=
  servedBy_single sort hsort origin others sent g hnames hsingle.1 hsingle.2 hnons hmem

/-! ## 5. retained messages on the receiving node -/

/-- A received retained message with EMPTY payload clears the retained message of its topic, as it does on the node where it was
    published (`retainedDB.Remove`, server/client.go), and leaves the other topics alone. -/
theorem remote_retained_clear (r : Recv) (src : String) (m : Msg) (hr : m.retained = true) (hp : m.payload = 0) :
    (∀ p ∈ (r.apply src (.msg m)).retained, p.1 ≠ m.topic) ∧
    (∀ p, p.1 ≠ m.topic → (p ∈ (r.apply src (.msg m)).retained ↔ p ∈ r.retained)) := by
  simp only [Recv.apply, hr, hp, if_true, beq_self_eq_true]
  constructor
  · intro p hp'; simp at hp'; exact hp'.2
  · intro p hpt; simp [hpt]

/-- The code before 5eb0806 stored the empty message instead (`AddOrReplace` for every retained message; F35). -/
theorem remote_retained_clear_as_is_refuted :
    ¬ (∀ (r : Recv) (m : Msg), m.retained = true → m.payload = 0 → ∀ p ∈ r.retainedAsIs m, p.1 ≠ m.topic) := by
  intro h
  have := h (Recv.new "A") { topic := "t", retained := true, payload := 0, qos := 0 } rfl rfl
    ("t", { topic := "t", retained := true, payload := 0, qos := 0 }) (by simp [Recv.retainedAsIs, Recv.new])
  exact this rfl

/-- A received retained message with payload replaces the stored message of its topic (last value wins) and leaves the
    other topics alone; a non-retained one leaves the store alone. -/
theorem remote_retained_set (r : Recv) (src : String) (m : Msg) :
    (m.retained = true → m.payload ≠ 0 →
      (m.topic, m) ∈ (r.apply src (.msg m)).retained ∧
      (∀ p ∈ (r.apply src (.msg m)).retained, p.1 = m.topic → p = (m.topic, m)) ∧
      (∀ p, p.1 ≠ m.topic → (p ∈ (r.apply src (.msg m)).retained ↔ p ∈ r.retained))) ∧
    (m.retained = false → (r.apply src (.msg m)).retained = r.retained) := by
  constructor
  · intro hr hp
    have hp' : (m.payload == 0) = false := by simpa using hp
    simp only [Recv.apply, hr, hp', if_true, Bool.false_eq_true, if_false]
    refine ⟨by simp, ?_, ?_⟩
    · intro p hp hpt
      simp at hp
      rcases hp with ⟨_, h⟩ | h
      · exact absurd hpt h
      · exact h
    · intro p hpt
      simp
      constructor
      · rintro (⟨h, _⟩ | h)
        · exact h
        · rw [h] at hpt; exact absurd rfl hpt
      · intro h; exact Or.inl ⟨h, hpt⟩
  · intro hr
    simp [Recv.apply, hr]

/-! ## non-vacuity -/

def exampleIn : CoreIn Nat Nat :=
  { self := 0, peers := [1, 2, 3], localShared := [], fedShared := [], fedNonShared := [2, 2, 3, 9], localNonShared := true, sent := [] }

example : (routeCore (fun l => l) exampleIn false).targets = [2, 3] := by decide

end GmqttVerif.Fed
