import GmqttVerif.Model.WsConn
import GmqttVerif.Proofs.WsConn
import GmqttVerif.Generated.WsFuncs
/-
  C18 — WebSocket transport delivers the exact byte stream of the binary messages.

  Property theorems only; helper lemmas live in `Proofs/WsConn.lean`.
  The model (`Model/WsConn.lean`) mirrors `wsConn.Read/Write` of server/server.go with the reset
  condition as a parameter: `slack = 1` is the tree as it is (`ws.r+1 >= len(ws.buf)`), `slack = 0` is
  the tree with the F01 patch (`ws.r >= len(ws.buf)`, findings/F01-wsconn-read-drops-last-byte.diff).
  The theorems below are about `slack = 0`; `ws_stream_exact_fails_as_is` shows the statement is FALSE
  for `slack = 1`.  The model is tied to the real `wsConn` (over a real gorilla connection on loopback)
  by the correspondence stream `wsconn` of `bin/check C18`.

  vocabulary (definitions in Proofs/WsConn.lean)
  * `Msg α`            : `.binary payload` | `.text payload`, what `ReadMessage` returns; bytes are any type `α`
  * `payloads msgs`    : concatenation of the payloads of the binary messages, in order
  * `run slack st pending reads` : the `Read` calls with buffer sizes `reads`; result = (final state, still pending, results)
  * `delivered outs`   : concatenation of the chunks those calls returned, in order
  * `unread st pending`: rest of the current message followed by the payloads of the pending messages
  * `cost st pending`  : unread bytes + number of pending messages
-/
namespace GmqttVerif.WsConn

/-- The full-strength statement, for a given reset condition: for every list of data messages of any sizes
    (empty ones included) and every sequence of positive read sizes,
    (1) what was returned followed by what is still unread is exactly the concatenation of the payloads
        (nothing dropped, duplicated or reordered),
    (2) hence what was returned is a prefix of that concatenation, and
    (3) once at least (total bytes + number of messages) reads were made everything has been returned. -/
def StreamExactStatement (slack : Nat) : Prop :=
  ∀ (α : Type) (msgs : List (Msg α)) (reads : List Nat), (∀ n ∈ reads, 0 < n) →
    let r := run slack St.init msgs reads
    delivered r.2.2 ++ unread r.1 r.2.1 = payloads msgs
    ∧ delivered r.2.2 <+: payloads msgs
    ∧ ((payloads msgs).length + msgs.length ≤ reads.length → delivered r.2.2 = payloads msgs)

/-- 1. `ws_stream_exact`: the patched `wsConn.Read` hands the packet reader exactly the concatenation of the
    binary payloads, however the stream is cut into messages and whatever (positive) sizes are requested. -/
theorem ws_stream_exact : StreamExactStatement 0 := by
  intro α msgs reads hpos
  have hwf : (St.init : St α).WF := by simp [St.init, St.WF]
  have h := run_exact reads (St.init : St α) msgs hwf
  have hu : unread (St.init : St α) msgs = payloads msgs := by simp [unread, St.rem, St.init]
  rw [hu] at h
  refine ⟨h.1, ⟨_, h.1⟩, ?_⟩
  intro hlen
  have hd := run_drains reads hpos (St.init : St α) msgs hwf (by simpa [cost, hu] using hlen)
  have h1 := h.1
  simp only [unread, St.rem, hd.1, hd.2, payloads, List.flatMap_nil, List.append_nil] at h1
  exact h1

/-- 1'. The code as it is (`ws.r+1 >= len(ws.buf)`) does NOT have the property (finding F01): a two-byte
    message read with one-byte buffers delivers only the first byte; the second read reports end of stream. -/
theorem ws_stream_exact_fails_as_is : ¬ StreamExactStatement 1 := by
  intro h
  have := (h Nat [.binary [10, 20]] [1, 1, 1] (by decide)).2.2 (by decide)
  revert this
  decide

/-- 1''. the same for the sizes of the finding: after a read that leaves exactly one byte of a message unread
    the as-is code has dropped that byte (the state is reset although `rem` was one byte long). -/
theorem as_is_drops_last_byte {α : Type} (b : List α) (n : Nat) (hn : n + 1 = b.length) :
    read 1 St.init [.binary b] n = (St.init, [], .data (b.take n)) := by
  have h : b.length ≤ min n b.length + 1 := by omega
  simp [read, copyOut, St.init, List.length_take, h]

/-- 2. `ws_text_rejected`: a text message yields `ErrInvalWsMsgType` and not a single byte, in every state in
    which `Read` asks for the next message … -/
theorem ws_text_rejected {α : Type} (slack : Nat) (st : St α) (p : List α) (rest : List (Msg α)) (n : Nat)
    (h : st.buf = none) :
    read slack st (.text p :: rest) n = (st, rest, .errType) := by
  simp [read, h]

/-- 2'. … and over whole histories: whatever mix of binary and text messages arrives, the bytes handed out are
    a prefix of the concatenation of the BINARY payloads only (text payloads never enter the stream), and the
    number of type errors reported is at most the number of text messages. -/
theorem ws_text_never_in_stream {α : Type} (msgs : List (Msg α)) (reads : List Nat) :
    delivered (run 0 St.init msgs reads).2.2 <+: (msgs.filter (fun m => !m.isText)).flatMap Msg.payload := by
  have hwf : (St.init : St α).WF := by simp [St.init, St.WF]
  have h := (run_exact reads (St.init : St α) msgs hwf).1
  have hu : unread (St.init : St α) msgs = payloads msgs := by simp [unread, St.rem, St.init]
  have hf := payloads_eq_filter msgs
  rw [hu, hf] at h
  exact ⟨_, h⟩

/-- 3. `ws_write_concat`: every `Write(p)` becomes exactly one binary message carrying `p` and reports `len(p)`;
    so the concatenation of what the peer receives is the written byte stream. -/
theorem ws_write_concat {α : Type} (ps : List (List α)) :
    (runWrites ps).map (·.1) = ps.map Msg.binary
    ∧ (runWrites ps).map (·.2) = ps.map List.length
    ∧ payloads ((runWrites ps).map (·.1)) = ps.flatten := by
  refine ⟨by simp [runWrites, write], by simp [runWrites, write], ?_⟩
  induction ps with
  | nil => rfl
  | cons p ps ih =>
    simp only [runWrites, write, List.map_cons, List.map_map, payloads, List.flatMap_cons, Msg.payload,
      List.flatten_cons] at ih ⊢
    rw [ih]

/-! ## non-vacuity: concrete segmentations -/

/-- messages of 3, 0, 1 and 2 bytes plus a text message, reads of 2 bytes: the stream comes out intact,
    the text message costs one error and no byte -/
example : delivered (run 0 St.init [.binary [1, 2, 3], .binary [], .binary [4], .text [9], .binary [5, 6]]
    [2, 2, 2, 2, 2, 2, 2]).2.2 = [1, 2, 3, 4, 5, 6] := by decide

/-- the same input through the as-is code loses byte 3 -/
example : delivered (run 1 St.init [.binary [1, 2, 3], .binary [], .binary [4], .text [9], .binary [5, 6]]
    [2, 2, 2, 2, 2, 2, 2]).2.2 = [1, 2, 4, 5, 6] := by decide

example : (run 0 St.init [.binary [1, 2, 3], .text [9]] [2, 2, 2, 2]).2.2
    = [.data [1, 2], .data [3], .errType, .eof] := by decide

end GmqttVerif.WsConn

/-! ### tie to the source, re-read on every run -/
namespace GmqttVerif.WsSource
open GmqttVerif.Generated

/-- `type wsConn`, its methods `Close` / `Read` / `Write` and `(*server).wsHandler` are still the text `Model/WsConn.lean` was
    written from (FNV-1a-64 of the normalised source, `Generated/WsFuncs.lean`). The model is one value per connection: the
    adapter keeps no state outside the `wsConn` value (no package-level buffers shared between connections), which is what
    lets `ws_stream_exact` speak about one connection at a time. -/
theorem ws_adapter_as_transcribed :
    wsFuncsH = [15089432948449270525, 12877403686621379036, 18430745549621644148, 12891631388857734999, 16318166848865260789] := by
  decide

end GmqttVerif.WsSource
