import GmqttVerif.Model.Auth
import GmqttVerif.Proofs.Auth
/-
  C19 — No broker state is reachable without passing authentication.

  Property theorems only; helper lemmas live in `Proofs/Auth.lean`. The model (`Model/Auth.lean`) mirrors
  plugin/auth and the connect phase of server/client.go branch by branch and is tied to the code by the
  correspondence stream `auth-broker` of `bin/check C19` (real plugin in a real in-process broker).
  md5 / sha256 / bcrypt are an uninterpreted `Crypto`: every statement holds for ALL hash functions.

  Vocabulary (Proofs/Auth.lean):
  * `WF a`     : distinct, non-empty user names — what `Load` demands of a file and every indexer satisfies
  * `Inv s`    : indexer and password file are well-formed, the file saved is the file loaded, and both hold the same accounts
  * `absRun`   : the abstract account map (`String → Option String`) after a history; a failed save changes nothing
  * `Eff.touchesBroker` : the effect reaches sessions / subscriptions / retained messages / other clients (`register` only)
  * `Eff.quiet`: a statistics counter or the socket close — nothing sent, nothing handled
-/
namespace GmqttVerif.Auth

/-! ## 1. accept ⇔ stored account ∧ password verifies -/

/-- `validate` accepts exactly when the user name is a stored account and the password verifies against that
    account's stored hash under the configured algorithm — for every hash function. -/
theorem validate_iff (c : Crypto) (alg : Alg) (a : Accounts) (user pass : String) :
    validate c alg a user pass = true ↔ ∃ h, lookup a user = some h ∧ c.verify alg h pass = true := by
  unfold validate
  cases hl : lookup a user with
  | none => simp
  | some h => simp

/-- The configuration C19 talks about: the auth plugin is the OnBasicAuth hook, no enhanced-auth hook exists. -/
def pluginCfg (c : Crypto) (alg : Alg) (a : Accounts) (zl : Bool) : Cfg :=
  { allowZeroLenCid := zl, basic := some (validate c alg a), enh := none }

/-- A decodable CONNECT (protocol level 3, 4 or 5) whose client id the configuration admits is authenticated iff it
    carries no Authentication Method and `validate` accepts its user name / password bytes. Nothing else of the packet
    is consulted: not the protocol version, not the user-name / password flags (an absent field is the empty string),
    not the Authentication Data. -/
theorem connect_decision (c : Crypto) (alg : Alg) (a : Accounts) (zl : Bool) (p : ConnectPkt)
    (hv : p.v = 3 ∨ p.v = 4 ∨ p.v = 5) (hcid : zl = true ∨ p.cidEmpty = false) (hv3 : p.v ≠ 5 → p.authMethod = none) :
    connectHandler (pluginCfg c alg a zl) p = .ok ↔
      (p.authMethod = none ∧ validate c alg a p.user p.pass = true) := by
  have hz : (!(pluginCfg c alg a zl).allowZeroLenCid && p.cidEmpty) = false := by
    rcases hcid with h | h <;> simp [pluginCfg, h]
  have hpart := branches_partition p hv hv3
  cases hm : p.authMethod with
  | none =>
    have he : enhancedBranch p = false := by simp [enhancedBranch, hm]
    have hb : basicBranch p = true := by rw [hpart, he]; rfl
    rw [connectHandler_of_basic _ p hz hb he]
    simp only [basicAuth, pluginCfg, true_and]
    cases hval : validate c alg a p.user p.pass with
    | true => simp [basicCode]
    | false => rcases hv with h | h | h <;> simp [basicCode, h, isV3]
  | some m =>
    have h5 : p.v = 5 := by
      by_cases h : p.v = 5
      · exact h
      · have := hv3 h; rw [hm] at this; cases this
    have he : enhancedBranch p = true := by simp [enhancedBranch, hm, h5]
    rw [connectHandler_of_enhanced _ p hz he]
    simp [enhancedAuth, pluginCfg, hm]

/-- `connect_phase_closed`: a CONNECT carrying an Authentication Method — of ANY length, zero included — is refused (0x80)
    when no enhanced-auth hook is installed: valid credentials do not help, and OnBasicAuth is not consulted. -/
theorem connect_phase_closed (cfg : Cfg) (p : ConnectPkt) (m : String)
    (h5 : p.v = 5) (hm : p.authMethod = some m) (hnone : cfg.enh.isNone = true)
    (hcid : cfg.allowZeroLenCid = true ∨ p.cidEmpty = false) :
    connectHandler cfg p = .err 0x80 := by
  have hz : (!cfg.allowZeroLenCid && p.cidEmpty) = false := by rcases hcid with h | h <;> simp [h]
  have he : cfg.enh = none := by cases h : cfg.enh <;> simp [h] at hnone ⊢
  have hb : enhancedBranch p = true := by simp [enhancedBranch, hm, h5]
  rw [connectHandler_of_enhanced cfg p hz hb]
  simp [enhancedAuth, hm, he]

/-- the present-but-empty Authentication Method (`0x15 0x00 0x00`) in particular: refused, whatever the credentials -/
theorem empty_method_fails_closed (c : Crypto) (alg : Alg) (a : Accounts) (zl : Bool) (p : ConnectPkt)
    (h5 : p.v = 5) (hm : p.authMethod = some "") (hcid : zl = true ∨ p.cidEmpty = false) :
    connectHandler (pluginCfg c alg a zl) p = .err 0x80 :=
  connect_phase_closed (pluginCfg c alg a zl) p "" h5 hm rfl (by simpa [pluginCfg] using hcid)

/-- Every CONNECT that `connectHandler` lets through (authenticated, or admitted to the AUTH exchange) went through
    EXACTLY ONE of the two checks and passed it: either the basic branch was taken, the enhanced one was not, and the
    OnBasicAuth chain accepted the user name / password (vacuously when no hook exists at all); or the enhanced branch was
    taken, the basic one was not, and an installed OnEnhancedAuth hook answered success / continue for the packet's
    method. There is no value of the Authentication Method property — absent, empty, non-empty — for which neither
    check runs. -/
theorem accepted_passed_exactly_one (cfg : Cfg) (p : ConnectPkt)
    (hv : p.v = 3 ∨ p.v = 4 ∨ p.v = 5) (hv3 : p.v ≠ 5 → p.authMethod = none)
    (hok : ∀ code, connectHandler cfg p ≠ .err code) :
    (basicBranch p = true ∧ enhancedBranch p = false ∧ basicAuth cfg p = .ok ∧
      (∀ f, cfg.basic = some f → f p.user p.pass = true)) ∨
    (basicBranch p = false ∧ enhancedBranch p = true ∧
      ∃ h m, cfg.enh = some h ∧ p.authMethod = some m ∧
        (h.onConnect m p.authData = .success ∨ ∃ d, h.onConnect m p.authData = .cont d)) := by
  have hpart := branches_partition p hv hv3
  by_cases hz : (!cfg.allowZeroLenCid && p.cidEmpty) = true
  · exact absurd (by simp [connectHandler, hz]) (hok 0x85)
  · have hz' : (!cfg.allowZeroLenCid && p.cidEmpty) = false := by simpa using hz
    cases he : enhancedBranch p with
    | true =>
      right
      have hb : basicBranch p = false := by rw [hpart, he]; rfl
      refine ⟨hb, rfl, ?_⟩
      have hch := connectHandler_of_enhanced cfg p hz' he
      have hm : ∃ m, p.authMethod = some m := by
        cases h : p.authMethod with
        | none => simp [enhancedBranch, h] at he
        | some m => exact ⟨m, rfl⟩
      obtain ⟨m, hm⟩ := hm
      cases hh : cfg.enh with
      | none => exact absurd (by rw [hch]; simp [enhancedAuth, hm, hh]) (hok 0x80)
      | some h =>
        refine ⟨h, m, rfl, hm, ?_⟩
        cases hr : h.onConnect m p.authData with
        | success => exact Or.inl rfl
        | cont d => exact Or.inr ⟨d, rfl⟩
        | fail code => exact absurd (by rw [hch]; simp [enhancedAuth, hm, hh, hr]) (hok code)
    | false =>
      left
      have hb : basicBranch p = true := by rw [hpart, he]; rfl
      have hch := connectHandler_of_basic cfg p hz' hb he
      refine ⟨hb, rfl, ?_, ?_⟩
      · cases hbasic : cfg.basic with
        | none => simp [basicAuth, hbasic]
        | some f =>
          cases hc : basicCode p.v (f p.user p.pass) with
          | none => simp [basicAuth, hbasic, hc]
          | some code => exact absurd (by rw [hch]; simp [basicAuth, hbasic, hc]) (hok code)
      · intro f hf
        cases hfv : f p.user p.pass with
        | true => rfl
        | false =>
          have : ∃ code, basicCode p.v false = some code := by
            rcases hv with h | h | h <;> simp [basicCode, h, isV3]
          obtain ⟨code, hc⟩ := this
          exact absurd (by rw [hch]; simp [basicAuth, hf, hfv, hc]) (hok code)

/-- On a fresh connection the first CONNECT leads to `accepted` exactly when `connectHandler` says ok (no challenge
    can be pending without an enhanced-auth hook), and the refusal is a CONNACK with a non-zero code. -/
theorem first_connect (cfg : Cfg) (p : ConnectPkt) :
    ((step cfg {} (.connect p)).1.phase = .accepted ↔ connectHandler cfg p = .ok) := by
  simp only [step, readLoopPre, connectLoop]
  cases h : connectHandler cfg p <;> simp [h]

/-! ## 2. the account store refines a map; the file is its serialisation -/

/-- After ANY history of Update / Delete calls with arbitrary save failures, and restarts, starting from a consistent
    store: the indexer still is a well-formed map, the password file holds exactly the same accounts, and the indexer
    equals the abstract map in which a call whose save failed changed nothing. (Hypothesis `Inv`: the file saved is
    the file loaded — see `f39_witness` for what happens otherwise.) -/
theorem accounts_refine_map (c : Crypto) (alg : Alg) (s : Store) (hi : Inv s) (ops : List Op) :
    Inv (s.run c alg ops) ∧ ∀ u, lookup (s.run c alg ops).idx u = absRun c alg (lookup s.idx) ops u :=
  run_refines c alg ops s hi

/-- load ∘ save = id: saving a well-formed indexer and loading the file into a fresh plugin instance gives back the
    same rows in the same order, without a load error. -/
theorem load_save (s : Store) (hw : WF s.idx) (hs : s.same = true) :
    (s.save true).restart = ({ s.save true with idx := s.idx }, .ok) ∧ ((s.save true).restart.1).idx = s.idx := by
  have h1 : (s.save true).loadFile = s.idx := by simp [Store.save, hs]
  have hck : loadCheck [] (s.save true).loadFile = .ok := by rw [h1]; exact loadCheck_ok hw
  have hld : loadInto (s.save true).loadFile = s.idx := by rw [h1]; exact loadInto_eq hw.1
  unfold Store.restart
  rw [hck]
  simp only [hld, and_self]

/-- "…and is what a restarted broker loads": after any history, a restart succeeds and the new instance accepts
    exactly the same (user, password) pairs as the running one. -/
theorem restart_after_history (c : Crypto) (alg : Alg) (s : Store) (hi : Inv s) (ops : List Op) (user pass : String) :
    ((s.run c alg ops).restart).2 = .ok ∧
    validate c alg ((s.run c alg ops).restart).1.idx user pass = validate c alg (s.run c alg ops).idx user pass := by
  have h := (run_refines c alg ops s hi).1
  have hck := loadCheck_ok h.file
  refine ⟨by simp [Store.restart, hck], ?_⟩
  simp only [Store.restart, hck, loadInto_eq h.file.1, validate, h.agree]

/-- an account set through the API takes effect for the next CONNECT … -/
theorem update_takes_effect (c : Crypto) (alg : Alg) (s : Store) (u p h : String) (hu : u ≠ "")
    (hg : c.gen alg p = some h) :
    lookup (s.update c alg u p true).1.idx u = some h := by
  simp [Store.update, hu, hg, Store.save, lookup_set_self]

/-- … and a deleted one stops being accepted. -/
theorem delete_takes_effect (c : Crypto) (alg : Alg) (s : Store) (hw : WF s.idx) (u pass : String) :
    validate c alg (s.delete u true).1.idx u pass = false ∨ u = "" := by
  by_cases hu : u = ""
  · exact Or.inr hu
  · left
    unfold Store.delete validate
    simp only [hu, if_false]
    cases ho : lookup s.idx u with
    | none => simp [ho]
    | some oh => simp [Store.save, lookup_remove_self hw.1]

/-- F39 as the code is: with a relative `password_file` and a working directory different from the configuration
    directory the two paths differ (`same = false`): an account created through the API is gone after a restart. -/
theorem f39_witness :
    let cr : Crypto := { md5hex := id, sha256hex := id, bcryptGen := some, bcryptCompare := fun h p => h == p }
    let s0 : Store := { same := false }
    let s1 := (s0.update cr .plain "alice" "secret" true).1
    validate cr .plain s1.idx "alice" "secret" = true ∧ validate cr .plain s1.restart.1.idx "alice" "secret" = false := by
  decide

/-! ## 3. nothing before `accepted`, nothing after `rejected` -/

/-- One step of a connection that has not been accepted touches sessions / subscriptions / retained messages / other
    clients only in the transition that accepts it: an effect of that kind occurs only from `awaitConnect` /
    `awaitAuth`, and only together with the move to `accepted`. Every other branch (wrong packet, malformed packet,
    second CONNECT, refused credentials, failed or unfinished enhanced authentication, timeout) produces at most a
    CONNACK / AUTH packet, statistics counters, or the socket close. -/
theorem preauth_inert (cfg : Cfg) (c : Conn) (p : Pkt) (e : Eff)
    (he : e ∈ (step cfg c p).2) (ht : e.touchesBroker = true) :
    (c.phase = .awaitConnect ∨ c.phase = .awaitAuth) ∧ (step cfg c p).1.phase = .accepted := by
  refine ⟨?_, step_onlyAccept cfg c p e he ht⟩
  cases hp : c.phase with
  | awaitConnect => exact Or.inl rfl
  | awaitAuth => exact Or.inr rfl
  | accepted => rw [step_effs_nil_of_done cfg c p (Or.inl hp)] at he; simp at he
  | closed => rw [step_effs_nil_of_done cfg c p (Or.inr hp)] at he; simp at he
  | rejected =>
    have : (step cfg c p) = rejectedStep c p := by simp [step, hp]
    rw [this] at he
    rw [quiet_not_touch (rejectedStep_effs c p e he)] at ht; cases ht

/-- After `rejected` no later packet is handled: the connection stays `rejected` (or gets closed), nothing is sent to
    it, and the only effects are statistics counters and the socket close. -/
theorem rejected_inert (cfg : Cfg) (c : Conn) (p : Pkt) (h : c.phase = .rejected) :
    ((step cfg c p).1.phase = .rejected ∨ (step cfg c p).1.phase = .closed) ∧
    ∀ e ∈ (step cfg c p).2, e.quiet = true := by
  have : (step cfg c p) = rejectedStep c p := by simp [step, h]
  rw [this]
  exact ⟨rejectedStep_phase c p h, rejectedStep_effs c p⟩

/-- …and the server ends the connection itself: once writeLoop has flushed the failing CONNACK it closes the socket
    (`hangup`, fix 53130f4), which takes a rejected connection to `closed` with no other effect. -/
theorem rejected_closes (cfg : Cfg) (c : Conn) (h : c.phase = .rejected) :
    step cfg c .hangup = ({ c with phase := .closed }, [.closeSocket]) := by
  have : step cfg c .hangup = rejectedStep c .hangup := by simp [step, h]
  rw [this, rejected_hangup c h]

/-- Whole packet sequences: whatever a peer sends on a connection, as long as the connection does not end up
    `accepted`, no effect of the whole run touches sessions, subscriptions, retained messages or other clients. -/
theorem run_inert (cfg : Cfg) (ps : List Pkt) (c : Conn) (hfin : (run cfg c ps).1.phase ≠ .accepted) :
    ∀ e ∈ (run cfg c ps).2, e.touchesBroker = false := by
  induction ps generalizing c with
  | nil => intro e he; simp [run] at he
  | cons p r ih =>
    intro e he
    simp only [run, List.mem_append] at he hfin
    -- accepted is absorbing: if the first step accepted, the run would end accepted
    have hacc : ∀ (c : Conn) (l : List Pkt), c.phase = .accepted → (run cfg c l).1.phase = .accepted := by
      intro c l
      induction l generalizing c with
      | nil => intro h; simpa [run] using h
      | cons q l ihl =>
        intro h
        simp only [run]
        exact ihl _ (step_accepted_stays cfg c q h)
    have hnot : (step cfg c p).1.phase ≠ .accepted := fun h => hfin (hacc _ r h)
    rcases he with he | he
    · cases ht : e.touchesBroker with
      | false => rfl
      | true => exact absurd (step_onlyAccept cfg c p e he ht) hnot
    · exact ih _ hfin e he

/-! ## non-vacuity -/

/-- a run that authenticates: the effect list does contain `register` -/
example :
    let cr : Crypto := { md5hex := id, sha256hex := id, bcryptGen := some, bcryptCompare := fun h p => h == p }
    let cfg := pluginCfg cr .plain [("alice", "secret")] true
    let good : ConnectPkt := { v := 4, userFlag := true, passFlag := true, user := "alice", pass := "secret" }
    let bad : ConnectPkt := { good with pass := "Secret" }
    (run cfg {} [.connect good]).1.phase = .accepted ∧ (run cfg {} [.connect good]).2.any Eff.touchesBroker = true ∧
    (run cfg {} [.connect bad, .publish 1, .other, .connect good]).1.phase = .rejected ∧
    (run cfg {} [.connect bad, .publish 1, .other, .connect good]).2.any Eff.touchesBroker = false ∧
    (run cfg {} [.connect bad, .publish 1, .connect good, .hangup]).1.phase = .closed ∧
    (run cfg {} [.connect { good with v := 5, authMethod := some "" }]).1.phase = .rejected ∧
    (run cfg {} [.connect { good with v := 5, authMethod := some "", user := "", pass := "", userFlag := false, passFlag := false }]).2
      = [.connack 5 0x80, .statPkt] ∧
    (run cfg {} [.publish 0]).1.phase = .rejected := by
  decide

end GmqttVerif.Auth
