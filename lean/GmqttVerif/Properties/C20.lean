import GmqttVerif.Model.Stats
import GmqttVerif.Proofs.Stats
/-
  C20 — Statistics are conserved: the counters equal what actually happened.

  Property theorems only; helper lemmas live in `Proofs/Stats.lean`. `Model/Stats.lean` mirrors every method of
  `statsManager` (server/stats.go); `Fix` switches between the code as it is and the repaired code, defect by defect.
  The theorems below are about the REPAIRED code (`Fix.all`) unless they say `fx`; the `asis_*` theorems show, on
  concrete logs, that the code as it is violates them (finding F34). The model is tied to the real code by the
  streams of `bin/check C20`: the events are derived from the harness's own ground truth and folded by `Stats.run`.

  Vocabulary (Proofs/Stats.lean):
  * `gw k e` / `cw fx cid k e` : what event `e` adds to the global / to client `cid`'s cumulative counter `k`
  * `globalTotal`, `clientTotal`: running sums of these; `clientTotal` restarts at 0 when the client's session terminates
  * `GS`, `retired`           : ghost state — the counters of per-client entries that were deleted at session termination
  * `sumN` / `sumI`           : Σ over the live per-client entries
  * `Tr`, `WFG`               : the ideal per-client gauges (adds − decs, reset at termination) and the well-formedness of
                                a log: a gauge is decremented only by what was added before
  * `Act`, `Valid`, `Tbl`     : session life-cycle steps with the statsManager calls each makes, and their legality
                                w.r.t. the session table (client id ↦ online?)
-/
namespace GmqttVerif.Stats
open GmqttVerif

/-! ## cumulative counters -/

/-- Every global cumulative counter (packets / bytes per type and total, in and out; messages received / sent /
    dropped per QoS and reason) equals the sum of the per-client counters — over the live entries plus the entries
    that were deleted when their session terminated ("every client that ever existed") — for EVERY event log. -/
theorem global_is_sum (log : List Event) (k : Key) :
    (GS.run Fix.all {} log).s.g.cum k =
      (GS.run Fix.all {} log).retired k + sumN (GS.run Fix.all {} log).s.clients (fun c => c.cum k) := by
  have h0 : SumInv ({} : GS) := ⟨by simp [AL.NodupKeys, AL.keys], fun k => by simp [sumN]⟩
  exact (sumInv_run {} h0 log).cum k

/-- …and the ghost-free reading: a global counter is the sum over the whole log of what each event contributes. -/
theorem global_exact (fx : Fix) (log : List Event) (k : Key) :
    (Stats.run fx {} log).g.cum k = globalTotal k 0 log := by
  simpa using global_run fx {} k log

/-- A per-client counter is the sum of what the client's own events contributed since its session was created
    (a terminated session starts again from zero), for every log and both variants of the code. -/
theorem client_exact (fx : Fix) (log : List Event) (cid : String) (k : Key) :
    ((Stats.run fx {} log).client cid).cum k = clientTotal fx cid k 0 log := by
  simpa [Stats.client] using client_run fx {} cid k log

/-- events after the last termination of `cid`'s session -/
def since (cid : String) (log : List Event) : List Event :=
  log.foldl (fun acc e => match e with
    | .sessionTerminated c _ => if c = cid then [] else acc ++ [e]
    | e => acc ++ [e]) []

theorem clientTotal_eq_sum (fx : Fix) (cid : String) (k : Key) (log : List Event) :
    clientTotal fx cid k 0 log = ((since cid log).map (cw fx cid k)).sum := by
  have gen : ∀ (l : List Event) (acc : List Event) (n : Nat), n = (acc.map (cw fx cid k)).sum →
      l.foldl (clientStep fx cid k) n =
        ((l.foldl (fun acc e => match e with
          | .sessionTerminated c _ => if c = cid then [] else acc ++ [e]
          | e => acc ++ [e]) acc).map (cw fx cid k)).sum := by
    intro l
    induction l with
    | nil => intro acc n h; simpa using h
    | cons e r ih =>
      intro acc n h
      simp only [List.foldl_cons]
      apply ih
      cases e <;> simp [clientStep, cw, h]
      rename_i c _
      by_cases hc : c = cid <;> simp [hc, cw]
  exact gen log [] 0 rfl

/-- Per QoS, exactly: with the repaired code a client's "messages received at QoS q" counter is the number of
    PUBLISH packets received from it at QoS q since its session began; likewise sent and dropped (per reason). -/
theorem per_qos_exact (log : List Event) (cid : String) (q : Nat) (hq : q ≤ 2) (r : Reason) :
    ((Stats.run Fix.all {} log).client cid).cum (.msgIn q) = (since cid log).count (.messageReceived cid q) ∧
    ((Stats.run Fix.all {} log).client cid).cum (.msgOut q) = (since cid log).count (.messageSent cid q) ∧
    ((Stats.run Fix.all {} log).client cid).cum (.dropped q r) = (since cid log).count (.messageDropped cid q r) := by
  have hok : qosOk q = true := by
    have : q = 0 ∨ q = 1 ∨ q = 2 := by omega
    rcases this with h | h | h <;> subst h <;> rfl
  have cnt : ∀ (l : List Event) (f : Event → Nat) (e0 : Event), (∀ e, f e = if e = e0 then 1 else 0) →
      (l.map f).sum = l.count e0 := by
    intro l f e0 hf
    induction l with
    | nil => simp
    | cons e r ih =>
      simp only [List.map_cons, List.sum_cons, ih, hf e, List.count_cons]
      by_cases h : e = e0
      · subst h; simp; omega
      · have : ¬ (e == e0) = true := by simpa using h
        simp [h, this]
  refine ⟨?_, ?_, ?_⟩
  · rw [client_exact, clientTotal_eq_sum]
    exact cnt _ _ _ (cw_msgIn cid q hok)
  · rw [client_exact, clientTotal_eq_sum]
    exact cnt _ _ _ (cw_msgOut cid q hok)
  · rw [client_exact, clientTotal_eq_sum]
    exact cnt _ _ _ (cw_dropped cid q r hok)

/-! ## gauges -/

/-- The global queued / in-flight gauges are the sums of the live sessions' gauges after EVERY log (no hypothesis on
    the log): `addInflight` adds `delta` on both sides and a terminated session gives its share back. -/
theorem gauges_exact (log : List Event) :
    (Stats.run Fix.all {} log).g.inflight = sumI (Stats.run Fix.all {} log).clients (fun c => c.inflight) ∧
    (Stats.run Fix.all {} log).g.queued = sumI (Stats.run Fix.all {} log).clients (fun c => c.queued) := by
  have h0 : GaugeInv ({} : Stats) := ⟨by simp [AL.NodupKeys, AL.keys], by simp [sumI], by simp [sumI]⟩
  have := gaugeInv_run {} h0 log
  exact ⟨this.infl, this.queued⟩

/-- For logs a broker can produce (`WFG`: a `dec` never exceeds what was added before and not yet removed — the queue
    notifier reports removals of elements that are in the queue) each session's gauges are exactly adds − decs since
    the session began; in particular the `== 0` guard of `decInflight` / `decQueueLen` never fires wrongly. Holds for
    both variants of the code (the per-client arithmetic has no defect). -/
theorem client_gauges_exact (fx : Fix) (log : List Event) (hwf : WFG {} log) (cid : String) :
    ((Stats.run fx {} log).client cid).inflight = ((Tr.run {} log).infl cid) ∧
    ((Stats.run fx {} log).client cid).queued = ((Tr.run {} log).queued cid) := by
  have h0 : TrInv ({} : Stats) ({} : Tr) :=
    ⟨fun _ => rfl, fun _ => rfl, fun _ => by simp, fun _ => by simp⟩
  have := trInv_run fx {} {} h0 log hwf
  exact ⟨this.infl cid, this.queued cid⟩

/-- The connection / session gauges follow the session table: after any legal sequence of life-cycle steps
    (arbitrary other statsManager calls in between) `ActiveCurrent` is the number of online sessions and
    `InactiveCurrent` the number of offline sessions. -/
theorem conn_gauges_exact (fx : Fix) (acts : List Act) (hv : Valid [] acts) :
    (Stats.run fx {} (acts.flatMap Act.events)).conn.active = count (Tbl.run [] acts) true ∧
    (Stats.run fx {} (acts.flatMap Act.events)).conn.inactive = count (Tbl.run [] acts) false := by
  have h0 : ConnInv ({} : Stats) [] := ⟨by simp [AL.NodupKeys, AL.keys], by simp [count], by simp [count]⟩
  have := connInv_run fx {} [] h0 acts hv
  exact ⟨this.active, this.inactive⟩

/-- No gauge ever wraps below zero: at every quiescent point (= after every complete life-cycle step) of a legal
    history whose queue notifications are well-formed, all six gauges of the repaired code are ≥ 0 as integers —
    so the `uint64` the code holds (this integer modulo 2^64) is the integer itself. -/
theorem no_underflow (acts : List Act) (hv : Valid [] acts) (hwf : WFG {} (acts.flatMap Act.events)) (cid : String) :
    let s := Stats.run Fix.all {} (acts.flatMap Act.events)
    0 ≤ s.conn.active ∧ 0 ≤ s.conn.inactive ∧ 0 ≤ s.g.inflight ∧ 0 ≤ s.g.queued ∧
    0 ≤ (s.client cid).inflight ∧ 0 ≤ (s.client cid).queued := by
  intro s
  have hc := conn_gauges_exact Fix.all acts hv
  have h0 : TrInv ({} : Stats) ({} : Tr) :=
    ⟨fun _ => rfl, fun _ => rfl, fun _ => by simp, fun _ => by simp⟩
  have ht := trInv_run Fix.all {} {} h0 _ hwf
  have hg0 : GaugeInv ({} : Stats) := ⟨by simp [AL.NodupKeys, AL.keys], by simp [sumI], by simp [sumI]⟩
  have hg := gaugeInv_run {} hg0 (acts.flatMap Act.events)
  have entry : ∀ p ∈ s.clients, p.2 = s.client p.1 := by
    intro p hp
    have := AL.get_of_mem hg.nodup (k := p.1) (v := p.2) hp
    show p.2 = (AL.get p.1 (Stats.run Fix.all {} (acts.flatMap Act.events)).clients).getD {}
    rw [this]; rfl
  refine ⟨by rw [hc.1]; omega, by rw [hc.2]; omega, ?_, ?_, ?_, ?_⟩
  · rw [hg.infl]
    apply sumI_nonneg
    intro p hp
    rw [entry p hp, ht.infl]; exact ht.inflNN _
  · rw [hg.queued]
    apply sumI_nonneg
    intro p hp
    rw [entry p hp, ht.queued]; exact ht.queuedNN _
  · rw [ht.infl]; exact ht.inflNN _
  · rw [ht.queued]; exact ht.queuedNN _

/-! ## the code as it is (F34) -/

/-- As is, a QoS 1 PUBLISH is counted under QoS 0 in the per-client statistics: the global counter for QoS 1 is 1 while
    the sum of the per-client QoS 1 counters is 0 — `global_is_sum` and `per_qos_exact` fail. -/
theorem asis_qos_miscounted :
    let s := Stats.run Fix.asIs {} [.messageReceived "a" 1, .messageSent "b" 2]
    s.g.cum (.msgIn 1) = 1 ∧ (s.client "a").cum (.msgIn 1) = 0 ∧ (s.client "a").cum (.msgIn 0) = 1 ∧
    s.g.cum (.msgOut 2) = 1 ∧ (s.client "b").cum (.msgOut 2) = 0 ∧ (s.client "b").cum (.msgOut 0) = 1 := by
  decide

/-- As is, `addInflight` adds 1 to the global gauge whatever `delta` is: two messages read in one batch and then
    acknowledged one by one leave the global in-flight gauge at −1, i.e. 18446744073709551615 — `no_underflow` fails
    on a perfectly well-formed log. -/
theorem asis_inflight_wraps :
    let log : List Event := [.addQueueLen "a" 2, .addInflight "a" 2, .decInflight "a" 1, .decInflight "a" 1]
    WFG {} log ∧ (Stats.run Fix.asIs {} log).g.inflight = -1 ∧ ((Stats.run Fix.asIs {} log).client "a").inflight = 0 ∧
    (Stats.run Fix.all {} log).g.inflight = 0 := by
  decide

/-- As is, the gauges of a terminated session are never released: a message queued for a session that then expires
    stays in the global `QueuedCurrent` for ever. -/
theorem asis_gauges_leak :
    let log : List Event := [.addQueueLen "a" 1, .sessionTerminated "a" .expired]
    (Stats.run Fix.asIs {} log).g.queued = 1 ∧ (Stats.run Fix.asIs {} log).clients.length = 0 ∧
    (Stats.run Fix.all {} log).g.queued = 0 := by
  decide

/-- As is, `PacketBytes.copy` does not copy `Auth`: AUTH packets are counted but `GetGlobalStats` / `GetClientStats`
    always report 0 for them (while `Total` includes them). -/
theorem asis_auth_invisible :
    let s := Stats.run Fix.asIs {} [.packetReceived "a" .auth 10]
    s.g.cum (.bytesIn (some .auth)) = 10 ∧ view Fix.asIs s.g (.bytesIn (some .auth)) = 0 ∧
    view Fix.asIs s.g (.bytesIn none) = 10 ∧ view Fix.all s.g (.bytesIn (some .auth)) = 10 := by
  decide

/-! ## non-vacuity -/

/-- a legal history with a take-over, a stored session and an expiry; its notifier log is well-formed -/
example :
    let acts : List Act := [.connectNew "a", .other (.addQueueLen "a" 2), .other (.addInflight "a" 2), .closeKeep "a",
      .connectResume "a", .other (.decInflight "a" 1), .other (.decQueueLen "a" 1), .closeKeep "a", .endOffline "a" .expired,
      .connectNew "b", .closeEnd "b"]
    Valid [] acts ∧ WFG {} (acts.flatMap Act.events) ∧
    (Stats.run Fix.all {} (acts.flatMap Act.events)).g.inflight = 0 ∧
    (Stats.run Fix.asIs {} (acts.flatMap Act.events)).g.queued = 1 := by
  decide

end GmqttVerif.Stats
