import GmqttVerif.Generated.MuHeld
/-
  C20 — the session-scoped statistics events happen inside the critical section that starts / ends the session.

  `Properties/C20.lean` proves the gauges and the per-client figures exact for logs that are `Valid` with respect to the session
  table: the events booked under a client id (`sessionActive`/`clientConnected` when a session of that id is registered,
  `sessionTerminated` when it is removed — the latter deletes the per-client entry and subtracts its gauges) come in the order
  of the session's life. In the broker that order is what `srv.mu` gives: a new session of the same client id can be registered
  as soon as the lock is free, so an end-of-session event booked after the lock was released could land behind the events of the
  NEXT session of that id and wipe its figures (seeded change C20-5). `Generated/MuHeld.lean` (re-read from server/*.go on every
  run) classifies every call site of these three `statsManager` methods like the call sites of `deliverMessage`.
-/
namespace GmqttVerif.C20Source
open GmqttVerif.Generated

/-- Every call of `statsManager.sessionTerminated`, `sessionActive` and `clientConnected` in package server is made with
    `srv.mu` held: inside a `…Locked` function (2), after a `mu.Lock()` with no `Unlock` in between (1), or after
    `lockDuplicatedID`, which returns holding the lock (3; deferred literals start in the state their function ends in).
    There is at least one site for each of the three events. -/
theorem session_stats_events_under_mu :
    (∀ c ∈ statsSessionSiteCodes, c = 1 ∨ c = 2 ∨ c = 3) ∧ statsSessionSiteCodes.length = statsSessionSites.length
    ∧ 3 ≤ statsSessionSiteCodes.length := by
  decide

end GmqttVerif.C20Source
