import GmqttVerif.Proofs.ResyncRace
import GmqttVerif.Generated.FedResync
/-
  C16 (last clause) / C17 — "When the peer has lost the session a full resynchronisation restores that equality", for every
  interleaving of the resynchronisation with concurrently emitted subscription events.

  `Model/ResyncRace.lean` is the transition system of the two goroutines involved (`initStream` of the peer and a client's
  subscription hook); `Generated/FedResync.lean` is the order of the resynchronisation's statements as the source has them now.
-/
namespace GmqttVerif.ResyncRace
open GmqttVerif.Generated

/-- `resync_restores_equality`: the resynchronisation as the source orders it (clear the queue, then queue a Subscribe for every
    local topic under the `localSubStore` lock), interleaved in ANY way with ANY sequence of subscription hooks (each an update of
    `localSubStore` followed — possibly much later — by the event), from any earlier queue contents: once the
    resynchronisation has finished, what the peer gets by replaying the queue on its emptied state, the event of a hook that is
    still on its way included, is the node's local subscription state. -/
theorem resync_restores_equality (loc : Bool) (q0 : List Bool) (acts : List Act) (t : S)
    (hr : run { loc := loc, q := q0, prog := asIs } acts = some t) (hdone : t.prog = []) :
    remoteOf (t.q ++ t.pend.toList) = t.loc :=
  (inv_run acts (inv_init loc q0) hr).synced hdone

/-- …in particular when no hook is in flight the queue alone gives the local state -/
theorem resync_restores_equality_quiet (loc : Bool) (q0 : List Bool) (acts : List Act) (t : S)
    (hr : run { loc := loc, q := q0, prog := asIs } acts = some t) (hdone : t.prog = []) (hq : t.pend = none) :
    remoteOf t.q = t.loc := by
  have := resync_restores_equality loc q0 acts t hr hdone
  simpa [hq] using this

/-- the other order loses: with the snapshot taken before the queue is cleared, a SUBSCRIBE that completes in between is in
    neither — the peer never learns of the topic (seeded change C17-5) -/
theorem snapshot_first_can_lose :
    ∃ acts t, run { loc := false, prog := snapshotFirst } acts = some t ∧ t.prog = [] ∧ t.pend = none ∧
      t.loc = true ∧ remoteOf t.q = false :=
  ⟨[.resync, .upd true, .emit, .resync, .resync], _, rfl, rfl, rfl, rfl, rfl⟩

/-- the source orders the resynchronisation the safe way: `p.queue.clear()`, then `localSubStore.Lock()`, the loop that queues a
    Subscribe per local topic, `Unlock()`, then the retained messages and the read position (re-read on every run) -/
theorem source_resync_order : ofCodes resyncOrderN = some asIs := by decide

/-- non-vacuity: a run in which the hook's update falls between `clear` and the snapshot, and its event after both -/
example : ∃ t, run { loc := false, q := [false], prog := asIs } [.resync, .upd true, .resync, .emit] = some t ∧
    t.prog = [] ∧ t.q = [true, true] ∧ t.loc = true := ⟨_, rfl, rfl, rfl, rfl⟩

namespace Retained

/-- OBSERVATION (not a clause of C16/C17, recorded in findings/c17-resync-retained-window.md): a retained PUBLISH whose
    `OnMsgArrived` hook has queued the message event but whose retained-store update has not happened yet, when a clean-start
    resynchronisation clears the queue and walks the retained store, reaches the peer neither way. -/
theorem retained_publish_during_resync_can_be_missed :
    run [.pubEmit, .clear, .iterate, .pubStore] = { stored := true, queued := false } := rfl

/-- every other placement of the two resynchronisation steps delivers it -/
theorem retained_other_interleavings_deliver :
    ∀ l ∈ [[Step.clear, .iterate, .pubEmit, .pubStore], [.clear, .pubEmit, .iterate, .pubStore], [.clear, .pubEmit, .pubStore, .iterate],
           [.pubEmit, .clear, .pubStore, .iterate], [.pubEmit, .pubStore, .clear, .iterate]], (run l).queued = true := by
  decide

end Retained

end GmqttVerif.ResyncRace
