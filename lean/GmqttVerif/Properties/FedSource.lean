import GmqttVerif.Generated.FedFuncs
/-
  C16 / C17 — the federation functions the models transcribe are still the text they were written from.

  `Generated/FedFuncs.lean` (rewritten from plugin/federation/*.go on every check run) holds the FNV-1a-64 fingerprint of the
  normalised body of each function listed below. The federation models (`Model/Fed/*.lean`) transcribe these functions
  statement by statement, and the protocol invariant of `Properties/C16.lean` rests on orderings inside them that no
  sequential run observes (an event id is tested and recorded as seen in one step, before the event is applied; the queue
  assigns the id and links the element under one lock; …). The streams of `bin/check C16` / `C17` execute the real functions in
  lock-step only, so a change of one of these bodies is reported here — as a broken tie, with the function's name — and the
  model has to be re-read against the new text before the expected fingerprint is updated.
-/
namespace GmqttVerif.FedSource
open GmqttVerif.Generated

/-- expected fingerprints, in the order of `Generated.fedFuncNames` -/
def expected : List Nat :=
    [8244562837683445325   /- eventQueue.clear -/,
     1314350454759654546   /- eventQueue.setReadPosition -/,
     11935669108534661278   /- eventQueue.add -/,
     14570052105748891929   /- eventQueue.fetchEvents -/,
     13466581842588607657   /- eventQueue.ack -/,
     8263579903327322797   /- sessionMgr.add -/,
     7604578171616135796   /- lruCache.set -/,
     4391678797139311040   /- Federation.Hello -/,
     11208066102445656144   /- Federation.eventStreamHandler -/,
     13658107773683556772   /- localSubStore.subscribeLocked -/,
     4451902757190933891   /- localSubStore.decTopicCounterLocked -/,
     5820973364520688912   /- localSubStore.unsubscribe -/,
     8235718348503058624   /- localSubStore.unsubscribeAll -/,
     10683416395796182843   /- Federation.OnSubscribedWrapper -/,
     2304842246015144914   /- Federation.OnUnsubscribedWrapper -/,
     5384316802070583087   /- Federation.OnSessionTerminatedWrapper -/,
     13010866702533733856   /- sendSharedMsg -/,
     4166329027662608509   /- Federation.sendMessage -/,
     8933671266491609767   /- Federation.OnMsgArrivedWrapper -/,
     2067191168662279666   /- Federation.OnWillPublishWrapper -/,
     14018921388777623122   /- peer.initStream -/]

/-- event queue, peer session, duplicate filter, resume decision, event application, local reference counts and the hooks
    that emit Subscribe / Unsubscribe events (C16) -/
theorem event_protocol_functions_as_transcribed : fedFuncsH.take 16 = expected.take 16 := by decide

/-- routing: `sendSharedMsg`, `sendMessage` and the two hooks that call it (C17) -/
theorem routing_functions_as_transcribed :
    (fedFuncsH.drop 16).take 4 = (expected.drop 16).take 4 ∧ fedFuncsH.length = 21 := by decide

/-- the handshake and the clean-start resynchronisation (`initStream`): the order of its statements is also read as facts
    (`Generated/FedResync.lean`, `Properties/FedResync.lean`) -/
theorem init_stream_as_transcribed : fedFuncsH.drop 20 = expected.drop 20 := by decide

end GmqttVerif.FedSource
