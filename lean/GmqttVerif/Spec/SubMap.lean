import GmqttVerif.Model.SubStore
/-
  Abstract specification of the subscription store: a finite map from (client, share name, topic filter)
  to the subscription (with its latest options). Nothing else — no trie, no index, no counters.
-/
namespace GmqttVerif.SubStore

structure Key where
  client : Str
  share  : Str
  filter : Str
  deriving DecidableEq, Repr

abbrev SubMap := List (Key × Sub)

namespace Spec

/-- one operation on the abstract map; the Bool is "this key was already present" -/
def step (m : SubMap) : Op → SubMap × Bool
  | .sub c s => (AL.set ⟨c, s.share, s.filter⟩ s m, AL.has ⟨c, s.share, s.filter⟩ m)
  | .unsub c full => (AL.del ⟨c, (Topic.splitTopic full).1, (Topic.splitTopic full).2⟩ m, false)
  | .unsubAll c => (m.filter (fun e => !decide (e.1.client = c)), false)

def run (m : SubMap) : List Op → SubMap × List Bool
  | [] => (m, [])
  | op :: ops =>
    let (m1, b) := step m op
    let (m2, bs) := run m1 ops
    (m2, b :: bs)

/-- number of subscribe operations that created a new key (`SubscriptionsTotal`), from the history and its flags -/
def created : List Op → List Bool → Nat
  | .sub _ _ :: ops, false :: bs => 1 + created ops bs
  | _ :: ops, _ :: bs => created ops bs
  | _, _ => 0

end Spec

/-- which `IterationType` bit an entry belongs to: 2 = Shared, 1 = SYS (`$` filter), 4 = NonShared -/
def classBit (share filter : Str) : Nat :=
  match whichOf share filter with
  | .shared => 2
  | .system => 1
  | .user => 4

end GmqttVerif.SubStore
